(* C15 — Certificates, requests and CRLs parse as issued and verify only as issued.
   Only final statements; every proof is one [exact]. *)
From Coq Require Import ZArith NArith List Bool.
From GmVerif Require Import Pki.X509Codec Pki.X509CodecProofs.
Import ListNotations.
Open Scope N_scope.

(* DER definite lengths and TLVs round-trip for every length the C code can emit *)
Theorem C15_tlv_roundtrip : forall t c r, len c < 2147483648 -> tlv_dec (tlv t c ++ r) = Some (t, c, r).
Proof. exact tlv_round. Qed.
Print Assumptions C15_tlv_roundtrip.

(* generic combinator: a positional record of self-delimiting (optional) fields round-trips *)
Theorem C15_fields_roundtrip : forall sp vs rest, wf sp vs rest ->
  dec_items sp (enc_items vs ++ rest) = Some (vs, rest).
Proof. exact dec_items_round. Qed.
Print Assumptions C15_fields_roundtrip.

(* issue, then get_details: exactly the supplied fields come back, and the signature was
   computed over exactly the TBS encoding that get_details/verify see *)
Theorem C15_get_details_of_sign : forall layout vs alg sigf,
  wf layout vs [] ->
  let tbs := tlv T_SEQ (enc_items vs) in
  len (enc_items vs) < 2147483648 -> len alg < 2147483648 -> len (0 :: sigf tbs) < 2147483648 ->
  len (tbs ++ tlv T_SEQ alg ++ tlv T_BITS (0 :: sigf tbs)) < 2147483648 ->
  signed_from_der (sign_to_der vs alg sigf) = Some (tbs, alg, sigf tbs) /\
  get_details layout (sign_to_der vs alg sigf) = Some (vs, alg, sigf tbs).
Proof. exact get_details_of_sign. Qed.
Print Assumptions C15_get_details_of_sign.

(* every value list the issuing functions compose is well-formed for its layout *)
Theorem C15_tbs_cert_admissible : forall v0 serial alg issuer validity subject spki iu su ex,
  (v0 = None \/ exists c, v0 = Some (T_CTX 0, c)) ->
  (iu = None \/ exists c, iu = Some (T_IMP 1, c)) ->
  (su = None \/ exists c, su = Some (T_IMP 2, c)) ->
  (ex = None \/ exists c, ex = Some (T_CTX 3, c)) ->
  Forall sized [v0; Some (T_INT, serial); Some (T_SEQ, alg); Some (T_SEQ, issuer); Some (T_SEQ, validity);
                Some (T_SEQ, subject); Some (T_SEQ, spki); iu; su; ex] ->
  wf tbs_cert_layout [v0; Some (T_INT, serial); Some (T_SEQ, alg); Some (T_SEQ, issuer); Some (T_SEQ, validity);
                      Some (T_SEQ, subject); Some (T_SEQ, spki); iu; su; ex] [].
Proof. exact wf_tbs_cert. Qed.
Print Assumptions C15_tbs_cert_admissible.

Theorem C15_req_info_admissible : forall version subject spki attrs,
  Forall sized [Some (T_INT, version); Some (T_SEQ, subject); Some (T_SEQ, spki); Some (T_CTX 0, attrs)] ->
  wf req_info_layout [Some (T_INT, version); Some (T_SEQ, subject); Some (T_SEQ, spki); Some (T_CTX 0, attrs)] [].
Proof. exact wf_req_info. Qed.
Print Assumptions C15_req_info_admissible.

Theorem C15_tbs_crl_admissible : forall ver alg issuer this next revoked exts,
  (ver = None \/ exists c, ver = Some (T_INT, c)) ->
  is_time this -> (next = None \/ is_time next) ->
  (revoked = None \/ exists c, revoked = Some (T_SEQ, c)) ->
  (exts = None \/ exists c, exts = Some (T_CTX 0, c)) ->
  Forall sized [ver; Some (T_SEQ, alg); Some (T_SEQ, issuer); this; next; revoked; exts] ->
  wf tbs_crl_layout [ver; Some (T_SEQ, alg); Some (T_SEQ, issuer); this; next; revoked; exts] [].
Proof. exact wf_tbs_crl. Qed.
Print Assumptions C15_tbs_crl_admissible.

(* verification of what was issued; rejection of another key (with the named idealisation),
   of a foreign algorithm identifier and of trailing bytes *)
Theorem C15_verify_issued : forall (key : Type) (sign : key -> list N -> list N) (check : key -> list N -> list N -> bool),
  (forall k m, check k m (sign k m) = true) ->
  forall k vs, sizes_ok vs alg_sm2sm3 (sign k) ->
  signed_verify key check k (sign_to_der vs alg_sm2sm3 (sign k)) = true.
Proof. exact verify_issued. Qed.
Print Assumptions C15_verify_issued.

Theorem C15_other_key_rejected_partial : forall (key : Type) (sign : key -> list N -> list N) (check : key -> list N -> list N -> bool),
  (forall k k' m, k <> k' -> check k' m (sign k m) = false) ->
  forall k k' vs, k <> k' -> sizes_ok vs alg_sm2sm3 (sign k) ->
  signed_verify key check k' (sign_to_der vs alg_sm2sm3 (sign k)) = false.
Proof. exact other_key_rejected_partial. Qed.
Print Assumptions C15_other_key_rejected_partial.

Theorem C15_alg_mismatch_rejected : forall (key : Type) (check : key -> list N -> list N -> bool) k vs alg sigf,
  sizes_ok vs alg sigf -> alg <> alg_sm2sm3 -> alg <> alg_sm2sm3_null ->
  signed_verify key check k (sign_to_der vs alg sigf) = false.
Proof. exact alg_mismatch_rejected. Qed.
Print Assumptions C15_alg_mismatch_rejected.

(* acceptance by x509_signed_verify implies: identifier is sm2sign-with-sm3 AND the signature checks over the TBS bytes *)
Theorem C15_verify_decision_rule : forall (key : Type) (check : key -> list N -> list N -> bool) k a,
  signed_verify key check k a = true ->
  exists tbs alg sig, signed_from_der a = Some (tbs, alg, sig) /\
    (alg = alg_sm2sm3 \/ alg = alg_sm2sm3_null) /\ check k tbs sig = true.
Proof. exact signed_verify_decision_rule. Qed.
Print Assumptions C15_verify_decision_rule.

Theorem C15_trailing_rejected : forall (key : Type) (check : key -> list N -> list N -> bool) k vs alg sigf x r,
  sizes_ok vs alg sigf -> signed_verify key check k (sign_to_der vs alg sigf ++ x :: r) = false.
Proof. exact trailing_rejected. Qed.
Print Assumptions C15_trailing_rejected.

(* CRL lookup: found = the first entry carrying exactly these serial bytes, nothing unparsable before it *)
Theorem C15_crl_lookup_found : forall es serial date exts,
  find_revoked es serial = LFound date exts <->
  exists pre post, es = pre ++ Some (serial, date, exts) :: post /\
    Forall (fun e => exists s d x, e = Some (s, d, x) /\ s <> serial) pre.
Proof. exact find_revoked_found. Qed.
Print Assumptions C15_crl_lookup_found.

(* reported revoked exactly when listed *)
Theorem C15_crl_lookup_iff_listed : forall es serial,
  Forall (fun e => e <> None) es ->
  ((exists date exts, find_revoked es serial = LFound date exts) <-> In (Some serial) (map serial_of es)) /\
  (find_revoked es serial = LNotFound <-> ~ In (Some serial) (map serial_of es)) /\
  find_revoked es serial <> LErr.
Proof. exact crl_lookup_iff_listed. Qed.
Print Assumptions C15_crl_lookup_iff_listed.

Theorem C15_crl_lookup_unparsable_entry_is_error : forall pre post serial,
  Forall (fun e => exists s d x, e = Some (s, d, x) /\ s <> serial) pre ->
  find_revoked (pre ++ None :: post) serial = LErr.
Proof. exact crl_lookup_err. Qed.
Print Assumptions C15_crl_lookup_unparsable_entry_is_error.

(* Extension TLV composition (x509_ext_to_der_ex / x509_ext_to_der, two-pass encoders): the
   dry-run size equals the emitted length, the emit pass writes the nested TLV, and
   x509_ext_from_der consumes exactly that - for every content length up to the C limit,
   hence across the length-of-length boundaries 127/128, 255/256, 65535/65536 *)
Theorem C15_ext_ex_size_is_emitted_length : forall oidtlv critical d,
  ext_ex_size oidtlv critical (len d) = len (oidtlv ++ bool_tlv critical ++ tlv 4 (tlv 48 d)).
Proof. exact ext_ex_size_ok. Qed.
Print Assumptions C15_ext_ex_size_is_emitted_length.

Theorem C15_ext_ex_emit_is_nested_tlv : forall oidtlv critical d,
  ext_ex_emit oidtlv critical d = ext_spec oidtlv critical (tlv 48 d).
Proof. exact ext_ex_emit_eq_spec. Qed.
Print Assumptions C15_ext_ex_emit_is_nested_tlv.

Theorem C15_ext_emit_is_nested_tlv : forall oidtlv critical val,
  ext_size oidtlv critical (len val) = len (oidtlv ++ bool_tlv critical ++ tlv 4 val) /\
  ext_emit oidtlv critical val = ext_spec oidtlv critical val.
Proof. exact (fun o c v => conj (ext_size_ok o c v) (ext_emit_eq_spec o c v)). Qed.
Print Assumptions C15_ext_emit_is_nested_tlv.

Theorem C15_ext_issue_parse : forall oidc critical d rest,
  len oidc < 2147483648 -> len (tlv 48 d) < 2147483648 ->
  len (tlv 6 oidc ++ bool_tlv critical ++ tlv 4 (tlv 48 d)) < 2147483648 ->
  ext_from_der (ext_ex_emit (tlv 6 oidc) critical d ++ rest) =
    Some ([Some (6, oidc); bool_value critical; Some (4, tlv 48 d)], rest).
Proof. exact ext_ex_issue_parse. Qed.
Print Assumptions C15_ext_issue_parse.

(* x509_cert_check_crl: "clean" through the high-level entry point exactly when the CRL was fetched, is
   well-formed and fresh, names the certificate's issuer, verifies under the CA, and does not list the serial *)
Theorem C15_cert_check_crl_ok_iff : forall fetch p c i s es serial,
  Forall (fun e => e <> None) es ->
  (cert_check_crl fetch p c i s es serial = true <->
   fetch = FetchOk /\ p = true /\ c = true /\ i = true /\ s = true /\ ~ In (Some serial) (map serial_of es)).
Proof. exact cert_check_crl_ok_iff. Qed.
Print Assumptions C15_cert_check_crl_ok_iff.

Theorem C15_cert_check_crl_listed : forall fetch p c i s es serial,
  Forall (fun e => e <> None) es -> In (Some serial) (map serial_of es) ->
  cert_check_crl fetch p c i s es serial = false.
Proof. exact cert_check_crl_listed. Qed.
Print Assumptions C15_cert_check_crl_listed.

(* wave 5 *)
(* names composed by x509_name_add_* / x509_name_set parse back to exactly the attributes supplied *)
Theorem C15_name_roundtrip : forall l der, name_build l = Some der -> name_dec (S (length l)) der = Some l.
Proof. exact name_roundtrip. Qed.
Print Assumptions C15_name_roundtrip.

Theorem C15_name_build_sound : forall l der, name_build l = Some der ->
  Forall (fun a => attr_ok a = true) l /\ der = name_enc l.
Proof. exact name_build_sound. Qed.
Print Assumptions C15_name_build_sound.

Theorem C15_name_get_value_first : forall l t tag v,
  name_get_value l t = Some (tag, v) <->
  exists pre post, l = pre ++ (t, tag, v) :: post /\ Forall (fun a => fst (fst a) <> t) pre.
Proof. exact name_get_value_first. Qed.
Print Assumptions C15_name_get_value_first.

Theorem C15_certs_by_index : forall A (l : list (option A)) i a,
  certs_by_index l i = FHit a <-> (nth_error l i = Some (Some a) /\ Forall (fun x => x <> None) (firstn i l)).
Proof. exact certs_by_index_hit. Qed.
Print Assumptions C15_certs_by_index.

(* x509_crl_check, over unbounded integers *)
Theorem C15_crl_check_exact : forall agree version this next now exts,
  crl_check agree version this next now exts = true <->
  (agree = true /\ (version = 0 \/ version = 1)%Z /\ (this <= now)%Z /\
   (forall n, next = Some n -> (now < n)%Z) /\
   Forall (fun e => fst e <> CE_delta_or_idp /\ snd e <> 1%Z) exts).
Proof. exact crl_check_exact. Qed.
Print Assumptions C15_crl_check_exact.

(* GeneralName: with the writer repaired (constructed tag for otherName / x400Address / directoryName / ediPartyName)
   every name the builder emits reads back as the same choice and content; the tree as found does not *)
Theorem C15_general_name_roundtrip : forall choice d der rest,
  len d < 2147483648 -> general_name_enc true choice d = Some der ->
  general_name_dec (der ++ rest) = Some (choice, d, rest).
Proof. exact general_name_roundtrip. Qed.
Print Assumptions C15_general_name_roundtrip.

Theorem C15_general_name_roundtrip_refuted_legacy :
  exists choice d der, general_name_enc false choice d = Some der /\ general_name_dec der = None.
Proof. exact general_name_roundtrip_refuted_legacy. Qed.
Print Assumptions C15_general_name_roundtrip_refuted_legacy.

Theorem C15_validity_add_days_ok : forall nb days na, validity_add_days nb days = Some na ->
  (nb < na /\ na - nb <= 3653 * 86400 /\ na - nb = days * 86400)%Z.
Proof. exact validity_add_days_ok. Qed.
Print Assumptions C15_validity_add_days_ok.
