(* C07 — chains "built the way the toolkit's own CA commands build them" (tools/certgen.c,
   tools/reqsign.c) and completeness of the verifiers on them. *)
From Coq Require Import ZArith NArith List Bool Lia.
From GmVerif Require Import Pki.X509Path Pki.X509PathProofs.
Import ListNotations.
Open Scope Z_scope.

(* the optional extensions certgen/reqsign add, with the criticality they hard-code *)
Record tk_opts := mk_tk_opts {
  tk_aki : bool; tk_ski : bool; tk_san : bool; tk_ian : bool;
  tk_crldp : bool; tk_iap : bool; tk_aia : bool }.

Definition opt (b : bool) (x : ext) : list ext := if b then [x] else [].

(* same order as the tools emit them *)
Definition tk_exts (o : tk_opts) (ku : option N) (bc : option (Z * Z)) (eku : list purpose) : list ext :=
  opt (tk_aki o) (mk_ext true (-1) XAuthKeyId) ++
  opt (tk_ski o) (mk_ext true (-1) (XSubjKeyId true)) ++
  match ku with Some b => [mk_ext true 1 (XKeyUsage (Some b))] | None => [] end ++
  opt (tk_san o) (mk_ext true (-1) XSubjAltName) ++
  opt (tk_ian o) (mk_ext true (-1) XIssuerAltName) ++
  match bc with Some v => [mk_ext true 1 (XBasic (Some v))] | None => [] end ++
  match eku with [] => [] | _ => [mk_ext true (-1) (XExtKeyUsage (Some eku))] end ++
  opt (tk_crldp o) (mk_ext true (-1) XUnchecked) ++
  opt (tk_iap o) (mk_ext true 1 XUnchecked) ++
  opt (tk_aia o) (mk_ext true 0 XUnknown).

Definition toolkit_cert (now : Z) (c : cert) (ku : option N) (bc : option (Z * Z)) (eku : list purpose) : Prop :=
  c_parse_ok c = true /\ c_version c = 2 /\ c_serial_len c <> 0%N /\ (c_inner_alg c = AlgSM2 /\ c_outer_alg c = AlgSM2) /\
  c_issuer c <> 0%N /\ c_subject c <> 0%N /\
  c_not_before c < c_not_after c /\ c_not_after c - c_not_before c <= X509_VALIDITY_MAX_SECONDS /\
  c_not_before c <= now <= c_not_after c /\
  exists o, c_exts c = tk_exts o ku bc eku.

(* -ca -path_len_constraint pl [-key_usage keyCertSign [-key_usage cRLSign ...]] *)
Definition toolkit_ca (now : Z) (c : cert) (pl : Z) : Prop :=
  exists ku, (forall b, ku = Some b -> N.testbit b KU_KEY_CERT_SIGN = true) /\
             toolkit_cert now c ku (Some (1, pl)) [].

(* end entity: no basicConstraints; key usage (if any) has the role's bit and neither
   keyCertSign nor cRLSign; extended key usage (if any) names the role's purpose *)
Definition toolkit_leaf (now : Z) (r : role) (bit : N) (c : cert) : Prop :=
  exists ku eku,
    (forall b, ku = Some b -> N.testbit b bit = true /\
        N.testbit b KU_KEY_CERT_SIGN = false /\ N.testbit b KU_CRL_SIGN = false) /\
    (eku = [] \/ In (role_purpose r) eku) /\
    toolkit_cert now c ku None eku.

Definition intermediates_ok (now : Z) (cas : list cert) : Prop :=
  forall k i, nth_error cas k = Some i -> toolkit_ca now i (Z.of_nat k).

(* the trust store: the root is the first certificate carrying its subject, everything in
   front of it parses *)
Definition store_finds (store : list cert) (root : cert) : Prop :=
  exists pre post, store = pre ++ root :: post /\
    Forall (fun c => get_details_ok c = true /\ c_subject c <> c_subject root) pre.

Definition toolkit_root (now : Z) (root : cert) (ncas : Z) : Prop :=
  exists pl, (pl = -1 \/ ncas <= pl) /\ toolkit_ca now root pl /\ issued_by root root.

Definition toolkit_chain (now : Z) (r : role) (store chain : list cert) : Prop :=
  exists leaf cas root,
    chain = leaf :: cas /\ store_finds store root /\
    toolkit_leaf now r KU_DIGITAL_SIGNATURE leaf /\
    intermediates_ok now cas /\
    toolkit_root now root (Z.of_nat (length cas)) /\
    linked (chain ++ [root]).

Definition toolkit_chain_tlcp (now : Z) (r : role) (store chain : list cert) : Prop :=
  exists sign kenc cas root,
    chain = sign :: kenc :: cas /\ store_finds store root /\
    toolkit_leaf now r KU_DIGITAL_SIGNATURE sign /\
    toolkit_leaf now r KU_KEY_ENCIPHERMENT kenc /\
    intermediates_ok now cas /\
    toolkit_root now root (Z.of_nat (length cas)) /\
    linked (sign :: cas ++ [root]) /\
    issued_by kenc (hd root cas).

(* ------------------------------------------------------------------ extension loop, complete form *)

Definition ext_acc (t : cert_type) (x : ext) : bool :=
  match ext_step t (0, 0) x with Some _ => true | None => false end.

Lemma ext_step_acc : forall t st x,
  ext_step t st x = if ext_acc t x then Some (match x_body x with XBasic (Some v) => v | _ => st end) else None.
Proof.
  intros t st x. unfold ext_acc, ext_step.
  destruct (x_ok x); cbn; [|reflexivity].
  destruct (x_body x) as [ |ok|[b|]| | | | | |[[ca pl]|]|[l|]| | ]; cbn;
    repeat match goal with |- context [if ?b then _ else _] => destruct b end; reflexivity.
Qed.

Lemma exts_loop_acc : forall t xs acc,
  forallb (ext_acc t) xs = true ->
  exts_loop t (st_of acc) xs = Some (st_of (fold_left bc_step xs acc)).
Proof.
  induction xs as [|x r IH]; cbn; intros acc H; [reflexivity|].
  apply andb_true_iff in H. destruct H as [Hx Hr].
  rewrite ext_step_acc, Hx.
  replace (match x_body x with XBasic (Some v) => v | _ => st_of acc end) with (st_of (bc_step acc x)).
  - apply IH; exact Hr.
  - unfold bc_step. destruct (x_body x) as [ | | | | | | | |[v|]| | | ]; reflexivity.
Qed.

Lemma forallb_opt : forall (p : ext -> bool) b x, p x = true -> forallb p (opt b x) = true.
Proof. intros p [] x H; cbn; [rewrite H|]; reflexivity. Qed.

Lemma tk_exts_acc : forall t o ku bc eku,
  (forall b, ku = Some b -> key_usage_check b t = true) ->
  (forall ca pl, bc = Some (ca, pl) -> basic_constraints_check ca pl t = true) ->
  (eku = [] \/ ext_key_usage_check eku t = 1) ->
  forallb (ext_acc t) (tk_exts o ku bc eku) = true.
Proof.
  intros t o ku bc eku Hku Hbc Heku. unfold tk_exts.
  repeat rewrite forallb_app. repeat (apply andb_true_iff; split);
    try (apply forallb_opt; reflexivity).
  - destruct ku as [b|]; [|reflexivity]. cbn. unfold ext_acc, ext_step. cbn.
    rewrite (Hku b eq_refl). reflexivity.
  - destruct bc as [[ca pl]|]; [|reflexivity]. cbn. unfold ext_acc, ext_step. cbn.
    rewrite (Hbc ca pl eq_refl). reflexivity.
  - destruct eku as [|e l]; [reflexivity|]. destruct Heku as [H|H]; [discriminate|].
    cbn [forallb]. unfold ext_acc, ext_step. cbn [x_ok x_critical x_body negb]. rewrite H. reflexivity.
Qed.

Lemma fold_bc_opt : forall b x acc, (forall v, x_body x <> XBasic (Some v)) -> fold_left bc_step (opt b x) acc = acc.
Proof.
  intros [] x acc H; cbn; [|reflexivity]. unfold bc_step.
  destruct (x_body x) as [ | | | | | | | |[v|]| | | ]; try reflexivity. exfalso; apply (H v); reflexivity.
Qed.

Lemma tk_exts_bc : forall o ku bc eku, fold_left bc_step (tk_exts o ku bc eku) None = bc.
Proof.
  intros o ku bc eku. unfold tk_exts. repeat rewrite fold_left_app.
  repeat (rewrite fold_bc_opt by (intros v; cbn; discriminate)).
  assert (forall acc, fold_left bc_step (match ku with Some b => [mk_ext true 1 (XKeyUsage (Some b))] | None => [] end) acc = acc) as E1
    by (intros acc; destruct ku; reflexivity).
  assert (forall acc, fold_left bc_step (match eku with [] => [] | _ => [mk_ext true (-1) (XExtKeyUsage (Some eku))] end) acc = acc) as E2
    by (intros acc; destruct eku; reflexivity).
  rewrite E1, E2. destruct bc as [v|]; reflexivity.
Qed.

Lemma exts_check_tk : forall f t o ku bc eku,
  (forall b, ku = Some b -> key_usage_check b t = true) ->
  (forall ca pl, bc = Some (ca, pl) -> basic_constraints_check ca pl t = true) ->
  (eku = [] \/ ext_key_usage_check eku t = 1) ->
  ((t = CT_ca \/ t = CT_root_ca) -> exists pl, bc = Some (1, pl)) ->
  exts_check f (tk_exts o ku bc eku) t = Some (snd (st_of bc)).
Proof.
  intros f t o ku bc eku Hku Hbc Heku Hca. unfold exts_check.
  change (-1, -1) with (st_of None). rewrite exts_loop_acc by (apply tk_exts_acc; assumption).
  rewrite tk_exts_bc. destruct (st_of bc) as [ca pl] eqn:E.
  assert (match t with CT_ca | CT_root_ca => true | _ => false end && negb (ca =? 1) = false) as Hz.
  { destruct t; try reflexivity.
    - destruct (Hca (or_introl eq_refl)) as [pl' Hp]. subst bc. cbn in E. inversion E; subst. reflexivity.
    - destruct (Hca (or_intror eq_refl)) as [pl' Hp]. subst bc. cbn in E. inversion E; subst. reflexivity. }
  rewrite <- andb_assoc, Hz, andb_false_r. reflexivity.
Qed.

(* ------------------------------------------------------------------ per-certificate completeness *)

Lemma toolkit_cert_details : forall now c ku bc eku, toolkit_cert now c ku bc eku -> get_details_ok c = true.
Proof.
  intros now c ku bc eku (Hp & _ & _ & (Hai & Hao) & _ & _ & Hlt & _). unfold get_details_ok.
  rewrite Hp, Hai, Hao. cbn. rewrite !andb_true_r. apply Z.ltb_lt. exact Hlt.
Qed.

Lemma cert_check_tk : forall f now c t ku bc eku,
  toolkit_cert now c ku bc eku ->
  (forall b, ku = Some b -> key_usage_check b t = true) ->
  (forall ca pl, bc = Some (ca, pl) -> basic_constraints_check ca pl t = true) ->
  (eku = [] \/ ext_key_usage_check eku t = 1) ->
  ((t = CT_ca \/ t = CT_root_ca) -> exists pl, bc = Some (1, pl)) ->
  cert_check f now c t = Some (snd (st_of bc)).
Proof.
  intros f now c t ku bc eku Htk Hku Hbc Heku Hca.
  pose proof (toolkit_cert_details _ _ _ _ _ Htk) as Hd.
  destruct Htk as (Hp & Hv & Hs & Ha & Hi & Hsu & Hlt & Hmax & Hnow & o & He).
  unfold cert_check. rewrite Hd, Hv. cbn.
  apply N.eqb_neq in Hs. rewrite Hs.
  assert (validity_check (c_not_before c) (c_not_after c) now = true) as Hvc.
  { unfold validity_check. rewrite !andb_true_iff, !Z.leb_le. lia. }
  rewrite Hvc. cbn. unfold name_check. apply N.eqb_neq in Hi. apply N.eqb_neq in Hsu. rewrite Hi, Hsu. cbn.
  rewrite He, (exts_check_tk f t o ku bc eku Hku Hbc Heku Hca). unfold c_alg_match. destruct Ha as [Ha1 Ha2]. rewrite Ha1, Ha2. reflexivity.
Qed.

Lemma testbit_nonzero : forall b i, N.testbit b i = true -> (b =? 0)%N = false.
Proof. intros b i H. apply N.eqb_neq. intro; subst. rewrite N.bits_0 in H. discriminate. Qed.

Lemma cert_check_toolkit_ca : forall f now c pl, toolkit_ca now c pl -> cert_check f now c CT_ca = Some pl.
Proof.
  intros f now c pl (ku & Hku & Htk).
  rewrite (cert_check_tk f now c CT_ca ku (Some (1, pl)) [] Htk); [reflexivity| | | |].
  - intros b Hb. specialize (Hku b Hb). unfold key_usage_check. rewrite (testbit_nonzero _ _ Hku). exact Hku.
  - intros ca pl' H. inversion H; subst. reflexivity.
  - left; reflexivity.
  - intros _. exists pl; reflexivity.
Qed.

Lemma eku_loop_in : forall l t r, 
  match t with
  | CT_server_auth | CT_server_kenc => In KP_server l
  | CT_client_auth | CT_client_kenc => In KP_client l
  | _ => False end -> eku_loop l t r = 1.
Proof.
  induction l as [|o l' IH]; intros t r H.
  - destruct t; destruct H.
  - cbn. destruct t; try contradiction; destruct o; try reflexivity; apply IH;
      (destruct H as [H|H]; [discriminate|exact H]).
Qed.

Definition leaf_type (r : role) (bit : N) : cert_type :=
  match r with
  | RoleClient => if (bit =? KU_KEY_ENCIPHERMENT)%N then CT_client_kenc else CT_client_auth
  | _ => if (bit =? KU_KEY_ENCIPHERMENT)%N then CT_server_kenc else CT_server_auth
  end.

Lemma cert_check_toolkit_leaf : forall f now r bit c,
  r <> RoleInvalid -> (bit = KU_DIGITAL_SIGNATURE \/ bit = KU_KEY_ENCIPHERMENT) ->
  toolkit_leaf now r bit c -> cert_check f now c (leaf_type r bit) = Some (-1).
Proof.
  intros f now r bit c Hr Hbit (ku & eku & Hku & Heku & Htk).
  rewrite (cert_check_tk f now c (leaf_type r bit) ku None eku Htk); [reflexivity| | | |].
  - intros b Hb. destruct (Hku b Hb) as (H1 & H2 & H3). unfold key_usage_check.
    rewrite (testbit_nonzero _ _ H1).
    destruct Hbit; subst bit; destruct r; try contradiction; cbn; rewrite H1, H2, H3; reflexivity.
  - intros ca pl H. discriminate.
  - destruct Heku as [H|H]; [left; exact H|right]. unfold ext_key_usage_check. apply eku_loop_in.
    destruct Hbit; subst bit; destruct r; try contradiction; exact H.
  - intros [H|H]; destruct Hbit; subst bit; destruct r; discriminate.
Qed.

(* ------------------------------------------------------------------ the loop and the anchor *)

Lemma verify_by_ca_of_issued : forall c ca, get_details_ok c = true -> get_details_ok ca = true ->
  issued_by c ca -> verify_by_ca c ca = true.
Proof.
  intros c ca H1 H2 (Hi & Ha & Hs). unfold verify_by_ca. rewrite H1, H2, Hi, N.eqb_refl, Ha, Hs. reflexivity.
Qed.

Lemma toolkit_ca_details : forall now c pl, toolkit_ca now c pl -> get_details_ok c = true.
Proof. intros now c pl (ku & _ & H). eapply toolkit_cert_details; exact H. Qed.

Lemma verify_loop_complete : forall f now depth kenc rest cur p,
  (forall k i, nth_error rest k = Some i -> toolkit_ca now i (p + Z.of_nat k)) ->
  0 <= p -> p + Z.of_nat (length rest) <= depth + 1 ->
  get_details_ok cur = true ->
  linked (cur :: rest) ->
  (p = 0 -> forall k c, kenc = Some k -> rest = c :: tl rest -> verify_by_ca k c = true) ->
  verify_loop f now depth kenc cur rest p = Some (last rest cur, p + Z.of_nat (length rest)).
Proof.
  intros f now depth kenc rest. induction rest as [|ca r IH]; intros cur p Hcas Hp0 Hd Hcur Hl Hk.
  - cbn. rewrite Z.add_0_r. reflexivity.
  - cbn [verify_loop].
    pose proof (Hcas 0%nat ca eq_refl) as Hca. rewrite Z.add_0_r in Hca.
    rewrite (toolkit_ca_details _ _ _ Hca). cbn [negb].
    rewrite (cert_check_toolkit_ca f now ca p Hca).
    replace ((p =? 0) && negb (p =? 0)) with false by (destruct (p =? 0); reflexivity).
    assert ((p =? 0) && match kenc with Some k => negb (verify_by_ca k ca) | None => false end = false) as Hk'.
    { destruct (p =? 0) eqn:E; [|reflexivity]. apply Z.eqb_eq in E. destruct kenc as [k|]; [|reflexivity].
      cbn. rewrite (Hk E k ca eq_refl eq_refl). reflexivity. }
    rewrite Hk'.
    assert (pathlen_fail p p depth = false) as Hpf.
    { unfold pathlen_fail. cbn [length] in Hd. rewrite orb_false_iff, andb_false_iff, !Z.ltb_ge. lia. }
    rewrite Hpf. cbn [linked] in Hl. destruct Hl as [Hi Hl].
    rewrite (verify_by_ca_of_issued cur ca Hcur (toolkit_ca_details _ _ _ Hca) Hi). cbn [negb].
    rewrite IH.
    + rewrite last_cons. cbn [length]. f_equal. f_equal. lia.
    + intros k i Hn. specialize (Hcas (S k) i Hn). replace (p + 1 + Z.of_nat k) with (p + Z.of_nat (S k)) by lia. exact Hcas.
    + lia.
    + cbn [length] in Hd. lia.
    + eapply toolkit_ca_details; exact Hca.
    + exact Hl.
    + intros Hz. lia.
Qed.

Lemma get_cert_by_subject_finds : forall store root, store_finds store root ->
  get_details_ok root = true -> get_cert_by_subject store (c_subject root) = inr root.
Proof.
  intros store root (pre & post & Hs & Hpre) Hd. subst store.
  induction pre as [|x r IH]; cbn.
  - rewrite Hd, N.eqb_refl. reflexivity.
  - inversion Hpre as [|? ? [Hx1 Hx2] Hr]; subst. rewrite Hx1. cbn.
    apply N.eqb_neq in Hx2. rewrite Hx2. apply IH; exact Hr.
Qed.

Lemma verify_anchor_complete : forall f now depth kenc store top root p,
  store_finds store root -> toolkit_root now root p -> 0 <= p <= depth ->
  get_details_ok top = true -> issued_by top root ->
  (p = 0 -> forall k, kenc = Some k -> verify_by_ca k root = true) ->
  verify_anchor f now depth kenc store top p = true.
Proof.
  intros f now depth kenc store top root p Hst (pl & Hpl & Hca & _) Hp Htop Hi Hk.
  unfold verify_anchor. rewrite Htop. cbn [negb].
  pose proof (toolkit_ca_details _ _ _ Hca) as Hrd.
  pose proof Hi as Hi0. destruct Hi as [Hi1 Hi2]. rewrite Hi1, (get_cert_by_subject_finds _ _ Hst Hrd).
  rewrite (cert_check_toolkit_ca f now root pl Hca).
  assert (pathlen_fail pl p depth = false) as Hpf.
  { unfold pathlen_fail. rewrite orb_false_iff, andb_false_iff, Z.leb_gt, !Z.ltb_ge. lia. }
  rewrite Hpf.
  assert ((p =? 0) && match kenc with Some k => negb (verify_by_ca k root) | None => false end = false) as Hk'.
  { destruct (p =? 0) eqn:E; [|reflexivity]. apply Z.eqb_eq in E. destruct kenc as [k|]; [|reflexivity].
    cbn. rewrite (Hk E k eq_refl). reflexivity. }
  rewrite Hk'. apply verify_by_ca_of_issued; [exact Htop|exact Hrd|exact Hi0].
Qed.

(* ------------------------------------------------------------------ completeness *)

Lemma linked_split : forall l cur b, linked ((cur :: l) ++ [b]) -> linked (cur :: l) /\ issued_by (last l cur) b.
Proof.
  induction l as [|a r IH]; intros cur b H.
  - cbn in H. cbn. tauto.
  - change ((cur :: a :: r) ++ [b]) with (cur :: ((a :: r) ++ [b])) in H. cbn [linked app] in H.
    destruct H as [H1 H2]. apply IH in H2. destruct H2 as [H2 H3].
    split; [cbn [linked]; split; assumption|]. rewrite last_cons. exact H3.
Qed.

Lemma last_details : forall now rest cur p,
  get_details_ok cur = true ->
  (forall k i, nth_error rest k = Some i -> toolkit_ca now i (p + Z.of_nat k)) ->
  get_details_ok (last rest cur) = true.
Proof.
  intros now rest. induction rest as [|a r IH]; intros cur p Hc Hi; [exact Hc|].
  rewrite last_cons. apply (IH a (p + 1)).
  - eapply toolkit_ca_details. apply (Hi 0%nat a eq_refl).
  - intros k i Hk. specialize (Hi (S k) i Hk). replace (p + 1 + Z.of_nat k) with (p + Z.of_nat (S k)) by lia. exact Hi.
Qed.

Theorem certs_verify_complete : forall f now r depth store chain,
  r <> RoleInvalid ->
  toolkit_chain now r store chain ->
  Z.of_nat (length chain) <= depth + 1 ->
  certs_verify f now r depth store chain = true.
Proof.
  intros f now r depth store chain Hr (leaf & cas & root & Hc & Hst & Hleaf & Hcas & Hroot & Hl) Hd.
  subst chain. cbn [length] in Hd.
  pose proof (cert_check_toolkit_leaf f now r KU_DIGITAL_SIGNATURE leaf Hr (or_introl eq_refl) Hleaf) as Hlc.
  assert (get_details_ok leaf = true) as Hld.
  { destruct Hleaf as (ku & eku & _ & _ & Htk). eapply toolkit_cert_details; exact Htk. }
  apply linked_split in Hl. destruct Hl as [Hl Hlast].
  assert (forall k i, nth_error cas k = Some i -> toolkit_ca now i (0 + Z.of_nat k)) as Hcas' by (intros k i Hk; apply (Hcas k i Hk)).
  assert (verify_loop f now depth None leaf cas 0 = Some (last cas leaf, 0 + Z.of_nat (length cas))) as HL.
  { apply verify_loop_complete; try lia; try assumption. intros _ k c Hk. discriminate. }
  assert (verify_anchor f now depth None store (last cas leaf) (0 + Z.of_nat (length cas)) = true) as HA.
  { apply (verify_anchor_complete f now depth None store (last cas leaf) root); try assumption.
    - lia.
    - apply (last_details now cas leaf 0 Hld Hcas').
    - intros _ k Hk. discriminate. }
  unfold certs_verify.
  destruct r; [| |contradiction]; cbn [leaf_type N.eqb KU_DIGITAL_SIGNATURE KU_KEY_ENCIPHERMENT] in Hlc;
    rewrite Hld, Hlc, HL, HA; reflexivity.
Qed.

Theorem certs_verify_tlcp_complete : forall f now r depth store chain,
  r <> RoleInvalid -> (r = RoleClient -> fix_tlcp_role f = true) ->
  toolkit_chain_tlcp now r store chain ->
  Z.of_nat (length chain) <= depth + 2 ->
  certs_verify_tlcp f now r depth store chain = true.
Proof.
  intros f now r depth store chain Hr Hfix
    (sign & kenc & cas & root & Hc & Hst & Hsign & Hkenc & Hcas & Hroot & Hl & Hki) Hd.
  subst chain. cbn [length] in Hd.
  pose proof (cert_check_toolkit_leaf f now r KU_DIGITAL_SIGNATURE sign Hr (or_introl eq_refl) Hsign) as Hsc.
  pose proof (cert_check_toolkit_leaf f now r KU_KEY_ENCIPHERMENT kenc Hr (or_intror eq_refl) Hkenc) as Hkc.
  assert (get_details_ok sign = true) as Hsd.
  { destruct Hsign as (ku & eku & _ & _ & Htk). eapply toolkit_cert_details; exact Htk. }
  assert (get_details_ok kenc = true) as Hkd.
  { destruct Hkenc as (ku & eku & _ & _ & Htk). eapply toolkit_cert_details; exact Htk. }
  change (sign :: cas ++ [root]) with ((sign :: cas) ++ [root]) in Hl.
  apply linked_split in Hl. destruct Hl as [Hl Hlast].
  assert (forall k i, nth_error cas k = Some i -> toolkit_ca now i (0 + Z.of_nat k)) as Hcas' by (intros k i Hk; apply (Hcas k i Hk)).
  assert (get_details_ok root = true) as Hrd.
  { destruct Hroot as (pl & _ & Hca & _). eapply toolkit_ca_details; exact Hca. }
  assert (verify_loop f now depth (Some kenc) sign cas 0 = Some (last cas sign, 0 + Z.of_nat (length cas))) as HL.
  { apply verify_loop_complete; try lia; try assumption.
    intros _ k c Hk Hc. inversion Hk; subst k. rewrite Hc in Hki. cbn in Hki.
    apply verify_by_ca_of_issued; [exact Hkd| |exact Hki].
    eapply toolkit_ca_details. apply (Hcas 0%nat c). rewrite Hc. reflexivity. }
  assert (verify_anchor f now depth (Some kenc) store (last cas sign) (0 + Z.of_nat (length cas)) = true) as HA.
  { apply (verify_anchor_complete f now depth (Some kenc) store (last cas sign) root); try assumption.
    - lia.
    - apply (last_details now cas sign 0 Hsd Hcas').
    - intros Hz k Hk. inversion Hk; subst k. destruct cas as [|c cas']; [|cbn [length] in Hz; lia].
      cbn in Hki. apply verify_by_ca_of_issued; assumption. }
  unfold certs_verify_tlcp.
  destruct r; [| |contradiction].
  - cbn [leaf_type N.eqb KU_DIGITAL_SIGNATURE KU_KEY_ENCIPHERMENT Pos.eqb] in Hsc, Hkc.
    rewrite Hsd, Hsc, Hkd, Hkc, HL, HA. reflexivity.
  - rewrite (Hfix eq_refl).
    cbn [leaf_type N.eqb KU_DIGITAL_SIGNATURE KU_KEY_ENCIPHERMENT Pos.eqb] in Hsc, Hkc.
    rewrite Hsd, Hsc, Hkd, Hkc, HL, HA. reflexivity.
Qed.

(* ------------------------------------------------------------------ satisfiability of the premises *)

Definition ex_sig (k : N) : key -> bool := fun k' => (k' =? k)%N.
Definition ex_opts := mk_tk_opts true true false false true false true.
Definition ex_root := mk_cert true 2 12%N AlgSM2 AlgSM2 1%N 1%N 1000 2000 1%N (ex_sig 1%N) (tk_exts ex_opts (Some 96%N) (Some (1, 6)) []).
Definition ex_ca := mk_cert true 2 12%N AlgSM2 AlgSM2 1%N 2%N 1000 2000 2%N (ex_sig 1%N) (tk_exts ex_opts (Some 96%N) (Some (1, 0)) []).
Definition ex_leaf := mk_cert true 2 12%N AlgSM2 AlgSM2 2%N 3%N 1000 2000 3%N (ex_sig 2%N) (tk_exts ex_opts (Some 1%N) None [KP_server]).
Definition ex_kenc := mk_cert true 2 12%N AlgSM2 AlgSM2 2%N 3%N 1000 2000 4%N (ex_sig 2%N) (tk_exts ex_opts (Some 4%N) None [KP_server]).

Lemma ex_tk_cert : forall c ku bc eku, c_exts c = tk_exts ex_opts ku bc eku ->
  c_parse_ok c = true -> c_version c = 2 -> c_serial_len c = 12%N -> (c_inner_alg c = AlgSM2 /\ c_outer_alg c = AlgSM2) ->
  (c_issuer c = 1 \/ c_issuer c = 2)%N -> (c_subject c = 1 \/ c_subject c = 2 \/ c_subject c = 3)%N ->
  c_not_before c = 1000 -> c_not_after c = 2000 -> toolkit_cert 1500 c ku bc eku.
Proof.
  intros c ku bc eku He Hp Hv Hs Ha Hi Hsu Hnb Hna. unfold toolkit_cert, X509_VALIDITY_MAX_SECONDS.
  rewrite Hp, Hv, Hs, Hnb, Hna.
  split; [reflexivity|]. split; [reflexivity|]. split; [discriminate|]. split; [exact Ha|].
  split; [destruct Hi as [H|H]; rewrite H; discriminate|].
  split; [destruct Hsu as [H|[H|H]]; rewrite H; discriminate|].
  split; [lia|]. split; [lia|]. split; [lia|].
  exists ex_opts; exact He.
Qed.

Example toolkit_chain_inhabited : toolkit_chain 1500 RoleServer [ex_root] [ex_leaf; ex_ca].
Proof.
  exists ex_leaf, [ex_ca], ex_root. split; [reflexivity|]. split; [|split; [|split; [|split]]].
  - exists [], []. split; [reflexivity|constructor].
  - exists (Some 1%N), [KP_server]. split; [|split].
    + intros b Hb. inversion Hb; subst. repeat split; reflexivity.
    + right; left; reflexivity.
    + apply ex_tk_cert; try reflexivity; auto.
  - intros k i Hk. destruct k as [|[|k]]; cbn in Hk; try discriminate. inversion Hk; subst i.
    exists (Some 96%N). split; [intros b Hb; inversion Hb; subst; reflexivity|].
    apply ex_tk_cert; try reflexivity; auto.
  - exists 6. split; [right; cbn; lia|]. split; [|repeat split; reflexivity].
    exists (Some 96%N). split; [intros b Hb; inversion Hb; subst; reflexivity|].
    apply ex_tk_cert; try reflexivity; auto.
  - cbn. repeat split; reflexivity.
Qed.

Example toolkit_chain_tlcp_inhabited : toolkit_chain_tlcp 1500 RoleServer [ex_root] [ex_leaf; ex_kenc; ex_ca].
Proof.
  exists ex_leaf, ex_kenc, [ex_ca], ex_root. split; [reflexivity|]. split; [|split; [|split; [|split; [|split; [|split]]]]].
  - exists [], []. split; [reflexivity|constructor].
  - exists (Some 1%N), [KP_server]. split; [|split].
    + intros b Hb. inversion Hb; subst. repeat split; reflexivity.
    + right; left; reflexivity.
    + apply ex_tk_cert; try reflexivity; auto.
  - exists (Some 4%N), [KP_server]. split; [|split].
    + intros b Hb. inversion Hb; subst. repeat split; reflexivity.
    + right; left; reflexivity.
    + apply ex_tk_cert; try reflexivity; auto.
  - intros k i Hk. destruct k as [|[|k]]; cbn in Hk; try discriminate. inversion Hk; subst i.
    exists (Some 96%N). split; [intros b Hb; inversion Hb; subst; reflexivity|].
    apply ex_tk_cert; try reflexivity; auto.
  - exists 6. split; [right; cbn; lia|]. split; [|repeat split; reflexivity].
    exists (Some 96%N). split; [intros b Hb; inversion Hb; subst; reflexivity|].
    apply ex_tk_cert; try reflexivity; auto.
  - cbn. repeat split; reflexivity.
  - cbn. repeat split; reflexivity.
Qed.
