From Coq Require Import ZArith NArith List Bool Lia ZifyN ZifyNat ZifyBool.
From GmVerif Require Import Pki.X509Codec.
Import ListNotations.
Open Scope N_scope.
Ltac Zify.zify_post_hook ::= Z.div_mod_to_equations.

Lemma len_round : forall n r, n < 2147483648 -> len_dec (len_enc n ++ r) = Some (n, r).
Proof.
  intros n r Hn. unfold len_enc.
  destruct (n <? 128) eqn:E1.
  { cbn. rewrite E1. reflexivity. }
  destruct (n <? 256) eqn:E2.
  { cbn. rewrite E1. reflexivity. }
  destruct (n <? 65536) eqn:E3.
  { cbn. assert ((n / 256 =? 0) = false) as H by (apply N.eqb_neq; lia). rewrite H.
    f_equal. f_equal. lia. }
  destruct (n <? 16777216) eqn:E4.
  { cbn. assert ((n / 65536 =? 0) = false) as H by (apply N.eqb_neq; lia). rewrite H.
    f_equal. f_equal. lia. }
  cbn. assert ((n / 16777216 =? 0) = false) as H by (apply N.eqb_neq; lia). rewrite H.
  f_equal. f_equal. lia.
Qed.

Lemma firstn_len_app : forall (c r : list N), firstn (N.to_nat (len c)) (c ++ r) = c.
Proof. intros. unfold len. rewrite Nat2N.id. rewrite firstn_app, Nat.sub_diag, firstn_all. cbn. apply app_nil_r. Qed.
Lemma skipn_len_app : forall (c r : list N), skipn (N.to_nat (len c)) (c ++ r) = r.
Proof. intros. unfold len. rewrite Nat2N.id. rewrite skipn_app, Nat.sub_diag, skipn_all. reflexivity. Qed.

Lemma tlv_round : forall t c r, len c < 2147483648 -> tlv_dec (tlv t c ++ r) = Some (t, c, r).
Proof.
  intros t c r Hc. unfold tlv, tlv_dec. cbn [app]. rewrite <- app_assoc, len_round by exact Hc.
  assert ((len (c ++ r) <? len c) = false) as H.
  { apply N.ltb_ge. unfold len. rewrite app_length. lia. }
  rewrite H, firstn_len_app, skipn_len_app. reflexivity.
Qed.

Lemma enc_items_cons : forall v vs, enc_items (v :: vs) = enc_value v ++ enc_items vs.
Proof. reflexivity. Qed.

(* the generic combinator: positional records of self-delimiting fields round-trip *)
Theorem dec_items_round : forall sp vs rest, wf sp vs rest ->
  dec_items sp (enc_items vs ++ rest) = Some (vs, rest).
Proof.
  induction sp as [|[ts optional] sp IH]; intros vs rest H.
  - destruct vs; [reflexivity|destruct H].
  - destruct vs as [|v vs]; [destruct H|]. cbn [wf] in H. destruct H as [Hw Hv].
    rewrite enc_items_cons, <- app_assoc. cbn [dec_items].
    destruct v as [[t c]|].
    + destruct Hv as [Ht Hc]. cbn [enc_value]. unfold tlv at 1. cbn [app]. rewrite Ht.
      change (t :: (len_enc (len c) ++ c) ++ enc_items vs ++ rest) with (tlv t c ++ enc_items vs ++ rest).
      rewrite tlv_round by exact Hc. rewrite (IH vs rest Hw). reflexivity.
    + destruct Hv as [Ho Hn]. subst optional. cbn [enc_value app].
      rewrite (IH vs rest Hw).
      destruct (enc_items vs ++ rest) as [|t r] eqn:E; [reflexivity|].
      rewrite Hn. reflexivity.
Qed.

(* issue then parse: the fields come back, and the signature was computed over exactly the TBS bytes *)
Theorem get_details_of_sign : forall layout vs alg sigf,
  wf layout vs [] ->
  let tbs := tlv T_SEQ (enc_items vs) in
  len (enc_items vs) < 2147483648 -> len alg < 2147483648 -> len (0 :: sigf tbs) < 2147483648 ->
  len (tbs ++ tlv T_SEQ alg ++ tlv T_BITS (0 :: sigf tbs)) < 2147483648 ->
  signed_from_der (sign_to_der vs alg sigf) = Some (tbs, alg, sigf tbs) /\
  get_details layout (sign_to_der vs alg sigf) = Some (vs, alg, sigf tbs).
Proof.
  intros layout vs alg sigf Hwf tbs H1 H2 H3 H4.
  assert (signed_from_der (sign_to_der vs alg sigf) = Some (tbs, alg, sigf tbs)) as HS.
  { unfold signed_from_der, sign_to_der. fold tbs.
    rewrite <- (app_nil_r (tlv T_SEQ (tbs ++ tlv T_SEQ alg ++ tlv T_BITS (0 :: sigf tbs)))).
    rewrite tlv_round by exact H4. rewrite N.eqb_refl.
    assert (tbs ++ tlv T_SEQ alg ++ tlv T_BITS (0 :: sigf tbs) =
            enc_items [Some (T_SEQ, enc_items vs); Some (T_SEQ, alg); Some (T_BITS, 0 :: sigf tbs)] ++ []) as E.
    { unfold tbs, enc_items. cbn [map concat enc_value]. rewrite !app_nil_r. reflexivity. }
    rewrite E, dec_items_round.
    - reflexivity.
    - cbn. repeat split; assumption. }
  split; [exact HS|]. unfold get_details. rewrite HS. unfold tbs.
  rewrite <- (app_nil_r (tlv T_SEQ (enc_items vs))). rewrite tlv_round by exact H1.
  rewrite <- (app_nil_r (enc_items vs)) at 1. rewrite dec_items_round by exact Hwf. reflexivity.
Qed.

(* ------------------------------------------------------------------ admissibility of the three layouts *)

Lemma hd_enc_items : forall vs rest t r, enc_items vs ++ rest = t :: r ->
  (exists c, In (Some (t, c)) vs) \/ (exists r', rest = t :: r').
Proof.
  induction vs as [|v vs IH]; intros rest t r H.
  - right. exists r. exact H.
  - rewrite enc_items_cons, <- app_assoc in H. destruct v as [[t' c]|].
    + cbn in H. inversion H; subst. left. exists c. left; reflexivity.
    + cbn in H. apply IH in H. destruct H as [[c Hc]|H]; [left; exists c; right; exact Hc|right; exact H].
Qed.

Definition sized (v : value) : Prop := match v with Some (_, c) => len c < 2147483648 | None => True end.

(* TBSCertificate as x509_tbs_cert_to_der composes it *)
Lemma wf_tbs_cert : forall v0 serial alg issuer validity subject spki iu su ex,
  (v0 = None \/ exists c, v0 = Some (T_CTX 0, c)) ->
  (iu = None \/ exists c, iu = Some (T_IMP 1, c)) ->
  (su = None \/ exists c, su = Some (T_IMP 2, c)) ->
  (ex = None \/ exists c, ex = Some (T_CTX 3, c)) ->
  Forall sized [v0; Some (T_INT, serial); Some (T_SEQ, alg); Some (T_SEQ, issuer); Some (T_SEQ, validity);
                Some (T_SEQ, subject); Some (T_SEQ, spki); iu; su; ex] ->
  wf tbs_cert_layout [v0; Some (T_INT, serial); Some (T_SEQ, alg); Some (T_SEQ, issuer); Some (T_SEQ, validity);
                      Some (T_SEQ, subject); Some (T_SEQ, spki); iu; su; ex] [].
Proof.
  intros v0 serial alg issuer validity subject spki iu su ex H0 Hi Hs He Hsz.
  repeat match goal with H : Forall _ (_ :: _) |- _ => inversion H; clear H; subst end.
  cbn [sized] in *.
  unfold tbs_cert_layout. cbn [wf].
  repeat split; try assumption; try reflexivity.
  - destruct He as [->|[c ->]]; [split; [reflexivity|exact I]|split; [reflexivity|assumption]].
  - destruct Hs as [->|[c ->]]; [|split; [reflexivity|assumption]]. split; [reflexivity|].
    destruct He as [->|[c ->]]; cbn; [exact I|reflexivity].
  - destruct Hi as [->|[c ->]]; [|split; [reflexivity|assumption]]. split; [reflexivity|].
    destruct Hs as [->|[c ->]]; [|cbn; reflexivity].
    destruct He as [->|[c ->]]; cbn; [exact I|reflexivity].
  - destruct H0 as [->|[c ->]]; [|split; [reflexivity|assumption]]. split; [reflexivity|]. cbn. reflexivity.
Qed.

(* ------------------------------------------------------------------ CRL lookup *)

Lemma bytes_eqb : forall a b : list N,
  (len a =? len b) && forallb (fun p => fst p =? snd p) (combine a b) = true <-> a = b.
Proof.
  intros a b. unfold len. rewrite andb_true_iff, N.eqb_eq, Nat2N.inj_iff.
  revert b. induction a as [|x a IH]; intros [|y b]; cbn [length combine forallb fst snd]; split; intros H;
    try reflexivity; try (destruct H; discriminate); try discriminate.
  - split; reflexivity.
  - destruct H as [Hl H]. apply andb_true_iff in H. destruct H as [Hx H].
    apply N.eqb_eq in Hx. subst y. f_equal. apply IH. split; [injection Hl; auto|exact H].
  - inversion H; subst. split; [reflexivity|]. rewrite N.eqb_refl. cbn [andb].
    apply (proj2 (IH b)). reflexivity.
Qed.

Definition serial_of (e : entry) : option (list N) := match e with Some (s, _, _) => Some s | None => None end.

(* the entries in front of the first hit all parse and carry other serials *)
Theorem find_revoked_found : forall es serial date exts,
  find_revoked es serial = LFound date exts <->
  exists pre post, es = pre ++ Some (serial, date, exts) :: post /\
    Forall (fun e => exists s d x, e = Some (s, d, x) /\ s <> serial) pre.
Proof.
  intros es serial date exts. split.
  - induction es as [|e es IH]; cbn; intros H; [discriminate|].
    destruct e as [[[sn d] x]|]; [|discriminate].
    destruct ((len sn =? len serial) && forallb (fun p => fst p =? snd p) (combine sn serial)) eqn:E.
    + apply bytes_eqb in E. subst sn. inversion H; subst. exists [], es. split; [reflexivity|constructor].
    + apply IH in H. destruct H as (pre & post & Hes & Hpre). exists (Some (sn, d, x) :: pre), post.
      subst es. split; [reflexivity|]. constructor; [|exact Hpre].
      exists sn, d, x. split; [reflexivity|]. intro Heq. subst sn.
      assert ((len serial =? len serial) && forallb (fun p => fst p =? snd p) (combine serial serial) = true) as Ht
        by (apply bytes_eqb; reflexivity).
      rewrite Ht in E. discriminate.
  - intros (pre & post & Hes & Hpre). subst es. induction pre as [|e pre IH]; cbn.
    + assert ((len serial =? len serial) && forallb (fun p => fst p =? snd p) (combine serial serial) = true) as Ht
        by (apply bytes_eqb; reflexivity).
      rewrite Ht. reflexivity.
    + inversion Hpre as [|? ? (s & d & x & He & Hne) Hr]; subst.
      destruct ((len s =? len serial) && forallb (fun p => fst p =? snd p) (combine s serial)) eqn:E.
      * apply bytes_eqb in E. contradiction.
      * apply IH; exact Hr.
Qed.

(* for a list that parses throughout: reported revoked exactly when listed *)
Theorem crl_lookup_iff_listed : forall es serial,
  Forall (fun e => e <> None) es ->
  ((exists date exts, find_revoked es serial = LFound date exts) <-> In (Some serial) (map serial_of es)) /\
  (find_revoked es serial = LNotFound <-> ~ In (Some serial) (map serial_of es)) /\
  find_revoked es serial <> LErr.
Proof.
  intros es serial Hall. induction es as [|e es IH]; cbn.
  - split; [split; [intros [d [x H]]; discriminate|intros []]|]. split; [split; [intros _ []|reflexivity]|discriminate].
  - inversion Hall as [|? ? He Hr]; subst. destruct e as [[[sn d] x]|]; [|contradiction].
    specialize (IH Hr). destruct IH as (IH1 & IH2 & IH3). cbn [serial_of].
    destruct ((len sn =? len serial) && forallb (fun p => fst p =? snd p) (combine sn serial)) eqn:E.
    + apply bytes_eqb in E. subst sn. repeat split; try discriminate.
      * intros _. left; reflexivity.
      * intros _. exists d, x. reflexivity.
      * intros H. exfalso. apply H. left; reflexivity.
    + assert (sn <> serial) as Hne.
      { intro; subst. assert ((len serial =? len serial) && forallb (fun p => fst p =? snd p) (combine serial serial) = true) as Ht
          by (apply bytes_eqb; reflexivity). rewrite Ht in E. discriminate. }
      repeat split.
      * intros H. right. apply IH1. exact H.
      * intros [H|H]; [inversion H; contradiction|apply IH1; exact H].
      * intros H [H'|H']; [inversion H'; contradiction|]. apply IH2 in H. contradiction.
      * intros H. apply IH2. intro H'. apply H. right. exact H'.
      * exact IH3.
Qed.

(* an unparsable entry in front of the hit makes the lookup fail, never "not revoked" *)
Theorem crl_lookup_err : forall pre post serial,
  Forall (fun e => exists s d x, e = Some (s, d, x) /\ s <> serial) pre ->
  find_revoked (pre ++ None :: post) serial = LErr.
Proof.
  intros pre post serial H. induction pre as [|e pre IH]; cbn; [reflexivity|].
  inversion H as [|? ? (s & d & x & He & Hne) Hr]; subst.
  destruct ((len s =? len serial) && forallb (fun p => fst p =? snd p) (combine s serial)) eqn:E.
  - apply bytes_eqb in E. contradiction.
  - apply IH; exact Hr.
Qed.

(* serial numbers: what is stored is the minimal big-endian form; idempotent *)
Lemma strip0_idem : forall a, strip0 (strip0 a) = strip0 a.
Proof.
  induction a as [|x a IH]; [reflexivity|]. cbn [strip0]. destruct x; [|reflexivity].
  destruct a as [|y a']; [reflexivity|]. exact IH.
Qed.

Lemma wf_req_info : forall version subject spki attrs,
  Forall sized [Some (T_INT, version); Some (T_SEQ, subject); Some (T_SEQ, spki); Some (T_CTX 0, attrs)] ->
  wf req_info_layout [Some (T_INT, version); Some (T_SEQ, subject); Some (T_SEQ, spki); Some (T_CTX 0, attrs)] [].
Proof.
  intros version subject spki attrs Hsz.
  repeat match goal with H : Forall _ (_ :: _) |- _ => inversion H; clear H; subst end.
  cbn [sized] in *. unfold req_info_layout. cbn [wf]. repeat split; try assumption; reflexivity.
Qed.

Definition is_time (v : value) : Prop := exists t c, v = Some (t, c) /\ (t = T_UTC \/ t = T_GEN).

Lemma wf_tbs_crl : forall ver alg issuer this next revoked exts,
  (ver = None \/ exists c, ver = Some (T_INT, c)) ->
  is_time this -> (next = None \/ is_time next) ->
  (revoked = None \/ exists c, revoked = Some (T_SEQ, c)) ->
  (exts = None \/ exists c, exts = Some (T_CTX 0, c)) ->
  Forall sized [ver; Some (T_SEQ, alg); Some (T_SEQ, issuer); this; next; revoked; exts] ->
  wf tbs_crl_layout [ver; Some (T_SEQ, alg); Some (T_SEQ, issuer); this; next; revoked; exts] [].
Proof.
  intros ver alg issuer this next revoked exts Hv (tt & tc & -> & Htt) Hn Hr He Hsz.
  repeat match goal with H : Forall _ (_ :: _) |- _ => inversion H; clear H; subst end.
  cbn [sized] in *. unfold tbs_crl_layout. cbn [wf].
  repeat split; try assumption; try reflexivity.
  - destruct He as [->|[c ->]]; [split; [reflexivity|exact I]|split; [reflexivity|assumption]].
  - destruct Hr as [->|[c ->]]; [|split; [reflexivity|assumption]]. split; [reflexivity|].
    destruct He as [->|[c ->]]; cbn; [exact I|reflexivity].
  - destruct Hn as [->|(nt & nc & -> & Hnt)].
    + split; [reflexivity|].
      destruct Hr as [->|[c ->]]; [|cbn; reflexivity].
      destruct He as [->|[c ->]]; cbn; [exact I|reflexivity].
    + split; [destruct Hnt; subst; reflexivity|assumption].
  - destruct Htt; subst; reflexivity.
  - destruct Hv as [->|[c ->]]; [|split; [reflexivity|assumption]]. split; [reflexivity|]. cbn. reflexivity.
Qed.

(* ------------------------------------------------------------------ verification of the signed wrapper *)

Section Verify.
  Variable key : Type.
  Variable sign : key -> list N -> list N.
  Variable check : key -> list N -> list N -> bool.

  Definition bytes_eq (a b : list N) : bool := (len a =? len b) && forallb (fun p => fst p =? snd p) (combine a b).

  (* x509_signed_verify: outer algorithm must be sm2sign-with-sm3, signature checked over the TBS bytes *)
  Definition signed_verify (k : key) (a : list N) : bool :=
    match signed_from_der a with
    | Some (tbs, alg, sig) => alg_is_sm2sm3 alg && check k tbs sig
    | None => false
    end.

  Definition sizes_ok (vs : list value) (alg : list N) (sigf : list N -> list N) : Prop :=
    let tbs := tlv T_SEQ (enc_items vs) in
    len (enc_items vs) < 2147483648 /\ len alg < 2147483648 /\ len (0 :: sigf tbs) < 2147483648 /\
    len (tbs ++ tlv T_SEQ alg ++ tlv T_BITS (0 :: sigf tbs)) < 2147483648.

  Lemma signed_from_der_of_sign : forall vs alg sigf, sizes_ok vs alg sigf ->
    signed_from_der (sign_to_der vs alg sigf) = Some (tlv T_SEQ (enc_items vs), alg, sigf (tlv T_SEQ (enc_items vs))).
  Proof.
    intros vs alg sigf (H1 & H2 & H3 & H4).
    unfold signed_from_der, sign_to_der.
    rewrite <- (app_nil_r (tlv T_SEQ (tlv T_SEQ (enc_items vs) ++ tlv T_SEQ alg ++ tlv T_BITS (0 :: sigf (tlv T_SEQ (enc_items vs)))))).
    rewrite tlv_round by exact H4. rewrite N.eqb_refl.
    assert (tlv T_SEQ (enc_items vs) ++ tlv T_SEQ alg ++ tlv T_BITS (0 :: sigf (tlv T_SEQ (enc_items vs))) =
            enc_items [Some (T_SEQ, enc_items vs); Some (T_SEQ, alg); Some (T_BITS, 0 :: sigf (tlv T_SEQ (enc_items vs)))] ++ []) as E.
    { unfold enc_items. cbn [map concat enc_value]. rewrite !app_nil_r. reflexivity. }
    rewrite E, dec_items_round; [reflexivity|]. cbn. repeat split; assumption.
  Qed.

  Theorem verify_issued : (forall k m, check k m (sign k m) = true) ->
    forall k vs, sizes_ok vs alg_sm2sm3 (sign k) ->
    signed_verify k (sign_to_der vs alg_sm2sm3 (sign k)) = true.
  Proof.
    intros Hc k vs Hs. unfold signed_verify. rewrite signed_from_der_of_sign by exact Hs.
    rewrite Hc, andb_true_r. reflexivity.
  Qed.

  (* with the idealisation "a signature made with k does not check under another key" *)
  Theorem other_key_rejected_partial : (forall k k' m, k <> k' -> check k' m (sign k m) = false) ->
    forall k k' vs, k <> k' -> sizes_ok vs alg_sm2sm3 (sign k) ->
    signed_verify k' (sign_to_der vs alg_sm2sm3 (sign k)) = false.
  Proof.
    intros Hc k k' vs Hk Hs. unfold signed_verify. rewrite signed_from_der_of_sign by exact Hs.
    rewrite (Hc k k' _ Hk). apply andb_false_r.
  Qed.

  Lemma octets_eq_iff : forall a b, octets_eq a b = true <-> a = b.
  Proof.
    induction a as [|x a IH]; intros [|y b]; cbn; split; intros H; try reflexivity; try discriminate.
    - apply andb_true_iff in H. destruct H as [H1 H2]. apply N.eqb_eq in H1. apply IH in H2. subst. reflexivity.
    - inversion H; subst. rewrite N.eqb_refl. apply IH. reflexivity.
  Qed.

  (* whatever the signature bits are, an outer algorithm identifier other than sm2sign-with-sm3
     (parameters absent or NULL) is refused: the signature is not even looked at *)
  Theorem alg_mismatch_rejected : forall k vs alg sigf, sizes_ok vs alg sigf ->
    alg <> alg_sm2sm3 -> alg <> alg_sm2sm3_null ->
    signed_verify k (sign_to_der vs alg sigf) = false.
  Proof.
    intros k vs alg sigf Hs Ha Hb. unfold signed_verify. rewrite signed_from_der_of_sign by exact Hs.
    unfold alg_is_sm2sm3.
    destruct (octets_eq alg alg_sm2sm3) eqn:E; [apply octets_eq_iff in E; contradiction|].
    destruct (octets_eq alg alg_sm2sm3_null) eqn:E2; [apply octets_eq_iff in E2; contradiction|]. reflexivity.
  Qed.

  (* acceptance implies both: the identifier is sm2sign-with-sm3 and the check over the TBS bytes succeeds *)
  Theorem signed_verify_decision_rule : forall k a, signed_verify k a = true ->
    exists tbs alg sig, signed_from_der a = Some (tbs, alg, sig) /\
      (alg = alg_sm2sm3 \/ alg = alg_sm2sm3_null) /\ check k tbs sig = true.
  Proof.
    intros k a H. unfold signed_verify in H. destruct (signed_from_der a) as [[[tbs alg] sig]|]; [|discriminate].
    apply andb_true_iff in H. destruct H as [Ha Hc]. exists tbs, alg, sig. split; [reflexivity|]. split; [|exact Hc].
    unfold alg_is_sm2sm3 in Ha. apply orb_true_iff in Ha. destruct Ha as [Ha|Ha]; apply octets_eq_iff in Ha; auto.
  Qed.

  Theorem trailing_rejected : forall k vs alg sigf x r, sizes_ok vs alg sigf ->
    signed_verify k (sign_to_der vs alg sigf ++ x :: r) = false.
  Proof.
    intros k vs alg sigf x r (H1 & H2 & H3 & H4). unfold signed_verify, signed_from_der, sign_to_der.
    rewrite tlv_round by exact H4. reflexivity.
  Qed.
End Verify.

(* the premises are satisfiable: a toy scheme *)
Example verify_premises_satisfiable :
  let sign (k : N) (m : list N) := k :: m in
  let check (k : N) (m sig : list N) := bytes_eq sig (k :: m) in
  (forall k m, check k m (sign k m) = true) /\ (forall k k' m, k <> k' -> check k' m (sign k m) = false).
Proof.
  cbv zeta. split.
  - intros k m. apply bytes_eqb. reflexivity.
  - intros k k' m Hk. destruct (bytes_eq (k :: m) (k' :: m)) eqn:E; [|reflexivity].
    apply bytes_eqb in E. inversion E. contradiction.
Qed.

(* ================================================================== wave 2: Extension composition, exact-match lookups *)
Lemma len_app : forall (a b : list N), len (a ++ b) = len a + len b.
Proof. intros. unfold len. rewrite app_length. lia. Qed.
Lemma len_cons : forall (x : N) (a : list N), len (x :: a) = 1 + len a.
Proof. intros. unfold len. cbn [length]. lia. Qed.

(* the dry-run size of a TLV is the length of what is emitted *)
Lemma tlv_len : forall t c, len (tlv t c) = tlv_size (len c).
Proof. intros. unfold tlv, tlv_size. rewrite len_cons, len_app. lia. Qed.

(* x509_ext_to_der_ex: size pass = length of the emitted content, for every content length *)
Theorem ext_ex_size_ok : forall oidtlv critical d,
  ext_ex_size oidtlv critical (len d) = len (oidtlv ++ bool_tlv critical ++ tlv 4 (tlv 48 d)).
Proof.
  intros. unfold ext_ex_size. rewrite !len_app. rewrite (tlv_len 4 (tlv 48 d)), (tlv_len 48 d).
  unfold tlv_size at 3. lia.
Qed.

(* ... and the emit pass writes exactly the nested TLV *)
Theorem ext_ex_emit_eq_spec : forall oidtlv critical d,
  ext_ex_emit oidtlv critical d = ext_spec oidtlv critical (tlv 48 d).
Proof.
  intros. unfold ext_ex_emit, ext_spec. rewrite ext_ex_size_ok.
  assert (tlv 4 (tlv 48 d) = 4 :: len_enc (tlv_size (len d)) ++ tlv 48 d) as E
    by (unfold tlv at 1; rewrite tlv_len; reflexivity).
  cbv zeta. rewrite <- E. reflexivity.
Qed.

Theorem ext_size_ok : forall oidtlv critical val,
  ext_size oidtlv critical (len val) = len (oidtlv ++ bool_tlv critical ++ tlv 4 val).
Proof. intros. unfold ext_size. rewrite !len_app, tlv_len. lia. Qed.

Theorem ext_emit_eq_spec : forall oidtlv critical val,
  ext_emit oidtlv critical val = ext_spec oidtlv critical val.
Proof. intros. unfold ext_emit, ext_spec. rewrite ext_size_ok. reflexivity. Qed.

Definition bool_value (critical : Z) : value :=
  if (critical <? 0)%Z then None else Some (1, [if (critical =? 0)%Z then 0 else 255]).

(* what x509_ext_from_der consumes and hands back is what was composed *)
Theorem ext_roundtrip : forall oidc critical val rest,
  len oidc < 2147483648 -> len val < 2147483648 ->
  len (tlv 6 oidc ++ bool_tlv critical ++ tlv 4 val) < 2147483648 ->
  ext_from_der (ext_spec (tlv 6 oidc) critical val ++ rest) =
    Some ([Some (6, oidc); bool_value critical; Some (4, val)], rest).
Proof.
  intros oidc critical val rest Ho Hv Hc. unfold ext_from_der, ext_spec.
  rewrite tlv_round by exact Hc. rewrite N.eqb_refl.
  assert (tlv 6 oidc ++ bool_tlv critical ++ tlv 4 val =
          enc_items [Some (6, oidc); bool_value critical; Some (4, val)] ++ []) as E.
  { unfold enc_items, bool_value, bool_tlv. cbn [map concat enc_value].
    destruct (critical <? 0)%Z; cbn [enc_value app]; rewrite ?app_nil_r; [reflexivity|].
    destruct (critical =? 0)%Z; reflexivity. }
  rewrite E, dec_items_round; [reflexivity|].
  unfold ext_layout, bool_value. cbn [wf]. destruct (critical <? 0)%Z;
    repeat split; try assumption; try reflexivity; destruct (critical =? 0)%Z; cbn; lia.
Qed.

(* both builders, composed and parsed back: all content lengths up to the C limit *)
Corollary ext_ex_issue_parse : forall oidc critical d rest,
  len oidc < 2147483648 -> len (tlv 48 d) < 2147483648 ->
  len (tlv 6 oidc ++ bool_tlv critical ++ tlv 4 (tlv 48 d)) < 2147483648 ->
  ext_from_der (ext_ex_emit (tlv 6 oidc) critical d ++ rest) =
    Some ([Some (6, oidc); bool_value critical; Some (4, tlv 48 d)], rest).
Proof. intros. rewrite ext_ex_emit_eq_spec. apply ext_roundtrip; assumption. Qed.

(* the DER length-of-length boundaries are covered by the statement above; spelled out *)
Example ext_ex_boundaries :
  forallb (fun n : N => let d := repeat 7 (N.to_nat n) in
     match ext_from_der (ext_ex_emit (tlv 6 [85; 29; 17]) (-1) d) with
     | Some ([_; None; Some (t, v)], []) => (t =? 4) && octets_eqb v (tlv 48 d)
     | _ => false end) [0; 1; 119; 120; 121; 122; 123; 124; 125; 126; 127; 128; 129; 130; 250; 251; 252; 253; 254; 255; 256; 257; 65529; 65535; 65536] = true.
Proof. vm_compute. reflexivity. Qed.

(* ------------------------------------------------------------------ exact-match lookups *)
Lemma octets_eqb_iff : forall a b, octets_eqb a b = true <-> a = b.
Proof.
  induction a as [|x a IH]; intros [|y b]; cbn; split; intros H; try reflexivity; try discriminate.
  - apply andb_true_iff in H. destruct H as [H1 H2]. apply N.eqb_eq in H1. apply IH in H2. subst. reflexivity.
  - inversion H; subst. rewrite N.eqb_refl. apply IH. reflexivity.
Qed.

Lemma key_match_iff : forall i s issuer serial,
  octets_eqb i issuer && octets_eqb s serial = true <-> (i = issuer /\ s = serial).
Proof. intros. rewrite andb_true_iff, !octets_eqb_iff. tauto. Qed.

Theorem find_by_issuer_serial_hit : forall A (l : list (keyed A)) issuer serial a,
  find_by_issuer_serial l issuer serial = FHit a <->
  exists pre post, l = pre ++ Some (issuer, serial, a) :: post /\
    Forall (fun e => exists i s x, e = Some (i, s, x) /\ ~ (i = issuer /\ s = serial)) pre.
Proof.
  intros A l issuer serial a. split.
  - induction l as [|e l IH]; cbn; intros H; [discriminate|].
    destruct e as [[[i s] x]|]; [|discriminate].
    destruct (octets_eqb i issuer && octets_eqb s serial) eqn:E.
    + apply key_match_iff in E. destruct E; subst. inversion H; subst. exists [], l. split; [reflexivity|constructor].
    + apply IH in H. destruct H as (pre & post & -> & Hpre). exists (Some (i, s, x) :: pre), post.
      split; [reflexivity|]. constructor; [|exact Hpre]. exists i, s, x. split; [reflexivity|].
      intro Hm. apply key_match_iff in Hm. rewrite Hm in E. discriminate.
  - intros (pre & post & -> & Hpre). induction pre as [|e pre IH]; cbn.
    + assert (octets_eqb issuer issuer && octets_eqb serial serial = true) as E by (apply key_match_iff; auto).
      rewrite E. reflexivity.
    + inversion Hpre as [|? ? (i & s & x & -> & Hne) Hr]; subst.
      destruct (octets_eqb i issuer && octets_eqb s serial) eqn:E; [apply key_match_iff in E; contradiction|].
      apply IH; exact Hr.
Qed.

Theorem find_by_issuer_serial_none : forall A (l : list (keyed A)) issuer serial,
  find_by_issuer_serial l issuer serial = FNone <->
  Forall (fun e => exists i s x, e = Some (i, s, x) /\ ~ (i = issuer /\ s = serial)) l.
Proof.
  intros A l issuer serial. induction l as [|e l IH]; cbn.
  - split; [constructor|reflexivity].
  - destruct e as [[[i s] x]|].
    + destruct (octets_eqb i issuer && octets_eqb s serial) eqn:E.
      * apply key_match_iff in E. split; [discriminate|]. intros H. inversion H as [|? ? (i' & s' & x' & He & Hne) _]; subst.
        inversion He; subst. contradiction.
      * rewrite IH. split.
        -- intros H. constructor; [|exact H]. exists i, s, x. split; [reflexivity|].
           intro Hm. apply key_match_iff in Hm. rewrite Hm in E. discriminate.
        -- intros H. inversion H; assumption.
    + split; [discriminate|]. intros H. inversion H as [|? ? (i' & s' & x' & He & _) _]. discriminate.
Qed.

(* a serial that merely starts with (or extends) the wanted one is not a match *)
Corollary prefix_serial_is_skipped : forall A (l : list (keyed A)) issuer serial extra x,
  extra <> [] ->
  find_by_issuer_serial (Some (issuer, serial ++ extra, x) :: l) issuer serial = find_by_issuer_serial l issuer serial /\
  find_by_issuer_serial (Some (issuer, serial, x) :: l) issuer (serial ++ extra) = find_by_issuer_serial l issuer (serial ++ extra).
Proof.
  intros A l issuer serial extra x He. cbn.
  assert (serial ++ extra <> serial) as Hne.
  { intro H. apply He. rewrite <- (app_nil_r serial) in H at 2. apply app_inv_head in H. exact H. }
  split.
  - destruct (octets_eqb issuer issuer && octets_eqb (serial ++ extra) serial) eqn:E; [|reflexivity].
    apply key_match_iff in E. destruct E; contradiction.
  - destruct (octets_eqb issuer issuer && octets_eqb serial (serial ++ extra)) eqn:E; [|reflexivity].
    apply key_match_iff in E. destruct E as [_ E]. symmetry in E. contradiction.
Qed.

(* ------------------------------------------------------------------ wave 3: x509_cert_check_crl *)
Theorem cert_check_crl_ok_iff : forall fetch p c i s es serial,
  Forall (fun e => e <> None) es ->
  (cert_check_crl fetch p c i s es serial = true <->
   fetch = FetchOk /\ p = true /\ c = true /\ i = true /\ s = true /\ ~ In (Some serial) (map serial_of es)).
Proof.
  intros fetch p c i s es serial Hall. destruct (crl_lookup_iff_listed es serial Hall) as (_ & Hn & _).
  unfold cert_check_crl. destruct fetch; try (split; [discriminate|intros (H & _); discriminate]).
  rewrite !andb_true_iff. split.
  - intros [[[[Hp Hc] Hi] Hs] Hf]. repeat split; try assumption. apply Hn.
    destruct (find_revoked es serial); [discriminate|reflexivity|discriminate].
  - intros (_ & Hp & Hc & Hi & Hs & Hl). repeat split; try assumption. apply Hn in Hl. rewrite Hl. reflexivity.
Qed.

(* a listed serial is never reported clean, whatever else holds *)
Corollary cert_check_crl_listed : forall fetch p c i s es serial,
  Forall (fun e => e <> None) es -> In (Some serial) (map serial_of es) ->
  cert_check_crl fetch p c i s es serial = false.
Proof.
  intros fetch p c i s es serial Hall Hin. destruct (cert_check_crl fetch p c i s es serial) eqn:E; [|reflexivity].
  apply (cert_check_crl_ok_iff _ _ _ _ _ _ _ Hall) in E. destruct E as (_ & _ & _ & _ & _ & Hn). contradiction.
Qed.

(* ================================================================== wave 5: names, certificate lists, x509_crl_check *)
Lemma len_enc_le5 : forall n, len (len_enc n) <= 5.
Proof.
  intros n. unfold len_enc. repeat match goal with |- context [if ?b then _ else _] => destruct b end; unfold len; cbn; lia.
Qed.
Lemma tlv_len_le : forall t c, len (tlv t c) <= len c + 6.
Proof. intros. rewrite tlv_len. unfold tlv_size. pose proof (len_enc_le5 (len c)). lia. Qed.

Lemma attr_type_of_oid_oid : forall t, attr_type_of_oid (attr_oid t) = Some t.
Proof. destruct t; vm_compute; reflexivity. Qed.

Lemma attr_oid_len : forall t, len (attr_oid t) <= 10.
Proof. destruct t; vm_compute; discriminate. Qed.

Lemma directory_string_tag : forall tag v, directory_string_ok tag v = true -> tag_in tag [12; 19; 20; 28; 30; 22] = true.
Proof.
  intros tag v. unfold directory_string_ok. destruct v; [discriminate|].
  destruct (tag =? 12) eqn:E1; [apply N.eqb_eq in E1; subst; reflexivity|].
  destruct (tag =? 19) eqn:E2; [apply N.eqb_eq in E2; subst; reflexivity|].
  destruct (tag =? 20) eqn:E3; [apply N.eqb_eq in E3; subst; reflexivity|].
  destruct (tag =? 28) eqn:E4; [apply N.eqb_eq in E4; subst; reflexivity|].
  cbn [orb]. destruct (tag =? 30) eqn:E5; [apply N.eqb_eq in E5; subst; reflexivity|discriminate].
Qed.

Lemma attr_ok_facts : forall t tag v, attr_ok (t, tag, v) = true ->
  tag_in tag [12; 19; 20; 28; 30; 22] = true /\ len v <= 128.
Proof.
  intros t tag v H. unfold attr_ok in H. destruct t; try discriminate;
    rewrite ?andb_true_iff in H; repeat match goal with H : _ /\ _ |- _ => destruct H end;
    (split; [eapply directory_string_tag; eassumption|]);
    repeat match goal with H : (_ <=? _) = true |- _ => apply N.leb_le in H | H : (_ =? _) = true |- _ => apply N.eqb_eq in H end; lia.
Qed.

Lemma rdn_roundtrip : forall t tag v rest, attr_ok (t, tag, v) = true ->
  exists c, tlv_dec (rdn_enc (t, tag, v) ++ rest) = Some (T_SET, c, rest) /\
            tlv_dec c = Some (T_SEQ, tlv T_OID (attr_oid t) ++ tlv tag v, []) /\
            dec_items atv_layout (tlv T_OID (attr_oid t) ++ tlv tag v) = Some ([Some (T_OID, attr_oid t); Some (tag, v)], []).
Proof.
  intros t tag v rest H. destruct (attr_ok_facts _ _ _ H) as [Htag Hlen].
  pose proof (attr_oid_len t) as Ho.
  pose proof (tlv_len_le T_OID (attr_oid t)) as L1. pose proof (tlv_len_le tag v) as L2.
  assert (len (tlv T_OID (attr_oid t) ++ tlv tag v) < 2147483648) as Hc by (rewrite len_app; lia).
  pose proof (tlv_len_le T_SEQ (tlv T_OID (attr_oid t) ++ tlv tag v)) as L3. rewrite len_app in L3.
  exists (tlv T_SEQ (tlv T_OID (attr_oid t) ++ tlv tag v)). split; [|split].
  - unfold rdn_enc. apply tlv_round. lia.
  - rewrite <- (app_nil_r (tlv T_SEQ _)). apply tlv_round. exact Hc.
  - assert (tlv T_OID (attr_oid t) ++ tlv tag v = enc_items [Some (T_OID, attr_oid t); Some (tag, v)] ++ []) as E
      by (unfold enc_items; cbn [map concat enc_value]; rewrite !app_nil_r; reflexivity).
    rewrite E. apply dec_items_round. cbn [wf atv_layout]. repeat split; try reflexivity; try assumption; lia.
Qed.

Lemma name_dec_step : forall f inp, inp <> [] ->
  name_dec (S f) inp =
      match tlv_dec inp with
      | Some (t, c, rest) =>
        if t =? T_SET then
          match tlv_dec c with
          | Some (t2, c2, []) =>
            if t2 =? T_SEQ then
              match dec_items atv_layout c2 with
              | Some ([Some (_, o); Some (tag, v)], []) =>
                match attr_type_of_oid o, name_dec f rest with
                | Some ty, Some l => Some ((ty, tag, v) :: l)
                | _, _ => None
                end
              | _ => None
              end
            else None
          | _ => None
          end
        else None
      | None => None
      end.
Proof. intros f [|x xs] H; [contradiction|reflexivity]. Qed.

(* names built by the library's builders parse back to exactly the attributes supplied *)
Theorem name_roundtrip : forall l der, name_build l = Some der -> name_dec (S (length l)) der = Some l.
Proof.
  intros l der H. unfold name_build in H. destruct (forallb attr_ok l) eqn:F; [|discriminate]. inversion H; subst der. clear H.
  induction l as [|[[t tag] v] r IH]; [reflexivity|].
  cbn [forallb] in F. apply andb_true_iff in F. destruct F as [Fa Fr].
  change (name_enc ((t, tag, v) :: r)) with (rdn_enc (t, tag, v) ++ name_enc r).
  destruct (rdn_roundtrip t tag v (name_enc r) Fa) as (c & H1 & H2 & H3).
  cbn [length].
  assert (rdn_enc (t, tag, v) ++ name_enc r <> []) as Hne by (unfold rdn_enc, tlv; discriminate).
  rewrite (name_dec_step _ _ Hne), H1, N.eqb_refl, H2, N.eqb_refl, H3, attr_type_of_oid_oid.
  rewrite (IH Fr). reflexivity.
Qed.

(* every name the builders accept satisfies the per-attribute rules; the empty name is the empty encoding *)
Theorem name_build_sound : forall l der, name_build l = Some der -> Forall (fun a => attr_ok a = true) l /\ der = name_enc l.
Proof.
  intros l der H. unfold name_build in H. destruct (forallb attr_ok l) eqn:F; [|discriminate]. inversion H; subst.
  split; [apply Forall_forall; apply forallb_forall; exact F|reflexivity].
Qed.

Lemma attr_oid_inj : forall a b, octets_eq (attr_oid a) (attr_oid b) = true -> a = b.
Proof. intros [] []; vm_compute; intros H; try reflexivity; discriminate. Qed.

(* x509_name_get_value_by_type: the first attribute of the type *)
Theorem name_get_value_first : forall l t tag v,
  name_get_value l t = Some (tag, v) <->
  exists pre post, l = pre ++ (t, tag, v) :: post /\ Forall (fun a => fst (fst a) <> t) pre.
Proof.
  intros l t tag v. split.
  - induction l as [|[[t' tg] w] r IH]; cbn; intros H; [discriminate|].
    destruct (octets_eq (attr_oid t') (attr_oid t)) eqn:E.
    + apply attr_oid_inj in E. subst t'. inversion H; subst. exists [], r. split; [reflexivity|constructor].
    + apply IH in H. destruct H as (pre & post & -> & Hp). exists ((t', tg, w) :: pre), post. split; [reflexivity|].
      constructor; [|exact Hp]. cbn. intro; subst. destruct t; vm_compute in E; discriminate.
  - intros (pre & post & -> & Hp). induction pre as [|[[t' tg] w] pre IH]; cbn.
    + assert (octets_eq (attr_oid t) (attr_oid t) = true) as E by (destruct t; vm_compute; reflexivity). rewrite E. reflexivity.
    + inversion Hp as [|? ? Hne Hr]; subst. cbn in Hne.
      destruct (octets_eq (attr_oid t') (attr_oid t)) eqn:E; [apply attr_oid_inj in E; contradiction|]. apply IH; exact Hr.
Qed.

(* x509_certs_get_cert_by_index *)
Theorem certs_by_index_hit : forall A (l : list (option A)) i a,
  certs_by_index l i = FHit a <-> (nth_error l i = Some (Some a) /\ Forall (fun x => x <> None) (firstn i l)).
Proof.
  intros A l. induction l as [|x r IH]; intros i a.
  - cbn. destruct i; split; try discriminate; intros [H _]; discriminate.
  - destruct x as [b|]; cbn [certs_by_index].
    + destruct i as [|j]; cbn [nth_error firstn].
      * split; [intros H; inversion H; subst; split; [reflexivity|constructor]|intros [H _]; inversion H; reflexivity].
      * rewrite IH. split; intros [H1 H2]; (split; [exact H1|]).
        -- constructor; [discriminate|exact H2].
        -- inversion H2; assumption.
    + split; [discriminate|]. intros [H1 H2]. destruct i; cbn in *; [discriminate|]. inversion H2 as [|? ? Hx _]. contradiction.
Qed.

(* x509_crl_check decides over unbounded integers: version v1/v2, thisUpdate <= now < nextUpdate, identifiers agree, and
   (as coded) no critical extension at all - hence no CRL with deltaCRLIndicator or issuingDistributionPoint *)
Theorem crl_check_exact : forall agree version this next now exts,
  crl_check agree version this next now exts = true <->
  (agree = true /\ (version = 0 \/ version = 1)%Z /\ (this <= now)%Z /\
   (forall n, next = Some n -> (now < n)%Z) /\
   Forall (fun e => fst e <> CE_delta_or_idp /\ snd e <> 1%Z) exts).
Proof.
  intros. unfold crl_check. rewrite !andb_true_iff, orb_true_iff, !Z.eqb_eq, Z.leb_le, forallb_forall, Forall_forall.
  split.
  - intros [[[[Ha Hv] Ht] Hn] He]. repeat split; try assumption.
    + intros n ->. apply Z.ltb_lt. exact Hn.
    + specialize (He x H). destruct x as [k c]. cbn in *. destruct k; [discriminate|discriminate|discriminate|discriminate].
    + specialize (He x H). destruct x as [k c]. cbn in *. destruct k; try discriminate; apply negb_true_iff in He; apply Z.eqb_neq in He; exact He.
  - intros (Ha & Hv & Ht & Hn & He). repeat split; try assumption.
    + destruct next as [n|]; [apply Z.ltb_lt; apply Hn; reflexivity|reflexivity].
    + intros [k c] Hin. destruct (He _ Hin) as [Hk Hc]. cbn in *. destruct k; try contradiction; apply negb_true_iff; apply Z.eqb_neq; exact Hc.
Qed.

(* ------------------------------------------------------------------ wave 5: GeneralName *)
(* repaired writer: every GeneralName the builder emits is read back as the same choice and content *)
Theorem general_name_roundtrip : forall choice d der rest,
  len d < 2147483648 -> general_name_enc true choice d = Some der ->
  general_name_dec (der ++ rest) = Some (choice, d, rest).
Proof.
  intros choice d der rest Hl H. unfold general_name_enc in H. destruct d as [|x d']; [discriminate|].
  destruct (8 <? choice) eqn:E8; [discriminate|]. apply N.ltb_ge in E8.
  destruct (((choice =? 1) || (choice =? 2) || (choice =? 6)) && negb (ia5_ok (x :: d'))); [discriminate|].
  inversion H; subst der. unfold general_name_dec. rewrite tlv_round by exact Hl.
  unfold gn_tag, gn_constructed. cbn [andb].
  assert (choice = 0 \/ choice = 1 \/ choice = 2 \/ choice = 3 \/ choice = 4 \/ choice = 5 \/ choice = 6 \/ choice = 7 \/ choice = 8) as Hc by lia.
  destruct Hc as [->|[->|[->|[->|[->|[->|[->|[->| ->]]]]]]]]; reflexivity.
Qed.

(* the tree as found: otherName, x400Address, directoryName, ediPartyName are written with a tag the reader refuses *)
Theorem general_name_roundtrip_refuted_legacy :
  exists choice d der, general_name_enc false choice d = Some der /\ general_name_dec der = None.
Proof. exists 4, [49; 0], (tlv 132 [49; 0]). split; vm_compute; reflexivity. Qed.

Example general_name_legacy_all_constructed_choices_fail :
  forallb (fun ch => match general_name_enc false ch [48; 0] with Some der => match general_name_dec der with None => true | _ => false end | None => false end) [0; 3; 4; 5] = true /\
  forallb (fun ch => match general_name_enc false ch [97; 98] with Some der => match general_name_dec der with Some (c, d, []) => (c =? ch) | _ => false end | None => false end) [1; 2; 6; 7; 8] = true.
Proof. split; vm_compute; reflexivity. Qed.

(* wave 5: a validity built with x509_validity_add_days always passes the lifetime bound of x509_validity_check *)
Theorem validity_add_days_ok : forall nb days na, validity_add_days nb days = Some na ->
  (nb < na /\ na - nb <= 3653 * 86400 /\ na - nb = days * 86400)%Z.
Proof.
  intros nb days na H. unfold validity_add_days in H.
  destruct ((days <? 1) || (3653 <? days))%Z eqn:E; [discriminate|]. inversion H; subst.
  apply orb_false_iff in E. destruct E as [E1 E2]. apply Z.ltb_ge in E1. apply Z.ltb_ge in E2. lia.
Qed.
