(* C15 — SEQUENCE-level composition and extraction of TBSCertificate, CertificationRequestInfo,
   TBSCertList and the signed wrapper, as the C API does it: components arrive already
   encoded (names, extensions, revoked list are DER passed by the caller); composition is
   "header + concatenation", extraction is positional with optional fields recognised by tag.
   Lengths are DER definite lengths up to INT_MAX as in asn1_length_to_der/from_der. *)
From Coq Require Import ZArith NArith List Bool Lia.
Import ListNotations.
Open Scope N_scope.

Definition len {A} (l : list A) : N := N.of_nat (length l).

(* asn1_length_to_der (len <= INT_MAX) *)
Definition len_enc (n : N) : list N :=
  if n <? 128 then [n]
  else if n <? 256 then [129; n]
  else if n <? 65536 then [130; n / 256; n mod 256]
  else if n <? 16777216 then [131; n / 65536; (n / 256) mod 256; n mod 256]
  else [132; n / 16777216; (n / 65536) mod 256; (n / 256) mod 256; n mod 256].

(* asn1_length_from_der without the "enough input" test (done by tlv_dec) *)
Definition len_dec (inp : list N) : option (N * list N) :=
  match inp with
  | [] => None
  | b :: r =>
    if b <? 128 then Some (b, r) else
    match b - 128, r with
    | 1, b0 :: r' => if b0 <? 128 then None else Some (b0, r')
    | 2, b1 :: b0 :: r' => if b1 =? 0 then None else Some (b1 * 256 + b0, r')
    | 3, b2 :: b1 :: b0 :: r' => if b2 =? 0 then None else Some (b2 * 65536 + b1 * 256 + b0, r')
    | 4, b3 :: b2 :: b1 :: b0 :: r' => if b3 =? 0 then None else Some (b3 * 16777216 + b2 * 65536 + b1 * 256 + b0, r')
    | _, _ => None
    end
  end.

Definition tlv (t : N) (c : list N) : list N := t :: len_enc (len c) ++ c.

(* asn1_any_type_from_der: tag, content, rest *)
Definition tlv_dec (inp : list N) : option (N * list N * list N) :=
  match inp with
  | [] => None
  | t :: r =>
    match len_dec r with
    | None => None
    | Some (n, r') =>
      if len r' <? n then None
      else Some (t, firstn (N.to_nat n) r', skipn (N.to_nat n) r')
    end
  end.

(* ------------------------------------------------------------------ positional records *)

(* one position: the tags it may carry, and whether it may be absent *)
Definition slot := (list N * bool)%type.
Definition value := option (N * list N).      (* present: (tag, content) *)

Definition enc_value (v : value) : list N := match v with Some (t, c) => tlv t c | None => [] end.
Definition enc_items (vs : list value) : list N := concat (map enc_value vs).

Definition tag_in (t : N) (ts : list N) : bool := existsb (N.eqb t) ts.

(* extraction by position: an optional slot is taken iff the next tag is one of its tags *)
Fixpoint dec_items (sp : list slot) (inp : list N) : option (list value * list N) :=
  match sp with
  | [] => Some ([], inp)
  | (ts, optional) :: sp' =>
    let absent := if optional
                  then match dec_items sp' inp with Some (l, r) => Some (None :: l, r) | None => None end
                  else None in
    match inp with
    | [] => absent
    | t :: _ =>
      if tag_in t ts then
        match tlv_dec inp with
        | Some (_, c, r) =>
          match dec_items sp' r with Some (l, r') => Some (Some (t, c) :: l, r') | None => None end
        | None => None
        end
      else absent
    end
  end.

(* admissible value lists for a layout, in front of [rest] *)
Fixpoint wf (sp : list slot) (vs : list value) (rest : list N) : Prop :=
  match sp, vs with
  | [], [] => True
  | (ts, optional) :: sp', v :: vs' =>
    wf sp' vs' rest /\
    match v with
    | Some (t, c) => tag_in t ts = true /\ len c < 2147483648
    | None => optional = true /\
              match enc_items vs' ++ rest with [] => True | t :: _ => tag_in t ts = false end
    end
  | _, _ => False
  end.

(* ------------------------------------------------------------------ the layouts *)

Definition T_INT := 2. Definition T_BITS := 3. Definition T_SEQ := 48. Definition T_SET := 49.
Definition T_UTC := 23. Definition T_GEN := 24.
Definition T_CTX (i : N) := 160 + i.     (* constructed context tag [i] *)
Definition T_IMP (i : N) := 128 + i.     (* primitive context tag [i] *)

(* TBSCertificate: [0] version, serial, signature, issuer, validity, subject, spki,
   [1] issuerUniqueID, [2] subjectUniqueID, [3] extensions *)
Definition tbs_cert_layout : list slot :=
  [([T_CTX 0], true); ([T_INT], false); ([T_SEQ], false); ([T_SEQ], false); ([T_SEQ], false);
   ([T_SEQ], false); ([T_SEQ], false); ([T_IMP 1], true); ([T_IMP 2], true); ([T_CTX 3], true)].
(* CertificationRequestInfo: version, subject, spki, [0] attributes *)
Definition req_info_layout : list slot :=
  [([T_INT], false); ([T_SEQ], false); ([T_SEQ], false); ([T_CTX 0], false)].
(* TBSCertList: version?, signature, issuer, thisUpdate, nextUpdate?, revoked?, [0] extensions? *)
Definition tbs_crl_layout : list slot :=
  [([T_INT], true); ([T_SEQ], false); ([T_SEQ], false); ([T_UTC; T_GEN], false);
   ([T_UTC; T_GEN], true); ([T_SEQ], true); ([T_CTX 0], true)].
(* SIGNED { tbs, algorithm, signature } *)
Definition signed_layout : list slot := [([T_SEQ], false); ([T_SEQ], false); ([T_BITS], false)].

(* x509_*_sign_to_der: the TBS is encoded once, [sigf] is applied to exactly those bytes *)
Definition sign_to_der (tbs_vals : list value) (alg : list N) (sigf : list N -> list N) : list N :=
  let tbs := tlv T_SEQ (enc_items tbs_vals) in
  tlv T_SEQ (tbs ++ tlv T_SEQ alg ++ tlv T_BITS (0 :: sigf tbs)).

(* x509_signed_from_der + asn1_length_is_zero: (tbs bytes, alg content, signature octets) *)
Definition signed_from_der (a : list N) : option (list N * list N * list N) :=
  match tlv_dec a with
  | Some (t, c, []) =>
    if t =? T_SEQ then
      match dec_items signed_layout c with
      | Some ([Some (_, tbsc); Some (_, alg); Some (_, 0 :: sig)], []) => Some (tlv T_SEQ tbsc, alg, sig)
      | _ => None
      end
    else None
  | _ => None
  end.

(* x509_cert_get_details / x509_req_get_details / x509_crl_get_details *)
Definition get_details (layout : list slot) (a : list N) : option (list value * list N * list N) :=
  match signed_from_der a with
  | None => None
  | Some (tbs, alg, sig) =>
    match tlv_dec tbs with
    | Some (_, c, []) =>
      match dec_items layout c with
      | Some (vs, []) => Some (vs, alg, sig)
      | _ => None
      end
    | _ => None
    end
  end.

(* ------------------------------------------------------------------ field encoders used by the run-time model *)

Fixpoint strip0 (a : list N) : list N :=
  match a with
  | 0 :: (_ :: _) as r => strip0 r
  | _ => a
  end.
(* content of asn1_integer_to_der: leading zeros dropped, 00 prefixed when the top bit is set *)
Definition integer_content (a : list N) : list N :=
  let s := strip0 a in
  match s with
  | b :: _ => if 128 <=? b then 0 :: s else s
  | [] => s
  end.
(* what asn1_integer_from_der hands back for that content *)
Definition integer_value (a : list N) : list N := strip0 a.

(* asn1_int_to_der content for small non-negative ints *)
Definition small_int_content (v : N) : list N :=
  if v <? 128 then [v] else if v <? 32768 then (if v <? 256 then [0; v] else [v / 256; v mod 256]) else [0; v / 256; v mod 256].

(* civil date from days since 1970-01-01 (proleptic Gregorian), time_t >= 0 *)
Definition civil (t : N) : N * N * N * N * N * N :=
  let days := Z.of_N (t / 86400) in
  let secs := t mod 86400 in
  let z := (days + 719468)%Z in
  let era := (z / 146097)%Z in
  let doe := (z - era * 146097)%Z in
  let yoe := ((doe - doe / 1460 + doe / 36524 - doe / 146096) / 365)%Z in
  let y := (yoe + era * 400)%Z in
  let doy := (doe - (365 * yoe + yoe / 4 - yoe / 100))%Z in
  let mp := ((5 * doy + 2) / 153)%Z in
  let d := (doy - (153 * mp + 2) / 5 + 1)%Z in
  let m := (if mp <? 10 then mp + 3 else mp - 9)%Z in
  let y' := (if m <=? 2 then y + 1 else y)%Z in
  (Z.to_N y', Z.to_N m, Z.to_N d, secs / 3600, (secs / 60) mod 60, secs mod 60).

Definition dig2 (v : N) : list N := [48 + v / 10; 48 + v mod 10].
Definition X509_MAX_UTC_TIME : N := 2524607999.
(* x509_time_to_der: UTCTime up to 2049, GeneralizedTime after *)
Definition time_value (t : N) : N * list N :=
  let '(y, mo, d, h, mi, s) := civil t in
  let tail := dig2 mo ++ dig2 d ++ dig2 h ++ dig2 mi ++ dig2 s ++ [90] in
  if t <=? X509_MAX_UTC_TIME then (T_UTC, dig2 (y mod 100) ++ tail)
  else (T_GEN, dig2 (y / 100) ++ dig2 (y mod 100) ++ tail).
Definition gen_time_value (t : N) : N * list N :=
  let '(y, mo, d, h, mi, s) := civil t in
  (T_GEN, dig2 (y / 100) ++ dig2 (y mod 100) ++ dig2 mo ++ dig2 d ++ dig2 h ++ dig2 mi ++ dig2 s ++ [90]).

(* SubjectPublicKeyInfo content for an SM2 point (x||y, 64 bytes) *)
Definition spki_content (xy : list N) : list N :=
  [48; 19; 6; 7; 42; 134; 72; 206; 61; 2; 1; 6; 8; 42; 129; 28; 207; 85; 1; 130; 45] ++ tlv T_BITS (0 :: 4 :: xy).
(* AlgorithmIdentifier content of sm2sign-with-sm3 (no parameters) *)
Definition alg_sm2sm3 : list N := [6; 8; 42; 129; 28; 207; 85; 1; 131; 117].

(* what x509_signature_algor_from_der maps to OID_sm2sign_with_sm3: that OID, with absent or NULL parameters *)
Definition alg_sm2sm3_null : list N := alg_sm2sm3 ++ [5; 0].
Fixpoint octets_eq (a b : list N) : bool :=
  match a, b with
  | [], [] => true
  | x :: a', y :: b' => (x =? y) && octets_eq a' b'
  | _, _ => false
  end.
Definition alg_is_sm2sm3 (alg : list N) : bool := octets_eq alg alg_sm2sm3 || octets_eq alg alg_sm2sm3_null.

Definition opt_nonempty (t : N) (c : list N) : value := match c with [] => None | _ => Some (t, c) end.

(* x509_tbs_cert_to_der *)
(* [alg]: the AlgorithmIdentifier content the build emits for sm2sign-with-sm3: [alg_sm2sm3], or
   [alg_sm2sm3_null] when the library is configured with ENABLE_SM2_ALGOR_ID_ENCODE_NULL *)
Definition tbs_cert_values (alg : list N) (version : Z) (serial issuer : list N) (nb na : N) (subject xy iuid suid exts : list N) : list value :=
  [ (if (version <? 0)%Z then None else Some (T_CTX 0, tlv T_INT (small_int_content (Z.to_N version))));
    Some (T_INT, integer_content serial);
    Some (T_SEQ, alg);
    Some (T_SEQ, issuer);
    Some (T_SEQ, (let '(t1, c1) := time_value nb in tlv t1 c1) ++ (let '(t2, c2) := time_value na in tlv t2 c2));
    Some (T_SEQ, subject);
    Some (T_SEQ, spki_content xy);
    match iuid with [] => None | _ => Some (T_IMP 1, 0 :: iuid) end;
    match suid with [] => None | _ => Some (T_IMP 2, 0 :: suid) end;
    match exts with [] => None | _ => Some (T_CTX 3, tlv T_SEQ exts) end ].

(* x509_request_info_to_der *)
Definition req_info_values (version : N) (subject xy attrs : list N) : list value :=
  [ Some (T_INT, small_int_content version); Some (T_SEQ, subject); Some (T_SEQ, spki_content xy); Some (T_CTX 0, attrs) ].

(* x509_tbs_crl_to_der; next_update / version: None = absent *)
Definition tbs_crl_values (alg : list N) (version : option N) (issuer : list N) (this_update : N) (next_update : option N)
           (revoked exts : list N) : list value :=
  [ match version with Some v => Some (T_INT, small_int_content v) | None => None end;
    Some (T_SEQ, alg);
    Some (T_SEQ, issuer);
    Some (time_value this_update);
    match next_update with Some t => Some (time_value t) | None => None end;
    match revoked with [] => None | _ => Some (T_SEQ, revoked) end;
    match exts with [] => None | _ => Some (T_CTX 0, tlv T_SEQ exts) end ].

(* x509_revoked_cert_to_der: serial, revocation date (always GeneralizedTime), optional entry extensions *)
Definition revoked_entry (serial : list N) (date : N) (exts : list N) : list N :=
  tlv T_SEQ (tlv T_INT (integer_content serial) ++ (let '(t, c) := gen_time_value date in tlv t c)
             ++ match exts with [] => [] | _ => tlv T_SEQ exts end).

(* ------------------------------------------------------------------ CRL lookup *)

(* a parsed revoked-certificate entry; None = x509_revoked_cert_from_der fails there *)
Definition entry := option (list N * N * list N)%type.       (* serial value, date, entry extensions *)

Inductive lookup := LErr | LNotFound | LFound (date : N) (exts : list N).

(* x509_revoked_certs_find_revoked_cert_by_serial_number *)
Fixpoint find_revoked (es : list entry) (serial : list N) : lookup :=
  match es with
  | [] => LNotFound
  | None :: _ => LErr
  | Some (sn, date, exts) :: r =>
    if (len sn =? len serial) && forallb (fun p => fst p =? snd p) (combine sn serial)
    then LFound date exts
    else find_revoked r serial
  end.

(* parse the revoked list back into entries (model of the loop's x509_revoked_cert_from_der) *)
Definition entry_layout : list slot := [([T_INT], false); ([T_UTC; T_GEN], false); ([T_SEQ], true)].

(* ------------------------------------------------------------------ Extension composition (wave 2)
   x509_ext_to_der / x509_ext_to_der_ex are two-pass encoders: a dry run adds up the sizes of
   the parts, the SEQUENCE header is written from that sum, then the parts are emitted.  The
   Impl models below keep the two passes apart (sizes are computed from lengths only, exactly
   as the NULL-output calls do); the Spec is the nested TLV. *)

Definition tlv_size (n : N) : N := 1 + len (len_enc n) + n.       (* asn1_type_to_der(.., NULL, &len) *)

(* asn1_boolean_to_der: nothing for -1, FALSE for 0, TRUE otherwise *)
Definition bool_tlv (critical : Z) : list N :=
  if (critical <? 0)%Z then [] else [1; 1; if (critical =? 0)%Z then 0 else 255].

(* x509_ext_to_der_ex(oid, critical, d, dlen): extnValue = OCTET STRING { SEQUENCE { d } } *)
Definition ext_ex_size (oidtlv : list N) (critical : Z) (dlen : N) : N :=
  let vlen := tlv_size dlen in                          (* asn1_sequence_to_der(d, dlen, NULL, &vlen) *)
  len oidtlv + len (bool_tlv critical) + 1 + len (len_enc vlen) + tlv_size dlen.
Definition ext_ex_emit (oidtlv : list N) (critical : Z) (d : list N) : list N :=
  let vlen := tlv_size (len d) in
  48 :: len_enc (ext_ex_size oidtlv critical (len d))
     ++ oidtlv ++ bool_tlv critical ++ 4 :: len_enc vlen ++ tlv 48 d.

(* x509_ext_to_der(oid, critical, val, vlen): extnValue = OCTET STRING { val } *)
Definition ext_size (oidtlv : list N) (critical : Z) (vlen : N) : N :=
  len oidtlv + len (bool_tlv critical) + tlv_size vlen.
Definition ext_emit (oidtlv : list N) (critical : Z) (val : list N) : list N :=
  48 :: len_enc (ext_size oidtlv critical (len val)) ++ oidtlv ++ bool_tlv critical ++ tlv 4 val.

(* Spec *)
Definition ext_spec (oidtlv : list N) (critical : Z) (val : list N) : list N :=
  tlv 48 (oidtlv ++ bool_tlv critical ++ tlv 4 val).

(* x509_ext_from_der: extnID, critical DEFAULT absent, extnValue; nothing after *)
Definition ext_layout : list slot := [([6], false); ([1], true); ([4], false)].
Definition ext_from_der (inp : list N) : option (list value * list N) :=
  match tlv_dec inp with
  | Some (t, c, rest) =>
    if t =? 48 then
      match dec_items ext_layout c with
      | Some (vs, []) => Some (vs, rest)
      | _ => None
      end
    else None
  | None => None
  end.

(* ------------------------------------------------------------------ exact-match lookups (wave 2)
   x509_certs_get_cert_by_issuer_and_serial_number, the RecipientInfo selection of
   cms_recipient_info_decrypt_from_der: both compare (issuer, serial) as byte strings, length
   and content. *)
Fixpoint octets_eqb (a b : list N) : bool :=
  match a, b with
  | [], [] => true
  | x :: a', y :: b' => (x =? y) && octets_eqb a' b'
  | _, _ => false
  end.

(* an element of the searched list: None = it does not parse (the loop returns -1 there) *)
Definition keyed (A : Type) := option (list N * list N * A)%type.   (* issuer, serial, payload *)
Inductive found (A : Type) := FErr | FNone | FHit (a : A).
Arguments FErr {A}. Arguments FNone {A}. Arguments FHit {A} a.

Fixpoint find_by_issuer_serial {A} (l : list (keyed A)) (issuer serial : list N) : found A :=
  match l with
  | [] => FNone
  | None :: _ => FErr
  | Some (i, s, a) :: r =>
    if octets_eqb i issuer && octets_eqb s serial then FHit a else find_by_issuer_serial r issuer serial
  end.

(* ------------------------------------------------------------------ x509_cert_check_crl (src/x509_new.c), wave 3
   the high-level entry point: fetch the CRL named by the certificate's distribution point, check its
   freshness and structure, its issuer name against the certificate's, its signature under the CA
   certificate, then look the certificate's serial number up.  1 only if every step succeeds and the
   serial is not listed. *)
Inductive crl_fetch := FetchNoDistributionPoint | FetchFailed | FetchOk.
Definition cert_check_crl (fetch : crl_fetch) (crl_parses crl_check_ok issuer_match sig_ok : bool)
           (es : list entry) (serial : list N) : bool :=
  match fetch with
  | FetchOk =>
    crl_parses && crl_check_ok && issuer_match && sig_ok &&
    match find_revoked es serial with LNotFound => true | _ => false end
  | _ => false
  end.

(* ------------------------------------------------------------------ Names (wave 5)
   x509_name_add_* / x509_name_set compose an RDNSequence of single-attribute RDNs:
   SET { SEQUENCE { OID type, DirectoryString value } }; x509_name_get_value_by_type walks it. *)
Definition T_OID := 6.
Inductive attr_type := AT_country | AT_state | AT_locality | AT_org | AT_org_unit | AT_common_name | AT_domain_component.
Definition attr_oid (t : attr_type) : list N :=
  match t with
  | AT_country => [85; 4; 6] | AT_state => [85; 4; 8] | AT_locality => [85; 4; 7] | AT_org => [85; 4; 10]
  | AT_org_unit => [85; 4; 11] | AT_common_name => [85; 4; 3]
  | AT_domain_component => [9; 146; 38; 137; 147; 242; 44; 100; 1; 25]
  end.
Definition attr := (attr_type * N * list N)%type.            (* type, string tag, value octets *)

(* x509_directory_name_check: TeletexString 20, PrintableString 19, UniversalString 28, UTF8String 12 without NUL; BMPString 30 even *)
Definition directory_string_ok (tag : N) (v : list N) : bool :=
  match v with
  | [] => false
  | _ =>
    if (tag =? 12) || (tag =? 19) || (tag =? 20) || (tag =? 28) then negb (existsb (N.eqb 0) v)
    else if tag =? 30 then N.even (len v)
    else false
  end.
(* x509_attr_type_and_value_check: per-type string kind and length bounds; domainComponent has no entry (every call fails) *)
Definition attr_ok (a : attr) : bool :=
  let '(t, tag, v) := a in
  match t with
  | AT_country => (tag =? 19) && directory_string_ok tag v && (len v =? 2)
  | AT_state | AT_locality => directory_string_ok tag v && (1 <=? len v) && (len v <=? 128)
  | AT_org | AT_org_unit | AT_common_name => directory_string_ok tag v && (1 <=? len v) && (len v <=? 64)
  | AT_domain_component => false
  end.

Definition rdn_enc (a : attr) : list N :=
  let '(t, tag, v) := a in tlv T_SET (tlv T_SEQ (tlv T_OID (attr_oid t) ++ tlv tag v)).
Definition name_enc (l : list attr) : list N := concat (map rdn_enc l).
(* x509_name_add_rdn / x509_name_set: refuse the whole name if one attribute is refused *)
Definition name_build (l : list attr) : option (list N) := if forallb attr_ok l then Some (name_enc l) else None.

Definition attr_type_of_oid (o : list N) : option attr_type :=
  if octets_eq o (attr_oid AT_country) then Some AT_country else if octets_eq o (attr_oid AT_state) then Some AT_state
  else if octets_eq o (attr_oid AT_locality) then Some AT_locality else if octets_eq o (attr_oid AT_org) then Some AT_org
  else if octets_eq o (attr_oid AT_org_unit) then Some AT_org_unit else if octets_eq o (attr_oid AT_common_name) then Some AT_common_name
  else if octets_eq o (attr_oid AT_domain_component) then Some AT_domain_component else None.

Definition atv_layout : list slot := [([T_OID], false); ([12; 19; 20; 28; 30; 22], false)].
(* x509_rdn_from_der over the whole RDNSequence: one attribute per RDN *)
Fixpoint name_dec (fuel : nat) (inp : list N) : option (list attr) :=
  match fuel with
  | O => None
  | S f =>
    match inp with
    | [] => Some []
    | _ =>
      match tlv_dec inp with
      | Some (t, c, rest) =>
        if t =? T_SET then
          match tlv_dec c with
          | Some (t2, c2, []) =>
            if t2 =? T_SEQ then
              match dec_items atv_layout c2 with
              | Some ([Some (_, o); Some (tag, v)], []) =>
                match attr_type_of_oid o, name_dec f rest with
                | Some ty, Some l => Some ((ty, tag, v) :: l)
                | _, _ => None
                end
              | _ => None
              end
            else None
          | _ => None
          end
        else None
      | None => None
      end
    end
  end.

(* x509_name_get_value_by_type: the first attribute of that type *)
Fixpoint name_get_value (l : list attr) (t : attr_type) : option (N * list N) :=
  match l with
  | [] => None
  | (t', tag, v) :: r => if octets_eq (attr_oid t') (attr_oid t) then Some (tag, v) else name_get_value r t
  end.

(* x509_certs_get_cert_by_index / x509_certs_get_last / x509_certs_get_count over a list of parsed certificates
   (None = x509_cert_from_der fails there) *)
Fixpoint certs_by_index {A} (l : list (option A)) (i : nat) : found A :=
  match l with
  | [] => FNone
  | None :: _ => FErr
  | Some a :: r => match i with O => FHit a | S j => certs_by_index r j end
  end.
Fixpoint certs_last {A} (l : list (option A)) (acc : found A) : found A :=
  match l with
  | [] => acc
  | None :: _ => FErr
  | Some a :: r => certs_last r (FHit a)
  end.

(* x509_crl_check(crl, now): inner = outer algorithm, version v1 or v2, thisUpdate <= now < nextUpdate (if present),
   and (x509_crl_exts_check) no critical extension at all while deltaCRLIndicator / issuingDistributionPoint must be critical *)
Inductive crl_ext_kind := CE_delta_or_idp | CE_issuer_alt_name | CE_aki | CE_other.
Definition crl_ext_ok (e : crl_ext_kind * Z) : bool :=
  let '(k, critical) := e in
  match k with
  | CE_delta_or_idp => false                                   (* must be critical, and critical is refused *)
  | _ => negb (critical =? 1)%Z
  end.
Definition crl_check (algs_agree : bool) (version this_update : Z) (next_update : option Z) (now : Z)
           (exts : list (crl_ext_kind * Z)) : bool :=
  algs_agree && ((version =? 0) || (version =? 1))%Z && (this_update <=? now)%Z
  && match next_update with Some n => (now <? n)%Z | None => true end
  && forallb crl_ext_ok exts.

(* ------------------------------------------------------------------ GeneralName / GeneralNames (wave 5)
   GeneralName ::= CHOICE { otherName [0], rfc822Name [1] IA5String, dNSName [2] IA5String, x400Address [3],
   directoryName [4], ediPartyName [5], uniformResourceIdentifier [6] IA5String, iPAddress [7], registeredID [8] }.
   x509_general_name_from_der expects the constructed form of the tag for choices 0, 3, 4, 5.  The tree as found writes
   the primitive form for every choice ([fix_gn_tag] = false); repaired, the writer uses what the reader expects. *)
Definition gn_constructed (choice : N) : bool := (choice =? 0) || (choice =? 3) || (choice =? 4) || (choice =? 5).
Definition gn_tag (fix_gn_tag : bool) (choice : N) : N :=
  if fix_gn_tag && gn_constructed choice then 160 + choice else 128 + choice.
Definition ia5_ok (v : list N) : bool := forallb (fun c => c <? 128) v.
(* x509_general_names_add_general_name: one more GeneralName appended; None = -1 *)
Definition general_name_enc (fix_gn_tag : bool) (choice : N) (d : list N) : option (list N) :=
  match d with
  | [] => None
  | _ =>
    if 8 <? choice then None
    else if ((choice =? 1) || (choice =? 2) || (choice =? 6)) && negb (ia5_ok d) then None
    else Some (tlv (gn_tag fix_gn_tag choice) d)
  end.
(* x509_general_name_from_der *)
Definition general_name_dec (inp : list N) : option (N * list N * list N) :=
  match tlv_dec inp with
  | Some (t, c, rest) =>
    if (t =? 160) || (t =? 163) || (t =? 164) || (t =? 165) then Some (t - 160, c, rest)
    else if (t =? 129) || (t =? 130) || (t =? 134) || (t =? 135) || (t =? 136) then Some (t - 128, c, rest)
    else None
  | None => None
  end.
(* x509_general_names_get_first / get_next: the first name of the wanted choice; None = a name in front does not parse *)
Fixpoint general_names_find (fuel : nat) (inp : list N) (choice : N) : option (option (list N)) :=
  match fuel with
  | O => None
  | S f =>
    match inp with
    | [] => Some None
    | _ => match general_name_dec inp with
           | Some (ch, c, rest) => if ch =? choice then Some (Some c) else general_names_find f rest choice
           | None => None
           end
    end
  end.

(* x509_validity_add_days: days in [1, 3653], no wrap (time_t arithmetic on 64-bit integers) *)
Definition validity_add_days (not_before : Z) (days : Z) : option Z :=
  if ((days <? 1) || (3653 <? days))%Z then None else Some (not_before + days * 86400)%Z.
