From Coq Require Import List NArith ZArith Lia Bool.
From GmVerif Require Import Pki.X509Codec Pki.X509CodecProofs Pki.CmsCodec.
Import ListNotations.
Open Scope N_scope.

Lemma struct_round : forall layout vs, wf layout vs [] -> len (enc_items vs) < 2147483648 ->
  struct_from_der layout (tlv T_SEQ (enc_items vs)) = Some vs.
Proof.
  intros layout vs Hwf Hl. unfold struct_from_der.
  rewrite <- (app_nil_r (tlv T_SEQ (enc_items vs))), tlv_round by exact Hl.
  cbn [N.eqb T_SEQ Pos.eqb].
  rewrite <- (app_nil_r (enc_items vs)), dec_items_round by exact Hwf. reflexivity.
Qed.

Lemma len_app' {A} (a b : list A) : len (a ++ b) = len a + len b.
Proof. unfold len. rewrite app_length. lia. Qed.
Lemma len_tlv_ge t c : len c <= len (tlv t c).
Proof. unfold tlv. change (t :: len_enc (len c) ++ c) with ([t] ++ len_enc (len c) ++ c). rewrite !len_app'. lia. Qed.
Lemma len_tlv_gt t c : len c < len (tlv t c).
Proof. unfold tlv. change (t :: len_enc (len c) ++ c) with ([t] ++ len_enc (len c) ++ c). rewrite !len_app'.
  unfold len at 2. cbn [length]. lia. Qed.

Lemma item_bound : forall vs t c B, In (Some (t, c)) vs -> len (enc_items vs) < B -> len c < B.
Proof.
  induction vs as [|v vs IH]; intros t c B Hin Hl; [destruct Hin|].
  unfold enc_items in Hl. cbn [map concat] in Hl. rewrite len_app' in Hl. destruct Hin as [->|Hin].
  - cbn [enc_value] in Hl. pose proof (len_tlv_ge t c). lia.
  - eapply IH; [exact Hin|]. unfold enc_items. lia.
Qed.

Lemma cat_values : forall vs, cat (map (fun v => Some (enc_value v)) vs) = Some (enc_items vs).
Proof.
  induction vs as [|v vs IH]; [reflexivity|].
  cbn [map cat]. rewrite IH. reflexivity.
Qed.

Lemma optional_type t d : optional (type_to_der t d) = Some (enc_value (opt_value t d)).
Proof. destruct d; reflexivity. Qed.

(* an encoder that is [seq_of] over present values reads back through its layout *)
Lemma seq_of_values_round : forall layout vs e,
  seq_of (map (fun v => Some (enc_value v)) vs) = Some e -> len e < 2147483648 ->
  (len (enc_items vs) < 2147483648 -> wf layout vs []) ->
  struct_from_der layout e = Some vs.
Proof.
  intros layout vs e He Hl Hwf. unfold seq_of in He. rewrite cat_values in He. injection He as <-.
  assert (len (enc_items vs) < 2147483648) by (pose proof (len_tlv_gt T_SEQ (enc_items vs)); lia).
  apply struct_round; auto.
Qed.

Ltac bound H := eapply item_bound; [|exact H]; cbn [In]; tauto.

(* IssuerAndSerialNumber *)
Theorem ias_roundtrip : forall issuer serial e,
  serial <> [] ->
  ias_to_der (Some issuer) (Some serial) = Some e -> len e < 2147483648 ->
  struct_from_der ias_layout e = Some [Some (T_SEQ, issuer); Some (T_INT, integer_content serial)].
Proof.
  intros issuer serial e Hs He Hl. destruct serial as [|s0 sr]; [congruence|].
  apply seq_of_values_round; [exact He|exact Hl|]. intro B.
  cbn [wf ias_layout]. split; [split; [exact I|split; [reflexivity|bound B]]|split; [reflexivity|bound B]].
Qed.

Lemma ias_is_seq : forall issuer serial e, ias_to_der issuer serial = Some e -> exists c, e = tlv T_SEQ c.
Proof. intros i s e H. unfold ias_to_der, seq_of in H. destruct (cat _); [injection H as <-; eauto|discriminate]. Qed.

(* SignerInfo *)
Theorem signer_info_roundtrip : forall issuer serial iasc da authed sa sig unauthed e,
  ias_to_der issuer serial = Some (tlv T_SEQ iasc) ->
  signer_info_to_der 1 issuer serial (Some (tlv T_SEQ da)) authed (Some (tlv T_SEQ sa)) (Some sig) unauthed = Some e ->
  len e < 2147483648 ->
  struct_from_der signer_info_layout e =
    Some [Some (T_INT, [1]); Some (T_SEQ, iasc); Some (T_SEQ, da); opt_value (T_CTX 0) authed;
          Some (T_SEQ, sa); Some (T_OCT, sig); opt_value (T_CTX 1) unauthed].
Proof.
  intros issuer serial iasc da authed sa sig unauthed e Hias He Hl.
  unfold signer_info_to_der in He. cbn [N.eqb Pos.eqb negb] in He. rewrite Hias, !optional_type in He.
  apply seq_of_values_round; [exact He|exact Hl|]. intro B.
  destruct authed, unauthed; cbn [wf signer_info_layout opt_value];
    repeat (split; [|]); try reflexivity; try exact I; try (bound B).
Qed.

(* RecipientInfo *)
Theorem recipient_info_roundtrip : forall issuer serial iasc pa ek e,
  ias_to_der issuer serial = Some (tlv T_SEQ iasc) ->
  recipient_info_to_der 1 issuer serial (Some (tlv T_SEQ pa)) (Some ek) = Some e ->
  len e < 2147483648 ->
  struct_from_der recipient_info_layout e =
    Some [Some (T_INT, [1]); Some (T_SEQ, iasc); Some (T_SEQ, pa); Some (T_OCT, ek)].
Proof.
  intros issuer serial iasc pa ek e Hias He Hl.
  unfold recipient_info_to_der in He. cbn [N.eqb Pos.eqb negb] in He. rewrite Hias in He.
  apply seq_of_values_round; [exact He|exact Hl|]. intro B.
  cbn [wf recipient_info_layout]; repeat (split; [|]); try reflexivity; try exact I; try (bound B).
Qed.

(* SignedData: the digest-algorithm SET, the ContentInfo, [0] certificates, [1] crls and the SignerInfos SET *)
Theorem signed_data_roundtrip : forall dalgs dc cic certs crls sis e,
  digest_algors_to_der dalgs = Some (tlv T_SET dc) -> sis <> [] ->
  signed_data_to_der 1 dalgs (Some (tlv T_SEQ cic)) certs crls (Some sis) = Some e ->
  len e < 2147483648 ->
  struct_from_der signed_data_layout e =
    Some [Some (T_INT, [1]); Some (T_SET, dc); Some (T_SEQ, cic); opt_value (T_CTX 0) certs;
          opt_value (T_CTX 1) crls; Some (T_SET, sis)].
Proof.
  intros dalgs dc cic certs crls sis e Hd Hs He Hl.
  unfold signed_data_to_der in He. rewrite Hd, !optional_type in He.
  destruct sis as [|s0 sr]; [congruence|]. cbn [nonempty_to_der type_to_der required] in He.
  apply seq_of_values_round; [exact He|exact Hl|]. intro B.
  destruct certs, crls; cbn [wf signed_data_layout opt_value];
    repeat (split; [|]); try reflexivity; try exact I; try (bound B).
Qed.

(* EnvelopedData *)
Theorem enveloped_data_roundtrip : forall ris ecic e,
  ris <> [] ->
  enveloped_data_to_der 1 (Some ris) (Some (tlv T_SEQ ecic)) = Some e -> len e < 2147483648 ->
  struct_from_der enveloped_data_layout e = Some [Some (T_INT, [1]); Some (T_SET, ris); Some (T_SEQ, ecic)].
Proof.
  intros ris ecic e Hr He Hl. unfold enveloped_data_to_der in He.
  destruct ris as [|r0 rr]; [congruence|]. cbn [nonempty_to_der type_to_der required] in He.
  apply seq_of_values_round; [exact He|exact Hl|]. intro B.
  cbn [wf enveloped_data_layout]; repeat (split; [|]); try reflexivity; try exact I; try (bound B).
Qed.

(* SignedAndEnvelopedData *)
Theorem signed_and_enveloped_data_roundtrip : forall ris dalgs dc ecic certs crls sis e,
  ris <> [] -> sis <> [] -> digest_algors_to_der dalgs = Some (tlv T_SET dc) ->
  signed_and_enveloped_data_to_der 1 (Some ris) dalgs (Some (tlv T_SEQ ecic)) certs crls (Some sis) = Some e ->
  len e < 2147483648 ->
  struct_from_der signed_and_enveloped_data_layout e =
    Some [Some (T_INT, [1]); Some (T_SET, ris); Some (T_SET, dc); Some (T_SEQ, ecic);
          opt_value (T_CTX 0) certs; opt_value (T_CTX 1) crls; Some (T_SET, sis)].
Proof.
  intros ris dalgs dc ecic certs crls sis e Hr Hs Hd He Hl. unfold signed_and_enveloped_data_to_der in He.
  destruct ris as [|r0 rr]; [congruence|]. destruct sis as [|s0 sr]; [congruence|].
  rewrite Hd, !optional_type in He. cbn [nonempty_to_der type_to_der required] in He.
  apply seq_of_values_round; [exact He|exact Hl|]. intro B.
  destruct certs, crls; cbn [wf signed_and_enveloped_data_layout opt_value];
    repeat (split; [|]); try reflexivity; try exact I; try (bound B).
Qed.

(* the encoders refuse what the decoders could not read back: an empty or missing SET of signer /
   recipient infos, a missing issuer or serial number, another version *)
Theorem encoders_refuse : forall issuer serial dalgs ci certs crls eci v da au sa sg un pa ek,
  signed_data_to_der v dalgs ci certs crls None = None /\
  signed_data_to_der v dalgs ci certs crls (Some []) = None /\
  enveloped_data_to_der v None eci = None /\
  enveloped_data_to_der v (Some []) eci = None /\
  ias_to_der None serial = None /\ ias_to_der issuer None = None /\ ias_to_der issuer (Some []) = None /\
  (v <> 1 -> signer_info_to_der v issuer serial da au sa sg un = None) /\
  (v <> 1 -> recipient_info_to_der v issuer serial pa ek = None).
Proof.
  intros.
  split; [|split; [|split; [|split; [|split; [|split; [|split; [|split]]]]]]].
  - unfold signed_data_to_der, seq_of. cbn [cat nonempty_to_der type_to_der required]. destruct (digest_algors_to_der dalgs), ci, (optional (type_to_der (T_CTX 0) certs)), (optional (type_to_der (T_CTX 1) crls)); reflexivity.
  - unfold signed_data_to_der, seq_of. cbn [cat nonempty_to_der type_to_der required]. destruct (digest_algors_to_der dalgs), ci, (optional (type_to_der (T_CTX 0) certs)), (optional (type_to_der (T_CTX 1) crls)); reflexivity.
  - reflexivity.
  - reflexivity.
  - reflexivity.
  - unfold ias_to_der, seq_of. cbn [cat integer_to_der required]. destruct (required (type_to_der T_SEQ issuer)); reflexivity.
  - unfold ias_to_der, seq_of. cbn [cat integer_to_der required]. destruct (required (type_to_der T_SEQ issuer)); reflexivity.
  - intro Hv. apply N.eqb_neq in Hv. unfold signer_info_to_der. rewrite Hv. reflexivity.
  - intro Hv. apply N.eqb_neq in Hv. unfold recipient_info_to_der. rewrite Hv. reflexivity.
Qed.
