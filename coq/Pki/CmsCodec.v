(* CMS DER layer, encoder side: the *_to_der functions of src/cms.c as compositions of the
   positional-record machinery of Pki/X509Codec.v (tlv / enc_items / dec_items / wf).
   The decoders' own models (with their memory-safety theorems) are builder-codec's Codec/Cms.v; here the
   encoders are given exact byte-level models, compared with the library on every run (op cmsenc), and each
   structure is proven to read back, field by field, through its layout. *)
From Coq Require Import List NArith ZArith Lia Bool.
From GmVerif Require Import Pki.X509Codec.
Import ListNotations.
Open Scope N_scope.

(* a (pointer, length) argument: None = NULL pointer, Some [] = a non-NULL pointer with length 0 *)
Definition fld := option (list N).
Inductive emit := EErr | EAbsent | EBytes (b : list N).

(* asn1_type_to_der *)
Definition type_to_der (t : N) (d : fld) : emit :=
  match d with None => EAbsent | Some c => EBytes (tlv t c) end.
(* asn1_nonempty_type_to_der *)
Definition nonempty_to_der (t : N) (d : fld) : emit :=
  match d with Some [] => EErr | _ => type_to_der t d end.
(* asn1_integer_to_der *)
Definition integer_to_der (d : fld) : emit :=
  match d with None => EAbsent | Some [] => EErr | Some a => EBytes (tlv T_INT (integer_content a)) end.
(* an algorithm identifier chosen by number: None = number not in the table *)
Definition alg_to_der (a : option (list N)) : emit :=
  match a with None => EErr | Some b => EBytes b end.

(* "!= 1" and "< 0" call sites *)
Definition required (e : emit) : option (list N) := match e with EBytes b => Some b | _ => None end.
Definition optional (e : emit) : option (list N) :=
  match e with EBytes b => Some b | EAbsent => Some [] | EErr => None end.

Fixpoint cat (l : list (option (list N))) : option (list N) :=
  match l with
  | [] => Some []
  | None :: _ => None
  | Some b :: r => match cat r with Some t => Some (b ++ t) | None => None end
  end.
Definition seq_of (l : list (option (list N))) : option (list N) :=
  match cat l with Some c => Some (tlv T_SEQ c) | None => None end.

Definition T_OCT := 4.
Definition int_tlv (v : N) : list N := tlv T_INT (small_int_content v).

(* cms_issuer_and_serial_number_to_der *)
Definition ias_to_der (issuer serial : fld) : option (list N) :=
  seq_of [required (type_to_der T_SEQ issuer); required (integer_to_der serial)].

(* cms_signer_info_to_der *)
Definition signer_info_to_der (version : N) (issuer serial : fld) (dalg : option (list N)) (authed : fld)
    (salg : option (list N)) (sig unauthed : fld) : option (list N) :=
  if negb (version =? 1) then None else
  seq_of [Some (int_tlv version); ias_to_der issuer serial; required (alg_to_der dalg);
          optional (type_to_der (T_CTX 0) authed); required (alg_to_der salg);
          required (type_to_der T_OCT sig); optional (type_to_der (T_CTX 1) unauthed)].

(* cms_recipient_info_to_der *)
Definition recipient_info_to_der (version : N) (issuer serial : fld) (palg : option (list N)) (enced_key : fld)
    : option (list N) :=
  if negb (version =? 1) then None else
  seq_of [Some (int_tlv version); ias_to_der issuer serial; required (alg_to_der palg);
          required (type_to_der T_OCT enced_key)].

(* cms_digest_algors_to_der: a SET header over the listed identifiers, in the order given *)
Definition digest_algors_to_der (algs : list (option (list N))) : option (list N) :=
  match cat (map (fun a => required (alg_to_der a)) algs) with
  | Some c => Some (tlv T_SET c) | None => None end.

(* cms_content_info_to_der: [ctype] is the encoded content-type OID TLV (None = unknown number);
   for the type "data" the content is wrapped in an OCTET STRING first *)
Definition content_info_to_der (is_data : bool) (ctype : option (list N)) (content : fld) : option (list N) :=
  if is_data then
    match content with
    | None => None
    | Some c => seq_of [required (alg_to_der ctype); Some (tlv (T_CTX 0) (tlv T_OCT c))]
    end
  else seq_of [required (alg_to_der ctype); optional (nonempty_to_der (T_CTX 0) content)].

(* cms_enced_content_info_to_der (modelled and proven in Codec/Cms.v; restated over this file's primitives so
   that the enclosing structures can be composed) *)
Definition enced_content_info_to_der (ctype ealg : option (list N)) (iv : fld) (ec s1 s2 : fld) : option (list N) :=
  seq_of [required (alg_to_der ctype);
          match ealg, required (type_to_der T_OCT iv) with
          | Some oid, Some ivt => Some (tlv T_SEQ (oid ++ ivt))      (* the writer does not look at the IV length; the reader wants 16 *)
          | _, _ => None
          end;
          optional (type_to_der (T_IMP 0) ec); optional (type_to_der (T_IMP 1) s1);
          optional (type_to_der (T_IMP 2) s2)].

(* cms_signed_data_to_der *)
Definition signed_data_to_der (version : N) (dalgs : list (option (list N))) (ci : option (list N))
    (certs crls sis : fld) : option (list N) :=
  seq_of [Some (int_tlv version); digest_algors_to_der dalgs; ci;
          optional (type_to_der (T_CTX 0) certs); optional (type_to_der (T_CTX 1) crls);
          required (nonempty_to_der T_SET sis)].

(* cms_enveloped_data_to_der *)
Definition enveloped_data_to_der (version : N) (ris : fld) (eci : option (list N)) : option (list N) :=
  seq_of [Some (int_tlv version); required (nonempty_to_der T_SET ris); eci].

(* cms_signed_and_enveloped_data_to_der *)
Definition signed_and_enveloped_data_to_der (version : N) (ris : fld) (dalgs : list (option (list N)))
    (eci : option (list N)) (certs crls sis : fld) : option (list N) :=
  seq_of [Some (int_tlv version); required (nonempty_to_der T_SET ris); digest_algors_to_der dalgs; eci;
          optional (type_to_der (T_CTX 0) certs); optional (type_to_der (T_CTX 1) crls);
          required (nonempty_to_der T_SET sis)].

(* ------------------------------------------------------------------ the layouts the decoders walk *)
Definition ias_layout : list slot := [([T_SEQ], false); ([T_INT], false)].
Definition signer_info_layout : list slot :=
  [([T_INT], false); ([T_SEQ], false); ([T_SEQ], false); ([T_CTX 0], true); ([T_SEQ], false); ([T_OCT], false);
   ([T_CTX 1], true)].
Definition recipient_info_layout : list slot := [([T_INT], false); ([T_SEQ], false); ([T_SEQ], false); ([T_OCT], false)].
Definition signed_data_layout : list slot :=
  [([T_INT], false); ([T_SET], false); ([T_SEQ], false); ([T_CTX 0], true); ([T_CTX 1], true); ([T_SET], false)].
Definition enveloped_data_layout : list slot := [([T_INT], false); ([T_SET], false); ([T_SEQ], false)].
Definition signed_and_enveloped_data_layout : list slot :=
  [([T_INT], false); ([T_SET], false); ([T_SET], false); ([T_SEQ], false); ([T_CTX 0], true); ([T_CTX 1], true);
   ([T_SET], false)].

(* read a structure: outer SEQUENCE, nothing after it, then the positional fields, nothing after them *)
Definition struct_from_der (layout : list slot) (a : list N) : option (list value) :=
  match tlv_dec a with
  | Some (t, c, []) =>
    if t =? T_SEQ then
      match dec_items layout c with Some (vs, []) => Some vs | _ => None end
    else None
  | _ => None
  end.

(* what the decoder hands back for a (pointer, length) argument that was written *)
Definition opt_value (t : N) (d : fld) : value := match d with Some c => Some (t, c) | None => None end.
