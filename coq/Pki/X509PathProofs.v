(* C07 — proofs about the path validation models of X509Path.v *)
From Coq Require Import ZArith NArith List Bool Lia.
From GmVerif Require Import Pki.X509Path.
Import ListNotations.
Open Scope Z_scope.

(* ------------------------------------------------------------------ extensions *)

Definition st_of (acc : option (Z * Z)) : Z * Z := match acc with Some v => v | None => (-1, -1) end.
Definition bc_step (acc : option (Z * Z)) (x : ext) : option (Z * Z) :=
  match x_body x with XBasic (Some v) => Some v | _ => acc end.

Lemma ext_step_state : forall t acc x st',
  ext_step t (st_of acc) x = Some st' -> st' = st_of (bc_step acc x).
Proof.
  intros t acc x st'. unfold ext_step, bc_step.
  destruct (x_ok x); cbn; [|discriminate].
  destruct (x_body x) as [ |ok|[b|]| | | | | |[[ca pl]|]|[l|]| | ]; cbn;
    repeat match goal with |- context [if ?b then _ else _] => destruct b end;
    intros H; inversion H; reflexivity.
Qed.

Lemma exts_loop_state : forall t xs acc st',
  exts_loop t (st_of acc) xs = Some st' -> st' = st_of (fold_left bc_step xs acc).
Proof.
  induction xs as [|x r IH]; cbn; intros acc st' H.
  - inversion H; reflexivity.
  - destruct (ext_step t (st_of acc) x) as [st1|] eqn:E; [|discriminate].
    apply ext_step_state in E. subst st1. apply IH in H. exact H.
Qed.

Lemma effective_bc_fold : forall c, effective_bc c = fold_left bc_step (c_exts c) None.
Proof. reflexivity. Qed.

(* per-extension facts established by a successful loop *)
Definition ext_fact (t : cert_type) (x : ext) : Prop :=
  x_ok x = true /\
  (x_body x = XUnknown -> x_critical x <> 1) /\
  (forall bits, x_body x = XKeyUsage (Some bits) -> key_usage_check bits t = true) /\
  (forall l, x_body x = XExtKeyUsage (Some l) -> ext_key_usage_check l t = 1) /\
  (forall ca pl, x_body x = XBasic (Some (ca, pl)) -> basic_constraints_check ca pl t = true).

Lemma ext_step_fact : forall t st x st', ext_step t st x = Some st' -> ext_fact t x.
Proof.
  intros t st x st'. unfold ext_step, ext_fact.
  destruct (x_ok x); cbn; [|discriminate].
  destruct (x_body x) as [ |ok|[b|]| | | | | |[[ca pl]|]|[l|]| | ]; cbn; intros H;
    (split; [reflexivity|]); repeat split; intros; try discriminate;
    try match goal with H0 : _ = _ :> ext_body |- _ => inversion H0; subst; clear H0 end;
    repeat match goal with H1 : context [if ?b then _ else _] |- _ => destruct b eqn:?; try discriminate end;
    try reflexivity; try assumption;
    try (apply Z.eqb_eq; assumption); try (apply Z.eqb_neq; assumption).
Qed.

Lemma exts_loop_facts : forall t xs st st',
  exts_loop t st xs = Some st' -> Forall (ext_fact t) xs.
Proof.
  induction xs as [|x r IH]; cbn; intros st st' H; [constructor|].
  destruct (ext_step t st x) as [st1|] eqn:E; [|discriminate].
  constructor; [eapply ext_step_fact; eauto | eapply IH; eauto].
Qed.

Lemma eku_loop_1 : forall l t r, eku_loop l t r = 1 -> r = 1 \/
  match t with
  | CT_server_auth | CT_server_kenc => In KP_server l
  | CT_client_auth | CT_client_kenc => In KP_client l
  | _ => False end.
Proof.
  induction l as [|o r IH]; cbn; intros t ret H; [left; exact H|].
  destruct t; try (exfalso; lia);
  destruct o; try (right; left; reflexivity);
  apply IH in H; (destruct H as [H|H]; [try (left; exact H); try (exfalso; lia) | right; right; exact H]).
Qed.

Lemma eku_check_server : forall l t, ext_key_usage_check l t = 1 ->
  (t = CT_server_auth \/ t = CT_server_kenc) -> In KP_server l.
Proof.
  intros l t H Ht. apply eku_loop_1 in H. destruct H as [H|H]; [lia|].
  destruct Ht; subst; exact H.
Qed.
Lemma eku_check_client : forall l t, ext_key_usage_check l t = 1 ->
  (t = CT_client_auth \/ t = CT_client_kenc) -> In KP_client l.
Proof.
  intros l t H Ht. apply eku_loop_1 in H. destruct H as [H|H]; [lia|].
  destruct Ht; subst; exact H.
Qed.

(* what a successful x509_exts_check establishes *)
Lemma exts_check_facts : forall f xs t pl, exts_check f xs t = Some pl ->
  Forall (ext_fact t) xs /\
  (exists ca, st_of (fold_left bc_step xs None) = (ca, pl) /\
     (fix_ca_bc f = true -> (t = CT_ca \/ t = CT_root_ca) -> ca = 1)).
Proof.
  intros f xs t pl. unfold exts_check.
  destruct (exts_loop t (-1, -1) xs) as [[ca pl']|] eqn:E; [|discriminate].
  pose proof (exts_loop_facts _ _ _ _ E) as HF.
  change (-1, -1) with (st_of None) in E. apply exts_loop_state in E.
  intros H. split; [exact HF|]. exists ca.
  destruct (fix_ca_bc f && match t with CT_ca | CT_root_ca => true | _ => false end && negb (ca =? 1)) eqn:B;
    [discriminate|]. inversion H; subst pl'. split; [symmetry; exact E|].
  intros Hf Ht. rewrite Hf in B.
  assert (match t with CT_ca | CT_root_ca => true | _ => false end = true) as Ht' by (destruct Ht; subst; reflexivity).
  rewrite Ht' in B. cbn in B. apply negb_false_iff in B. apply Z.eqb_eq in B. exact B.
Qed.

(* ------------------------------------------------------------------ one certificate *)

Lemma validity_check_true : forall nb na now, validity_check nb na now = true ->
  nb <= na /\ na - nb <= X509_VALIDITY_MAX_SECONDS /\ nb <= now <= na.
Proof.
  intros nb na now. unfold validity_check. rewrite !andb_true_iff, !Z.leb_le. lia.
Qed.

Lemma cert_check_facts : forall f now c t pl, cert_check f now c t = Some pl ->
  get_details_ok c = true /\ c_version c = 2 /\ c_serial_len c <> 0%N /\
  validity_check (c_not_before c) (c_not_after c) now = true /\
  c_issuer c <> 0%N /\ c_subject c <> 0%N /\ c_alg_match c = true /\
  exts_check f (c_exts c) t = Some pl.
Proof.
  intros f now c t pl. unfold cert_check, name_check.
  destruct (get_details_ok c); cbn; [|discriminate].
  destruct (c_version c =? 2) eqn:Ev; cbn; [|discriminate]. apply Z.eqb_eq in Ev.
  destruct (c_serial_len c =? 0)%N eqn:Es; [discriminate|]. apply N.eqb_neq in Es.
  destruct (validity_check _ _ _); cbn; [|discriminate].
  destruct (c_issuer c =? 0)%N eqn:Ei; cbn; [discriminate|]. apply N.eqb_neq in Ei.
  destruct (c_subject c =? 0)%N eqn:Esu; cbn; [discriminate|]. apply N.eqb_neq in Esu.
  destruct (exts_check f (c_exts c) t) as [pl'|]; [|discriminate].
  destruct (c_alg_match c); [|discriminate].
  intros H; inversion H; subst. repeat split; auto.
Qed.

Lemma alg_eqb_true : forall a b, alg_eqb a b = true -> a = b /\ b <> AlgUnknown.
Proof.
  intros [|x|] [|y|]; cbn; intros H; try discriminate; split; try reflexivity; try discriminate.
  apply N.eqb_eq in H. subst. reflexivity.
Qed.

Lemma get_details_ok_parse : forall c, get_details_ok c = true -> c_parse_ok c = true.
Proof. intros c H. unfold get_details_ok in H. rewrite !andb_true_iff in H. tauto. Qed.

Lemma cert_check_ok : forall f now c t pl, cert_check f now c t = Some pl -> cert_ok now c.
Proof.
  intros f now c t pl H. apply cert_check_facts in H.
  destruct H as (Hd & _ & _ & Hv & _ & _ & Ham & He).
  apply exts_check_facts in He. destruct He as [HF _].
  apply validity_check_true in Hv.
  apply get_details_ok_parse in Hd.
  unfold cert_ok, parses, valid_now, no_unknown_critical.
  split; [split; [exact Hd|eapply Forall_impl; [|exact HF]; intros x Hx; apply Hx]|].
  split; [lia|]. split.
  - intros x Hin Hb. rewrite Forall_forall in HF. apply (HF x Hin). exact Hb.
  - apply alg_eqb_true. exact Ham.
Qed.

(* a successfully checked issuer (repaired x509_exts_check) is a CA with the returned pathLen *)
Lemma cert_check_ca : forall f now c pl, fix_ca_bc f = true -> cert_check f now c CT_ca = Some pl ->
  effective_bc c = Some (1, pl) /\ cert_sign_if_ku c.
Proof.
  intros f now c pl Hf H. apply cert_check_facts in H.
  destruct H as (_ & _ & _ & _ & _ & _ & _ & He).
  apply exts_check_facts in He. destruct He as [HF [ca [Hst Hca]]].
  specialize (Hca Hf (or_introl eq_refl)). subst ca.
  split.
  - rewrite effective_bc_fold. destruct (fold_left bc_step (c_exts c) None) as [v|]; cbn in Hst.
    + subst v; reflexivity.
    + inversion Hst.
  - intros x bits Hin Hb. rewrite Forall_forall in HF. destruct (HF x Hin) as (_ & _ & Hku & _).
    specialize (Hku bits Hb). unfold key_usage_check in Hku.
    destruct (bits =? 0)%N; [discriminate|exact Hku].
Qed.

Lemma cert_check_leaf_usage : forall f now c t r bit pl,
  cert_check f now c t = Some pl ->
  (r = RoleServer /\ bit = KU_DIGITAL_SIGNATURE /\ t = CT_server_auth) \/
  (r = RoleClient /\ bit = KU_DIGITAL_SIGNATURE /\ t = CT_client_auth) \/
  (r = RoleServer /\ bit = KU_KEY_ENCIPHERMENT /\ t = CT_server_kenc) \/
  (r = RoleClient /\ bit = KU_KEY_ENCIPHERMENT /\ t = CT_client_kenc) ->
  leaf_usage_ok r bit c.
Proof.
  intros f now c t r bit pl H Hc. apply cert_check_facts in H.
  destruct H as (_ & _ & _ & _ & _ & _ & _ & He).
  apply exts_check_facts in He. destruct He as [HF _]. rewrite Forall_forall in HF.
  split.
  - intros x bits Hin Hb. destruct (HF x Hin) as (_ & _ & Hku & _). specialize (Hku bits Hb).
    unfold key_usage_check in Hku. destruct (bits =? 0)%N; [discriminate|].
    destruct Hc as [(?&?&?)|[(?&?&?)|[(?&?&?)|(?&?&?)]]]; subst; apply andb_true_iff in Hku; apply Hku.
  - intros x l Hin Hb. destruct (HF x Hin) as (_ & _ & _ & Hek & _). specialize (Hek l Hb).
    destruct Hc as [(?&?&?)|[(?&?&?)|[(?&?&?)|(?&?&?)]]]; subst; cbn;
      first [ eapply eku_check_server; [exact Hek|auto] | eapply eku_check_client; [exact Hek|auto] ].
Qed.

Lemma verify_by_ca_issued : forall c ca, verify_by_ca c ca = true -> issued_by c ca.
Proof.
  intros c ca. unfold verify_by_ca, issued_by. rewrite !andb_true_iff, N.eqb_eq.
  intros [[[_ Hi] Ha] Hs]. repeat split; try assumption. destruct (c_outer_alg c); [reflexivity|discriminate|discriminate].
Qed.

Lemma pathlen_ok : forall plc path_len depth, pathlen_fail plc path_len depth = false ->
  (0 <= plc -> path_len <= plc) /\ path_len <= depth.
Proof.
  intros plc p d. unfold pathlen_fail. rewrite orb_false_iff, andb_false_iff, Z.leb_gt, !Z.ltb_ge. lia.
Qed.

Lemma issuer_ok_of_check : forall f now c plc path_len depth,
  fix_ca_bc f = true -> cert_check f now c CT_ca = Some plc ->
  pathlen_fail plc path_len depth = false -> issuer_ok depth path_len c.
Proof.
  intros f now c plc p d Hf Hc Hp. destruct (cert_check_ca _ _ _ _ Hf Hc) as [Hbc Hku].
  apply pathlen_ok in Hp. unfold issuer_ok, is_ca, pathlen_respected. repeat split; auto.
  - exists plc; exact Hbc.
  - intros ca pl He Hpl. rewrite Hbc in He. inversion He; subst. lia.
  - lia.
Qed.

(* ------------------------------------------------------------------ the loop *)

Lemma last_cons : forall (l : list cert) a d, last (a :: l) d = last l a.
Proof. induction l as [|b r IH]; intros a d; [reflexivity|]. change (last (a :: b :: r) d) with (last (b :: r) d). rewrite (IH b d), (IH b a). reflexivity. Qed.

Lemma linked_snoc : forall l cur b, linked (cur :: l) -> issued_by (last l cur) b -> linked ((cur :: l) ++ [b]).
Proof.
  induction l as [|a r IH]; intros cur b H Hi.
  - cbn in *. auto.
  - cbn [linked] in H. destruct H as [H1 H2]. rewrite last_cons in Hi.
    change ((cur :: a :: r) ++ [b]) with (cur :: ((a :: r) ++ [b])).
    cbn [linked app]. split; [exact H1|]. apply (IH a b H2 Hi).
Qed.

(* invariant of verify_loop: [done] = the issuers already traversed below [cur] (nearest the
   leaf first); result: all of rest traversed *)
Lemma verify_loop_sound : forall f now depth kenc rest cur path_len top pl,
  verify_loop f now depth kenc cur rest path_len = Some (top, pl) ->
  pl = path_len + Z.of_nat (length rest) /\
  top = last rest cur /\
  linked (cur :: rest) /\
  Forall (cert_ok now) rest /\
  (fix_ca_bc f = true -> forall k i, nth_error rest k = Some i -> issuer_ok depth (path_len + Z.of_nat k) i) /\
  (path_len = 0 -> forall k0 c, kenc = Some k0 -> rest = c :: tl rest -> issued_by k0 c).
Proof.
  intros f now depth kenc rest. induction rest as [|ca r IH]; intros cur p top pl H.
  - cbn in H. inversion H; subst. cbn.
    split; [lia|split; [reflexivity|split; [exact I|split; [constructor|split]]]].
    + intros _ k i Hk. destruct k; discriminate.
    + intros _ k0 c _ Hc. discriminate.
  - cbn [verify_loop] in H.
    destruct (get_details_ok ca); cbn in H; [|discriminate].
    destruct (cert_check f now ca CT_ca) as [plc|] eqn:Ec; [|discriminate].
    destruct ((p =? 0) && negb (plc =? 0)); [discriminate|].
    destruct ((p =? 0) && match kenc with Some k => negb (verify_by_ca k ca) | None => false end) eqn:Ek; [discriminate|].
    destruct (pathlen_fail plc p depth) eqn:Ep; [discriminate|].
    destruct (verify_by_ca cur ca) eqn:Ev; cbn in H; [|discriminate].
    apply IH in H. destruct H as (Hpl & Htop & Hl & Hok & Hiss & _).
    split; [|split; [|split; [split|split; [|split]]]].
    + rewrite Hpl. cbn [length]. lia.
    + rewrite Htop. symmetry. apply last_cons.
    + apply verify_by_ca_issued; exact Ev.
    + exact Hl.
    + constructor; [eapply cert_check_ok; exact Ec|exact Hok].
    + intros Hf k i Hk. destruct k as [|k]; cbn in Hk.
      * inversion Hk; subst i. rewrite Z.add_0_r. eapply issuer_ok_of_check; eauto.
      * specialize (Hiss Hf k i Hk). replace (p + Z.of_nat (S k)) with (p + 1 + Z.of_nat k) by lia. exact Hiss.
    + intros Hp0 k0 c Hk Hc. cbn in Hc. inversion Hc; subst c. subst kenc.
      rewrite Hp0 in Ek. cbn in Ek. apply negb_false_iff in Ek. apply verify_by_ca_issued; exact Ek.
Qed.

Lemma get_cert_by_subject_in : forall store subj c, get_cert_by_subject store subj = inr c ->
  In c store /\ c_subject c = subj.
Proof.
  induction store as [|x r IH]; cbn; intros subj c H; [discriminate|].
  destruct (get_details_ok x); cbn in H; [|discriminate].
  destruct (c_subject x =? subj)%N eqn:E.
  - inversion H; subst. apply N.eqb_eq in E. split; [left; reflexivity|exact E].
  - apply IH in H. destruct H; split; [right; assumption|assumption].
Qed.

Lemma verify_anchor_sound : forall f now depth kenc store top pl,
  verify_anchor f now depth kenc store top pl = true ->
  exists root, In root store /\ cert_ok now root /\ issued_by top root /\
    (fix_ca_bc f = true -> issuer_ok depth pl root) /\ pl <= depth /\
    (pl = 0 -> forall k, kenc = Some k -> issued_by k root).
Proof.
  intros f now depth kenc store top pl. unfold verify_anchor.
  destruct (get_details_ok top); cbn; [|discriminate].
  destruct (get_cert_by_subject store (c_issuer top)) as [b|root] eqn:Eg; [discriminate|].
  destruct (cert_check f now root CT_ca) as [plc|] eqn:Ec; [|discriminate].
  destruct (pathlen_fail plc pl depth) eqn:Ep; [discriminate|].
  destruct ((pl =? 0) && match kenc with Some k => negb (verify_by_ca k root) | None => false end) eqn:Ek; [discriminate|].
  intros Hv. exists root. apply get_cert_by_subject_in in Eg. destruct Eg as [Hin _].
  split; [exact Hin|]. split; [eapply cert_check_ok; exact Ec|].
  split; [apply verify_by_ca_issued; exact Hv|].
  split; [intros Hf; eapply issuer_ok_of_check; eauto|].
  split; [apply pathlen_ok in Ep; lia|].
  intros Hp0 k Hk. subst kenc pl. cbn in Ek. apply negb_false_iff in Ek. apply verify_by_ca_issued; exact Ek.
Qed.

(* ------------------------------------------------------------------ soundness *)

Lemma issuers_ok_app : forall depth rest root,
  (forall k i, nth_error rest k = Some i -> issuer_ok depth (0 + Z.of_nat k) i) ->
  issuer_ok depth (0 + Z.of_nat (length rest)) root ->
  issuers_ok depth (rest ++ [root]).
Proof.
  intros depth rest root H1 H2 k i Hk.
  destruct (Nat.lt_ge_cases k (length rest)) as [Hlt|Hge].
  - rewrite nth_error_app1 in Hk by exact Hlt. apply (H1 k i Hk).
  - rewrite nth_error_app2 in Hk by exact Hge.
    destruct (k - length rest)%nat as [|n] eqn:E; cbn in Hk.
    + inversion Hk; subst i. assert (k = length rest) by lia. subst k. exact H2.
    + destruct n; discriminate.
Qed.

Theorem certs_verify_sound : forall f now r depth store chain,
  fix_ca_bc f = true ->
  certs_verify f now r depth store chain = true ->
  valid_chain now r depth store chain.
Proof.
  intros f now r depth store chain Hf H. unfold certs_verify in H.
  assert (r <> RoleInvalid) as Hr by (destruct r; [discriminate|discriminate|discriminate H]).
  split; [exact Hr|].
  set (et := match r with RoleServer => CT_server_auth | _ => CT_client_auth end) in H.
  assert (match chain with
          | [] => false
          | leaf :: rest =>
            if negb (get_details_ok leaf) then false else
            match cert_check f now leaf et with
            | None => false
            | Some _ => match verify_loop f now depth None leaf rest 0 with
                        | None => false
                        | Some (top, pl) => verify_anchor f now depth None store top pl end end end = true) as H'
    by (destruct r; [exact H|exact H|contradiction]).
  clear H. destruct chain as [|leaf rest]; [discriminate|].
  destruct (get_details_ok leaf); cbn in H'; [|discriminate].
  destruct (cert_check f now leaf et) as [plc|] eqn:Ec; [|discriminate].
  destruct (verify_loop f now depth None leaf rest 0) as [[top pl]|] eqn:El; [|discriminate].
  apply verify_loop_sound in El. destruct El as (Hpl & Htop & Hl & Hok & Hiss & _). specialize (Hiss Hf).
  apply verify_anchor_sound in H'. destruct H' as (root & Hin & Hrok & Hri & Hrio & _ & _). specialize (Hrio Hf).
  exists leaf, rest, root. split; [reflexivity|]. split; [exact Hin|].
  split; [|split; [|split]].
  - cbn [app]. constructor; [eapply cert_check_ok; exact Ec|].
    apply Forall_app. split; [exact Hok|constructor; [exact Hrok|constructor]].
  - apply linked_snoc; [exact Hl|]. rewrite <- Htop. exact Hri.
  - apply issuers_ok_app; [exact Hiss|]. rewrite <- Hpl. exact Hrio.
  - eapply cert_check_leaf_usage; [exact Ec|]. subst et.
    destruct r; [left; auto|right; left; auto|contradiction].
Qed.

Theorem certs_verify_tlcp_sound : forall f now r depth store chain,
  fix_ca_bc f = true -> fix_tlcp_role f = true ->
  certs_verify_tlcp f now r depth store chain = true ->
  valid_chain_tlcp now r depth store chain.
Proof.
  intros f now r depth store chain Hf Hf2 H. unfold certs_verify_tlcp in H. rewrite Hf2 in H.
  assert (r <> RoleInvalid) as Hr by (destruct r; [discriminate|discriminate|discriminate H]).
  split; [exact Hr|].
  set (client := match r with RoleClient => true | _ => false end) in H.
  set (st := if client then CT_client_auth else CT_server_auth) in H.
  set (kt := if client then CT_client_kenc else CT_server_kenc) in H.
  assert (match chain with
    | sign :: kenc :: rest =>
        if negb (get_details_ok sign) then false else
        match cert_check f now sign st with
        | None => false
        | Some _ =>
            if negb (get_details_ok kenc) then false else
            match cert_check f now kenc kt with
            | None => false
            | Some _ =>
                match verify_loop f now depth (Some kenc) sign rest 0 with
                | None => false
                | Some (top, pl) => verify_anchor f now depth (Some kenc) store top pl
                end
            end
        end
    | _ => false
    end = true) as H' by (destruct r; [exact H|exact H|contradiction]).
  clear H. destruct chain as [|sign [|kenc rest]]; [discriminate|discriminate|].
  destruct (get_details_ok sign); cbn in H'; [|discriminate].
  destruct (cert_check f now sign st) as [plc|] eqn:Ec; [|discriminate].
  destruct (get_details_ok kenc); cbn in H'; [|discriminate].
  destruct (cert_check f now kenc kt) as [plk|] eqn:Eck; [|discriminate].
  destruct (verify_loop f now depth (Some kenc) sign rest 0) as [[top pl]|] eqn:El; [|discriminate].
  apply verify_loop_sound in El. destruct El as (Hpl & Htop & Hl & Hok & Hiss & Hk). specialize (Hiss Hf).
  apply verify_anchor_sound in H'. destruct H' as (root & Hin & Hrok & Hri & Hrio & _ & Hkr). specialize (Hrio Hf).
  exists sign, kenc, rest, root. split; [reflexivity|]. split; [exact Hin|].
  split; [|split; [|split; [|split; [|split]]]].
  - cbn [app]. constructor; [eapply cert_check_ok; exact Ec|].
    constructor; [eapply cert_check_ok; exact Eck|].
    apply Forall_app. split; [exact Hok|constructor; [exact Hrok|constructor]].
  - change (sign :: rest ++ [root]) with ((sign :: rest) ++ [root]).
    apply linked_snoc; [exact Hl|]. rewrite <- Htop. exact Hri.
  - destruct rest as [|c rest'].
    + cbn. apply Hkr; [cbn in Hpl; lia|reflexivity].
    + cbn. apply (Hk eq_refl kenc c); reflexivity.
  - apply issuers_ok_app; [exact Hiss|]. rewrite <- Hpl. exact Hrio.
  - eapply cert_check_leaf_usage; [exact Ec|]. subst st client.
    destruct r; [left; auto|right; left; auto|contradiction].
  - eapply cert_check_leaf_usage; [exact Eck|]. subst kt client.
    destruct r; [right; right; left; auto|right; right; right; auto|contradiction].
Qed.

(* ------------------------------------------------------------------ what holds for every setting of the
   switches (hence also of the tree as found): everything except "issuers are CAs" *)

Theorem certs_verify_basic : forall f now r depth store chain,
  certs_verify f now r depth store chain = true ->
  exists leaf cas root,
    chain = leaf :: cas /\ In root store /\
    Forall (cert_ok now) (chain ++ [root]) /\
    linked (chain ++ [root]) /\
    leaf_usage_ok r KU_DIGITAL_SIGNATURE leaf /\
    Z.of_nat (length cas) <= depth.
Proof.
  intros f now r depth store chain H. unfold certs_verify in H.
  assert (r <> RoleInvalid) as Hr by (destruct r; [discriminate|discriminate|discriminate H]).
  set (et := match r with RoleServer => CT_server_auth | _ => CT_client_auth end) in H.
  assert (match chain with
          | [] => false
          | leaf :: rest =>
            if negb (get_details_ok leaf) then false else
            match cert_check f now leaf et with
            | None => false
            | Some _ => match verify_loop f now depth None leaf rest 0 with
                        | None => false
                        | Some (top, pl) => verify_anchor f now depth None store top pl end end end = true) as H'
    by (destruct r; [exact H|exact H|contradiction]).
  clear H. destruct chain as [|leaf rest]; [discriminate|].
  destruct (get_details_ok leaf); cbn in H'; [|discriminate].
  destruct (cert_check f now leaf et) as [plc|] eqn:Ec; [|discriminate].
  destruct (verify_loop f now depth None leaf rest 0) as [[top pl]|] eqn:El; [|discriminate].
  apply verify_loop_sound in El. destruct El as (Hpl & Htop & Hl & Hok & _ & _).
  apply verify_anchor_sound in H'. destruct H' as (root & Hin & Hrok & Hri & _ & Hdep & _).
  exists leaf, rest, root. split; [reflexivity|]. split; [exact Hin|].
  split; [|split; [|split]].
  - cbn [app]. constructor; [eapply cert_check_ok; exact Ec|].
    apply Forall_app. split; [exact Hok|constructor; [exact Hrok|constructor]].
  - apply linked_snoc; [exact Hl|]. rewrite <- Htop. exact Hri.
  - eapply cert_check_leaf_usage; [exact Ec|]. subst et.
    destruct r; [left; auto|right; left; auto|contradiction].
  - lia.
Qed.

(* the caller's depth limit bounds the chain length *)
Theorem depth_respected : forall f now r depth store chain,
  certs_verify f now r depth store chain = true -> Z.of_nat (length chain) <= depth + 1.
Proof.
  intros f now r depth store chain H. apply certs_verify_basic in H.
  destruct H as (leaf & cas & root & Hc & _ & _ & _ & _ & Hd). subst chain. cbn [length]. lia.
Qed.

(* a critical extension the implementation does not recognise, anywhere in the chain, rejects *)
Theorem unknown_critical_rejected : forall f now r depth store chain c x,
  In c chain -> In x (c_exts c) -> x_body x = XUnknown -> x_critical x = 1 ->
  certs_verify f now r depth store chain = false.
Proof.
  intros f now r depth store chain c x Hc Hx Hb Hcr.
  destruct (certs_verify f now r depth store chain) eqn:E; [|reflexivity].
  apply certs_verify_basic in E. destruct E as (leaf & cas & root & Hch & _ & Hok & _).
  rewrite Forall_forall in Hok. assert (In c (chain ++ [root])) as Hin by (apply in_or_app; left; exact Hc).
  destruct (Hok c Hin) as (_ & _ & Hnu & _). exfalso. apply (Hnu x Hx Hb Hcr).
Qed.

(* a certificate outside its validity window (ends inclusive), anywhere in the chain, rejects *)
Theorem validity_window : forall f now r depth store chain c,
  In c chain -> (now < c_not_before c \/ c_not_after c < now) ->
  certs_verify f now r depth store chain = false.
Proof.
  intros f now r depth store chain c Hc Hv.
  destruct (certs_verify f now r depth store chain) eqn:E; [|reflexivity].
  apply certs_verify_basic in E. destruct E as (leaf & cas & root & Hch & _ & Hok & _).
  rewrite Forall_forall in Hok. assert (In c (chain ++ [root])) as Hin by (apply in_or_app; left; exact Hc).
  destruct (Hok c Hin) as (_ & Hval & _). unfold valid_now in Hval. lia.
Qed.

Lemma validity_check_inclusive : forall nb na, nb <= na -> na - nb <= X509_VALIDITY_MAX_SECONDS ->
  validity_check nb na nb = true /\ validity_check nb na na = true /\
  validity_check nb na (nb - 1) = false /\ validity_check nb na (na + 1) = false.
Proof.
  intros nb na H1 H2. unfold validity_check.
  repeat split; rewrite ?andb_true_iff, ?andb_false_iff, ?Z.leb_le, ?Z.leb_gt; lia.
Qed.

(* trust anchor: the first store certificate whose subject is the issuer name, and only if
   every store certificate in front of it parses *)
Theorem trust_anchor_by_subject : forall store subj c,
  get_cert_by_subject store subj = inr c <->
  exists pre post, store = pre ++ c :: post /\ c_subject c = subj /\ get_details_ok c = true /\
    Forall (fun x => get_details_ok x = true /\ c_subject x <> subj) pre.
Proof.
  intros store subj c. split.
  - revert c. induction store as [|x r IH]; cbn; intros c H; [discriminate|].
    destruct (get_details_ok x) eqn:Ed; cbn in H; [|discriminate].
    destruct (c_subject x =? subj)%N eqn:E.
    + inversion H; subst. apply N.eqb_eq in E. exists [], r. repeat split; auto.
    + apply IH in H. destruct H as (pre & post & Hs & H1 & H2 & H3). exists (x :: pre), post.
      subst r. split; [reflexivity|]. split; [exact H1|]. split; [exact H2|].
      constructor; [split; [exact Ed|apply N.eqb_neq; exact E]|exact H3].
  - intros (pre & post & Hs & H1 & H2 & H3). subst store. induction pre as [|x r IH]; cbn.
    + rewrite H2. cbn. apply N.eqb_eq in H1. rewrite H1. reflexivity.
    + inversion H3 as [|? ? [Hx1 Hx2] Hr]; subst. rewrite Hx1. cbn. apply N.eqb_neq in Hx2. rewrite Hx2.
      apply IH; exact Hr.
Qed.

(* pathLenConstraint: corollary of soundness, spelled out *)
Theorem pathlen_respected_by_verify : forall f now r depth store chain,
  fix_ca_bc f = true -> certs_verify f now r depth store chain = true ->
  forall k i ca pl, nth_error (tl chain) k = Some i -> effective_bc i = Some (ca, pl) -> 0 <= pl -> Z.of_nat k <= pl.
Proof.
  intros f now r depth store chain Hf H k i ca pl Hk Hbc Hpl.
  apply certs_verify_sound in H; [|exact Hf]. destruct H as (_ & leaf & cas & root & Hc & _ & _ & _ & Hiss & _).
  subst chain. cbn [tl] in Hk.
  assert (nth_error (cas ++ [root]) k = Some i) as Hk'.
  { rewrite nth_error_app1; [exact Hk|]. apply nth_error_Some. rewrite Hk. discriminate. }
  destruct (Hiss k i Hk') as (_ & _ & Hp & _). apply (Hp ca pl Hbc Hpl).
Qed.

(* ------------------------------------------------------------------ the tree as found: refutations *)

Definition sig_by (k : N) : key -> bool := fun k' => (k' =? k)%N.
Definition x_ku (b : N) := mk_ext true 1 (XKeyUsage (Some b)).
Definition x_bc (ca pl : Z) := mk_ext true 1 (XBasic (Some (ca, pl))).
Definition x_eku (l : list purpose) := mk_ext true (-1) (XExtKeyUsage (Some l)).
Definition w_cert (subj iss k signer : N) (xs : list ext) : cert :=
  mk_cert true 2 8%N AlgSM2 AlgSM2 iss subj 1000 2000 k (sig_by signer) xs.

(* #19: a trust-store certificate without basicConstraints ... *)
Definition w19_root := w_cert 1 1 1 1 [x_ku 96].
Definition w19_ca := w_cert 2 1 2 1 [x_bc 1 0; x_ku 96].
Definition w19_leaf := w_cert 3 2 3 2 [x_ku 1].
(* ... and an end-entity certificate (no basicConstraints) used as an intermediate issuer *)
Definition w19_ee := w_cert 4 1 4 1 [x_ku 33].       (* digitalSignature + keyCertSign, no BC *)
Definition w19_ca' := w_cert 2 4 2 4 [x_bc 1 0; x_ku 96].
Definition w19_root' := w_cert 1 1 1 1 [x_bc 1 6; x_ku 96].

Lemma not_is_ca_no_bc : forall c, effective_bc c = None -> ~ is_ca c.
Proof. intros c H [pl Hp]. rewrite H in Hp. discriminate. Qed.

Theorem verify_sound_refuted_legacy :
  exists now r depth store chain,
    certs_verify legacy now r depth store chain = true /\ ~ valid_chain now r depth store chain.
Proof.
  exists 1500, RoleServer, 5, [w19_root], [w19_leaf; w19_ca].
  split; [vm_compute; reflexivity|].
  intros (_ & leaf & cas & root & Hc & Hin & _ & _ & Hiss & _).
  inversion Hc; subst leaf cas. destruct Hin as [Hin|[]]. subst root.
  destruct (Hiss 1%nat w19_root eq_refl) as (Hca & _).
  revert Hca. apply not_is_ca_no_bc. reflexivity.
Qed.

Theorem verify_sound_refuted_legacy_intermediate :
  exists now r depth store chain,
    certs_verify legacy now r depth store chain = true /\ ~ valid_chain now r depth store chain.
Proof.
  exists 1500, RoleServer, 5, [w19_root'], [w19_leaf; w19_ca'; w19_ee].
  split; [vm_compute; reflexivity|].
  intros (_ & leaf & cas & root & Hc & Hin & _ & _ & Hiss & _).
  inversion Hc; subst leaf cas.
  destruct (Hiss 1%nat w19_ee eq_refl) as (Hca & _).
  revert Hca. apply not_is_ca_no_bc. reflexivity.
Qed.

(* the repaired check refuses both witnesses *)
Example repaired_rejects_w19 :
  certs_verify repaired 1500 RoleServer 5 [w19_root] [w19_leaf; w19_ca] = false /\
  certs_verify repaired 1500 RoleServer 5 [w19_root'] [w19_leaf; w19_ca'; w19_ee] = false.
Proof. split; vm_compute; reflexivity. Qed.

(* #20: TLCP client chains are checked with the server certificate types *)
Definition w20_root := w_cert 1 1 1 1 [x_bc 1 6; x_ku 96].
Definition w20_sign_srv := w_cert 3 1 3 1 [x_ku 1; x_eku [KP_server]].
Definition w20_kenc_srv := w_cert 3 1 4 1 [x_ku 4; x_eku [KP_server]].
Definition w20_sign_cli := w_cert 3 1 3 1 [x_ku 1; x_eku [KP_client]].
Definition w20_kenc_cli := w_cert 3 1 4 1 [x_ku 4; x_eku [KP_client]].

Theorem verify_tlcp_sound_refuted_legacy :
  exists now depth store chain,
    certs_verify_tlcp legacy now RoleClient depth store chain = true /\
    ~ valid_chain_tlcp now RoleClient depth store chain.
Proof.
  exists 1500, 5, [w20_root], [w20_sign_srv; w20_kenc_srv].
  split; [vm_compute; reflexivity|].
  intros (_ & sign & kenc & cas & root & Hc & _ & _ & _ & _ & _ & Hu & _).
  inversion Hc; subst sign kenc cas. destruct Hu as [_ Hu].
  assert (In KP_client [KP_server]) as Hbad.
  { apply (Hu (x_eku [KP_server]) [KP_server]); [right; left; reflexivity|reflexivity]. }
  destruct Hbad as [Hbad|[]]. discriminate.
Qed.

(* ... and a proper client chain is refused by the tree as found, accepted once repaired *)
Example tlcp_client_chain_legacy_vs_repaired :
  certs_verify_tlcp legacy 1500 RoleClient 5 [w20_root] [w20_sign_cli; w20_kenc_cli] = false /\
  certs_verify_tlcp repaired 1500 RoleClient 5 [w20_root] [w20_sign_cli; w20_kenc_cli] = true /\
  certs_verify_tlcp repaired 1500 RoleClient 5 [w20_root] [w20_sign_srv; w20_kenc_srv] = false.
Proof. repeat split; vm_compute; reflexivity. Qed.

(* ------------------------------------------------------------------ signature algorithm identifiers (wave 2) *)

(* no signature "verifies" under a declared algorithm other than sm2sign-with-sm3, whatever its bits *)
Theorem non_sm2_algorithm_never_verifies : forall c ca,
  c_outer_alg c <> AlgSM2 -> verify_by_ca c ca = false.
Proof.
  intros c ca H. unfold verify_by_ca. destruct (c_outer_alg c); [contradiction| |];
    cbn [alg_is_sm2]; rewrite andb_false_r; reflexivity.
Qed.

Lemma linked_children_sm2 : forall l r, linked (l ++ [r]) -> Forall (fun c => c_outer_alg c = AlgSM2) l.
Proof.
  induction l as [|a l IH]; intros r H; [constructor|].
  destruct l as [|b l'].
  - cbn in H. destruct H as [(_ & Ha & _) _]. constructor; [exact Ha|constructor].
  - change ((a :: b :: l') ++ [r]) with (a :: (b :: l') ++ [r]) in H. cbn [linked app] in H.
    destruct H as [(_ & Ha & _) H2]. constructor; [exact Ha|]. apply (IH r). exact H2.
Qed.

(* every certificate of an accepted chain declares sm2sign-with-sm3 inside and outside; for every
   setting of the repairs *)
Theorem accepted_chain_is_sm2_signed : forall f now r depth store chain,
  certs_verify f now r depth store chain = true ->
  Forall (fun c => c_outer_alg c = AlgSM2 /\ c_inner_alg c = AlgSM2) chain.
Proof.
  intros f now r depth store chain H. apply certs_verify_basic in H.
  destruct H as (leaf & cas & root & Hc & _ & Hok & Hl & _).
  apply linked_children_sm2 in Hl. rewrite Forall_forall in *. intros c Hin.
  specialize (Hl c Hin). split; [exact Hl|].
  assert (In c (chain ++ [root])) as Hin' by (apply in_or_app; left; exact Hin).
  destruct (Hok c Hin') as (_ & _ & _ & (He & _)). rewrite He. exact Hl.
Qed.

Theorem other_algorithm_rejected : forall f now r depth store chain c,
  In c chain -> (c_outer_alg c <> AlgSM2 \/ c_inner_alg c <> AlgSM2) ->
  certs_verify f now r depth store chain = false.
Proof.
  intros f now r depth store chain c Hin Hne.
  destruct (certs_verify f now r depth store chain) eqn:E; [|reflexivity].
  apply accepted_chain_is_sm2_signed in E. rewrite Forall_forall in E. destruct (E c Hin) as [H1 H2].
  destruct Hne; contradiction.
Qed.

(* ------------------------------------------------------------------ wave 3 *)

(* the validity test is a statement about unbounded integers: no difference is ever truncated or
   wrapped, so a notBefore 2^31, 2^32 or any other distance ahead of the clock is "not yet valid" *)
Theorem validity_check_exact : forall nb na now : Z,
  validity_check nb na now = true <-> (nb <= na /\ na - nb <= X509_VALIDITY_MAX_SECONDS /\ nb <= now <= na).
Proof.
  intros. unfold validity_check. rewrite !andb_true_iff, !Z.leb_le. lia.
Qed.

Corollary validity_no_wraparound : forall nb na now k,
  0 < k -> validity_check (now + k) na now = false /\ validity_check nb (now - k) now = false.
Proof.
  intros nb na now k Hk. split.
  - destruct (validity_check (now + k) na now) eqn:E; [|reflexivity]. apply validity_check_exact in E. lia.
  - destruct (validity_check nb (now - k) now) eqn:E; [|reflexivity]. apply validity_check_exact in E. lia.
Qed.

Example validity_2_32_ahead :
  validity_check (1700000000 + 4294967296 - 1000) (1700000000 + 4294967296 + 86400) 1700000000 = false /\
  validity_check (1700000000 + 2147483648) (1700000000 + 2147483648 + 86400) 1700000000 = false /\
  validity_check (4294967296 + 5 - 1000) (4294967296 + 5 + 1000) (4294967296 + 5) = true.
Proof. repeat split; vm_compute; reflexivity. Qed.

(* every CA certificate of the presented chain counts against the depth limit and the pathLen
   constraints, whatever its names: a self-issued one (issuer name = subject name, key rollover)
   is no exception.  Key-rollover chain: leaf <- CA(name 2, key 2, self-issued under key 5) <- CA(name 2, key 5) <- root *)
Definition ro_root (pl : Z) := w_cert 1 1 1 1 [x_bc 1 pl; x_ku 96].
Definition ro_old (pl : Z) := w_cert 2 1 5 1 [x_bc 1 pl; x_ku 96].
Definition ro_new := w_cert 2 2 2 5 [x_bc 1 0; x_ku 96].
Definition ro_leaf := w_cert 3 2 3 2 [x_ku 1].

Example self_issued_ca_counts :
  (forall f, In f [legacy; repaired] ->
     certs_verify f 1500 RoleServer 2 [ro_root 2] [ro_leaf; ro_new; ro_old 1] = true /\
     certs_verify f 1500 RoleServer 1 [ro_root 2] [ro_leaf; ro_new; ro_old 1] = false /\      (* depth counts it *)
     certs_verify f 1500 RoleServer 2 [ro_root 2] [ro_leaf; ro_new; ro_old 0] = false /\      (* pathLen of the older CA counts it *)
     certs_verify f 1500 RoleServer 2 [ro_root 1] [ro_leaf; ro_new; ro_old 1] = false).       (* pathLen of the root counts it *)
Proof. intros f [<-|[<-|[]]]; repeat split; vm_compute; reflexivity. Qed.
