From Coq Require Import NArith List Bool Lia.
From GmVerif Require Import Pki.Cms.
Import ListNotations.
Open Scope N_scope.

Lemma bytes_eqb_eq : forall a b, bytes_eqb a b = true <-> a = b.
Proof.
  induction a as [|x a IH]; intros [|y b]; cbn; split; intros H; try reflexivity; try discriminate.
  - apply andb_true_iff in H. destruct H as [H1 H2]. apply N.eqb_eq in H1. apply IH in H2. subst. reflexivity.
  - inversion H; subst. rewrite N.eqb_refl. apply IH. reflexivity.
Qed.

Lemma sig_verify_refl : forall priv c, sig_verify (pub_of priv) (priv, c) c = true.
Proof.
  intros priv [t b]. unfold sig_verify. cbn [fst snd]. rewrite !N.eqb_refl. cbn [andb].
  apply bytes_eqb_eq. reflexivity.
Qed.

Lemma sig_verify_true : forall pub s c, sig_verify pub s c = true -> pub_of (fst s) = pub /\ snd s = c.
Proof.
  intros pub [k [t b]] [t' b']. unfold sig_verify. cbn. rewrite !andb_true_iff, !N.eqb_eq.
  intros [[H1 H2] H3]. apply bytes_eqb_eq in H3. subst. auto.
Qed.

Lemma find_cert_consistent : forall cs c, certs_consistent cs -> In c cs ->
  exists c', find_cert cs (c_id c) = Some c' /\ c_pub c' = c_pub c.
Proof.
  induction cs as [|x r IH]; intros c Hc Hin; [destruct Hin|]. cbn.
  destruct (c_id x =? c_id c) eqn:E.
  - apply N.eqb_eq in E. exists x. split; [reflexivity|]. apply Hc; [left; reflexivity|exact Hin|exact E].
  - destruct Hin as [->|Hin]; [rewrite N.eqb_refl in E; discriminate|].
    apply IH; [|exact Hin]. intros a b Ha Hb. apply Hc; right; assumption.
Qed.

(* round trip for every non-empty set of signers (repaired signing) *)
Theorem sign_verify_roundtrip : forall f signers c,
  fix_signer_key f = true -> signers <> [] -> Forall signer_ok signers ->
  certs_consistent (map s_cert signers) ->
  exists sd, cms_sign f signers c = Some sd /\ cms_verify sd = Some (c, map s_cert signers).
Proof.
  intros f signers c Hf Hne Hok Hcons. destruct signers as [|s0 r]; [contradiction|].
  eexists. split; [reflexivity|]. unfold cms_verify. cbn [sd_infos sd_certs sd_content]. rewrite Hf.
  set (ss := s0 :: r) in *.
  assert (forallb (fun i => match find_cert (map s_cert ss) (fst i) with
                            | Some c0 => sig_verify (c_pub c0) (snd i) c | None => false end)
            (map (fun s => (c_id (s_cert s), (k_priv (s_key s), c))) ss) = true) as H.
  { apply forallb_forall. intros i Hi. apply in_map_iff in Hi. destruct Hi as (s & <- & Hs). cbn [fst snd].
    destruct (find_cert_consistent (map s_cert ss) (s_cert s) Hcons (in_map s_cert ss s Hs)) as (c' & Hf' & Hp).
    rewrite Hf', Hp. rewrite Forall_forall in Hok. destruct (Hok s Hs) as [Hk _]. rewrite <- Hk. apply sig_verify_refl. }
  rewrite H. subst ss. reflexivity.
Qed.

(* the tree as found signs every SignerInfo with the first signer's key *)
Theorem multi_signer_refuted_legacy :
  exists signers c, signers <> [] /\ Forall signer_ok signers /\ certs_consistent (map s_cert signers) /\
    exists sd, cms_sign legacy signers c = Some sd /\ cms_verify sd = None.
Proof.
  exists [mk_signer (mk_cert 1 11) (mk_keyobj 11 11 true); mk_signer (mk_cert 2 22) (mk_keyobj 22 22 true)], (1, [97]).
  split; [discriminate|]. split.
  - repeat constructor.
  - split.
    + intros a b [<-|[<-|[]]] [<-|[<-|[]]]; cbn; intros H; try reflexivity; discriminate.
    + eexists. split; [reflexivity|]. vm_compute. reflexivity.
Qed.

(* a signed message without signer information never verifies, and none can be produced *)
Theorem no_signer_no_verify : forall sd, sd_infos sd = [] -> cms_verify sd = None.
Proof. intros sd H. unfold cms_verify. rewrite H. reflexivity. Qed.
Theorem no_signer_no_sign : forall f c, cms_sign f [] c = None.
Proof. reflexivity. Qed.

(* decision rule: acceptance means every SignerInfo names a certificate of the message and carries
   a signature over exactly the returned content under that certificate's key *)
Theorem verify_decision_rule : forall sd c cs, cms_verify sd = Some (c, cs) ->
  c = sd_content sd /\ cs = sd_certs sd /\ sd_infos sd <> [] /\
  forall i, In i (sd_infos sd) -> exists sc, find_cert (sd_certs sd) (fst i) = Some sc /\
     pub_of (fst (snd i)) = c_pub sc /\ snd (snd i) = c.
Proof.
  intros sd c cs H. unfold cms_verify in H. destruct (sd_infos sd) as [|i0 r] eqn:E; [discriminate|].
  destruct (forallb _ (i0 :: r)) eqn:F; [|discriminate]. inversion H; subst.
  repeat split; try discriminate. intros i Hi. rewrite forallb_forall in F. specialize (F i Hi).
  destruct (find_cert (sd_certs sd) (fst i)) as [sc|]; [|discriminate].
  exists sc. split; [reflexivity|]. apply sig_verify_true in F. exact F.
Qed.

(* changed content (any bit) is refused: the signatures are over the original *)
Theorem signed_content_change_rejected : forall f signers c c' sd,
  cms_sign f signers c = Some sd -> c' <> c ->
  cms_verify (mk_signed c' (sd_certs sd) (sd_infos sd)) = None.
Proof.
  intros f signers c c' sd Hs Hne. destruct (cms_verify _) as [[c2 cs]|] eqn:V; [|reflexivity]. exfalso.
  apply verify_decision_rule in V. cbn in V. destruct V as (-> & _ & Hn & Hall).
  destruct signers as [|s0 r]; [discriminate|]. inversion Hs; subst. cbn in *.
  destruct (Hall _ (or_introl eq_refl)) as (sc & _ & _ & Hc). cbn in Hc. apply Hne. symmetry. exact Hc.
Qed.

(* ---------------------------------------------------------------- enveloped *)
Lemma find_key_of_envelop : forall rcpts c key priv,
  certs_consistent rcpts -> In c rcpts -> pub_of priv = c_pub c ->
  find_key (map (fun r => (c_id r, (c_pub r, key))) rcpts) (c_id c) priv = Some key.
Proof.
  induction rcpts as [|x r IH]; intros c key priv Hc Hin Hp; [destruct Hin|]. cbn.
  destruct (c_id x =? c_id c) eqn:E.
  - apply N.eqb_eq in E. unfold unwrap. cbn.
    assert (c_pub x = c_pub c) as Hx by (apply Hc; [left; reflexivity|exact Hin|exact E]).
    rewrite Hx, Hp, N.eqb_refl. reflexivity.
  - destruct Hin as [->|Hin]; [rewrite N.eqb_refl in E; discriminate|].
    apply IH; auto. intros a b Ha Hb. apply Hc; right; assumption.
Qed.

(* every recipient opens with their own private key, however the key object was obtained *)
Theorem recipient_opens : forall f rcpts c k key iv ct,
  fix_key_compare f = true -> certs_consistent rcpts -> In c rcpts ->
  pub_of (k_priv k) = c_pub c -> k_pub k = c_pub c ->
  exists ed, cms_envelop rcpts key iv ct = Some ed /\ cms_deenvelop f ed k c = Some ct.
Proof.
  intros f rcpts c k key iv ct Hf Hc Hin Hp Hk. destruct rcpts as [|r0 r]; [destruct Hin|].
  eexists. split; [reflexivity|]. unfold cms_deenvelop, key_matches. rewrite Hk, N.eqb_refl, Hf. cbn [negb andb orb ed_rcpts ed_body].
  rewrite (find_key_of_envelop (r0 :: r) c key (k_priv k) Hc Hin Hp). unfold cbc_decrypt. cbn. rewrite N.eqb_refl. reflexivity.
Qed.

(* the tree as found refuses a key object whose public point is not in the parsed representation *)
Theorem recipient_opens_refuted_legacy :
  exists rcpts c k key iv ct, certs_consistent rcpts /\ In c rcpts /\ pub_of (k_priv k) = c_pub c /\ k_pub k = c_pub c /\
    exists ed, cms_envelop rcpts key iv ct = Some ed /\ cms_deenvelop legacy ed k c = None.
Proof.
  exists [mk_cert 1 11], (mk_cert 1 11), (mk_keyobj 11 11 false), 5, 6, (1, [97]).
  split; [intros a b [<-|[]] [<-|[]] _; reflexivity|]. split; [left; reflexivity|].
  split; [reflexivity|]. split; [reflexivity|]. eexists. split; [reflexivity|]. vm_compute. reflexivity.
Qed.

Lemma find_key_absent : forall ris id priv, ~ In id (map fst ris) -> find_key ris id priv = None.
Proof.
  induction ris as [|[rid w] r IH]; intros id priv H; [reflexivity|]. cbn.
  destruct (rid =? id) eqn:E; [apply N.eqb_eq in E; exfalso; apply H; left; exact E|].
  apply IH. intro H'. apply H. right. exact H'.
Qed.

(* a key that is not a recipient's opens nothing *)
Theorem wrong_recipient_fails : forall f ed k c,
  ~ In (c_id c) (map fst (ed_rcpts ed)) -> cms_deenvelop f ed k c = None.
Proof.
  intros f ed k c H. unfold cms_deenvelop. destruct (negb (key_matches f k c)); [reflexivity|].
  rewrite find_key_absent by exact H. reflexivity.
Qed.
Theorem wrong_private_key_fails : forall f rcpts c k key iv ct ed,
  cms_envelop rcpts key iv ct = Some ed -> certs_consistent rcpts -> In c rcpts ->
  pub_of (k_priv k) <> c_pub c -> cms_deenvelop f ed k c = None.
Proof.
  intros f rcpts c k key iv ct ed He Hc Hin Hp.
  assert (forall l, certs_consistent l -> In c l ->
            find_key (map (fun r1 => (c_id r1, (c_pub r1, key))) l) (c_id c) (k_priv k) = None) as H.
  { induction l as [|x l IH]; intros Hcl Hinl; [reflexivity|]. cbn.
    destruct (c_id x =? c_id c) eqn:E.
    - apply N.eqb_eq in E. unfold unwrap. cbn.
      assert (c_pub x = c_pub c) as Hx by (apply Hcl; [left; reflexivity|exact Hinl|exact E]).
      rewrite Hx. destruct (pub_of (k_priv k) =? c_pub c) eqn:E2; [apply N.eqb_eq in E2; contradiction|reflexivity].
    - destruct Hinl as [->|Hin']; [rewrite N.eqb_refl in E; discriminate|].
      apply IH; auto. intros a b Ha Hb. apply Hcl; right; assumption. }
  specialize (H rcpts Hc Hin).
  destruct rcpts as [|r0 r]; [discriminate|]. unfold cms_envelop in He. inversion He; subst ed.
  unfold cms_deenvelop. destruct (negb (key_matches f k c)); [reflexivity|].
  cbn [ed_rcpts map] in *. rewrite H. reflexivity.
Qed.

(* encrypted data *)
Theorem encrypt_decrypt_roundtrip : forall key iv c, cms_decrypt key (cms_encrypt key iv c) = Some c.
Proof. intros. unfold cms_decrypt, cms_encrypt, cbc_decrypt. cbn. rewrite N.eqb_refl. reflexivity. Qed.

(* signed and enveloped *)
Theorem sign_and_envelop_roundtrip : forall f signers rcpts c k key iv ct crls,
  fix_signer_key f = true -> fix_key_compare f = true -> fix_no_crl f = true ->
  signers <> [] -> Forall signer_ok signers -> certs_consistent (map s_cert signers) ->
  certs_consistent rcpts -> In c rcpts -> pub_of (k_priv k) = c_pub c -> k_pub k = c_pub c ->
  exists m, cms_sign_and_envelop f signers rcpts key iv ct crls = Some m /\
            cms_deenvelop_and_verify f m k c = Some ct.
Proof.
  intros f signers rcpts c k key iv ct crls Hf1 Hf2 Hf3 Hne Hok Hcons Hrc Hin Hp Hk.
  destruct signers as [|s0 r]; [contradiction|]. destruct rcpts as [|r0 rr]; [destruct Hin|].
  unfold cms_sign_and_envelop. rewrite Hf3. cbn [orb negb]. eexists. split; [reflexivity|].
  unfold cms_deenvelop_and_verify, key_matches. rewrite Hk, N.eqb_refl, Hf2. cbn [negb andb orb se_rcpts se_body se_certs se_infos].
  rewrite (find_key_of_envelop (r0 :: rr) c key (k_priv k) Hrc Hin Hp). unfold cbc_decrypt. cbn [ct_key ct_plain]. rewrite N.eqb_refl, Hf1.
  set (ss := s0 :: r) in *.
  assert (forallb (fun i => match find_cert (map s_cert ss) (fst i) with
                            | Some sc => sig_verify (c_pub sc) (snd i) ct | None => false end)
            (map (fun s => (c_id (s_cert s), (k_priv (s_key s), ct))) ss) = true) as H.
  { apply forallb_forall. intros i Hi. apply in_map_iff in Hi. destruct Hi as (s & <- & Hs). cbn [fst snd].
    destruct (find_cert_consistent (map s_cert ss) (s_cert s) Hcons (in_map s_cert ss s Hs)) as (c' & Hf' & Hp').
    rewrite Hf', Hp'. rewrite Forall_forall in Hok. destruct (Hok s Hs) as [Hk' _]. rewrite <- Hk'. apply sig_verify_refl. }
  rewrite H. subst ss. reflexivity.
Qed.

Theorem sign_and_envelop_without_crls_refuted_legacy :
  forall signers rcpts key iv ct, cms_sign_and_envelop legacy signers rcpts key iv ct false = None.
Proof. reflexivity. Qed.
