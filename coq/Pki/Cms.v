(* C16 — CMS at the level of SignedData / SignerInfo set / RecipientInfo set / encrypted content.
   Cryptography is symbolic: a signature is the pair (signing key, digest input), an SM2-wrapped
   key is the pair (recipient public key, content key), an SM4-CBC ciphertext is the triple
   (content key, iv, plaintext).  What is modelled concretely is the control flow of src/cms.c:
   which key signs which SignerInfo, how signer certificates and recipient infos are looked up,
   which guards refuse a message, which loops run zero times.

   Switches ([fixes]) name the repairs proposed for defects found on the tree:
     fix_signer_key   each SignerInfo is signed with its own signer's key (the tree uses signers[0])
     fix_key_compare  cms_deenvelop compares public keys as points (the tree memcmp's the
                      in-memory representation, which differs for keys not parsed from a certificate)
     fix_no_crl       cms_sign_and_envelop works without CRLs (the tree insists on a non-empty set) *)
From Coq Require Import NArith List Bool Lia.
Import ListNotations.
Open Scope N_scope.

Record fixes := mk_fixes { fix_signer_key : bool; fix_key_compare : bool; fix_no_crl : bool }.
Definition legacy := mk_fixes false false false.
Definition repaired := mk_fixes true true true.

(* keys: a private key is a number; its public key is [pub_of]; a key *object* also has an
   in-memory representation of the public point (normalised as parsed from a certificate, or not) *)
Definition pub_of (priv : N) : N := priv.
Record keyobj := mk_keyobj { k_priv : N; k_pub : N; k_normalised : bool }.
Record cert := mk_cert { c_id : N (* issuer + serial *); c_pub : N }.
Record signer := mk_signer { s_cert : cert; s_key : keyobj }.

Definition content := (N * list N)%type.             (* content type, bytes *)
Definition signature := (N * content)%type.          (* signing private key, what was hashed *)
Fixpoint bytes_eqb (a b : list N) : bool :=
  match a, b with
  | [], [] => true
  | x :: a', y :: b' => (x =? y) && bytes_eqb a' b'
  | _, _ => false
  end.
Definition sig_verify (pub : N) (s : signature) (c : content) : bool :=
  (pub_of (fst s) =? pub) && (fst (snd s) =? fst c) && bytes_eqb (snd (snd s)) (snd c).

Record signed_data := mk_signed {
  sd_content : content;
  sd_certs : list cert;
  sd_infos : list (N * signature) }.                  (* issuer+serial of the signer, signature *)

Fixpoint find_cert (cs : list cert) (id : N) : option cert :=
  match cs with
  | [] => None
  | c :: r => if c_id c =? id then Some c else find_cert r id
  end.

(* cms_sign / cms_signed_data_sign_to_der; None = returns -1 (an empty SET cannot be written) *)
Definition cms_sign (f : fixes) (signers : list signer) (c : content) : option signed_data :=
  match signers with
  | [] => None
  | s0 :: _ =>
    Some (mk_signed c (map s_cert signers)
            (map (fun s => (c_id (s_cert s), (k_priv (s_key (if fix_signer_key f then s else s0)), c))) signers))
  end.

(* cms_verify / cms_signed_data_verify_from_der: the parser refuses an empty SignerInfo set; every
   SignerInfo must name a certificate of the message and verify under it; returns content + certs *)
Definition cms_verify (sd : signed_data) : option (content * list cert) :=
  match sd_infos sd with
  | [] => None
  | _ =>
    if forallb (fun i => match find_cert (sd_certs sd) (fst i) with
                         | Some c => sig_verify (c_pub c) (snd i) (sd_content sd)
                         | None => false end) (sd_infos sd)
    then Some (sd_content sd, sd_certs sd) else None
  end.

(* ---------------------------------------------------------------- enveloped data *)
Definition wrapped := (N * N)%type.                   (* recipient public key, content key *)
Definition unwrap (priv : N) (w : wrapped) : option N := if pub_of priv =? fst w then Some (snd w) else None.
Record ciphertext := mk_ct { ct_key : N; ct_iv : N; ct_plain : content }.
Definition cbc_decrypt (key : N) (c : ciphertext) : option content := if key =? ct_key c then Some (ct_plain c) else None.

Record enveloped_data := mk_env { ed_rcpts : list (N * wrapped); ed_body : ciphertext }.

Definition cms_envelop (rcpts : list cert) (key iv : N) (c : content) : option enveloped_data :=
  match rcpts with
  | [] => None
  | _ => Some (mk_env (map (fun r => (c_id r, (c_pub r, key))) rcpts) (mk_ct key iv c))
  end.

(* the recipient-info loop: the first info carrying the recipient's issuer+serial decides *)
Fixpoint find_key (ris : list (N * wrapped)) (id priv : N) : option N :=
  match ris with
  | [] => None
  | (rid, w) :: r => if rid =? id then unwrap priv w else find_key r id priv
  end.

(* the public-key comparison in front of cms_deenvelop / cms_deenvelop_and_verify *)
Definition key_matches (f : fixes) (k : keyobj) (c : cert) : bool :=
  (k_pub k =? c_pub c) && (fix_key_compare f || k_normalised k).

Definition cms_deenvelop (f : fixes) (ed : enveloped_data) (k : keyobj) (c : cert) : option content :=
  if negb (key_matches f k c) then None else
  match find_key (ed_rcpts ed) (c_id c) (k_priv k) with
  | None => None
  | Some key => cbc_decrypt key (ed_body ed)
  end.

(* ---------------------------------------------------------------- encrypted data *)
Definition cms_encrypt (key iv : N) (c : content) : ciphertext := mk_ct key iv c.
Definition cms_decrypt (key : N) (m : ciphertext) : option content := cbc_decrypt key m.

(* ---------------------------------------------------------------- signed and enveloped data *)
Record signed_enveloped := mk_se {
  se_rcpts : list (N * wrapped); se_body : ciphertext; se_certs : list cert; se_infos : list (N * signature) }.

Definition cms_sign_and_envelop (f : fixes) (signers : list signer) (rcpts : list cert) (key iv : N)
           (c : content) (have_crls : bool) : option signed_enveloped :=
  if negb (fix_no_crl f || have_crls) then None else
  match signers, rcpts with
  | s0 :: _, _ :: _ =>
    Some (mk_se (map (fun r => (c_id r, (c_pub r, key))) rcpts) (mk_ct key iv c) (map s_cert signers)
            (map (fun s => (c_id (s_cert s), (k_priv (s_key (if fix_signer_key f then s else s0)), c))) signers))
  | _, _ => None
  end.

Definition cms_deenvelop_and_verify (f : fixes) (m : signed_enveloped) (k : keyobj) (c : cert) : option content :=
  if negb (key_matches f k c) then None else
  match find_key (se_rcpts m) (c_id c) (k_priv k) with
  | None => None
  | Some key =>
    match cbc_decrypt key (se_body m) with
    | None => None
    | Some pt =>
      match se_infos m with
      | [] => None
      | _ => if forallb (fun i => match find_cert (se_certs m) (fst i) with
                                  | Some sc => sig_verify (c_pub sc) (snd i) pt
                                  | None => false end) (se_infos m)
             then Some pt else None
      end
    end
  end.

(* well-formed parties: the key object belongs to the certificate; certificates with the same
   issuer+serial are the same certificate *)
Definition signer_ok (s : signer) : Prop :=
  pub_of (k_priv (s_key s)) = c_pub (s_cert s) /\ k_pub (s_key s) = c_pub (s_cert s).
Definition certs_consistent (cs : list cert) : Prop :=
  forall a b, In a cs -> In b cs -> c_id a = c_id b -> c_pub a = c_pub b.
