(* C07 — certificate path validation: abstract certificates, Impl models of the
   checking functions of src/x509_cer.c / src/x509_ext.c, and the Spec predicate
   [valid_chain] (the property statement).

   The Impl models carry a record of two switches [fixes]:
     fix_ca_bc     = the repaired x509_exts_check (a certificate checked as X509_cert_ca /
                     X509_cert_root_ca must carry basicConstraints cA=TRUE)      (DESIGN §5 #19)
     fix_tlcp_role = the repaired x509_certs_verify_tlcp (client chains are checked with the
                     client certificate types)                                   (DESIGN §5 #20)
   [legacy] = both off = the tree as found; [repaired] = both on. *)
From Coq Require Import ZArith NArith List Bool Lia.
Import ListNotations.
Open Scope Z_scope.

(* ------------------------------------------------------------------ abstract certificates *)

Inductive cert_type :=
| CT_server_auth | CT_client_auth | CT_server_kenc | CT_client_kenc
| CT_ca | CT_root_ca | CT_crl_sign
| CT_none                           (* cert_type = -1 *)
| CT_invalid.                       (* any other int *)

Inductive purpose := KP_any | KP_server | KP_client | KP_other.

(* the cases of the switch in x509_exts_check *)
Inductive ext_body :=
| XAuthKeyId
| XSubjKeyId (payload_ok : bool)            (* OCTET STRING, non-empty, nothing after it *)
| XKeyUsage (bits : option N)               (* None: asn1_bits_from_der fails *)
| XCertPolicies
| XPolicyMappings
| XSubjAltName
| XIssuerAltName
| XSubjDirAttrs
| XBasic (v : option (Z * Z))               (* (cA, pathLen): -1 = absent; None: from_der fails *)
| XExtKeyUsage (v : option (list purpose))  (* None: from_der fails *)
| XUnchecked                                (* nameConstraints, policyConstraints, cRLDistributionPoints,
                                               inhibitAnyPolicy, freshestCRL: no check at all *)
| XUnknown.                                 (* default: every other OID *)

Record ext := mk_ext {
  x_ok : bool;            (* x509_ext_from_der succeeds *)
  x_critical : Z;         (* -1 absent, 0 FALSE, 1 TRUE *)
  x_body : ext_body }.

(* signature algorithm identifiers as x509_signature_algor_from_der classifies them: the OID of
   sm2sign-with-sm3 (with or without NULL parameters), another OID of the library's table
   (ecdsa-with-*, *WithRSAEncryption, rsasign-with-sm3), or an OID the table does not know
   (then the certificate does not parse) *)
Inductive sigalg := AlgSM2 | AlgOther (id : N) | AlgUnknown.
Definition alg_known (a : sigalg) : bool := match a with AlgUnknown => false | _ => true end.
Definition alg_is_sm2 (a : sigalg) : bool := match a with AlgSM2 => true | _ => false end.
Definition alg_eqb (a b : sigalg) : bool :=
  match a, b with
  | AlgSM2, AlgSM2 => true
  | AlgOther x, AlgOther y => (x =? y)%N
  | _, _ => false
  end.

Definition name := N.     (* 0 = the empty Name (x509_name_check answers 0) *)
Definition key := N.

Record cert := mk_cert {
  c_parse_ok : bool;          (* x509_cert_get_details succeeds as far as not modelled below *)
  c_version : Z;              (* -1 absent, 0 v1, 1 v2, 2 v3 *)
  c_serial_len : N;
  c_inner_alg : sigalg;       (* TBSCertificate.signature *)
  c_outer_alg : sigalg;       (* Certificate.signatureAlgorithm *)
  c_issuer : name;
  c_subject : name;
  c_not_before : Z;
  c_not_after : Z;
  c_key : key;                (* subject public key *)
  c_sig_ok : key -> bool;     (* the signature bits are an SM2/SM3 signature over the TBS bytes that verifies under
                                 this key (default id); says nothing about the algorithm identifiers *)
  c_exts : list ext }.

(* tbs_sig_algor == sig_algor in x509_cert_check (both as table entries) *)
Definition c_alg_match (c : cert) : bool := alg_eqb (c_inner_alg c) (c_outer_alg c).

Definition X509_VALIDITY_MAX_SECONDS : Z := 3653 * 86400.

Record fixes := mk_fixes { fix_ca_bc : bool; fix_tlcp_role : bool }.
Definition legacy := mk_fixes false false.
Definition repaired := mk_fixes true true.

(* ------------------------------------------------------------------ Impl models *)

(* x509_validity_check(not_before, not_after, now, max_secs) == 1 *)
Definition validity_check (nb na now : Z) : bool :=
  (nb <=? na) && (na - nb <=? X509_VALIDITY_MAX_SECONDS) && (nb <=? now) && (now <=? na).

Definition KU_DIGITAL_SIGNATURE : N := 0.
Definition KU_KEY_ENCIPHERMENT : N := 2.
Definition KU_KEY_CERT_SIGN : N := 5.
Definition KU_CRL_SIGN : N := 6.

(* x509_key_usage_check(bits, cert_type) == 1   (bits >= 0 as produced by asn1_bits_from_der) *)
Definition key_usage_check (bits : N) (t : cert_type) : bool :=
  if (bits =? 0)%N then false else
  match t with
  | CT_server_auth | CT_client_auth =>
      N.testbit bits KU_DIGITAL_SIGNATURE
      && negb (N.testbit bits KU_KEY_CERT_SIGN || N.testbit bits KU_CRL_SIGN)
  | CT_server_kenc | CT_client_kenc =>
      N.testbit bits KU_KEY_ENCIPHERMENT
      && negb (N.testbit bits KU_KEY_CERT_SIGN || N.testbit bits KU_CRL_SIGN)
  | CT_ca => N.testbit bits KU_KEY_CERT_SIGN
  | CT_crl_sign => N.testbit bits KU_CRL_SIGN
  | CT_none => true
  | CT_root_ca | CT_invalid => false
  end.

(* x509_basic_constraints_check(ca, path_len_constraint, cert_type) == 1 *)
Definition basic_constraints_check (ca pl : Z) (t : cert_type) : bool :=
  match t with
  | CT_server_auth | CT_client_auth | CT_server_kenc | CT_client_kenc =>
      negb ((0 <? ca) || negb (pl =? -1))
  | CT_ca | CT_crl_sign | CT_root_ca => ca =? 1
  | CT_none | CT_invalid => false
  end.

(* x509_ext_key_usage_check: the loop, with its running [ret] *)
Fixpoint eku_loop (oids : list purpose) (t : cert_type) (ret : Z) : Z :=
  match oids with
  | [] => ret
  | o :: r =>
      let ret' := match o with KP_any => 0 | _ => ret end in
      match t with
      | CT_server_auth | CT_server_kenc =>
          match o with KP_server => 1 | _ => eku_loop r t ret' end
      | CT_client_auth | CT_client_kenc =>
          match o with KP_client => 1 | _ => eku_loop r t ret' end
      | _ => -1
      end
  end.
Definition ext_key_usage_check (oids : list purpose) (t : cert_type) : Z := eku_loop oids t (-1).

(* one iteration of the while loop of x509_exts_check; state = (ca, path_len) *)
Definition ext_step (t : cert_type) (st : Z * Z) (x : ext) : option (Z * Z) :=
  if negb (x_ok x) then None else
  let crit := x_critical x =? 1 in
  match x_body x with
  | XAuthKeyId => if crit then None else Some st
  | XSubjKeyId ok => if crit then None else if ok then Some st else None
  | XKeyUsage None => None
  | XKeyUsage (Some bits) => if key_usage_check bits t then Some st else None
  | XCertPolicies => Some st
  | XPolicyMappings => if crit then Some st else None
  | XSubjAltName => Some st
  | XIssuerAltName => if crit then None else Some st
  | XSubjDirAttrs => if crit then None else Some st
  | XBasic None => None
  | XBasic (Some (ca, pl)) => if basic_constraints_check ca pl t then Some (ca, pl) else None
  | XExtKeyUsage None => None
  | XExtKeyUsage (Some l) => if ext_key_usage_check l t =? 1 then Some st else None
  | XUnchecked => Some st
  | XUnknown => if crit then None else Some st
  end.

Fixpoint exts_loop (t : cert_type) (st : Z * Z) (xs : list ext) : option (Z * Z) :=
  match xs with
  | [] => Some st
  | x :: r => match ext_step t st x with None => None | Some st' => exts_loop t st' r end
  end.

(* x509_exts_check: Some path_len_constraint  <->  returns 1 *)
Definition exts_check (f : fixes) (xs : list ext) (t : cert_type) : option Z :=
  match exts_loop t (-1, -1) xs with
  | None => None
  | Some (ca, pl) =>
      if fix_ca_bc f && (match t with CT_ca | CT_root_ca => true | _ => false end) && negb (ca =? 1)
      then None else Some pl
  end.

(* x509_cert_get_details: the validity parser refuses notBefore >= notAfter *)
Definition get_details_ok (c : cert) : bool :=
  c_parse_ok c && (c_not_before c <? c_not_after c) && alg_known (c_inner_alg c) && alg_known (c_outer_alg c).

Definition name_check (n : name) : bool := negb (n =? 0)%N.

(* x509_cert_check: Some path_len_constraint <-> returns 1 *)
Definition cert_check (f : fixes) (now : Z) (c : cert) (t : cert_type) : option Z :=
  if negb (get_details_ok c) then None else
  if negb (c_version c =? 2) then None else
  if (c_serial_len c =? 0)%N then None else
  if negb (validity_check (c_not_before c) (c_not_after c) now) then None else
  if negb (name_check (c_issuer c)) then None else
  if negb (name_check (c_subject c)) then None else
  match exts_check f (c_exts c) t with
  | None => None
  | Some pl => if c_alg_match c then Some pl else None
  end.

(* x509_cert_verify_by_ca_cert == 1: names, then x509_signed_verify = "the outer algorithm is
   sm2sign-with-sm3 AND the SM2 signature verifies" - the signature bits are never looked at
   for any other algorithm identifier *)
Definition verify_by_ca (c ca : cert) : bool :=
  get_details_ok c && get_details_ok ca
  && (c_issuer c =? c_subject ca)%N
  && alg_is_sm2 (c_outer_alg c)
  && c_sig_ok c (c_key ca).

(* x509_certs_get_cert_by_subject: inl false = -1, inl true = 0 (not found), inr c = 1 *)
Fixpoint get_cert_by_subject (store : list cert) (subj : name) : bool + cert :=
  match store with
  | [] => inl true
  | c :: r =>
      if negb (get_details_ok c) then inl false
      else if (c_subject c =? subj)%N then inr c
      else get_cert_by_subject r subj
  end.

(* position of the answer, for the correspondence *)
Fixpoint get_cert_index (store : list cert) (subj : name) (i : N) : bool + N :=
  match store with
  | [] => inl true
  | c :: r =>
      if negb (get_details_ok c) then inl false
      else if (c_subject c =? subj)%N then inr i
      else get_cert_index r subj (i + 1)%N
  end.

Definition pathlen_fail (plc path_len depth : Z) : bool :=
  ((0 <=? plc) && (plc <? path_len)) || (depth <? path_len).

(* the while loop shared by both verifiers; [kenc] = the TLCP encryption certificate, checked
   against the first CA only.  Result: the top certificate reached and the final path_len. *)
Fixpoint verify_loop (f : fixes) (now depth : Z) (kenc : option cert)
         (cur : cert) (rest : list cert) (path_len : Z) : option (cert * Z) :=
  match rest with
  | [] => Some (cur, path_len)
  | ca :: rest' =>
      if negb (get_details_ok ca) then None else          (* x509_cert_from_der *)
      match cert_check f now ca CT_ca with
      | None => None
      | Some plc =>
          if (path_len =? 0) && negb (plc =? 0) then None else
          if (path_len =? 0) && (match kenc with Some k => negb (verify_by_ca k ca) | None => false end)
          then None else
          if pathlen_fail plc path_len depth then None else
          if negb (verify_by_ca cur ca) then None else
          verify_loop f now depth kenc ca rest' (path_len + 1)
      end
  end.

(* the part after the loop: trust anchor by subject, its checks, signature(s) *)
Definition verify_anchor (f : fixes) (now depth : Z) (kenc : option cert)
           (store : list cert) (top : cert) (path_len : Z) : bool :=
  if negb (get_details_ok top) then false else
  match get_cert_by_subject store (c_issuer top) with
  | inl _ => false
  | inr root =>
      match cert_check f now root CT_ca with
      | None => false
      | Some plc =>
          if pathlen_fail plc path_len depth then false else
          if (path_len =? 0) && (match kenc with Some k => negb (verify_by_ca k root) | None => false end)
          then false else
          verify_by_ca top root
      end
  end.

Inductive role := RoleServer | RoleClient | RoleInvalid.

(* x509_certs_verify == 1 *)
Definition certs_verify (f : fixes) (now : Z) (r : role) (depth : Z)
           (store chain : list cert) : bool :=
  match r with
  | RoleInvalid => false
  | _ =>
    let et := match r with RoleServer => CT_server_auth | _ => CT_client_auth end in
    match chain with
    | [] => false
    | leaf :: rest =>
        if negb (get_details_ok leaf) then false else
        match cert_check f now leaf et with
        | None => false
        | Some _ =>
            match verify_loop f now depth None leaf rest 0 with
            | None => false
            | Some (top, pl) => verify_anchor f now depth None store top pl
            end
        end
    end
  end.

(* x509_certs_verify_tlcp == 1 *)
Definition certs_verify_tlcp (f : fixes) (now : Z) (r : role) (depth : Z)
           (store chain : list cert) : bool :=
  match r with
  | RoleInvalid => false
  | _ =>
    let client := match r with RoleClient => fix_tlcp_role f | _ => false end in
    let st := if client then CT_client_auth else CT_server_auth in
    let kt := if client then CT_client_kenc else CT_server_kenc in
    match chain with
    | sign :: kenc :: rest =>
        if negb (get_details_ok sign) then false else
        match cert_check f now sign st with
        | None => false
        | Some _ =>
            if negb (get_details_ok kenc) then false else
            match cert_check f now kenc kt with
            | None => false
            | Some _ =>
                match verify_loop f now depth (Some kenc) sign rest 0 with
                | None => false
                | Some (top, pl) => verify_anchor f now depth (Some kenc) store top pl
                end
            end
        end
    | _ => false
    end
  end.

(* ------------------------------------------------------------------ Spec: the property statement *)

(* "every certificate parses" *)
Definition parses (c : cert) : Prop :=
  c_parse_ok c = true /\ Forall (fun x => x_ok x = true) (c_exts c).
(* "is inside its validity period now" *)
Definition valid_now (now : Z) (c : cert) : Prop := c_not_before c <= now <= c_not_after c.
(* "no unrecognised critical extension occurs" *)
Definition no_unknown_critical (c : cert) : Prop :=
  forall x, In x (c_exts c) -> x_body x = XUnknown -> x_critical x <> 1.
(* inner and outer signature algorithm identifiers agree *)
Definition algs_agree (c : cert) : Prop := c_inner_alg c = c_outer_alg c /\ c_outer_alg c <> AlgUnknown.
Definition cert_ok (now : Z) (c : cert) : Prop := parses c /\ valid_now now c /\ no_unknown_critical c /\ algs_agree c.

(* "each certificate names the next one's subject as issuer and verifies under its public key" *)
(* "verifies under its public key" = the certificate declares sm2sign-with-sm3 AND its signature bits are
   a valid SM2 signature under that key; no other declared algorithm can count as verified *)
Definition issued_by (c i : cert) : Prop :=
  c_issuer c = c_subject i /\ c_outer_alg c = AlgSM2 /\ c_sig_ok c (c_key i) = true.
Fixpoint linked (l : list cert) : Prop :=
  match l with
  | a :: (b :: _) as t => issued_by a b /\ linked t
  | _ => True
  end.

(* the effective basicConstraints of a certificate: its last occurrence (RFC 5280 forbids
   repeating an extension; the implementation does not refuse repetition and uses the last) *)
Definition effective_bc (c : cert) : option (Z * Z) :=
  fold_left (fun acc x => match x_body x with XBasic (Some v) => Some v | _ => acc end) (c_exts c) None.

(* "every certificate acting as issuer is a CA (basicConstraints cA=TRUE, keyCertSign if
   keyUsage is present) whose pathLenConstraint and the caller's depth limit are respected";
   [below] = number of CA certificates between it and the end entity *)
Definition is_ca (c : cert) : Prop := exists pl, effective_bc c = Some (1, pl).
Definition cert_sign_if_ku (c : cert) : Prop :=
  forall x bits, In x (c_exts c) -> x_body x = XKeyUsage (Some bits) -> N.testbit bits KU_KEY_CERT_SIGN = true.
Definition pathlen_respected (c : cert) (below : Z) : Prop :=
  forall ca pl, effective_bc c = Some (ca, pl) -> 0 <= pl -> below <= pl.
Definition issuer_ok (depth below : Z) (c : cert) : Prop :=
  is_ca c /\ cert_sign_if_ku c /\ pathlen_respected c below /\ below <= depth.

(* "the end-entity's key usages fit the requested role" *)
Definition role_purpose (r : role) : purpose := match r with RoleClient => KP_client | _ => KP_server end.
Definition leaf_usage_ok (r : role) (ku_bit : N) (c : cert) : Prop :=
  (forall x bits, In x (c_exts c) -> x_body x = XKeyUsage (Some bits) -> N.testbit bits ku_bit = true) /\
  (forall x l, In x (c_exts c) -> x_body x = XExtKeyUsage (Some l) -> In (role_purpose r) l).

Definition issuers_ok (depth : Z) (issuers : list cert) : Prop :=
  forall k i, nth_error issuers k = Some i -> issuer_ok depth (Z.of_nat k) i.

(* TLS form: leaf :: intermediates, anchored in the store *)
Definition valid_chain (now : Z) (r : role) (depth : Z) (store chain : list cert) : Prop :=
  r <> RoleInvalid /\
  exists leaf cas root,
    chain = leaf :: cas /\ In root store /\
    Forall (cert_ok now) (chain ++ [root]) /\
    linked (chain ++ [root]) /\
    issuers_ok depth (cas ++ [root]) /\
    leaf_usage_ok r KU_DIGITAL_SIGNATURE leaf.

(* TLCP form: signing certificate :: encryption certificate :: intermediates; both end-entity
   certificates are issued by the first CA *)
Definition valid_chain_tlcp (now : Z) (r : role) (depth : Z) (store chain : list cert) : Prop :=
  r <> RoleInvalid /\
  exists sign kenc cas root,
    chain = sign :: kenc :: cas /\ In root store /\
    Forall (cert_ok now) (chain ++ [root]) /\
    linked (sign :: cas ++ [root]) /\
    issued_by kenc (hd root cas) /\
    issuers_ok depth (cas ++ [root]) /\
    leaf_usage_ok r KU_DIGITAL_SIGNATURE sign /\
    leaf_usage_ok r KU_KEY_ENCIPHERMENT kenc.
