From Coq Require Import Extraction ExtrOcamlBasic.
From GmVerif Require Import Base.Bytes Tls.Record12 Tls.HsCodec Tls.HsCodec13.
Extraction Language OCaml.
Extraction "../ocaml/gen/ModelC10.ml"
  Z.of_N N.of_nat
  set_handshake get_handshake rec_wfb
  set_client_hello get_client_hello set_server_hello get_server_hello
  set_client_hello_c set_server_hello_c set_certificate_request_c
  set_certificate get_certificate set_ske_ecdhe get_ske_ecdhe set_cke_ecdhe get_cke_ecdhe
  set_ske_pke get_ske_pke set_certificate_request get_certificate_request
  set_server_hello_done get_server_hello_done set_cke_pke get_cke_pke
  set_certificate_verify get_certificate_verify set_finished get_finished
  client_hello_exts13 server_hello_exts13 process_client_hello_exts13
  set_ee13 get_ee13 set_cv13 get_cv13 set_cr13 get_cr13 set_cert13 get_cert13 process_cert_list13 set_fin13 get_fin13
  process_client_hello_exts12 process_server_hello_exts12
  extension_types signature_schemes point_formats curves_known protocols cipher_suites_known handshake_types cert_types_known.
