From Coq Require Import Extraction ExtrOcamlBasic.
From GmVerif Require Import Base.Bytes Codec.Der Codec.Hex Codec.Base64 Codec.Time Codec.Pkcs Codec.Pem Codec.PkcsInst.
Extraction Language OCaml.
Extraction "../ocaml/gen/ModelC14.ml"
  Z.of_N N.of_nat
  AsIs Fixed
  len_to_der len_size len_from_der type_to_der type_size type_from_der nonempty_type_from_der
  any_type_from_der any_from_der boolean_to_der boolean_size boolean_from_der
  integer_to_der integer_size integer_from_der int_to_der int_size int_from_der
  bit_string_to_der bit_string_size bit_string_from_der bit_octets_to_der bit_octets_from_der
  bits_to_der bits_size bits_from_der null_to_der null_from_der
  node_to_base128 node_from_base128 oid_to_octets oid_from_octets oid_to_der oid_size oid_from_der
  seq_of_int_to_der seq_of_int_size seq_of_int_from_der
  is_utf8_string is_printable_string is_ia5_string string_to_der string_from_der
  sm2_sig_to_der sm2_sig_size sm2_sig_from_der
  hex_to_bytes hex_written hex_enc
  encode_block decode_block decode_block_m encode_update encode_finish decode_update decode_finish
  time_to_str time_from_str time_to_der time_size time_from_der
  curve_to_der curve_from_der pk_algor_to_der pk_algor_from_der sm2_algor_to_der sm2_algor_from_der
  enc_algor_to_der enc_algor_from_der prf_to_der prf_from_der
  pbkdf2_params_to_der pbkdf2_params_from_der pbkdf2_algor_to_der pbkdf2_algor_from_der
  pbes2_enc_algor_to_der pbes2_enc_algor_from_der pbes2_params_to_der pbes2_params_from_der
  pbes2_algor_to_der pbes2_algor_from_der p8e_to_der p8e_from_der
  sm2_ct_to_der sm2_ct_from_der sm2_pub_to_der sm2_pub_from_der sm2_pubinfo_to_der sm2_pubinfo_from_der
  sm2_priv_to_der sm2_priv_from_der sm2_p8_to_der sm2_p8_from_der sm2_p8_open sm2_p8_open_c sm2_pubkey_from_der sm2_pubkeyinfo_from_der sm2_privkey_from_der sm2_pubkeyinfo_from_pem sm2_privkeyinfo_from_pem
  pem_write pem_read kdf_sm3 cbcdec_sm4 cbcenc_sm4.
