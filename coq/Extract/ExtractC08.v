From Coq Require Import Extraction ExtrOcamlBasic.
From GmVerif Require Import Base.Bytes Hash.Instances Tls.Record12 Tls.Record13 Tls.RecordInst
  Tls.KeySched Tls.KeySchedInst Tls.Stream.
Extraction Language OCaml.
Extraction "../ocaml/gen/ModelC08.ml"
  Z.of_N N.of_nat
  observe12_sm4 observe13_sm4 observe13_msgs_sm4 sm4_rk_bytes cv13_content ske12_signed ske_tlcp_signed cv_tlcp_signed cv12_signed
  tls_prf prf_spec hkdf_expand_label derive_secret hkdf_extract13 verify_data13
  master_secret12 key_block12 client_finished12 server_finished12
  send1 recv1 write_all dsend dwrite drecv duplex_init c2s s2c dir_init max_plain cap13 chan rbuf sseq rseq.
