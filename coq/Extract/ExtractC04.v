From Coq Require Import Extraction ExtrOcamlBasic.
From GmVerif Require Import Base.Bytes Cipher.SM4 Cipher.SM4Tab Cipher.Modes Cipher.SM4Modes Cipher.AES Cipher.SM4Unrolled.
Extraction Language OCaml.
Extraction "../ocaml/gen/ModelC04.ml"
  Z.of_N N.of_nat
  implE implD specE specD sm4_table_mismatches sm4_encrypt_unrolled sm4_set_encrypt_key sm4_set_decrypt_key
  BLOCK_CIPHER_sm4 block_cipher_set_encrypt_key block_cipher_set_decrypt_key
  block_cipher_encrypt block_cipher_decrypt
  query16 cfb_query query_finish buf_update
  ecb_blocks ecb_init ecb_update ecb_finish ecb_spec
  cbc_encrypt_blocks cbc_enc_loop cbc_decrypt_blocks cbc_padding_encrypt cbc_padding_decrypt sm4_cbc_padding_decrypt cbc_pad_dec_spec_strict
  cbc_init cbc_encrypt_update cbc_encrypt_finish cbc_decrypt_update cbc_decrypt_finish
  cbc_enc_spec cbc_dec_spec cbc_pad_enc_spec cbc_pad_dec_spec
  ctr_encrypt_blocks ctr32_encrypt_blocks ctr_blocks_sf ctr_incr ctr32_incr ctr_encrypt
  ctr_init ctr_update ctr_finish ctr_spec ctr32_spec
  ofb_encrypt ofb_init ofb_update ofb_finish ofb_spec
  cfb_encrypt cfb_decrypt cfb_init cfb_encrypt_update cfb_decrypt_update
  cfb_encrypt_finish cfb_decrypt_finish cfb_enc_spec cfb_dec_spec
  xts_mul2 xts_mul2_spec xts_encrypt xts_decrypt xts_init xts_encrypt_update xts_decrypt_update
  xts_finish xts_enc_spec xts_dec_spec xts_units_spec xts_encrypt_raw xts_decrypt_raw segs tweak_incr
  cbc_mac_init cbc_mac_update cbc_mac_finish cbc_mac_spec
  aes_cbc_encrypt aes_cbc_decrypt aes_cbc_padding_encrypt aes_cbc_padding_decrypt aes_ctr_encrypt
  aes_set_encrypt_key aes_set_decrypt_key aes_encrypt_rk aes_decrypt_rk aes_encrypt_block aes_decrypt_block
  bc_aes128_set_encrypt_key bc_aes128_set_decrypt_key bc_aes128_encrypt bc_aes128_decrypt le_to_N.
