From Coq Require Import Extraction ExtrOcamlBasic.
From GmVerif Require Import Base.Bytes Hash.MD Hash.Instances Cipher.SM4 Cipher.GF128 Cipher.GCM Cipher.CCM
  Cipher.AES Cipher.ZUC Cipher.ChaCha Cipher.Aead.
Extraction Language OCaml.
Extraction "../ocaml/gen/ModelC04b.ml"
  Z.of_N N.of_nat aes_encrypt_block16
  sm4_encrypt_block sm4_decrypt_block
  gf_from_bytes gf_to_bytes gf128_mul gf128_mul_by_2 gf_one xtime poly gf_mul_horner gf_mul_alg1
  ghash ghash_spec ghash_init ghash_update ghash_finish
  gcm_encrypt gcm_decrypt gcm_spec_encrypt gcm_init gcm_enc_update gcm_enc_finish
  gcm_dec_update gcm_dec_finish gcm_dec_update_overread gcm_encrypt_stream gcm_decrypt_stream
  ccm_encrypt ccm_decrypt ccm_spec_encrypt
  aes_encrypt_block aes_decrypt_block aes_set_encrypt_key
  cbc_pad_encrypt cbc_pad_decrypt ctr128_crypt
  zuc_init zuc_keystream zuc256_init zuc_encrypt zuc_encrypt_overread zuc_xor_spec
  zuc_encrypt_init zuc_encrypt_update zuc_encrypt_finish
  zuc_eea_encrypt eea3_spec zuc_eia_generate_mac eia3_spec
  zuc_mac_init zuc_mac_update zuc_mac_finish
  zuc256_mac_init zuc256_mac_update zuc256_mac_finish
  chacha20_init chacha20_keystream
  cbch_encrypt cbch_decrypt ctrh_encrypt ctrh_decrypt
  sm3_hmac_init sm3_hmac_update sm3_hmac_finish
  cbc_hmac_spec_encrypt cbc_hmac_spec_decrypt ctr_hmac_spec_encrypt ctr_hmac_spec_decrypt.
