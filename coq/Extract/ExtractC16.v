From Coq Require Import Extraction ExtrOcamlBasic ZArith NArith.
From GmVerif Require Import Pki.Cms.
Extraction Language OCaml.
Extraction "../ocaml/gen/ModelC16.ml"
  Z.of_N N.of_nat
  cms_sign cms_verify cms_envelop cms_deenvelop cms_encrypt cms_decrypt
  cms_sign_and_envelop cms_deenvelop_and_verify mk_fixes mk_signer mk_cert mk_keyobj mk_signed.
