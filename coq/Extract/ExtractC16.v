From Coq Require Import Extraction ExtrOcamlBasic ZArith NArith.
From GmVerif Require Import Pki.Cms Pki.X509Codec Pki.CmsCodec.
Extraction Language OCaml.
Extraction "../ocaml/gen/ModelC16.ml"
  Z.of_N N.of_nat
  cms_sign cms_verify cms_envelop cms_deenvelop cms_encrypt cms_decrypt
  cms_sign_and_envelop cms_deenvelop_and_verify mk_fixes mk_signer mk_cert mk_keyobj mk_signed
  ias_to_der signer_info_to_der recipient_info_to_der digest_algors_to_der content_info_to_der enced_content_info_to_der
  signed_data_to_der enveloped_data_to_der signed_and_enveloped_data_to_der struct_from_der opt_value integer_content
  ias_layout signer_info_layout recipient_info_layout signed_data_layout enveloped_data_layout signed_and_enveloped_data_layout.
