From Coq Require Import Extraction ExtrOcamlBasic ZArith NArith.
From GmVerif Require Import Pki.X509Codec.
Extraction Language OCaml.
Extraction "../ocaml/gen/ModelC15.ml"
  Z.of_N N.of_nat
  tlv tlv_dec enc_items dec_items sign_to_der signed_from_der get_details
  tbs_cert_layout req_info_layout tbs_crl_layout entry_layout
  tbs_cert_values req_info_values tbs_crl_values revoked_entry integer_value integer_content
  time_value gen_time_value find_revoked alg_sm2sm3
  ext_ex_emit ext_emit ext_from_der find_by_issuer_serial octets_eqb alg_is_sm2sm3 alg_sm2sm3_null cert_check_crl
  name_build name_dec name_get_value attr_ok certs_by_index certs_last crl_check general_name_enc general_name_dec general_names_find validity_add_days.
