From Coq Require Import Extraction ExtrOcamlBasic ZArith NArith.
From GmVerif Require Import Pki.X509Path.
Extraction Language OCaml.
Extraction "../ocaml/gen/ModelC07.ml"
  Z.of_N N.of_nat
  certs_verify certs_verify_tlcp cert_check get_cert_index mk_fixes mk_cert mk_ext.
