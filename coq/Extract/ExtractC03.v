From Coq Require Import Extraction ExtrOcamlBasic.
From GmVerif Require Import Base.Bytes Hash.MD Hash.SM3 Hash.SHA2 Hash.Hmac Hash.Instances.
Extraction Language OCaml.
Extraction "../ocaml/gen/ModelC03.ml"
  Z.of_N N.of_nat
  sm3 sm3_init sm3_update sm3_finish sm3_hmac sm3_hmac_spec
  sha1 sha1_init sha1_update sha1_finish
  sha224 sha224_init sha224_finish sha256 sha256_init sha256_update sha256_finish
  sha384 sha384_init sha384_finish sha512 sha512_init sha512_update sha512_finish
  sha512_224 sha512_224_init sha512_224_finish sha512_256 sha512_256_init sha512_256_finish
  hmac_spec hmacB_sm3 hmacB_sha1 hmacB_sha224 hmacB_sha256 hmacB_sha384 hmacB_sha512 hmacB_sha512_224 hmacB_sha512_256
  sm3_digest_api sm3_digest_api_spec mac_verify
  sm3_kdf_stream sm2_kdf sm3_kdf_spec sm3_pbkdf2 sm3_pbkdf2_spec
  sm3_hkdf_extract sm3_hkdf_expand sm3_hkdf_extract_spec sm3_hkdf_expand_spec
  sha256_hkdf_extract sha256_hkdf_expand sha256_hkdf_extract_spec sha256_hkdf_expand_spec
  sm3_from_state sm3_from_state_spec sha1_from_state sha1_from_state_spec
  sha256_from_state sha256_from_state_spec sha512_from_state sha512_from_state_spec.
