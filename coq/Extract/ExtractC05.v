From Coq Require Import Extraction ExtrOcamlBasic.
From GmVerif Require Import Base.Bytes Hash.MD Hash.Instances Cipher.SM4 Cipher.GF128 Cipher.GCM Cipher.CCM
  Cipher.AES Cipher.Aead.
Extraction Language OCaml.
Extraction "../ocaml/gen/ModelC05.ml"
  Z.of_N N.of_nat aes_encrypt_block16
  sm4_encrypt_block sm4_decrypt_block aes_encrypt_block
  gcm_encrypt gcm_decrypt gcm_encrypt_stream gcm_decrypt_stream
  ccm_encrypt ccm_decrypt
  cbch_encrypt cbch_decrypt ctrh_encrypt ctrh_decrypt
  sm3_hmac_init sm3_hmac_update sm3_hmac_finish
  cbc_hmac_spec_decrypt ctr_hmac_spec_decrypt cbc_enc_blocks sm3_hmac_spec.
