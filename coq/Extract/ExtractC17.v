From Coq Require Import Extraction ExtrOcamlBasic ZArith.
From GmVerif Require Import Base.Bytes Hash.MD Hash.SM3 Sm9.Tower Sm9.ModN Codec.Der Sm9.Sm9Der Sm9.Sm9Groups.
Extraction Language OCaml.
Extraction "../ocaml/gen/ModelC17.ml"
  Z.of_N N.of_nat Z.ltb Z.leb Z.eqb Z.modulo Z.mul Z.add Z.sub Z.opp Z.pow
  p Nord Rinv inv2 Sfinv Z.div
  fadd fsub fneg fdbl ftri fhaf fmul fmont fpow finv
  I2add I2dbl I2tri I2sub I2neg I2haf I2conj I2a_mul_u I2mul I2mul_u I2mul_fp I2sqr I2sqr_u I2inv I2div
  I4add I4dbl I4sub I4neg I4haf I4conj I4a_mul_v I4mul I4mul_fp I4mul_fp2 I4mul_v I4sqr I4sqr_v I4inv
  I4frobenius I4frobenius2 I4frobenius3
  I12add I12dbl I12tri I12sub I12neg I12mul I12sqr I12inv I12pow
  I12frobenius I12frobenius2 I12frobenius3 I12frobenius6 I12line_mul I12one
  S2add S2sub S2neg S2mul S2scale S2conj S2u S2inv
  S4add S4sub S4neg S4mul S4scale S4scale2 S4conj S4v S4inv S4frob
  S12add S12sub S12neg S12mul S12line S12inv S12frob S12one
  canon2 canon4 canon12 R12mul R12pow R4pow
  modn_add modn_sub from_hash_impl from_hash_spec fh_quot
  sm9_hash1_impl sm9_hash1_spec sm9_hash2_impl sm9_hash2_spec
  sm9_sig_from_der sm9_sig_decode sm9_ct_from_der sm9_ct_decode sig_to_der ct_to_der g1_octets_ok
  I2equ I2is_one I2is_zero I4equ I4is_zero I12equ
  modn_mul modn_pow modn_inv extract_t2 S2cj rand_range
  J1dbl J1add J1sub J1neg J1add_affine J1on_curve J1equ J1mul booth J2dbl J2add J2add_full J2sub J2neg J2mul J2on_curve.
