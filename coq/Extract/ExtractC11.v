From Coq Require Import Extraction ExtrOcamlBasic.
From GmVerif Require Import Base.Bytes Tls.Record12 Tls.Record13 Tls.Gcm13 Tls.RecordInst.
Extraction Language OCaml.
Extraction "../ocaml/gen/ModelC11.ml"
  Z.of_N N.of_nat
  cbc12_encrypt cbc12_decrypt record12_encrypt record12_decrypt seq_num_incr
  gcm13_encrypt gcm13_decrypt record13_encrypt record13_decrypt record13_plain
  sm4_gcm_seal sm4_gcm_open cbc12_seal_raw hmac_chunks.
