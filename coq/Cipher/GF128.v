(* GF(2^128) as used by GHASH: src/gf128.c (two 64-bit limbs, shift-and-reduce
   multiplication) and src/ghash.c (one-shot [ghash] and the incremental
   [ghash_init/update/finish]).

   Representation (gf128_from_bytes): the 16 input bytes are read as two
   big-endian 64-bit words and each word is bit-reversed, so that bit i of
   (r1 << 64 | r0) is the coefficient of x^i -- the first bit of the byte string
   is the constant coefficient, as in SP 800-38D.

   Impl model : [gf128_mul] over limb pairs, [ghash], [ghash_init/update/finish]
   Spec       : [gf_mul_alg1]  SP 800-38D Algorithm 1 on the 128-bit polynomial
                (Z ^= V when bit i of the multiplier is set; V = V.x mod f),
                [ghash_spec]   GHASH_H(A||0* || C||0* || len(A)||len(C))        *)
From GmVerif Require Import Base.ListX Base.Bytes Hash.MD.
Local Open Scope N_scope.

Definition gf : Type := (N * N)%type.          (* (r[0], r[1]) : low limb, high limb *)

(* ---------- reverse_bits : the 63-iteration loop of gf128.c ---------- *)
Fixpoint rev_loop (n : nat) (r a : N) : N * N :=
  match n with
  | O => (r, a)
  | S k => rev_loop k (w64 (N.shiftl (N.lor r (N.land a 1)) 1)) (N.shiftr a 1)
  end.
Definition reverse_bits (a : N) : N :=
  let '(r, a') := rev_loop 63 0 a in N.lor r (N.land a' 1).

Definition getu64 (p : list N) : N := be_to_N (firstn 8 p).
Definition gf_from_bytes (p : list N) : gf :=
  (reverse_bits (getu64 p), reverse_bits (getu64 (skipn 8 p))).
Definition gf_to_bytes (a : gf) : list N :=
  be64 (reverse_bits (fst a)) ++ be64 (reverse_bits (snd a)).
Definition gf_add (a b : gf) : gf := (N.lxor (fst a) (fst b), N.lxor (snd a) (snd b)).
Definition gf_zero : gf := (0, 0).

(* ---------- gf128_mul : the two 64-iteration loops ---------- *)
(* state (r0, r1, bw): accumulator limbs and the current multiplier limb *)
Definition gf_step (a : gf) (st : N * N * N) : N * N * N :=
  let '(r0, r1, bw) := st in
  let top := N.testbit r1 63 in
  let r1s := w64 (N.lor (N.shiftl r1 1) (N.shiftr r0 63)) in
  let r0s := w64 (N.shiftl r0 1) in
  let r0s := if top then N.lxor r0s 0x87 else r0s in
  let bw' := w64 (N.shiftl bw 1) in
  if N.testbit bw 63 then (N.lxor r0s (fst a), N.lxor r1s (snd a), bw')
  else (r0s, r1s, bw').
Definition gf128_mul (a b : gf) : gf :=
  let '(r0, r1, _) := Nat.iter 64 (gf_step a) (0, 0, snd b) in
  let '(r0, r1, _) := Nat.iter 64 (gf_step a) (r0, r1, fst b) in
  (r0, r1).

(* gf128_mul_by_2 (used by the XTS tweak update) and gf128_set_one *)
Definition gf128_mul_by_2 (a : gf) : gf :=
  let '(a0, a1) := a in
  let r1 := w64 (N.lor (N.shiftl a1 1) (N.shiftr a0 63)) in
  let r0 := w64 (N.shiftl a0 1) in
  (if N.testbit a1 63 then N.lxor r0 0x87 else r0, r1).
Definition gf_one : gf := (1, 0).

(* ---------- Spec on one 128-bit polynomial ---------- *)
Definition ones128 : N := N.ones 128.
Definition poly (a : gf) : N := fst a + 2^64 * snd a.
(* multiplication by x modulo f = x^128 + x^7 + x^2 + x + 1 *)
Definition xtime (r : N) : N :=
  let s := N.land (N.shiftl r 1) ones128 in
  if N.testbit r 127 then N.lxor s 0x87 else s.
(* Horner form over the multiplier bits n-1 .. 0 (what the C loop computes) *)
Fixpoint horner (n : nat) (a b r : N) : N :=
  match n with
  | O => r
  | S k => horner k a b (let r' := xtime r in if N.testbit b (N.of_nat k) then N.lxor r' a else r')
  end.
Definition gf_mul_horner (a b : N) : N := horner 128 a b 0.
(* SP 800-38D Algorithm 1: Z = xor over set bits i of b of (a.x^i mod f) *)
Fixpoint alg1 (n : nat) (i : nat) (v b z : N) : N :=
  match n with
  | O => z
  | S k => alg1 k (S i) (xtime v) b (if N.testbit b (N.of_nat i) then N.lxor z v else z)
  end.
Definition gf_mul_alg1 (a b : N) : N := alg1 128 0 a b 0.

(* ---------- GHASH one-shot (ghash.c: ghash) ---------- *)
Definition pad16 (l : list N) : list N := l ++ zeros (16 - length l).
Definition ghash_step (H X : gf) (blk : list N) : gf :=
  gf128_mul (gf_add X (gf_from_bytes blk)) H.
(* while (len) { take 16 bytes or the zero-padded rest } *)
Fixpoint ghash_absorb (fuel : nat) (H X : gf) (d : list N) : gf :=
  match fuel with
  | O => X
  | S f =>
    match d with
    | [] => X
    | _ => if (16 <=? length d)%nat then ghash_absorb f H (ghash_step H X (firstn 16 d)) (skipn 16 d)
           else ghash_step H X (pad16 d)
    end
  end.
Definition len_block (aadlen clen : N) : list N :=
  be64 ((aadlen * 8) mod 2^64) ++ be64 ((clen * 8) mod 2^64).
Definition ghash (h aad c : list N) : list N :=
  let H := gf_from_bytes h in
  let L := gf_from_bytes (len_block (N.of_nat (length aad)) (N.of_nat (length c))) in
  let X := ghash_absorb (length aad) H gf_zero aad in
  let X := ghash_absorb (length c) H X c in
  gf_to_bytes (gf128_mul (gf_add X L) H).

(* ---------- GHASH incremental: the block buffer is the MD.v context ---------- *)
Record ghash_ctx := mkGh { gh_H : gf; gh_md : MD.ctx gf; gh_aadlen : N; gh_clen : N }.
Definition gh_update_md (H : gf) := MD.update gf (ghash_step H) 16%nat.
Definition ghash_init (h aad : list N) : ghash_ctx :=
  let H := gf_from_bytes h in
  mkGh H (MD.mk gf (ghash_absorb (length aad) H gf_zero aad) 0 []) (N.of_nat (length aad)) 0.
Definition ghash_update (c : ghash_ctx) (d : list N) : ghash_ctx :=
  mkGh (gh_H c) (gh_update_md (gh_H c) (gh_md c) d) (gh_aadlen c)
       ((gh_clen c + N.of_nat (length d)) mod 2^64).
Definition ghash_finish (c : ghash_ctx) : list N :=
  let H := gh_H c in
  let X := MD.st gf (gh_md c) in
  let X := match MD.buf gf (gh_md c) with [] => X | b => ghash_step H X (pad16 b) end in
  let L := gf_from_bytes (be64 ((gh_aadlen c * 8) mod 2^64) ++ be64 ((gh_clen c * 8) mod 2^64)) in
  gf_to_bytes (gf128_mul (gf_add X L) H).

(* ---------- Spec: GHASH of SP 800-38D over whole 16-byte blocks ---------- *)
Definition pad_mult16 (l : list N) : list N := l ++ zeros ((16 - length l mod 16) mod 16).
Definition ghash_spec (h aad c : list N) : list N :=
  let H := gf_from_bytes h in
  let data := pad_mult16 aad ++ pad_mult16 c
              ++ len_block (N.of_nat (length aad)) (N.of_nat (length c)) in
  gf_to_bytes (MD.foldn gf (ghash_step H) 16%nat (length data / 16) gf_zero data).

(* SP 800-38D / McGrew-Viega test case 2: K = 0, P = 0^128, IV = 0^96:
   H = 66e94bd4ef8a2c3b884cfa59ca342b2e, C = 0388dace60b6a392f328c2b971b2fe78,
   GHASH(H, {}, C) = f38cbb1ad69223dcc3457ae5b6b0f885 *)
Definition tv_H : list N :=
  [0x66;0xe9;0x4b;0xd4;0xef;0x8a;0x2c;0x3b;0x88;0x4c;0xfa;0x59;0xca;0x34;0x2b;0x2e].
Definition tv_C : list N :=
  [0x03;0x88;0xda;0xce;0x60;0xb6;0xa3;0x92;0xf3;0x28;0xc2;0xb9;0x71;0xb2;0xfe;0x78].
Definition tv_G : list N :=
  [0xf3;0x8c;0xbb;0x1a;0xd6;0x92;0x23;0xdc;0xc3;0x45;0x7a;0xe5;0xb6;0xb0;0xf8;0x85].
Example ghash_vector : ghash tv_H [] tv_C = tv_G.
Proof. vm_compute. reflexivity. Qed.
Example ghash_spec_vector : ghash_spec tv_H [] tv_C = tv_G.
Proof. vm_compute. reflexivity. Qed.
Example ghash_stream_vector :
  ghash_finish (ghash_update (ghash_update (ghash_init tv_H []) (firstn 5 tv_C)) (skipn 5 tv_C)) = tv_G.
Proof. vm_compute. reflexivity. Qed.
Example gf_mul_forms_agree :
  let a := poly (gf_from_bytes tv_H) in let b := poly (gf_from_bytes tv_C) in
  poly (gf128_mul (gf_from_bytes tv_H) (gf_from_bytes tv_C)) = gf_mul_horner a b /\
  gf_mul_horner a b = gf_mul_alg1 a b.
Proof. vm_compute. split; reflexivity. Qed.
