(* AES-128/192/256: src/aes.c is the FIPS-197 state-matrix form itself
   (sub_bytes, shift_rows, mix_columns with the x2/x3/x9/xb/xd/xe helpers, add_round_key,
   key expansion for Nk = 4, 6, 8; the decryption key is the encryption schedule with the
   round keys in reverse order and aes_decrypt is the straightforward inverse cipher).

   The model keeps the state as the 16 bytes in input order (column-major: byte r + 4c is
   state[r][c]).  [aes_S] / [aes_S_inv] are the FIPS-197 tables; [aes_S_spec] proves the
   S-box table equal to its definition (inverse in GF(2^8) followed by the affine map).   *)
From GmVerif Require Import Base.ListX Base.Bytes.
Local Open Scope N_scope.

Definition aes_S : list N := [
   99; 124; 119; 123; 242; 107; 111; 197;  48;   1; 103;  43; 254; 215; 171; 118;
  202; 130; 201; 125; 250;  89;  71; 240; 173; 212; 162; 175; 156; 164; 114; 192;
  183; 253; 147;  38;  54;  63; 247; 204;  52; 165; 229; 241; 113; 216;  49;  21;
    4; 199;  35; 195;  24; 150;   5; 154;   7;  18; 128; 226; 235;  39; 178; 117;
    9; 131;  44;  26;  27; 110;  90; 160;  82;  59; 214; 179;  41; 227;  47; 132;
   83; 209;   0; 237;  32; 252; 177;  91; 106; 203; 190;  57;  74;  76;  88; 207;
  208; 239; 170; 251;  67;  77;  51; 133;  69; 249;   2; 127;  80;  60; 159; 168;
   81; 163;  64; 143; 146; 157;  56; 245; 188; 182; 218;  33;  16; 255; 243; 210;
  205;  12;  19; 236;  95; 151;  68;  23; 196; 167; 126;  61; 100;  93;  25; 115;
   96; 129;  79; 220;  34;  42; 144; 136;  70; 238; 184;  20; 222;  94;  11; 219;
  224;  50;  58;  10;  73;   6;  36;  92; 194; 211; 172;  98; 145; 149; 228; 121;
  231; 200;  55; 109; 141; 213;  78; 169; 108;  86; 244; 234; 101; 122; 174;   8;
  186; 120;  37;  46;  28; 166; 180; 198; 232; 221; 116;  31;  75; 189; 139; 138;
  112;  62; 181; 102;  72;   3; 246;  14;  97;  53;  87; 185; 134; 193;  29; 158;
  225; 248; 152;  17; 105; 217; 142; 148; 155;  30; 135; 233; 206;  85;  40; 223;
  140; 161; 137;  13; 191; 230;  66; 104;  65; 153;  45;  15; 176;  84; 187;  22].
Definition aes_S_inv : list N := [
   82;   9; 106; 213;  48;  54; 165;  56; 191;  64; 163; 158; 129; 243; 215; 251;
  124; 227;  57; 130; 155;  47; 255; 135;  52; 142;  67;  68; 196; 222; 233; 203;
   84; 123; 148;  50; 166; 194;  35;  61; 238;  76; 149;  11;  66; 250; 195;  78;
    8;  46; 161; 102;  40; 217;  36; 178; 118;  91; 162;  73; 109; 139; 209;  37;
  114; 248; 246; 100; 134; 104; 152;  22; 212; 164;  92; 204;  93; 101; 182; 146;
  108; 112;  72;  80; 253; 237; 185; 218;  94;  21;  70;  87; 167; 141; 157; 132;
  144; 216; 171;   0; 140; 188; 211;  10; 247; 228;  88;   5; 184; 179;  69;   6;
  208;  44;  30; 143; 202;  63;  15;   2; 193; 175; 189;   3;   1;  19; 138; 107;
   58; 145;  17;  65;  79; 103; 220; 234; 151; 242; 207; 206; 240; 180; 230; 115;
  150; 172; 116;  34; 231; 173;  53; 133; 226; 249;  55; 232;  28; 117; 223; 110;
   71; 241;  26; 113;  29;  41; 197; 137; 111; 183;  98;  14; 170;  24; 190;  27;
  252;  86;  62;  75; 198; 210; 121;  32; 154; 219; 192; 254; 120; 205;  90; 244;
   31; 221; 168;  51; 136;   7; 199;  49; 177;  18;  16;  89;  39; 128; 236;  95;
   96;  81; 127; 169;  25; 181;  74;  13;  45; 229; 122; 159; 147; 201; 156; 239;
  160; 224;  59;  77; 174;  42; 245; 176; 200; 235; 187;  60; 131;  83; 153;  97;
   23;  43;   4; 126; 186; 119; 214;  38; 225; 105;  20;  99;  85;  33;  12; 125].
Definition aes_Rcon : list N := [141; 1; 2; 4; 8; 16; 32; 64; 128; 27; 54].

Definition S_box (b : N) : N := nth (N.to_nat (w8 b)) aes_S 0.
Definition S_inv_box (b : N) : N := nth (N.to_nat (w8 b)) aes_S_inv 0.

(* ---------- GF(2^8) helpers of aes.c ---------- *)
Definition x2 (a : N) : N :=
  if N.testbit a 7 then N.lxor (w8 (N.shiftl a 1)) 0x1b else w8 (N.shiftl a 1).
Definition x3 (a : N) : N := N.lxor (x2 a) a.
Definition x9 (a : N) : N := N.lxor (x2 (x2 (x2 a))) a.
Definition xb (a : N) : N := N.lxor (N.lxor (x2 (x2 (x2 a))) (x2 a)) a.
Definition xd (a : N) : N := N.lxor (N.lxor (x2 (x2 (x2 a))) (x2 (x2 a))) a.
Definition xe (a : N) : N := N.lxor (N.lxor (x2 (x2 (x2 a))) (x2 (x2 a))) (x2 a).

(* ---------- key expansion ---------- *)
Definition sub_word (a : N) : N :=
  N.lor (N.lor (N.shiftl (S_box (N.shiftr a 24)) 24) (N.shiftl (S_box (N.shiftr a 16)) 16))
        (N.lor (N.shiftl (S_box (N.shiftr a 8)) 8) (S_box a)).
Definition rot_word (a : N) : N := rol32 a 8.

(* W is kept reversed (most recent word first); i is the index of the word being produced *)
Fixpoint expand (fuel : nat) (Nk i : nat) (wrev : list N) : list N :=
  match fuel with
  | O => rev wrev
  | S f =>
    let t := nth 0 wrev 0 in
    let t := if (i mod Nk =? 0)%nat
             then N.lxor (sub_word (rot_word t)) (N.shiftl (nth (i / Nk) aes_Rcon 0) 24)
             else if ((Nk =? 8) && (i mod 8 =? 4))%nat then sub_word t else t in
    expand f Nk (S i) (N.lxor (nth (Nk - 1) wrev 0) t :: wrev)
  end.
Definition aes_rounds (keylen : nat) : option nat :=
  match keylen with 16%nat => Some 10%nat | 24%nat => Some 12%nat | 32%nat => Some 14%nat | _ => None end.
(* aes_set_encrypt_key: Some (rk words, rounds) | None (return 0) *)
Definition aes_set_encrypt_key (key : list N) : option (list N * nat) :=
  match aes_rounds (length key) with
  | None => None
  | Some r =>
    let Nk := (length key / 4)%nat in
    let w0 := words_be Nk key in
    Some (expand (4 * (r + 1) - Nk) Nk Nk (rev w0), r)
  end.
(* aes_set_decrypt_key: round keys (groups of four words) in reverse order *)
Fixpoint groups4 (n : nat) (l : list N) : list (list N) :=
  match n with O => [] | S k => firstn 4 l :: groups4 k (skipn 4 l) end.
Definition aes_set_decrypt_key (key : list N) : option (list N * nat) :=
  match aes_set_encrypt_key key with
  | None => None
  | Some (w, r) => Some (concat (rev (groups4 (r + 1) w)), r)
  end.

(* ---------- round functions on the 16-byte state ---------- *)
Definition rk_bytes (w4 : list N) : list N := flat_map be32 w4.
Definition add_round_key (st w4 : list N) : list N := xor_bytes st (rk_bytes w4).
Definition sub_bytes (st : list N) : list N := map S_box st.
Definition inv_sub_bytes (st : list N) : list N := map S_inv_box st.
Definition pick (st : list N) (idx : list nat) : list N := map (fun i => nth i st 0) idx.
(* new[r][c] = old[r][(c + r) mod 4] *)
Definition shift_rows (st : list N) : list N :=
  pick st [0; 5; 10; 15; 4; 9; 14; 3; 8; 13; 2; 7; 12; 1; 6; 11]%nat.
Definition inv_shift_rows (st : list N) : list N :=
  pick st [0; 13; 10; 7; 4; 1; 14; 11; 8; 5; 2; 15; 12; 9; 6; 3]%nat.
Definition mix_col (c : list N) : list N :=
  match c with
  | [a; b; c; d] =>
    [N.lxor (N.lxor (N.lxor (x2 a) (x3 b)) c) d;
     N.lxor (N.lxor (N.lxor a (x2 b)) (x3 c)) d;
     N.lxor (N.lxor (N.lxor a b) (x2 c)) (x3 d);
     N.lxor (N.lxor (N.lxor (x3 a) b) c) (x2 d)]
  | _ => c
  end.
Definition inv_mix_col (c : list N) : list N :=
  match c with
  | [a; b; c; d] =>
    [N.lxor (N.lxor (N.lxor (xe a) (xb b)) (xd c)) (x9 d);
     N.lxor (N.lxor (N.lxor (x9 a) (xe b)) (xb c)) (xd d);
     N.lxor (N.lxor (N.lxor (xd a) (x9 b)) (xe c)) (xb d);
     N.lxor (N.lxor (N.lxor (xb a) (xd b)) (x9 c)) (xe d)]
  | _ => c
  end.
Definition on_cols (f : list N -> list N) (st : list N) : list N :=
  f (firstn 4 st) ++ f (firstn 4 (skipn 4 st)) ++ f (firstn 4 (skipn 8 st)) ++ f (firstn 4 (skipn 12 st)).
Definition mix_columns := on_cols mix_col.
Definition inv_mix_columns := on_cols inv_mix_col.

(* rounds 1 .. r-1 *)
Fixpoint enc_rounds (n : nat) (st w : list N) : list N * list N :=
  match n with
  | O => (st, w)
  | S k => enc_rounds k (add_round_key (mix_columns (shift_rows (sub_bytes st))) (firstn 4 w)) (skipn 4 w)
  end.
Definition aes_encrypt_rk (w : list N) (r : nat) (blk : list N) : list N :=
  let st := add_round_key blk (firstn 4 w) in
  let '(st, w') := enc_rounds (r - 1) st (skipn 4 w) in
  add_round_key (shift_rows (sub_bytes st)) (firstn 4 w').
Fixpoint dec_rounds (n : nat) (st w : list N) : list N * list N :=
  match n with
  | O => (st, w)
  | S k => dec_rounds k (inv_mix_columns (add_round_key (inv_sub_bytes (inv_shift_rows st)) (firstn 4 w))) (skipn 4 w)
  end.
Definition aes_decrypt_rk (w : list N) (r : nat) (blk : list N) : list N :=
  let st := add_round_key blk (firstn 4 w) in
  let '(st, w') := dec_rounds (r - 1) st (skipn 4 w) in
  add_round_key (inv_sub_bytes (inv_shift_rows st)) (firstn 4 w').

Definition aes_encrypt_block (key blk : list N) : list N :=
  match aes_set_encrypt_key key with Some (w, r) => aes_encrypt_rk w r blk | None => [] end.
Definition aes_decrypt_block (key blk : list N) : list N :=
  match aes_set_decrypt_key key with Some (w, r) => aes_decrypt_rk w r blk | None => [] end.

(* the block function handed to the generic modes (GCM, CBC, CTR): any list is read as a block of
   16 bytes (identity on 16-byte blocks of bytes, the only inputs the modes produce) *)
Definition norm16 (x : list N) : list N := firstn 16 (map w8 x ++ zeros 16).
Definition aes_encrypt_block16 (key x : list N) : list N := aes_encrypt_block key (norm16 x).

(* ---------- the S-box equals its FIPS-197 definition ---------- *)
(* multiplication in GF(2^8) mod x^8+x^4+x^3+x+1, 8 shift-and-add steps *)
Fixpoint gmul8 (n : nat) (a b acc : N) : N :=
  match n with
  | O => acc
  | S k => gmul8 k (x2 a) (N.shiftr b 1) (if N.testbit b 0 then N.lxor acc a else acc)
  end.
Definition gmul (a b : N) : N := gmul8 8 a b 0.
Definition gsq (a : N) : N := gmul a a.
(* a^254 = a^-1 (0 -> 0) *)
Definition ginv (a : N) : N :=
  let a2 := gsq a in let a4 := gsq a2 in let a8 := gsq a4 in let a16 := gsq a8 in
  let a32 := gsq a16 in let a64 := gsq a32 in let a128 := gsq a64 in
  gmul a128 (gmul a64 (gmul a32 (gmul a16 (gmul a8 (gmul a4 a2))))).
Definition rotl8 (x : N) (k : N) : N := w8 (N.lor (N.shiftl x k) (N.shiftr x (8 - k))).
Definition sbox_spec (a : N) : N :=
  let b := ginv a in
  N.lxor (N.lxor (N.lxor (N.lxor (N.lxor b (rotl8 b 1)) (rotl8 b 2)) (rotl8 b 3)) (rotl8 b 4)) 0x63.
Definition bytes256 : list N := map N.of_nat (seq 0 256).
Lemma aes_S_spec : forallb (fun b => N.eqb (S_box b) (sbox_spec b)) bytes256 = true.
Proof. vm_compute. reflexivity. Qed.

(* ---------- FIPS-197 appendix C vectors ---------- *)
Definition tv_pt : list N := map N.of_nat (map (fun i => i * 17)%nat (seq 0 16)).
Definition tv_key (n : nat) : list N := map N.of_nat (seq 0 n).
Example aes128_vector : aes_encrypt_block (tv_key 16) tv_pt =
  [0x69;0xc4;0xe0;0xd8;0x6a;0x7b;0x04;0x30;0xd8;0xcd;0xb7;0x80;0x70;0xb4;0xc5;0x5a].
Proof. vm_compute. reflexivity. Qed.
Example aes192_vector : aes_encrypt_block (tv_key 24) tv_pt =
  [0xdd;0xa9;0x7c;0xa4;0x86;0x4c;0xdf;0xe0;0x6e;0xaf;0x70;0xa0;0xec;0x0d;0x71;0x91].
Proof. vm_compute. reflexivity. Qed.
Example aes256_vector : aes_encrypt_block (tv_key 32) tv_pt =
  [0x8e;0xa2;0xb7;0xca;0x51;0x67;0x45;0xbf;0xea;0xfc;0x49;0x90;0x4b;0x49;0x60;0x89].
Proof. vm_compute. reflexivity. Qed.
Example aes_dec_vectors :
  aes_decrypt_block (tv_key 16) (aes_encrypt_block (tv_key 16) tv_pt) = tv_pt /\
  aes_decrypt_block (tv_key 24) (aes_encrypt_block (tv_key 24) tv_pt) = tv_pt /\
  aes_decrypt_block (tv_key 32) (aes_encrypt_block (tv_key 32) tv_pt) = tv_pt.
Proof. vm_compute. repeat split; reflexivity. Qed.

(* building blocks of aes_dec_enc that are finite sweeps (the theorem itself is in AESProofs.v) *)
Lemma aes_S_inv_S : forallb (fun b => N.eqb (S_inv_box (S_box b)) b) bytes256 = true.
Proof. vm_compute. reflexivity. Qed.
Lemma aes_S_S_inv : forallb (fun b => N.eqb (S_box (S_inv_box b)) b) bytes256 = true.
Proof. vm_compute. reflexivity. Qed.
(* inv_mix_col . mix_col = id on each coordinate axis (with xor-linearity this is the whole map) *)
Lemma aes_mix_axes :
  forallb (fun a => bytes_ok [a] &&
     (forallb (fun p => N.eqb (fst p) (snd p)) (combine (inv_mix_col (mix_col [a; 0; 0; 0])) [a; 0; 0; 0])) &&
     (forallb (fun p => N.eqb (fst p) (snd p)) (combine (inv_mix_col (mix_col [0; a; 0; 0])) [0; a; 0; 0])) &&
     (forallb (fun p => N.eqb (fst p) (snd p)) (combine (inv_mix_col (mix_col [0; 0; a; 0])) [0; 0; a; 0])) &&
     (forallb (fun p => N.eqb (fst p) (snd p)) (combine (inv_mix_col (mix_col [0; 0; 0; a])) [0; 0; 0; a])))
    bytes256 = true.
Proof. vm_compute. reflexivity. Qed.
Lemma aes_shift_rows_inv (s : list N) : length s = 16%nat -> inv_shift_rows (shift_rows s) = s.
Proof.
  intros H. do 17 (destruct s as [|? s]; [try discriminate H|]); [reflexivity|discriminate H].
Qed.
