(* The tag-window theorems instantiated for SM4-CTR+SM3-HMAC and SM4-CBC+SM3-HMAC
   (src/sm4_ctr_sm3_hmac.c, src/sm4_cbc_sm3_hmac.c): decision rule for every chunking,
   structural truncation, tag changes; over an abstract streaming MAC whose update is a monoid
   action on the states reachable from its initial state, then for the SM3-HMAC of coq/Hash. *)
From GmVerif Require Import Base.ListX Base.Bytes Hash.MD Hash.SM3 Hash.SM3Proofs Hash.Hmac Hash.HmacProofs
  Hash.Instances Hash.C03Lemmas Cipher.SM4 Cipher.GF128 Cipher.GCM Cipher.Aead Cipher.AeadProofs Cipher.GCMProofs
  Cipher.CCMProofs Cipher.AES Cipher.AESProofs Cipher.BitsX.
Require Import Lia ZifyN ZifyNat ZifyBool.
Ltac Zify.zify_post_hook ::= Z.div_mod_to_equations.
Local Open Scope nat_scope.

(* ===================== CBC decryption buffer ===================== *)
Section Cbc.
  Variable D : list N -> list N.
  Notation blocks := (cbc_dec_blocks D).

  Lemma cbc_split : forall k1 k2 iv x y, length x = 16 * k1 ->
    blocks (k1 + k2) iv (x ++ y) =
    let '(iv1, o1) := blocks k1 iv x in let '(iv2, o2) := blocks k2 iv1 y in (iv2, o1 ++ o2).
  Proof.
    induction k1 as [|k1 IH]; intros k2 iv x y Hx.
    - destruct x; [|cbn in Hx; lia]. cbn [Nat.add cbc_dec_blocks app].
      destruct (blocks k2 iv y). reflexivity.
    - cbn [Nat.add cbc_dec_blocks].
      rewrite firstn_app, skipn_app. replace (16 - length x) with 0 by lia.
      rewrite firstn_O, skipn_O, app_nil_r.
      rewrite IH by (rewrite skipn_length; lia).
      destruct (blocks k1 (firstn 16 x) (skipn 16 x)) as [iv1 o1].
      destruct (blocks k2 iv1 y) as [iv2 o2]. rewrite app_assoc. reflexivity.
  Qed.

  (* state and output after absorbing x from (iv0, []) *)
  Definition cbc_k (x : list N) : nat := (length x - 1) / 16.
  Definition cbc_state (iv0 x : list N) : cbc_ctx :=
    mkCbc (fst (blocks (cbc_k x) iv0 (firstn (cbc_k x * 16) x))) (skipn (cbc_k x * 16) x).
  Definition cbc_out (iv0 x : list N) : list N :=
    snd (blocks (cbc_k x) iv0 (firstn (cbc_k x * 16) x)).

  Lemma cbc_update_state iv0 a b :
    fst (cbc_dec_update D (cbc_state iv0 a) b) = cbc_state iv0 (a ++ b) /\
    cbc_out iv0 (a ++ b) = cbc_out iv0 a ++ snd (cbc_dec_update D (cbc_state iv0 a) b).
  Proof.
    set (ka := cbc_k a). set (ra := skipn (ka * 16) a).
    assert (Hka : ka * 16 <= length a).
    { unfold ka, cbc_k. pose proof (Nat.div_mod (length a - 1) 16 ltac:(lia)). lia. }
    assert (Hra : length ra = length a - ka * 16) by (unfold ra; apply skipn_length).
    assert (Hra16 : length ra <= 16 /\ (length a > 0 -> 1 <= length ra)).
    { rewrite Hra. unfold ka, cbc_k. pose proof (Nat.div_mod (length a - 1) 16 ltac:(lia)).
      pose proof (Nat.mod_upper_bound (length a - 1) 16 ltac:(lia)). lia. }
    set (k := (length (ra ++ b) - 1) / 16).
    assert (Hkk : cbc_k (a ++ b) = ka + k).
    { unfold k, cbc_k. rewrite !app_length, Hra.
      destruct (Nat.eq_dec (length a) 0) as [Ha0|Ha0].
      - assert (ka = 0) by (unfold ka, cbc_k; rewrite Ha0; reflexivity). rewrite Ha0. lia.
      - replace (length a + length b - 1) with (ka * 16 + (length a - ka * 16 + length b - 1)) by lia.
        rewrite Nat.div_add_l by lia. reflexivity. }
    assert (Hab : a ++ b = firstn (ka * 16) a ++ (ra ++ b)).
    { unfold ra. rewrite app_assoc, firstn_skipn. reflexivity. }
    assert (Hfa : length (firstn (ka * 16) a) = ka * 16) by (apply firstn_length_le; lia).
    assert (Hfirst : firstn ((ka + k) * 16) (a ++ b) = firstn (ka * 16) a ++ firstn (k * 16) (ra ++ b)).
    { rewrite Hab. rewrite (firstn_app ((ka + k) * 16)), Hfa.
      rewrite (firstn_all2 (firstn (ka * 16) a)) by lia.
      replace ((ka + k) * 16 - ka * 16) with (k * 16) by lia. reflexivity. }
    assert (Hskip : skipn ((ka + k) * 16) (a ++ b) = skipn (k * 16) (ra ++ b)).
    { rewrite Hab. rewrite (skipn_app ((ka + k) * 16)), Hfa.
      rewrite (skipn_all2 (firstn (ka * 16) a)) by lia.
      replace ((ka + k) * 16 - ka * 16) with (k * 16) by lia. reflexivity. }
    unfold cbc_dec_update, cbc_state, cbc_out. fold ka. fold ra. cbn [cb_iv cb_buf]. fold k.
    rewrite Hkk, Hfirst, Hskip.
    rewrite cbc_split by lia.
    destruct (blocks ka iv0 (firstn (ka * 16) a)) as [iv1 o1]. cbn [fst snd].
    destruct (blocks k iv1 (firstn (k * 16) (ra ++ b))) as [iv2 o2]. cbn [fst snd].
    split; reflexivity.
  Qed.
End Cbc.

(* ===================== the two HMAC modes over an abstract MAC ===================== *)
Section HmacInst.
  Variable M : Type.
  Variable mac_init : list N -> M.
  Variable mac_update : M -> list N -> M.
  Variable mac_finish : M -> list N.
  Variable E D : list N -> list N.
  Variables (mkey iv aad : list N).

  Notation m0 := (hm_start M mac_init mac_update mkey aad).
  (* the MAC context is a monoid action on the states reachable from its start state *)
  Hypothesis mac_nil : mac_update m0 [] = m0.
  Hypothesis mac_app : forall a b, mac_update (mac_update m0 a) b = mac_update m0 (a ++ b).

  (* ---------------- SM4-CTR + SM3-HMAC ---------------- *)
  Notation ctrh_absorb := (ctrh_absorb M mac_update E).
  Definition ctrh_st0 : ctrh_st M := (mkCtr iv [], m0).
  Definition ctrh_st_of (x : list N) : ctrh_st M := (ctr_state ctr128_incr iv x, mac_update m0 x).

  Lemma ctrh_st0_of : ctrh_st0 = ctrh_st_of [].
  Proof. unfold ctrh_st0, ctrh_st_of. rewrite mac_nil. reflexivity. Qed.

  Lemma ctrh_absorb_of a b :
    ctrh_absorb (ctrh_st_of a) b =
    (ctrh_st_of (a ++ b), snd (ctr_update E ctr128_incr (ctr_state ctr128_incr iv a) b)).
  Proof.
    unfold Aead.ctrh_absorb, ctrh_st_of. cbn [fst snd].
    change (ctr128_update E) with (ctr_update E ctr128_incr).
    destruct (ctr_update_state E ctr128_incr iv a b) as [H1 _].
    rewrite H1. cbn [snd]. rewrite mac_app. reflexivity.
  Qed.
  Lemma ctrh_absorb_from0 x : ctrh_absorb ctrh_st0 x = (ctrh_st_of x, ctr_out E ctr128_incr iv x).
  Proof. rewrite ctrh_st0_of, ctrh_absorb_of. reflexivity. Qed.
  Lemma ctrh_absorb_nil : ctrh_absorb ctrh_st0 [] = (ctrh_st0, []).
  Proof. rewrite ctrh_absorb_from0, <- ctrh_st0_of. reflexivity. Qed.
  Lemma ctrh_absorb_app a b :
    ctrh_absorb ctrh_st0 (a ++ b) =
    let '(s1, o1) := ctrh_absorb ctrh_st0 a in let '(s2, o2) := ctrh_absorb s1 b in (s2, o1 ++ o2).
  Proof.
    rewrite !ctrh_absorb_from0, ctrh_absorb_of. f_equal.
    destruct (ctr_update_state E ctr128_incr iv a b) as [_ H2]. exact H2.
  Qed.

  Lemma hm_run_ok (St : Type) (ab : St -> list N -> St * list N) (st0 : St) chunks :
    exists c out, w_run St ab (fun _ _ => true) maclen (st0, 0%N, []) chunks [] = Ok (c, out).
  Proof.
    apply (run_ok St ab (fun _ _ => true) maclen (N.of_nat (length (concat chunks)))).
    - intros; reflexivity.
    - lia.
  Qed.

  (* accept  <=>  at least 32 bytes seen, and the MAC over AAD || ct equals the last 32 bytes *)
  Theorem ctrh_accept_iff chunks p :
    ctrh_decrypt M mac_init mac_update mac_finish E mkey iv aad chunks = Ok p <->
    let all := concat chunks in
    32 <= length all /\
    let ct := firstn (length all - 32) all in
    let tag := skipn (length all - 32) all in
    mac_finish (mac_update m0 ct) = tag /\ p = ctr128_crypt E iv ct.
  Proof.
    unfold ctrh_decrypt. fold ctrh_st0.
    rewrite (accept_iff_tag_stream _ _ _ _ _ _ ctrh_st0 ctrh_absorb_nil ctrh_absorb_app).
    cbn zeta. rewrite ctrh_absorb_from0. unfold ctrh_st_of. cbn [fst snd]. change maclen with 32.
    split.
    - intros [_ [Hl [t [Ht [Htag ->]]]]]. split; [exact Hl|]. split; [exact Htag|].
      inversion Ht; subst t. unfold ctr32_finish, ctr128_crypt. apply ctr_finish_total.
    - intros [Hl [Htag ->]]. split; [apply hm_run_ok|]. split; [exact Hl|].
      eexists. split; [reflexivity|]. split; [exact Htag|].
      symmetry. unfold ctr32_finish, ctr128_crypt. apply ctr_finish_total.
  Qed.

  (* ---------------- SM4-CBC + SM3-HMAC ---------------- *)
  Notation cbch_absorb := (cbch_absorb M mac_update D).
  Definition cbch_st0 : cbch_st M := (mkCbc iv [], m0).
  Definition cbch_st_of (x : list N) : cbch_st M := (cbc_state D iv x, mac_update m0 x).

  Lemma cbch_st0_of : cbch_st0 = cbch_st_of [].
  Proof. unfold cbch_st0, cbch_st_of. rewrite mac_nil. reflexivity. Qed.
  Lemma cbch_absorb_of a b :
    cbch_absorb (cbch_st_of a) b = (cbch_st_of (a ++ b), snd (cbc_dec_update D (cbc_state D iv a) b)).
  Proof.
    unfold Aead.cbch_absorb, cbch_st_of. cbn [fst snd].
    destruct (cbc_update_state D iv a b) as [H1 _].
    destruct (cbc_dec_update D (cbc_state D iv a) b) as [c' o] eqn:Eu. cbn [fst snd] in *.
    rewrite H1, mac_app. reflexivity.
  Qed.
  Lemma cbch_absorb_from0 x : cbch_absorb cbch_st0 x = (cbch_st_of x, cbc_out D iv x).
  Proof.
    rewrite cbch_st0_of, cbch_absorb_of. cbn [app]. f_equal.
    destruct (cbc_update_state D iv [] x) as [_ H2]. cbn [app] in H2. rewrite H2. reflexivity.
  Qed.
  Lemma cbch_absorb_nil : cbch_absorb cbch_st0 [] = (cbch_st0, []).
  Proof. rewrite cbch_absorb_from0, <- cbch_st0_of. reflexivity. Qed.
  Lemma cbch_absorb_app a b :
    cbch_absorb cbch_st0 (a ++ b) =
    let '(s1, o1) := cbch_absorb cbch_st0 a in let '(s2, o2) := cbch_absorb s1 b in (s2, o1 ++ o2).
  Proof.
    rewrite !cbch_absorb_from0, cbch_absorb_of. f_equal.
    destruct (cbc_update_state D iv a b) as [_ H2]. exact H2.
  Qed.

  (* accept <=> >= 32 bytes seen, MAC over AAD || ct equals the last 32 bytes, and the CBC
     padding of ct is well formed; the plaintext is the CBC decryption of ct *)
  Theorem cbch_accept_iff chunks p :
    cbch_decrypt M mac_init mac_update mac_finish D mkey iv aad chunks = Ok p <->
    let all := concat chunks in
    32 <= length all /\
    let ct := firstn (length all - 32) all in
    let tag := skipn (length all - 32) all in
    mac_finish (mac_update m0 ct) = tag /\
    exists t, cbc_dec_finish D (cbc_state D iv ct) = Ok t /\ p = cbc_out D iv ct ++ t.
  Proof.
    unfold cbch_decrypt. fold cbch_st0.
    rewrite (accept_iff_tag_stream _ _ _ _ _ _ cbch_st0 cbch_absorb_nil cbch_absorb_app).
    cbn zeta. rewrite cbch_absorb_from0. unfold cbch_st_of. cbn [fst snd]. change maclen with 32.
    split.
    - intros [_ [Hl [t [Ht [Htag ->]]]]]. split; [exact Hl|]. split; [exact Htag|]. exists t. auto.
    - intros [Hl [Htag [t [Ht ->]]]]. split; [apply hm_run_ok|]. split; [exact Hl|].
      exists t. auto.
  Qed.
End HmacInst.

(* ===================== SM3-HMAC satisfies the MAC hypotheses ===================== *)
Lemma sm3_update_app c a b :
  (exists m, c = MD.ctx_of (list N) sm3_compress sm3_iv 64 0 m) ->
  sm3_update (sm3_update c a) b = sm3_update c (a ++ b).
Proof.
  intros [m ->]. unfold sm3_update.
  rewrite !(MD.update_ctx_of (list N) sm3_compress sm3_iv 64 8 0%N) by lia.
  rewrite app_assoc. reflexivity.
Qed.

Lemma sm3_hm_start_ctx mkey aad :
  exists m, fst (hm_start _ sm3_hmac_init sm3_hmac_update mkey aad)
            = MD.ctx_of (list N) sm3_compress sm3_iv 64 0 m.
Proof.
  unfold hm_start, sm3_hmac_init, sm3_hmac_update, hmacA_init, hmacA_update.
  assert (Hi : sm3_init = MD.ctx_of (list N) sm3_compress sm3_iv 64 0 [])
    by (apply (MD.init_ctx_of (list N) sm3_compress sm3_iv 64 8 0%N); lia).
  destruct aad as [|x aad]; cbn [fst snd]; unfold sm3_update; rewrite Hi;
    rewrite !(MD.update_ctx_of (list N) sm3_compress sm3_iv 64 8 0%N) by lia; eexists; reflexivity.
Qed.

Lemma sm3_hmac_mac_app mkey aad a b :
  let m0 := hm_start _ sm3_hmac_init sm3_hmac_update mkey aad in
  sm3_hmac_update (sm3_hmac_update m0 a) b = sm3_hmac_update m0 (a ++ b).
Proof.
  cbn zeta. destruct (sm3_hm_start_ctx mkey aad) as [m Hm].
  unfold sm3_hmac_update, hmacA_update. cbn [fst snd]. f_equal.
  apply sm3_update_app. exists m. exact Hm.
Qed.

Lemma sm3_hmac_mac_nil mkey aad :
  let m0 := hm_start _ sm3_hmac_init sm3_hmac_update mkey aad in
  sm3_hmac_update m0 [] = m0.
Proof.
  cbn zeta. destruct (sm3_hm_start_ctx mkey aad) as [m Hm].
  unfold sm3_hmac_update, hmacA_update.
  destruct (hm_start _ sm3_hmac_init _ mkey aad) as [c ik] eqn:E0. cbn [fst snd] in *. f_equal.
  rewrite Hm. unfold sm3_update.
  rewrite (MD.update_ctx_of (list N) sm3_compress sm3_iv 64 8 0%N) by lia.
  rewrite app_nil_r. reflexivity.
Qed.

(* the MAC recomputed by the decryptors is HMAC-SM3 (RFC 2104) over AAD || ct *)
Lemma sm3_hmac_mac_spec mkey aad x :
  sm3_hmac_finish (sm3_hmac_update (hm_start _ sm3_hmac_init sm3_hmac_update mkey aad) x)
  = sm3_hmac_spec mkey (aad ++ x).
Proof.
  unfold hm_start. destruct aad as [|a0 aad].
  - change (sm3_hmac_finish (sm3_hmac_update (sm3_hmac_init mkey) x)) with (sm3_hmac mkey [x]).
    rewrite sm3_hmac_stream. cbn [concat app]. rewrite app_nil_r. reflexivity.
  - change (sm3_hmac_finish (sm3_hmac_update (sm3_hmac_update (sm3_hmac_init mkey) (a0 :: aad)) x))
      with (sm3_hmac mkey [a0 :: aad; x]).
    rewrite sm3_hmac_stream. cbn [concat]. rewrite app_nil_r. reflexivity.
Qed.

(* ---- the concrete decision rules ---- *)
Theorem sm4_ctr_sm3_hmac_accept_iff key iv aad chunks p :
  sm4_ctr_sm3_hmac_decrypt key iv aad chunks = Ok p <->
  let all := concat chunks in
  32 <= length all /\
  let ct := firstn (length all - 32) all in
  sm3_hmac_spec (skipn 16 key) (aad ++ ct) = skipn (length all - 32) all /\
  p = ctr128_crypt (sm4E (firstn 16 key)) iv ct.
Proof.
  unfold sm4_ctr_sm3_hmac_decrypt.
  rewrite (ctrh_accept_iff _ sm3_hmac_init sm3_hmac_update sm3_hmac_finish _ (fun x => x) _ _ _
             (sm3_hmac_mac_nil _ _) (sm3_hmac_mac_app _ _)).
  cbn zeta. rewrite sm3_hmac_mac_spec. reflexivity.
Qed.

Theorem sm4_cbc_sm3_hmac_accept_iff key iv aad chunks p :
  sm4_cbc_sm3_hmac_decrypt key iv aad chunks = Ok p <->
  let all := concat chunks in
  32 <= length all /\
  let ct := firstn (length all - 32) all in
  sm3_hmac_spec (skipn 16 key) (aad ++ ct) = skipn (length all - 32) all /\
  exists t, cbc_dec_finish (sm4D (firstn 16 key)) (cbc_state (sm4D (firstn 16 key)) iv ct) = Ok t /\
            p = cbc_out (sm4D (firstn 16 key)) iv ct ++ t.
Proof.
  unfold sm4_cbc_sm3_hmac_decrypt.
  rewrite (cbch_accept_iff _ sm3_hmac_init sm3_hmac_update sm3_hmac_finish (fun x => x) _ _ _ _
             (sm3_hmac_mac_nil _ _) (sm3_hmac_mac_app _ _)).
  cbn zeta. rewrite sm3_hmac_mac_spec. reflexivity.
Qed.

(* The IV does not enter the MAC: the verdict of the CTR mode does not depend on it at all.
   This is the formal content of the defect reported for C05 (nonce changes are accepted). *)
Theorem sm4_ctr_sm3_hmac_verdict_ignores_iv key iv iv' aad chunks p :
  sm4_ctr_sm3_hmac_decrypt key iv aad chunks = Ok p ->
  exists p', sm4_ctr_sm3_hmac_decrypt key iv' aad chunks = Ok p'.
Proof.
  intros H. apply sm4_ctr_sm3_hmac_accept_iff in H. cbn zeta in H. destruct H as [Hl [Ht _]].
  eexists. apply sm4_ctr_sm3_hmac_accept_iff. cbn zeta. split; [exact Hl|]. split; [exact Ht|reflexivity].
Qed.

(* ---- C05 refuted for the two HMAC modes: a changed IV (nonce) is accepted ---- *)
Definition wk48 : list N := map N.of_nat (seq 1 48).
Definition wiv : list N := map N.of_nat (seq 100 16).
Definition wiv' : list N := (N.lxor 100 1 :: map N.of_nat (seq 101 15))%N.
Definition wmsg17 : list N := map N.of_nat (seq 200 17).

Theorem cbc_hmac_nonce_flip_rejected_refuted :
  exists key iv iv' aad stream p p',
    iv <> iv' /\ length iv = length iv' /\
    sm4_cbc_sm3_hmac_decrypt key iv aad [stream] = Ok p /\
    sm4_cbc_sm3_hmac_decrypt key iv' aad [stream] = Ok p' /\ p <> p'.
Proof.
  exists wk48, wiv, wiv', [1%N; 2%N], (sm4_cbc_sm3_hmac_encrypt wk48 wiv [1%N; 2%N] [wmsg17]).
  eexists; eexists.
  split; [vm_compute; discriminate|]. split; [reflexivity|].
  split; [vm_compute; reflexivity|]. split; [vm_compute; reflexivity|].
  vm_compute. discriminate.
Qed.

Theorem ctr_hmac_nonce_flip_rejected_refuted :
  exists key iv iv' aad stream p p',
    iv <> iv' /\ length iv = length iv' /\
    sm4_ctr_sm3_hmac_decrypt key iv aad [stream] = Ok p /\
    sm4_ctr_sm3_hmac_decrypt key iv' aad [stream] = Ok p' /\ p <> p'.
Proof.
  exists wk48, wiv, wiv', [1%N; 2%N], (sm4_ctr_sm3_hmac_encrypt wk48 wiv [1%N; 2%N] [wmsg17]).
  eexists; eexists.
  split; [vm_compute; discriminate|]. split; [reflexivity|].
  split; [vm_compute; reflexivity|]. split; [vm_compute; reflexivity|].
  vm_compute. discriminate.
Qed.

(* ===================== strict PKCS #7 (sm4_cbc_padding_decrypt since commit 75d04f0) ===================== *)
(* the decision rule of sm4_cbc_decrypt_finish, spelled out *)
Theorem cbc_dec_finish_ok_iff D (c : cbc_ctx) t :
  cbc_dec_finish D c = Ok t <->
  length (cb_buf c) = 16 /\
  let p := xor_bytes (D (cb_buf c)) (cb_iv c) in
  let pad := nth 15 p 0%N in
  (1 <= pad <= 16)%N /\
  (forall b, In b (skipn (16 - N.to_nat pad) p) -> b = pad) /\
  t = firstn (16 - N.to_nat pad) p.
Proof.
  unfold cbc_dec_finish.
  destruct (length (cb_buf c) =? 16) eqn:El; cbn [negb].
  2:{ apply Nat.eqb_neq in El. split; [discriminate|intros [H _]; contradiction]. }
  apply Nat.eqb_eq in El. cbn zeta.
  set (p := xor_bytes (D (cb_buf c)) (cb_iv c)). set (pad := nth 15 p 0%N).
  destruct ((pad <? 1)%N || (16 <? pad)%N) eqn:Er.
  { split; [discriminate|]. intros (_ & Hr & _). apply orb_true_iff in Er.
    destruct Er as [Er|Er]; apply N.ltb_lt in Er; lia. }
  apply orb_false_iff in Er. destruct Er as [E1 E2]. apply N.ltb_ge in E1. apply N.ltb_ge in E2.
  unfold pad_bytes_ok.
  destruct (forallb (fun b => (b =? pad)%N) (skipn (16 - N.to_nat pad) p)) eqn:Ef; cbn [negb].
  - rewrite forallb_forall in Ef. split.
    + intros H; inversion H; subst. split; [exact El|]. split; [lia|]. split; [|reflexivity].
      intros b Hb. apply N.eqb_eq, Ef, Hb.
    + intros (_ & _ & _ & ->). reflexivity.
  - split; [discriminate|]. intros (_ & _ & Hall & _).
    assert (forallb (fun b => (b =? pad)%N) (skipn (16 - N.to_nat pad) p) = true); [|congruence].
    apply forallb_forall. intros b Hb. apply N.eqb_eq, Hall, Hb.
Qed.

(* decrypt . encrypt = id for CBC with strict padding removal, whole-message form *)
Section CbcRoundTrip.
  Variable E D : list N -> list N.
  Hypothesis E_len : forall x, length (E x) = 16.
  Hypothesis E_ok : forall x, bytes_ok (E x) = true.
  Hypothesis DE : forall x, blk_ok x -> D (E x) = x.

  Lemma cbc_dec_enc_blocks : forall k iv m, length m = 16 * k -> blk_ok iv -> bytes_ok m = true ->
    length (snd (cbc_enc_blocks E k iv m)) = 16 * k /\
    snd (cbc_dec_blocks D k iv (snd (cbc_enc_blocks E k iv m))) = m.
  Proof.
    induction k as [|k IH]; intros iv m Hm Hiv Hok.
    - destruct m; [split; reflexivity|cbn in Hm; lia].
    - cbn [cbc_enc_blocks].
      set (x := xor_bytes (firstn 16 m) iv).
      assert (Hx : blk_ok x).
      { destruct Hiv as [Hl Ho]. split.
        - unfold x. rewrite xor_bytes_length, firstn_length. lia.
        - apply CCMProofs.bytes_ok_xor; [apply CCMProofs.bytes_ok_firstn, Hok|exact Ho]. }
      destruct (IH (E x) (skipn 16 m)) as [Hl Hd];
        [rewrite skipn_length; lia|split; [apply E_len|apply E_ok]|apply CCMProofs.bytes_ok_skipn, Hok|].
      destruct (cbc_enc_blocks E k (E x) (skipn 16 m)) as [iv' r] eqn:Er. cbn [snd] in *.
      split; [rewrite app_length, E_len; lia|].
      cbn [cbc_dec_blocks].
      rewrite firstn_app, skipn_app, E_len, Nat.sub_diag, firstn_O, skipn_O, app_nil_r.
      rewrite firstn_all2, skipn_all2 by (rewrite E_len; lia). cbn [app].
      destruct (cbc_dec_blocks D k (E x) r) as [iv'' r'] eqn:Ed. cbn [snd] in *.
      rewrite DE by exact Hx. unfold x.
      rewrite xor_bytes_invol by (destruct Hiv as [Hivl _]; rewrite firstn_length; lia).
      rewrite Hd. apply firstn_skipn.
  Qed.

  Lemma bytes_ok_repeat b n : (b < 256)%N -> bytes_ok (repeat b n) = true.
  Proof.
    intros Hb. unfold bytes_ok. induction n as [|n IH]; [reflexivity|]. cbn [repeat forallb].
    rewrite IH. apply N.ltb_lt in Hb. rewrite Hb. reflexivity.
  Qed.

  Lemma nth_repeat_in (a d : N) : forall n i, i < n -> nth i (repeat a n) d = a.
  Proof. induction n as [|n IH]; intros i Hi; [lia|]. destruct i; [reflexivity|]. cbn [repeat nth]. apply IH. lia. Qed.

  Theorem cbc_pad_dec_enc iv p : blk_ok iv -> bytes_ok p = true ->
    cbc_pad_decrypt D true iv (cbc_pad_encrypt E iv p) = Ok p.
  Proof.
    intros Hiv Hop. unfold cbc_pad_encrypt.
    set (padn := 16 - length p mod 16). set (k := length p / 16 + 1).
    set (m := p ++ repeat (N.of_nat padn) padn).
    assert (Hr : length p mod 16 < 16) by (apply Nat.mod_upper_bound; lia).
    assert (Hdm : length p = 16 * (length p / 16) + length p mod 16) by (apply Nat.div_mod; lia).
    assert (Hpn : 1 <= padn <= 16) by (unfold padn; lia).
    assert (Hm : length m = 16 * k) by (unfold m, k; rewrite app_length, repeat_length; unfold padn; lia).
    assert (Hom : bytes_ok m = true).
    { unfold m. rewrite CCMProofs.bytes_ok_app, Hop, bytes_ok_repeat by lia. reflexivity. }
    destruct (cbc_dec_enc_blocks k iv m Hm Hiv Hom) as [Hl Hd].
    set (c := snd (cbc_enc_blocks E k iv m)) in *.
    unfold cbc_pad_decrypt. rewrite Hl.
    replace (16 * k =? 0) with false by (symmetry; apply Nat.eqb_neq; unfold k; lia).
    replace ((16 * k) mod 16 =? 0) with true by (symmetry; apply Nat.eqb_eq; rewrite Nat.mul_comm; apply Nat.mod_mul; lia).
    cbn [orb negb]. replace (16 * k / 16) with k by (rewrite Nat.mul_comm, Nat.div_mul; lia).
    rewrite Hd.
    assert (Hlast : nth (16 * k - 1) m 0%N = N.of_nat padn).
    { unfold m. rewrite app_nth2 by lia. apply nth_repeat_in. unfold k, padn in *. lia. }
    rewrite Hlast.
    replace ((N.of_nat padn <? 1)%N || (16 <? N.of_nat padn)%N) with false
      by (symmetry; apply orb_false_iff; split; apply N.ltb_ge; lia).
    rewrite Nat2N.id.
    assert (Hsk : skipn (16 - padn) (skipn (16 * k - 16) m) = repeat (N.of_nat padn) padn).
    { rewrite skipn_skipn_nat. replace (16 * k - 16 + (16 - padn)) with (length p) by (unfold k, padn in *; lia).
      unfold m. rewrite skipn_app, Nat.sub_diag, skipn_all. reflexivity. }
    unfold pad_bytes_ok. rewrite Nat2N.id, Hsk.
    replace (forallb (fun b => (b =? N.of_nat padn)%N) (repeat (N.of_nat padn) padn)) with true.
    2:{ symmetry. apply forallb_forall. intros b Hb. apply repeat_spec in Hb. subst. apply N.eqb_refl. }
    cbn [andb negb]. f_equal.
    replace (16 * k - padn) with (length p) by (unfold k, padn in *; lia).
    unfold m. rewrite firstn_app, Nat.sub_diag, firstn_all, firstn_O, app_nil_r. reflexivity.
  Qed.
End CbcRoundTrip.

(* ---- SM4-CBC+SM3-HMAC, whole-message form: decryption accepts what encryption produced ---- *)
From GmVerif Require Import Cipher.SM4Proofs.
Local Strategy 1000 [sm4_encrypt_block sm4_decrypt_block sm4_crypt_block].

Lemma sm3_hmac_spec_length k m : length (sm3_hmac_spec k m) = 32.
Proof. unfold sm3_hmac_spec, hmac_spec. apply sm3_len. Qed.

Theorem sm4_cbc_hmac_spec_dec_accepts_enc key iv aad p :
  length key = 48 -> blk_ok iv -> bytes_ok p = true ->
  cbc_hmac_spec_decrypt key iv aad (cbc_hmac_spec_encrypt key iv aad p) = Ok p.
Proof.
  intros Hk Hiv Hp. unfold cbc_hmac_spec_decrypt, cbc_hmac_spec_encrypt.
  set (k1 := firstn 16 key). set (c := cbc_pad_encrypt (sm4E k1) iv p).
  set (mac := sm3_hmac_spec (skipn 16 key) (aad ++ c)).
  assert (Hmac : length mac = 32) by apply sm3_hmac_spec_length.
  assert (Hk1 : length k1 = 16) by (unfold k1; rewrite firstn_length; lia).
  rewrite app_length, Hmac.
  replace (length c + 32 <? 32) with false by (symmetry; apply Nat.ltb_ge; lia).
  replace (length c + 32 - 32) with (length c) by lia.
  rewrite firstn_app, skipn_app, Nat.sub_diag, firstn_all, skipn_all, firstn_O, skipn_O, app_nil_r.
  cbn [app]. unfold c.
  rewrite (cbc_pad_dec_enc (sm4E k1) (sm4D k1)); try assumption.
  - fold c. fold mac. replace (bytes_eqb mac mac) with true by (symmetry; apply bytes_eqb_eq; reflexivity). reflexivity.
  - intros x. apply sm4_encrypt_block_length.
  - intros x. apply sm4_encrypt_block_ok.
  - intros x [Hl Ho]. unfold sm4D, sm4E. apply sm4_dec_enc; assumption.
Qed.

(* ===================== encrypt side of the HMAC modes: streaming = whole-message form ===================== *)
Section CbcEnc.
  Variable E : list N -> list N.
  Notation blocks := (cbc_enc_blocks E).

  Lemma cbc_enc_split : forall k1 k2 iv x y, length x = 16 * k1 ->
    blocks (k1 + k2) iv (x ++ y) =
    let '(iv1, o1) := blocks k1 iv x in let '(iv2, o2) := blocks k2 iv1 y in (iv2, o1 ++ o2).
  Proof.
    induction k1 as [|k1 IH]; intros k2 iv x y Hx.
    - destruct x; [|cbn in Hx; lia]. cbn [Nat.add cbc_enc_blocks app].
      destruct (blocks k2 iv y). reflexivity.
    - cbn [Nat.add cbc_enc_blocks].
      rewrite firstn_app, skipn_app. replace (16 - length x) with 0 by lia.
      rewrite firstn_O, skipn_O, app_nil_r.
      rewrite IH by (rewrite skipn_length; lia).
      destruct (blocks k1 (E (xor_bytes (firstn 16 x) iv)) (skipn 16 x)) as [iv1 o1].
      destruct (blocks k2 iv1 y) as [iv2 o2]. rewrite app_assoc. reflexivity.
  Qed.

  Definition cenc_state (iv0 x : list N) : cbc_ctx :=
    mkCbc (fst (blocks (length x / 16) iv0 (firstn (length x / 16 * 16) x))) (skipn (length x / 16 * 16) x).
  Definition cenc_out (iv0 x : list N) : list N :=
    snd (blocks (length x / 16) iv0 (firstn (length x / 16 * 16) x)).

  Lemma cenc_update_state iv0 a b :
    fst (cbc_enc_update E (cenc_state iv0 a) b) = cenc_state iv0 (a ++ b) /\
    cenc_out iv0 (a ++ b) = cenc_out iv0 a ++ snd (cbc_enc_update E (cenc_state iv0 a) b).
  Proof.
    set (ka := length a / 16). set (ra := skipn (ka * 16) a).
    assert (Hdm : length a = ka * 16 + length a mod 16)
      by (pose proof (Nat.div_mod (length a) 16 ltac:(lia)); subst ka; lia).
    assert (Hr : length a mod 16 < 16) by (apply Nat.mod_upper_bound; lia).
    assert (Hra : length ra = length a mod 16) by (unfold ra; rewrite skipn_length; lia).
    set (k := length (ra ++ b) / 16).
    assert (Hkk : length (a ++ b) / 16 = ka + k).
    { unfold k. rewrite !app_length, Hra. rewrite Hdm at 1.
      rewrite <- Nat.add_assoc, Nat.div_add_l by lia. reflexivity. }
    assert (Hab : a ++ b = firstn (ka * 16) a ++ (ra ++ b)) by (unfold ra; rewrite app_assoc, firstn_skipn; reflexivity).
    assert (Hfa : length (firstn (ka * 16) a) = ka * 16) by (apply firstn_length_le; lia).
    assert (Hfirst : firstn ((ka + k) * 16) (a ++ b) = firstn (ka * 16) a ++ firstn (k * 16) (ra ++ b)).
    { rewrite Hab. rewrite (firstn_app ((ka + k) * 16)), Hfa.
      rewrite (firstn_all2 (firstn (ka * 16) a)) by lia.
      replace ((ka + k) * 16 - ka * 16) with (k * 16) by lia. reflexivity. }
    assert (Hskip : skipn ((ka + k) * 16) (a ++ b) = skipn (k * 16) (ra ++ b)).
    { rewrite Hab. rewrite (skipn_app ((ka + k) * 16)), Hfa.
      rewrite (skipn_all2 (firstn (ka * 16) a)) by lia.
      replace ((ka + k) * 16 - ka * 16) with (k * 16) by lia. reflexivity. }
    unfold cbc_enc_update, cenc_state, cenc_out. fold ka. fold ra. cbn [cb_iv cb_buf]. fold k.
    rewrite Hkk, Hfirst, Hskip. rewrite cbc_enc_split by lia.
    destruct (blocks ka iv0 (firstn (ka * 16) a)) as [iv1 o1]. cbn [fst snd].
    destruct (blocks k iv1 (firstn (k * 16) (ra ++ b))) as [iv2 o2]. cbn [fst snd].
    split; reflexivity.
  Qed.

  Lemma cenc_finish_total iv0 x :
    cenc_out iv0 x ++ cbc_enc_finish E (cenc_state iv0 x) = cbc_pad_encrypt E iv0 x.
  Proof.
    unfold cbc_enc_finish, cenc_state, cenc_out, cbc_pad_encrypt. cbn [cb_iv cb_buf].
    set (k := length x / 16). set (r := skipn (k * 16) x).
    assert (Hdm : length x = k * 16 + length x mod 16)
      by (pose proof (Nat.div_mod (length x) 16 ltac:(lia)); subst k; lia).
    assert (Hr : length x mod 16 < 16) by (apply Nat.mod_upper_bound; lia).
    assert (Hrl : length r = length x mod 16) by (unfold r; rewrite skipn_length; lia).
    rewrite Hrl.
    set (pad := repeat (N.of_nat (16 - length x mod 16)) (16 - length x mod 16)).
    assert (Hx : x ++ pad = firstn (k * 16) x ++ (r ++ pad)) by (unfold r; rewrite app_assoc, firstn_skipn; reflexivity).
    rewrite Hx, cbc_enc_split by (rewrite firstn_length_le; lia).
    destruct (blocks k iv0 (firstn (k * 16) x)) as [iv1 o1]. cbn [fst snd].
    destruct (blocks 1 iv1 (r ++ pad)) as [iv2 o2]. reflexivity.
  Qed.
End CbcEnc.

Section HmEnc.
  Variable M : Type.
  Variable mac_init : list N -> M.
  Variable mac_update : M -> list N -> M.
  Variable mac_finish : M -> list N.
  Variable E : list N -> list N.
  Variables (mkey iv aad : list N).
  Notation m0 := (hm_start M mac_init mac_update mkey aad).
  Hypothesis mac_nil : mac_update m0 [] = m0.
  Hypothesis mac_app : forall a b, mac_update (mac_update m0 a) b = mac_update m0 (a ++ b).

  Lemma cbch_enc_run_of chunks : forall x,
    cbch_enc_run M mac_update E (cenc_state E iv x) (mac_update m0 (cenc_out E iv x)) chunks (cenc_out E iv x)
    = (cenc_state E iv (x ++ concat chunks), mac_update m0 (cenc_out E iv (x ++ concat chunks)),
       cenc_out E iv (x ++ concat chunks)).
  Proof.
    induction chunks as [|d r IH]; intros x; cbn [cbch_enc_run concat]; [rewrite app_nil_r; reflexivity|].
    destruct (cenc_update_state E iv x d) as [H1 H2].
    destruct (cbc_enc_update E (cenc_state E iv x) d) as [c' o]. cbn [fst snd] in *.
    rewrite H1, mac_app, <- H2, app_assoc. apply IH.
  Qed.

  Theorem cbch_encrypt_stream chunks :
    cbch_encrypt M mac_init mac_update mac_finish E mkey iv aad chunks =
    let c := cbc_pad_encrypt E iv (concat chunks) in c ++ mac_finish (mac_update m0 c).
  Proof.
    unfold cbch_encrypt.
    assert (H0 : cbch_enc_run M mac_update E (mkCbc iv []) m0 chunks [] =
                 cbch_enc_run M mac_update E (cenc_state E iv []) (mac_update m0 (cenc_out E iv [])) chunks (cenc_out E iv []))
      by (unfold cenc_state, cenc_out; cbn; rewrite mac_nil; reflexivity).
    rewrite H0, cbch_enc_run_of. cbn [app]. cbn zeta.
    rewrite mac_app, app_assoc, cenc_finish_total. reflexivity.
  Qed.

  (* CTR flavour *)
  Lemma ctrh_enc_run_of chunks : forall x,
    ctrh_enc_run M mac_update E (ctr_state ctr128_incr iv x) (mac_update m0 (ctr_out E ctr128_incr iv x)) chunks
                 (ctr_out E ctr128_incr iv x)
    = (ctr_state ctr128_incr iv (x ++ concat chunks), mac_update m0 (ctr_out E ctr128_incr iv (x ++ concat chunks)),
       ctr_out E ctr128_incr iv (x ++ concat chunks)).
  Proof.
    induction chunks as [|d r IH]; intros x; cbn [ctrh_enc_run concat]; [rewrite app_nil_r; reflexivity|].
    change (ctr128_update E) with (ctr_update E ctr128_incr).
    destruct (ctr_update_state E ctr128_incr iv x d) as [H1 H2].
    rewrite H1 in *. cbn [snd] in H2.
    rewrite mac_app, <- H2, app_assoc. apply IH.
  Qed.

  Theorem ctrh_encrypt_stream chunks :
    ctrh_encrypt M mac_init mac_update mac_finish E mkey iv aad chunks =
    let c := ctr128_crypt E iv (concat chunks) in c ++ mac_finish (mac_update m0 c).
  Proof.
    unfold ctrh_encrypt.
    assert (H0 : ctrh_enc_run M mac_update E (mkCtr iv []) m0 chunks [] =
                 ctrh_enc_run M mac_update E (ctr_state ctr128_incr iv []) (mac_update m0 (ctr_out E ctr128_incr iv []))
                              chunks (ctr_out E ctr128_incr iv []))
      by (unfold ctr_state, ctr_out; cbn; rewrite mac_nil; reflexivity).
    rewrite H0, ctrh_enc_run_of. cbn [app]. cbn zeta.
    rewrite mac_app, app_assoc.
    pose proof (ctr_finish_total E ctr128_incr iv (concat chunks)) as HF.
    unfold ctr32_finish, ctr128_crypt. rewrite HF. reflexivity.
  Qed.
End HmEnc.

(* streaming encryption of the two HMAC modes = the whole-message form, every chunking *)
Theorem sm4_cbc_sm3_hmac_encrypt_stream key iv aad chunks :
  sm4_cbc_sm3_hmac_encrypt key iv aad chunks = cbc_hmac_spec_encrypt key iv aad (concat chunks).
Proof.
  unfold sm4_cbc_sm3_hmac_encrypt, cbc_hmac_spec_encrypt.
  rewrite (cbch_encrypt_stream _ sm3_hmac_init sm3_hmac_update sm3_hmac_finish _ _ _ _
             (sm3_hmac_mac_nil _ _) (sm3_hmac_mac_app _ _)).
  cbn zeta. rewrite sm3_hmac_mac_spec. reflexivity.
Qed.
Theorem sm4_ctr_sm3_hmac_encrypt_stream key iv aad chunks :
  sm4_ctr_sm3_hmac_encrypt key iv aad chunks = ctr_hmac_spec_encrypt key iv aad (concat chunks).
Proof.
  unfold sm4_ctr_sm3_hmac_encrypt, ctr_hmac_spec_encrypt.
  rewrite (ctrh_encrypt_stream _ sm3_hmac_init sm3_hmac_update sm3_hmac_finish _ _ _ _
             (sm3_hmac_mac_nil _ _) (sm3_hmac_mac_app _ _)).
  cbn zeta. rewrite sm3_hmac_mac_spec. reflexivity.
Qed.

(* CTR-HMAC: streaming encryption under one chunking, streaming decryption under any other *)
Theorem sm4_ctr_hmac_stream_dec_accepts_enc key iv aad chunks1 chunks2 :
  concat chunks2 = sm4_ctr_sm3_hmac_encrypt key iv aad chunks1 ->
  sm4_ctr_sm3_hmac_decrypt key iv aad chunks2 = Ok (concat chunks1).
Proof.
  intros Hs. rewrite sm4_ctr_sm3_hmac_encrypt_stream in Hs. unfold ctr_hmac_spec_encrypt in Hs.
  set (p := concat chunks1) in *. set (E := sm4E (firstn 16 key)) in *.
  set (c := ctr128_crypt E iv p) in *. set (mac := sm3_hmac_spec (skipn 16 key) (aad ++ c)) in *.
  assert (HL : forall x, length (E x) = 16) by (intros x; apply sm4_encrypt_block_length).
  assert (Hmac : length mac = 32) by apply sm3_hmac_spec_length.
  assert (Hc : length c = length p) by (unfold c, ctr128_crypt; apply (ctr_crypt_length E HL [] 0); lia).
  apply sm4_ctr_sm3_hmac_accept_iff. cbn zeta. rewrite Hs, app_length, Hmac.
  replace (length c + 32 - 32) with (length c) by lia.
  rewrite firstn_app, skipn_app, Nat.sub_diag, firstn_all, skipn_all, firstn_O, skipn_O, app_nil_r.
  split; [lia|]. split; [reflexivity|].
  fold E. unfold c, ctr128_crypt. rewrite (ctr_crypt_length E HL [] 0) by lia.
  symmetry. apply (ctr_crypt_invol E HL [] 0). lia.
Qed.

(* CBC: the streaming decryptor (update over the whole ciphertext, then finish) = the whole-message form *)
Section CbcDecWhole.
  Variable D : list N -> list N.
  Hypothesis D_len : forall x, length (D x) = 16.
  Notation blocks := (cbc_dec_blocks D).

  Lemma cbc_dec_blocks_length : forall k iv x, length x = 16 * k -> length iv = 16 ->
    length (snd (blocks k iv x)) = 16 * k.
  Proof.
    induction k as [|k IH]; intros iv x Hx Hiv; [reflexivity|].
    cbn [cbc_dec_blocks].
    destruct (blocks k (firstn 16 x) (skipn 16 x)) as [iv' r] eqn:Er.
    cbn [snd]. rewrite app_length, xor_bytes_length, D_len, Hiv.
    pose proof (IH (firstn 16 x) (skipn 16 x)) as H. rewrite Er in H. cbn [snd] in H.
    rewrite H; [lia|rewrite skipn_length; lia|rewrite firstn_length; lia].
  Qed.

  Lemma cbc_dec_blocks_iv_length : forall k iv x, length x = 16 * k -> length iv = 16 ->
    length (fst (blocks k iv x)) = 16.
  Proof.
    induction k as [|k IH]; intros iv x Hx Hiv; [exact Hiv|].
    cbn [cbc_dec_blocks].
    pose proof (IH (firstn 16 x) (skipn 16 x)) as H.
    destruct (blocks k (firstn 16 x) (skipn 16 x)) as [iv' r]. cbn [fst] in *.
    apply H; [rewrite skipn_length; lia|rewrite firstn_length; lia].
  Qed.

  Lemma cbc_stream_dec_whole iv ct : length iv = 16 -> length ct mod 16 = 0 -> 16 <= length ct ->
    match cbc_dec_finish D (cbc_state D iv ct) with
    | Ok t => Ok (cbc_out D iv ct ++ t)
    | _ => Err
    end = cbc_pad_decrypt D true iv ct.
  Proof.
    intros Hiv Hm Hge.
    set (k := cbc_k ct).
    assert (Hlen : length ct = 16 * (k + 1)).
    { unfold k, cbc_k. pose proof (Nat.div_mod (length ct) 16 ltac:(lia)).
      pose proof (Nat.div_mod (length ct - 1) 16 ltac:(lia)).
      pose proof (Nat.mod_upper_bound (length ct - 1) 16 ltac:(lia)). lia. }
    unfold cbc_dec_finish, cbc_state, cbc_out, cbc_pad_decrypt. fold k. cbn [cb_buf cb_iv].
    set (pre := firstn (k * 16) ct). set (buf := skipn (k * 16) ct).
    assert (Hpre : length pre = 16 * k) by (unfold pre; rewrite firstn_length; lia).
    assert (Hbuf : length buf = 16) by (unfold buf; rewrite skipn_length; lia).
    rewrite Hbuf. cbn [Nat.eqb negb].
    replace (length ct =? 0) with false by (symmetry; apply Nat.eqb_neq; lia).
    rewrite Hm. cbn [Nat.eqb negb orb].
    replace (length ct / 16) with (k + 1) by (rewrite Hlen, Nat.mul_comm, Nat.div_mul; lia).
    assert (Hct : ct = pre ++ buf) by (unfold pre, buf; rewrite firstn_skipn; reflexivity).
    assert (Hsp : blocks (k + 1) iv ct =
                  let '(iv1, o1) := blocks k iv pre in let '(iv2, o2) := blocks 1 iv1 buf in (iv2, o1 ++ o2))
      by (rewrite Hct at 1; apply cbc_split; exact Hpre).
    rewrite Hsp. clear Hsp.
    pose proof (cbc_dec_blocks_length k iv pre Hpre Hiv) as Hol.
    destruct (blocks k iv pre) as [iv' o] eqn:Eb. cbn [fst snd] in *.
    cbn [cbc_dec_blocks]. rewrite (firstn_all2 buf) by lia. rewrite app_nil_r.
    set (pl := xor_bytes (D buf) iv').
    assert (Hiv' : length iv' = 16).
    { pose proof (cbc_dec_blocks_iv_length k iv pre Hpre Hiv) as H. rewrite Eb in H. exact H. }
    assert (Hpl : length pl = 16) by (unfold pl; rewrite xor_bytes_length, D_len; lia).
    assert (Hnth : nth (length ct - 1) (o ++ pl) 0%N = nth 15 pl 0%N).
    { rewrite app_nth2 by lia. f_equal. lia. }
    cbn [snd]. rewrite Hnth.
    destruct ((nth 15 pl 0 <? 1)%N || (16 <? nth 15 pl 0)%N) eqn:Er; [reflexivity|].
    apply orb_false_iff in Er. destruct Er as [E1 E2]. apply N.ltb_ge in E1. apply N.ltb_ge in E2.
    assert (Hsk : skipn (length ct - 16) (o ++ pl) = pl).
    { rewrite skipn_app. replace (length ct - 16) with (length o) by lia.
      rewrite skipn_all, Nat.sub_diag, skipn_O. reflexivity. }
    rewrite Hsk. cbn [andb].
    destruct (pad_bytes_ok pl (nth 15 pl 0%N)); cbn [negb]; [|reflexivity].
    f_equal. rewrite firstn_app. rewrite (firstn_all2 o) by lia. f_equal. f_equal. lia.
  Qed.
End CbcDecWhole.

Theorem sm4_cbc_hmac_stream_dec_accepts_enc key iv aad chunks1 chunks2 :
  length key = 48 -> blk_ok iv -> bytes_ok (concat chunks1) = true ->
  concat chunks2 = sm4_cbc_sm3_hmac_encrypt key iv aad chunks1 ->
  sm4_cbc_sm3_hmac_decrypt key iv aad chunks2 = Ok (concat chunks1).
Proof.
  intros Hk Hiv Hp Hs. rewrite sm4_cbc_sm3_hmac_encrypt_stream in Hs.
  pose proof (sm4_cbc_hmac_spec_dec_accepts_enc key iv aad (concat chunks1) Hk Hiv Hp) as Hrt.
  rewrite <- Hs in Hrt. unfold cbc_hmac_spec_decrypt in Hrt.
  set (all := concat chunks2) in *.
  destruct (length all <? 32) eqn:E32; [discriminate|]. apply Nat.ltb_ge in E32.
  set (ct := firstn (length all - 32) all) in *.
  destruct (cbc_pad_decrypt (sm4D (firstn 16 key)) true iv ct) as [p| |] eqn:Epd; try discriminate.
  destruct (bytes_eqb _ _) eqn:Eb; [|discriminate]. apply bytes_eqb_eq in Eb.
  inversion Hrt; subst p; clear Hrt.
  apply sm4_cbc_sm3_hmac_accept_iff. cbn zeta. fold all. fold ct.
  split; [exact E32|]. split; [exact Eb|].
  assert (Hct : length ct mod 16 = 0 /\ 16 <= length ct).
  { unfold cbc_pad_decrypt in Epd.
    destruct ((length ct =? 0) || negb (length ct mod 16 =? 0)) eqn:Ec; [discriminate|].
    apply orb_false_iff in Ec. destruct Ec as [Ec1 Ec2]. apply Nat.eqb_neq in Ec1.
    apply negb_false_iff, Nat.eqb_eq in Ec2. split; [exact Ec2|].
    pose proof (Nat.div_mod (length ct) 16 ltac:(lia)). lia. }
  destruct Hct as [Hm Hge].
  pose proof (cbc_stream_dec_whole (sm4D (firstn 16 key)) (fun x => sm4_decrypt_block_length _ x) iv ct
                (proj1 Hiv) Hm Hge) as Hw.
  rewrite Epd in Hw.
  destruct (cbc_dec_finish (sm4D (firstn 16 key)) (cbc_state (sm4D (firstn 16 key)) iv ct)) as [t| |]; try discriminate.
  exists t. split; [reflexivity|]. inversion Hw. reflexivity.
Qed.

(* ===================== AES instances (aes_modes.c): premises discharged by aes_dec_enc ===================== *)
Section AesInst.
  Variable key : list N.
  Hypothesis Hk : length key = 16 \/ length key = 24 \/ length key = 32.

  Theorem aes_gcm_dec_accepts_enc iv aad taglen p c t :
    aes_gcm_encrypt key iv aad p taglen = Ok (c, t) -> aes_gcm_decrypt key iv aad c t = Ok p.
  Proof. unfold aes_gcm_encrypt, aes_gcm_decrypt, aesE. apply gcm_dec_accepts_enc. intros x. apply aesE_len, Hk. Qed.

  Theorem aes_gcm_nonce_change_rejected iv iv' aad c tag p :
    length tag = 16 -> length iv = 12 -> length iv' = 12 -> iv <> iv' ->
    bytes_ok iv = true -> bytes_ok iv' = true ->
    aes_gcm_decrypt key iv aad c tag = Ok p ->
    forall p', aes_gcm_decrypt key iv' aad c tag <> Ok p'.
  Proof.
    intros Ht Hi Hi' Hne Ho Ho' Hok. unfold aes_gcm_decrypt, aesE in *.
    apply (gcm_nonce_change_rejected_partial (aes_encrypt_block16 key) (fun x => aesE_len key Hk x)
             false iv iv' aad c tag p (fun x x' => aesE_inj key Hk x x') Ht Hi Hi' Hne Ho Ho' Hok).
  Qed.

  (* aes_cbc_padding_decrypt (lax rule: only the last byte is inspected) inverts aes_cbc_padding_encrypt *)
  Lemma cbc_pad_strict_lax D iv c p : cbc_pad_decrypt D true iv c = Ok p -> cbc_pad_decrypt D false iv c = Ok p.
  Proof.
    unfold cbc_pad_decrypt. destruct (_ || _); [discriminate|]. destruct (_ || _); [discriminate|].
    cbn [andb]. destruct (negb _); [discriminate|]. auto.
  Qed.
  Theorem aes_cbc_pad_dec_enc iv p : blk_ok iv -> bytes_ok p = true ->
    cbc_pad_decrypt (aes_decrypt_block key) false iv (cbc_pad_encrypt (aes_encrypt_block16 key) iv p) = Ok p.
  Proof.
    intros Hiv Hp. apply cbc_pad_strict_lax.
    apply (cbc_pad_dec_enc (aes_encrypt_block16 key) (aes_decrypt_block key)); try assumption.
    - intros x. apply aesE_len, Hk.
    - intros x. apply aesE_ok, Hk.
    - intros x Hx. apply wf_blk_ok in Hx. unfold aes_encrypt_block16. rewrite norm16_id by exact Hx.
      destruct Hx as [Hl Hb]. apply aes_dec_enc; assumption.
  Qed.

  (* aes_ctr_encrypt is an involution (decryption = the same call) *)
  Theorem aes_ctr_invol ctr d :
    ctr128_crypt (aes_encrypt_block16 key) ctr (ctr128_crypt (aes_encrypt_block16 key) ctr d) = d.
  Proof.
    unfold ctr128_crypt.
    rewrite (ctr_crypt_length (aes_encrypt_block16 key) (fun x => aesE_len key Hk x) [] 0) by lia.
    apply (ctr_crypt_invol (aes_encrypt_block16 key) (fun x => aesE_len key Hk x) [] 0). lia.
  Qed.
End AesInst.

(* ===================== GCM as coded = SP 800-38D section 7 (inc32 / GCTR / GHASH) ===================== *)
Lemma w8_shiftr x k : w8 (N.shiftr x k) = ((x / 2 ^ k) mod 256)%N.
Proof. unfold w8. change 255%N with (N.ones 8). rewrite N.land_ones, N.shiftr_div_pow2. reflexivity. Qed.
Lemma be32_N_to_be x : be32 x = N_to_be 4 x.
Proof.
  unfold be32. cbn [N_to_be app]. rewrite !w8_shiftr.
  replace (w8 x) with (x mod 256)%N by (unfold w8; change 255%N with (N.ones 8); rewrite N.land_ones; reflexivity).
  rewrite !N.div_div by discriminate.
  change (2 ^ 24)%N with 16777216%N. change (2 ^ 16)%N with 65536%N. change (2 ^ 8)%N with 256%N.
  change (256 * 256 * 256)%N with 16777216%N. change (256 * 256)%N with 65536%N. reflexivity.
Qed.

Lemma N_to_be_mod : forall k x, N_to_be k (x mod 256 ^ N.of_nat k)%N = N_to_be k x.
Proof.
  induction k as [|k IH]; intros x; [reflexivity|]. cbn [N_to_be].
  replace (256 ^ N.of_nat (S k))%N with (256 * 256 ^ N.of_nat k)%N
    by (rewrite Nat2N.inj_succ, N.pow_succ_r'; reflexivity).
  assert (Hp : (256 ^ N.of_nat k <> 0)%N) by (apply N.pow_nonzero; discriminate).
  rewrite N.mod_mul_r by (first [discriminate | exact Hp]).
  set (q := ((x / 256) mod 256 ^ N.of_nat k)%N).
  replace ((x mod 256 + 256 * q) / 256)%N with q.
  2:{ rewrite N.mul_comm, N.div_add by discriminate. rewrite N.div_small by (apply N.mod_lt; discriminate). reflexivity. }
  replace ((x mod 256 + 256 * q) mod 256)%N with (x mod 256)%N.
  2:{ rewrite N.mul_comm, N.mod_add by discriminate. rewrite N.mod_mod by discriminate. reflexivity. }
  unfold q. rewrite IH. reflexivity.
Qed.

Lemma bytes_ok_be32 x : bytes_ok (be32 x) = true.
Proof. rewrite be32_N_to_be. apply bytes_ok_N_to_be. Qed.

Lemma ctr32_incr_eq_inc32 c : blk_ok c -> ctr32_incr c = inc32 c /\ blk_ok (inc32 c).
Proof.
  intros [Hl Ho].
  assert (Hc : c = firstn 12 c ++ skipn 12 c) by (symmetry; apply firstn_skipn).
  assert (Hs : length (skipn 12 c) = 4) by (rewrite skipn_length; lia).
  pose proof (bytes_ok_skipn 12 c Ho) as Hos.
  destruct (skipn 12 c) as [|a [|b [|c0 [|d [|? ?]]]]] eqn:Esk; try discriminate Hs.
  cbn in Hos. repeat (apply andb_prop in Hos; destruct Hos as [? Hos]).
  repeat match goal with H : (_ <? 256)%N = true |- _ => apply N.ltb_lt in H end.
  assert (Hw : [a; b; c0; d] = N_to_be 4 (get_be32 [a; b; c0; d])).
  { rewrite <- be32_N_to_be. symmetry. apply be32_get_be32; assumption. }
  unfold inc32. rewrite Esk. split.
  - unfold ctr32_incr. rewrite Hc at 1. rewrite Hw at 1. rewrite ctr_n_incr_be.
    rewrite be32_N_to_be. f_equal.
    (* N_to_be truncates: the mod 2^32 is immaterial *)
    symmetry. apply (N_to_be_mod 4).
  - split.
    + rewrite app_length, firstn_length. cbn [length be32]. lia.
    + rewrite bytes_ok_app, bytes_ok_firstn, bytes_ok_be32 by exact Ho. reflexivity.
Qed.

Section GcmSpec.
  Variable E : list N -> list N.
  Hypothesis E_len : forall x, length (E x) = 16.

  Lemma ctr_crypt_gctr : forall f cb d, blk_ok cb -> ctr_crypt E ctr32_incr f cb d = gctr E f cb d.
  Proof.
    induction f as [|f IH]; intros cb d Hcb; [reflexivity|]. cbn [ctr_crypt gctr].
    destruct d; [reflexivity|]. destruct (ctr32_incr_eq_inc32 cb Hcb) as [Hi Hb]. rewrite Hi. f_equal. apply IH, Hb.
  Qed.

  Lemma gctr_nil f cb : gctr E f cb [] = [].
  Proof. destruct f; reflexivity. Qed.
  Lemma gctr_one_block cb s : length s = 16 -> gctr E 16 cb s = xor_bytes s (E cb).
  Proof.
    intros Hs. destruct s as [|x l]; [discriminate|].
    change (gctr E 16 cb (x :: l)) with
      (xor_bytes (firstn 16 (x :: l)) (E cb) ++ gctr E 15 (inc32 cb) (skipn 16 (x :: l))).
    rewrite firstn_all2, skipn_all2 by lia. rewrite gctr_nil, app_nil_r. reflexivity.
  Qed.

  Lemma j0_blk_ok iv : bytes_ok iv = true -> blk_ok (gcm_j0 E iv).
  Proof.
    intros Hiv. unfold gcm_j0. destruct (length iv =? 12) eqn:El.
    - apply Nat.eqb_eq in El. split; [rewrite app_length, El; reflexivity|].
      rewrite bytes_ok_app, Hiv. reflexivity.
    - split; [apply ghash_length|]. unfold ghash, gf_to_bytes.
      rewrite bytes_ok_app. unfold be64. rewrite !bytes_ok_app, !bytes_ok_be32. reflexivity.
  Qed.

  (* ---- gcm_eq_sp800_38d: the code (byte-carry counter, GHASH loops) = SP 800-38D section 7 ---- *)
  Theorem gcm_eq_sp800_38d chk iv aad p t r : bytes_ok iv = true ->
    gcm_encrypt E chk iv aad p t = Ok r -> r = gcm_spec_encrypt E iv aad p t.
  Proof.
    intros Hiv. unfold gcm_encrypt. destruct (chk && _); [discriminate|]. destruct (16 <? t) eqn:Ht; [discriminate|].
    intros H; inversion H; subst r; clear H. apply Nat.ltb_ge in Ht.
    unfold gcm_spec_encrypt.
    assert (Hj : j0_spec E iv = gcm_j0 E iv).
    { unfold j0_spec, gcm_j0. destruct (length iv =? 12); [reflexivity|]. symmetry. apply ghash_eq_spec. }
    rewrite Hj. pose proof (j0_blk_ok iv Hiv) as Hb.
    destruct (ctr32_incr_eq_inc32 _ Hb) as [Hi Hb1].
    unfold ctr32_crypt. rewrite Hi, ctr_crypt_gctr by exact Hb1. f_equal.
    rewrite <- ghash_eq_spec. set (c := gctr E (length p) (inc32 (gcm_j0 E iv)) p).
    unfold gcm_tag16. set (s := ghash (gcm_H E) aad c).
    assert (Hs : length s = 16) by apply ghash_length.
    rewrite gctr_one_block by exact Hs. rewrite xor_bytes_comm. reflexivity.
  Qed.
End GcmSpec.
