(* The tag-window theorems instantiated for SM4-CTR+SM3-HMAC and SM4-CBC+SM3-HMAC
   (src/sm4_ctr_sm3_hmac.c, src/sm4_cbc_sm3_hmac.c): decision rule for every chunking,
   structural truncation, tag changes; over an abstract streaming MAC whose update is a monoid
   action on the states reachable from its initial state, then for the SM3-HMAC of coq/Hash. *)
From GmVerif Require Import Base.ListX Base.Bytes Hash.MD Hash.SM3 Hash.SM3Proofs Hash.Hmac Hash.HmacProofs
  Hash.Instances Hash.C03Lemmas Cipher.SM4 Cipher.GF128 Cipher.GCM Cipher.Aead Cipher.AeadProofs Cipher.GCMProofs
  Cipher.CCMProofs.
Require Import Lia ZifyN ZifyNat ZifyBool.
Ltac Zify.zify_post_hook ::= Z.div_mod_to_equations.
Local Open Scope nat_scope.

(* ===================== CBC decryption buffer ===================== *)
Section Cbc.
  Variable D : list N -> list N.
  Notation blocks := (cbc_dec_blocks D).

  Lemma cbc_split : forall k1 k2 iv x y, length x = 16 * k1 ->
    blocks (k1 + k2) iv (x ++ y) =
    let '(iv1, o1) := blocks k1 iv x in let '(iv2, o2) := blocks k2 iv1 y in (iv2, o1 ++ o2).
  Proof.
    induction k1 as [|k1 IH]; intros k2 iv x y Hx.
    - destruct x; [|cbn in Hx; lia]. cbn [Nat.add cbc_dec_blocks app].
      destruct (blocks k2 iv y). reflexivity.
    - cbn [Nat.add cbc_dec_blocks].
      rewrite firstn_app, skipn_app. replace (16 - length x) with 0 by lia.
      rewrite firstn_O, skipn_O, app_nil_r.
      rewrite IH by (rewrite skipn_length; lia).
      destruct (blocks k1 (firstn 16 x) (skipn 16 x)) as [iv1 o1].
      destruct (blocks k2 iv1 y) as [iv2 o2]. rewrite app_assoc. reflexivity.
  Qed.

  (* state and output after absorbing x from (iv0, []) *)
  Definition cbc_k (x : list N) : nat := (length x - 1) / 16.
  Definition cbc_state (iv0 x : list N) : cbc_ctx :=
    mkCbc (fst (blocks (cbc_k x) iv0 (firstn (cbc_k x * 16) x))) (skipn (cbc_k x * 16) x).
  Definition cbc_out (iv0 x : list N) : list N :=
    snd (blocks (cbc_k x) iv0 (firstn (cbc_k x * 16) x)).

  Lemma cbc_update_state iv0 a b :
    fst (cbc_dec_update D (cbc_state iv0 a) b) = cbc_state iv0 (a ++ b) /\
    cbc_out iv0 (a ++ b) = cbc_out iv0 a ++ snd (cbc_dec_update D (cbc_state iv0 a) b).
  Proof.
    set (ka := cbc_k a). set (ra := skipn (ka * 16) a).
    assert (Hka : ka * 16 <= length a).
    { unfold ka, cbc_k. pose proof (Nat.div_mod (length a - 1) 16 ltac:(lia)). lia. }
    assert (Hra : length ra = length a - ka * 16) by (unfold ra; apply skipn_length).
    assert (Hra16 : length ra <= 16 /\ (length a > 0 -> 1 <= length ra)).
    { rewrite Hra. unfold ka, cbc_k. pose proof (Nat.div_mod (length a - 1) 16 ltac:(lia)).
      pose proof (Nat.mod_upper_bound (length a - 1) 16 ltac:(lia)). lia. }
    set (k := (length (ra ++ b) - 1) / 16).
    assert (Hkk : cbc_k (a ++ b) = ka + k).
    { unfold k, cbc_k. rewrite !app_length, Hra.
      destruct (Nat.eq_dec (length a) 0) as [Ha0|Ha0].
      - assert (ka = 0) by (unfold ka, cbc_k; rewrite Ha0; reflexivity). rewrite Ha0. lia.
      - replace (length a + length b - 1) with (ka * 16 + (length a - ka * 16 + length b - 1)) by lia.
        rewrite Nat.div_add_l by lia. reflexivity. }
    assert (Hab : a ++ b = firstn (ka * 16) a ++ (ra ++ b)).
    { unfold ra. rewrite app_assoc, firstn_skipn. reflexivity. }
    assert (Hfa : length (firstn (ka * 16) a) = ka * 16) by (apply firstn_length_le; lia).
    assert (Hfirst : firstn ((ka + k) * 16) (a ++ b) = firstn (ka * 16) a ++ firstn (k * 16) (ra ++ b)).
    { rewrite Hab. rewrite (firstn_app ((ka + k) * 16)), Hfa.
      rewrite (firstn_all2 (firstn (ka * 16) a)) by lia.
      replace ((ka + k) * 16 - ka * 16) with (k * 16) by lia. reflexivity. }
    assert (Hskip : skipn ((ka + k) * 16) (a ++ b) = skipn (k * 16) (ra ++ b)).
    { rewrite Hab. rewrite (skipn_app ((ka + k) * 16)), Hfa.
      rewrite (skipn_all2 (firstn (ka * 16) a)) by lia.
      replace ((ka + k) * 16 - ka * 16) with (k * 16) by lia. reflexivity. }
    unfold cbc_dec_update, cbc_state, cbc_out. fold ka. fold ra. cbn [cb_iv cb_buf]. fold k.
    rewrite Hkk, Hfirst, Hskip.
    rewrite cbc_split by lia.
    destruct (blocks ka iv0 (firstn (ka * 16) a)) as [iv1 o1]. cbn [fst snd].
    destruct (blocks k iv1 (firstn (k * 16) (ra ++ b))) as [iv2 o2]. cbn [fst snd].
    split; reflexivity.
  Qed.
End Cbc.

(* ===================== the two HMAC modes over an abstract MAC ===================== *)
Section HmacInst.
  Variable M : Type.
  Variable mac_init : list N -> M.
  Variable mac_update : M -> list N -> M.
  Variable mac_finish : M -> list N.
  Variable E D : list N -> list N.
  Variables (mkey iv aad : list N).

  Notation m0 := (hm_start M mac_init mac_update mkey aad).
  (* the MAC context is a monoid action on the states reachable from its start state *)
  Hypothesis mac_nil : mac_update m0 [] = m0.
  Hypothesis mac_app : forall a b, mac_update (mac_update m0 a) b = mac_update m0 (a ++ b).

  (* ---------------- SM4-CTR + SM3-HMAC ---------------- *)
  Notation ctrh_absorb := (ctrh_absorb M mac_update E).
  Definition ctrh_st0 : ctrh_st M := (mkCtr iv [], m0).
  Definition ctrh_st_of (x : list N) : ctrh_st M := (ctr_state ctr128_incr iv x, mac_update m0 x).

  Lemma ctrh_st0_of : ctrh_st0 = ctrh_st_of [].
  Proof. unfold ctrh_st0, ctrh_st_of. rewrite mac_nil. reflexivity. Qed.

  Lemma ctrh_absorb_of a b :
    ctrh_absorb (ctrh_st_of a) b =
    (ctrh_st_of (a ++ b), snd (ctr_update E ctr128_incr (ctr_state ctr128_incr iv a) b)).
  Proof.
    unfold Aead.ctrh_absorb, ctrh_st_of. cbn [fst snd].
    change (ctr128_update E) with (ctr_update E ctr128_incr).
    destruct (ctr_update_state E ctr128_incr iv a b) as [H1 _].
    rewrite H1. cbn [snd]. rewrite mac_app. reflexivity.
  Qed.
  Lemma ctrh_absorb_from0 x : ctrh_absorb ctrh_st0 x = (ctrh_st_of x, ctr_out E ctr128_incr iv x).
  Proof. rewrite ctrh_st0_of, ctrh_absorb_of. reflexivity. Qed.
  Lemma ctrh_absorb_nil : ctrh_absorb ctrh_st0 [] = (ctrh_st0, []).
  Proof. rewrite ctrh_absorb_from0, <- ctrh_st0_of. reflexivity. Qed.
  Lemma ctrh_absorb_app a b :
    ctrh_absorb ctrh_st0 (a ++ b) =
    let '(s1, o1) := ctrh_absorb ctrh_st0 a in let '(s2, o2) := ctrh_absorb s1 b in (s2, o1 ++ o2).
  Proof.
    rewrite !ctrh_absorb_from0, ctrh_absorb_of. f_equal.
    destruct (ctr_update_state E ctr128_incr iv a b) as [_ H2]. exact H2.
  Qed.

  Lemma hm_run_ok (St : Type) (ab : St -> list N -> St * list N) (st0 : St) chunks :
    exists c out, w_run St ab (fun _ _ => true) maclen (st0, 0%N, []) chunks [] = Ok (c, out).
  Proof.
    apply (run_ok St ab (fun _ _ => true) maclen (N.of_nat (length (concat chunks)))).
    - intros; reflexivity.
    - lia.
  Qed.

  (* accept  <=>  at least 32 bytes seen, and the MAC over AAD || ct equals the last 32 bytes *)
  Theorem ctrh_accept_iff chunks p :
    ctrh_decrypt M mac_init mac_update mac_finish E mkey iv aad chunks = Ok p <->
    let all := concat chunks in
    32 <= length all /\
    let ct := firstn (length all - 32) all in
    let tag := skipn (length all - 32) all in
    mac_finish (mac_update m0 ct) = tag /\ p = ctr128_crypt E iv ct.
  Proof.
    unfold ctrh_decrypt. fold ctrh_st0.
    rewrite (accept_iff_tag_stream _ _ _ _ _ _ ctrh_st0 ctrh_absorb_nil ctrh_absorb_app).
    cbn zeta. rewrite ctrh_absorb_from0. unfold ctrh_st_of. cbn [fst snd]. change maclen with 32.
    split.
    - intros [_ [Hl [t [Ht [Htag ->]]]]]. split; [exact Hl|]. split; [exact Htag|].
      inversion Ht; subst t. unfold ctr32_finish, ctr128_crypt. apply ctr_finish_total.
    - intros [Hl [Htag ->]]. split; [apply hm_run_ok|]. split; [exact Hl|].
      eexists. split; [reflexivity|]. split; [exact Htag|].
      symmetry. unfold ctr32_finish, ctr128_crypt. apply ctr_finish_total.
  Qed.

  (* ---------------- SM4-CBC + SM3-HMAC ---------------- *)
  Notation cbch_absorb := (cbch_absorb M mac_update D).
  Definition cbch_st0 : cbch_st M := (mkCbc iv [], m0).
  Definition cbch_st_of (x : list N) : cbch_st M := (cbc_state D iv x, mac_update m0 x).

  Lemma cbch_st0_of : cbch_st0 = cbch_st_of [].
  Proof. unfold cbch_st0, cbch_st_of. rewrite mac_nil. reflexivity. Qed.
  Lemma cbch_absorb_of a b :
    cbch_absorb (cbch_st_of a) b = (cbch_st_of (a ++ b), snd (cbc_dec_update D (cbc_state D iv a) b)).
  Proof.
    unfold Aead.cbch_absorb, cbch_st_of. cbn [fst snd].
    destruct (cbc_update_state D iv a b) as [H1 _].
    destruct (cbc_dec_update D (cbc_state D iv a) b) as [c' o] eqn:Eu. cbn [fst snd] in *.
    rewrite H1, mac_app. reflexivity.
  Qed.
  Lemma cbch_absorb_from0 x : cbch_absorb cbch_st0 x = (cbch_st_of x, cbc_out D iv x).
  Proof.
    rewrite cbch_st0_of, cbch_absorb_of. cbn [app]. f_equal.
    destruct (cbc_update_state D iv [] x) as [_ H2]. cbn [app] in H2. rewrite H2. reflexivity.
  Qed.
  Lemma cbch_absorb_nil : cbch_absorb cbch_st0 [] = (cbch_st0, []).
  Proof. rewrite cbch_absorb_from0, <- cbch_st0_of. reflexivity. Qed.
  Lemma cbch_absorb_app a b :
    cbch_absorb cbch_st0 (a ++ b) =
    let '(s1, o1) := cbch_absorb cbch_st0 a in let '(s2, o2) := cbch_absorb s1 b in (s2, o1 ++ o2).
  Proof.
    rewrite !cbch_absorb_from0, cbch_absorb_of. f_equal.
    destruct (cbc_update_state D iv a b) as [_ H2]. exact H2.
  Qed.

  (* accept <=> >= 32 bytes seen, MAC over AAD || ct equals the last 32 bytes, and the CBC
     padding of ct is well formed; the plaintext is the CBC decryption of ct *)
  Theorem cbch_accept_iff chunks p :
    cbch_decrypt M mac_init mac_update mac_finish D mkey iv aad chunks = Ok p <->
    let all := concat chunks in
    32 <= length all /\
    let ct := firstn (length all - 32) all in
    let tag := skipn (length all - 32) all in
    mac_finish (mac_update m0 ct) = tag /\
    exists t, cbc_dec_finish D (cbc_state D iv ct) = Ok t /\ p = cbc_out D iv ct ++ t.
  Proof.
    unfold cbch_decrypt. fold cbch_st0.
    rewrite (accept_iff_tag_stream _ _ _ _ _ _ cbch_st0 cbch_absorb_nil cbch_absorb_app).
    cbn zeta. rewrite cbch_absorb_from0. unfold cbch_st_of. cbn [fst snd]. change maclen with 32.
    split.
    - intros [_ [Hl [t [Ht [Htag ->]]]]]. split; [exact Hl|]. split; [exact Htag|]. exists t. auto.
    - intros [Hl [Htag [t [Ht ->]]]]. split; [apply hm_run_ok|]. split; [exact Hl|].
      exists t. auto.
  Qed.
End HmacInst.

(* ===================== SM3-HMAC satisfies the MAC hypotheses ===================== *)
Lemma sm3_update_app c a b :
  (exists m, c = MD.ctx_of (list N) sm3_compress sm3_iv 64 0 m) ->
  sm3_update (sm3_update c a) b = sm3_update c (a ++ b).
Proof.
  intros [m ->]. unfold sm3_update.
  rewrite !(MD.update_ctx_of (list N) sm3_compress sm3_iv 64 8 0%N) by lia.
  rewrite app_assoc. reflexivity.
Qed.

Lemma sm3_hm_start_ctx mkey aad :
  exists m, fst (hm_start _ sm3_hmac_init sm3_hmac_update mkey aad)
            = MD.ctx_of (list N) sm3_compress sm3_iv 64 0 m.
Proof.
  unfold hm_start, sm3_hmac_init, sm3_hmac_update, hmacA_init, hmacA_update.
  assert (Hi : sm3_init = MD.ctx_of (list N) sm3_compress sm3_iv 64 0 [])
    by (apply (MD.init_ctx_of (list N) sm3_compress sm3_iv 64 8 0%N); lia).
  destruct aad as [|x aad]; cbn [fst snd]; unfold sm3_update; rewrite Hi;
    rewrite !(MD.update_ctx_of (list N) sm3_compress sm3_iv 64 8 0%N) by lia; eexists; reflexivity.
Qed.

Lemma sm3_hmac_mac_app mkey aad a b :
  let m0 := hm_start _ sm3_hmac_init sm3_hmac_update mkey aad in
  sm3_hmac_update (sm3_hmac_update m0 a) b = sm3_hmac_update m0 (a ++ b).
Proof.
  cbn zeta. destruct (sm3_hm_start_ctx mkey aad) as [m Hm].
  unfold sm3_hmac_update, hmacA_update. cbn [fst snd]. f_equal.
  apply sm3_update_app. exists m. exact Hm.
Qed.

Lemma sm3_hmac_mac_nil mkey aad :
  let m0 := hm_start _ sm3_hmac_init sm3_hmac_update mkey aad in
  sm3_hmac_update m0 [] = m0.
Proof.
  cbn zeta. destruct (sm3_hm_start_ctx mkey aad) as [m Hm].
  unfold sm3_hmac_update, hmacA_update.
  destruct (hm_start _ sm3_hmac_init _ mkey aad) as [c ik] eqn:E0. cbn [fst snd] in *. f_equal.
  rewrite Hm. unfold sm3_update.
  rewrite (MD.update_ctx_of (list N) sm3_compress sm3_iv 64 8 0%N) by lia.
  rewrite app_nil_r. reflexivity.
Qed.

(* the MAC recomputed by the decryptors is HMAC-SM3 (RFC 2104) over AAD || ct *)
Lemma sm3_hmac_mac_spec mkey aad x :
  sm3_hmac_finish (sm3_hmac_update (hm_start _ sm3_hmac_init sm3_hmac_update mkey aad) x)
  = sm3_hmac_spec mkey (aad ++ x).
Proof.
  unfold hm_start. destruct aad as [|a0 aad].
  - change (sm3_hmac_finish (sm3_hmac_update (sm3_hmac_init mkey) x)) with (sm3_hmac mkey [x]).
    rewrite sm3_hmac_stream. cbn [concat app]. rewrite app_nil_r. reflexivity.
  - change (sm3_hmac_finish (sm3_hmac_update (sm3_hmac_update (sm3_hmac_init mkey) (a0 :: aad)) x))
      with (sm3_hmac mkey [a0 :: aad; x]).
    rewrite sm3_hmac_stream. cbn [concat]. rewrite app_nil_r. reflexivity.
Qed.

(* ---- the concrete decision rules ---- *)
Theorem sm4_ctr_sm3_hmac_accept_iff key iv aad chunks p :
  sm4_ctr_sm3_hmac_decrypt key iv aad chunks = Ok p <->
  let all := concat chunks in
  32 <= length all /\
  let ct := firstn (length all - 32) all in
  sm3_hmac_spec (skipn 16 key) (aad ++ ct) = skipn (length all - 32) all /\
  p = ctr128_crypt (sm4E (firstn 16 key)) iv ct.
Proof.
  unfold sm4_ctr_sm3_hmac_decrypt.
  rewrite (ctrh_accept_iff _ sm3_hmac_init sm3_hmac_update sm3_hmac_finish _ (fun x => x) _ _ _
             (sm3_hmac_mac_nil _ _) (sm3_hmac_mac_app _ _)).
  cbn zeta. rewrite sm3_hmac_mac_spec. reflexivity.
Qed.

Theorem sm4_cbc_sm3_hmac_accept_iff key iv aad chunks p :
  sm4_cbc_sm3_hmac_decrypt key iv aad chunks = Ok p <->
  let all := concat chunks in
  32 <= length all /\
  let ct := firstn (length all - 32) all in
  sm3_hmac_spec (skipn 16 key) (aad ++ ct) = skipn (length all - 32) all /\
  exists t, cbc_dec_finish (sm4D (firstn 16 key)) (cbc_state (sm4D (firstn 16 key)) iv ct) = Ok t /\
            p = cbc_out (sm4D (firstn 16 key)) iv ct ++ t.
Proof.
  unfold sm4_cbc_sm3_hmac_decrypt.
  rewrite (cbch_accept_iff _ sm3_hmac_init sm3_hmac_update sm3_hmac_finish (fun x => x) _ _ _ _
             (sm3_hmac_mac_nil _ _) (sm3_hmac_mac_app _ _)).
  cbn zeta. rewrite sm3_hmac_mac_spec. reflexivity.
Qed.

(* The IV does not enter the MAC: the verdict of the CTR mode does not depend on it at all.
   This is the formal content of the defect reported for C05 (nonce changes are accepted). *)
Theorem sm4_ctr_sm3_hmac_verdict_ignores_iv key iv iv' aad chunks p :
  sm4_ctr_sm3_hmac_decrypt key iv aad chunks = Ok p ->
  exists p', sm4_ctr_sm3_hmac_decrypt key iv' aad chunks = Ok p'.
Proof.
  intros H. apply sm4_ctr_sm3_hmac_accept_iff in H. cbn zeta in H. destruct H as [Hl [Ht _]].
  eexists. apply sm4_ctr_sm3_hmac_accept_iff. cbn zeta. split; [exact Hl|]. split; [exact Ht|reflexivity].
Qed.

(* ---- C05 refuted for the two HMAC modes: a changed IV (nonce) is accepted ---- *)
Definition wk48 : list N := map N.of_nat (seq 1 48).
Definition wiv : list N := map N.of_nat (seq 100 16).
Definition wiv' : list N := (N.lxor 100 1 :: map N.of_nat (seq 101 15))%N.
Definition wmsg17 : list N := map N.of_nat (seq 200 17).

Theorem cbc_hmac_nonce_flip_rejected_refuted :
  exists key iv iv' aad stream p p',
    iv <> iv' /\ length iv = length iv' /\
    sm4_cbc_sm3_hmac_decrypt key iv aad [stream] = Ok p /\
    sm4_cbc_sm3_hmac_decrypt key iv' aad [stream] = Ok p' /\ p <> p'.
Proof.
  exists wk48, wiv, wiv', [1%N; 2%N], (sm4_cbc_sm3_hmac_encrypt wk48 wiv [1%N; 2%N] [wmsg17]).
  eexists; eexists.
  split; [vm_compute; discriminate|]. split; [reflexivity|].
  split; [vm_compute; reflexivity|]. split; [vm_compute; reflexivity|].
  vm_compute. discriminate.
Qed.

Theorem ctr_hmac_nonce_flip_rejected_refuted :
  exists key iv iv' aad stream p p',
    iv <> iv' /\ length iv = length iv' /\
    sm4_ctr_sm3_hmac_decrypt key iv aad [stream] = Ok p /\
    sm4_ctr_sm3_hmac_decrypt key iv' aad [stream] = Ok p' /\ p <> p'.
Proof.
  exists wk48, wiv, wiv', [1%N; 2%N], (sm4_ctr_sm3_hmac_encrypt wk48 wiv [1%N; 2%N] [wmsg17]).
  eexists; eexists.
  split; [vm_compute; discriminate|]. split; [reflexivity|].
  split; [vm_compute; reflexivity|]. split; [vm_compute; reflexivity|].
  vm_compute. discriminate.
Qed.

(* ===================== strict PKCS #7 (sm4_cbc_padding_decrypt since commit 75d04f0) ===================== *)
(* the decision rule of sm4_cbc_decrypt_finish, spelled out *)
Theorem cbc_dec_finish_ok_iff D (c : cbc_ctx) t :
  cbc_dec_finish D c = Ok t <->
  length (cb_buf c) = 16 /\
  let p := xor_bytes (D (cb_buf c)) (cb_iv c) in
  let pad := nth 15 p 0%N in
  (1 <= pad <= 16)%N /\
  (forall b, In b (skipn (16 - N.to_nat pad) p) -> b = pad) /\
  t = firstn (16 - N.to_nat pad) p.
Proof.
  unfold cbc_dec_finish.
  destruct (length (cb_buf c) =? 16) eqn:El; cbn [negb].
  2:{ apply Nat.eqb_neq in El. split; [discriminate|intros [H _]; contradiction]. }
  apply Nat.eqb_eq in El. cbn zeta.
  set (p := xor_bytes (D (cb_buf c)) (cb_iv c)). set (pad := nth 15 p 0%N).
  destruct ((pad <? 1)%N || (16 <? pad)%N) eqn:Er.
  { split; [discriminate|]. intros (_ & Hr & _). apply orb_true_iff in Er.
    destruct Er as [Er|Er]; apply N.ltb_lt in Er; lia. }
  apply orb_false_iff in Er. destruct Er as [E1 E2]. apply N.ltb_ge in E1. apply N.ltb_ge in E2.
  unfold pad_bytes_ok.
  destruct (forallb (fun b => (b =? pad)%N) (skipn (16 - N.to_nat pad) p)) eqn:Ef; cbn [negb].
  - rewrite forallb_forall in Ef. split.
    + intros H; inversion H; subst. split; [exact El|]. split; [lia|]. split; [|reflexivity].
      intros b Hb. apply N.eqb_eq, Ef, Hb.
    + intros (_ & _ & _ & ->). reflexivity.
  - split; [discriminate|]. intros (_ & _ & Hall & _).
    assert (forallb (fun b => (b =? pad)%N) (skipn (16 - N.to_nat pad) p) = true); [|congruence].
    apply forallb_forall. intros b Hb. apply N.eqb_eq, Hall, Hb.
Qed.

(* decrypt . encrypt = id for CBC with strict padding removal, whole-message form *)
Section CbcRoundTrip.
  Variable E D : list N -> list N.
  Hypothesis E_len : forall x, length (E x) = 16.
  Hypothesis E_ok : forall x, bytes_ok (E x) = true.
  Hypothesis DE : forall x, blk_ok x -> D (E x) = x.

  Lemma cbc_dec_enc_blocks : forall k iv m, length m = 16 * k -> blk_ok iv -> bytes_ok m = true ->
    length (snd (cbc_enc_blocks E k iv m)) = 16 * k /\
    snd (cbc_dec_blocks D k iv (snd (cbc_enc_blocks E k iv m))) = m.
  Proof.
    induction k as [|k IH]; intros iv m Hm Hiv Hok.
    - destruct m; [split; reflexivity|cbn in Hm; lia].
    - cbn [cbc_enc_blocks].
      set (x := xor_bytes (firstn 16 m) iv).
      assert (Hx : blk_ok x).
      { destruct Hiv as [Hl Ho]. split.
        - unfold x. rewrite xor_bytes_length, firstn_length. lia.
        - apply CCMProofs.bytes_ok_xor; [apply CCMProofs.bytes_ok_firstn, Hok|exact Ho]. }
      destruct (IH (E x) (skipn 16 m)) as [Hl Hd];
        [rewrite skipn_length; lia|split; [apply E_len|apply E_ok]|apply CCMProofs.bytes_ok_skipn, Hok|].
      destruct (cbc_enc_blocks E k (E x) (skipn 16 m)) as [iv' r] eqn:Er. cbn [snd] in *.
      split; [rewrite app_length, E_len; lia|].
      cbn [cbc_dec_blocks].
      rewrite firstn_app, skipn_app, E_len, Nat.sub_diag, firstn_O, skipn_O, app_nil_r.
      rewrite firstn_all2, skipn_all2 by (rewrite E_len; lia). cbn [app].
      destruct (cbc_dec_blocks D k (E x) r) as [iv'' r'] eqn:Ed. cbn [snd] in *.
      rewrite DE by exact Hx. unfold x.
      rewrite xor_bytes_invol by (destruct Hiv as [Hivl _]; rewrite firstn_length; lia).
      rewrite Hd. apply firstn_skipn.
  Qed.

  Lemma bytes_ok_repeat b n : (b < 256)%N -> bytes_ok (repeat b n) = true.
  Proof.
    intros Hb. unfold bytes_ok. induction n as [|n IH]; [reflexivity|]. cbn [repeat forallb].
    rewrite IH. apply N.ltb_lt in Hb. rewrite Hb. reflexivity.
  Qed.

  Lemma nth_repeat_in (a d : N) : forall n i, i < n -> nth i (repeat a n) d = a.
  Proof. induction n as [|n IH]; intros i Hi; [lia|]. destruct i; [reflexivity|]. cbn [repeat nth]. apply IH. lia. Qed.

  Theorem cbc_pad_dec_enc iv p : blk_ok iv -> bytes_ok p = true ->
    cbc_pad_decrypt D true iv (cbc_pad_encrypt E iv p) = Ok p.
  Proof.
    intros Hiv Hop. unfold cbc_pad_encrypt.
    set (padn := 16 - length p mod 16). set (k := length p / 16 + 1).
    set (m := p ++ repeat (N.of_nat padn) padn).
    assert (Hr : length p mod 16 < 16) by (apply Nat.mod_upper_bound; lia).
    assert (Hdm : length p = 16 * (length p / 16) + length p mod 16) by (apply Nat.div_mod; lia).
    assert (Hpn : 1 <= padn <= 16) by (unfold padn; lia).
    assert (Hm : length m = 16 * k) by (unfold m, k; rewrite app_length, repeat_length; unfold padn; lia).
    assert (Hom : bytes_ok m = true).
    { unfold m. rewrite CCMProofs.bytes_ok_app, Hop, bytes_ok_repeat by lia. reflexivity. }
    destruct (cbc_dec_enc_blocks k iv m Hm Hiv Hom) as [Hl Hd].
    set (c := snd (cbc_enc_blocks E k iv m)) in *.
    unfold cbc_pad_decrypt. rewrite Hl.
    replace (16 * k =? 0) with false by (symmetry; apply Nat.eqb_neq; unfold k; lia).
    replace ((16 * k) mod 16 =? 0) with true by (symmetry; apply Nat.eqb_eq; rewrite Nat.mul_comm; apply Nat.mod_mul; lia).
    cbn [orb negb]. replace (16 * k / 16) with k by (rewrite Nat.mul_comm, Nat.div_mul; lia).
    rewrite Hd.
    assert (Hlast : nth (16 * k - 1) m 0%N = N.of_nat padn).
    { unfold m. rewrite app_nth2 by lia. apply nth_repeat_in. unfold k, padn in *. lia. }
    rewrite Hlast.
    replace ((N.of_nat padn <? 1)%N || (16 <? N.of_nat padn)%N) with false
      by (symmetry; apply orb_false_iff; split; apply N.ltb_ge; lia).
    rewrite Nat2N.id.
    assert (Hsk : skipn (16 - padn) (skipn (16 * k - 16) m) = repeat (N.of_nat padn) padn).
    { rewrite skipn_skipn_nat. replace (16 * k - 16 + (16 - padn)) with (length p) by (unfold k, padn in *; lia).
      unfold m. rewrite skipn_app, Nat.sub_diag, skipn_all. reflexivity. }
    unfold pad_bytes_ok. rewrite Nat2N.id, Hsk.
    replace (forallb (fun b => (b =? N.of_nat padn)%N) (repeat (N.of_nat padn) padn)) with true.
    2:{ symmetry. apply forallb_forall. intros b Hb. apply repeat_spec in Hb. subst. apply N.eqb_refl. }
    cbn [andb negb]. f_equal.
    replace (16 * k - padn) with (length p) by (unfold k, padn in *; lia).
    unfold m. rewrite firstn_app, Nat.sub_diag, firstn_all, firstn_O, app_nil_r. reflexivity.
  Qed.
End CbcRoundTrip.

(* ---- SM4-CBC+SM3-HMAC, whole-message form: decryption accepts what encryption produced ---- *)
From GmVerif Require Import Cipher.SM4Proofs.
Local Strategy 1000 [sm4_encrypt_block sm4_decrypt_block sm4_crypt_block].

Lemma sm3_hmac_spec_length k m : length (sm3_hmac_spec k m) = 32.
Proof. unfold sm3_hmac_spec, hmac_spec. apply sm3_len. Qed.

Theorem sm4_cbc_hmac_spec_dec_accepts_enc key iv aad p :
  length key = 48 -> blk_ok iv -> bytes_ok p = true ->
  cbc_hmac_spec_decrypt key iv aad (cbc_hmac_spec_encrypt key iv aad p) = Ok p.
Proof.
  intros Hk Hiv Hp. unfold cbc_hmac_spec_decrypt, cbc_hmac_spec_encrypt.
  set (k1 := firstn 16 key). set (c := cbc_pad_encrypt (sm4E k1) iv p).
  set (mac := sm3_hmac_spec (skipn 16 key) (aad ++ c)).
  assert (Hmac : length mac = 32) by apply sm3_hmac_spec_length.
  assert (Hk1 : length k1 = 16) by (unfold k1; rewrite firstn_length; lia).
  rewrite app_length, Hmac.
  replace (length c + 32 <? 32) with false by (symmetry; apply Nat.ltb_ge; lia).
  replace (length c + 32 - 32) with (length c) by lia.
  rewrite firstn_app, skipn_app, Nat.sub_diag, firstn_all, skipn_all, firstn_O, skipn_O, app_nil_r.
  cbn [app]. unfold c.
  rewrite (cbc_pad_dec_enc (sm4E k1) (sm4D k1)); try assumption.
  - fold c. fold mac. replace (bytes_eqb mac mac) with true by (symmetry; apply bytes_eqb_eq; reflexivity). reflexivity.
  - intros x. apply sm4_encrypt_block_length.
  - intros x. apply sm4_encrypt_block_ok.
  - intros x [Hl Ho]. unfold sm4D, sm4E. apply sm4_dec_enc; assumption.
Qed.
