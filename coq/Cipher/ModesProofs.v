(* Proofs about Cipher/Modes.v: the generic buffered update (every chunking = one pass over
   the concatenation; bytes written vs the NULL-buffer answer), the block loops, and per
   mode: streaming = one-shot, decrypt . encrypt = id, Impl = Spec. *)
From GmVerif Require Import Base.ListX Base.Bytes Cipher.BitsX Cipher.Modes.
From Coq Require Import ZifyN ZifyNat ZifyBool.
Local Open Scope nat_scope.
Ltac Zify.zify_post_hook ::= Z.div_mod_to_equations.

(* ===================================================================== *)
(* small list facts *)
Lemma firstn_app_exact {A} (a b : list A) n : n = length a -> firstn n (a ++ b) = a.
Proof. intros ->. rewrite firstn_app, Nat.sub_diag, firstn_all. cbn. apply app_nil_r. Qed.
Lemma skipn_app_exact {A} (a b : list A) n : n = length a -> skipn n (a ++ b) = b.
Proof. intros ->. rewrite skipn_app, Nat.sub_diag, skipn_all. reflexivity. Qed.
Lemma firstn_app_le {A} (a b : list A) n : n <= length a -> firstn n (a ++ b) = firstn n a.
Proof. intros H. rewrite firstn_app. replace (n - length a) with 0 by lia. cbn. apply app_nil_r. Qed.
Lemma skipn_app_le {A} (a b : list A) n : n <= length a -> skipn n (a ++ b) = skipn n a ++ b.
Proof. intros H. rewrite skipn_app. replace (n - length a) with 0 by lia. reflexivity. Qed.
Lemma length_zero_nil {A} (l : list A) : length l = 0 -> l = [].
Proof. destruct l; [reflexivity | discriminate]. Qed.

(* ===================================================================== *)
(* The generic buffered update *)
Section BufProofs.
  Variable St : Type.
  Variable B : nat.
  Variable lazy : bool.
  Variable crypt : St -> list N -> St * list N.
  Variable Pst : St -> Prop.                (* well-formed initial states (e.g. a 16-byte counter) *)
  Hypothesis B_pos : 0 < B.
  Hypothesis crypt_nil : forall st, Pst st -> crypt st [] = (st, []).
  Hypothesis crypt_app : forall st a b k j, Pst st -> length a = k * B -> length b = j * B ->
    crypt st (a ++ b) =
    let '(s1, o1) := crypt st a in let '(s2, o2) := crypt s1 b in (s2, o1 ++ o2).
  Hypothesis crypt_len : forall st a k, Pst st -> length a = k * B -> length (snd (crypt st a)) = length a.

  Definition buf_ok (n : nat) : Prop := if lazy then n <= B else n < B.

  (* [m]: everything fed so far; [out]: everything written so far *)
  Definition Inv (st0 : St) (m : list N) (c : bctx St) (out : list N) : Prop :=
    Pst st0 /\ exists k pre, m = pre ++ bbuf c /\ length pre = k * B /\ crypt st0 pre = (bst c, out)
      /\ buf_ok (length (bbuf c)) /\ (lazy = true -> bbuf c = [] -> m = []).

  Lemma Inv_init st0 : Pst st0 -> Inv st0 [] (mkb st0 []) [].
  Proof.
    intros HP. split; [exact HP|]. exists 0, []. cbn [bbuf bst app length].
    split; [reflexivity|]. split; [reflexivity|]. split; [apply crypt_nil; exact HP|].
    split; [|auto]. unfold buf_ok. destruct lazy; lia.
  Qed.

  Lemma rest_inv st0 pre k st out d o : Pst st0 ->
    length pre = k * B -> crypt st0 pre = (st, out) -> (lazy = true -> d = [] -> pre = []) ->
    exists c' o2, buf_rest B lazy crypt st o d = (c', o ++ o2) /\ Inv st0 (pre ++ d) c' (out ++ o2).
  Proof.
    intros HP Hpre Hc Hemp. unfold buf_rest.
    destruct (if lazy then B <? length d else B <=? length d) eqn:Hcond.
    - set (q := if lazy then (length d - 1) / B else length d / B).
      assert (Hq : q * B <= length d /\ (if lazy then 1 <= length d - q * B <= B else length d - q * B < B)).
      { unfold q. destruct lazy.
        - apply Nat.ltb_lt in Hcond.
          pose proof (Nat.div_mod (length d - 1) B ltac:(lia)).
          pose proof (Nat.mod_upper_bound (length d - 1) B ltac:(lia)).
          set (qq := (length d - 1) / B) in *. nia.
        - apply Nat.leb_le in Hcond.
          pose proof (Nat.div_mod (length d) B ltac:(lia)).
          pose proof (Nat.mod_upper_bound (length d) B ltac:(lia)).
          set (qq := length d / B) in *. nia. }
      clearbody q. destruct Hq as [Hq1 Hq2].
      destruct (crypt st (firstn (q * B) d)) as [st2 o2] eqn:Hc2.
      exists (mkb st2 (skipn (q * B) d)), o2. split; [reflexivity|]. split; [exact HP|].
      exists (k + q), (pre ++ firstn (q * B) d). cbn [bbuf bst].
      assert (Hfl : length (firstn (q * B) d) = q * B) by (rewrite firstn_length_le; lia).
      split; [rewrite <- app_assoc, firstn_skipn; reflexivity|].
      split; [rewrite app_length, Hfl; lia|].
      split; [rewrite (crypt_app st0 pre _ k q HP Hpre Hfl), Hc, Hc2; reflexivity|].
      split.
      + unfold buf_ok. rewrite skipn_length. destruct lazy; lia.
      + intros Hl He. apply (f_equal (@length N)) in He. rewrite skipn_length in He.
        rewrite Hl in Hq2. cbn [length] in He. lia.
    - exists (mkb st d), []. rewrite !app_nil_r. split; [reflexivity|]. split; [exact HP|].
      exists k, pre. cbn [bbuf bst]. repeat split; auto.
      + unfold buf_ok. destruct lazy; [apply Nat.ltb_ge in Hcond | apply Nat.leb_gt in Hcond]; lia.
      + intros Hl Hd. rewrite (Hemp Hl Hd), Hd. reflexivity.
  Qed.

  Lemma update_inv st0 m c out d : Inv st0 m c out ->
    exists c' o, buf_update B lazy crypt c d = Some (c', o) /\ Inv st0 (m ++ d) c' (out ++ o).
  Proof.
    intros (HP & k & pre & Hm & Hpre & Hc & Hok & Hemp). unfold buf_update.
    replace (if lazy then B <? length (bbuf c) else B <=? length (bbuf c)) with false
      by (unfold buf_ok in Hok; destruct lazy; symmetry; [apply Nat.ltb_ge | apply Nat.leb_gt]; lia).
    destruct (length (bbuf c) =? 0) eqn:Hnb; cbn [negb].
    - apply Nat.eqb_eq in Hnb. apply length_zero_nil in Hnb.
      rewrite Hnb, app_nil_r in Hm. subst m.
      destruct (rest_inv st0 pre k (bst c) out d [] HP Hpre Hc) as (c' & o2 & Hr & Hi).
      { intros Hl Hd. apply Hemp; assumption. }
      exists c', o2. rewrite Hr. cbn [app]. split; [reflexivity | exact Hi].
    - apply Nat.eqb_neq in Hnb.
      set (left := B - length (bbuf c)).
      destruct (if lazy then length d <=? left else length d <? left) eqn:Hshort.
      + exists (mkb (bst c) (bbuf c ++ d)), []. split; [reflexivity|]. rewrite app_nil_r.
        split; [exact HP|]. exists k, pre. cbn [bbuf bst]. subst m. rewrite app_assoc.
        repeat split; auto.
        * unfold buf_ok in *. rewrite app_length. unfold left in Hshort.
          destruct lazy; [apply Nat.leb_le in Hshort | apply Nat.ltb_lt in Hshort]; lia.
        * intros _ He. apply app_eq_nil in He. destruct He as [He _]. rewrite He in Hnb. cbn in Hnb. lia.
      + assert (Hge : left <= length d /\ (lazy = true -> left < length d)).
        { destruct lazy; [apply Nat.leb_gt in Hshort | apply Nat.ltb_ge in Hshort]; split; try lia; intros; lia. }
        destruct Hge as [Hge Hgt].
        set (blk := bbuf c ++ firstn left d).
        assert (Hblk : length blk = 1 * B).
        { unfold blk. rewrite app_length, firstn_length_le by lia. unfold left, buf_ok in *. destruct lazy; lia. }
        destruct (crypt (bst c) blk) as [st1 o1] eqn:Hc1.
        destruct (rest_inv st0 (pre ++ blk) (k + 1) st1 (out ++ o1) (skipn left d) o1 HP) as (c' & o2 & Hr & Hi).
        { rewrite app_length, Hpre, Hblk. lia. }
        { rewrite (crypt_app st0 pre blk k 1 HP Hpre Hblk), Hc, Hc1. reflexivity. }
        { intros Hl Hd. apply (f_equal (@length N)) in Hd. rewrite skipn_length in Hd. cbn in Hd.
          specialize (Hgt Hl). lia. }
        exists c', (o1 ++ o2). rewrite Hr. split; [reflexivity|].
        replace (m ++ d) with ((pre ++ blk) ++ skipn left d).
        * rewrite app_assoc. exact Hi.
        * subst m. unfold blk. rewrite <- !app_assoc. rewrite firstn_skipn. reflexivity.
  Qed.

  Lemma run_inv st0 chunks : forall m c out, Inv st0 m c out ->
    exists c' outs, buf_run B lazy crypt c chunks = Some (c', outs)
                    /\ Inv st0 (m ++ concat chunks) c' (out ++ concat outs).
  Proof.
    induction chunks as [|ch r IH]; intros m c out Hi; cbn [buf_run concat].
    - exists c, []. cbn [concat]. rewrite !app_nil_r. auto.
    - destruct (update_inv st0 m c out ch Hi) as (c1 & o & Hu & Hi1). rewrite Hu.
      destruct (IH _ _ _ Hi1) as (c2 & os & Hr & Hi2). rewrite Hr.
      exists c2, (o :: os). split; [reflexivity|]. cbn [concat]. rewrite !app_assoc. exact Hi2.
  Qed.

  (* every chunking: the run never fails, and context and output are those of one pass *)
  Theorem run_from_init st0 chunks : Pst st0 ->
    exists c outs, buf_run B lazy crypt (mkb st0 []) chunks = Some (c, outs)
                   /\ Inv st0 (concat chunks) c (concat outs).
  Proof. intros HP. apply (run_inv st0 chunks [] (mkb st0 []) [] (Inv_init st0 HP)). Qed.

  (* what one pass leaves in the context, as a function of the message alone *)
  Lemma Inv_lengths st0 m c out : Inv st0 m c out ->
    length m = length out + length (bbuf c) /\ exists k, length out = k * B.
  Proof.
    intros (HP & k & pre & Hm & Hpre & Hc & _). subst m.
    pose proof (crypt_len st0 pre k HP Hpre) as Hl. rewrite Hc in Hl. cbn [snd] in Hl.
    rewrite app_length. split; [lia | exists k; lia].
  Qed.

  (* bytes written by one update *)
  Theorem update_written st0 m c out d c' o :
    Inv st0 m c out -> buf_update B lazy crypt c d = Some (c', o) ->
    Inv st0 (m ++ d) c' (out ++ o) /\
    length o + length (bbuf c') = length (bbuf c) + length d /\ exists j, length o = j * B.
  Proof.
    intros Hi Hu. destruct (update_inv st0 m c out d Hi) as (c1 & o1 & Hu1 & Hi1).
    rewrite Hu in Hu1. injection Hu1 as <- <-. split; [exact Hi1|].
    destruct (Inv_lengths _ _ _ _ Hi) as (L1 & k1 & K1).
    destruct (Inv_lengths _ _ _ _ Hi1) as (L2 & k2 & K2).
    rewrite !app_length in *. split; [lia|].
    exists (k2 - k1). nia.
  Qed.
End BufProofs.

(* never more than the NULL-buffer answer 16*ceil(inlen/16), for 16-byte blocks, eager or lazy *)
Theorem written_le_query16 St lazy crypt (Pst : St -> Prop)
  (crypt_nil : forall st, Pst st -> crypt st [] = (st, []))
  (crypt_app : forall st a b k j, Pst st -> length a = k * 16 -> length b = j * 16 ->
    crypt st (a ++ b) = let '(s1, o1) := crypt st a in let '(s2, o2) := crypt s1 b in (s2, o1 ++ o2))
  (crypt_len : forall st a k, Pst st -> length a = k * 16 -> length (snd (crypt st a)) = length a)
  (st0 : St) m c out d c' o :
  Inv St 16 lazy crypt Pst st0 m c out -> buf_update 16 lazy crypt c d = Some (c', o) ->
  length o <= query16 (length d).
Proof.
  intros Hi Hu.
  assert (Huw := update_written St 16 lazy crypt Pst).
  destruct (Huw ltac:(lia) crypt_nil crypt_app crypt_len st0 m c out d c' o Hi Hu) as (Hi' & Hlen & j & Hj). clear Huw.
  destruct Hi as (HP & k & pre & Hm & Hpre & Hc & Hok & Hemp).
  destruct Hi' as (_ & k' & pre' & Hm' & Hpre' & Hc' & Hok' & Hemp').
  unfold query16, buf_ok in *. destruct lazy.
  - destruct (bbuf c') as [|x bb] eqn:Hb'.
    + specialize (Hemp' eq_refl eq_refl). apply app_eq_nil in Hemp'. destruct Hemp' as [-> ->].
      symmetry in Hm. apply app_eq_nil in Hm. destruct Hm as [_ Hb]. rewrite Hb in *.
      cbn [length] in *. lia.
    + cbn [length] in *. lia.
  - lia.
Qed.

(* the run only calls [crypt] on non-empty data, so two block functions that agree there
   give the same updates *)
Lemma buf_update_ext St B lazy (cr1 cr2 : St -> list N -> St * list N) c d : 0 < B ->
  (forall st x, x <> [] -> cr1 st x = cr2 st x) ->
  buf_update B lazy cr1 c d = buf_update B lazy cr2 c d.
Proof.
  intros HB Hext.
  assert (Hrest : forall st o x, buf_rest B lazy cr1 st o x = buf_rest B lazy cr2 st o x).
  { intros st o x. unfold buf_rest.
    destruct (if lazy then B <? length x else B <=? length x) eqn:Hc; [|reflexivity].
    rewrite Hext; [reflexivity|].
    intros He. apply (f_equal (@length N)) in He. rewrite firstn_length in He. cbn [length] in He.
    destruct lazy.
    - apply Nat.ltb_lt in Hc.
      assert (1 <= (length x - 1) / B) by (apply Nat.div_le_lower_bound; lia). nia.
    - apply Nat.leb_le in Hc.
      assert (1 <= length x / B) by (apply Nat.div_le_lower_bound; lia). nia. }
  unfold buf_update.
  destruct (if lazy then B <? length (bbuf c) else B <=? length (bbuf c)); [reflexivity|].
  destruct (length (bbuf c) =? 0) eqn:Hnb; cbn [negb]; [rewrite Hrest; reflexivity|].
  destruct (if lazy then length d <=? B - length (bbuf c) else length d <? B - length (bbuf c)); [reflexivity|].
  rewrite Hext.
  - destruct (cr2 (bst c) (bbuf c ++ firstn (B - length (bbuf c)) d)). rewrite Hrest. reflexivity.
  - intros He. apply app_eq_nil in He. destruct He as [He _]. rewrite He in Hnb. discriminate.
Qed.

Lemma buf_run_ext St B lazy (cr1 cr2 : St -> list N -> St * list N) chunks : 0 < B ->
  (forall st x, x <> [] -> cr1 st x = cr2 st x) ->
  forall c, buf_run B lazy cr1 c chunks = buf_run B lazy cr2 c chunks.
Proof.
  intros HB Hext. induction chunks as [|ch r IH]; intros c; cbn [buf_run]; [reflexivity|].
  rewrite (buf_update_ext St B lazy cr1 cr2 c ch HB Hext).
  destruct (buf_update B lazy cr2 c ch) as [[c1 o]|]; [|reflexivity]. rewrite IH. reflexivity.
Qed.

(* ===================================================================== *)
(* Loop over n blocks of B bytes with a state: the shape of every *_blocks function *)
Section BLoop.
  Variable St : Type.
  Variable B : nat.
  Variable step : St -> list N -> St * list N.
  Fixpoint bloop (n : nat) (st : St) (inp : list N) : St * list N :=
    match n with
    | O => (st, [])
    | S k =>
      let '(st', o) := step st (firstn B inp) in
      let '(st2, os) := bloop k st' (skipn B inp) in (st2, o ++ os)
    end.
  Hypothesis B_pos : 0 < B.

  Lemma bloop_prefix k : forall st a b, k * B <= length a -> bloop k st (a ++ b) = bloop k st a.
  Proof.
    induction k as [|k IH]; intros st a b H; cbn [bloop]; [reflexivity|].
    cbn [Nat.mul] in H.
    rewrite firstn_app_le, skipn_app_le by lia.
    destruct (step st (firstn B a)) as [st' o]. rewrite IH by (rewrite skipn_length; lia). reflexivity.
  Qed.

  Lemma bloop_app k j : forall st a b, length a = k * B ->
    bloop (k + j) st (a ++ b) =
    let '(s1, o1) := bloop k st a in let '(s2, o2) := bloop j s1 b in (s2, o1 ++ o2).
  Proof.
    induction k as [|k IH]; intros st a b H; cbn [bloop Nat.add].
    - apply length_zero_nil in H. subst a. cbn [app]. destruct (bloop j st b). reflexivity.
    - cbn [Nat.mul] in H.
      rewrite firstn_app_le, skipn_app_le by lia.
      destruct (step st (firstn B a)) as [st' o].
      rewrite IH by (rewrite skipn_length; lia).
      destruct (bloop k st' (skipn B a)) as [s1 o1]. destruct (bloop j s1 b) as [s2 o2].
      rewrite app_assoc. reflexivity.
  Qed.

  (* as the [crypt] argument of the buffered update *)
  Definition bcrypt (st : St) (d : list N) : St * list N := bloop (length d / B) st d.
  Lemma bcrypt_nil st : bcrypt st [] = (st, []).
  Proof. unfold bcrypt. cbn [length]. rewrite Nat.div_0_l by lia. reflexivity. Qed.
  Lemma bcrypt_app st a b k j : length a = k * B -> length b = j * B ->
    bcrypt st (a ++ b) = let '(s1, o1) := bcrypt st a in let '(s2, o2) := bcrypt s1 b in (s2, o1 ++ o2).
  Proof.
    intros Ha Hb. unfold bcrypt. rewrite app_length, Ha, Hb.
    replace (k * B + j * B) with ((k + j) * B) by lia. rewrite !Nat.div_mul by lia.
    apply bloop_app. exact Ha.
  Qed.
  Hypothesis step_len : forall st blk, length blk = B -> length (snd (step st blk)) = B.
  Lemma bloop_length k : forall st a, k * B <= length a -> length (snd (bloop k st a)) = k * B.
  Proof.
    induction k as [|k IH]; intros st a H; cbn [bloop]; [reflexivity|].
    cbn [Nat.mul] in H.
    pose proof (step_len st (firstn B a) ltac:(rewrite firstn_length_le; lia)) as Hs.
    destruct (step st (firstn B a)) as [st' o]. cbn [snd] in Hs.
    specialize (IH st' (skipn B a) ltac:(rewrite skipn_length; lia)).
    destruct (bloop k st' (skipn B a)) as [st2 os]. cbn [snd] in *.
    rewrite app_length. lia.
  Qed.

  Lemma bcrypt_len st a k : length a = k * B -> length (snd (bcrypt st a)) = length a.
  Proof.
    intros Ha. unfold bcrypt. rewrite Ha, Nat.div_mul by lia. rewrite bloop_length; lia.
  Qed.
End BLoop.

(* Loop over segments of at most s bytes, driven by fuel: sm4_ofb_encrypt, sm4_cfb_encrypt/decrypt *)
Section SLoop.
  Variable St : Type.
  Variable s : nat.
  Variable step : St -> list N -> St * list N.
  Fixpoint sloop (fuel : nat) (st : St) (inp : list N) : St * list N :=
    match fuel with
    | O => (st, [])
    | S f =>
      match inp with
      | [] => (st, [])
      | _ =>
        let len := Nat.min (length inp) s in
        let '(st', o) := step st (firstn len inp) in
        let '(st2, os) := sloop f st' (skipn len inp) in (st2, o ++ os)
      end
    end.
  Hypothesis s_pos : 0 < s.

  Lemma sloop_nil f st : sloop f st [] = (st, []).
  Proof. destruct f; reflexivity. Qed.

  Lemma sloop_fuel f1 : forall f2 st inp, length inp <= f1 -> length inp <= f2 ->
    sloop f1 st inp = sloop f2 st inp.
  Proof.
    induction f1 as [|f1 IH]; intros f2 st inp H1 H2.
    - assert (inp = []) by (apply length_zero_nil; lia). subst. rewrite !sloop_nil. reflexivity.
    - destruct f2 as [|f2].
      + assert (inp = []) by (apply length_zero_nil; lia). subst. reflexivity.
      + cbn [sloop]. destruct inp as [|x inp]; [reflexivity|].
        set (l := x :: inp) in *.
        assert (Hl : 1 <= length l) by (unfold l; cbn [length]; lia).
        destruct (step st (firstn (Nat.min (length l) s) l)) as [st' o].
        rewrite (IH f2) by (rewrite skipn_length; lia). reflexivity.
  Qed.

  Lemma sloop_step f st inp : inp <> [] ->
    sloop (S f) st inp =
    let len := Nat.min (length inp) s in
    let '(st', o) := step st (firstn len inp) in
    let '(st2, os) := sloop f st' (skipn len inp) in (st2, o ++ os).
  Proof. destruct inp; [congruence | reflexivity]. Qed.

  Lemma sloop_app k : forall st a b, length a = k * s ->
    sloop (length (a ++ b)) st (a ++ b) =
    let '(s1, o1) := sloop (length a) st a in let '(s2, o2) := sloop (length b) s1 b in (s2, o1 ++ o2).
  Proof.
    induction k as [|k IH]; intros st a b H.
    - apply length_zero_nil in H. subst a. cbn [app length sloop]. destruct (sloop (length b) st b). reflexivity.
    - cbn [Nat.mul] in H.
      assert (Hne : a <> []) by (intros ->; cbn [length] in H; lia).
      assert (Hne2 : a ++ b <> []) by (intros He; apply app_eq_nil in He; tauto).
      assert (Hsk : length (skipn s a) = k * s) by (rewrite skipn_length; lia).
      remember (length (a ++ b)) as n1 eqn:L1. remember (length a) as n2 eqn:L2.
      rewrite app_length in L1.
      destruct n1 as [|n1]; [lia|]. destruct n2 as [|n2]; [lia|].
      rewrite !sloop_step by assumption. cbv zeta.
      replace (Nat.min (length (a ++ b)) s) with s by (rewrite app_length; lia).
      replace (Nat.min (length a) s) with s by lia.
      rewrite firstn_app_le, skipn_app_le by lia.
      destruct (step st (firstn s a)) as [st' o].
      rewrite (sloop_fuel n1 (length (skipn s a ++ b))) by (rewrite ?app_length, ?skipn_length; lia).
      rewrite (IH st' (skipn s a) b Hsk).
      rewrite (sloop_fuel n2 (length (skipn s a))) by (rewrite ?skipn_length; lia).
      destruct (sloop (length (skipn s a)) st' (skipn s a)) as [s1 o1].
      destruct (sloop (length b) s1 b) as [s2 o2]. rewrite app_assoc. reflexivity.
  Qed.

  Hypothesis step_len : forall st seg, length seg <= s -> length (snd (step st seg)) = length seg.
  Lemma sloop_length f : forall st inp, length inp <= f -> length (snd (sloop f st inp)) = length inp.
  Proof.
    induction f as [|f IH]; intros st inp H.
    - assert (inp = []) by (apply length_zero_nil; lia). subst. reflexivity.
    - cbn [sloop]. destruct inp as [|x inp]; [reflexivity|].
      set (l := x :: inp) in *.
      assert (Hl : 1 <= length l) by (unfold l; cbn [length]; lia).
      pose proof (step_len st (firstn (Nat.min (length l) s) l) ltac:(rewrite firstn_length; lia)) as Hs.
      destruct (step st (firstn (Nat.min (length l) s) l)) as [st' o]. cbn [snd] in Hs.
      specialize (IH st' (skipn (Nat.min (length l) s) l) ltac:(rewrite skipn_length; lia)).
      destruct (sloop f st' (skipn (Nat.min (length l) s) l)) as [st2 os]. cbn [snd] in *.
      rewrite app_length, IH, Hs, firstn_length, skipn_length. lia.
  Qed.

  Definition scrypt (st : St) (d : list N) : St * list N := sloop (length d) st d.
  Lemma scrypt_nil st : scrypt st [] = (st, []).
  Proof. reflexivity. Qed.
  Lemma scrypt_app st a b k j : length a = k * s -> length b = j * s ->
    scrypt st (a ++ b) = let '(s1, o1) := scrypt st a in let '(s2, o2) := scrypt s1 b in (s2, o1 ++ o2).
  Proof. intros Ha _. unfold scrypt. apply (sloop_app k). exact Ha. Qed.
  Lemma scrypt_len st a : length (snd (scrypt st a)) = length a.
  Proof. unfold scrypt. apply sloop_length. lia. Qed.
End SLoop.

(* ===================================================================== *)
(* packaging: what a [crypt] function must satisfy, and the whole init/update*/finish run *)
Definition crypt_good {St} (B : nat) (Pst : St -> Prop) (cr : St -> list N -> St * list N) : Prop :=
  (forall st, Pst st -> cr st [] = (st, [])) /\
  (forall st a b k j, Pst st -> length a = k * B -> length b = j * B ->
     cr st (a ++ b) = let '(s1, o1) := cr st a in let '(s2, o2) := cr s1 b in (s2, o1 ++ o2)) /\
  (forall st a k, Pst st -> length a = k * B -> length (snd (cr st a)) = length a).

Lemma crypt_good_ext {St} B Pst (cr1 cr2 : St -> list N -> St * list N) :
  (forall st d, cr1 st d = cr2 st d) -> crypt_good B Pst cr2 -> crypt_good B Pst cr1.
Proof.
  intros He (G1 & G2 & G3). split; [|split].
  - intros st HP. rewrite He. apply G1, HP.
  - intros st a b k j HP Ha Hb. rewrite !He, (G2 st a b k j HP Ha Hb).
    destruct (cr2 st a) as [s1 o1]. rewrite He. reflexivity.
  - intros st a k HP Ha. rewrite He. apply (G3 st a k HP Ha).
Qed.

Lemma bcrypt_good St B step : 0 < B ->
  (forall st blk, length blk = B -> length (snd (step st blk)) = B) ->
  crypt_good B (fun _ => True) (bcrypt St B step).
Proof.
  intros HB Hs. split; [|split].
  - intros st _. apply (bcrypt_nil St B step HB st).
  - intros st a b k j _ Ha Hb. apply (bcrypt_app St B step HB st a b k j Ha Hb).
  - intros st a k _ Ha. apply (bcrypt_len St B step HB Hs st a k Ha).
Qed.

Lemma scrypt_good St s step : 0 < s ->
  (forall st seg, length seg <= s -> length (snd (step st seg)) = length seg) ->
  crypt_good s (fun _ => True) (scrypt St s step).
Proof.
  intros Hs Hl. split; [|split].
  - intros st _. reflexivity.
  - intros st a b k j _ Ha Hb. apply (scrypt_app St s step Hs st a b k j Ha Hb).
  - intros st a k _ _. apply scrypt_len; assumption.
Qed.

Definition stream_all {St} (B : nat) (lazy : bool) (crypt : St -> list N -> St * list N)
           (fin : bctx St -> option (list N)) (c0 : bctx St) (chunks : list (list N)) : option (list N) :=
  match buf_run B lazy crypt c0 chunks with
  | None => None
  | Some (c, outs) => match fin c with None => None | Some o => Some (concat outs ++ o) end
  end.

Theorem run_good {St} B lazy cr (Pst : St -> Prop) st0 chunks :
  0 < B -> crypt_good B Pst cr -> Pst st0 ->
  exists c outs, buf_run B lazy cr (mkb st0 []) chunks = Some (c, outs)
                 /\ Inv St B lazy cr Pst st0 (concat chunks) c (concat outs).
Proof.
  intros HB (G1 & G2 & G3) HP. apply run_from_init; assumption.
Qed.

(* the invariant after any sequence of updates bounds every later update: one statement
   for "however the context was reached" *)
Theorem written16_good {St} lazy cr (Pst : St -> Prop) st0 chunks d :
  crypt_good 16 Pst cr -> Pst st0 ->
  match buf_run 16 lazy cr (mkb st0 []) chunks with
  | None => False
  | Some (c, _) =>
    match buf_update 16 lazy cr c d with
    | None => False
    | Some (_, o) => length o <= query16 (length d)
    end
  end.
Proof.
  intros G HP. destruct (run_good 16 lazy cr Pst st0 chunks ltac:(lia) G HP) as (c & outs & Hr & Hi).
  rewrite Hr. destruct G as (G1 & G2 & G3).
  assert (Hex : exists c' o, buf_update 16 lazy cr c d = Some (c', o)
                /\ Inv St 16 lazy cr Pst st0 (concat chunks ++ d) c' (concat outs ++ o))
    by (apply update_inv; try assumption; lia).
  destruct Hex as (c' & o & Hu & _). rewrite Hu.
  eapply written_le_query16; eauto.
Qed.

(* ===================================================================== *)
Section ModeProofs.
  Variable E : list N -> list N.
  Variable D : list N -> list N.
  Hypothesis E_len : forall b, length (E b) = 16.
  Hypothesis D_len : forall b, length (D b) = 16.

  (* ------------------------------------------------------------------ ECB *)
  Definition ecb_step (F : list N -> list N) (_ : unit) (blk : list N) : unit * list N := (tt, F blk).
  Lemma ecb_blocks_bloop F n : forall inp, (tt, ecb_blocks F n inp) = bloop unit 16 (ecb_step F) n tt inp.
  Proof.
    induction n as [|n IH]; intros inp; cbn [ecb_blocks bloop]; [reflexivity|].
    unfold ecb_step at 1. rewrite <- IH. reflexivity.
  Qed.
  Lemma ecb_crypt_eq F st d : ecb_crypt F st d = bcrypt unit 16 (ecb_step F) st d.
  Proof. destruct st. unfold ecb_crypt, bcrypt. apply ecb_blocks_bloop. Qed.
  Lemma ecb_good F : (forall b, length (F b) = 16) -> crypt_good 16 (fun _ => True) (ecb_crypt F).
  Proof.
    intros HF. apply (crypt_good_ext 16 _ _ _ (ecb_crypt_eq F)).
    apply bcrypt_good; [lia|]. intros st blk _. apply HF.
  Qed.

  Definition ecb_stream F := stream_all 16 false (ecb_crypt F) ecb_finish ecb_init.

  Theorem ecb_stream_eq F chunks : (forall b, length (F b) = 16) ->
    ecb_stream F chunks =
    let m := concat chunks in
    if length m mod 16 =? 0 then Some (ecb_blocks F (length m / 16) m) else None.
  Proof.
    intros HF. unfold ecb_stream, stream_all, ecb_init.
    destruct (run_good 16 false (ecb_crypt F) _ tt chunks ltac:(lia) (ecb_good F HF) I)
      as (c & outs & Hr & _ & k & pre & Hm & Hpre & Hc & Hok & _).
    rewrite Hr. cbv zeta. rewrite Hm. unfold ecb_finish, buf_ok in *.
    replace (16 <=? length (bbuf c)) with false by lia.
    rewrite app_length, Hpre.
    destruct (length (bbuf c) =? 0) eqn:Hz; cbn [negb].
    - apply Nat.eqb_eq in Hz. rewrite Hz. apply length_zero_nil in Hz. rewrite Hz, !app_nil_r.
      replace ((k * 16 + 0) mod 16 =? 0) with true by lia.
      unfold ecb_crypt in Hc. injection Hc as _ Hc. rewrite <- Hc, Hpre.
      replace ((k * 16 + 0) / 16) with (k * 16 / 16) by (f_equal; lia). reflexivity.
    - replace ((k * 16 + length (bbuf c)) mod 16 =? 0) with false by lia. reflexivity.
  Qed.

  Theorem ecb_written F chunks d : (forall b, length (F b) = 16) ->
    match buf_run 16 false (ecb_crypt F) ecb_init chunks with
    | None => False
    | Some (c, _) => match ecb_update F c d with None => False | Some (_, o) => length o <= query16 (length d) end
    end.
  Proof. intros HF. apply (written16_good false _ _ tt chunks d (ecb_good F HF) I). Qed.

  (* ------------------------------------------------------------------ CBC *)
  Definition cbc_enc_step (iv blk : list N) : list N * list N := let c := E (xor_bytes blk iv) in (c, c).
  Definition cbc_dec_step (iv blk : list N) : list N * list N := (blk, xor_bytes (D blk) iv).
  Lemma cbc_enc_loop_bloop n : forall iv inp, cbc_enc_loop E n iv inp = bloop _ 16 cbc_enc_step n iv inp.
  Proof.
    induction n as [|n IH]; intros iv inp; cbn [cbc_enc_loop bloop]; [reflexivity|].
    unfold cbc_enc_step at 1. rewrite IH. reflexivity.
  Qed.
  Lemma cbc_dec_blocks_bloop n : forall iv inp, cbc_decrypt_blocks D n iv inp = bloop _ 16 cbc_dec_step n iv inp.
  Proof.
    induction n as [|n IH]; intros iv inp; cbn [cbc_decrypt_blocks bloop]; [reflexivity|].
    unfold cbc_dec_step at 1. rewrite IH. reflexivity.
  Qed.
  Lemma xor16_len a b : length a = 16 -> length (xor_bytes a b) = Nat.min 16 (length b).
  Proof. intros H. rewrite xor_bytes_length, H. reflexivity. Qed.

  Lemma cbc_enc_good : crypt_good 16 (fun _ => True) (cbc_enc_crypt E).
  Proof.
    apply (crypt_good_ext 16 _ _ (bcrypt _ 16 cbc_enc_step)).
    - intros st d. unfold cbc_enc_crypt, cbc_encrypt_blocks, bcrypt. apply cbc_enc_loop_bloop.
    - apply bcrypt_good; [lia|]. intros st blk _. unfold cbc_enc_step. cbn [snd]. apply E_len.
  Qed.

  (* the chaining value is always a 16-byte block *)
  Definition len16 (l : list N) : Prop := length l = 16.
  Lemma cbc_dec_good : crypt_good 16 len16 (cbc_dec_crypt D).
  Proof.
    assert (He : forall st d, cbc_dec_crypt D st d = bcrypt _ 16 cbc_dec_step st d)
      by (intros st d; unfold cbc_dec_crypt, bcrypt; apply cbc_dec_blocks_bloop).
    split; [|split].
    - intros st _. rewrite He. apply (bcrypt_nil _ 16 cbc_dec_step ltac:(lia) st).
    - intros st a b k j _ Ha Hb. rewrite !He, (bcrypt_app _ 16 cbc_dec_step ltac:(lia) st a b k j Ha Hb).
      destruct (bcrypt (list N) 16 cbc_dec_step st a) as [s1 o1]. rewrite He. reflexivity.
    - intros st a k Hst Ha. rewrite He. unfold bcrypt. rewrite Ha, Nat.div_mul by lia.
      clear He. revert st a Hst Ha. induction k as [|k IH]; intros st a Hst Ha; cbn [bloop].
      + reflexivity.
      + cbn [Nat.mul] in Ha. unfold cbc_dec_step at 1.
        specialize (IH (firstn 16 a) (skipn 16 a) ltac:(unfold len16; rewrite firstn_length_le; lia)
                       ltac:(rewrite skipn_length; lia)).
        destruct (bloop (list N) 16 cbc_dec_step k (firstn 16 a) (skipn 16 a)) as [s2 os]. cbn [snd] in *.
        rewrite app_length, IH, xor_bytes_length, D_len, Hst. lia.
  Qed.

  Lemma cbc_padding_encrypt_split k pre buf iv iv1 o1 :
    length pre = k * 16 -> length buf < 16 -> cbc_enc_loop E k iv pre = (iv1, o1) ->
    cbc_padding_encrypt E iv (pre ++ buf) = o1 ++ cbc_padding_encrypt E iv1 buf.
  Proof.
    intros Hpre Hbuf Hl. unfold cbc_padding_encrypt.
    rewrite app_length, Hpre.
    replace ((k * 16 + length buf) mod 16) with (length buf) by lia.
    replace (length buf mod 16) with (length buf) by lia.
    replace ((k * 16 + length buf) / 16) with k by lia.
    replace (length buf / 16) with 0 by lia.
    replace (k * 16 + length buf - length buf) with (length pre) by lia.
    rewrite skipn_app_exact by reflexivity.
    replace (length buf - length buf) with 0 by lia. cbn [skipn Nat.eqb negb].
    unfold cbc_encrypt_blocks.
    destruct (k =? 0) eqn:Hk; cbn [negb].
    - apply Nat.eqb_eq in Hk. subst k. cbn [cbc_enc_loop] in Hl. injection Hl as <- <-. reflexivity.
    - rewrite (cbc_enc_loop_bloop k iv (pre ++ buf)), bloop_prefix by lia. rewrite <- cbc_enc_loop_bloop, Hl.
      destruct (cbc_enc_loop E 1 iv1 _) as [x o2]. reflexivity.
  Qed.

  Definition cbc_encrypt_stream iv :=
    stream_all 16 false (cbc_enc_crypt E) (cbc_encrypt_finish E) (cbc_init iv).
  Definition cbc_decrypt_stream iv :=
    stream_all 16 true (cbc_dec_crypt D) (cbc_decrypt_finish D) (cbc_init iv).

  Theorem cbc_encrypt_stream_eq iv chunks :
    cbc_encrypt_stream iv chunks = Some (cbc_padding_encrypt E iv (concat chunks)).
  Proof.
    unfold cbc_encrypt_stream, stream_all, cbc_init.
    destruct (run_good 16 false (cbc_enc_crypt E) _ iv chunks ltac:(lia) cbc_enc_good I)
      as (c & outs & Hr & _ & k & pre & Hm & Hpre & Hc & Hok & _).
    rewrite Hr, Hm. unfold cbc_encrypt_finish, buf_ok in *.
    replace (16 <=? length (bbuf c)) with false by lia.
    unfold cbc_enc_crypt, cbc_encrypt_blocks in Hc. rewrite Hpre, Nat.div_mul in Hc by lia.
    rewrite (cbc_padding_encrypt_split k pre (bbuf c) iv _ _ Hpre Hok Hc). reflexivity.
  Qed.

  Theorem cbc_decrypt_stream_eq iv chunks : length iv = 16 ->
    cbc_decrypt_stream iv chunks = sm4_cbc_padding_decrypt D iv (concat chunks).
  Proof.
    intros Hiv. unfold cbc_decrypt_stream, stream_all, cbc_init.
    destruct (run_good 16 true (cbc_dec_crypt D) len16 iv chunks ltac:(lia) cbc_dec_good Hiv)
      as (c & outs & Hr & _ & k & pre & Hm & Hpre & Hc & Hok & Hemp).
    rewrite Hr, Hm. unfold cbc_decrypt_finish, buf_ok in *.
    unfold cbc_dec_crypt in Hc. rewrite Hpre, Nat.div_mul in Hc by lia.
    destruct (length (bbuf c) =? 16) eqn:Hb; cbn [negb].
    - apply Nat.eqb_eq in Hb. unfold sm4_cbc_padding_decrypt. rewrite app_length, Hpre, Hb.
      replace (k * 16 + 16 =? 0) with false by lia.
      replace ((k * 16 + 16) mod 16 =? 0) with true by lia.
      replace (k * 16 + 16 <? 16) with false by lia.
      replace (16 =? 0) with false by reflexivity. replace (16 mod 16 =? 0) with true by reflexivity.
      replace (16 <? 16) with false by reflexivity. cbn [negb orb].
      replace ((k * 16 + 16) / 16 - 1) with k by lia.
      replace (k * 16 + 16 - 16) with (length pre) by lia. rewrite skipn_app_exact by reflexivity.
      replace (16 - 16) with 0 by reflexivity. cbn [skipn].
      destruct (16 <? k * 16 + 16) eqn:Hk.
      + rewrite (cbc_dec_blocks_bloop k iv (pre ++ bbuf c)), bloop_prefix by lia.
        rewrite <- cbc_dec_blocks_bloop, Hc.
        destruct (cbc_decrypt_blocks D 1 (bst c) (bbuf c)) as [x block].
        destruct ((nth 15 block 0 <? 1)%N || (16 <? nth 15 block 0)%N); [reflexivity|].
        destruct (pad_bytes_ok (nth 15 block 0%N) block); reflexivity.
      + assert (k = 0) by (apply Nat.ltb_ge in Hk; lia). subst k. cbn [cbc_decrypt_blocks] in Hc.
        injection Hc as <- <-.
        destruct (cbc_decrypt_blocks D 1 iv (bbuf c)) as [x block].
        destruct ((nth 15 block 0 <? 1)%N || (16 <? nth 15 block 0)%N); [reflexivity|].
        destruct (pad_bytes_ok (nth 15 block 0%N) block); reflexivity.
    - apply Nat.eqb_neq in Hb. unfold sm4_cbc_padding_decrypt. rewrite app_length, Hpre.
      destruct (bbuf c) as [|x bb] eqn:Hbb.
      + specialize (Hemp eq_refl eq_refl). rewrite Hm, app_nil_r in Hemp. subst pre. cbn [length] in Hpre.
        replace k with 0 by lia. reflexivity.
      + cbn [length] in *.
        replace (k * 16 + S (length bb) =? 0) with false by lia.
        replace ((k * 16 + S (length bb)) mod 16 =? 0) with false by lia. reflexivity.
  Qed.

  Theorem cbc_encrypt_written iv chunks d :
    match buf_run 16 false (cbc_enc_crypt E) (cbc_init iv) chunks with
    | None => False
    | Some (c, _) => match cbc_encrypt_update E c d with None => False | Some (_, o) => length o <= query16 (length d) end
    end.
  Proof. apply (written16_good false _ _ iv chunks d cbc_enc_good I). Qed.
  Theorem cbc_decrypt_written iv chunks d : length iv = 16 ->
    match buf_run 16 true (cbc_dec_crypt D) (cbc_init iv) chunks with
    | None => False
    | Some (c, _) => match cbc_decrypt_update D c d with None => False | Some (_, o) => length o <= query16 (length d) end
    end.
  Proof. intros Hiv. apply (written16_good true _ _ iv chunks d cbc_dec_good Hiv). Qed.

  (* ------------------------------------------------------------------ CTR / CTR32 *)
  Definition ok16 (c : list N) : Prop := length c = 16 /\ bytes_ok c = true.
  Definition cstep (incr : list N -> list N) (ctr blk : list N) : list N * list N :=
    (incr ctr, xor_bytes blk (E ctr)).
  (* the standard's increments *)
  Definition incr128 (ctr : list N) : list N := N_to_be 16 ((be_to_N ctr + 1) mod 2^128)%N.
  Definition incr32 (ctr : list N) : list N :=
    firstn 12 ctr ++ N_to_be 4 ((be_to_N (skipn 12 ctr) + 1) mod 2^32)%N.

  Lemma incr128_ok c : ok16 (incr128 c).
  Proof. split; [apply N_to_be_length | apply N_to_be_ok]. Qed.
  Lemma incr32_ok c : ok16 c -> ok16 (incr32 c).
  Proof.
    intros [L O]. unfold incr32. split.
    - rewrite app_length, firstn_length_le, N_to_be_length by lia. reflexivity.
    - rewrite bytes_ok_app, bytes_ok_firstn, N_to_be_ok by exact O. reflexivity.
  Qed.

  Lemma bloop_pres (P : list N -> Prop) step :
    (forall c blk, P c -> P (fst (step c blk))) ->
    forall n c inp, P c -> P (fst (bloop (list N) 16 step n c inp)).
  Proof.
    intros Hp. induction n as [|n IH]; intros c inp Hc; cbn [bloop]; [exact Hc|].
    specialize (Hp c (firstn 16 inp) Hc). destruct (step c (firstn 16 inp)) as [c' o]. cbn [fst] in Hp.
    specialize (IH c' (skipn 16 inp) Hp). destruct (bloop _ 16 step n c' (skipn 16 inp)). exact IH.
  Qed.

  Section CtrLike.
    Variable blocks : nat -> list N -> list N -> list N * list N.
    Variable incr : list N -> list N.
    Hypothesis blocks_eq : forall n ctr inp, ok16 ctr -> blocks n ctr inp = bloop _ 16 (cstep incr) n ctr inp.
    Hypothesis incr_ok : forall c, ok16 c -> ok16 (incr c).

    Lemma cstep_len c blk : length blk = 16 -> length (snd (cstep incr c blk)) = 16.
    Proof. intros H. unfold cstep. cbn [snd]. rewrite xor_bytes_length, H, E_len. reflexivity. Qed.

    Lemma ctr_good : crypt_good 16 ok16 (ctr_crypt blocks).
    Proof.
      split; [|split].
      - intros st HP. unfold ctr_crypt. rewrite blocks_eq by exact HP. reflexivity.
      - intros st a b k j HP Ha Hb. unfold ctr_crypt.
        rewrite app_length, Ha, Hb. replace (k * 16 + j * 16) with ((k + j) * 16) by lia.
        rewrite !Nat.div_mul by lia. rewrite !blocks_eq by exact HP.
        rewrite (bloop_app _ 16 (cstep incr) ltac:(lia) k j st a b Ha).
        pose proof (bloop_pres ok16 (cstep incr) (fun c blk H => incr_ok c H) k st a HP) as Hp.
        destruct (bloop _ 16 (cstep incr) k st a) as [s1 o1]. cbn [fst] in Hp.
        rewrite blocks_eq by exact Hp. reflexivity.
      - intros st a k HP Ha. unfold ctr_crypt. rewrite Ha, Nat.div_mul by lia.
        rewrite blocks_eq by exact HP. rewrite bloop_length; [lia | lia | apply cstep_len | lia].
    Qed.

    Definition ctr_stream ctr := stream_all 16 false (ctr_crypt blocks) (ctr_finish blocks) (ctr_init ctr).

    Theorem ctr_stream_eq ctr chunks : ok16 ctr ->
      ctr_stream ctr chunks = Some (snd (ctr_encrypt blocks ctr (concat chunks))).
    Proof.
      intros HP. unfold ctr_stream, stream_all, ctr_init.
      destruct (run_good 16 false (ctr_crypt blocks) ok16 ctr chunks ltac:(lia) ctr_good HP)
        as (c & outs & Hr & _ & k & pre & Hm & Hpre & Hc & Hok & _).
      rewrite Hr, Hm. unfold ctr_finish, buf_ok in *.
      replace (16 <=? length (bbuf c)) with false by lia.
      unfold ctr_crypt in Hc. rewrite Hpre, Nat.div_mul in Hc by lia.
      unfold ctr_encrypt. rewrite app_length, Hpre.
      replace ((k * 16 + length (bbuf c)) / 16) with k by lia.
      destruct (16 <=? k * 16 + length (bbuf c)) eqn:Hk.
      - rewrite (blocks_eq k ctr (pre ++ bbuf c)) by exact HP.
        rewrite bloop_prefix by lia. rewrite <- blocks_eq, Hc by exact HP.
        rewrite skipn_app_exact by lia.
        destruct (length (bbuf c) =? 0) eqn:Hz; cbn [negb].
        + apply Nat.eqb_eq in Hz. rewrite Hz. cbn [firstn snd]. rewrite ?app_nil_r. reflexivity.
        + destruct (blocks 1 (bst c) (bbuf c ++ zeros (16 - length (bbuf c)))) as [c2 o2]. reflexivity.
      - assert (k = 0) by (apply Nat.leb_gt in Hk; lia). subst k.
        apply length_zero_nil in Hpre. subst pre. rewrite blocks_eq in Hc by exact HP.
        cbn [bloop] in Hc. injection Hc as <- <-. cbn [app].
        destruct (length (bbuf c) =? 0) eqn:Hz; cbn [negb].
        + apply Nat.eqb_eq in Hz. rewrite Hz. cbn [firstn snd]. rewrite ?app_nil_r. reflexivity.
        + destruct (blocks 1 ctr (bbuf c ++ zeros (16 - length (bbuf c)))) as [c2 o2]. reflexivity.
    Qed.

    Theorem ctr_written ctr chunks d : ok16 ctr ->
      match buf_run 16 false (ctr_crypt blocks) (ctr_init ctr) chunks with
      | None => False
      | Some (c, _) => match ctr_update blocks c d with None => False | Some (_, o) => length o <= query16 (length d) end
      end.
    Proof. intros HP. apply (written16_good false _ _ ctr chunks d ctr_good HP). Qed.
  End CtrLike.

  (* ---- the four counter-block functions are the same loop over the standard's increment ---- *)
  Lemma ctr_blocks_sf_bloop incr n : forall ctr inp,
    ctr_blocks_sf E incr n ctr inp = bloop _ 16 (cstep incr) n ctr inp.
  Proof.
    induction n as [|n IH]; intros ctr inp; cbn [ctr_blocks_sf bloop]; [reflexivity|].
    unfold cstep at 1. rewrite IH. reflexivity.
  Qed.

  Lemma pow256_16 : (256 ^ N.of_nat 16 = 2^128)%N. Proof. reflexivity. Qed.
  Lemma pow256_8 : (256 ^ N.of_nat 8 = 2^64)%N. Proof. reflexivity. Qed.
  Lemma pow256_4 : (256 ^ N.of_nat 4 = 2^32)%N. Proof. reflexivity. Qed.

  Lemma ctr_incr_eq c : ok16 c -> ctr_incr c = incr128 c.
  Proof.
    intros [L O]. unfold ctr_incr, incr128.
    pose proof (incr_be_spec c O) as H. destruct (incr_be c) as [r cy]. cbn [fst].
    destruct H as (Lr & Or & V & _). rewrite L, pow256_16 in V.
    rewrite <- V. symmetry. rewrite <- L, <- Lr. apply N_to_be_be_to_N, Or.
  Qed.
  Lemma ctr32_incr_eq c : ok16 c -> ctr32_incr c = incr32 c.
  Proof.
    intros [L O]. unfold ctr32_incr, incr32. f_equal.
    pose proof (incr_be_spec (skipn 12 c) (bytes_ok_skipn 12 c O)) as H.
    destruct (incr_be (skipn 12 c)) as [r cy]. cbn [fst].
    destruct H as (Lr & Or & V & _). rewrite skipn_length, L in Lr, V. change (16 - 12) with 4 in *.
    rewrite pow256_4 in V. rewrite <- V. symmetry. rewrite <- Lr. apply N_to_be_be_to_N, Or.
  Qed.
  Lemma ctr_incr_ok c : ok16 c -> ok16 (ctr_incr c).
  Proof. intros H. rewrite ctr_incr_eq by exact H. apply incr128_ok. Qed.
  Lemma ctr32_incr_ok c : ok16 c -> ok16 (ctr32_incr c).
  Proof. intros H. rewrite ctr32_incr_eq by exact H. apply incr32_ok, H. Qed.

  (* two 64-bit words *)
  Definition pk (c0 c1 : N) : list N := putu64 c0 ++ putu64 c1.
  Lemma pk_eq c0 c1 : (c0 < 2^64)%N -> (c1 < 2^64)%N -> pk c0 c1 = N_to_be 16 (c0 * 2^64 + c1)%N.
  Proof.
    intros H0 H1. unfold pk, putu64. change 16 with (8 + 8). rewrite (N_to_be_app 8 8). rewrite pow256_8.
    rewrite <- (N_to_be_mod 8 (c0 * 2^64 + c1)), pow256_8.
    change (2^64)%N with 18446744073709551616%N in *.
    f_equal; f_equal.
    - apply N.div_unique with c1; lia.
    - apply N.mod_unique with c0; lia.
  Qed.
  Lemma be_pk c0 c1 : (c0 < 2^64)%N -> (c1 < 2^64)%N -> be_to_N (pk c0 c1) = (c0 * 2^64 + c1)%N.
  Proof.
    intros H0 H1. rewrite pk_eq by assumption. rewrite be_to_N_N_to_be, pow256_16.
    apply N.mod_small. change (2^64)%N with 18446744073709551616%N in *.
    change (2^128)%N with (18446744073709551616 * 18446744073709551616)%N. nia.
  Qed.
  Lemma pk_unpk c : ok16 c -> pk (getu64 c) (getu64 (skipn 8 c)) = c /\
                             (getu64 c < 2^64)%N /\ (getu64 (skipn 8 c) < 2^64)%N.
  Proof.
    intros [L O]. unfold pk, putu64, getu64.
    assert (L1 : length (firstn 8 c) = 8) by (rewrite firstn_length_le; lia).
    assert (L2 : length (skipn 8 c) = 8) by (rewrite skipn_length; lia).
    rewrite (firstn_all2 (skipn 8 c)) by lia.
    split; [|split].
    - pose proof (N_to_be_be_to_N _ (bytes_ok_firstn 8 c O)) as R1. rewrite L1 in R1.
      pose proof (N_to_be_be_to_N _ (bytes_ok_skipn 8 c O)) as R2. rewrite L2 in R2.
      rewrite R1, R2. apply firstn_skipn.
    - pose proof (be_to_N_lt (firstn 8 c) (bytes_ok_firstn 8 c O)) as H. rewrite L1, pow256_8 in H. exact H.
    - pose proof (be_to_N_lt (skipn 8 c) (bytes_ok_skipn 8 c O)) as H. rewrite L2, pow256_8 in H. exact H.
  Qed.

  Lemma ctr_w_bloop n : forall c0 c1 inp, (c0 < 2^64)%N -> (c1 < 2^64)%N ->
    exists d0 d1 o, ctr_blocks_w E n c0 c1 inp = ((d0, d1), o) /\ (d0 < 2^64)%N /\ (d1 < 2^64)%N /\
                    bloop _ 16 (cstep incr128) n (pk c0 c1) inp = (pk d0 d1, o).
  Proof.
    induction n as [|n IH]; intros c0 c1 inp H0 H1; cbn [ctr_blocks_w bloop].
    - exists c0, c1, []. auto.
    - set (c1' := ((c1 + 1) mod 2^64)%N).
      set (c0' := if (c1' =? 0)%N then ((c0 + 1) mod 2^64)%N else c0).
      assert (Hs : (c0' < 2^64 /\ c1' < 2^64 /\ c0' * 2^64 + c1' = (c0 * 2^64 + c1 + 1) mod 2^128)%N).
      { unfold c0', c1'. change (2^128)%N with 340282366920938463463374607431768211456%N.
        change (2^64)%N with 18446744073709551616%N in *.
        destruct (N.eqb_spec ((c1 + 1) mod 18446744073709551616) 0) as [Hz|Hz]; repeat split; lia. }
      destruct Hs as (H0' & H1' & HV).
      destruct (IH c0' c1' (skipn 16 inp) H0' H1') as (d0 & d1 & o & Hw & Hd0 & Hd1 & Hb).
      rewrite Hw. exists d0, d1, (xor_bytes (firstn 16 inp) (E (putu64 c0 ++ putu64 c1)) ++ o).
      split; [reflexivity|]. split; [exact Hd0|]. split; [exact Hd1|].
      unfold cstep at 1. fold (pk c0 c1).
      replace (incr128 (pk c0 c1)) with (pk c0' c1').
      + rewrite Hb. reflexivity.
      + unfold incr128. rewrite be_pk by assumption. rewrite <- HV. apply pk_eq; assumption.
  Qed.

  Lemma ctr_encrypt_blocks_bloop n ctr inp : ok16 ctr ->
    ctr_encrypt_blocks E n ctr inp = bloop _ 16 (cstep incr128) n ctr inp.
  Proof.
    intros H. destruct (pk_unpk ctr H) as (Hpk & H0 & H1). unfold ctr_encrypt_blocks.
    destruct (ctr_w_bloop n _ _ inp H0 H1) as (d0 & d1 & o & Hw & _ & _ & Hb).
    rewrite Hw. rewrite Hpk in Hb. rewrite Hb. reflexivity.
  Qed.

  Lemma ctr32_w_bloop n : forall pre c3 inp, length pre = 12 -> (c3 < 2^32)%N ->
    exists d3 o, ctr32_blocks_w E n pre c3 inp = (d3, o) /\ (d3 < 2^32)%N /\
                 bloop _ 16 (cstep incr32) n (pre ++ putu32 c3) inp = (pre ++ putu32 d3, o).
  Proof.
    induction n as [|n IH]; intros pre c3 inp Hp H3; cbn [ctr32_blocks_w bloop].
    - exists c3, []. auto.
    - assert (H3' : ((c3 + 1) mod 2^32 < 2^32)%N) by (apply N.mod_lt; discriminate).
      destruct (IH pre ((c3 + 1) mod 2^32)%N (skipn 16 inp) Hp H3') as (d3 & o & Hw & Hd & Hb).
      rewrite Hw. exists d3, (xor_bytes (firstn 16 inp) (E (pre ++ putu32 c3)) ++ o).
      split; [reflexivity|]. split; [exact Hd|].
      unfold cstep at 1.
      replace (incr32 (pre ++ putu32 c3)) with (pre ++ putu32 ((c3 + 1) mod 2^32)%N).
      + rewrite Hb. reflexivity.
      + unfold incr32, putu32. rewrite firstn_app_exact, skipn_app_exact by lia.
        rewrite be_to_N_N_to_be, pow256_4, (N.mod_small c3) by exact H3. reflexivity.
  Qed.

  Lemma ctr32_encrypt_blocks_bloop n ctr inp : ok16 ctr ->
    ctr32_encrypt_blocks E n ctr inp = bloop _ 16 (cstep incr32) n ctr inp.
  Proof.
    intros [L O]. unfold ctr32_encrypt_blocks, getu32.
    assert (L1 : length (firstn 12 ctr) = 12) by (rewrite firstn_length_le; lia).
    assert (L2 : length (skipn 12 ctr) = 4) by (rewrite skipn_length; lia).
    rewrite (firstn_all2 (skipn 12 ctr)) by lia.
    pose proof (be_to_N_lt (skipn 12 ctr) (bytes_ok_skipn 12 ctr O)) as H3. rewrite L2, pow256_4 in H3.
    destruct (ctr32_w_bloop n (firstn 12 ctr) _ inp L1 H3) as (d3 & o & Hw & _ & Hb).
    rewrite Hw. unfold putu32 in Hb at 1.
    pose proof (N_to_be_be_to_N _ (bytes_ok_skipn 12 ctr O)) as R2. rewrite L2 in R2.
    rewrite R2, firstn_skipn in Hb. rewrite Hb. reflexivity.
  Qed.

  (* the instances: every chunking = one-shot, for the table-driven and the byte-wise code *)
  Theorem ctr128_stream_eq ctr chunks : ok16 ctr ->
    ctr_stream (ctr_encrypt_blocks E) ctr chunks = Some (snd (ctr_encrypt (ctr_encrypt_blocks E) ctr (concat chunks))).
  Proof. apply (ctr_stream_eq _ incr128 (fun n c i H => ctr_encrypt_blocks_bloop n c i H) (fun c _ => incr128_ok c)). Qed.
  Theorem ctr32_stream_eq ctr chunks : ok16 ctr ->
    ctr_stream (ctr32_encrypt_blocks E) ctr chunks = Some (snd (ctr_encrypt (ctr32_encrypt_blocks E) ctr (concat chunks))).
  Proof. apply (ctr_stream_eq _ incr32 (fun n c i H => ctr32_encrypt_blocks_bloop n c i H) incr32_ok). Qed.
  Theorem ctr128_sf_stream_eq ctr chunks : ok16 ctr ->
    ctr_stream (ctr_blocks_sf E ctr_incr) ctr chunks = Some (snd (ctr_encrypt (ctr_blocks_sf E ctr_incr) ctr (concat chunks))).
  Proof. apply (ctr_stream_eq _ ctr_incr (fun n c i _ => ctr_blocks_sf_bloop ctr_incr n c i) ctr_incr_ok). Qed.
  Theorem ctr32_sf_stream_eq ctr chunks : ok16 ctr ->
    ctr_stream (ctr_blocks_sf E ctr32_incr) ctr chunks = Some (snd (ctr_encrypt (ctr_blocks_sf E ctr32_incr) ctr (concat chunks))).
  Proof. apply (ctr_stream_eq _ ctr32_incr (fun n c i _ => ctr_blocks_sf_bloop ctr32_incr n c i) ctr32_incr_ok). Qed.
  Theorem ctr128_written ctr chunks d : ok16 ctr ->
    match buf_run 16 false (ctr_crypt (ctr_encrypt_blocks E)) (ctr_init ctr) chunks with
    | None => False
    | Some (c, _) => match ctr_update (ctr_encrypt_blocks E) c d with None => False | Some (_, o) => length o <= query16 (length d) end
    end.
  Proof. apply (ctr_written _ incr128 (fun n c i H => ctr_encrypt_blocks_bloop n c i H) (fun c _ => incr128_ok c)). Qed.
  Theorem ctr32_written ctr chunks d : ok16 ctr ->
    match buf_run 16 false (ctr_crypt (ctr32_encrypt_blocks E)) (ctr_init ctr) chunks with
    | None => False
    | Some (c, _) => match ctr_update (ctr32_encrypt_blocks E) c d with None => False | Some (_, o) => length o <= query16 (length d) end
    end.
  Proof. apply (ctr_written _ incr32 (fun n c i H => ctr32_encrypt_blocks_bloop n c i H) incr32_ok). Qed.

  (* ------------------------------------------------------------------ OFB *)
  Definition ofb_step (iv seg : list N) : list N * list N := let iv' := E iv in (iv', xor_bytes seg iv').
  Lemma ofb_loop_sloop f : forall iv inp, ofb_loop E f iv inp = sloop _ 16 ofb_step f iv inp.
  Proof.
    induction f as [|f IH]; intros iv inp; cbn [ofb_loop sloop]; [reflexivity|].
    destruct inp as [|x inp]; [reflexivity|]. unfold ofb_step at 1. rewrite IH. reflexivity.
  Qed.
  Lemma ofb_encrypt_eq iv d : ofb_encrypt E iv d = scrypt _ 16 ofb_step iv d.
  Proof. apply ofb_loop_sloop. Qed.
  Lemma ofb_step_len iv seg : length seg <= 16 -> length (snd (ofb_step iv seg)) = length seg.
  Proof. intros H. unfold ofb_step. cbn [snd]. rewrite xor_bytes_length, E_len. lia. Qed.
  Lemma ofb_good : crypt_good 16 (fun _ => True) (ofb_encrypt E).
  Proof.
    apply (crypt_good_ext 16 _ _ _ ofb_encrypt_eq). apply scrypt_good; [lia | apply ofb_step_len].
  Qed.

  Definition ofb_stream iv := stream_all 16 false (ofb_encrypt E) (ofb_finish E) (ofb_init iv).
  Theorem ofb_stream_eq iv chunks :
    ofb_stream iv chunks = Some (snd (ofb_encrypt E iv (concat chunks))).
  Proof.
    unfold ofb_stream, stream_all, ofb_init.
    destruct (run_good 16 false (ofb_encrypt E) _ iv chunks ltac:(lia) ofb_good I)
      as (c & outs & Hr & _ & k & pre & Hm & Hpre & Hc & Hok & _).
    rewrite Hr, Hm. unfold ofb_finish, buf_ok in *.
    replace (16 <=? length (bbuf c)) with false by lia.
    rewrite !ofb_encrypt_eq in *. unfold scrypt in *.
    rewrite (sloop_app _ 16 ofb_step ltac:(lia) k iv pre (bbuf c) Hpre), Hc.
    destruct (sloop _ 16 ofb_step (length (bbuf c)) (bst c) (bbuf c)) as [s2 o2]. reflexivity.
  Qed.
  Theorem ofb_written iv chunks d :
    match buf_run 16 false (ofb_encrypt E) (ofb_init iv) chunks with
    | None => False
    | Some (c, _) => match ofb_update E c d with None => False | Some (_, o) => length o <= query16 (length d) end
    end.
  Proof. apply (written16_good false _ _ iv chunks d ofb_good I). Qed.

  (* ------------------------------------------------------------------ CFB-s *)
  Definition cfb_enc_step (s : nat) (iv seg : list N) : list N * list N :=
    let o := xor_bytes seg (E iv) in (cfb_shift s iv o, o).
  Definition cfb_dec_step (s : nat) (iv seg : list N) : list N * list N :=
    (cfb_shift s iv seg, xor_bytes seg (E iv)).
  Lemma cfb_enc_loop_sloop s f : forall iv inp, cfb_enc_loop E s f iv inp = sloop _ s (cfb_enc_step s) f iv inp.
  Proof.
    induction f as [|f IH]; intros iv inp; cbn [cfb_enc_loop sloop]; [reflexivity|].
    destruct inp as [|x inp]; [reflexivity|]. unfold cfb_enc_step at 1. rewrite IH. reflexivity.
  Qed.
  Lemma cfb_dec_loop_sloop s f : forall iv inp, cfb_dec_loop E s f iv inp = sloop _ s (cfb_dec_step s) f iv inp.
  Proof.
    induction f as [|f IH]; intros iv inp; cbn [cfb_dec_loop sloop]; [reflexivity|].
    destruct inp as [|x inp]; [reflexivity|]. unfold cfb_dec_step at 1. rewrite IH. reflexivity.
  Qed.
  Lemma cfb_encrypt_eq s iv d : cfb_encrypt E s iv d = scrypt _ s (cfb_enc_step s) iv d.
  Proof. apply cfb_enc_loop_sloop. Qed.
  Lemma cfb_decrypt_eq s iv d : cfb_decrypt E s iv d = scrypt _ s (cfb_dec_step s) iv d.
  Proof. apply cfb_dec_loop_sloop. Qed.
  Lemma cfb_enc_good s : 1 <= s <= 16 -> crypt_good s (fun _ => True) (cfb_encrypt E s).
  Proof.
    intros Hs. apply (crypt_good_ext s _ _ _ (cfb_encrypt_eq s)). apply scrypt_good; [lia|].
    intros iv seg H. unfold cfb_enc_step. cbn [snd]. rewrite xor_bytes_length, E_len. lia.
  Qed.
  Lemma cfb_dec_good s : 1 <= s <= 16 -> crypt_good s (fun _ => True) (cfb_decrypt E s).
  Proof.
    intros Hs. apply (crypt_good_ext s _ _ _ (cfb_decrypt_eq s)). apply scrypt_good; [lia|].
    intros iv seg H. unfold cfb_dec_step. cbn [snd]. rewrite xor_bytes_length, E_len. lia.
  Qed.

  Definition cfb_encrypt_stream s iv chunks :=
    match cfb_init s iv with
    | None => None
    | Some c0 => stream_all s false (cfb_encrypt E s) (cfb_encrypt_finish E s) c0 chunks
    end.
  Definition cfb_decrypt_stream s iv chunks :=
    match cfb_init s iv with
    | None => None
    | Some c0 => stream_all s false (cfb_decrypt E s) (cfb_decrypt_finish E s) c0 chunks
    end.

  Lemma cfb_init_ok s iv : 1 <= s <= 16 -> cfb_init s iv = Some (mkb iv []).
  Proof. intros Hs. unfold cfb_init. replace (s <? 1) with false by lia. replace (16 <? s) with false by lia. reflexivity. Qed.
  Lemma cfb_init_bad s iv : ~ (1 <= s <= 16) -> cfb_init s iv = None.
  Proof. intros Hs. unfold cfb_init. destruct (s <? 1) eqn:H1; [reflexivity|]. destruct (16 <? s) eqn:H2; [reflexivity|]. lia. Qed.

  Theorem cfb_encrypt_stream_eq s iv chunks : 1 <= s <= 16 ->
    cfb_encrypt_stream s iv chunks = Some (snd (cfb_encrypt E s iv (concat chunks))).
  Proof.
    intros Hs. unfold cfb_encrypt_stream. rewrite cfb_init_ok by exact Hs. unfold stream_all.
    destruct (run_good s false (cfb_encrypt E s) _ iv chunks ltac:(lia) (cfb_enc_good s Hs) I)
      as (c & outs & Hr & _ & k & pre & Hm & Hpre & Hc & Hok & _).
    rewrite Hr, Hm. unfold cfb_encrypt_finish, buf_ok in *.
    replace (s <=? length (bbuf c)) with false by lia.
    rewrite !cfb_encrypt_eq in *. unfold scrypt in *.
    rewrite (sloop_app _ s (cfb_enc_step s) ltac:(lia) k iv pre (bbuf c) Hpre), Hc.
    destruct (sloop _ s (cfb_enc_step s) (length (bbuf c)) (bst c) (bbuf c)) as [s2 o2]. reflexivity.
  Qed.
  Theorem cfb_decrypt_stream_eq s iv chunks : 1 <= s <= 16 ->
    cfb_decrypt_stream s iv chunks = Some (snd (cfb_decrypt E s iv (concat chunks))).
  Proof.
    intros Hs. unfold cfb_decrypt_stream. rewrite cfb_init_ok by exact Hs. unfold stream_all.
    destruct (run_good s false (cfb_decrypt E s) _ iv chunks ltac:(lia) (cfb_dec_good s Hs) I)
      as (c & outs & Hr & _ & k & pre & Hm & Hpre & Hc & Hok & _).
    rewrite Hr, Hm. unfold cfb_decrypt_finish, buf_ok in *.
    replace (s <=? length (bbuf c)) with false by lia.
    rewrite !cfb_decrypt_eq in *. unfold scrypt in *.
    rewrite (sloop_app _ s (cfb_dec_step s) ltac:(lia) k iv pre (bbuf c) Hpre), Hc.
    destruct (sloop _ s (cfb_dec_step s) (length (bbuf c)) (bst c) (bbuf c)) as [s2 o2]. reflexivity.
  Qed.

  (* bytes written by a CFB update never exceed the NULL-buffer answer inlen + 16 *)
  Lemma cfb_written_gen s (cr : list N -> list N -> list N * list N) (iv : list N) chunks d :
    1 <= s <= 16 -> crypt_good s (fun _ => True) cr ->
    match buf_run s false cr (mkb iv []) chunks with
    | None => False
    | Some (c, _) => match buf_update s false cr c d with None => False | Some (_, o) => length o <= cfb_query (length d) end
    end.
  Proof.
    intros Hs G. destruct (run_good s false cr _ iv chunks ltac:(lia) G I) as (c & outs & Hr & Hi).
    rewrite Hr. destruct G as (G1 & G2 & G3).
    assert (Hex : exists c' o, buf_update s false cr c d = Some (c', o)
                  /\ Inv _ s false cr (fun _ => True) iv (concat chunks ++ d) c' (concat outs ++ o))
      by (apply update_inv; try assumption; lia).
    destruct Hex as (c' & o & Hu & _). rewrite Hu.
    assert (Huw := update_written _ s false cr (fun _ => True)).
    destruct (Huw ltac:(lia) G1 G2 G3 iv _ c _ d c' o Hi Hu) as (_ & Hlen & _).
    destruct Hi as (_ & k & pre & _ & _ & _ & Hok & _). unfold buf_ok, cfb_query in *. lia.
  Qed.
  Theorem cfb_encrypt_written s iv chunks d : 1 <= s <= 16 ->
    match buf_run s false (cfb_encrypt E s) (mkb iv []) chunks with
    | None => False
    | Some (c, _) => match cfb_encrypt_update E s c d with None => False | Some (_, o) => length o <= cfb_query (length d) end
    end.
  Proof. intros Hs. apply (cfb_written_gen s _ iv chunks d Hs (cfb_enc_good s Hs)). Qed.
  Theorem cfb_decrypt_written s iv chunks d : 1 <= s <= 16 ->
    match buf_run s false (cfb_decrypt E s) (mkb iv []) chunks with
    | None => False
    | Some (c, _) => match cfb_decrypt_update E s c d with None => False | Some (_, o) => length o <= cfb_query (length d) end
    end.
  Proof. intros Hs. apply (cfb_written_gen s _ iv chunks d Hs (cfb_dec_good s Hs)). Qed.
End ModeProofs.

(* Before fix 99a4fc4 the CFB updates answered query16 like the other modes; that bound is
   false: sbytes = 3, two pending bytes, then 16 bytes: 18 bytes are written (DESIGN 5 #9). *)
Example cfb_prefix_query16_refuted :
  let E0 := fun _ : list N => zeros 16 in
  match buf_run 3 false (cfb_encrypt E0 3) (mkb (zeros 16) []) [[0%N; 0%N]] with
  | Some (c, _) =>
    match cfb_encrypt_update E0 3 c (zeros 16) with
    | Some (_, o) => length o = 18 /\ query16 16 = 16
    | None => False
    end
  | None => False
  end.
Proof. vm_compute. split; reflexivity. Qed.

(* ===================================================================== *)
(* segments, and loops as chains over the list of segments (the shape of the Specs) *)
Lemma segs_f_fuel B : 0 < B -> forall f1 f2 l, length l <= f1 -> length l <= f2 -> segs_f B f1 l = segs_f B f2 l.
Proof.
  intros HB. induction f1 as [|f1 IH]; intros f2 l H1 H2.
  - assert (l = []) by (apply length_zero_nil; lia). subst. destruct f2; reflexivity.
  - destruct f2 as [|f2].
    + assert (l = []) by (apply length_zero_nil; lia). subst. reflexivity.
    + cbn [segs_f]. destruct l as [|x l]; [reflexivity|]. f_equal.
      apply IH; rewrite skipn_length; cbn [length] in *; lia.
Qed.
Lemma segs_nil B : segs B [] = [].
Proof. reflexivity. Qed.
Lemma segs_cons B l : 0 < B -> l <> [] -> segs B l = firstn B l :: segs B (skipn B l).
Proof.
  intros HB Hl. unfold segs. destruct l as [|x l]; [congruence|].
  cbn [length segs_f]. f_equal. apply segs_f_fuel; [exact HB | |]; rewrite skipn_length; cbn [length]; lia.
Qed.
Lemma segs_app_block B a r : 0 < B -> length a = B -> segs B (a ++ r) = a :: segs B r.
Proof.
  intros HB Ha. rewrite segs_cons; [|exact HB | destruct a; [cbn in Ha; lia | discriminate]].
  rewrite firstn_app_exact, skipn_app_exact by lia. reflexivity.
Qed.
Lemma concat_segs B l : 0 < B -> concat (segs B l) = l.
Proof.
  intros HB. remember (length l) as n eqn:Hn. revert l Hn.
  induction n as [n IH] using lt_wf_ind. intros l Hn.
  destruct l as [|x l]; [reflexivity|].
  rewrite segs_cons by (try exact HB; discriminate). cbn [concat].
  rewrite (IH (length (skipn B (x :: l)))); [apply firstn_skipn | | reflexivity].
  rewrite skipn_length. cbn [length] in *. lia.
Qed.

Section Chain.
  Variable St : Type.
  Variable step : St -> list N -> St * list N.
  Fixpoint chain (st : St) (ps : list (list N)) : St * list (list N) :=
    match ps with
    | [] => (st, [])
    | p :: r => let '(st', o) := step st p in let '(st2, os) := chain st' r in (st2, o :: os)
    end.

  Lemma bloop_chain B : 0 < B -> forall k st m, length m = k * B ->
    bloop St B step k st m = let '(s, os) := chain st (segs B m) in (s, concat os).
  Proof.
    intros HB. induction k as [|k IH]; intros st m Hm.
    - apply length_zero_nil in Hm. subst. reflexivity.
    - cbn [Nat.mul] in Hm. cbn [bloop].
      rewrite segs_cons by (try exact HB; intros ->; cbn in Hm; lia). cbn [chain].
      destruct (step st (firstn B m)) as [st' o].
      rewrite IH by (rewrite skipn_length; lia).
      destruct (chain st' (segs B (skipn B m))) as [s os]. reflexivity.
  Qed.

  Lemma sloop_chain s : 0 < s -> forall f st m, length m <= f ->
    sloop St s step f st m = let '(s', os) := chain st (segs s m) in (s', concat os).
  Proof.
    intros Hs. induction f as [|f IH]; intros st m Hm.
    - assert (m = []) by (apply length_zero_nil; lia). subst. reflexivity.
    - destruct m as [|x m]; [reflexivity|].
      set (l := x :: m) in *. assert (Hl : l <> []) by (unfold l; discriminate).
      rewrite sloop_step by exact Hl. cbv zeta.
      rewrite (segs_cons s l Hs Hl). cbn [chain].
      assert (Hf : firstn (Nat.min (length l) s) l = firstn s l).
      { destruct (Nat.le_ge_cases (length l) s).
        - rewrite Nat.min_l by lia. rewrite !firstn_all2 by lia. reflexivity.
        - rewrite Nat.min_r by lia. reflexivity. }
      assert (Hk : skipn (Nat.min (length l) s) l = skipn s l).
      { destruct (Nat.le_ge_cases (length l) s).
        - rewrite Nat.min_l by lia. rewrite !skipn_all2 by lia. reflexivity.
        - rewrite Nat.min_r by lia. reflexivity. }
      rewrite Hf, Hk. destruct (step st (firstn s l)) as [st' o].
      rewrite IH by (rewrite skipn_length; unfold l in *; cbn [length] in *; lia).
      destruct (chain st' (segs s (skipn s l))) as [s' os]. reflexivity.
  Qed.
End Chain.

(* two loops in lock step: the second undoes the first block by block *)
Section LockStep.
  Variable St : Type.
  Variable step1 step2 : St -> list N -> St * list N.
  Variable P : St -> Prop.
  Variable Q : list N -> Prop.
  Hypothesis undo : forall st seg, P st -> Q seg ->
    step2 st (snd (step1 st seg)) = (fst (step1 st seg), seg)
    /\ length (snd (step1 st seg)) = length seg /\ P (fst (step1 st seg)).

  Lemma chain_undo ps : forall st, P st -> Forall Q ps ->
    chain St step2 st (snd (chain St step1 st ps)) = (fst (chain St step1 st ps), ps)
    /\ map (@length N) (snd (chain St step1 st ps)) = map (@length N) ps.
  Proof.
    induction ps as [|p r IH]; intros st HP Hf; cbn [chain]; [split; reflexivity|].
    inversion Hf as [|? ? Hq Hr]; subst.
    destruct (undo st p HP Hq) as (Hu & Hlen & HP').
    destruct (step1 st p) as [st' o]. cbn [fst snd] in *.
    destruct (IH st' HP' Hr) as (IH1 & IH2).
    destruct (chain St step1 st' r) as [st2 os]. cbn [fst snd chain map] in *.
    rewrite Hu, IH1, Hlen, IH2. split; reflexivity.
  Qed.
End LockStep.

Lemma segs_Forall B l : 0 < B -> bytes_ok l = true ->
  Forall (fun p => length p <= B /\ bytes_ok p = true) (segs B l).
Proof.
  intros HB. remember (length l) as n eqn:Hn. revert l Hn.
  induction n as [n IH] using lt_wf_ind. intros l Hn Hok.
  destruct l as [|x l]; [constructor|].
  rewrite segs_cons by (try exact HB; discriminate). constructor.
  - split; [rewrite firstn_length; lia | apply bytes_ok_firstn, Hok].
  - apply (IH (length (skipn B (x :: l)))); [|reflexivity | apply bytes_ok_skipn, Hok].
    rewrite skipn_length. cbn [length] in *. lia.
Qed.


(* the shape of a segmentation: full segments, then one last segment of 1..B bytes *)
Inductive segshape (B : nat) : list (list N) -> Prop :=
| shape_nil : segshape B []
| shape_last p : 1 <= length p <= B -> segshape B [p]
| shape_cons p q r : length p = B -> segshape B (q :: r) -> segshape B (p :: q :: r).

Lemma segs_shape B l : 0 < B -> segshape B (segs B l).
Proof.
  intros HB. remember (length l) as n eqn:Hn. revert l Hn.
  induction n as [n IH] using lt_wf_ind. intros l Hn.
  destruct l as [|x l]; [constructor|].
  set (m := x :: l) in *. assert (Hm : m <> []) by (unfold m; discriminate).
  rewrite (segs_cons B m HB Hm).
  destruct (skipn B m) as [|y t] eqn:Hs.
  - rewrite segs_nil. constructor. rewrite firstn_length.
    assert (length (skipn B m) = 0) by (rewrite Hs; reflexivity). rewrite skipn_length in H.
    unfold m in *. cbn [length] in *. lia.
  - assert (Hlen : length (skipn B m) = S (length t)) by (rewrite Hs; reflexivity).
    rewrite skipn_length in Hlen.
    specialize (IH (length (y :: t)) ltac:(cbn [length]; unfold m in *; cbn [length] in *; lia) (y :: t) eq_refl).
    rewrite (segs_cons B (y :: t) HB ltac:(discriminate)) in *.
    constructor; [rewrite firstn_length; lia | exact IH].
Qed.

Lemma segshape_lengths B ps os : map (@length N) os = map (@length N) ps -> segshape B ps -> segshape B os.
Proof.
  intros Hl Hs. revert os Hl. induction Hs as [|p Hp|p q r Hp Hs IH]; intros os Hl.
  - destruct os; [constructor | discriminate].
  - destruct os as [|o [|o2 os]]; try discriminate. injection Hl as Hl. constructor. lia.
  - destruct os as [|o [|o2 os]]; try discriminate. cbn [map] in Hl. injection Hl as H1 H2 H3.
    constructor; [lia|]. apply IH. cbn [map]. rewrite H2, H3. reflexivity.
Qed.

Lemma segs_concat_shape B os : 0 < B -> segshape B os -> segs B (concat os) = os.
Proof.
  intros HB Hs. induction Hs as [|p Hp|p q r Hp Hs IH].
  - reflexivity.
  - cbn [concat]. rewrite app_nil_r.
    assert (Hne : p <> []) by (destruct p; [cbn in Hp; lia | discriminate]).
    rewrite (segs_cons B p HB Hne).
    rewrite firstn_all2, skipn_all2 by lia. reflexivity.
  - cbn [concat] in *. rewrite segs_app_block by assumption. rewrite IH. reflexivity.
Qed.

Lemma concat_length_map (a b : list (list N)) :
  map (@length N) a = map (@length N) b -> length (concat a) = length (concat b).
Proof.
  revert b; induction a as [|x a IH]; intros [|y b] H; try discriminate; [reflexivity|].
  cbn [map concat] in *. injection H as Hx Hr. rewrite !app_length, Hx, (IH b Hr). reflexivity.
Qed.

(* decrypting an encryption, for two chains in lock step over B-byte segments *)
Lemma chains_invert St step1 step2 (P : St -> Prop) (Q : list N -> Prop) B st m : 0 < B ->
  (forall st seg, P st -> Q seg ->
     step2 st (snd (step1 st seg)) = (fst (step1 st seg), seg)
     /\ length (snd (step1 st seg)) = length seg /\ P (fst (step1 st seg))) ->
  P st -> Forall Q (segs B m) ->
  let c := concat (snd (chain St step1 st (segs B m))) in
  length c = length m /\ concat (snd (chain St step2 st (segs B c))) = m.
Proof.
  intros HB Hundo HP HQ c.
  destruct (chain_undo St step1 step2 P Q Hundo (segs B m) st HP HQ) as (H1 & H2).
  assert (Hseg : segs B c = snd (chain St step1 st (segs B m))).
  { unfold c. apply segs_concat_shape; [exact HB|]. apply (segshape_lengths B (segs B m)); [exact H2|].
    apply segs_shape, HB. }
  split.
  - unfold c. rewrite <- (concat_segs B m HB) at 2. apply concat_length_map, H2.
  - rewrite Hseg, H1. cbn [snd]. apply concat_segs, HB.
Qed.

Lemma segs_Forall_exact B k l : 0 < B -> length l = k * B -> bytes_ok l = true ->
  Forall (fun p => length p = B /\ bytes_ok p = true) (segs B l).
Proof.
  intros HB. revert l. induction k as [|k IH]; intros l Hl Hok.
  - apply length_zero_nil in Hl. subst. constructor.
  - cbn [Nat.mul] in Hl.
    assert (Hne : l <> []) by (intros ->; cbn in Hl; lia).
    rewrite (segs_cons B l HB Hne). constructor.
    + split; [rewrite firstn_length_le; lia | apply bytes_ok_firstn, Hok].
    + apply IH; [rewrite skipn_length; lia | apply bytes_ok_skipn, Hok].
Qed.

(* ===================================================================== *)
Lemma lt_0_16 : 0 < 16. Proof. lia. Qed.

(* Impl = Spec and decrypt . encrypt = id, per mode *)
Section ModeSpecs.
  Variable E : list N -> list N.
  Variable D : list N -> list N.
  Hypothesis E_len : forall b, length (E b) = 16.
  Hypothesis D_len : forall b, length (D b) = 16.
  Hypothesis E_ok : forall b, bytes_ok (E b) = true.
  Hypothesis DE : forall b, length b = 16 -> bytes_ok b = true -> D (E b) = b.

  Definition blk16 (p : list N) : Prop := length p = 16 /\ bytes_ok p = true.

  (* ------------------------------------------------------------------ ECB *)
  Lemma chain_ecb F ps : snd (chain unit (ecb_step F) tt ps) = map F ps.
  Proof.
    induction ps as [|p r IH]; cbn [chain map]; [reflexivity|].
    unfold ecb_step at 1. destruct (chain unit (ecb_step F) tt r) as [[] os]. cbn [snd] in *. rewrite IH. reflexivity.
  Qed.

  Theorem ecb_impl_eq_spec F k m : length m = k * 16 -> ecb_blocks F k m = ecb_spec F m.
  Proof.
    intros Hm. pose proof (ecb_blocks_bloop F k m) as H.
    rewrite (bloop_chain unit (ecb_step F) 16 lt_0_16 k tt m Hm) in H.
    pose proof (chain_ecb F (segs 16 m)) as Hc.
    destruct (chain unit (ecb_step F) tt (segs 16 m)) as [u os]. cbn [snd] in Hc.
    injection H as _ H. rewrite H, Hc. reflexivity.
  Qed.

  Theorem ecb_dec_enc k m : length m = k * 16 -> bytes_ok m = true ->
    ecb_blocks D k (ecb_blocks E k m) = m.
  Proof.
    intros Hm Hok.
    destruct (chains_invert unit (ecb_step E) (ecb_step D) (fun _ => True) blk16 16 tt m lt_0_16) as (Hl & Hi).
    - intros [] seg _ [Hs Ho]. unfold ecb_step. cbn [fst snd]. rewrite DE by assumption. rewrite E_len. auto.
    - exact I.
    - apply (segs_Forall_exact 16 k); [lia | exact Hm | exact Hok].
    - rewrite !chain_ecb in *. fold (ecb_spec E m) in *. fold (ecb_spec D (ecb_spec E m)) in Hi.
      rewrite (ecb_impl_eq_spec E k m Hm). rewrite (ecb_impl_eq_spec D k); [exact Hi | lia].
  Qed.

  (* ------------------------------------------------------------------ CBC *)
  Lemma chain_cbc_enc ps : forall iv, snd (chain _ (cbc_enc_step E) iv ps) = cbc_enc_chain E iv ps.
  Proof.
    induction ps as [|p r IH]; intros iv; cbn [chain cbc_enc_chain]; [reflexivity|].
    unfold cbc_enc_step at 1. specialize (IH (E (xor_bytes p iv))).
    destruct (chain _ (cbc_enc_step E) (E (xor_bytes p iv)) r) as [s os]. cbn [snd] in *. rewrite IH. reflexivity.
  Qed.
  Lemma chain_cbc_dec ps : forall iv, snd (chain _ (cbc_dec_step D) iv ps) = cbc_dec_chain D iv ps.
  Proof.
    induction ps as [|p r IH]; intros iv; cbn [chain cbc_dec_chain]; [reflexivity|].
    unfold cbc_dec_step at 1. specialize (IH p).
    destruct (chain _ (cbc_dec_step D) p r) as [s os]. cbn [snd] in *. rewrite IH. reflexivity.
  Qed.

  Lemma cbc_enc_loop_spec k iv m : length m = k * 16 -> snd (cbc_enc_loop E k iv m) = cbc_enc_spec E iv m.
  Proof.
    intros Hm. rewrite cbc_enc_loop_bloop, (bloop_chain _ (cbc_enc_step E) 16 lt_0_16 k iv m Hm).
    pose proof (chain_cbc_enc (segs 16 m) iv) as Hc.
    destruct (chain _ (cbc_enc_step E) iv (segs 16 m)) as [s os]. cbn [snd] in *. rewrite Hc. reflexivity.
  Qed.
  Lemma cbc_dec_blocks_spec k iv c : length c = k * 16 -> snd (cbc_decrypt_blocks D k iv c) = cbc_dec_spec D iv c.
  Proof.
    intros Hm. rewrite cbc_dec_blocks_bloop, (bloop_chain _ (cbc_dec_step D) 16 lt_0_16 k iv c Hm).
    pose proof (chain_cbc_dec (segs 16 c) iv) as Hc.
    destruct (chain _ (cbc_dec_step D) iv (segs 16 c)) as [s os]. cbn [snd] in *. rewrite Hc. reflexivity.
  Qed.

  Lemma pkcs7_pad_length m : exists k, length (pkcs7_pad m) = (k + 1) * 16 /\ k = length m / 16.
  Proof.
    exists (length m / 16). split; [|reflexivity]. unfold pkcs7_pad. rewrite app_length, repeat_length.
    pose proof (Nat.div_mod (length m) 16 ltac:(lia)). pose proof (Nat.mod_upper_bound (length m) 16 ltac:(lia)). lia.
  Qed.

  Theorem cbc_padding_encrypt_eq_spec iv m : cbc_padding_encrypt E iv m = cbc_pad_enc_spec E iv m.
  Proof.
    set (k := length m / 16).
    set (pre := firstn (k * 16) m). set (buf := skipn (k * 16) m).
    assert (Hd : length m = 16 * k + length m mod 16) by (apply Nat.div_mod; lia).
    assert (Hr : length m mod 16 < 16) by (apply Nat.mod_upper_bound; lia).
    assert (Hpre : length pre = k * 16) by (unfold pre; rewrite firstn_length_le; lia).
    assert (Hbuf : length buf = length m mod 16) by (unfold buf; rewrite skipn_length; lia).
    assert (Hm : m = pre ++ buf) by (unfold pre, buf; rewrite firstn_skipn; reflexivity).
    destruct (cbc_enc_loop E k iv pre) as [iv1 o1] eqn:Hl.
    rewrite Hm at 1. rewrite (cbc_padding_encrypt_split E D E_len D_len k pre buf iv iv1 o1 Hpre ltac:(lia) Hl).
    unfold cbc_pad_enc_spec.
    set (padv := repeat (N.of_nat (16 - length m mod 16)) (16 - length m mod 16)).
    assert (Hpad : pkcs7_pad m = pre ++ (buf ++ padv)).
    { unfold pkcs7_pad. fold padv. rewrite Hm at 1. rewrite <- app_assoc. reflexivity. }
    assert (Hlast : length (buf ++ padv) = 1 * 16) by (unfold padv; rewrite app_length, repeat_length; lia).
    rewrite Hpad. rewrite <- (cbc_enc_loop_spec (k + 1)) by (rewrite !app_length in *; lia).
    rewrite cbc_enc_loop_bloop, (bloop_app _ 16 (cbc_enc_step E) lt_0_16 k 1 iv pre _ Hpre).
    rewrite <- (cbc_enc_loop_bloop E k iv pre), Hl. rewrite <- (cbc_enc_loop_bloop E 1 iv1 (buf ++ padv)).
    unfold cbc_padding_encrypt. rewrite Hbuf.
    replace (length m mod 16 mod 16) with (length m mod 16) by (symmetry; apply Nat.mod_small; lia).
    replace (length m mod 16 / 16) with 0 by (symmetry; apply Nat.div_small; lia).
    rewrite Nat.sub_diag. cbn [skipn Nat.eqb negb]. fold padv.
    unfold cbc_encrypt_blocks.
    destruct (cbc_enc_loop E 1 iv1 (buf ++ padv)) as [x o2]. cbn [snd app]. reflexivity.
  Qed.

  Lemma last_app_block (a blk : list N) : length blk = 16 -> last (a ++ blk) 0%N = nth 15 blk 0%N.
  Proof.
    intros H. do 16 (destruct blk as [|? blk]; [discriminate H|]). destruct blk; [|discriminate H].
    rewrite last_last || idtac.
    change [n; n0; n1; n2; n3; n4; n5; n6; n7; n8; n9; n10; n11; n12; n13; n14]
      with ([n; n0; n1; n2; n3; n4; n5; n6; n7; n8; n9; n10; n11; n12; n13] ++ [n14]).
    rewrite app_assoc, last_last. reflexivity.
  Qed.

  Lemma cbc_dec_state_len k : forall iv pre, length iv = 16 -> length pre = k * 16 ->
    length (fst (cbc_decrypt_blocks D k iv pre)) = 16.
  Proof.
    induction k as [|k IH]; intros iv pre Hiv Hpre; cbn [cbc_decrypt_blocks]; [exact Hiv|].
    cbn [Nat.mul] in Hpre.
    specialize (IH (firstn 16 pre) (skipn 16 pre) ltac:(rewrite firstn_length_le; lia) ltac:(rewrite skipn_length; lia)).
    destruct (cbc_decrypt_blocks D k (firstn 16 pre) (skipn 16 pre)). exact IH.
  Qed.

  Lemma skipn_app_plus {A} (a b : list A) k : skipn (length a + k) (a ++ b) = skipn k b.
  Proof. induction a as [|x a IH]; [reflexivity|]. cbn [length Nat.add app skipn]. exact IH. Qed.

  Theorem cbc_padding_decrypt_eq_spec iv c : length iv = 16 ->
    cbc_padding_decrypt D iv c = cbc_pad_dec_spec D iv c.
  Proof.
    intros Hiv. unfold cbc_padding_decrypt, cbc_pad_dec_spec.
    destruct (length c =? 0) eqn:H0; [reflexivity|]. cbn [orb].
    destruct (length c mod 16 =? 0) eqn:Hmod; cbn [negb orb]; [|reflexivity].
    apply Nat.eqb_neq in H0. apply Nat.eqb_eq in Hmod.
    pose proof (Nat.div_mod (length c) 16 ltac:(lia)) as Hd. rewrite Hmod in Hd.
    set (q := length c / 16) in *. assert (Hq : 1 <= q) by lia.
    replace (length c <? 16) with false by lia.
    set (k := q - 1). assert (Hk : q = k + 1) by lia.
    set (pre := firstn (k * 16) c). set (lastb := skipn (k * 16) c).
    assert (Hpre : length pre = k * 16) by (unfold pre; rewrite firstn_length_le; lia).
    assert (Hlb : length lastb = 1 * 16) by (unfold lastb; rewrite skipn_length; lia).
    assert (Hc : c = pre ++ lastb) by (unfold pre, lastb; rewrite firstn_skipn; reflexivity).
    replace (length c - 16) with (k * 16) by lia. fold lastb.
    rewrite <- (cbc_dec_blocks_spec (k + 1)) by lia.
    rewrite (cbc_dec_blocks_bloop D (k + 1)). rewrite Hc at 3.
    rewrite (bloop_app _ 16 (cbc_dec_step D) lt_0_16 k 1 iv pre lastb Hpre).
    rewrite <- !cbc_dec_blocks_bloop.
    assert (Hfirst : (if 16 <? length c then cbc_decrypt_blocks D k iv c else (iv, [])) = cbc_decrypt_blocks D k iv pre).
    { destruct (16 <? length c) eqn:Hlt.
      - rewrite Hc at 1. rewrite cbc_dec_blocks_bloop, bloop_prefix by lia. rewrite <- cbc_dec_blocks_bloop. reflexivity.
      - assert (k = 0) by (apply Nat.ltb_ge in Hlt; lia). rewrite H. reflexivity. }
    rewrite Hfirst.
    assert (Hst : length (fst (cbc_decrypt_blocks D k iv pre)) = 16).
    { apply cbc_dec_state_len; assumption. }
    destruct (cbc_decrypt_blocks D k iv pre) as [iv1 o1]. cbn [fst] in Hst.
    cbn [cbc_decrypt_blocks bloop]. unfold cbc_dec_step. rewrite (firstn_all2 lastb) by lia.
    set (block := xor_bytes (D lastb) iv1).
    assert (Hblock : length block = 16) by (unfold block; rewrite xor_bytes_length, D_len, Hst; reflexivity).
    rewrite app_nil_r. cbn [snd]. unfold pkcs7_unpad.
    rewrite (last_app_block o1 block Hblock).
    destruct ((nth 15 block 0 <? 1)%N || (16 <? nth 15 block 0)%N) eqn:Hp; [reflexivity|].
    f_equal. apply orb_false_iff in Hp. destruct Hp as [Hp1 Hp2].
    apply N.ltb_ge in Hp1, Hp2.
    rewrite app_length, Hblock.
    replace (length o1 + 16 - N.to_nat (nth 15 block 0%N)) with (length o1 + (16 - N.to_nat (nth 15 block 0%N))) by lia.
    rewrite firstn_app_2. reflexivity.
  Qed.

  Theorem sm4_cbc_padding_decrypt_eq_spec iv c : length iv = 16 ->
    sm4_cbc_padding_decrypt D iv c = cbc_pad_dec_spec_strict D iv c.
  Proof.
    intros Hiv. unfold sm4_cbc_padding_decrypt, cbc_pad_dec_spec_strict.
    destruct (length c =? 0) eqn:H0; [reflexivity|]. cbn [orb].
    destruct (length c mod 16 =? 0) eqn:Hmod; cbn [negb orb]; [|reflexivity].
    apply Nat.eqb_neq in H0. apply Nat.eqb_eq in Hmod.
    pose proof (Nat.div_mod (length c) 16 ltac:(lia)) as Hd. rewrite Hmod in Hd.
    set (q := length c / 16) in *. assert (Hq : 1 <= q) by lia.
    replace (length c <? 16) with false by lia.
    set (k := q - 1). assert (Hk : q = k + 1) by lia.
    set (pre := firstn (k * 16) c). set (lastb := skipn (k * 16) c).
    assert (Hpre : length pre = k * 16) by (unfold pre; rewrite firstn_length_le; lia).
    assert (Hlb : length lastb = 1 * 16) by (unfold lastb; rewrite skipn_length; lia).
    assert (Hc : c = pre ++ lastb) by (unfold pre, lastb; rewrite firstn_skipn; reflexivity).
    replace (length c - 16) with (k * 16) by lia. fold lastb.
    rewrite <- (cbc_dec_blocks_spec (k + 1)) by lia.
    rewrite (cbc_dec_blocks_bloop D (k + 1)). rewrite Hc at 3.
    rewrite (bloop_app _ 16 (cbc_dec_step D) lt_0_16 k 1 iv pre lastb Hpre).
    rewrite <- !cbc_dec_blocks_bloop.
    assert (Hfirst : (if 16 <? length c then cbc_decrypt_blocks D k iv c else (iv, [])) = cbc_decrypt_blocks D k iv pre).
    { destruct (16 <? length c) eqn:Hlt.
      - rewrite Hc at 1. rewrite cbc_dec_blocks_bloop, bloop_prefix by lia. rewrite <- cbc_dec_blocks_bloop. reflexivity.
      - assert (k = 0) by (apply Nat.ltb_ge in Hlt; lia). rewrite H. reflexivity. }
    rewrite Hfirst.
    assert (Hst : length (fst (cbc_decrypt_blocks D k iv pre)) = 16).
    { apply cbc_dec_state_len; assumption. }
    destruct (cbc_decrypt_blocks D k iv pre) as [iv1 o1]. cbn [fst] in Hst.
    cbn [cbc_decrypt_blocks bloop]. unfold cbc_dec_step. rewrite (firstn_all2 lastb) by lia.
    set (block := xor_bytes (D lastb) iv1).
    assert (Hblock : length block = 16) by (unfold block; rewrite xor_bytes_length, D_len, Hst; reflexivity).
    rewrite app_nil_r. cbn [snd]. unfold pkcs7_unpad_strict.
    rewrite (last_app_block o1 block Hblock).
    destruct ((nth 15 block 0 <? 1)%N || (16 <? nth 15 block 0)%N) eqn:Hp; [reflexivity|].
    apply orb_false_iff in Hp. destruct Hp as [Hp1 Hp2].
    apply N.ltb_ge in Hp1, Hp2.
    rewrite app_length, Hblock.
    replace (length o1 + 16 <? N.to_nat (nth 15 block 0%N)) with false by lia.
    replace (length o1 + 16 - N.to_nat (nth 15 block 0%N)) with (length o1 + (16 - N.to_nat (nth 15 block 0%N))) by lia.
    rewrite skipn_app_plus, firstn_app_2. unfold pad_bytes_ok.
    destruct (forallb _ _); reflexivity.
  Qed.

  Lemma pkcs7_unpad_pad m : pkcs7_unpad (pkcs7_pad m) = Some m.
  Proof.
    unfold pkcs7_unpad, pkcs7_pad.
    set (p := 16 - length m mod 16).
    assert (Hp : 1 <= p <= 16) by (unfold p; pose proof (Nat.mod_upper_bound (length m) 16 ltac:(lia)); lia).
    assert (Hlast : last (m ++ repeat (N.of_nat p) p) 0%N = N.of_nat p).
    { destruct p as [|p']; [lia|]. replace (S p') with (p' + 1) at 2 by lia.
      rewrite repeat_app, app_assoc. cbn [repeat]. apply last_last. }
    rewrite Hlast.
    replace (N.of_nat p <? 1)%N with false by lia. replace (16 <? N.of_nat p)%N with false by lia.
    cbn [orb]. rewrite Nat2N.id, app_length, repeat_length.
    replace (length m + p - p) with (length m) by lia. rewrite firstn_app_exact by reflexivity. reflexivity.
  Qed.

  Lemma pkcs7_pad_ok m : bytes_ok m = true -> bytes_ok (pkcs7_pad m) = true.
  Proof.
    intros H. unfold pkcs7_pad. rewrite bytes_ok_app, H. cbn [andb].
    unfold bytes_ok. apply forallb_forall. intros x Hx. apply repeat_spec in Hx. subst x.
    pose proof (Nat.mod_upper_bound (length m) 16 ltac:(lia)). apply N.ltb_lt. lia.
  Qed.

  Lemma cbc_chain_invert iv P : length iv = 16 /\ bytes_ok iv = true ->
    Forall blk16 (segs 16 P) ->
    let c := cbc_enc_spec E iv P in length c = length P /\ cbc_dec_spec D iv c = P.
  Proof.
    intros Hiv HQ.
    pose proof (chains_invert _ (cbc_enc_step E) (cbc_dec_step D)
                  (fun st => length st = 16 /\ bytes_ok st = true) blk16 16 iv P lt_0_16) as H.
    cbv zeta in H. rewrite chain_cbc_enc in H. fold (cbc_enc_spec E iv P) in H.
    rewrite chain_cbc_dec in H. fold (cbc_dec_spec D iv (cbc_enc_spec E iv P)) in H.
    apply H; [|exact Hiv | exact HQ].
    intros st seg [Ls Os] [Lq Oq]. unfold cbc_enc_step, cbc_dec_step. cbn [fst snd].
    rewrite DE by (rewrite ?xor_bytes_length, ?Lq, ?Ls; try reflexivity; apply xor_bytes_ok; assumption).
    rewrite xor_bytes_cancel_r by lia. rewrite E_len, E_ok. auto.
  Qed.

  Theorem cbc_dec_enc iv m : length iv = 16 -> bytes_ok iv = true -> bytes_ok m = true ->
    cbc_padding_decrypt D iv (cbc_padding_encrypt E iv m) = Some m.
  Proof.
    intros Liv Oiv Om.
    rewrite cbc_padding_encrypt_eq_spec, cbc_padding_decrypt_eq_spec by exact Liv.
    unfold cbc_pad_enc_spec, cbc_pad_dec_spec.
    destruct (pkcs7_pad_length m) as (k & Hk & _).
    destruct (cbc_chain_invert iv (pkcs7_pad m) (conj Liv Oiv)) as (Hl & Hinv).
    { apply (segs_Forall_exact 16 (k + 1)); [lia | exact Hk | apply pkcs7_pad_ok, Om]. }
    rewrite Hl, Hk, Hinv.
    replace ((k + 1) * 16 =? 0) with false by lia.
    replace (((k + 1) * 16) mod 16 =? 0) with true by lia. cbn [orb negb].
    apply pkcs7_unpad_pad.
  Qed.

  Lemma forallb_repeat (v : N) n : forallb (fun b => (b =? v)%N) (repeat v n) = true.
  Proof. induction n as [|n IH]; [reflexivity|]. cbn [repeat forallb]. rewrite N.eqb_refl, IH. reflexivity. Qed.
  Lemma forallb_eq_repeat (v : N) l : forallb (fun b => (b =? v)%N) l = true -> l = repeat v (length l).
  Proof.
    induction l as [|x l IH]; intros H; [reflexivity|]. cbn [forallb] in H. apply andb_true_iff in H.
    destruct H as [Hx Hl]. apply N.eqb_eq in Hx. subst x. cbn [length repeat]. rewrite <- IH by exact Hl. reflexivity.
  Qed.
  Lemma last_pad m p : 1 <= p -> last (m ++ repeat (N.of_nat p) p) 0%N = N.of_nat p.
  Proof.
    intros Hp. destruct p as [|p']; [lia|]. replace (S p') with (p' + 1) at 2 by lia.
    rewrite repeat_app, app_assoc. cbn [repeat]. apply last_last.
  Qed.

  (* strict removal accepts exactly the strings  m || p^p  with 1 <= p <= 16 *)
  Theorem pkcs7_unpad_strict_iff P m :
    pkcs7_unpad_strict P = Some m <-> exists p, 1 <= p <= 16 /\ P = m ++ repeat (N.of_nat p) p.
  Proof.
    unfold pkcs7_unpad_strict. split.
    - set (pn := last P 0%N).
      destruct ((pn <? 1)%N || (16 <? pn)%N) eqn:Hr; [discriminate|].
      destruct (length P <? N.to_nat pn) eqn:Hl; [discriminate|].
      destruct (forallb (fun b => (b =? pn)%N) (skipn (length P - N.to_nat pn) P)) eqn:Hf; cbn [negb]; [|discriminate].
      intros H. injection H as <-.
      apply orb_false_iff in Hr. destruct Hr as [H1 H2]. apply N.ltb_ge in H1, H2. apply Nat.ltb_ge in Hl.
      exists (N.to_nat pn). split; [lia|]. rewrite N2Nat.id.
      apply forallb_eq_repeat in Hf. rewrite skipn_length in Hf.
      replace (length P - (length P - N.to_nat pn)) with (N.to_nat pn) in Hf by lia.
      rewrite <- Hf. symmetry. apply firstn_skipn.
    - intros (p & Hp & ->). rewrite last_pad by lia.
      replace (N.of_nat p <? 1)%N with false by lia. replace (16 <? N.of_nat p)%N with false by lia.
      cbn [orb]. rewrite Nat2N.id, app_length, repeat_length.
      replace (length m + p <? p) with false by lia.
      replace (length m + p - p) with (length m) by lia.
      rewrite skipn_app_exact, firstn_app_exact by reflexivity. rewrite forallb_repeat. reflexivity.
  Qed.

  Lemma pkcs7_unpad_strict_pad m : pkcs7_unpad_strict (pkcs7_pad m) = Some m.
  Proof.
    apply pkcs7_unpad_strict_iff. exists (16 - length m mod 16). split; [|reflexivity].
    pose proof (Nat.mod_upper_bound (length m) 16 ltac:(lia)). lia.
  Qed.

  Theorem sm4_cbc_dec_enc iv m : length iv = 16 -> bytes_ok iv = true -> bytes_ok m = true ->
    sm4_cbc_padding_decrypt D iv (cbc_padding_encrypt E iv m) = Some m.
  Proof.
    intros Liv Oiv Om.
    rewrite cbc_padding_encrypt_eq_spec, sm4_cbc_padding_decrypt_eq_spec by exact Liv.
    unfold cbc_pad_enc_spec, cbc_pad_dec_spec_strict.
    destruct (pkcs7_pad_length m) as (k & Hk & _).
    destruct (cbc_chain_invert iv (pkcs7_pad m) (conj Liv Oiv)) as (Hl & Hinv).
    { apply (segs_Forall_exact 16 (k + 1)); [lia | exact Hk | apply pkcs7_pad_ok, Om]. }
    rewrite Hl, Hk, Hinv.
    replace ((k + 1) * 16 =? 0) with false by lia.
    replace (((k + 1) * 16) mod 16 =? 0) with true by lia. cbn [orb negb].
    apply pkcs7_unpad_strict_pad.
  Qed.

  (* ------------------------------------------------------------------ CTR / CTR32 *)
  Fixpoint ks (incr : list N -> list N) (n : nat) (ctr : list N) : list N :=
    match n with O => [] | S k => E ctr ++ ks incr k (incr ctr) end.
  Lemma ks_length incr n : forall ctr, length (ks incr n ctr) = n * 16.
  Proof. induction n as [|n IH]; intros ctr; cbn [ks]; [reflexivity|]. rewrite app_length, E_len, IH. lia. Qed.
  Lemma iter_S_r {A} (f : A -> A) n : forall x, iter (S n) f x = f (iter n f x).
  Proof. induction n as [|n IH]; intros x; [reflexivity|]. cbn [iter] in *. rewrite IH. reflexivity. Qed.
  Lemma ks_snoc incr n : forall ctr, ks incr (n + 1) ctr = ks incr n ctr ++ E (iter n incr ctr).
  Proof.
    induction n as [|n IH]; intros ctr; cbn [ks Nat.add iter].
    - rewrite app_nil_r. reflexivity.
    - rewrite IH, app_assoc. reflexivity.
  Qed.

  Lemma bloop_cstep incr k : forall ctr m, length m = k * 16 ->
    bloop _ 16 (cstep E incr) k ctr m = (iter k incr ctr, xor_bytes m (ks incr k ctr)).
  Proof.
    induction k as [|k IH]; intros ctr m Hm.
    - apply length_zero_nil in Hm. subst. reflexivity.
    - cbn [Nat.mul] in Hm. cbn [bloop ks iter]. unfold cstep at 1.
      rewrite IH by (rewrite skipn_length; lia).
      set (K := ks incr k (incr ctr)).
      replace (xor_bytes m (E ctr ++ K)) with (xor_bytes (firstn 16 m ++ skipn 16 m) (E ctr ++ K))
        by (rewrite firstn_skipn; reflexivity).
      rewrite xor_bytes_app by (rewrite firstn_length_le, E_len; lia). reflexivity.
  Qed.

  Section CtrSpec.
    Variable blocks : nat -> list N -> list N -> list N * list N.
    Variable incr : list N -> list N.
    Hypothesis blocks_eq : forall n ctr inp, ok16 ctr -> blocks n ctr inp = bloop _ 16 (cstep E incr) n ctr inp.
    Hypothesis incr_ok : forall c, ok16 c -> ok16 (incr c).

    Lemma iter_incr_ok n : forall c, ok16 c -> ok16 (iter n incr c).
    Proof. induction n as [|n IH]; intros c H; [exact H|]. cbn [iter]. apply IH, incr_ok, H. Qed.

    Theorem ctr_encrypt_ks ctr m : ok16 ctr ->
      ctr_encrypt blocks ctr m =
      (iter ((length m + 15) / 16) incr ctr, xor_bytes m (ks incr ((length m + 15) / 16) ctr)).
    Proof.
      intros Hc. unfold ctr_encrypt.
      set (k := length m / 16).
      pose proof (Nat.div_mod (length m) 16 ltac:(lia)) as Hd. fold k in Hd.
      pose proof (Nat.mod_upper_bound (length m) 16 ltac:(lia)) as Hr.
      set (pre := firstn (k * 16) m). set (rest := skipn (k * 16) m).
      assert (Hpre : length pre = k * 16) by (unfold pre; rewrite firstn_length_le; lia).
      assert (Hrest : length rest = length m mod 16) by (unfold rest; rewrite skipn_length; lia).
      assert (Hm : m = pre ++ rest) by (unfold pre, rest; rewrite firstn_skipn; reflexivity).
      assert (Hfull : (if 16 <=? length m then blocks k ctr m else (ctr, [])) =
                      (iter k incr ctr, xor_bytes pre (ks incr k ctr))).
      { destruct (16 <=? length m) eqn:Hl.
        - rewrite blocks_eq by exact Hc. rewrite Hm at 1. rewrite bloop_prefix by lia.
          apply bloop_cstep. exact Hpre.
        - apply Nat.leb_gt in Hl. assert (k = 0) by (unfold k; apply Nat.div_small; lia).
          rewrite H in *. apply length_zero_nil in Hpre. rewrite Hpre. reflexivity. }
      rewrite Hfull.
      assert (Hrest' : (if 16 <=? length m then rest else m) = rest).
      { destruct (16 <=? length m) eqn:Hl; [reflexivity|].
        apply Nat.leb_gt in Hl. assert (k = 0) by (unfold k; apply Nat.div_small; lia).
        unfold rest. rewrite H. reflexivity. }
      rewrite Hrest'.
      destruct (length rest =? 0) eqn:Hz; cbn [negb].
      - apply Nat.eqb_eq in Hz. replace ((length m + 15) / 16) with k by lia.
        apply length_zero_nil in Hz.
        clearbody pre rest. subst m. rewrite Hz, app_nil_r. reflexivity.
      - apply Nat.eqb_neq in Hz. replace ((length m + 15) / 16) with (k + 1) by lia.
        rewrite blocks_eq by (apply iter_incr_ok, Hc). cbn [bloop]. unfold cstep.
        rewrite Nat.add_1_r at 1. rewrite iter_S_r. f_equal.
        rewrite ks_snoc. clearbody pre rest. subst m.
        rewrite xor_bytes_app by (rewrite ks_length; exact Hpre). f_equal.
        rewrite app_nil_r. rewrite <- xor_bytes_firstn.
        rewrite firstn_firstn. replace (Nat.min (length rest) 16) with (length rest) by lia.
        rewrite firstn_app_exact by reflexivity. reflexivity.
    Qed.

    (* encrypting twice with the same counter gives the message back *)
    Theorem ctr_dec_enc ctr m : ok16 ctr ->
      snd (ctr_encrypt blocks ctr (snd (ctr_encrypt blocks ctr m))) = m.
    Proof.
      intros Hc. rewrite (ctr_encrypt_ks ctr m Hc). cbn [snd].
      set (n := (length m + 15) / 16).
      assert (Hn : length m <= n * 16) by (unfold n; lia).
      assert (Hl : length (xor_bytes m (ks incr n ctr)) = length m)
        by (rewrite xor_bytes_length, ks_length; lia).
      rewrite ctr_encrypt_ks by exact Hc. cbn [snd]. rewrite Hl. fold n.
      apply xor_bytes_cancel_r. rewrite ks_length. exact Hn.
    Qed.

    Lemma ks_seq n : forall ctr,
      ks incr n ctr = concat (map (fun i => E (iter i incr ctr)) (seq 0 n)).
    Proof.
      induction n as [|n IH]; intros ctr; cbn [ks seq map concat]; [reflexivity|].
      rewrite IH. f_equal. rewrite <- seq_shift, map_map. reflexivity.
    Qed.

    Theorem ctr_encrypt_eq_gen_spec (blk : list N -> nat -> list N) ctr m : ok16 ctr ->
      (forall i, blk ctr i = iter i incr ctr) ->
      ctr_encrypt blocks ctr m = ctr_gen_spec E blk ctr m.
    Proof.
      intros Hc Hb. rewrite ctr_encrypt_ks by exact Hc. unfold ctr_gen_spec.
      rewrite Hb, ks_seq. f_equal. f_equal. f_equal. apply map_ext. intros i. rewrite Hb. reflexivity.
    Qed.
  End CtrSpec.

  Lemma ctr_block_iter i : forall ctr, ok16 ctr -> ctr_block ctr i = iter i incr128 ctr.
  Proof.
    induction i as [|i IH]; intros ctr [L O]; unfold ctr_block.
    - cbn [iter]. rewrite N.add_0_r, <- pow256_16, N_to_be_mod. rewrite <- L. apply N_to_be_be_to_N, O.
    - cbn [iter]. rewrite <- IH by apply incr128_ok. unfold ctr_block, incr128.
      rewrite be_to_N_N_to_be, pow256_16. f_equal.
      rewrite N.mod_mod by discriminate. rewrite N.add_mod_idemp_l by discriminate. f_equal. lia.
  Qed.
  Lemma ctr32_block_iter i : forall ctr, ok16 ctr -> ctr32_block ctr i = iter i incr32 ctr.
  Proof.
    induction i as [|i IH]; intros ctr [L O]; unfold ctr32_block.
    - cbn [iter]. rewrite N.add_0_r, <- pow256_4, N_to_be_mod.
      assert (L2 : length (skipn 12 ctr) = 4) by (rewrite skipn_length; lia).
      pose proof (N_to_be_be_to_N _ (bytes_ok_skipn 12 ctr O)) as R. rewrite L2 in R.
      rewrite R. apply firstn_skipn.
    - cbn [iter]. rewrite <- IH by (apply (incr32_ok E D E_len D_len); split; assumption). unfold ctr32_block, incr32.
      rewrite firstn_app_exact, skipn_app_exact by (rewrite firstn_length_le; lia).
      rewrite be_to_N_N_to_be, pow256_4. f_equal. f_equal.
      rewrite N.mod_mod by discriminate. rewrite N.add_mod_idemp_l by discriminate. f_equal. lia.
  Qed.
End ModeSpecs.

Section ModeSpecs2.
  Variable E : list N -> list N.
  Hypothesis E_len : forall b, length (E b) = 16.

  (* ------------------------------------------------------------------ OFB *)
  Lemma ofb_ks_length n : forall iv, length (ofb_ks E n iv) = n * 16.
  Proof. induction n as [|n IH]; intros iv; cbn [ofb_ks]; [reflexivity|]. rewrite app_length, E_len, IH. lia. Qed.

  Lemma ofb_loop_ks f : forall iv m, length m <= f ->
    snd (ofb_loop E f iv m) = xor_bytes m (ofb_ks E ((length m + 15) / 16) iv).
  Proof.
    induction f as [|f IH]; intros iv m Hf.
    - assert (m = []) by (apply length_zero_nil; lia). subst. reflexivity.
    - destruct m as [|x m]; [reflexivity|].
      set (l := x :: m) in *. assert (Hl : 1 <= length l) by (unfold l; cbn [length]; lia).
      change (ofb_loop E (S f) iv l) with
        (let len := Nat.min (length l) 16 in
         let iv' := E iv in
         let o := xor_bytes (firstn len l) iv' in
         let '(iv2, os) := ofb_loop E f iv' (skipn len l) in (iv2, o ++ os)).
      cbv zeta.
      specialize (IH (E iv) (skipn (Nat.min (length l) 16) l) ltac:(rewrite skipn_length; lia)).
      destruct (ofb_loop E f (E iv) (skipn (Nat.min (length l) 16) l)) as [iv2 os]. cbn [snd] in *.
      rewrite IH. rewrite skipn_length.
      destruct (Nat.le_ge_cases (length l) 16) as [Hle|Hge].
      + rewrite Nat.min_l by lia. rewrite Nat.sub_diag.
        replace ((0 + 15) / 16) with 0 by reflexivity.
        replace ((length l + 15) / 16) with 1 by lia. cbn [ofb_ks].
        rewrite firstn_all, skipn_all. rewrite xor_bytes_nil_l, !app_nil_r. reflexivity.
      + rewrite Nat.min_r by lia.
        replace ((length l + 15) / 16) with (S ((length l - 16 + 15) / 16)) by lia. cbn [ofb_ks].
        set (K := ofb_ks E ((length l - 16 + 15) / 16) (E iv)).
        replace (xor_bytes l (E iv ++ K)) with (xor_bytes (firstn 16 l ++ skipn 16 l) (E iv ++ K))
          by (rewrite firstn_skipn; reflexivity).
        rewrite xor_bytes_app by (rewrite firstn_length_le, E_len; lia). reflexivity.
  Qed.

  Theorem ofb_encrypt_eq_spec iv m : snd (ofb_encrypt E iv m) = ofb_spec E iv m.
  Proof. apply ofb_loop_ks. lia. Qed.

  Theorem ofb_dec_enc iv m : snd (ofb_encrypt E iv (snd (ofb_encrypt E iv m))) = m.
  Proof.
    rewrite !ofb_encrypt_eq_spec. unfold ofb_spec.
    set (n := (length m + 15) / 16). assert (Hn : length m <= n * 16) by (unfold n; lia).
    rewrite xor_bytes_length, ofb_ks_length. rewrite Nat.min_l by lia. fold n.
    apply xor_bytes_cancel_r. rewrite ofb_ks_length. exact Hn.
  Qed.

  (* ------------------------------------------------------------------ CFB-s *)
  Lemma chain_cfb_enc s ps : 1 <= s <= 16 -> segshape s ps -> forall iv, length iv = 16 ->
    snd (chain _ (cfb_enc_step E s) iv ps) = cfb_enc_chain E s iv ps.
  Proof.
    intros Hs Hsh. induction Hsh as [|p Hp|p q r Hp Hsh IH]; intros iv Hiv.
    - reflexivity.
    - cbn [chain cfb_enc_chain]. unfold cfb_enc_step. reflexivity.
    - remember (q :: r) as qr eqn:Hqr. clear Hqr.
      cbn [chain cfb_enc_chain]. unfold cfb_enc_step at 1.
      set (c := xor_bytes p (E iv)).
      assert (Hc : length c = s) by (unfold c; rewrite xor_bytes_length, E_len; lia).
      assert (Hsh' : cfb_shift s iv c = skipn s iv ++ c).
      { unfold cfb_shift. rewrite Hc. replace (16 - s + s) with 16 by lia.
        rewrite (@skipn_all2 _ 16 iv) by lia. rewrite app_nil_r. reflexivity. }
      rewrite Hsh'.
      specialize (IH (skipn s iv ++ c) ltac:(rewrite app_length, skipn_length; lia)).
      destruct (chain _ (cfb_enc_step E s) (skipn s iv ++ c) qr) as [st os]. cbn [snd] in *.
      rewrite IH. reflexivity.
  Qed.
  Lemma chain_cfb_dec s ps : 1 <= s <= 16 -> segshape s ps -> forall iv, length iv = 16 ->
    snd (chain _ (cfb_dec_step E s) iv ps) = cfb_dec_chain E s iv ps.
  Proof.
    intros Hs Hsh. induction Hsh as [|p Hp|p q r Hp Hsh IH]; intros iv Hiv.
    - reflexivity.
    - cbn [chain cfb_dec_chain]. unfold cfb_dec_step. reflexivity.
    - remember (q :: r) as qr eqn:Hqr. clear Hqr.
      cbn [chain cfb_dec_chain]. unfold cfb_dec_step at 1.
      assert (Hsh' : cfb_shift s iv p = skipn s iv ++ p).
      { unfold cfb_shift. rewrite Hp. replace (16 - s + s) with 16 by lia.
        rewrite (@skipn_all2 _ 16 iv) by lia. rewrite app_nil_r. reflexivity. }
      rewrite Hsh'.
      specialize (IH (skipn s iv ++ p) ltac:(rewrite app_length, skipn_length; lia)).
      destruct (chain _ (cfb_dec_step E s) (skipn s iv ++ p) qr) as [st os]. cbn [snd] in *.
      rewrite IH. reflexivity.
  Qed.

  Theorem cfb_encrypt_eq_spec s iv m : 1 <= s <= 16 -> length iv = 16 ->
    snd (cfb_encrypt E s iv m) = cfb_enc_spec E s iv m.
  Proof.
    intros Hs Hiv. rewrite cfb_encrypt_eq. unfold scrypt.
    rewrite (sloop_chain _ (cfb_enc_step E s) s ltac:(lia) (length m) iv m (le_n _)).
    pose proof (chain_cfb_enc s (segs s m) Hs (segs_shape s m ltac:(lia)) iv Hiv) as H.
    destruct (chain _ (cfb_enc_step E s) iv (segs s m)) as [st os]. cbn [snd] in *. rewrite H. reflexivity.
  Qed.
  Theorem cfb_decrypt_eq_spec s iv c : 1 <= s <= 16 -> length iv = 16 ->
    snd (cfb_decrypt E s iv c) = cfb_dec_spec E s iv c.
  Proof.
    intros Hs Hiv. rewrite cfb_decrypt_eq. unfold scrypt.
    rewrite (sloop_chain _ (cfb_dec_step E s) s ltac:(lia) (length c) iv c (le_n _)).
    pose proof (chain_cfb_dec s (segs s c) Hs (segs_shape s c ltac:(lia)) iv Hiv) as H.
    destruct (chain _ (cfb_dec_step E s) iv (segs s c)) as [st os]. cbn [snd] in *. rewrite H. reflexivity.
  Qed.

  Lemma segs_Forall_le B l : 0 < B -> Forall (fun p => length p <= B) (segs B l).
  Proof.
    intros HB. remember (length l) as n eqn:Hn. revert l Hn.
    induction n as [n IH] using lt_wf_ind. intros l Hn.
    destruct l as [|x l]; [constructor|].
    rewrite segs_cons by (try exact HB; discriminate). constructor.
    - rewrite firstn_length. lia.
    - apply (IH (length (skipn B (x :: l)))); [|reflexivity]. rewrite skipn_length. cbn [length] in *. lia.
  Qed.

  Theorem cfb_dec_enc s iv m : 1 <= s <= 16 ->
    snd (cfb_decrypt E s iv (snd (cfb_encrypt E s iv m))) = m.
  Proof.
    intros Hs. rewrite cfb_encrypt_eq, cfb_decrypt_eq. unfold scrypt.
    rewrite (sloop_chain _ (cfb_enc_step E s) s ltac:(lia) (length m) iv m (le_n _)).
    pose proof (chains_invert _ (cfb_enc_step E s) (cfb_dec_step E s) (fun _ => True)
                  (fun p => length p <= s) s iv m ltac:(lia)) as H.
    cbv zeta in H. destruct H as (Hl & Hi).
    - intros st seg _ Hseg. unfold cfb_enc_step, cfb_dec_step. cbn [fst snd].
      rewrite xor_bytes_cancel_r by (rewrite E_len; lia).
      rewrite xor_bytes_length, E_len. split; [reflexivity|]. split; [lia | exact I].
    - exact I.
    - apply segs_Forall_le. lia.
    - destruct (chain _ (cfb_enc_step E s) iv (segs s m)) as [st os]. cbn [snd] in *.
      rewrite (sloop_chain _ (cfb_dec_step E s) s ltac:(lia) (length (concat os)) iv (concat os) (le_n _)).
      destruct (chain _ (cfb_dec_step E s) iv (segs s (concat os))) as [st2 os2]. cbn [snd] in *. exact Hi.
  Qed.
End ModeSpecs2.

(* ===================================================================== XTS *)
Section XtsProofs.
  Variable E D E2 mul2 : list N -> list N.
  Hypothesis E_len : forall b, length (E b) = 16.
  Hypothesis D_len : forall b, length (D b) = 16.
  Hypothesis E_ok : forall b, bytes_ok (E b) = true.
  Hypothesis DE : forall b, length b = 16 -> bytes_ok b = true -> D (E b) = b.
  Hypothesis E2_len : forall b, length (E2 b) = 16.
  Hypothesis E2_ok : forall b, bytes_ok (E2 b) = true.
  Hypothesis mul2_len : forall T, length (mul2 T) = 16.
  Hypothesis mul2_ok : forall T, bytes_ok (mul2 T) = true.

  Definition tw16 (T : list N) : Prop := length T = 16 /\ bytes_ok T = true.

  Lemma xts_block_len (F : list N -> list N) T blk : (forall b, length (F b) = 16) -> length T = 16 ->
    length (xts_block F T blk) = 16.
  Proof. intros HF HT. unfold xts_block. rewrite xor_bytes_length, HF, HT. reflexivity. Qed.

  Lemma xts_block_inv T p : tw16 T -> length p = 16 -> bytes_ok p = true ->
    xts_block D T (xts_block E T p) = p.
  Proof.
    intros [LT OT] Lp Op. unfold xts_block.
    rewrite (xor_bytes_cancel_r (E (xor_bytes p T)) T) by (rewrite E_len; lia).
    rewrite DE by (rewrite ?xor_bytes_length, ?Lp, ?LT; try reflexivity; apply xor_bytes_ok; assumption).
    apply xor_bytes_cancel_r. lia.
  Qed.
  Lemma xts_block_ok T p : bytes_ok T = true -> bytes_ok (xts_block E T p) = true.
  Proof. intros OT. unfold xts_block. apply xor_bytes_ok; [apply E_ok | exact OT]. Qed.

  Lemma xts_loop_inv n : forall T m rest, n * 16 <= length m -> bytes_ok m = true -> tw16 T ->
    let '(T1, o1) := xts_loop mul2 E n T m in
    xts_loop mul2 D n T (o1 ++ rest) = (T1, firstn (n * 16) m) /\ length o1 = n * 16 /\ tw16 T1.
  Proof.
    induction n as [|n IH]; intros T m rest Hm Om HT; cbn [xts_loop].
    - cbn [Nat.mul firstn app]. auto.
    - cbn [Nat.mul] in Hm.
      specialize (IH (mul2 T) (skipn 16 m) rest ltac:(rewrite skipn_length; lia) (bytes_ok_skipn 16 m Om)
                     (conj (mul2_len T) (mul2_ok T))).
      destruct (xts_loop mul2 E n (mul2 T) (skipn 16 m)) as [T1 os]. destruct IH as (IH1 & IH2 & IH3).
      assert (Lo : length (xts_block E T (firstn 16 m)) = 16) by (apply xts_block_len; [exact E_len | apply HT]).
      rewrite <- app_assoc. rewrite firstn_app_exact, skipn_app_exact by lia.
      rewrite IH1. rewrite xts_block_inv by (try exact HT; try (rewrite firstn_length_le; lia); apply bytes_ok_firstn, Om).
      split; [|split; [rewrite app_length, Lo, IH2; lia | exact IH3]].
      f_equal.
      rewrite <- (firstn_skipn 16 m) at 3. rewrite firstn_app, firstn_length_le by lia.
      rewrite firstn_firstn. replace (Nat.min (S n * 16) 16) with 16 by lia.
      replace (S n * 16 - 16) with (n * 16) by lia. reflexivity.
  Qed.

  Lemma xts_loop_length F n : (forall b, length (F b) = 16) -> forall T m, length T = 16 ->
    length (snd (xts_loop mul2 F n T m)) = n * 16.
  Proof.
    intros HF. induction n as [|n IH]; intros T m HT; cbn [xts_loop]; [reflexivity|].
    specialize (IH (mul2 T) (skipn 16 m) (mul2_len T)).
    destruct (xts_loop mul2 F n (mul2 T) (skipn 16 m)) as [T1 os]. cbn [snd] in *.
    rewrite app_length, IH, xts_block_len by assumption. lia.
  Qed.
  Lemma xts_loop_tw F n : forall T m, length T = 16 -> length (fst (xts_loop mul2 F n T m)) = 16.
  Proof.
    induction n as [|n IH]; intros T m HT; cbn [xts_loop]; [exact HT|].
    specialize (IH (mul2 T) (skipn 16 m) (mul2_len T)).
    destruct (xts_loop mul2 F n (mul2 T) (skipn 16 m)) as [T1 os]. exact IH.
  Qed.

  Lemma xts_raw_length (F : list N -> list N) raw tweak m :
    (forall b, length (F b) = 16) -> 16 <= length m ->
    raw = xts_encrypt_raw F E2 mul2 \/ raw = xts_decrypt_raw F E2 mul2 ->
    length (raw tweak m) = length m.
  Proof.
    intros HF Hm Hraw.
    pose proof (Nat.div_mod (length m) 16 ltac:(lia)) as Hd.
    pose proof (Nat.mod_upper_bound (length m) 16 ltac:(lia)) as Hr.
    set (q := length m / 16) in *. assert (Hq : 1 <= q) by lia.
    assert (Hn : q + 1 - 2 = q - 1) by lia.
    pose proof (xts_loop_length F (q - 1) HF (E2 tweak) m (E2_len tweak)) as HL.
    pose proof (xts_loop_tw F (q - 1) (E2 tweak) m (E2_len tweak)) as HT.
    destruct Hraw as [-> | ->]; unfold xts_encrypt_raw, xts_decrypt_raw; fold q; rewrite Hn;
      destruct (xts_loop mul2 F (q - 1) (E2 tweak) m) as [T1 o1]; cbn [fst snd] in *;
      rewrite skipn_length;
      replace (length m - (q - 1) * 16) with (16 + length m mod 16) by lia;
      (destruct ((16 + length m mod 16) mod 16 =? 0) eqn:Hz;
       [ rewrite app_length, HL, xts_block_len by assumption; lia
       | rewrite !app_length, HL, xts_block_len, firstn_length, xts_block_len, skipn_length, skipn_length
           by (try assumption; apply mul2_len);
         lia ]).
  Qed.

  Theorem xts_dec_enc tweak m : 16 <= length m -> bytes_ok m = true ->
    xts_decrypt D E2 mul2 tweak (xts_encrypt_raw E E2 mul2 tweak m) = Some m.
  Proof.
    intros Hm Om. unfold xts_decrypt.
    rewrite (xts_raw_length E _ tweak m E_len Hm (or_introl eq_refl)).
    replace (length m <? 16) with false by lia. f_equal.
    pose proof (Nat.div_mod (length m) 16 ltac:(lia)) as Hd.
    pose proof (Nat.mod_upper_bound (length m) 16 ltac:(lia)) as Hr.
    unfold xts_decrypt_raw. rewrite (xts_raw_length E _ tweak m E_len Hm (or_introl eq_refl)).
    unfold xts_encrypt_raw.
    set (q := length m / 16) in *. assert (Hq : 1 <= q) by lia.
    replace (q + 1 - 2) with (q - 1) by lia. set (n := q - 1).
    assert (Hn16 : n * 16 <= length m) by (unfold n; lia).
    pose proof (xts_loop_inv n (E2 tweak) m) as Hinv.
    destruct (xts_loop mul2 E n (E2 tweak) m) as [T1 o1].
    set (rest := skipn (n * 16) m).
    assert (Lrest : length rest = 16 + length m mod 16) by (unfold rest, n; rewrite skipn_length; lia).
    assert (Orest : bytes_ok rest = true) by (apply bytes_ok_skipn, Om).
    assert (Hmsplit : m = firstn (n * 16) m ++ rest) by (unfold rest; rewrite firstn_skipn; reflexivity).
    rewrite Lrest.
    destruct ((16 + length m mod 16) mod 16 =? 0) eqn:Hz.
    - (* whole blocks *)
      assert (Hr0 : length m mod 16 = 0) by (apply Nat.eqb_eq in Hz; lia).
      destruct (Hinv (xts_block E T1 (firstn 16 rest)) Hn16 Om (conj (E2_len tweak) (E2_ok tweak))) as (H1 & H2 & H3).
      rewrite H1. rewrite skipn_app_exact by lia.
      rewrite xts_block_len by (try exact E_len; apply H3).
      replace (16 mod 16 =? 0) with true by reflexivity.
      rewrite (firstn_all2 (xts_block E T1 (firstn 16 rest))) by (rewrite xts_block_len; [lia | exact E_len | apply H3]).
      rewrite xts_block_inv by (try exact H3; try (rewrite firstn_length_le; lia); apply bytes_ok_firstn, Orest).
      rewrite (firstn_all2 rest) by lia. symmetry. exact Hmsplit.
    - (* ciphertext stealing *)
      apply Nat.eqb_neq in Hz. set (b := length m mod 16) in *. assert (Hb : 1 <= b <= 15) by lia.
      set (cc := xts_block E T1 (firstn 16 rest)).
      set (tail := skipn 16 rest).
      assert (Ltail : length tail = b) by (unfold tail; rewrite skipn_length; lia).
      set (X := tail ++ skipn b cc).
      set (c1 := xts_block E (mul2 T1) X).
      destruct (Hinv (c1 ++ firstn b cc) Hn16 Om (conj (E2_len tweak) (E2_ok tweak))) as (H1 & H2 & H3).
      fold tail. rewrite Ltail. fold cc. fold X. fold c1.
      rewrite H1. rewrite skipn_app_exact by lia.
      assert (Lcc : length cc = 16) by (apply xts_block_len; [exact E_len | apply H3]).
      assert (Lc1 : length c1 = 16) by (apply xts_block_len; [exact E_len | apply mul2_len]).
      assert (LX : length X = 16) by (unfold X; rewrite app_length, skipn_length; lia).
      assert (OX : bytes_ok X = true).
      { unfold X, tail. rewrite bytes_ok_app. rewrite (bytes_ok_skipn 16 rest Orest). cbn [andb].
        apply bytes_ok_skipn. apply xts_block_ok, H3. }
      rewrite app_length, Lc1, firstn_length, Lcc. replace (Nat.min b 16) with b by lia.
      replace ((16 + b) mod 16 =? 0) with false by lia.
      rewrite firstn_app_exact, skipn_app_exact by lia.
      rewrite firstn_length, Lcc. replace (Nat.min b 16) with b by lia.
      unfold c1. rewrite xts_block_inv by (first [assumption | split; [apply mul2_len | apply mul2_ok]]).
      unfold X at 1. rewrite skipn_app_exact by lia. rewrite firstn_skipn.
      unfold cc. rewrite xts_block_inv by (try exact H3; try (rewrite firstn_length_le; lia); apply bytes_ok_firstn, Orest).
      unfold X. rewrite firstn_app_exact by lia. unfold tail. rewrite firstn_skipn. symmetry. exact Hmsplit.
  Qed.

  (* streaming over data units *)
  Definition xts_ustep (f : list N -> list N -> list N) (tw u : list N) : list N * list N := (tweak_incr tw, f tw u).
  Lemma xts_units_bloop f dus n : forall tw inp, xts_units f dus n tw inp = bloop _ dus (xts_ustep f) n tw inp.
  Proof.
    induction n as [|n IH]; intros tw inp; cbn [xts_units bloop]; [reflexivity|].
    unfold xts_ustep at 1. rewrite IH. reflexivity.
  Qed.

  Lemma xts_good f dus : 16 <= dus -> (forall tw u, length u = dus -> length (f tw u) = dus) ->
    crypt_good dus (fun _ => True) (xts_crypt f dus).
  Proof.
    intros Hd Hf. apply (crypt_good_ext dus _ _ (bcrypt _ dus (xts_ustep f))).
    - intros st d. unfold xts_crypt, bcrypt. apply xts_units_bloop.
    - apply bcrypt_good; [lia|]. intros st blk H. unfold xts_ustep. cbn [snd]. apply Hf, H.
  Qed.

  Definition xts_stream f dus tw chunks :=
    match xts_init tw dus with
    | None => None
    | Some c0 => stream_all dus false (xts_crypt f dus) (xts_finish dus) c0 chunks
    end.

  Theorem xts_stream_eq f dus tw chunks : 16 <= dus ->
    (forall tw u, length u = dus -> length (f tw u) = dus) ->
    xts_stream f dus tw chunks =
    let m := concat chunks in
    if length m mod dus =? 0 then Some (snd (xts_units f dus (length m / dus) tw m)) else None.
  Proof.
    intros Hd Hf. unfold xts_stream, xts_init. replace (dus <? 16) with false by lia. unfold stream_all.
    destruct (run_good dus false (xts_crypt f dus) _ tw chunks ltac:(lia) (xts_good f dus Hd Hf) I)
      as (c & outs & Hr & _ & k & pre & Hm & Hpre & Hc & Hok & _).
    rewrite Hr. cbv zeta. rewrite Hm. unfold xts_finish, buf_ok in *.
    replace (dus <=? length (bbuf c)) with false by lia.
    rewrite app_length, Hpre.
    destruct (length (bbuf c) =? 0) eqn:Hz; cbn [negb].
    - apply Nat.eqb_eq in Hz. rewrite Hz. apply length_zero_nil in Hz. rewrite Hz, !app_nil_r.
      rewrite Nat.add_0_r, Nat.mod_mul by lia. cbn [Nat.eqb].
      unfold xts_crypt in Hc. rewrite Hpre in Hc. rewrite Hc. reflexivity.
    - apply Nat.eqb_neq in Hz.
      replace ((k * dus + length (bbuf c)) mod dus =? 0) with false; [reflexivity|].
      symmetry. apply Nat.eqb_neq. rewrite Nat.add_comm, Nat.mod_add, Nat.mod_small by lia. exact Hz.
  Qed.

  Theorem xts_stream_bad_unit f dus tw chunks : dus < 16 -> xts_stream f dus tw chunks = None.
  Proof. intros H. unfold xts_stream, xts_init. replace (dus <? 16) with true by lia. reflexivity. Qed.

  (* the one pass over whole data units is the Spec: unit i under tweak + i *)
  Lemma chain_xts_units f us : forall tw, snd (chain _ (xts_ustep f) tw us) = xts_units_spec f tw us.
  Proof.
    induction us as [|u r IH]; intros tw; cbn [chain xts_units_spec]; [reflexivity|].
    unfold xts_ustep at 1. specialize (IH (tweak_incr tw)).
    destruct (chain _ (xts_ustep f) (tweak_incr tw) r) as [s os]. cbn [snd] in *. rewrite IH. reflexivity.
  Qed.
  Theorem xts_units_eq_spec f dus tw k m : 0 < dus -> length m = k * dus ->
    snd (xts_units f dus k tw m) = concat (xts_units_spec f tw (segs dus m)).
  Proof.
    intros Hd Hm. rewrite xts_units_bloop, (bloop_chain _ (xts_ustep f) dus Hd k tw m Hm).
    pose proof (chain_xts_units f (segs dus m) tw) as H.
    destruct (chain _ (xts_ustep f) tw (segs dus m)) as [s os]. cbn [snd] in *. rewrite H. reflexivity.
  Qed.
End XtsProofs.

(* ===================================================================== in-place operation *)
Section InPlaceProofs.
  Variable St : Type.
  Variable step : St -> list N -> St * list N.
  Hypothesis step_len : forall st blk, length blk = 16 -> length (snd (step st blk)) = 16.

  Lemma inplace_gen n : forall i st done todo, length done = 16 * i -> n * 16 <= length todo ->
    inplace_loop St step n i st (done ++ todo) =
    let '(st', o) := pure_loop St step n st todo in (st', done ++ o ++ skipn (n * 16) todo).
  Proof.
    induction n as [|n IH]; intros i st done todo Hd Ht; cbn [inplace_loop pure_loop].
    - cbn [Nat.mul skipn app]. reflexivity.
    - cbn [Nat.mul] in Ht.
      rewrite skipn_app_exact by lia.
      pose proof (step_len st (firstn 16 todo) ltac:(rewrite firstn_length_le; lia)) as Hs.
      destruct (step st (firstn 16 todo)) as [st' o]. cbn [snd] in Hs.
      assert (Hput : put_at (done ++ todo) (16 * i) o = (done ++ o) ++ skipn 16 todo).
      { unfold put_at. rewrite firstn_app_exact by lia. rewrite Hs.
        rewrite skipn_app, skipn_all2 by lia. replace (16 * i + 16 - length done) with 16 by lia.
        cbn [app]. rewrite <- app_assoc. reflexivity. }
      rewrite Hput.
      rewrite (IH (S i) st' (done ++ o) (skipn 16 todo)) by (rewrite ?app_length, ?skipn_length; lia).
      destruct (pure_loop St step n st' (skipn 16 todo)) as [st2 os].
      rewrite skipn_skipn_nat. replace (16 + n * 16) with (16 + n * 16) by reflexivity.
      rewrite <- !app_assoc. reflexivity.
  Qed.

  (* out == in gives the same bytes as disjoint buffers; bytes after the n blocks are untouched *)
  Theorem inplace_eq_pure n st buf : n * 16 <= length buf ->
    inplace_loop St step n 0 st buf =
    let '(st', o) := pure_loop St step n st buf in (st', o ++ skipn (n * 16) buf).
  Proof. intros H. apply (inplace_gen n 0 st [] buf); [reflexivity | exact H]. Qed.

  Lemma pure_loop_bloop n : forall st inp, pure_loop St step n st inp = bloop St 16 step n st inp.
  Proof. induction n as [|n IH]; intros st inp; cbn [pure_loop bloop]; [reflexivity|]. destruct (step st (firstn 16 inp)). rewrite IH. reflexivity. Qed.
End InPlaceProofs.

(* ===================================================================== CBC-MAC *)
Section CbcMacProofs.
  Variable E : list N -> list N.
  Hypothesis E_len : forall b, length (E b) = 16.

  (* one byte at a time *)
  Definition mac_abs1 (c : macctx) (b : N) : macctx :=
    let iv' := firstn (mivlen c) (miv c) ++ [N.lxor (nth (mivlen c) (miv c) 0%N) b] ++ skipn (mivlen c + 1) (miv c) in
    if mivlen c + 1 =? 16 then mkm (E iv') 0 else mkm iv' (mivlen c + 1).

  Definition mac_ok (c : macctx) : Prop := length (miv c) = 16 /\ mivlen c < 16.

  Lemma mac_abs1_ok c b : mac_ok c -> mac_ok (mac_abs1 c b).
  Proof.
    intros [L H]. unfold mac_abs1, mac_ok.
    destruct (mivlen c + 1 =? 16) eqn:Hz; cbn [miv mivlen].
    - split; [apply E_len | lia].
    - apply Nat.eqb_neq in Hz. split; [|lia].
      rewrite !app_length. rewrite firstn_length_le by lia. rewrite skipn_length. cbn [length]. lia.
  Qed.

  (* the C loop xors a run of bytes that stays inside the block in one go *)
  Lemma mac_run d : forall iv l, length iv = 16 -> l + length d <= 16 -> d <> [] ->
    fold_left mac_abs1 d (mkm iv l) =
    let iv1 := firstn l iv ++ xor_bytes (firstn (length d) (skipn l iv)) d ++ skipn (l + length d) iv in
    if 16 <=? l + length d then mkm (E iv1) 0 else mkm iv1 (l + length d).
  Proof.
    induction d as [|b d IH]; intros iv l Liv Hl Hne; [congruence|].
    cbn [fold_left length] in *. unfold mac_abs1 at 2. cbn [miv mivlen].
    set (iv' := firstn l iv ++ [N.lxor (nth l iv 0%N) b] ++ skipn (l + 1) iv).
    assert (Liv' : length iv' = 16).
    { unfold iv'. rewrite !app_length. rewrite firstn_length_le by lia. rewrite skipn_length. cbn [length]. lia. }
    assert (Hsplit : skipn l iv = nth l iv 0%N :: skipn (l + 1) iv).
    { rewrite <- (firstn_skipn l iv) at 2 3.
      rewrite app_nth2, firstn_length_le, Nat.sub_diag by (rewrite ?firstn_length_le; lia).
      replace (l + 1) with (length (firstn l iv) + 1) by (rewrite firstn_length_le; lia).
      rewrite <- skipn_skipn_nat, skipn_app_exact by reflexivity.
      destruct (skipn l iv) as [|x t] eqn:Hs; [apply (f_equal (@length N)) in Hs; rewrite skipn_length in Hs; cbn in Hs; lia|].
      cbn [nth skipn]. reflexivity. }
    destruct d as [|b2 d].
    - cbn [fold_left length]. replace (l + 1 =? 16) with (16 <=? l + 1) by (destruct (Nat.eqb_spec (l + 1) 16); destruct (Nat.leb_spec 16 (l + 1)); lia).
      cbv zeta. rewrite Hsplit. cbn [firstn xor_bytes]. rewrite xor_bytes_cons, xor_bytes_nil_l.
      fold iv'. reflexivity.
    - replace (l + 1 =? 16) with false by (cbn [length] in Hl; lia).
      rewrite (IH iv' (l + 1) Liv' ltac:(cbn [length] in *; lia) ltac:(discriminate)).
      cbv zeta. replace (l + 1 + length (b2 :: d)) with (l + S (length (b2 :: d))) by lia.
      assert (Hiv1 : firstn (l + 1) iv' ++ xor_bytes (firstn (length (b2 :: d)) (skipn (l + 1) iv')) (b2 :: d)
                       ++ skipn (l + S (length (b2 :: d))) iv' =
                     firstn l iv ++ xor_bytes (firstn (S (length (b2 :: d))) (skipn l iv)) (b :: b2 :: d)
                       ++ skipn (l + S (length (b2 :: d))) iv).
      { unfold iv'. set (x := N.lxor (nth l iv 0%N) b).
        assert (Lf : length (firstn l iv) = l) by (rewrite firstn_length_le; lia).
        rewrite (app_assoc (firstn l iv) [x]).
        rewrite firstn_app_exact by (rewrite app_length, Lf; reflexivity).
        rewrite !skipn_app_exact by (rewrite app_length, Lf; reflexivity).
        rewrite (skipn_app (l + S (length (b2 :: d)))).
        rewrite (@skipn_all2 _ (l + S (length (b2 :: d))) (firstn l iv ++ [x])) by (rewrite app_length, Lf; cbn [length]; lia).
        replace (l + S (length (b2 :: d)) - length (firstn l iv ++ [x])) with (length (b2 :: d)) by (rewrite app_length, Lf; cbn [length]; lia).
        cbn [app]. rewrite Hsplit. cbn [firstn]. rewrite xor_bytes_cons. fold x.
        rewrite <- !app_assoc. cbn [app]. f_equal. f_equal. f_equal.
        rewrite skipn_skipn_nat. f_equal. lia. }
      rewrite Hiv1. reflexivity.
  Qed.

  Lemma cbc_mac_loop_bytes fuel : forall iv l data, length iv = 16 -> l < 16 -> length data <= fuel ->
    cbc_mac_loop E fuel iv l data = fold_left mac_abs1 data (mkm iv l).
  Proof.
    induction fuel as [|fuel IH]; intros iv l data Liv Hl Hf.
    - assert (data = []) by (apply length_zero_nil; lia). subst. reflexivity.
    - destruct data as [|b data]; [reflexivity|].
      set (dd := b :: data) in *. assert (Hdd : 1 <= length dd) by (unfold dd; cbn [length]; lia).
      change (cbc_mac_loop E (S fuel) iv l dd) with
        (let ivleft := 16 - l in
         let len := Nat.min (length dd) ivleft in
         let iv1 := firstn l iv ++ xor_bytes (firstn len (skipn l iv)) (firstn len dd) ++ skipn (l + len) iv in
         let ivlen1 := l + len in
         if 16 <=? ivlen1 then cbc_mac_loop E fuel (E iv1) 0 (skipn len dd)
         else cbc_mac_loop E fuel iv1 ivlen1 (skipn len dd)).
      cbv zeta. set (len := Nat.min (length dd) (16 - l)).
      assert (Hlen : 1 <= len <= length dd /\ l + len <= 16) by (unfold len; lia).
      replace (fold_left mac_abs1 dd (mkm iv l)) with (fold_left mac_abs1 (firstn len dd ++ skipn len dd) (mkm iv l))
        by (rewrite firstn_skipn; reflexivity).
      rewrite fold_left_app.
      assert (Lfn : length (firstn len dd) = len) by (rewrite firstn_length_le; lia).
      assert (Hfne : firstn len dd <> [])
        by (intros He; apply (f_equal (@length N)) in He; rewrite Lfn in He; cbn [length] in He; lia).
      rewrite (mac_run (firstn len dd) iv l Liv ltac:(rewrite Lfn; lia) Hfne).
      cbv zeta. rewrite Lfn.
      set (iv1 := firstn l iv ++ xor_bytes (firstn len (skipn l iv)) (firstn len dd) ++ skipn (l + len) iv).
      assert (Liv1 : length iv1 = 16).
      { unfold iv1. rewrite !app_length, xor_bytes_length, !firstn_length, !skipn_length. lia. }
      destruct (16 <=? l + len) eqn:Hz.
      + apply IH; [apply E_len | lia | rewrite skipn_length; lia].
      + apply Nat.leb_gt in Hz. apply IH; [exact Liv1 | lia | rewrite skipn_length; lia].
  Qed.

  Lemma mac_fold_ok d : forall c, mac_ok c -> mac_ok (fold_left mac_abs1 d c).
  Proof. induction d as [|b d IH]; intros c H; [exact H|]. cbn [fold_left]. apply IH, mac_abs1_ok, H. Qed.

  Lemma cbc_mac_update_bytes c d : mac_ok c -> cbc_mac_update E c d = fold_left mac_abs1 d c.
  Proof.
    intros [L H]. unfold cbc_mac_update. rewrite cbc_mac_loop_bytes by (try assumption; lia).
    destruct c; reflexivity.
  Qed.

  (* any chunking = one update with the whole message *)
  Theorem cbc_mac_stream chunks :
    cbc_mac_finish E (fold_left (cbc_mac_update E) chunks cbc_mac_init) =
    cbc_mac_finish E (cbc_mac_update E cbc_mac_init (concat chunks)).
  Proof.
    f_equal.
    assert (H0 : mac_ok cbc_mac_init) by (split; [reflexivity | cbn; lia]).
    rewrite (cbc_mac_update_bytes _ (concat chunks) H0).
    generalize cbc_mac_init H0. induction chunks as [|ch r IH]; intros c Hc; cbn [fold_left concat]; [reflexivity|].
    rewrite fold_left_app, cbc_mac_update_bytes by exact Hc.
    apply IH, mac_fold_ok, Hc.
  Qed.

  Lemma xor_zeros x : xor_bytes x (zeros (length x)) = x.
  Proof. induction x as [|a x IH]; [reflexivity|]. cbn [length zeros]. rewrite xor_bytes_cons, IH, N.lxor_0_r. reflexivity. Qed.

  Lemma cbc_mac_bytes_spec n : forall m c, length m <= n -> length c = 16 ->
    cbc_mac_finish E (fold_left mac_abs1 m (mkm c 0)) =
    fold_left (fun c p => E (xor_bytes c (pad0 p))) (segs 16 m) c.
  Proof.
    induction n as [|n IH]; intros m c Hn Lc.
    - assert (m = []) by (apply length_zero_nil; lia). subst. reflexivity.
    - destruct m as [|b m]; [reflexivity|].
      set (mm := b :: m) in *. assert (Hne : mm <> []) by (unfold mm; discriminate).
      assert (Hl1 : 1 <= length mm) by (unfold mm; cbn [length]; lia).
      rewrite (segs_cons 16 mm lt_0_16 Hne). cbn [fold_left].
      destruct (Nat.le_gt_cases 16 (length mm)) as [Hge|Hlt].
      + (* a whole block *)
        replace (fold_left mac_abs1 mm (mkm c 0))
          with (fold_left mac_abs1 (firstn 16 mm ++ skipn 16 mm) (mkm c 0)) by (rewrite firstn_skipn; reflexivity).
        rewrite fold_left_app.
        assert (Lf : length (firstn 16 mm) = 16) by (rewrite firstn_length_le; lia).
        assert (Hfne : firstn 16 mm <> []) by (intros He; rewrite He in Lf; discriminate).
        rewrite (mac_run (firstn 16 mm) c 0 Lc ltac:(rewrite Lf; lia) Hfne). cbv zeta. rewrite Lf.
        change (0 + 16) with 16. change (16 <=? 16) with true.
        change (firstn 0 c) with (@nil N). change (skipn 0 c) with c. cbn [app].
        rewrite (firstn_all2 c) by lia. rewrite (@skipn_all2 _ 16 c) by lia. rewrite app_nil_r.
        unfold pad0. rewrite Lf. cbn [Nat.sub zeros]. rewrite app_nil_r.
        apply IH; [rewrite skipn_length; lia | apply E_len].
      + (* the last, partial block *)
        rewrite (firstn_all2 mm) by lia. rewrite (skipn_all2 mm) by lia. rewrite segs_nil. cbn [fold_left].
        rewrite (mac_run mm c 0 Lc ltac:(lia) Hne). cbv zeta.
        change (0 + length mm) with (length mm).
        change (firstn 0 c) with (@nil N). change (skipn 0 c) with c. cbn [app].
        replace (16 <=? length mm) with false by lia.
        unfold cbc_mac_finish. cbn [miv mivlen]. replace (length mm =? 0) with false by lia. cbn [negb].
        f_equal. unfold pad0.
        replace (xor_bytes c (mm ++ zeros (16 - length mm)))
          with (xor_bytes (firstn (length mm) c ++ skipn (length mm) c) (mm ++ zeros (16 - length mm)))
          by (rewrite firstn_skipn; reflexivity).
        rewrite xor_bytes_app by (rewrite firstn_length_le; lia). f_equal.
        replace (16 - length mm) with (length (skipn (length mm) c)) by (rewrite skipn_length; lia).
        symmetry. apply xor_zeros.
  Qed.

  (* streaming over any chunking = the Spec: CBC chain from the zero IV, last block zero-padded *)
  Theorem cbc_mac_stream_eq_spec chunks :
    cbc_mac_finish E (fold_left (cbc_mac_update E) chunks cbc_mac_init) = cbc_mac_spec E (concat chunks).
  Proof.
    rewrite cbc_mac_stream.
    assert (H0 : mac_ok cbc_mac_init) by (split; [reflexivity | cbn; lia]).
    rewrite (cbc_mac_update_bytes _ (concat chunks) H0).
    apply (cbc_mac_bytes_spec (length (concat chunks))); [lia | reflexivity].
  Qed.
End CbcMacProofs.

(* Before 75d04f0 sm4_cbc_padding_decrypt looked at the last byte only (the rule that
   aes_cbc_padding_decrypt still has): a final block ending .. 05 02 was accepted as two bytes
   of padding; PKCS#7 proper refuses it.  (D = identity, iv = 0 make the block the plaintext.) *)
Example sm4_cbc_padding_before_75d04f0 :
  let blk := zeros 14 ++ [5%N; 2%N] in
  cbc_padding_decrypt (fun b => b) (zeros 16) blk = Some (zeros 14) /\
  sm4_cbc_padding_decrypt (fun b => b) (zeros 16) blk = None /\
  pkcs7_unpad blk = Some (zeros 14) /\ pkcs7_unpad_strict blk = None.
Proof. vm_compute. repeat split; reflexivity. Qed.
