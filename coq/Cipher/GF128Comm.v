(* GF(2^128) product of src/gf128.c (Horner form [gf_mul_horner], proved equal to the two-limb C loop
   and to SP 800-38D Algorithm 1 in GF128Proofs.v): xor-linearity in the second argument and
   commutativity on 128-bit operands.  Commutativity is reduced by bilinearity to the 128 x 128
   table x^i . x^j = x^j . x^i, which is checked by computation inside the kernel. *)
From GmVerif Require Import Base.ListX Base.Bytes Cipher.GF128 Cipher.GF128Proofs.
Local Open Scope N_scope.

(* ---- linearity in the second argument ---- *)
Lemma term_lxor_r a b b' i : term a (N.lxor b b') i = N.lxor (term a b i) (term a b' i).
Proof.
  unfold term. rewrite N.lxor_spec.
  destruct (N.testbit b (N.of_nat i)), (N.testbit b' (N.of_nat i)); cbn [xorb];
    rewrite ?N.lxor_0_r, ?N.lxor_0_l, ?N.lxor_nilpotent; reflexivity.
Qed.
Lemma lxor_swap4 p q r s : N.lxor (N.lxor p q) (N.lxor r s) = N.lxor (N.lxor p r) (N.lxor q s).
Proof. rewrite !N.lxor_assoc. f_equal. rewrite <- !N.lxor_assoc. f_equal. apply N.lxor_comm. Qed.
Lemma psum_lxor_r n : forall a b b', psum n a (N.lxor b b') = N.lxor (psum n a b) (psum n a b').
Proof.
  induction n as [|n IH]; intros a b b'; cbn [psum]; [reflexivity|].
  rewrite IH, term_lxor_r. apply lxor_swap4.
Qed.
Theorem gf_mul_horner_lxor_r a b b' :
  gf_mul_horner a (N.lxor b b') = N.lxor (gf_mul_horner a b) (gf_mul_horner a b').
Proof. unfold gf_mul_horner. rewrite !horner_psum, xt_0, !N.lxor_0_l. apply psum_lxor_r. Qed.
Lemma psum_0_r n a : psum n a 0 = 0.
Proof. induction n as [|n IH]; cbn [psum]; [reflexivity|]. rewrite IH. unfold term. rewrite N.bits_0. reflexivity. Qed.
Theorem gf_mul_horner_0_r a : gf_mul_horner a 0 = 0.
Proof. unfold gf_mul_horner. rewrite horner_psum, xt_0, N.lxor_0_l. apply psum_0_r. Qed.

(* ---- finite xor sums ---- *)
Fixpoint xsum (n : nat) (g : nat -> N) : N :=
  match n with O => 0 | S k => N.lxor (xsum k g) (g k) end.
Lemma xsum_ext n g h : (forall i, (i < n)%nat -> g i = h i) -> xsum n g = xsum n h.
Proof.
  induction n as [|n IH]; intros E; cbn [xsum]; [reflexivity|].
  rewrite IH, E by (intros; try apply E; lia). reflexivity.
Qed.
Lemma xsum_lxor n g h : xsum n (fun i => N.lxor (g i) (h i)) = N.lxor (xsum n g) (xsum n h).
Proof. induction n as [|n IH]; cbn [xsum]; [reflexivity|]. rewrite IH. apply lxor_swap4. Qed.
Lemma xsum_0 n : xsum n (fun _ => 0) = 0.
Proof. induction n as [|n IH]; cbn [xsum]; [reflexivity|]. rewrite IH. reflexivity. Qed.
Lemma xsum_swap n m (f : nat -> nat -> N) :
  xsum n (fun i => xsum m (f i)) = xsum m (fun j => xsum n (fun i => f i j)).
Proof.
  induction n as [|n IH]; cbn [xsum].
  - rewrite xsum_0. reflexivity.
  - rewrite IH, <- xsum_lxor. reflexivity.
Qed.
Lemma xsum_linear (L : N -> N) : (forall x y, L (N.lxor x y) = N.lxor (L x) (L y)) -> L 0 = 0 ->
  forall n g, L (xsum n g) = xsum n (fun i => L (g i)).
Proof. intros Hl H0 n g. induction n as [|n IH]; cbn [xsum]; [exact H0|]. rewrite Hl, IH. reflexivity. Qed.
Lemma xsum_if (c : bool) n g : (if c then xsum n g else 0) = xsum n (fun i => if c then g i else 0).
Proof. destruct c; [reflexivity | symmetry; apply xsum_0]. Qed.

Lemma psum_xsum n a b : psum n a b = xsum n (term a b).
Proof. induction n as [|n IH]; cbn [psum xsum]; [reflexivity|]. rewrite IH. reflexivity. Qed.

(* ---- a 128-bit value is the xor of its set bits ---- *)
Definition bitv (a : N) (i : nat) : N := if N.testbit a (N.of_nat i) then 2 ^ N.of_nat i else 0.
Lemma xsum_bitv_bit n a k :
  N.testbit (xsum n (bitv a)) k = N.testbit a k && (k <? N.of_nat n).
Proof.
  induction n as [|n IH]; cbn [xsum].
  - rewrite N.bits_0. destruct (N.ltb_spec k (N.of_nat 0)) as [H|H]; [cbn in H; lia|]. rewrite andb_false_r. reflexivity.
  - rewrite N.lxor_spec, IH. unfold bitv.
    destruct (N.eqb_spec k (N.of_nat n)) as [->|Hne].
    + rewrite N.ltb_irrefl, andb_false_r. cbn [xorb].
      destruct (N.testbit a (N.of_nat n)) eqn:E.
      * rewrite N.pow2_bits_true. replace (N.of_nat n <? N.of_nat (S n)) with true by (symmetry; apply N.ltb_lt; lia). reflexivity.
      * rewrite N.bits_0. reflexivity.
    + assert (Hb : N.testbit (if N.testbit a (N.of_nat n) then 2 ^ N.of_nat n else 0) k = false).
      { destruct (N.testbit a (N.of_nat n)); [apply N.pow2_bits_false; congruence | apply N.bits_0]. }
      rewrite Hb, xorb_false_r. f_equal.
      destruct (N.ltb_spec k (N.of_nat n)), (N.ltb_spec k (N.of_nat (S n))); try reflexivity; lia.
Qed.
Lemma xsum_bitv a : a < 2 ^ 128 -> xsum 128 (bitv a) = a.
Proof.
  intros Ha. apply N.bits_inj. intros k. rewrite xsum_bitv_bit.
  destruct (N.ltb_spec k (N.of_nat 128)) as [H|H]; [apply andb_true_r|].
  rewrite andb_false_r. symmetry.
  destruct (N.eq_dec a 0) as [->|Hnz]; [apply N.bits_0|].
  apply N.bits_above_log2. apply N.log2_lt_pow2 in Ha; [|lia]. change (N.of_nat 128) with 128 in H. lia.
Qed.

(* ---- the table: x^i . x^j is symmetric ---- *)
Definition sym_row (j : nat) : bool :=
  forallb (fun i => N.eqb (xt j (2 ^ N.of_nat i)) (xt i (2 ^ N.of_nat j))) (seq 0 128).
Lemma sym_table : forallb sym_row (seq 0 128) = true.
Proof. vm_compute. reflexivity. Qed.
Lemma xt_pow_sym i j : (i < 128)%nat -> (j < 128)%nat -> xt j (2 ^ N.of_nat i) = xt i (2 ^ N.of_nat j).
Proof.
  intros Hi Hj. pose proof sym_table as T. rewrite forallb_forall in T.
  specialize (T j). unfold sym_row in T. rewrite forallb_forall in T.
  apply N.eqb_eq. apply T; apply in_seq; lia.
Qed.

(* ---- both products as the same double sum ---- *)
Definition cell (a b : N) (j i : nat) : N :=
  if N.testbit b (N.of_nat j) then (if N.testbit a (N.of_nat i) then xt j (2 ^ N.of_nat i) else 0) else 0.
Lemma term_cells a b j : a < 2 ^ 128 -> term a b j = xsum 128 (cell a b j).
Proof.
  intros Ha. unfold term. rewrite <- (xsum_bitv a Ha) at 1.
  rewrite (xsum_linear (xt j) (xt_lxor j) (xt_0 j)), xsum_if.
  apply xsum_ext. intros i _. unfold cell, bitv.
  destruct (N.testbit b (N.of_nat j)); [|reflexivity].
  destruct (N.testbit a (N.of_nat i)); [reflexivity | apply xt_0].
Qed.
Theorem gf_mul_horner_comm a b : a < 2 ^ 128 -> b < 2 ^ 128 -> gf_mul_horner a b = gf_mul_horner b a.
Proof.
  intros Ha Hb. unfold gf_mul_horner. rewrite !horner_psum, xt_0, !N.lxor_0_l, !psum_xsum.
  rewrite (xsum_ext 128 (term a b) (fun j => xsum 128 (cell a b j))) by (intros; apply term_cells, Ha).
  rewrite (xsum_ext 128 (term b a) (fun i => xsum 128 (cell b a i))) by (intros; apply term_cells, Hb).
  rewrite (xsum_swap 128 128 (cell b a)).
  apply xsum_ext. intros j Hj. apply xsum_ext. intros i Hi. unfold cell.
  destruct (N.testbit b (N.of_nat j)), (N.testbit a (N.of_nat i)); try reflexivity.
  apply xt_pow_sym; assumption.
Qed.

(* ---- on the two 64-bit limbs the C code works with ---- *)
Require Import Lia ZifyN.
Lemma poly_lt a : L64 (fst a) -> L64 (snd a) -> poly a < 2 ^ 128.
Proof. unfold L64, poly. intros H0 H1. change (2 ^ 128) with (2 ^ 64 * 2 ^ 64). nia. Qed.
Lemma poly_inj a b : L64 (fst a) -> L64 (fst b) -> poly a = poly b -> a = b.
Proof.
  destruct a as [a0 a1], b as [b0 b1]. unfold L64, poly. cbn [fst snd]. intros Ha Hb E.
  assert (a1 = b1) by nia. subst. f_equal. lia.
Qed.
Theorem gf128_mul_comm a b :
  L64 (fst a) -> L64 (snd a) -> L64 (fst b) -> L64 (snd b) -> gf128_mul a b = gf128_mul b a.
Proof.
  intros A0 A1 B0 B1.
  destruct (gf128_mul_eq_horner a b A0 A1 B0 B1) as (E1 & L1 & _).
  destruct (gf128_mul_eq_horner b a B0 B1 A0 A1) as (E2 & L2 & _).
  apply poly_inj; [exact L1 | exact L2 |].
  rewrite E1, E2. apply gf_mul_horner_comm; apply poly_lt; assumption.
Qed.
