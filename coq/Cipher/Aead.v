(* The authenticated decryptors of property C05, as concrete instances:
     SM4-GCM, AES-GCM (GCM.v), SM4-CCM (CCM.v),
     SM4-CBC+SM3-HMAC, SM4-CTR+SM3-HMAC (src/sm4_cbc_sm3_hmac.c, src/sm4_ctr_sm3_hmac.c; this file).
   The two HMAC modes exist in the library only as init/update/finish; their decryptors are the
   tag window of GCM.v (TagWindow) in front of (sm3_hmac_update ; sm4_cbc_decrypt_update) resp.
   (sm3_hmac_update ; sm4_ctr_encrypt_update).  The MAC covers AAD || ciphertext -- NOT the IV. *)
From GmVerif Require Import Base.ListX Base.Bytes Hash.MD Hash.SM3 Hash.Hmac Hash.Instances
  Cipher.SM4 Cipher.GF128 Cipher.GCM Cipher.CCM Cipher.AES.
Local Open Scope N_scope.

(* ================= inner ciphers of the HMAC modes, over a block function ================= *)
Section Inner.
  Variable E : list N -> list N.     (* sm4_encrypt under the key *)
  Variable D : list N -> list N.     (* sm4 decrypt under the key *)

  (* ---- CBC ---- *)
  Fixpoint cbc_enc_blocks (k : nat) (iv d : list N) : list N * list N :=
    match k with
    | O => (iv, [])
    | S j => let c := E (xor_bytes (firstn 16 d) iv) in
             let '(iv', r) := cbc_enc_blocks j c (skipn 16 d) in (iv', c ++ r)
    end.
  Fixpoint cbc_dec_blocks (k : nat) (iv d : list N) : list N * list N :=
    match k with
    | O => (iv, [])
    | S j => let c := firstn 16 d in
             let p := xor_bytes (D c) iv in
             let '(iv', r) := cbc_dec_blocks j c (skipn 16 d) in (iv', p ++ r)
    end.
  Record cbc_ctx := mkCbc { cb_iv : list N; cb_buf : list N }.
  (* sm4_cbc_encrypt_update: whole blocks of (pending ++ input) *)
  Definition cbc_enc_update (c : cbc_ctx) (d : list N) : cbc_ctx * list N :=
    let all := cb_buf c ++ d in
    let k := (length all / 16)%nat in
    let '(iv', o) := cbc_enc_blocks k (cb_iv c) (firstn (k * 16) all) in
    (mkCbc iv' (skipn (k * 16) all), o).
  (* sm4_cbc_encrypt_finish -> sm4_cbc_padding_encrypt of the pending bytes *)
  Definition cbc_enc_finish (c : cbc_ctx) : list N :=
    let pad := (16 - length (cb_buf c))%nat in
    snd (cbc_enc_blocks 1 (cb_iv c) (cb_buf c ++ repeat (N.of_nat pad) pad)).
  (* sm4_cbc_decrypt_update: the last 1..16 bytes stay buffered *)
  Definition cbc_dec_update (c : cbc_ctx) (d : list N) : cbc_ctx * list N :=
    let all := cb_buf c ++ d in
    let k := ((length all - 1) / 16)%nat in
    let '(iv', o) := cbc_dec_blocks k (cb_iv c) (firstn (k * 16) all) in
    (mkCbc iv' (skipn (k * 16) all), o).
  (* the PKCS #7 loop of sm4_cbc_padding_decrypt (commit 75d04f0):
     for (i = 16 - padding; i < 16; i++) if (block[i] != padding) return -1; *)
  Definition pad_bytes_ok (block : list N) (pad : N) : bool :=
    forallb (fun b => N.eqb b pad) (skipn (16 - N.to_nat pad) block).
  (* sm4_cbc_decrypt_finish -> sm4_cbc_padding_decrypt: exactly one buffered block; padding
     length 1..16 in the last byte and every padding byte equal to it *)
  Definition cbc_dec_finish (c : cbc_ctx) : res (list N) :=
    if negb (length (cb_buf c) =? 16)%nat then Err
    else
      let p := xor_bytes (D (cb_buf c)) (cb_iv c) in
      let pad := nth 15 p 0 in
      if (pad <? 1) || (16 <? pad) then Err
      else if negb (pad_bytes_ok p pad) then Err
      else Ok (firstn (16 - N.to_nat pad) p).

  (* whole-message forms (Spec of the modes) *)
  Definition cbc_pad_encrypt (iv p : list N) : list N :=
    let pad := (16 - length p mod 16)%nat in
    snd (cbc_enc_blocks (length p / 16 + 1) iv (p ++ repeat (N.of_nat pad) pad)).
  (* strict = true : sm4_cbc_padding_decrypt (all padding bytes checked, since 75d04f0)
     strict = false: aes_cbc_padding_decrypt (only the last byte is inspected) *)
  Definition cbc_pad_decrypt (strict : bool) (iv c : list N) : res (list N) :=
    if ((length c =? 0) || negb (length c mod 16 =? 0))%nat then Err
    else
      let p := snd (cbc_dec_blocks (length c / 16) iv c) in
      let pad := nth (length c - 1) p 0 in
      if (pad <? 1) || (16 <? pad) then Err
      else if strict && negb (pad_bytes_ok (skipn (length c - 16) p) pad) then Err
      else Ok (firstn (length c - N.to_nat pad) p).

  (* ---- CTR with the 128-bit counter increment (the sm4_ctr_encrypt family) ---- *)
  Definition ctr128_incr : list N -> list N := ctr_n_incr 16.
  Definition ctr128_update (c : ctr_ctx) (d : list N) : ctr_ctx * list N :=
    let all := cc_buf c ++ d in
    let k := (length all / 16)%nat in
    (mkCtr (incr_k ctr128_incr k (cc_ctr c)) (skipn (k * 16) all),
     ctr_crypt E ctr128_incr k (cc_ctr c) (firstn (k * 16) all)).
  Definition ctr128_crypt (ctr d : list N) : list N := ctr_crypt E ctr128_incr (length d) ctr d.
End Inner.

(* ================= the HMAC modes over an abstract streaming MAC ================= *)
Section HmacModes.
  Variable M : Type.                              (* SM3_HMAC_CTX *)
  Variable mac_init : list N -> M.
  Variable mac_update : M -> list N -> M.
  Variable mac_finish : M -> list N.
  Variable E D : list N -> list N.

  Definition maclen : nat := 32.
  (* sm3_hmac_update is called only when aad && aadlen *)
  Definition hm_start (mkey aad : list N) : M :=
    match aad with [] => mac_init mkey | _ => mac_update (mac_init mkey) aad end.

  (* ---- SM4-CBC + SM3-HMAC ---- *)
  Definition cbch_st : Type := (cbc_ctx * M)%type.
  Definition cbch_absorb (s : cbch_st) (ct : list N) : cbch_st * list N :=
    let '(c', o) := cbc_dec_update D (fst s) ct in ((c', mac_update (snd s) ct), o).
  Definition cbch_decrypt (mkey iv aad : list N) (chunks : list (list N)) : res (list N) :=
    w_decrypt cbch_st cbch_absorb (fun _ _ => true) maclen
              (fun s => mac_finish (snd s)) (fun s => cbc_dec_finish D (fst s))
              (mkCbc iv [], hm_start mkey aad) chunks.
  Fixpoint cbch_enc_run (c : cbc_ctx) (m : M) (chunks : list (list N)) (acc : list N) : cbc_ctx * M * list N :=
    match chunks with
    | [] => (c, m, acc)
    | d :: r => let '(c', o) := cbc_enc_update E c d in cbch_enc_run c' (mac_update m o) r (acc ++ o)
    end.
  Definition cbch_encrypt (mkey iv aad : list N) (chunks : list (list N)) : list N :=
    let '(c, m, o) := cbch_enc_run (mkCbc iv []) (hm_start mkey aad) chunks [] in
    let last := cbc_enc_finish E c in
    o ++ last ++ mac_finish (mac_update m last).

  (* ---- SM4-CTR + SM3-HMAC ---- *)
  Definition ctrh_st : Type := (ctr_ctx * M)%type.
  Definition ctrh_absorb (s : ctrh_st) (ct : list N) : ctrh_st * list N :=
    let '(c', o) := ctr128_update E (fst s) ct in ((c', mac_update (snd s) ct), o).
  Definition ctrh_decrypt (mkey iv aad : list N) (chunks : list (list N)) : res (list N) :=
    w_decrypt ctrh_st ctrh_absorb (fun _ _ => true) maclen
              (fun s => mac_finish (snd s)) (fun s => Ok (ctr32_finish E (fst s)))
              (mkCtr iv [], hm_start mkey aad) chunks.
  Fixpoint ctrh_enc_run (c : ctr_ctx) (m : M) (chunks : list (list N)) (acc : list N) : ctr_ctx * M * list N :=
    match chunks with
    | [] => (c, m, acc)
    | d :: r => let '(c', o) := ctr128_update E c d in ctrh_enc_run c' (mac_update m o) r (acc ++ o)
    end.
  Definition ctrh_encrypt (mkey iv aad : list N) (chunks : list (list N)) : list N :=
    let '(c, m, o) := ctrh_enc_run (mkCtr iv []) (hm_start mkey aad) chunks [] in
    let last := ctr32_finish E c in
    o ++ last ++ mac_finish (mac_update m last).
End HmacModes.

(* ================= concrete instances ================= *)
Definition sm4E (key : list N) : list N -> list N := sm4_encrypt_block key.
Definition sm4D (key : list N) : list N -> list N := sm4_decrypt_block key.
Definition aesE (key : list N) : list N -> list N := aes_encrypt_block16 key.

(* SM4-GCM *)
Definition sm4_gcm_encrypt (key iv aad p : list N) (taglen : nat) := gcm_encrypt (sm4E key) true iv aad p taglen.
Definition sm4_gcm_decrypt (key iv aad c tag : list N) := gcm_decrypt (sm4E key) true iv aad c tag.
Definition sm4_gcm_encrypt_stream (key iv aad : list N) (taglen : nat) (chunks : list (list N)) :=
  gcm_encrypt_stream (sm4E (firstn 16 key)) (length key) iv aad taglen chunks.
Definition sm4_gcm_decrypt_stream (key iv aad : list N) (taglen : nat) (chunks : list (list N)) :=
  gcm_decrypt_stream (sm4E (firstn 16 key)) (length key) iv aad taglen chunks.
(* AES-GCM: no argument checks except taglen <= 16 on the encrypt side *)
Definition aes_gcm_encrypt (key iv aad p : list N) (taglen : nat) := gcm_encrypt (aesE key) false iv aad p taglen.
Definition aes_gcm_decrypt (key iv aad c tag : list N) := gcm_decrypt (aesE key) false iv aad c tag.
(* SM4-CCM *)
Definition sm4_ccm_encrypt (key iv aad p : list N) (taglen : nat) := ccm_encrypt (sm4E key) iv aad p taglen.
Definition sm4_ccm_decrypt (key iv aad c tag : list N) := ccm_decrypt (sm4E key) iv aad c tag.
Definition sm4_ccm_spec (key iv aad p : list N) (taglen : nat) := ccm_spec_encrypt (sm4E key) iv aad p taglen.
(* SM4-CBC/CTR + SM3-HMAC: key = 16-byte SM4 key || 32-byte HMAC key *)
Definition sm4_cbc_sm3_hmac_encrypt (key iv aad : list N) (chunks : list (list N)) : list N :=
  cbch_encrypt _ sm3_hmac_init sm3_hmac_update sm3_hmac_finish (sm4E (firstn 16 key)) (skipn 16 key) iv aad chunks.
Definition sm4_cbc_sm3_hmac_decrypt (key iv aad : list N) (chunks : list (list N)) : res (list N) :=
  cbch_decrypt _ sm3_hmac_init sm3_hmac_update sm3_hmac_finish (sm4D (firstn 16 key)) (skipn 16 key) iv aad chunks.
Definition sm4_ctr_sm3_hmac_encrypt (key iv aad : list N) (chunks : list (list N)) : list N :=
  ctrh_encrypt _ sm3_hmac_init sm3_hmac_update sm3_hmac_finish (sm4E (firstn 16 key)) (skipn 16 key) iv aad chunks.
Definition sm4_ctr_sm3_hmac_decrypt (key iv aad : list N) (chunks : list (list N)) : res (list N) :=
  ctrh_decrypt _ sm3_hmac_init sm3_hmac_update sm3_hmac_finish (sm4E (firstn 16 key)) (skipn 16 key) iv aad chunks.

(* Specs of the HMAC modes on whole messages *)
Definition cbc_hmac_spec_encrypt (key iv aad p : list N) : list N :=
  let c := cbc_pad_encrypt (sm4E (firstn 16 key)) iv p in c ++ sm3_hmac_spec (skipn 16 key) (aad ++ c).
Definition cbc_hmac_spec_decrypt (key iv aad inp : list N) : res (list N) :=
  if (length inp <? 32)%nat then Err
  else let c := firstn (length inp - 32) inp in
       match cbc_pad_decrypt (sm4D (firstn 16 key)) true iv c with
       | Ok p => if bytes_eqb (sm3_hmac_spec (skipn 16 key) (aad ++ c)) (skipn (length inp - 32) inp) then Ok p else Err
       | _ => Err
       end.
Definition ctr_hmac_spec_encrypt (key iv aad p : list N) : list N :=
  let c := ctr128_crypt (sm4E (firstn 16 key)) iv p in c ++ sm3_hmac_spec (skipn 16 key) (aad ++ c).
Definition ctr_hmac_spec_decrypt (key iv aad inp : list N) : res (list N) :=
  if (length inp <? 32)%nat then Err
  else let c := firstn (length inp - 32) inp in
       if bytes_eqb (sm3_hmac_spec (skipn 16 key) (aad ++ c)) (skipn (length inp - 32) inp)
       then Ok (ctr128_crypt (sm4E (firstn 16 key)) iv c) else Err.

(* history: before commit 75d04f0 sm4_cbc_padding_decrypt used the lax rule too; a block whose last
   byte says "2 bytes of padding" but whose other padding byte is 7 was accepted *)
Example cbc_padding_lax_rule_before_75d04f0 :
  let blk := zeros 14 ++ [7; 2] in
  cbc_pad_decrypt (fun x => x) false (zeros 16) blk = Ok (zeros 14) /\
  cbc_pad_decrypt (fun x => x) true (zeros 16) blk = Err /\
  cbc_pad_decrypt (fun x => x) true (zeros 16) (zeros 14 ++ [2; 2]) = Ok (zeros 14).
Proof. vm_compute. repeat split; reflexivity. Qed.

(* RFC 8998 appendix A.1 / A.2 (SM4-GCM, SM4-CCM): key, nonce, AAD, plaintext *)
Definition rfc8998_key : list N := [0x01;0x23;0x45;0x67;0x89;0xAB;0xCD;0xEF;0xFE;0xDC;0xBA;0x98;0x76;0x54;0x32;0x10].
Definition rfc8998_iv : list N := [0x00;0x00;0x12;0x34;0x56;0x78;0x00;0x00;0x00;0x00;0xAB;0xCD].
Definition rfc8998_aad : list N :=
  [0xFE;0xED;0xFA;0xCE;0xDE;0xAD;0xBE;0xEF;0xFE;0xED;0xFA;0xCE;0xDE;0xAD;0xBE;0xEF;0xAB;0xAD;0xDA;0xD2].
Definition rfc8998_pt : list N :=
  repeat 0xAA 8 ++ repeat 0xBB 8 ++ repeat 0xCC 8 ++ repeat 0xDD 8 ++
  repeat 0xEE 8 ++ repeat 0xFF 8 ++ repeat 0xEE 8 ++ repeat 0xAA 8.
Example sm4_gcm_rfc8998 :
  match sm4_gcm_encrypt rfc8998_key rfc8998_iv rfc8998_aad rfc8998_pt 16 with
  | Ok (c, t) => firstn 8 c = [0x17;0xF3;0x99;0xF0;0x8C;0x67;0xD5;0xEE] /\
                 t = [0x83;0xDE;0x35;0x41;0xE4;0xC2;0xB5;0x81;0x77;0xE0;0x65;0xA9;0xBF;0x7B;0x62;0xEC]
  | _ => False
  end.
Proof. vm_compute. split; reflexivity. Qed.
Example sm4_ccm_impl_rfc8998 :
  sm4_ccm_encrypt rfc8998_key rfc8998_iv rfc8998_aad rfc8998_pt 16 =
  Ok (sm4_ccm_spec rfc8998_key rfc8998_iv rfc8998_aad rfc8998_pt 16).
Proof. vm_compute. reflexivity. Qed.
Example sm4_ccm_rfc8998 :
  sm4_ccm_spec rfc8998_key rfc8998_iv rfc8998_aad rfc8998_pt 16 =
  ([0x48;0xAF;0x93;0x50;0x1F;0xA6;0x2A;0xDB;0xCD;0x41;0x4C;0xCE;0x60;0x34;0xD8;0x95;
    0xDD;0xA1;0xBF;0x8F;0x13;0x2F;0x04;0x20;0x98;0x66;0x15;0x72;0xE7;0x48;0x30;0x94;
    0xFD;0x12;0xE5;0x18;0xCE;0x06;0x2C;0x98;0xAC;0xEE;0x28;0xD9;0x5D;0xF4;0x41;0x6B;
    0xED;0x31;0xA2;0xF0;0x44;0x76;0xC1;0x8B;0xB4;0x0C;0x84;0xA7;0x4B;0x97;0xDC;0x5B],
   [0x16;0x84;0x2D;0x4F;0xA1;0x86;0xF5;0x6A;0xB3;0x32;0x56;0x97;0x1F;0xA1;0x10;0xF4]).
Proof. vm_compute. reflexivity. Qed.
