(* ZUC (src/zuc.c): the LFSR cells stay 31-bit values under both LFSR modes (the ADD31 / 64-bit
   fold arithmetic never leaves [0, 2^31 - 1] when it starts there). *)
From GmVerif Require Import Base.ListX Base.Bytes Cipher.ZUC.
Require Import Lia ZifyN ZifyNat ZifyBool.
Ltac Zify.zify_post_hook ::= Z.div_mod_to_equations.
Local Open Scope N_scope.

Definition c31 (x : N) : Prop := x < 2^31.

Lemma land_m31 x : N.land x m31 = x mod 2^31.
Proof. change m31 with (N.ones 31). apply N.land_ones. Qed.
Lemma w32_mod x : w32 x = x mod 2^32.
Proof. unfold w32. change mask32 with (N.ones 32). apply N.land_ones. Qed.

Lemma add31_c31 a b : c31 a -> c31 b -> c31 (add31 a b).
Proof.
  unfold c31, add31. intros Ha Hb. rewrite land_m31, N.shiftr_div_pow2, w32_mod.
  change (2^31) with 2147483648 in *. change (2^32) with 4294967296. lia.
Qed.
Lemma rot31_c31 a k : c31 (rot31 a k).
Proof.
  unfold c31, rot31. rewrite land_m31. apply N.mod_lt. discriminate.
Qed.

Lemma li_c31 l i : Forall c31 l -> c31 (li l i).
Proof.
  intros H. unfold li. destruct (Nat.lt_ge_cases i (length l)) as [Hi|Hi].
  - rewrite Forall_forall in H. apply H, nth_In, Hi.
  - rewrite nth_overflow by exact Hi. unfold c31. reflexivity.
Qed.
Lemma shift_in l v : Forall c31 l -> c31 v -> Forall c31 (skipn 1 l ++ [v]).
Proof.
  intros Hl Hv. apply Forall_app. split; [|repeat constructor; exact Hv].
  destruct l; [constructor|]. cbn [skipn]. inversion Hl; assumption.
Qed.

Theorem lfsr_init_mode_c31 l u : Forall c31 l -> c31 u -> Forall c31 (lfsr_init_mode l u).
Proof.
  intros Hl Hu. unfold lfsr_init_mode. apply shift_in; [exact Hl|].
  repeat apply add31_c31; first [apply rot31_c31 | apply li_c31; exact Hl | exact Hu].
Qed.

Theorem lfsr_work_mode_c31 l : Forall c31 l -> Forall c31 (lfsr_work_mode l).
Proof.
  intros Hl. unfold lfsr_work_mode. apply shift_in; [exact Hl|].
  pose proof (li_c31 l 0 Hl) as H0. pose proof (li_c31 l 4 Hl) as H4. pose proof (li_c31 l 10 Hl) as H10.
  pose proof (li_c31 l 13 Hl) as H13. pose proof (li_c31 l 15 Hl) as H15.
  unfold c31 in *. rewrite !N.shiftl_mul_pow2.
  set (a := li l 0 + li l 0 * 2 ^ 8 + li l 4 * 2 ^ 20 + li l 10 * 2 ^ 21 + li l 13 * 2 ^ 17 + li l 15 * 2 ^ 15).
  assert (Ha : a < 2^53).
  { unfold a. change (2^8) with 256. change (2^20) with 1048576. change (2^21) with 2097152.
    change (2^17) with 131072. change (2^15) with 32768. change (2^31) with 2147483648 in *.
    change (2^53) with 9007199254740992. lia. }
  clearbody a. rewrite !land_m31, !N.shiftr_div_pow2, w32_mod.
  change (2^31) with 2147483648 in *. change (2^32) with 4294967296. change (2^53) with 9007199254740992 in Ha.
  lia.
Qed.

(* ===================== ZUC_CTX streaming (zuc_modes.c) = one-shot zuc_encrypt ===================== *)
Local Open Scope nat_scope.

Lemma zenc_fuel : forall f1 f2 s d, length d <= 4 * f1 -> length d <= 4 * f2 ->
  zuc_encrypt f1 s d = zuc_encrypt f2 s d.
Proof.
  induction f1 as [|f1 IH]; intros f2 s d H1 H2.
  - destruct d; [|cbn in H1; lia]. destruct f2; reflexivity.
  - destruct d as [|b d]; [destruct f2; reflexivity|].
    destruct f2 as [|f2]; [cbn in H2; lia|]. cbn [zuc_encrypt].
    destruct (zuc_keyword s) as [s1 z]. destruct (4 <=? length (b :: d)); [|reflexivity].
    rewrite (IH f2) by (rewrite skipn_length; lia). reflexivity.
Qed.

Lemma zenc_split : forall k f s a b, length a = 4 * k ->
  zuc_encrypt (k + f) s (a ++ b) =
  let '(s1, o1) := zuc_encrypt k s a in let '(s2, o2) := zuc_encrypt f s1 b in (s2, o1 ++ o2).
Proof.
  induction k as [|k IH]; intros f s a b Ha.
  - destruct a; [|cbn in Ha; lia]. cbn [Nat.add zuc_encrypt app]. destruct (zuc_encrypt f s b). reflexivity.
  - destruct a as [|x a]; [cbn in Ha; lia|].
    set (a0 := x :: a) in *. cbn [Nat.add zuc_encrypt].
    assert (Hnn : a0 ++ b <> []) by (unfold a0; discriminate).
    destruct (a0 ++ b) eqn:Eab; [contradiction|]. rewrite <- Eab. clear Eab Hnn.
    unfold a0 at 3. fold a0.
    destruct (zuc_keyword s) as [s1 z].
    replace (4 <=? length (a0 ++ b)) with true by (symmetry; apply Nat.leb_le; rewrite app_length; lia).
    replace (4 <=? length a0) with true by (symmetry; apply Nat.leb_le; lia).
    rewrite firstn_app, skipn_app. replace (4 - length a0) with 0 by lia.
    rewrite firstn_O, skipn_O, app_nil_r.
    rewrite IH by (rewrite skipn_length; lia).
    destruct (zuc_encrypt k s1 (skipn 4 a0)) as [s2 o2]. subst a0. cbv beta iota.
    destruct (zuc_encrypt f s2 b) as [s3 o3]. rewrite app_assoc. reflexivity.
Qed.

(* context and accumulated output after the bytes x *)
Definition zc_of (s0 : zuc_state) (x : list N) : zuc_ctx :=
  mkZc (fst (zuc_encrypt (length x / 4) s0 (firstn (length x / 4 * 4) x))) (skipn (length x / 4 * 4) x).
Definition zout_of (s0 : zuc_state) (x : list N) : list N :=
  snd (zuc_encrypt (length x / 4) s0 (firstn (length x / 4 * 4) x)).

Lemma zuc_update_of s0 a b :
  fst (zuc_encrypt_update (zc_of s0 a) b) = zc_of s0 (a ++ b) /\
  zout_of s0 (a ++ b) = zout_of s0 a ++ snd (zuc_encrypt_update (zc_of s0 a) b).
Proof.
  set (ka := length a / 4). set (ra := skipn (ka * 4) a).
  assert (Hdm : length a = ka * 4 + length a mod 4)
    by (pose proof (Nat.div_mod (length a) 4 ltac:(lia)); subst ka; lia).
  assert (Hr : length a mod 4 < 4) by (apply Nat.mod_upper_bound; lia).
  assert (Hra : length ra = length a mod 4) by (unfold ra; rewrite skipn_length; lia).
  set (k := length (ra ++ b) / 4).
  assert (Hkk : length (a ++ b) / 4 = ka + k).
  { unfold k. rewrite !app_length, Hra. rewrite Hdm at 1.
    rewrite <- Nat.add_assoc, Nat.div_add_l by lia. reflexivity. }
  assert (Hab : a ++ b = firstn (ka * 4) a ++ (ra ++ b)) by (unfold ra; rewrite app_assoc, firstn_skipn; reflexivity).
  assert (Hfa : length (firstn (ka * 4) a) = ka * 4) by (apply firstn_length_le; lia).
  assert (Hfirst : firstn ((ka + k) * 4) (a ++ b) = firstn (ka * 4) a ++ firstn (k * 4) (ra ++ b)).
  { rewrite Hab. rewrite (firstn_app ((ka + k) * 4)), Hfa.
    rewrite (firstn_all2 (firstn (ka * 4) a)) by lia.
    replace ((ka + k) * 4 - ka * 4) with (k * 4) by lia. reflexivity. }
  assert (Hskip : skipn ((ka + k) * 4) (a ++ b) = skipn (k * 4) (ra ++ b)).
  { rewrite Hab. rewrite (skipn_app ((ka + k) * 4)), Hfa.
    rewrite (skipn_all2 (firstn (ka * 4) a)) by lia.
    replace ((ka + k) * 4 - ka * 4) with (k * 4) by lia. reflexivity. }
  unfold zuc_encrypt_update, zc_of, zout_of. fold ka. fold ra. cbn [zc_s zc_buf]. fold k.
  rewrite Hkk, Hfirst, Hskip. rewrite zenc_split by lia.
  destruct (zuc_encrypt ka s0 (firstn (ka * 4) a)) as [s1 o1]. cbn [fst snd].
  destruct (zuc_encrypt k s1 (firstn (k * 4) (ra ++ b))) as [s2 o2]. cbn [fst snd].
  split; reflexivity.
Qed.

Fixpoint zrun (c : zuc_ctx) (chunks : list (list N)) (acc : list N) : zuc_ctx * list N :=
  match chunks with
  | [] => (c, acc)
  | d :: r => let '(c', o) := zuc_encrypt_update c d in zrun c' r (acc ++ o)
  end.

Lemma zrun_of s0 chunks : forall x,
  zrun (zc_of s0 x) chunks (zout_of s0 x) = (zc_of s0 (x ++ concat chunks), zout_of s0 (x ++ concat chunks)).
Proof.
  induction chunks as [|d r IH]; intros x; cbn [zrun concat]; [rewrite app_nil_r; reflexivity|].
  destruct (zuc_update_of s0 x d) as [H1 H2].
  destruct (zuc_encrypt_update (zc_of s0 x) d) as [c' o]. cbn [fst snd] in *.
  rewrite H1, <- H2, app_assoc. apply IH.
Qed.

(* ---- zuc_stream: init / update* / finish under any chunking = one call of zuc_encrypt ---- *)
Theorem zuc_encrypt_stream key iv chunks :
  let '(c, out) := zrun (zuc_encrypt_init key iv) chunks [] in
  out ++ zuc_encrypt_finish c
  = snd (zuc_encrypt (length (concat chunks)) (zuc_init key iv) (concat chunks)).
Proof.
  unfold zuc_encrypt_init. generalize (zuc_init key iv) as s0. intros s0. set (x := concat chunks).
  assert (H0 : zrun {| zc_s := s0; zc_buf := [] |} chunks [] = zrun (zc_of s0 []) chunks (zout_of s0 [])) by reflexivity.
  rewrite H0. clear H0.
  rewrite zrun_of. cbn [app]. fold x.
  unfold zuc_encrypt_finish, zc_of, zout_of. cbn [zc_s zc_buf].
  set (k := length x / 4).
  assert (Hdm : length x = k * 4 + length x mod 4)
    by (pose proof (Nat.div_mod (length x) 4 ltac:(lia)); subst k; lia).
  assert (Hr : length x mod 4 < 4) by (apply Nat.mod_upper_bound; lia).
  rewrite (zenc_fuel (length x) (k + 1) s0 x) by lia.
  rewrite <- (firstn_skipn (k * 4) x) at 4.
  rewrite zenc_split by (rewrite firstn_length_le; lia).
  destruct (zuc_encrypt k s0 (firstn (k * 4) x)) as [s1 o1]. cbn [fst snd].
  destruct (zuc_encrypt 1 s1 (skipn (k * 4) x)) as [s2 o2]. reflexivity.
Qed.

(* ---------- 128-EIA3 style MAC: update is a monoid action; finish over chunks = finish over the whole ---------- *)
Definition set_buf (c : zmac_ctx) (b : list N) : zmac_ctx := mkZm (zm_s c) (zm_T c) (zm_K0 c) b.

Lemma mac_word_buf c M n b : mac_word (set_buf c b) M n = set_buf (mac_word c M n) b.
Proof.
  unfold mac_word, set_buf. cbn [zm_s zm_T zm_K0 zm_buf].
  destruct (zuc_keyword (zm_s c)) as [s k1]. destruct (mac_bits n M (zm_T c) (zm_K0 c) k1) as [[T K0] K1].
  reflexivity.
Qed.

Lemma mac_words_fuel : forall f1 f2 c d, length d < 4 * (f1 + 1) -> length d < 4 * (f2 + 1) ->
  mac_words f1 c d = mac_words f2 c d.
Proof.
  induction f1 as [|f1 IH]; intros f2 c d H1 H2.
  - destruct f2; [reflexivity|]. cbn [mac_words].
    replace (4 <=? length d) with false by (symmetry; apply Nat.leb_gt; lia). reflexivity.
  - cbn [mac_words]. destruct (4 <=? length d) eqn:E4.
    + apply Nat.leb_le in E4. destruct f2 as [|f2]; [lia|]. cbn [mac_words].
      replace (4 <=? length d) with true by (symmetry; apply Nat.leb_le; lia).
      apply IH; rewrite skipn_length; lia.
    + apply Nat.leb_gt in E4. destruct f2; [reflexivity|]. cbn [mac_words].
      replace (4 <=? length d) with false by (symmetry; apply Nat.leb_gt; lia). reflexivity.
Qed.

(* words of a prefix are consumed first *)
Lemma mac_words_prefix : forall k c x y, length x / 4 = k ->
  let '(c', rest) := mac_words (length x) c x in
  length rest < 4 /\ mac_words (length (x ++ y)) c (x ++ y) = mac_words (length (rest ++ y)) c' (rest ++ y).
Proof.
  induction k as [|k IH]; intros c x y Hk.
  - assert (Hx : length x < 4) by (apply Nat.div_small_iff in Hk; lia).
    rewrite (mac_words_fuel (length x) 0) by lia. cbn [mac_words]. split; [exact Hx|reflexivity].
  - assert (Hx : 4 <= length x).
    { destruct (Nat.lt_ge_cases (length x) 4) as [Hlt|]; [|assumption]. rewrite Nat.div_small in Hk by assumption. discriminate. }
    set (c1 := mac_word c (get_be32 x) 32). set (x1 := skipn 4 x).
    assert (Hx1 : length x1 = length x - 4) by (unfold x1; apply skipn_length).
    assert (Hk1 : length x1 / 4 = k).
    { rewrite Hx1. replace (length x) with (1 * 4 + (length x - 4)) in Hk by lia.
      rewrite Nat.div_add_l in Hk by lia. lia. }
    specialize (IH c1 x1 y Hk1).
    rewrite (mac_words_fuel (length x) (S (length x1)) c x) by lia.
    cbn [mac_words]. replace (4 <=? length x) with true by (symmetry; apply Nat.leb_le; lia).
    fold c1. fold x1.
    destruct (mac_words (length x1) c1 x1) as [c' rest]. destruct IH as [Hr IH]. split; [exact Hr|].
    rewrite <- IH.
    assert (Hs : skipn 4 (x ++ y) = x1 ++ y).
    { unfold x1. rewrite skipn_app. replace (4 - length x) with 0 by lia. reflexivity. }
    rewrite (mac_words_fuel (length (x ++ y)) (S (length (x1 ++ y))) c (x ++ y)) by (rewrite !app_length; lia).
    cbn [mac_words].
    replace (4 <=? length (x ++ y)) with true by (symmetry; apply Nat.leb_le; rewrite app_length; lia).
    assert (Hg : get_be32 (x ++ y) = get_be32 x).
    { destruct x as [|a [|b [|c0 [|d0 x']]]]; cbn in Hx; try lia. reflexivity. }
    rewrite Hg, Hs. reflexivity.
Qed.

(* the context after absorbing x from a context with an empty buffer *)
Definition zm_of (c0 : zmac_ctx) (x : list N) : zmac_ctx :=
  let '(c', rest) := mac_words (length x) c0 x in set_buf c' rest.

Lemma zm_of_buf c0 x : length (zm_buf (zm_of c0 x)) < 4.
Proof.
  unfold zm_of. pose proof (mac_words_prefix (length x / 4) c0 x [] eq_refl) as H.
  destruct (mac_words (length x) c0 x) as [c' rest]. destruct H as [H _]. exact H.
Qed.

Lemma mac_words_set_buf : forall f c b d, mac_words f (set_buf c b) d =
  let '(c', r) := mac_words f c d in (set_buf c' b, r).
Proof.
  induction f as [|f IH]; intros c b d; cbn [mac_words]; [reflexivity|].
  destruct (4 <=? length d); [|reflexivity]. rewrite mac_word_buf. apply IH.
Qed.

Lemma zuc_mac_update_of c0 x d : zm_buf c0 = [] ->
  zuc_mac_update (zm_of c0 x) d = zm_of c0 (x ++ d).
Proof.
  intros Hb0. destruct d as [|d0 d'].
  - cbn [zuc_mac_update]. rewrite app_nil_r. reflexivity.
  - set (d := d0 :: d'). unfold zuc_mac_update. fold d.
    pose proof (mac_words_prefix (length x / 4) c0 x d eq_refl) as H.
    unfold zm_of. destruct (mac_words (length x) c0 x) as [c' rest]. destruct H as [Hr H].
    cbn [zm_buf set_buf zm_s zm_T zm_K0]. rewrite H.
    rewrite mac_words_set_buf.
    destruct (mac_words (length (rest ++ d)) c' (rest ++ d)) as [c2 r2].
    unfold set_buf. cbn [zm_s zm_T zm_K0]. reflexivity.
Qed.

Lemma zm_of_nil c0 : zm_buf c0 = [] -> zm_of c0 [] = c0.
Proof. intros H. unfold zm_of. cbn. unfold set_buf. destruct c0. cbn in *. subst. reflexivity. Qed.

Lemma zuc_mac_updates_of c0 chunks : zm_buf c0 = [] -> forall x,
  fold_left zuc_mac_update chunks (zm_of c0 x) = zm_of c0 (x ++ concat chunks).
Proof.
  intros Hb. induction chunks as [|d r IH]; intros x; cbn [fold_left concat]; [rewrite app_nil_r; reflexivity|].
  rewrite zuc_mac_update_of by exact Hb. rewrite IH, app_assoc. reflexivity.
Qed.

(* ---- zuc_mac_stream: update over any chunking then finish(tail, nbits)
        = finish over the whole message with the whole bit length ---- *)
Theorem zuc_mac_stream key iv chunks tail nbits :
  zuc_mac_finish (fold_left zuc_mac_update chunks (zuc_mac_init key iv)) tail nbits =
  zuc_mac_finish (zuc_mac_init key iv) (concat chunks ++ tail) (8 * length (concat chunks) + nbits).
Proof.
  set (c0 := zuc_mac_init key iv).
  assert (Hb : zm_buf c0 = []).
  { unfold c0, zuc_mac_init. destruct (zuc_keyword (zuc_init key iv)). reflexivity. }
  clearbody c0. set (x := concat chunks).
  rewrite <- (zm_of_nil c0 Hb) at 1. rewrite zuc_mac_updates_of by exact Hb. cbn [app]. fold x.
  unfold zuc_mac_finish.
  replace ((8 * length x + nbits) / 8) with (length x + nbits / 8) by lia.
  replace ((8 * length x + nbits) mod 8) with (nbits mod 8) by lia.
  rewrite firstn_app, skipn_app.
  rewrite (firstn_all2 x) by lia. rewrite (skipn_all2 x) by lia.
  replace (length x + nbits / 8 - length x) with (nbits / 8) by lia. cbn [app].
  assert (Hu0 : forall z, zuc_mac_update c0 z = zm_of c0 z).
  { intros z. pose proof (zuc_mac_update_of c0 [] z Hb) as H. rewrite (zm_of_nil c0 Hb) in H. exact H. }
  assert (Hc : (if 8 <=? nbits then zuc_mac_update (zm_of c0 x) (firstn (nbits / 8) tail) else zm_of c0 x) =
               (if 8 <=? 8 * length x + nbits then zuc_mac_update c0 (x ++ firstn (nbits / 8) tail) else c0)).
  { destruct (8 <=? nbits) eqn:E8.
    - apply Nat.leb_le in E8. replace (8 <=? 8 * length x + nbits) with true by (symmetry; apply Nat.leb_le; lia).
      rewrite zuc_mac_update_of by exact Hb. rewrite Hu0. reflexivity.
    - apply Nat.leb_gt in E8. replace (nbits / 8) with 0 by (symmetry; apply Nat.div_small; lia).
      rewrite firstn_O, app_nil_r.
      destruct (8 <=? 8 * length x + nbits) eqn:E9.
      + rewrite Hu0. reflexivity.
      + apply Nat.leb_gt in E9. assert (length x = 0) by lia. destruct x; [apply zm_of_nil, Hb|discriminate]. }
  rewrite Hc. reflexivity.
Qed.

(* ---------- ZUC-256 MAC (32/64/128-bit tags): update is a monoid action; finish over chunks = finish over the whole ---------- *)
Definition set_buf6 (c : z256mac_ctx) (b : list N) : z256mac_ctx := mkZ6 (z6_s c) (z6_T c) (z6_K0 c) b (z6_n c).

Lemma mac256_word_buf c M n b : mac256_word (set_buf6 c b) M n = set_buf6 (mac256_word c M n) b.
Proof.
  unfold mac256_word, set_buf6. cbn [z6_s z6_T z6_K0 z6_buf z6_n].
  destruct (zuc_keyword (z6_s c)) as [s k1]. destruct (mac256_bits n M (z6_T c) (z6_K0 c) k1) as [T K0].
  reflexivity.
Qed.

Lemma mac256_words_fuel : forall f1 f2 c d, length d < 4 * (f1 + 1) -> length d < 4 * (f2 + 1) ->
  mac256_words f1 c d = mac256_words f2 c d.
Proof.
  induction f1 as [|f1 IH]; intros f2 c d H1 H2.
  - destruct f2; [reflexivity|]. cbn [mac256_words].
    replace (4 <=? length d) with false by (symmetry; apply Nat.leb_gt; lia). reflexivity.
  - cbn [mac256_words]. destruct (4 <=? length d) eqn:E4.
    + apply Nat.leb_le in E4. destruct f2 as [|f2]; [lia|]. cbn [mac256_words].
      replace (4 <=? length d) with true by (symmetry; apply Nat.leb_le; lia).
      apply IH; rewrite skipn_length; lia.
    + apply Nat.leb_gt in E4. destruct f2; [reflexivity|]. cbn [mac256_words].
      replace (4 <=? length d) with false by (symmetry; apply Nat.leb_gt; lia). reflexivity.
Qed.

(* words of a prefix are consumed first *)
Lemma mac256_words_prefix : forall k c x y, length x / 4 = k ->
  let '(c', rest) := mac256_words (length x) c x in
  length rest < 4 /\ mac256_words (length (x ++ y)) c (x ++ y) = mac256_words (length (rest ++ y)) c' (rest ++ y).
Proof.
  induction k as [|k IH]; intros c x y Hk.
  - assert (Hx : length x < 4) by (apply Nat.div_small_iff in Hk; lia).
    rewrite (mac256_words_fuel (length x) 0) by lia. cbn [mac256_words]. split; [exact Hx|reflexivity].
  - assert (Hx : 4 <= length x).
    { destruct (Nat.lt_ge_cases (length x) 4) as [Hlt|]; [|assumption]. rewrite Nat.div_small in Hk by assumption. discriminate. }
    set (c1 := mac256_word c (get_be32 x) 32). set (x1 := skipn 4 x).
    assert (Hx1 : length x1 = length x - 4) by (unfold x1; apply skipn_length).
    assert (Hk1 : length x1 / 4 = k).
    { rewrite Hx1. replace (length x) with (1 * 4 + (length x - 4)) in Hk by lia.
      rewrite Nat.div_add_l in Hk by lia. lia. }
    specialize (IH c1 x1 y Hk1).
    rewrite (mac256_words_fuel (length x) (S (length x1)) c x) by lia.
    cbn [mac256_words]. replace (4 <=? length x) with true by (symmetry; apply Nat.leb_le; lia).
    fold c1. fold x1.
    destruct (mac256_words (length x1) c1 x1) as [c' rest]. destruct IH as [Hr IH]. split; [exact Hr|].
    rewrite <- IH.
    assert (Hs : skipn 4 (x ++ y) = x1 ++ y).
    { unfold x1. rewrite skipn_app. replace (4 - length x) with 0 by lia. reflexivity. }
    rewrite (mac256_words_fuel (length (x ++ y)) (S (length (x1 ++ y))) c (x ++ y)) by (rewrite !app_length; lia).
    cbn [mac256_words].
    replace (4 <=? length (x ++ y)) with true by (symmetry; apply Nat.leb_le; rewrite app_length; lia).
    assert (Hg : get_be32 (x ++ y) = get_be32 x).
    { destruct x as [|a [|b [|c0 [|d0 x']]]]; cbn in Hx; try lia. reflexivity. }
    rewrite Hg, Hs. reflexivity.
Qed.

(* the context after absorbing x from a context with an empty buffer *)
Definition z6_of (c0 : z256mac_ctx) (x : list N) : z256mac_ctx :=
  let '(c', rest) := mac256_words (length x) c0 x in set_buf6 c' rest.

Lemma z6_of_buf c0 x : length (z6_buf (z6_of c0 x)) < 4.
Proof.
  unfold z6_of. pose proof (mac256_words_prefix (length x / 4) c0 x [] eq_refl) as H.
  destruct (mac256_words (length x) c0 x) as [c' rest]. destruct H as [H _]. exact H.
Qed.

Lemma mac256_words_set_buf6 : forall f c b d, mac256_words f (set_buf6 c b) d =
  let '(c', r) := mac256_words f c d in (set_buf6 c' b, r).
Proof.
  induction f as [|f IH]; intros c b d; cbn [mac256_words]; [reflexivity|].
  destruct (4 <=? length d); [|reflexivity]. rewrite mac256_word_buf. apply IH.
Qed.

Lemma zuc256_mac_update_of c0 x d : z6_buf c0 = [] ->
  zuc256_mac_update (z6_of c0 x) d = z6_of c0 (x ++ d).
Proof.
  intros Hb0. destruct d as [|d0 d'].
  - cbn [zuc256_mac_update]. rewrite app_nil_r. reflexivity.
  - set (d := d0 :: d'). unfold zuc256_mac_update. fold d.
    pose proof (mac256_words_prefix (length x / 4) c0 x d eq_refl) as H.
    unfold z6_of. destruct (mac256_words (length x) c0 x) as [c' rest]. destruct H as [Hr H].
    cbn [z6_buf set_buf6 z6_s z6_T z6_K0 z6_n]. rewrite H.
    rewrite mac256_words_set_buf6.
    destruct (mac256_words (length (rest ++ d)) c' (rest ++ d)) as [c2 r2].
    unfold set_buf6. cbn [z6_s z6_T z6_K0 z6_n]. reflexivity.
Qed.

Lemma z6_of_nil c0 : z6_buf c0 = [] -> z6_of c0 [] = c0.
Proof. intros H. unfold z6_of. cbn. unfold set_buf6. destruct c0. cbn in *. subst. reflexivity. Qed.

Lemma zuc256_mac_updates_of c0 chunks : z6_buf c0 = [] -> forall x,
  fold_left zuc256_mac_update chunks (z6_of c0 x) = z6_of c0 (x ++ concat chunks).
Proof.
  intros Hb. induction chunks as [|d r IH]; intros x; cbn [fold_left concat]; [rewrite app_nil_r; reflexivity|].
  rewrite zuc256_mac_update_of by exact Hb. rewrite IH, app_assoc. reflexivity.
Qed.

(* ---- zuc256_mac_stream: update over any chunking then finish(tail, nbits)
        = finish over the whole message with the whole bit length ---- *)
Theorem zuc256_mac_stream key iv macbits chunks tail nbits :
  zuc256_mac_finish (fold_left zuc256_mac_update chunks (zuc256_mac_init key iv macbits)) tail nbits =
  zuc256_mac_finish (zuc256_mac_init key iv macbits) (concat chunks ++ tail) (8 * length (concat chunks) + nbits).
Proof.
  set (c0 := zuc256_mac_init key iv macbits).
  assert (Hb : z6_buf c0 = []).
  { unfold c0, zuc256_mac_init. repeat match goal with |- context [zuc_keystream ?n ?s] => destruct (zuc_keystream n s) end. reflexivity. }
  clearbody c0. set (x := concat chunks).
  rewrite <- (z6_of_nil c0 Hb) at 1. rewrite zuc256_mac_updates_of by exact Hb. cbn [app]. fold x.
  unfold zuc256_mac_finish.
  replace ((8 * length x + nbits) / 8) with (length x + nbits / 8) by lia.
  replace ((8 * length x + nbits) mod 8) with (nbits mod 8) by lia.
  rewrite firstn_app, skipn_app.
  rewrite (firstn_all2 x) by lia. rewrite (skipn_all2 x) by lia.
  replace (length x + nbits / 8 - length x) with (nbits / 8) by lia. cbn [app].
  assert (Hu0 : forall z, zuc256_mac_update c0 z = z6_of c0 z).
  { intros z. pose proof (zuc256_mac_update_of c0 [] z Hb) as H. rewrite (z6_of_nil c0 Hb) in H. exact H. }
  assert (Hc : (if 8 <=? nbits then zuc256_mac_update (z6_of c0 x) (firstn (nbits / 8) tail) else z6_of c0 x) =
               (if 8 <=? 8 * length x + nbits then zuc256_mac_update c0 (x ++ firstn (nbits / 8) tail) else c0)).
  { destruct (8 <=? nbits) eqn:E8.
    - apply Nat.leb_le in E8. replace (8 <=? 8 * length x + nbits) with true by (symmetry; apply Nat.leb_le; lia).
      rewrite zuc256_mac_update_of by exact Hb. rewrite Hu0. reflexivity.
    - apply Nat.leb_gt in E8. replace (nbits / 8) with 0 by (symmetry; apply Nat.div_small; lia).
      rewrite firstn_O, app_nil_r.
      destruct (8 <=? 8 * length x + nbits) eqn:E9.
      + rewrite Hu0. reflexivity.
      + apply Nat.leb_gt in E9. assert (length x = 0) by lia. destruct x; [apply z6_of_nil, Hb|discriminate]. }
  rewrite Hc. reflexivity.
Qed.

(* ---------- zuc_generate_keystream / zuc_generate_keyword: splitting the request ---------- *)
(* one call for n+m words = a call for n words followed by a call for m words on the state left behind *)
Lemma zuc_keystream_app n m s :
  zuc_keystream (n + m) s =
  let '(s1, z1) := zuc_keystream n s in
  let '(s2, z2) := zuc_keystream m s1 in (s2, z1 ++ z2).
Proof.
  revert s. induction n as [|n IH]; intros s.
  - cbn [Nat.add zuc_keystream]. destruct (zuc_keystream m s); reflexivity.
  - cbn [Nat.add zuc_keystream]. destruct (zuc_keyword s) as [s1 z]. rewrite IH.
    destruct (zuc_keystream n s1) as [s2 zs]. destruct (zuc_keystream m s2) as [s3 zs']. reflexivity.
Qed.

(* zuc_generate_keyword is the one-word case of zuc_generate_keystream *)
Lemma zuc_keystream_one s :
  zuc_keystream 1 s = let '(s1, z) := zuc_keyword s in (s1, [z]).
Proof. cbn [zuc_keystream]. destruct (zuc_keyword s); reflexivity. Qed.

Lemma zuc_keystream_length n s : length (snd (zuc_keystream n s)) = n.
Proof.
  revert s. induction n as [|n IH]; intros s; [reflexivity|].
  cbn [zuc_keystream]. destruct (zuc_keyword s) as [s1 z]. specialize (IH s1).
  destruct (zuc_keystream n s1) as [s2 zs]. cbn [snd length] in *. congruence.
Qed.
