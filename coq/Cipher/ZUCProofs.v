(* ZUC (src/zuc.c): the LFSR cells stay 31-bit values under both LFSR modes (the ADD31 / 64-bit
   fold arithmetic never leaves [0, 2^31 - 1] when it starts there). *)
From GmVerif Require Import Base.ListX Base.Bytes Cipher.ZUC.
Require Import Lia ZifyN ZifyNat ZifyBool.
Ltac Zify.zify_post_hook ::= Z.div_mod_to_equations.
Local Open Scope N_scope.

Definition c31 (x : N) : Prop := x < 2^31.

Lemma land_m31 x : N.land x m31 = x mod 2^31.
Proof. change m31 with (N.ones 31). apply N.land_ones. Qed.
Lemma w32_mod x : w32 x = x mod 2^32.
Proof. unfold w32. change mask32 with (N.ones 32). apply N.land_ones. Qed.

Lemma add31_c31 a b : c31 a -> c31 b -> c31 (add31 a b).
Proof.
  unfold c31, add31. intros Ha Hb. rewrite land_m31, N.shiftr_div_pow2, w32_mod.
  change (2^31) with 2147483648 in *. change (2^32) with 4294967296. lia.
Qed.
Lemma rot31_c31 a k : c31 (rot31 a k).
Proof.
  unfold c31, rot31. rewrite land_m31. apply N.mod_lt. discriminate.
Qed.

Lemma li_c31 l i : Forall c31 l -> c31 (li l i).
Proof.
  intros H. unfold li. destruct (Nat.lt_ge_cases i (length l)) as [Hi|Hi].
  - rewrite Forall_forall in H. apply H, nth_In, Hi.
  - rewrite nth_overflow by exact Hi. unfold c31. reflexivity.
Qed.
Lemma shift_in l v : Forall c31 l -> c31 v -> Forall c31 (skipn 1 l ++ [v]).
Proof.
  intros Hl Hv. apply Forall_app. split; [|repeat constructor; exact Hv].
  destruct l; [constructor|]. cbn [skipn]. inversion Hl; assumption.
Qed.

Theorem lfsr_init_mode_c31 l u : Forall c31 l -> c31 u -> Forall c31 (lfsr_init_mode l u).
Proof.
  intros Hl Hu. unfold lfsr_init_mode. apply shift_in; [exact Hl|].
  repeat apply add31_c31; first [apply rot31_c31 | apply li_c31; exact Hl | exact Hu].
Qed.

Theorem lfsr_work_mode_c31 l : Forall c31 l -> Forall c31 (lfsr_work_mode l).
Proof.
  intros Hl. unfold lfsr_work_mode. apply shift_in; [exact Hl|].
  pose proof (li_c31 l 0 Hl) as H0. pose proof (li_c31 l 4 Hl) as H4. pose proof (li_c31 l 10 Hl) as H10.
  pose proof (li_c31 l 13 Hl) as H13. pose proof (li_c31 l 15 Hl) as H15.
  unfold c31 in *. rewrite !N.shiftl_mul_pow2.
  set (a := li l 0 + li l 0 * 2 ^ 8 + li l 4 * 2 ^ 20 + li l 10 * 2 ^ 21 + li l 13 * 2 ^ 17 + li l 15 * 2 ^ 15).
  assert (Ha : a < 2^53).
  { unfold a. change (2^8) with 256. change (2^20) with 1048576. change (2^21) with 2097152.
    change (2^17) with 131072. change (2^15) with 32768. change (2^31) with 2147483648 in *.
    change (2^53) with 9007199254740992. lia. }
  clearbody a. rewrite !land_m31, !N.shiftr_div_pow2, w32_mod.
  change (2^31) with 2147483648 in *. change (2^32) with 4294967296. change (2^53) with 9007199254740992 in Ha.
  lia.
Qed.

(* ===================== ZUC_CTX streaming (zuc_modes.c) = one-shot zuc_encrypt ===================== *)
Local Open Scope nat_scope.

Lemma zenc_fuel : forall f1 f2 s d, length d <= 4 * f1 -> length d <= 4 * f2 ->
  zuc_encrypt f1 s d = zuc_encrypt f2 s d.
Proof.
  induction f1 as [|f1 IH]; intros f2 s d H1 H2.
  - destruct d; [|cbn in H1; lia]. destruct f2; reflexivity.
  - destruct d as [|b d]; [destruct f2; reflexivity|].
    destruct f2 as [|f2]; [cbn in H2; lia|]. cbn [zuc_encrypt].
    destruct (zuc_keyword s) as [s1 z]. destruct (4 <=? length (b :: d)); [|reflexivity].
    rewrite (IH f2) by (rewrite skipn_length; lia). reflexivity.
Qed.

Lemma zenc_split : forall k f s a b, length a = 4 * k ->
  zuc_encrypt (k + f) s (a ++ b) =
  let '(s1, o1) := zuc_encrypt k s a in let '(s2, o2) := zuc_encrypt f s1 b in (s2, o1 ++ o2).
Proof.
  induction k as [|k IH]; intros f s a b Ha.
  - destruct a; [|cbn in Ha; lia]. cbn [Nat.add zuc_encrypt app]. destruct (zuc_encrypt f s b). reflexivity.
  - destruct a as [|x a]; [cbn in Ha; lia|].
    set (a0 := x :: a) in *. cbn [Nat.add zuc_encrypt].
    assert (Hnn : a0 ++ b <> []) by (unfold a0; discriminate).
    destruct (a0 ++ b) eqn:Eab; [contradiction|]. rewrite <- Eab. clear Eab Hnn.
    unfold a0 at 3. fold a0.
    destruct (zuc_keyword s) as [s1 z].
    replace (4 <=? length (a0 ++ b)) with true by (symmetry; apply Nat.leb_le; rewrite app_length; lia).
    replace (4 <=? length a0) with true by (symmetry; apply Nat.leb_le; lia).
    rewrite firstn_app, skipn_app. replace (4 - length a0) with 0 by lia.
    rewrite firstn_O, skipn_O, app_nil_r.
    rewrite IH by (rewrite skipn_length; lia).
    destruct (zuc_encrypt k s1 (skipn 4 a0)) as [s2 o2]. subst a0. cbv beta iota.
    destruct (zuc_encrypt f s2 b) as [s3 o3]. rewrite app_assoc. reflexivity.
Qed.

(* context and accumulated output after the bytes x *)
Definition zc_of (s0 : zuc_state) (x : list N) : zuc_ctx :=
  mkZc (fst (zuc_encrypt (length x / 4) s0 (firstn (length x / 4 * 4) x))) (skipn (length x / 4 * 4) x).
Definition zout_of (s0 : zuc_state) (x : list N) : list N :=
  snd (zuc_encrypt (length x / 4) s0 (firstn (length x / 4 * 4) x)).

Lemma zuc_update_of s0 a b :
  fst (zuc_encrypt_update (zc_of s0 a) b) = zc_of s0 (a ++ b) /\
  zout_of s0 (a ++ b) = zout_of s0 a ++ snd (zuc_encrypt_update (zc_of s0 a) b).
Proof.
  set (ka := length a / 4). set (ra := skipn (ka * 4) a).
  assert (Hdm : length a = ka * 4 + length a mod 4)
    by (pose proof (Nat.div_mod (length a) 4 ltac:(lia)); subst ka; lia).
  assert (Hr : length a mod 4 < 4) by (apply Nat.mod_upper_bound; lia).
  assert (Hra : length ra = length a mod 4) by (unfold ra; rewrite skipn_length; lia).
  set (k := length (ra ++ b) / 4).
  assert (Hkk : length (a ++ b) / 4 = ka + k).
  { unfold k. rewrite !app_length, Hra. rewrite Hdm at 1.
    rewrite <- Nat.add_assoc, Nat.div_add_l by lia. reflexivity. }
  assert (Hab : a ++ b = firstn (ka * 4) a ++ (ra ++ b)) by (unfold ra; rewrite app_assoc, firstn_skipn; reflexivity).
  assert (Hfa : length (firstn (ka * 4) a) = ka * 4) by (apply firstn_length_le; lia).
  assert (Hfirst : firstn ((ka + k) * 4) (a ++ b) = firstn (ka * 4) a ++ firstn (k * 4) (ra ++ b)).
  { rewrite Hab. rewrite (firstn_app ((ka + k) * 4)), Hfa.
    rewrite (firstn_all2 (firstn (ka * 4) a)) by lia.
    replace ((ka + k) * 4 - ka * 4) with (k * 4) by lia. reflexivity. }
  assert (Hskip : skipn ((ka + k) * 4) (a ++ b) = skipn (k * 4) (ra ++ b)).
  { rewrite Hab. rewrite (skipn_app ((ka + k) * 4)), Hfa.
    rewrite (skipn_all2 (firstn (ka * 4) a)) by lia.
    replace ((ka + k) * 4 - ka * 4) with (k * 4) by lia. reflexivity. }
  unfold zuc_encrypt_update, zc_of, zout_of. fold ka. fold ra. cbn [zc_s zc_buf]. fold k.
  rewrite Hkk, Hfirst, Hskip. rewrite zenc_split by lia.
  destruct (zuc_encrypt ka s0 (firstn (ka * 4) a)) as [s1 o1]. cbn [fst snd].
  destruct (zuc_encrypt k s1 (firstn (k * 4) (ra ++ b))) as [s2 o2]. cbn [fst snd].
  split; reflexivity.
Qed.

Fixpoint zrun (c : zuc_ctx) (chunks : list (list N)) (acc : list N) : zuc_ctx * list N :=
  match chunks with
  | [] => (c, acc)
  | d :: r => let '(c', o) := zuc_encrypt_update c d in zrun c' r (acc ++ o)
  end.

Lemma zrun_of s0 chunks : forall x,
  zrun (zc_of s0 x) chunks (zout_of s0 x) = (zc_of s0 (x ++ concat chunks), zout_of s0 (x ++ concat chunks)).
Proof.
  induction chunks as [|d r IH]; intros x; cbn [zrun concat]; [rewrite app_nil_r; reflexivity|].
  destruct (zuc_update_of s0 x d) as [H1 H2].
  destruct (zuc_encrypt_update (zc_of s0 x) d) as [c' o]. cbn [fst snd] in *.
  rewrite H1, <- H2, app_assoc. apply IH.
Qed.

(* ---- zuc_stream: init / update* / finish under any chunking = one call of zuc_encrypt ---- *)
Theorem zuc_encrypt_stream key iv chunks :
  let '(c, out) := zrun (zuc_encrypt_init key iv) chunks [] in
  out ++ zuc_encrypt_finish c
  = snd (zuc_encrypt (length (concat chunks)) (zuc_init key iv) (concat chunks)).
Proof.
  unfold zuc_encrypt_init. generalize (zuc_init key iv) as s0. intros s0. set (x := concat chunks).
  assert (H0 : zrun {| zc_s := s0; zc_buf := [] |} chunks [] = zrun (zc_of s0 []) chunks (zout_of s0 [])) by reflexivity.
  rewrite H0. clear H0.
  rewrite zrun_of. cbn [app]. fold x.
  unfold zuc_encrypt_finish, zc_of, zout_of. cbn [zc_s zc_buf].
  set (k := length x / 4).
  assert (Hdm : length x = k * 4 + length x mod 4)
    by (pose proof (Nat.div_mod (length x) 4 ltac:(lia)); subst k; lia).
  assert (Hr : length x mod 4 < 4) by (apply Nat.mod_upper_bound; lia).
  rewrite (zenc_fuel (length x) (k + 1) s0 x) by lia.
  rewrite <- (firstn_skipn (k * 4) x) at 4.
  rewrite zenc_split by (rewrite firstn_length_le; lia).
  destruct (zuc_encrypt k s0 (firstn (k * 4) x)) as [s1 o1]. cbn [fst snd].
  destruct (zuc_encrypt 1 s1 (skipn (k * 4) x)) as [s2 o2]. reflexivity.
Qed.
