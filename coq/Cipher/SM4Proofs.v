(* SM4: decryption inverts encryption (unbalanced Feistel argument, no computation
   over keys); the table-driven form compiled by default equals the Spec form; the
   source arrays S, FK, CK, T0..T3 equal the values GB/T 32907 defines. *)
From GmVerif Require Import Base.ListX Base.Bytes Cipher.BitsX Cipher.SM4 Gen.Sm4Tables Cipher.SM4Tab.
From Coq Require Import ZifyN ZifyNat ZifyBool Btauto.
Local Open Scope N_scope.
Ltac Zify.zify_post_hook ::= Z.div_mod_to_equations.

(* ------------------------------------------------------------------ ranges *)
Lemma nth_all_lt (l : list N) (bound : N) (i : nat) :
  forallb (fun x => x <? bound) l = true -> 0 < bound -> nth i l 0 < bound.
Proof.
  intros H Hb. destruct (Nat.lt_ge_cases i (length l)) as [Hi|Hi].
  - rewrite forallb_forall in H. apply N.ltb_lt. apply H. apply nth_In. exact Hi.
  - rewrite nth_overflow by exact Hi. exact Hb.
Qed.

Lemma sbox_lt b : sbox b < 256.
Proof. unfold sbox. apply nth_all_lt; [vm_compute; reflexivity | reflexivity]. Qed.

Lemma shl_byte_lt s k : s < 256 -> k <= 24 -> N.shiftl s k < 2^32.
Proof.
  intros Hs Hk. rewrite N.shiftl_mul_pow2.
  assert (2^k <= 2^24) by (apply N.pow_le_mono_r; lia).
  change (2^24) with 16777216 in *. change (2^32) with 4294967296. nia.
Qed.

Lemma tau_lt x : tau x < 2^32.
Proof.
  unfold tau. repeat apply lor_lt; try (apply shl_byte_lt; [apply sbox_lt | lia]).
  pose proof (sbox_lt x). change (2^32) with 4294967296. lia.
Qed.

Lemma rol32_lt x n : rol32 x n < 2^32.
Proof. unfold rol32. apply w32_lt. Qed.

Lemma Lenc_lt b : b < 2^32 -> Lenc b < 2^32.
Proof. intros H. unfold Lenc. repeat apply lxor_lt; try apply rol32_lt. exact H. Qed.
Lemma Tenc_lt x : Tenc x < 2^32.
Proof. apply Lenc_lt, tau_lt. Qed.

(* ------------------------------------------------------------------ rounds *)
Lemma sm4_rounds_app r1 r2 x0 x1 x2 x3 :
  sm4_rounds (r1 ++ r2) x0 x1 x2 x3 =
  let '(a, b, c, d) := sm4_rounds r1 x0 x1 x2 x3 in sm4_rounds r2 a b c d.
Proof.
  revert x0 x1 x2 x3; induction r1 as [|rk r IH]; intros; cbn [app sm4_rounds]; [reflexivity|].
  apply IH.
Qed.

(* running the rounds with the reversed key list on the reversed state undoes them *)
Lemma sm4_rounds_rev rks x0 x1 x2 x3 :
  let '(y0, y1, y2, y3) := sm4_rounds rks x0 x1 x2 x3 in
  sm4_rounds (rev rks) y3 y2 y1 y0 = (x3, x2, x1, x0).
Proof.
  revert x0 x1 x2 x3; induction rks as [|rk r IH]; intros; cbn [sm4_rounds rev]; [reflexivity|].
  set (x4 := N.lxor x0 (Tenc (N.lxor (N.lxor (N.lxor x1 x2) x3) rk))).
  specialize (IH x1 x2 x3 x4).
  destruct (sm4_rounds r x1 x2 x3 x4) as [[[y0 y1] y2] y3].
  rewrite sm4_rounds_app, IH. cbn [sm4_rounds]. f_equal.
  unfold x4.
  replace (N.lxor (N.lxor (N.lxor x3 x2) x1) rk) with (N.lxor (N.lxor (N.lxor x1 x2) x3) rk).
  2:{ f_equal. rewrite (N.lxor_comm x3 x2), (N.lxor_comm (N.lxor x2 x3) x1), N.lxor_assoc. reflexivity. }
  rewrite N.lxor_assoc, N.lxor_nilpotent, N.lxor_0_r. reflexivity.
Qed.

Lemma sm4_rounds_lt rks x0 x1 x2 x3 :
  x0 < 2^32 -> x1 < 2^32 -> x2 < 2^32 -> x3 < 2^32 ->
  let '(y0, y1, y2, y3) := sm4_rounds rks x0 x1 x2 x3 in
  y0 < 2^32 /\ y1 < 2^32 /\ y2 < 2^32 /\ y3 < 2^32.
Proof.
  revert x0 x1 x2 x3; induction rks as [|rk r IH]; intros x0 x1 x2 x3 H0 H1 H2 H3; cbn [sm4_rounds].
  - auto.
  - apply IH; try assumption. apply lxor_lt; [assumption | apply Tenc_lt].
Qed.

(* ------------------------------------------------------------------ blocks *)
Ltac destruct16 l H :=
  do 16 (destruct l as [|? l]; [discriminate H|]); destruct l; [|discriminate H].

Lemma words_be4_16 b0 b1 b2 b3 b4 b5 b6 b7 b8 b9 b10 b11 b12 b13 b14 b15 :
  words_be 4 [b0;b1;b2;b3;b4;b5;b6;b7;b8;b9;b10;b11;b12;b13;b14;b15] =
  [get_be32 [b0;b1;b2;b3]; get_be32 [b4;b5;b6;b7]; get_be32 [b8;b9;b10;b11]; get_be32 [b12;b13;b14;b15]].
Proof. reflexivity. Qed.

Lemma words_be4_be32 a b c d :
  words_be 4 (be32 a ++ be32 b ++ be32 c ++ be32 d) = [w32 a; w32 b; w32 c; w32 d].
Proof.
  cbn [words_be].
  rewrite get_be32_be32.
  change (skipn 4 (be32 a ++ be32 b ++ be32 c ++ be32 d)) with (be32 b ++ be32 c ++ be32 d).
  rewrite get_be32_be32.
  change (skipn 4 (be32 b ++ be32 c ++ be32 d)) with (be32 c ++ be32 d).
  rewrite get_be32_be32.
  change (skipn 4 (be32 c ++ be32 d)) with (be32 d).
  rewrite <- (app_nil_r (be32 d)), get_be32_be32. reflexivity.
Qed.

Lemma sm4_crypt_block_length rks blk : length (sm4_crypt_block rks blk) = 16%nat.
Proof.
  unfold sm4_crypt_block. cbn [words_be].
  destruct (sm4_rounds rks _ _ _ _) as [[[y0 y1] y2] y3]. reflexivity.
Qed.
Lemma sm4_crypt_block_ok rks blk : bytes_ok (sm4_crypt_block rks blk) = true.
Proof.
  unfold sm4_crypt_block. cbn [words_be].
  destruct (sm4_rounds rks _ _ _ _) as [[[y0 y1] y2] y3].
  rewrite !bytes_ok_app, !bytes_ok_be32. reflexivity.
Qed.

Theorem sm4_crypt_block_rev rks blk : length blk = 16%nat -> bytes_ok blk = true ->
  sm4_crypt_block (rev rks) (sm4_crypt_block rks blk) = blk.
Proof.
  intros Hl Hok. destruct16 blk Hl.
  cbn [bytes_ok forallb] in Hok. rewrite !andb_true_iff, !N.ltb_lt in Hok.
  destruct Hok as (?&?&?&?&?&?&?&?&?&?&?&?&?&?&?&?&_).
  unfold sm4_crypt_block at 2. rewrite words_be4_16.
  set (x0 := get_be32 [n; n0; n1; n2]). set (x1 := get_be32 [n3; n4; n5; n6]).
  set (x2 := get_be32 [n7; n8; n9; n10]). set (x3 := get_be32 [n11; n12; n13; n14]).
  assert (L0 : x0 < 2^32) by (apply get_be32_lt; assumption).
  assert (L1 : x1 < 2^32) by (apply get_be32_lt; assumption).
  assert (L2 : x2 < 2^32) by (apply get_be32_lt; assumption).
  assert (L3 : x3 < 2^32) by (apply get_be32_lt; assumption).
  pose proof (sm4_rounds_rev rks x0 x1 x2 x3) as Hrev.
  pose proof (sm4_rounds_lt rks x0 x1 x2 x3 L0 L1 L2 L3) as Hlt.
  destruct (sm4_rounds rks x0 x1 x2 x3) as [[[y0 y1] y2] y3].
  destruct Hlt as (Y0 & Y1 & Y2 & Y3).
  unfold sm4_crypt_block. rewrite words_be4_be32.
  rewrite !w32_id by assumption. rewrite Hrev.
  unfold x0, x1, x2, x3. rewrite !be32_get_be32 by assumption. reflexivity.
Qed.

Theorem sm4_dec_enc : forall key blk, length key = 16%nat -> length blk = 16%nat ->
  bytes_ok blk = true -> sm4_decrypt_block key (sm4_encrypt_block key blk) = blk.
Proof.
  intros key blk _ Hl Hok. unfold sm4_decrypt_block, sm4_encrypt_block.
  apply sm4_crypt_block_rev; assumption.
Qed.

(* the same with the roles exchanged: E_K is a permutation of the 16-byte blocks *)
Theorem sm4_enc_dec : forall key blk, length blk = 16%nat -> bytes_ok blk = true ->
  sm4_encrypt_block key (sm4_decrypt_block key blk) = blk.
Proof.
  intros key blk Hl Hok. unfold sm4_decrypt_block, sm4_encrypt_block.
  rewrite <- (rev_involutive (sm4_key_schedule key)) at 1.
  apply sm4_crypt_block_rev; assumption.
Qed.

Lemma sm4_encrypt_block_length key blk : length (sm4_encrypt_block key blk) = 16%nat.
Proof. apply sm4_crypt_block_length. Qed.
Lemma sm4_decrypt_block_length key blk : length (sm4_decrypt_block key blk) = 16%nat.
Proof. apply sm4_crypt_block_length. Qed.
Lemma sm4_encrypt_block_ok key blk : bytes_ok (sm4_encrypt_block key blk) = true.
Proof. apply sm4_crypt_block_ok. Qed.
Lemma sm4_decrypt_block_ok key blk : bytes_ok (sm4_decrypt_block key blk) = true.
Proof. apply sm4_crypt_block_ok. Qed.

(* ------------------------------------------------------------------ source arrays *)
(* every entry of every array in src/sm4.c equals the value the standard defines *)
Theorem sm4_tables_ok : sm4_table_mismatches = [].
Proof. vm_compute. reflexivity. Qed.

Lemma c_S_ok : c_S = sm4_sbox.
Proof. vm_compute. reflexivity. Qed.
Lemma c_FK_ok : c_FK = FK.
Proof. vm_compute. reflexivity. Qed.

Lemma in_bytes256 b : b < 256 -> In b bytes256.
Proof.
  intros H. unfold bytes256. rewrite <- (N2Nat.id b). apply in_map. apply in_seq. lia.
Qed.

Lemma T_sweep :
  forallb (fun b => (tb c_T0 b =? Lenc (N.shiftl (sbox b) 24)) && (tb c_T1 b =? Lenc (N.shiftl (sbox b) 16))
                 && (tb c_T2 b =? Lenc (N.shiftl (sbox b) 8)) && (tb c_T3 b =? Lenc (sbox b))) bytes256 = true.
Proof. vm_compute. reflexivity. Qed.

Lemma T_entries b : b < 256 ->
  tb c_T0 b = Lenc (N.shiftl (sbox b) 24) /\ tb c_T1 b = Lenc (N.shiftl (sbox b) 16) /\
  tb c_T2 b = Lenc (N.shiftl (sbox b) 8) /\ tb c_T3 b = Lenc (sbox b).
Proof.
  intros H. pose proof T_sweep as S. rewrite forallb_forall in S.
  specialize (S b (in_bytes256 b H)). rewrite !andb_true_iff, !N.eqb_eq in S. tauto.
Qed.

Lemma CK_sweep : forallb (fun i => nth i c_CK 0 =? CKi i) (seq 0 32) = true.
Proof. vm_compute. reflexivity. Qed.
Lemma CK_entries i : (i < 32)%nat -> nth i c_CK 0 = CKi i.
Proof.
  intros H. pose proof CK_sweep as S. rewrite forallb_forall in S.
  apply N.eqb_eq, S, in_seq. lia.
Qed.

(* ------------------------------------------------------------------ linearity of L *)
Lemma rol32_bit x n i : n <= 32 ->
  N.testbit (rol32 x n) i = (if i <? n then N.testbit x (i + (32 - n)) else N.testbit x (i - n)) && (i <? 32).
Proof.
  intros Hn. unfold rol32. rewrite w32_bit, N.lor_spec, shl_bit, N.shiftr_spec', w32_bit.
  destruct (N.ltb_spec i n).
  - replace (n <=? i) with false by lia. replace (i + (32 - n) <? 32) with true by lia.
    cbn [andb orb]. rewrite andb_true_r. reflexivity.
  - replace (n <=? i) with true by lia. replace (i + (32 - n) <? 32) with false by lia.
    cbn [andb]. rewrite andb_false_r, orb_false_r. reflexivity.
Qed.

Lemma rol32_lxor a b n : n <= 32 -> rol32 (N.lxor a b) n = N.lxor (rol32 a n) (rol32 b n).
Proof.
  intros Hn. apply N.bits_inj. intros i.
  rewrite N.lxor_spec, !rol32_bit by exact Hn.
  destruct (i <? n); rewrite N.lxor_spec; btauto.
Qed.

Lemma Lenc_lxor a b : Lenc (N.lxor a b) = N.lxor (Lenc a) (Lenc b).
Proof.
  unfold Lenc. rewrite !rol32_lxor by lia.
  apply N.bits_inj. intros i. rewrite !N.lxor_spec. btauto.
Qed.

Lemma pack4 s3 s2 s1 s0 : s3 < 256 -> s2 < 256 -> s1 < 256 -> s0 < 256 ->
  N.lor (N.lor (N.shiftl s3 24) (N.shiftl s2 16)) (N.lor (N.shiftl s1 8) s0) =
  N.lxor (N.lxor (N.lxor (N.shiftl s3 24) (N.shiftl s2 16)) (N.shiftl s1 8)) s0.
Proof.
  intros H3 H2 H1 H0.
  assert (T : forall v j, v < 256 -> 8 <= j -> N.testbit v j = false)
    by (intros v j Hv Hj; apply (testbit_small v 8); [exact Hv | exact Hj]).
  apply N.bits_inj. intros i.
  rewrite !N.lor_spec, !N.lxor_spec, !shl_bit.
  destruct (N.leb_spec 24 i); destruct (N.leb_spec 16 i); destruct (N.leb_spec 8 i); try lia;
    cbn [andb orb xorb].
  - rewrite (T s0), (T s1), (T s2) by lia. btauto.
  - rewrite (T s0), (T s1) by lia. btauto.
  - rewrite (T s0) by lia. btauto.
  - btauto.
Qed.

Lemma sbox_w8 y : sbox (w8 y) = sbox y.
Proof.
  unfold sbox. f_equal. f_equal. rewrite !w8_mod'. apply N.mod_mod. discriminate.
Qed.

(* the table-driven T of macro ROUND is the standard's T = L . tau, for every word *)
Theorem Ttab_eq_Tenc x : Ttab x = Tenc x.
Proof.
  unfold Ttab, Tenc, tau.
  destruct (T_entries (w8 (N.shiftr x 24)) (w8_lt _)) as (E0 & _).
  destruct (T_entries (w8 (N.shiftr x 16)) (w8_lt _)) as (_ & E1 & _).
  destruct (T_entries (w8 (N.shiftr x 8)) (w8_lt _)) as (_ & _ & E2 & _).
  destruct (T_entries (w8 x) (w8_lt _)) as (_ & _ & _ & E3).
  rewrite E0, E1, E2, E3, !sbox_w8.
  rewrite pack4 by apply sbox_lt.
  rewrite !Lenc_lxor. reflexivity.
Qed.

Theorem sm4_rounds_tab_eq rks x0 x1 x2 x3 :
  sm4_rounds_tab rks x0 x1 x2 x3 = sm4_rounds rks x0 x1 x2 x3.
Proof.
  revert x0 x1 x2 x3; induction rks as [|rk r IH]; intros; cbn [sm4_rounds_tab sm4_rounds]; [reflexivity|].
  rewrite IH, Ttab_eq_Tenc, N.lxor_comm. reflexivity.
Qed.

Lemma words_be4_skipn l :
  words_be 4 l = [get_be32 l; get_be32 (skipn 4 l); get_be32 (skipn 8 l); get_be32 (skipn 12 l)].
Proof. cbn [words_be]. rewrite !skipn_skipn_nat. reflexivity. Qed.

Theorem sm4_encrypt_tab_eq rks blk : sm4_encrypt_tab rks blk = sm4_crypt_block rks blk.
Proof.
  unfold sm4_encrypt_tab, sm4_crypt_block. rewrite words_be4_skipn, sm4_rounds_tab_eq. reflexivity.
Qed.

Lemma S32_c_eq x : S32_c x = tau x.
Proof. unfold S32_c, tau, tb, sbox. rewrite c_S_ok. rewrite !w8_mod'. reflexivity. Qed.

Lemma ks_rounds_c_eq n i x0 x1 x2 x3 : (i + n <= 32)%nat ->
  ks_rounds_c n i x0 x1 x2 x3 = ks_rounds n i x0 x1 x2 x3.
Proof.
  revert i x0 x1 x2 x3; induction n as [|n IH]; intros i x0 x1 x2 x3 H; cbn [ks_rounds_c ks_rounds]; [reflexivity|].
  rewrite CK_entries by lia. rewrite S32_c_eq.
  change (L32k (tau ?v)) with (Tkey v). rewrite IH by lia. reflexivity.
Qed.

Theorem sm4_set_encrypt_key_eq key : sm4_set_encrypt_key key = sm4_key_schedule key.
Proof.
  unfold sm4_set_encrypt_key, sm4_key_schedule. rewrite words_be4_skipn, c_FK_ok.
  cbn [FK nth]. apply ks_rounds_c_eq. lia.
Qed.

(* what the default build computes = the Spec, for every key and block *)
Theorem sm4_enc_impl_eq key blk : sm4_enc_impl key blk = sm4_encrypt_block key blk.
Proof.
  unfold sm4_enc_impl, sm4_encrypt_block. rewrite sm4_encrypt_tab_eq, sm4_set_encrypt_key_eq. reflexivity.
Qed.
Theorem sm4_dec_impl_eq key blk : sm4_dec_impl key blk = sm4_decrypt_block key blk.
Proof.
  unfold sm4_dec_impl, sm4_decrypt_block, sm4_set_decrypt_key.
  rewrite sm4_encrypt_tab_eq, sm4_set_encrypt_key_eq. reflexivity.
Qed.
