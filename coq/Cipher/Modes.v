(* Block-cipher modes of operation, generic over the 16-byte block functions.

   Impl models: transcriptions of src/sm4.c (the *_blocks functions of the default,
   table-driven build and the byte-wise counter increments of the small-footprint
   build), src/sm4_ecb.c, sm4_cbc.c, sm4_ctr.c, sm4_cfb.c, sm4_ofb.c, sm4_xts.c,
   sm4_cbc_mac.c: one-shot functions and the *_CTX init/update/finish families with the
   partial-block buffer ([block], [block_nbytes] = length of [bbuf]) and the answer to
   the NULL-output-buffer query.
   Specs: the definitions of GB/T 17964 / SP 800-38A / PKCS#7 over the whole message.
   Proofs are in ModesProofs.v. *)
From GmVerif Require Import Base.ListX Base.Bytes.
Local Open Scope nat_scope.

(* ===================================================================== *)
(* Generic buffered update, shared by every *_update of the mode files:
   the C functions are textual copies of one another.  [lazy = false]: flush as soon
   as a whole block is available (ecb/cbc-encrypt/ctr/ofb/cfb/xts); [lazy = true]:
   keep the last block back (sm4_cbc_decrypt_update, for padding removal). *)
Section Buf.
  Variable St : Type.
  Variable B : nat.                                  (* SM4_BLOCK_SIZE / sbytes / data_unit_size *)
  Variable lazy : bool.
  Variable crypt : St -> list N -> St * list N.      (* whole blocks: the *_blocks call *)

  Record bctx := mkb { bst : St; bbuf : list N }.

  Definition buf_rest (st : St) (o : list N) (inp : list N) : bctx * list N :=
    if (if lazy then B <? length inp else B <=? length inp) then
      let nblocks := if lazy then (length inp - 1) / B else length inp / B in
      let len := nblocks * B in
      let '(st2, o2) := crypt st (firstn len inp) in
      (mkb st2 (skipn len inp), o ++ o2)
    else (mkb st inp, o).

  Definition buf_update (c : bctx) (inp : list N) : option (bctx * list N) :=
    let nb := length (bbuf c) in
    if (if lazy then B <? nb else B <=? nb) then None           (* block_nbytes check *)
    else if negb (nb =? 0) then
      let left := B - nb in
      if (if lazy then length inp <=? left else length inp <? left)
      then Some (mkb (bst c) (bbuf c ++ inp), [])
      else
        let '(st1, o1) := crypt (bst c) (bbuf c ++ firstn left inp) in
        Some (buf_rest st1 o1 (skipn left inp))
    else Some (buf_rest (bst c) [] inp).

  (* a whole init/update* run: every update's output, in order *)
  Fixpoint buf_run (c : bctx) (chunks : list (list N)) : option (bctx * list (list N)) :=
    match chunks with
    | [] => Some (c, [])
    | ch :: r =>
      match buf_update c ch with
      | None => None
      | Some (c1, o) =>
        match buf_run c1 r with None => None | Some (c2, os) => Some (c2, o :: os) end
      end
    end.
End Buf.
Arguments mkb {St}. Arguments bst {St}. Arguments bbuf {St}.
Arguments buf_update {St}. Arguments buf_run {St}. Arguments buf_rest {St}.

(* answer of every *_update to a NULL output buffer (ecb, cbc, ctr, ofb), of the cfb updates
   (fewer than sbytes <= 16 pending bytes may be flushed as well), and of every *_finish *)
Definition query16 (inlen : nat) : nat := 16 * ((inlen + 15) / 16).
Definition cfb_query (inlen : nat) : nat := inlen + 16.
Definition query_finish : nat := 16.

(* ===================================================================== *)
(* splitting a message into segments of B bytes (the last may be shorter) *)
Fixpoint segs_f (B fuel : nat) (l : list N) : list (list N) :=
  match fuel with
  | O => []
  | S f => match l with [] => [] | _ => firstn B l :: segs_f B f (skipn B l) end
  end.
Definition segs (B : nat) (l : list N) : list (list N) := segs_f B (length l) l.

Fixpoint iter {A} (n : nat) (f : A -> A) (x : A) : A :=
  match n with O => x | S k => iter k f (f x) end.

(* big-endian load/store (GETU64/PUTU64/GETU32/PUTU32 of endian.h) *)
Definition getu64 (l : list N) : N := be_to_N (firstn 8 l).
Definition putu64 (x : N) : list N := N_to_be 8 x.
Definition getu32 (l : list N) : N := be_to_N (firstn 4 l).
Definition putu32 (x : N) : list N := N_to_be 4 x.

(* ctr_incr / ctr32_incr of the small-footprint build: a[i]++ from the last byte,
   stop at the first byte that does not wrap.  Returns (value, carry out). *)
Fixpoint incr_be (l : list N) : list N * bool :=
  match l with
  | [] => ([], true)
  | b :: r =>
    let '(r', c) := incr_be r in
    if c then (((b + 1) mod 256)%N :: r', ((b + 1) mod 256 =? 0)%N) else (b :: r', false)
  end.
Definition ctr_incr (a : list N) : list N := fst (incr_be a).
Definition ctr32_incr (a : list N) : list N := firstn 12 a ++ fst (incr_be (skipn 12 a)).
(* tweak_incr of sm4_xts.c: little-endian *)
Fixpoint tweak_incr (a : list N) : list N :=
  match a with
  | [] => []
  | b :: r => let b' := ((b + 1) mod 256)%N in if (b' =? 0)%N then b' :: tweak_incr r else b' :: r
  end.

(* ---- gf128.c as used by XTS: from_bytes / mul_by_2 / to_bytes ---- *)
Fixpoint rev_bits_loop (n : nat) (r a : N) : N * N :=
  match n with
  | O => (r, a)
  | S k => rev_bits_loop k (w64 (N.shiftl (N.lor r (N.land a 1)) 1)) (N.shiftr a 1)
  end.
Definition reverse_bits (a : N) : N :=
  let '(r, a') := rev_bits_loop 63 0%N a in N.lor r (N.land a' 1).
Definition gf128_mul_by_2 (a0 a1 : N) : N * N :=
  let r1 := w64 (N.lor (N.shiftl a1 1) (N.shiftr a0 63)) in
  let r0 := w64 (N.shiftl a0 1) in
  if N.testbit a1 63 then (N.lxor r0 135%N, r1) else (r0, r1).
Definition xts_mul2 (T : list N) : list N :=
  let a0 := reverse_bits (getu64 T) in
  let a1 := reverse_bits (getu64 (skipn 8 T)) in
  let '(r0, r1) := gf128_mul_by_2 a0 a1 in
  putu64 (reverse_bits r0) ++ putu64 (reverse_bits r1).
(* Spec (GB/T 17964 XTS, bit order of GCM): the 128-bit string shifted right by one,
   reduced by x^128 + x^7 + x^2 + x + 1, i.e. 0xE1 || 0^120 *)
Definition xts_mul2_spec (T : list N) : list N :=
  let v := be_to_N T in
  N_to_be 16 (N.lxor (v / 2) (if N.odd v then 0xE1000000000000000000000000000000%N else 0%N)).

Definition pkcs7_pad (m : list N) : list N :=
  let p := 16 - length m mod 16 in m ++ repeat (N.of_nat p) p.
(* removal as aes_cbc_padding_decrypt does it: only the last byte is inspected *)
Definition pkcs7_unpad (m : list N) : option (list N) :=
  let p := last m 0%N in
  if (p <? 1)%N || (16 <? p)%N then None else Some (firstn (length m - N.to_nat p) m).
(* PKCS#7 proper (sm4_cbc_padding_decrypt since 75d04f0): the string must end in p bytes of value p *)
Definition pkcs7_unpad_strict (m : list N) : option (list N) :=
  let p := last m 0%N in
  if (p <? 1)%N || (16 <? p)%N then None
  else if length m <? N.to_nat p then None
  else if negb (forallb (fun b => (b =? p)%N) (skipn (length m - N.to_nat p) m)) then None
  else Some (firstn (length m - N.to_nat p) m).
(* the loop  for (i = 16 - padding; i < 16; i++) if (block[i] != padding) return -1; *)
Definition pad_bytes_ok (padding : N) (block : list N) : bool :=
  forallb (fun b => (b =? padding)%N) (skipn (16 - N.to_nat padding) block).

Section Modes.
  Variable E : list N -> list N.      (* sm4_encrypt with the encryption round keys *)
  Variable D : list N -> list N.      (* sm4_encrypt with the decryption round keys *)

  (* ------------------------------------------------------------------ ECB *)
  (* sm4_encrypt_blocks (F = E or D, depending on the key installed) *)
  Fixpoint ecb_blocks (F : list N -> list N) (n : nat) (inp : list N) : list N :=
    match n with
    | O => []
    | S k => F (firstn 16 inp) ++ ecb_blocks F k (skipn 16 inp)
    end.
  Definition ecb_crypt (F : list N -> list N) (_ : unit) (d : list N) : unit * list N :=
    (tt, ecb_blocks F (length d / 16) d).
  Definition ecb_init : bctx unit := mkb tt [].
  Definition ecb_update F := buf_update 16 false (ecb_crypt F).
  Definition ecb_finish (c : bctx unit) : option (list N) :=
    if 16 <=? length (bbuf c) then None
    else if negb (length (bbuf c) =? 0) then None else Some [].
  (* Spec *)
  Definition ecb_spec (F : list N -> list N) (m : list N) : list N := concat (map F (segs 16 m)).

  (* ------------------------------------------------------------------ CBC *)
  Fixpoint cbc_enc_loop (n : nat) (iv inp : list N) : list N * list N :=
    match n with
    | O => (iv, [])
    | S k =>
      let c := E (xor_bytes (firstn 16 inp) iv) in
      let '(iv', o) := cbc_enc_loop k c (skipn 16 inp) in (iv', c ++ o)
    end.
  (* sm4_cbc_encrypt_blocks (both builds; the table-driven one keeps the chaining value in
     X0, X4, X3, X5 and stores it back, which for nblocks = 0 is the iv itself) *)
  Definition cbc_encrypt_blocks (n : nat) (iv inp : list N) : list N * list N := cbc_enc_loop n iv inp.
  Fixpoint cbc_decrypt_blocks (n : nat) (iv inp : list N) : list N * list N :=
    match n with
    | O => (iv, [])
    | S k =>
      let c := firstn 16 inp in
      let p := xor_bytes (D c) iv in
      let '(iv', o) := cbc_decrypt_blocks k c (skipn 16 inp) in (iv', p ++ o)
    end.

  Definition cbc_padding_encrypt (iv inp : list N) : list N :=
    let inlen := length inp in
    let rem := inlen mod 16 in
    let padding := 16 - rem in
    let block := skipn (inlen - rem) inp ++ repeat (N.of_nat padding) padding in
    let '(iv1, o1) := if negb (inlen / 16 =? 0) then cbc_encrypt_blocks (inlen / 16) iv inp else (iv, []) in
    let '(_, o2) := cbc_encrypt_blocks 1 iv1 block in
    o1 ++ o2.

  (* sm4_cbc_padding_decrypt: every padding byte is checked *)
  Definition sm4_cbc_padding_decrypt (iv inp : list N) : option (list N) :=
    let inlen := length inp in
    if inlen =? 0 then None                                          (* returns 0 *)
    else if negb (inlen mod 16 =? 0) || (inlen <? 16) then None      (* returns -1 *)
    else
      let '(iv1, o1) := if 16 <? inlen then cbc_decrypt_blocks (inlen / 16 - 1) iv inp else (iv, []) in
      let '(_, block) := cbc_decrypt_blocks 1 iv1 (skipn (inlen - 16) inp) in
      let padding := nth 15 block 0%N in
      if (padding <? 1)%N || (16 <? padding)%N then None
      else if negb (pad_bytes_ok padding block) then None
      else Some (o1 ++ firstn (16 - N.to_nat padding) block).

  (* the last-byte-only rule: sm4_cbc_padding_decrypt before 75d04f0, and the shape shared with
     aes_cbc_padding_decrypt (AesModes below), which still has it *)
  Definition cbc_padding_decrypt (iv inp : list N) : option (list N) :=
    let inlen := length inp in
    if inlen =? 0 then None                                          (* returns 0 *)
    else if negb (inlen mod 16 =? 0) || (inlen <? 16) then None      (* returns -1 *)
    else
      let '(iv1, o1) := if 16 <? inlen then cbc_decrypt_blocks (inlen / 16 - 1) iv inp else (iv, []) in
      let '(_, block) := cbc_decrypt_blocks 1 iv1 (skipn (inlen - 16) inp) in
      let padding := nth 15 block 0%N in
      if (padding <? 1)%N || (16 <? padding)%N then None
      else Some (o1 ++ firstn (16 - N.to_nat padding) block).

  Definition cbc_enc_crypt (iv d : list N) := cbc_encrypt_blocks (length d / 16) iv d.
  Definition cbc_dec_crypt (iv d : list N) := cbc_decrypt_blocks (length d / 16) iv d.
  Definition cbc_init (iv : list N) : bctx (list N) := mkb iv [].
  Definition cbc_encrypt_update := buf_update 16 false cbc_enc_crypt.
  Definition cbc_encrypt_finish (c : bctx (list N)) : option (list N) :=
    if 16 <=? length (bbuf c) then None else Some (cbc_padding_encrypt (bst c) (bbuf c)).
  Definition cbc_decrypt_update := buf_update 16 true cbc_dec_crypt.
  Definition cbc_decrypt_finish (c : bctx (list N)) : option (list N) :=
    if negb (length (bbuf c) =? 16) then None else sm4_cbc_padding_decrypt (bst c) (bbuf c).

  (* Spec *)
  Fixpoint cbc_enc_chain (iv : list N) (ps : list (list N)) : list (list N) :=
    match ps with
    | [] => []
    | p :: r => let c := E (xor_bytes p iv) in c :: cbc_enc_chain c r
    end.
  Fixpoint cbc_dec_chain (iv : list N) (cs : list (list N)) : list (list N) :=
    match cs with
    | [] => []
    | c :: r => xor_bytes (D c) iv :: cbc_dec_chain c r
    end.
  Definition cbc_enc_spec (iv m : list N) : list N := concat (cbc_enc_chain iv (segs 16 m)).
  Definition cbc_dec_spec (iv c : list N) : list N := concat (cbc_dec_chain iv (segs 16 c)).
  Definition cbc_pad_enc_spec (iv m : list N) : list N := cbc_enc_spec iv (pkcs7_pad m).
  Definition cbc_pad_dec_spec (iv c : list N) : option (list N) :=
    if (length c =? 0) || negb (length c mod 16 =? 0) then None
    else pkcs7_unpad (cbc_dec_spec iv c).
  Definition cbc_pad_dec_spec_strict (iv c : list N) : option (list N) :=
    if (length c =? 0) || negb (length c mod 16 =? 0) then None
    else pkcs7_unpad_strict (cbc_dec_spec iv c).

  (* ------------------------------------------------------------------ CTR *)
  (* sm4_ctr_encrypt_blocks, table-driven build: the counter is held in two 64-bit words *)
  Fixpoint ctr_blocks_w (n : nat) (c0 c1 : N) (inp : list N) : (N * N) * list N :=
    match n with
    | O => ((c0, c1), [])
    | S k =>
      let ks := E (putu64 c0 ++ putu64 c1) in
      let o := xor_bytes (firstn 16 inp) ks in
      let c1' := ((c1 + 1) mod 2^64)%N in
      let c0' := if (c1' =? 0)%N then ((c0 + 1) mod 2^64)%N else c0 in
      let '(cc, os) := ctr_blocks_w k c0' c1' (skipn 16 inp) in (cc, o ++ os)
    end.
  Definition ctr_encrypt_blocks (n : nat) (ctr inp : list N) : list N * list N :=
    let '((c0, c1), o) := ctr_blocks_w n (getu64 ctr) (getu64 (skipn 8 ctr)) inp in
    (putu64 c0 ++ putu64 c1, o).
  (* sm4_ctr32_encrypt_blocks, table-driven build: only the last word counts *)
  Fixpoint ctr32_blocks_w (n : nat) (pre : list N) (c3 : N) (inp : list N) : N * list N :=
    match n with
    | O => (c3, [])
    | S k =>
      let ks := E (pre ++ putu32 c3) in
      let o := xor_bytes (firstn 16 inp) ks in
      let '(c, os) := ctr32_blocks_w k pre ((c3 + 1) mod 2^32)%N (skipn 16 inp) in (c, o ++ os)
    end.
  Definition ctr32_encrypt_blocks (n : nat) (ctr inp : list N) : list N * list N :=
    let '(c3, o) := ctr32_blocks_w n (firstn 12 ctr) (getu32 (skipn 12 ctr)) inp in
    (firstn 12 ctr ++ putu32 c3, o).
  (* both, small-footprint build: byte-wise increment *)
  Fixpoint ctr_blocks_sf (incr : list N -> list N) (n : nat) (ctr inp : list N) : list N * list N :=
    match n with
    | O => (ctr, [])
    | S k =>
      let o := xor_bytes (firstn 16 inp) (E ctr) in
      let '(c, os) := ctr_blocks_sf incr k (incr ctr) (skipn 16 inp) in (c, o ++ os)
    end.

  (* sm4_ctr_encrypt / sm4_ctr32_encrypt over any of the *_blocks functions *)
  Definition ctr_encrypt (blocks : nat -> list N -> list N -> list N * list N)
             (ctr inp : list N) : list N * list N :=
    let inlen := length inp in
    let n := inlen / 16 in
    let '(ctr1, o1) := if 16 <=? inlen then blocks n ctr inp else (ctr, []) in
    let rest := if 16 <=? inlen then skipn (n * 16) inp else inp in
    if negb (length rest =? 0) then
      let block := rest ++ zeros (16 - length rest) in
      let '(ctr2, o2) := blocks 1 ctr1 block in
      (ctr2, o1 ++ firstn (length rest) o2)
    else (ctr1, o1).

  Definition ctr_crypt (blocks : nat -> list N -> list N -> list N * list N) (ctr d : list N) :=
    blocks (length d / 16) ctr d.
  Definition ctr_init (ctr : list N) : bctx (list N) := mkb ctr [].
  Definition ctr_update blocks := buf_update 16 false (ctr_crypt blocks).
  Definition ctr_finish (blocks : nat -> list N -> list N -> list N * list N)
             (c : bctx (list N)) : option (list N) :=
    let nb := length (bbuf c) in
    if 16 <=? nb then None
    else Some (firstn nb (snd (blocks 1 (bst c) (bbuf c ++ zeros (16 - nb))))).

  (* Spec: counter block i is the 128-bit big-endian integer ctr + i (mod 2^128);
     for CTR32 only the last 32 bits count (inc32 of SP 800-38D) *)
  Definition ctr_block (ctr : list N) (i : nat) : list N :=
    N_to_be 16 ((be_to_N ctr + N.of_nat i) mod 2^128)%N.
  Definition ctr32_block (ctr : list N) (i : nat) : list N :=
    firstn 12 ctr ++ N_to_be 4 ((be_to_N (skipn 12 ctr) + N.of_nat i) mod 2^32)%N.
  Definition ctr_gen_spec (blk : list N -> nat -> list N) (ctr m : list N) : list N * list N :=
    let n := (length m + 15) / 16 in
    (blk ctr n, xor_bytes m (concat (map (fun i => E (blk ctr i)) (seq 0 n)))).
  Definition ctr_spec := ctr_gen_spec ctr_block.
  Definition ctr32_spec := ctr_gen_spec ctr32_block.

  (* ------------------------------------------------------------------ OFB *)
  Fixpoint ofb_loop (fuel : nat) (iv inp : list N) : list N * list N :=
    match fuel with
    | O => (iv, [])
    | S f =>
      match inp with
      | [] => (iv, [])
      | _ =>
        let len := Nat.min (length inp) 16 in
        let iv' := E iv in
        let o := xor_bytes (firstn len inp) iv' in
        let '(iv2, os) := ofb_loop f iv' (skipn len inp) in (iv2, o ++ os)
      end
    end.
  Definition ofb_encrypt (iv inp : list N) : list N * list N := ofb_loop (length inp) iv inp.
  Definition ofb_init (iv : list N) : bctx (list N) := mkb iv [].
  Definition ofb_update := buf_update 16 false ofb_encrypt.
  Definition ofb_finish (c : bctx (list N)) : option (list N) :=
    if 16 <=? length (bbuf c) then None else Some (snd (ofb_encrypt (bst c) (bbuf c))).
  (* Spec *)
  Fixpoint ofb_ks (n : nat) (iv : list N) : list N :=
    match n with O => [] | S k => let o := E iv in o ++ ofb_ks k o end.
  Definition ofb_spec (iv m : list N) : list N := xor_bytes m (ofb_ks ((length m + 15) / 16) iv).

  (* ------------------------------------------------------------------ CFB-s *)
  (* iv = (iv << sbytes) | out, with the partial last segment copied as far as it goes *)
  Definition cfb_shift (s : nat) (iv seg : list N) : list N :=
    skipn s iv ++ seg ++ skipn (16 - s + length seg) iv.
  Fixpoint cfb_enc_loop (s fuel : nat) (iv inp : list N) : list N * list N :=
    match fuel with
    | O => (iv, [])
    | S f =>
      match inp with
      | [] => (iv, [])
      | _ =>
        let len := Nat.min (length inp) s in
        let o := xor_bytes (firstn len inp) (E iv) in
        let '(iv2, os) := cfb_enc_loop s f (cfb_shift s iv o) (skipn len inp) in (iv2, o ++ os)
      end
    end.
  Fixpoint cfb_dec_loop (s fuel : nat) (iv inp : list N) : list N * list N :=
    match fuel with
    | O => (iv, [])
    | S f =>
      match inp with
      | [] => (iv, [])
      | _ =>
        let len := Nat.min (length inp) s in
        let c := firstn len inp in
        let o := xor_bytes c (E iv) in
        let '(iv2, os) := cfb_dec_loop s f (cfb_shift s iv c) (skipn len inp) in (iv2, o ++ os)
      end
    end.
  Definition cfb_encrypt (s : nat) (iv inp : list N) := cfb_enc_loop s (length inp) iv inp.
  Definition cfb_decrypt (s : nat) (iv inp : list N) := cfb_dec_loop s (length inp) iv inp.
  Definition cfb_init (s : nat) (iv : list N) : option (bctx (list N)) :=
    if (s <? 1) || (16 <? s) then None else Some (mkb iv []).
  Definition cfb_encrypt_update (s : nat) := buf_update s false (cfb_encrypt s).
  Definition cfb_decrypt_update (s : nat) := buf_update s false (cfb_decrypt s).
  Definition cfb_encrypt_finish (s : nat) (c : bctx (list N)) : option (list N) :=
    if s <=? length (bbuf c) then None else Some (snd (cfb_encrypt s (bst c) (bbuf c))).
  Definition cfb_decrypt_finish (s : nat) (c : bctx (list N)) : option (list N) :=
    if s <=? length (bbuf c) then None else Some (snd (cfb_decrypt s (bst c) (bbuf c))).
  (* Spec: I_1 = IV, C_j = P_j xor MSB_s(E(I_j)), I_{j+1} = LSB_{128-s}(I_j) || C_j *)
  Fixpoint cfb_enc_chain (s : nat) (iv : list N) (ps : list (list N)) : list (list N) :=
    match ps with
    | [] => []
    | p :: r => let c := xor_bytes p (E iv) in c :: cfb_enc_chain s (skipn s iv ++ c) r
    end.
  Fixpoint cfb_dec_chain (s : nat) (iv : list N) (cs : list (list N)) : list (list N) :=
    match cs with
    | [] => []
    | c :: r => xor_bytes c (E iv) :: cfb_dec_chain s (skipn s iv ++ c) r
    end.
  Definition cfb_enc_spec (s : nat) (iv m : list N) : list N := concat (cfb_enc_chain s iv (segs s m)).
  Definition cfb_dec_spec (s : nat) (iv c : list N) : list N := concat (cfb_dec_chain s iv (segs s c)).

  (* ------------------------------------------------------------------ XTS *)
  Variable E2 : list N -> list N.     (* sm4_encrypt with key2 (tweak key) *)
  Variable mul2 : list N -> list N.   (* gf128_from_bytes; gf128_mul_by_2; gf128_to_bytes *)
  Definition xts_block (F : list N -> list N) (T blk : list N) : list N :=
    xor_bytes (F (xor_bytes blk T)) T.
  Fixpoint xts_loop (F : list N -> list N) (n : nat) (T inp : list N) : list N * list N :=
    match n with
    | O => (T, [])
    | S k =>
      let o := xts_block F T (firstn 16 inp) in
      let '(T', os) := xts_loop F k (mul2 T) (skipn 16 inp) in (T', o ++ os)
    end.
  (* body of sm4_xts_encrypt after the inlen >= 16 check *)
  Definition xts_encrypt_raw (tweak inp : list N) : list N :=
    let nblocks := length inp / 16 + 1 in
    let '(T1, o1) := xts_loop E (nblocks - 2) (E2 tweak) inp in
    let rest := skipn ((nblocks - 2) * 16) inp in
    if length rest mod 16 =? 0 then o1 ++ xts_block E T1 (firstn 16 rest)
    else
      let cc := xts_block E T1 (firstn 16 rest) in
      let T2 := mul2 T1 in
      let tail := skipn 16 rest in
      let b := length tail in
      o1 ++ xts_block E T2 (tail ++ skipn b cc) ++ firstn b cc.
  Definition xts_decrypt_raw (tweak inp : list N) : list N :=
    let nblocks := length inp / 16 + 1 in
    let '(T1, o1) := xts_loop D (nblocks - 2) (E2 tweak) inp in
    let rest := skipn ((nblocks - 2) * 16) inp in
    if length rest mod 16 =? 0 then o1 ++ xts_block D T1 (firstn 16 rest)
    else
      let T2 := mul2 T1 in
      let pp := xts_block D T2 (firstn 16 rest) in
      let tail := skipn 16 rest in
      let b := length tail in
      o1 ++ xts_block D T1 (tail ++ skipn b pp) ++ firstn b pp.
  Definition xts_encrypt (tweak inp : list N) : option (list N) :=
    if length inp <? 16 then None else Some (xts_encrypt_raw tweak inp).
  Definition xts_decrypt (tweak inp : list N) : option (list N) :=
    if length inp <? 16 then None else Some (xts_decrypt_raw tweak inp).

  (* streaming: one data unit after the other, tweak_incr in between *)
  Fixpoint xts_units (f : list N -> list N -> list N) (dus n : nat) (tw inp : list N) : list N * list N :=
    match n with
    | O => (tw, [])
    | S k =>
      let o := f tw (firstn dus inp) in
      let '(tw', os) := xts_units f dus k (tweak_incr tw) (skipn dus inp) in (tw', o ++ os)
    end.
  Definition xts_crypt (f : list N -> list N -> list N) (dus : nat) (tw d : list N) :=
    xts_units f dus (length d / dus) tw d.
  Definition xts_init (tw : list N) (dus : nat) : option (bctx (list N)) :=
    if dus <? 16 then None else Some (mkb tw []).
  Definition xts_encrypt_update (dus : nat) := buf_update dus false (xts_crypt xts_encrypt_raw dus).
  Definition xts_decrypt_update (dus : nat) := buf_update dus false (xts_crypt xts_decrypt_raw dus).
  Definition xts_finish (dus : nat) (c : bctx (list N)) : option (list N) :=
    if dus <=? length (bbuf c) then None
    else if negb (length (bbuf c) =? 0) then None else Some [].

  (* Spec: T_j = alpha^j * E_K2(tweak); C_j = E_K1(P_j xor T_j) xor T_j; ciphertext stealing
     for a final partial block P_m of b bytes:  CC = Enc(T_{m-1}, P_{m-1}),
     C_m = first b bytes of CC,  C_{m-1} = Enc(T_m, P_m || rest of CC). *)
  Definition xts_T (tweak : list N) (j : nat) : list N := iter j mul2 (E2 tweak).
  Fixpoint xts_full (F : list N -> list N) (T : list N) (ps : list (list N)) : list (list N) :=
    match ps with
    | [] => []
    | p :: r => xts_block F T p :: xts_full F (mul2 T) r
    end.
  Definition xts_enc_spec (tweak m : list N) : list N :=
    let q := length m / 16 in
    let b := length m mod 16 in
    if b =? 0 then concat (xts_full E (xts_T tweak 0) (segs 16 m))
    else
      let head := firstn ((q - 1) * 16) m in
      let p1 := firstn 16 (skipn ((q - 1) * 16) m) in
      let pm := skipn (q * 16) m in
      let cc := xts_block E (xts_T tweak (q - 1)) p1 in
      concat (xts_full E (xts_T tweak 0) (segs 16 head))
        ++ xts_block E (xts_T tweak q) (pm ++ skipn b cc) ++ firstn b cc.
  Definition xts_dec_spec (tweak c : list N) : list N :=
    let q := length c / 16 in
    let b := length c mod 16 in
    if b =? 0 then concat (xts_full D (xts_T tweak 0) (segs 16 c))
    else
      let head := firstn ((q - 1) * 16) c in
      let c1 := firstn 16 (skipn ((q - 1) * 16) c) in
      let cm := skipn (q * 16) c in
      let pp := xts_block D (xts_T tweak q) c1 in
      concat (xts_full D (xts_T tweak 0) (segs 16 head))
        ++ xts_block D (xts_T tweak (q - 1)) (cm ++ skipn b pp) ++ firstn b pp.
  (* streaming Spec: data unit i is encrypted on its own under tweak + i (little-endian) *)
  Fixpoint xts_units_spec (f : list N -> list N -> list N) (tw : list N) (us : list (list N)) : list (list N) :=
    match us with
    | [] => []
    | u :: r => f tw u :: xts_units_spec f (tweak_incr tw) r
    end.

  (* ------------------------------------------------------------------ CBC-MAC *)
  Record macctx := mkm { miv : list N; mivlen : nat }.
  Definition cbc_mac_init : macctx := mkm (zeros 16) 0.
  Fixpoint cbc_mac_loop (fuel : nat) (iv : list N) (ivlen : nat) (data : list N) : macctx :=
    match fuel with
    | O => mkm iv ivlen
    | S f =>
      match data with
      | [] => mkm iv ivlen
      | _ =>
        let ivleft := 16 - ivlen in
        let len := Nat.min (length data) ivleft in
        let iv1 := firstn ivlen iv
                   ++ xor_bytes (firstn len (skipn ivlen iv)) (firstn len data)
                   ++ skipn (ivlen + len) iv in
        let ivlen1 := ivlen + len in
        if 16 <=? ivlen1 then cbc_mac_loop f (E iv1) 0 (skipn len data)
        else cbc_mac_loop f iv1 ivlen1 (skipn len data)
      end
    end.
  Definition cbc_mac_update (c : macctx) (data : list N) : macctx :=
    cbc_mac_loop (length data) (miv c) (mivlen c) data.
  Definition cbc_mac_finish (c : macctx) : list N :=
    if negb (mivlen c =? 0) then E (miv c) else miv c.
  (* Spec: CBC chain from the zero IV over the message, the last partial block
     completed with zero bytes; nothing is encrypted for the empty message *)
  Definition pad0 (p : list N) : list N := p ++ zeros (16 - length p).
  Definition cbc_mac_spec (m : list N) : list N :=
    fold_left (fun c p => E (xor_bytes c (pad0 p))) (segs 16 m) (zeros 16).
End Modes.

(* ===================================================================== *)
(* src/aes_modes.c: the same modes written differently -- the chaining value is a pointer to
   the previous ciphertext block (iv = out resp. iv = in), the padding functions recover it as
   out - 16 resp. in + inlen - 32, and aes_ctr_encrypt is a byte-count loop with the byte-wise
   ctr_incr.  E/D = aes_encrypt/aes_decrypt under one expanded key. *)
Section AesModes.
  Variable E : list N -> list N.
  Variable D : list N -> list N.

  Fixpoint aes_cbc_encrypt (n : nat) (iv inp : list N) : list N :=
    match n with
    | O => []
    | S k => let c := E (xor_bytes (firstn 16 inp) iv) in c ++ aes_cbc_encrypt k c (skipn 16 inp)
    end.
  Fixpoint aes_cbc_decrypt (n : nat) (iv inp : list N) : list N :=
    match n with
    | O => []
    | S k => let c := firstn 16 inp in xor_bytes (D c) iv ++ aes_cbc_decrypt k c (skipn 16 inp)
    end.
  Definition aes_cbc_padding_encrypt (iv inp : list N) : list N :=
    let inlen := length inp in
    let rem := inlen mod 16 in
    let padding := 16 - rem in
    let block := skipn (inlen - rem) inp ++ repeat (N.of_nat padding) padding in
    if negb (inlen / 16 =? 0) then
      let o1 := aes_cbc_encrypt (inlen / 16) iv inp in
      let iv1 := skipn (length o1 - 16) o1 in                       (* iv = out - 16 *)
      o1 ++ aes_cbc_encrypt 1 iv1 block
    else aes_cbc_encrypt 1 iv block.
  Definition aes_cbc_padding_decrypt (iv inp : list N) : option (list N) :=
    let inlen := length inp in
    if inlen =? 0 then None
    else if negb (inlen mod 16 =? 0) || (inlen <? 16) then None
    else
      let '(iv1, o1) :=
        if 16 <? inlen then (firstn 16 (skipn (inlen - 32) inp),      (* iv = in + inlen - 32 *)
                             aes_cbc_decrypt (inlen / 16 - 1) iv inp)
        else (iv, []) in
      let block := aes_cbc_decrypt 1 iv1 (skipn (inlen - 16) inp) in
      let padding := nth 15 block 0%N in
      if (padding <? 1)%N || (16 <? padding)%N then None
      else Some (o1 ++ firstn (16 - N.to_nat padding) block).

  Fixpoint aes_ctr_loop (fuel : nat) (ctr inp : list N) : list N * list N :=
    match fuel with
    | O => (ctr, [])
    | S f =>
      match inp with
      | [] => (ctr, [])
      | _ =>
        let len := Nat.min (length inp) 16 in
        let o := xor_bytes (firstn len inp) (E ctr) in
        let '(c2, os) := aes_ctr_loop f (ctr_incr ctr) (skipn len inp) in (c2, o ++ os)
      end
    end.
  Definition aes_ctr_encrypt (ctr inp : list N) : list N * list N := aes_ctr_loop (length inp) ctr inp.
End AesModes.

(* ===================================================================== *)
(* In-place operation: the blocks functions read block i of the buffer before they
   write block i, and never read a block they have already written. *)
Section InPlace.
  Variable St : Type.
  Variable step : St -> list N -> St * list N.       (* one block *)
  Definition put_at (buf : list N) (off : nat) (d : list N) : list N :=
    firstn off buf ++ d ++ skipn (off + length d) buf.
  (* out == in: block i is read from the (partly overwritten) buffer *)
  Fixpoint inplace_loop (n : nat) (i : nat) (st : St) (buf : list N) : St * list N :=
    match n with
    | O => (st, buf)
    | S k =>
      let '(st', o) := step st (firstn 16 (skipn (16 * i) buf)) in
      inplace_loop k (S i) st' (put_at buf (16 * i) o)
    end.
  (* out and in disjoint *)
  Fixpoint pure_loop (n : nat) (st : St) (inp : list N) : St * list N :=
    match n with
    | O => (st, [])
    | S k =>
      let '(st', o) := step st (firstn 16 inp) in
      let '(st2, os) := pure_loop k st' (skipn 16 inp) in (st2, o ++ os)
    end.
End InPlace.

(* little-endian value of a byte string (tweak_incr of sm4_xts.c counts data units this way) *)
Fixpoint le_to_N (l : list N) : N :=
  match l with [] => 0%N | b :: r => (b + 256 * le_to_N r)%N end.
