(* SM4 as compiled in the default build of src/sm4.c (no ENABLE_SMALL_FOOTPRINT):
   key schedule with the source's S / FK / CK arrays, rounds with the T0..T3
   lookup tables (macro ROUND).  The arrays are the ones of Gen/Sm4Tables.v, which
   tools/consts_sm4.py copies from the C source on every run.  Impl model; the Spec
   is Cipher/SM4.v.  The rotating register names of the unrolled ROUND(i, ...) lines
   are modelled by the shifting state of [sm4_rounds_tab]. *)
From GmVerif Require Import Base.ListX Base.Bytes Cipher.SM4 Gen.Sm4Tables.
Local Open Scope N_scope.

Definition tb (t : list N) (i : N) : N := nth (N.to_nat i) t 0.

(* macro S32 *)
Definition S32_c (a : N) : N :=
  N.lor (N.lor (N.shiftl (tb c_S (w8 (N.shiftr a 24))) 24) (N.shiftl (tb c_S (w8 (N.shiftr a 16))) 16))
        (N.lor (N.shiftl (tb c_S (w8 (N.shiftr a 8))) 8) (tb c_S (w8 a))).
(* macro L32_ *)
Definition L32k (x : N) : N := N.lxor (N.lxor x (rol32 x 13)) (rol32 x 23).

(* sm4_set_encrypt_key *)
Fixpoint ks_rounds_c (n : nat) (i : nat) (x0 x1 x2 x3 : N) : list N :=
  match n with
  | O => []
  | S m =>
    let x4 := N.lxor (N.lxor (N.lxor x1 x2) x3) (nth i c_CK 0) in
    let x4 := S32_c x4 in
    let x4 := N.lxor x0 (L32k x4) in
    x4 :: ks_rounds_c m (i + 1) x1 x2 x3 x4
  end.
Definition sm4_set_encrypt_key (key : list N) : list N :=
  ks_rounds_c 32 0
    (N.lxor (get_be32 key) (nth 0 c_FK 0)) (N.lxor (get_be32 (skipn 4 key)) (nth 1 c_FK 0))
    (N.lxor (get_be32 (skipn 8 key)) (nth 2 c_FK 0)) (N.lxor (get_be32 (skipn 12 key)) (nth 3 c_FK 0)).
(* sm4_set_decrypt_key stores rk[31 - i] *)
Definition sm4_set_decrypt_key (key : list N) : list N := rev (sm4_set_encrypt_key key).

(* macro ROUND: X4 = X1^X2^X3^rk; X4 = T0[X4>>24] ^ T1[..] ^ T2[..] ^ T3[..] ^ X0 *)
Definition Ttab (x : N) : N :=
  N.lxor (N.lxor (N.lxor (tb c_T0 (w8 (N.shiftr x 24))) (tb c_T1 (w8 (N.shiftr x 16))))
                 (tb c_T2 (w8 (N.shiftr x 8)))) (tb c_T3 (w8 x)).
Fixpoint sm4_rounds_tab (rks : list N) (x0 x1 x2 x3 : N) : N * N * N * N :=
  match rks with
  | [] => (x0, x1, x2, x3)
  | rk :: r => sm4_rounds_tab r x1 x2 x3 (N.lxor (Ttab (N.lxor (N.lxor (N.lxor x1 x2) x3) rk)) x0)
  end.
(* sm4_encrypt(key, in, out) *)
Definition sm4_encrypt_tab (rks : list N) (blk : list N) : list N :=
  let '(y0, y1, y2, y3) :=
    sm4_rounds_tab rks (get_be32 blk) (get_be32 (skipn 4 blk)) (get_be32 (skipn 8 blk)) (get_be32 (skipn 12 blk)) in
  be32 y3 ++ be32 y2 ++ be32 y1 ++ be32 y0.

(* what the library computes for a raw key and a block *)
Definition sm4_enc_impl (key blk : list N) : list N := sm4_encrypt_tab (sm4_set_encrypt_key key) blk.
Definition sm4_dec_impl (key blk : list N) : list N := sm4_encrypt_tab (sm4_set_decrypt_key key) blk.

(* ---- what the standard prescribes for each array (checked entry by entry) ---- *)
Definition bytes256 : list N := map N.of_nat (seq 0 256).
Definition spec_S  : list N := sm4_sbox.
Definition spec_FK : list N := FK.
Definition spec_CK : list N := map CKi (seq 0 32).
Definition spec_T (sh : N) : list N := map (fun b => Lenc (N.shiftl (sbox b) sh)) bytes256.

(* list of (table number, index) whose source value differs from the standard's;
   table numbers: 0..3 = T0..T3, 4 = S, 5 = FK, 6 = CK *)
Fixpoint diff_at (t : N) (i : N) (a b : list N) : list (N * N) :=
  match a, b with
  | x :: a', y :: b' => (if x =? y then [] else [(t, i)]) ++ diff_at t (i + 1) a' b'
  | [], [] => []
  | _, _ => [(t, i)]
  end.
Definition sm4_table_mismatches : list (N * N) :=
  diff_at 0 0 c_T0 (spec_T 24) ++ diff_at 1 0 c_T1 (spec_T 16) ++
  diff_at 2 0 c_T2 (spec_T 8) ++ diff_at 3 0 c_T3 (spec_T 0) ++
  diff_at 4 0 c_S spec_S ++ diff_at 5 0 c_FK spec_FK ++ diff_at 6 0 c_CK spec_CK.
