(* ZUC-128 / ZUC-256: src/zuc.c (LFSR over GF(2^31-1), bit reorganisation, F, key loading,
   keystream, zuc_encrypt, EIA3-style MACs) and src/zuc_modes.c (EEA3, EIA3, ZUC_CTX streaming).

   Impl model : transcription of the macros ([add31], [rot31], [lfsr_init_mode], [lfsr_work_mode],
                [bitreorg], [F]); [zuc_encrypt] with its read extent ([zuc_encrypt_read_extent];
                before commit fef12f3 GETU32(in) ran before the `inlen >= 4` test, so a 1..3-byte
                tail read 4 bytes: [zuc_encrypt_read_extent_old]); [zuc_mac_*], [zuc256_mac_*].
   Spec       : [eea3_spec], [eia3_spec] (3GPP 35.221/35.222 at bit level over the keystream),
                [zuc_xor_spec] (keystream xor, no read past the input).
   The keystream generator itself is pinned by the standards' vectors (Examples).          *)
From GmVerif Require Import Base.ListX Base.Bytes.
Local Open Scope N_scope.

Definition zuc_KD : list N := [17623; 9916; 25195; 4958; 22409; 13794; 28981; 2479; 19832; 12051; 27588; 6897; 24102; 15437; 30874; 18348].
Definition zuc_S0 : list N := [
   62; 114;  91;  71; 202; 224;   0;  51;   4; 209;  84; 152;   9; 185; 109; 203;
  123;  27; 249;  50; 175; 157; 106; 165; 184;  45; 252;  29;   8;  83;   3; 144;
   77;  78; 132; 153; 228; 206; 217; 145; 221; 182; 133;  72; 139;  41; 110; 172;
  205; 193; 248;  30; 115;  67; 105; 198; 181; 189; 253;  57;  99;  32; 212;  56;
  118; 125; 178; 167; 207; 237;  87; 197; 243;  44; 187;  20;  33;   6;  85; 155;
  227; 239;  94;  49;  79; 127;  90; 164;  13; 130;  81;  73;  95; 186;  88;  28;
   74;  22; 213;  23; 168; 146;  36;  31; 140; 255; 216; 174;  46;   1; 211; 173;
   59;  75; 218;  70; 235; 201; 222; 154; 143; 135; 215;  58; 128; 111;  47; 200;
  177; 180;  55; 247;  10;  34;  19;  40; 124; 204;  60; 137; 199; 195; 150;  86;
    7; 191; 126; 240;  11;  43; 151;  82;  53;  65; 121;  97; 166;  76;  16; 254;
  188;  38; 149; 136; 138; 176; 163; 251; 192;  24; 148; 242; 225; 229; 233;  93;
  208; 220;  17; 102; 100;  92; 236;  89;  66; 117;  18; 245; 116; 156; 170;  35;
   14; 134; 171; 190;  42;   2; 231; 103; 230;  68; 162; 108; 194; 147; 159; 241;
  246; 250;  54; 210;  80; 104; 158;  98; 113;  21;  61; 214;  64; 196; 226;  15;
  142; 131; 119; 107;  37;   5;  63;  12;  48; 234; 112; 183; 161; 232; 169; 101;
  141;  39;  26; 219; 129; 179; 160; 244;  69; 122;  25; 223; 238; 120;  52;  96].
Definition zuc_S1 : list N := [
   85; 194;  99; 113;  59; 200;  71; 134; 159;  60; 218;  91;  41; 170; 253; 119;
  140; 197; 148;  12; 166;  26;  19;   0; 227; 168;  22; 114;  64; 249; 248;  66;
   68;  38; 104; 150; 129; 217;  69;  62;  16; 118; 198; 167; 139;  57;  67; 225;
   58; 181;  86;  42; 192; 109; 179;   5;  34; 102; 191; 220;  11; 250;  98;  72;
  221;  32;  17;   6;  54; 201; 193; 207; 246;  39;  82; 187; 105; 245; 212; 135;
  127; 132;  76; 210; 156;  87; 164; 188;  79; 154; 223; 254; 214; 141; 122; 235;
   43;  83; 216;  92; 161;  20;  23; 251;  35; 213; 125;  48; 103; 115;   8;   9;
  238; 183; 112;  63;  97; 178;  25; 142;  78; 229;  75; 147; 143;  93; 219; 169;
  173; 241; 174;  46; 203;  13; 252; 244;  45;  70; 110;  29; 151; 232; 209; 233;
   77;  55; 165; 117;  94; 131; 158; 171; 130; 157; 185;  28; 224; 205;  73; 137;
    1; 182; 189;  88;  36; 162;  95;  56; 120; 153;  21; 144;  80; 184; 149; 228;
  208; 145; 199; 206; 237;  15; 180; 111; 160; 204; 240;   2;  74; 121; 195; 222;
  163; 239; 234;  81; 230; 107;  24; 236;  27;  44; 128; 247; 116; 231; 255;  33;
   90; 106;  84;  30;  65;  49; 146;  53; 196;  51;   7;  10; 186; 126;  14;  52;
  136; 177; 152; 124; 243;  61;  96; 108; 123; 202; 211;  31;  50; 101;   4;  40;
  100; 190; 133; 155;  47;  89; 138; 215; 176;  37; 172; 175;  18;   3; 226; 242].
Definition S0b (b : N) : N := nth (N.to_nat (w8 b)) zuc_S0 0.
Definition S1b (b : N) : N := nth (N.to_nat (w8 b)) zuc_S1 0.

Definition m31 : N := 0x7fffffff.
(* ADD31(a,b): a += b; a = (a & 0x7fffffff) + (a >> 31)   (uint32_t) *)
Definition add31 (a b : N) : N := let s := w32 (a + b) in N.land s m31 + N.shiftr s 31.
Definition rot31 (a k : N) : N := N.land (N.lor (N.shiftl a k) (N.shiftr a (31 - k))) m31.
Definition zL1 (x : N) : N :=
  N.lxor (N.lxor (N.lxor (N.lxor x (rol32 x 2)) (rol32 x 10)) (rol32 x 18)) (rol32 x 24).
Definition zL2 (x : N) : N :=
  N.lxor (N.lxor (N.lxor (N.lxor x (rol32 x 8)) (rol32 x 14)) (rol32 x 22)) (rol32 x 30).

Record zuc_state := mkZ { zL : list N; zR1 : N; zR2 : N }.
Definition li (l : list N) (i : nat) : N := nth i l 0.

Definition lfsr_init_mode (l : list N) (u : N) : list N :=
  let v := li l 0 in
  let v := add31 v (rot31 (li l 0) 8) in
  let v := add31 v (rot31 (li l 4) 20) in
  let v := add31 v (rot31 (li l 10) 21) in
  let v := add31 v (rot31 (li l 13) 17) in
  let v := add31 v (rot31 (li l 15) 15) in
  let v := add31 v u in
  skipn 1 l ++ [v].
Definition lfsr_work_mode (l : list N) : list N :=
  let a := li l 0 + N.shiftl (li l 0) 8 + N.shiftl (li l 4) 20 + N.shiftl (li l 10) 21
           + N.shiftl (li l 13) 17 + N.shiftl (li l 15) 15 in      (* < 2^64 *)
  let a := N.land a m31 + N.shiftr a 31 in
  let v := w32 (N.land a m31 + N.shiftr a 31) in
  skipn 1 l ++ [v].

Definition brX0 (l : list N) : N := N.lor (N.shiftl (N.land (li l 15) 0x7FFF8000) 1) (N.land (li l 14) 0xFFFF).
Definition brX1 (l : list N) : N := N.lor (N.shiftl (N.land (li l 11) 0xFFFF) 16) (N.shiftr (li l 9) 15).
Definition brX2 (l : list N) : N := N.lor (N.shiftl (N.land (li l 7) 0xFFFF) 16) (N.shiftr (li l 5) 15).
Definition brX3 (l : list N) : N := N.lor (N.shiftl (N.land (li l 2) 0xFFFF) 16) (N.shiftr (li l 0) 15).

Definition makeu32 (a b c d : N) : N :=
  N.lor (N.lor (N.shiftl a 24) (N.shiftl b 16)) (N.lor (N.shiftl c 8) d).
Definition sbox32 (u : N) : N :=
  makeu32 (S0b (N.shiftr u 24)) (S1b (N.shiftr u 16)) (S0b (N.shiftr u 8)) (S1b u).
(* F_(X1,X2): new (R1, R2) *)
Definition F_upd (r1 r2 x1 x2 : N) : N * N :=
  let w1 := w32 (r1 + x1) in
  let w2 := N.lxor r2 x2 in
  let u := zL1 (N.lor (w32 (N.shiftl w1 16)) (N.shiftr w2 16)) in
  let v := zL2 (N.lor (w32 (N.shiftl w2 16)) (N.shiftr w1 16)) in
  (sbox32 u, sbox32 v).
Definition F_out (r1 r2 x0 : N) : N := w32 (N.lxor x0 r1 + r2).

(* the 32 initialisation rounds + the discarded work round, from a loaded LFSR *)
Fixpoint init_rounds (n : nat) (l : list N) (r1 r2 : N) : list N * N * N :=
  match n with
  | O => (l, r1, r2)
  | S k =>
    let w := F_out r1 r2 (brX0 l) in
    let '(r1', r2') := F_upd r1 r2 (brX1 l) (brX2 l) in
    init_rounds k (lfsr_init_mode l (N.shiftr w 1)) r1' r2'
  end.
Definition zuc_start (l0 : list N) : zuc_state :=
  let '(l, r1, r2) := init_rounds 32 l0 0 0 in
  let '(r1', r2') := F_upd r1 r2 (brX1 l) (brX2 l) in
  mkZ (lfsr_work_mode l) r1' r2'.

Definition makeu31 (k d iv : N) : N := N.lor (N.lor (N.shiftl k 23) (N.shiftl d 8)) iv.
Definition zuc_init (key iv : list N) : zuc_state :=
  zuc_start (map (fun i => makeu31 (li key i) (li zuc_KD i) (li iv i)) (seq 0 16)).

(* zuc_generate_keyword *)
Definition zuc_keyword (s : zuc_state) : zuc_state * N :=
  let l := zL s in
  let z := N.lxor (brX3 l) (F_out (zR1 s) (zR2 s) (brX0 l)) in
  let '(r1', r2') := F_upd (zR1 s) (zR2 s) (brX1 l) (brX2 l) in
  (mkZ (lfsr_work_mode l) r1' r2', z).
Fixpoint zuc_keystream (n : nat) (s : zuc_state) : zuc_state * list N :=
  match n with
  | O => (s, [])
  | S k => let '(s1, z) := zuc_keyword s in
           let '(s2, zs) := zuc_keystream k s1 in (s2, z :: zs)
  end.

(* ---------- zuc_encrypt (byte oriented) ---------- *)
(* one loop iteration consumes min(4, inlen) bytes: a whole word is read with GETU32 only when
   inlen >= 4, the 1..3-byte tail is xored byte by byte (commit fef12f3) *)
Fixpoint zuc_encrypt (fuel : nat) (s : zuc_state) (d : list N) : zuc_state * list N :=
  match fuel with
  | O => (s, [])
  | S f =>
    match d with
    | [] => (s, [])
    | _ =>
      let '(s1, z) := zuc_keyword s in
      let o := xor_bytes (firstn 4 d) (be32 z) in
      if (4 <=? length d)%nat then
        let '(s2, r) := zuc_encrypt f s1 (skipn 4 d) in (s2, o ++ r)
      else (s1, o)
    end
  end.
(* number of input bytes the loop reads, from [rem] remaining bytes; [tail_read] = what one
   iteration reads when fewer than 4 bytes are left (rem now; 4 before the fix) *)
Fixpoint zuc_reads (tail_read : nat -> nat) (fuel rem : nat) : nat :=
  match fuel with
  | O => 0
  | S f => if (rem =? 0)%nat then 0
           else if (4 <=? rem)%nat then 4 + zuc_reads tail_read f (rem - 4)
           else tail_read rem
  end%nat.
Definition zuc_encrypt_read_extent (inlen : nat) : nat := zuc_reads (fun r => r) inlen inlen.
Definition zuc_encrypt_overread (inlen : nat) : nat := (zuc_encrypt_read_extent inlen - inlen)%nat.
Definition zuc_encrypt_read_extent_old (inlen : nat) : nat := zuc_reads (fun _ => 4%nat) inlen inlen.
Definition zuc_xor_spec (s : zuc_state) (d : list N) : list N :=
  xor_bytes d (flat_map be32 (snd (zuc_keystream ((length d + 3) / 4) s))).

(* ZUC_CTX streaming (zuc_modes.c): 4-byte block buffer *)
Record zuc_ctx := mkZc { zc_s : zuc_state; zc_buf : list N }.
Definition zuc_encrypt_init (key iv : list N) : zuc_ctx := mkZc (zuc_init key iv) [].
Definition zuc_encrypt_update (c : zuc_ctx) (d : list N) : zuc_ctx * list N :=
  let all := zc_buf c ++ d in
  let k := (length all / 4)%nat in
  let '(s', o) := zuc_encrypt k (zc_s c) (firstn (k * 4) all) in
  (mkZc s' (skipn (k * 4) all), o).
Definition zuc_encrypt_finish (c : zuc_ctx) : list N :=
  snd (zuc_encrypt 1 (zc_s c) (zc_buf c)).

(* ---------- EEA3 (zuc_eea_encrypt) over 32-bit words ---------- *)
Definition eea_iv (count bearer direction : N) : list N :=
  let c := [w8 (N.shiftr count 24); w8 (N.shiftr count 16); w8 (N.shiftr count 8); w8 count] in
  let b := w8 (N.shiftl (N.lor (N.shiftl bearer 1) (N.land direction 1)) 2) in
  c ++ [b; 0; 0; 0] ++ c ++ [b; 0; 0; 0].
Definition zuc_eea_encrypt (inw : list N) (nbits : nat) (key : list N) (count bearer direction : N) : list N :=
  let nwords := ((nbits + 31) / 32)%nat in
  let ks := snd (zuc_keystream nwords (zuc_init key (eea_iv count bearer direction))) in
  let out := map (fun p => N.lxor (fst p) (snd p)) (combine ks (firstn nwords inw)) in
  if (nbits mod 32 =? 0)%nat then out
  else firstn (nwords - 1) out
       ++ [N.land (li out (nwords - 1)) (w32 (N.shiftl 0xffffffff (32 - N.of_nat (nbits mod 32))))].

(* ---------- 128-EIA3 style MAC (zuc_mac_init/update/finish) ---------- *)
Record zmac_ctx := mkZm { zm_s : zuc_state; zm_T : N; zm_K0 : N; zm_buf : list N }.
Definition zuc_mac_init (key iv : list N) : zmac_ctx :=
  let '(s, k0) := zuc_keyword (zuc_init key iv) in mkZm s 0 k0 [].
(* the inner loop over n message bits of M (msb first) *)
Fixpoint mac_bits (n : nat) (M T K0 K1 : N) : N * N * N :=
  match n with
  | O => (T, K0, K1)
  | S k =>
    let T' := if N.testbit M 31 then N.lxor T K0 else T in
    mac_bits k (w32 (N.shiftl M 1)) T' (w32 (N.lor (N.shiftl K0 1) (N.shiftr K1 31))) (w32 (N.shiftl K1 1))
  end.
Definition mac_word (c : zmac_ctx) (M : N) (nbits : nat) : zmac_ctx :=
  let '(s, k1) := zuc_keyword (zm_s c) in
  let '(T, K0, _) := mac_bits nbits M (zm_T c) (zm_K0 c) k1 in
  mkZm s T K0 (zm_buf c).
Fixpoint mac_words (fuel : nat) (c : zmac_ctx) (d : list N) : zmac_ctx * list N :=
  match fuel with
  | O => (c, d)
  | S f => if (4 <=? length d)%nat then mac_words f (mac_word c (get_be32 d) 32) (skipn 4 d) else (c, d)
  end.
Definition zuc_mac_update (c : zmac_ctx) (d : list N) : zmac_ctx :=
  match d with
  | [] => c
  | _ =>
    let all := zm_buf c ++ d in
    let '(c', rest) := mac_words (length all) c all in
    mkZm (zm_s c') (zm_T c') (zm_K0 c') rest
  end.
(* finish with [nbits] further message bits in [d] (whole bytes + a partial last byte) *)
Definition zuc_mac_finish (c : zmac_ctx) (d : list N) (nbits : nat) : list N :=
  let c := if (8 <=? nbits)%nat then zuc_mac_update c (firstn (nbits / 8) d) else c in
  let last := skipn (nbits / 8) d in
  let nb := (nbits mod 8)%nat in
  let buf := if (nb =? 0)%nat then zm_buf c else zm_buf c ++ firstn 1 last in
  let blen := length (zm_buf c) in
  let c := if ((blen =? 0) && (nb =? 0))%nat then c
           else mac_word c (get_be32 (buf ++ zeros 4)) (blen * 8 + nb) in
  let T := N.lxor (zm_T c) (zm_K0 c) in
  let '(_, k1) := zuc_keyword (zm_s c) in
  be32 (N.lxor T k1).

Definition eia_iv (count bearer direction : N) : list N :=
  let c0 := w8 (N.shiftr count 24) in let c1 := w8 (N.shiftr count 16) in
  let c2 := w8 (N.shiftr count 8) in let c3 := w8 count in
  let b := w8 (N.shiftl bearer 3) in
  let d := w8 (N.shiftl direction 7) in
  [c0; c1; c2; c3; b; 0; 0; 0; N.lxor c0 d; c1; c2; c3; b; 0; d; 0].
Definition zuc_eia_generate_mac (data : list N) (nbits : nat) (key : list N) (count bearer direction : N) : list N :=
  zuc_mac_finish (zuc_mac_init key (eia_iv count bearer direction)) data nbits.

(* ---------- Spec of EIA3 (3GPP TS 35.222 / GB/T 33133.3) over keystream bits ---------- *)
(* 32-bit window of the keystream starting at bit i (word list, msb first) *)
Definition ks_window (ks : list N) (i : nat) : N :=
  let q := (i / 32)%nat in let r := N.of_nat (i mod 32) in
  if r =? 0 then li ks q
  else w32 (N.lor (N.shiftl (li ks q) r) (N.shiftr (li ks (q + 1)) (32 - r))).
Definition msg_bit (d : list N) (i : nat) : bool := N.testbit (li d (i / 8)) (N.of_nat (7 - i mod 8)).
Fixpoint eia_acc (n : nat) (d ks : list N) (T : N) : N :=
  match n with
  | O => T
  | S k => let T' := eia_acc k d ks T in if msg_bit d k then N.lxor T' (ks_window ks k) else T'
  end.
Definition eia3_spec (data : list N) (nbits : nat) (key : list N) (count bearer direction : N) : list N :=
  let L := ((nbits + 31) / 32 + 2)%nat in
  let ks := snd (zuc_keystream L (zuc_init key (eia_iv count bearer direction))) in
  let T := eia_acc nbits data ks 0 in
  be32 (N.lxor (N.lxor T (ks_window ks nbits)) (li ks (L - 1))).
(* Spec of EEA3 on a byte string: output bits = message bits xor keystream bits, then
   the bits after position nbits are cleared *)
Definition eea3_spec (data : list N) (nbits : nat) (key : list N) (count bearer direction : N) : list N :=
  let nwords := ((nbits + 31) / 32)%nat in
  let ks := flat_map be32 (snd (zuc_keystream nwords (zuc_init key (eea_iv count bearer direction)))) in
  let x := xor_bytes (firstn (nwords * 4) (data ++ zeros 4)) ks in
  map (fun p => let '(i, b) := p in
         if ((i + 1) * 8 <=? nbits)%nat then b
         else if (nbits <=? i * 8)%nat then 0
         else N.land b (w8 (N.shiftl 0xff (8 - N.of_nat (nbits mod 8)))))
      (combine (seq 0 (nwords * 4)) x).

(* ---------- ZUC-256 ---------- *)
Definition zuc256_D : list (list N) :=
  [[0x22;0x2F;0x24;0x2A;0x6D;0x40;0x40;0x40;0x40;0x40;0x40;0x40;0x40;0x52;0x10;0x30];
   [0x22;0x2F;0x25;0x2A;0x6D;0x40;0x40;0x40;0x40;0x40;0x40;0x40;0x40;0x52;0x10;0x30];
   [0x23;0x2F;0x24;0x2A;0x6D;0x40;0x40;0x40;0x40;0x40;0x40;0x40;0x40;0x52;0x10;0x30];
   [0x23;0x2F;0x25;0x2A;0x6D;0x40;0x40;0x40;0x40;0x40;0x40;0x40;0x40;0x52;0x10;0x30]].
Definition mk31 (a b c d : N) : N :=
  N.lor (N.lor (N.shiftl a 23) (N.shiftl b 16)) (N.lor (N.shiftl c 8) d).
Definition zuc256_load (K IV : list N) (macbits : nat) : list N :=
  let k := li K in let v := li IV in
  let D := nth (if (macbits / 32 <? 3)%nat then (macbits / 32)%nat else 3%nat) zuc256_D [] in
  let d := li D in
  let iv17 := N.shiftr (v 17%nat) 2 in
  let iv18 := N.lor (N.shiftl (N.land (v 17%nat) 3) 4) (N.shiftr (v 18%nat) 4) in
  let iv19 := N.lor (N.shiftl (N.land (v 18%nat) 0xf) 2) (N.shiftr (v 19%nat) 6) in
  let iv20 := N.land (v 19%nat) 0x3f in
  let iv21 := N.shiftr (v 20%nat) 2 in
  let iv22 := N.lor (N.shiftl (N.land (v 20%nat) 3) 4) (N.shiftr (v 21%nat) 4) in
  let iv23 := N.lor (N.shiftl (N.land (v 21%nat) 0xf) 2) (N.shiftr (v 22%nat) 6) in
  let iv24 := N.land (v 22%nat) 0x3f in
  [ mk31 (k 0) (d 0) (k 21) (k 16); mk31 (k 1) (d 1) (k 22) (k 17);
    mk31 (k 2) (d 2) (k 23) (k 18); mk31 (k 3) (d 3) (k 24) (k 19);
    mk31 (k 4) (d 4) (k 25) (k 20);
    mk31 (v 0) (N.lor (d 5) iv17) (k 5) (k 26); mk31 (v 1) (N.lor (d 6) iv18) (k 6) (k 27);
    mk31 (v 10) (N.lor (d 7) iv19) (k 7) (v 2); mk31 (k 8) (N.lor (d 8) iv20) (v 3) (v 11);
    mk31 (k 9) (N.lor (d 9) iv21) (v 12) (v 4); mk31 (v 5) (N.lor (d 10) iv22) (k 10) (k 28);
    mk31 (k 11) (N.lor (d 11) iv23) (v 6) (v 13); mk31 (k 12) (N.lor (d 12) iv24) (v 7) (v 14);
    mk31 (k 13) (d 13) (v 15) (v 8);
    mk31 (k 14) (N.lor (d 14) (N.shiftr (k 31) 4)) (v 16) (v 9);
    mk31 (k 15) (N.lor (d 15) (N.land (k 31) 0x0F)) (k 30) (k 29) ]%nat.
Definition zuc256_init (K IV : list N) : zuc_state := zuc_start (zuc256_load K IV 0).

(* ZUC-256 MAC: T and K0 are n = macbits/32 words *)
Record z256mac_ctx := mkZ6 { z6_s : zuc_state; z6_T : list N; z6_K0 : list N; z6_buf : list N; z6_n : nat }.
Definition zuc256_mac_init (K IV : list N) (macbits : nat) : z256mac_ctx :=
  let mb := if (macbits <? 32)%nat then 32%nat else if (64 <? macbits)%nat then 128%nat else macbits in
  let n := (mb / 32)%nat in
  let s := zuc_start (zuc256_load K IV mb) in
  let '(s1, T) := zuc_keystream n s in
  let '(s2, K0) := zuc_keystream n s1 in
  mkZ6 s2 T K0 [] n.
(* K0 <<= 1 across the word vector, shifting in the top bit of K1 *)
Fixpoint shl_words (ws : list N) (carry_in : N) : list N :=
  match ws with
  | [] => []
  | [w] => [w32 (N.lor (N.shiftl w 1) carry_in)]
  | w :: ((w2 :: _) as r) => w32 (N.lor (N.shiftl w 1) (N.shiftr w2 31)) :: shl_words r carry_in
  end.
Definition xor_words (a b : list N) : list N := map (fun p => N.lxor (fst p) (snd p)) (combine a b).
Fixpoint mac256_bits (n : nat) (M : N) (T K0 : list N) (K1 : N) : list N * list N :=
  match n with
  | O => (T, K0)
  | S k =>
    let T' := if N.testbit M 31 then xor_words T K0 else T in
    mac256_bits k (w32 (N.shiftl M 1)) T' (shl_words K0 (N.shiftr K1 31)) (w32 (N.shiftl K1 1))
  end.
Definition mac256_word (c : z256mac_ctx) (M : N) (nbits : nat) : z256mac_ctx :=
  let '(s, k1) := zuc_keyword (z6_s c) in
  let '(T, K0) := mac256_bits nbits M (z6_T c) (z6_K0 c) k1 in
  mkZ6 s T K0 (z6_buf c) (z6_n c).
Fixpoint mac256_words (fuel : nat) (c : z256mac_ctx) (d : list N) : z256mac_ctx * list N :=
  match fuel with
  | O => (c, d)
  | S f => if (4 <=? length d)%nat then mac256_words f (mac256_word c (get_be32 d) 32) (skipn 4 d) else (c, d)
  end.
Definition zuc256_mac_update (c : z256mac_ctx) (d : list N) : z256mac_ctx :=
  match d with
  | [] => c
  | _ =>
    let all := z6_buf c ++ d in
    let '(c', rest) := mac256_words (length all) c all in
    mkZ6 (z6_s c') (z6_T c') (z6_K0 c') rest (z6_n c')
  end.
Definition zuc256_mac_finish (c : z256mac_ctx) (d : list N) (nbits : nat) : list N :=
  let c := if (8 <=? nbits)%nat then zuc256_mac_update c (firstn (nbits / 8) d) else c in
  let last := skipn (nbits / 8) d in
  let nb := (nbits mod 8)%nat in
  let buf := if (nb =? 0)%nat then z6_buf c else z6_buf c ++ firstn 1 last in
  let blen := length (z6_buf c) in
  let c := if ((blen =? 0) && (nb =? 0))%nat then c
           else mac256_word c (get_be32 (buf ++ zeros 4)) (blen * 8 + nb) in
  flat_map be32 (xor_words (z6_T c) (z6_K0 c)).

(* ---------- standard vectors ---------- *)
Definition rep (n : nat) (b : N) : list N := repeat b n.
(* GB/T 33133.1 / 3GPP ZUC test vectors 1 and 2 *)
Example zuc_vector_1 : snd (zuc_keystream 2 (zuc_init (rep 16 0) (rep 16 0))) = [0x27bede74; 0x018082da].
Proof. vm_compute. reflexivity. Qed.
Example zuc_vector_2 : snd (zuc_keystream 2 (zuc_init (rep 16 255) (rep 16 255))) = [0x0657cfa0; 0x7096398b].
Proof. vm_compute. reflexivity. Qed.
(* ZUC-256 draft, all-zero key and IV *)
Example zuc256_vector : snd (zuc_keystream 2 (zuc256_init (rep 32 0) (rep 23 0))) = [0x58d03ad6; 0x2e032ce2].
Proof. vm_compute. reflexivity. Qed.
(* 128-EIA3 test set 1, through the code path and through the bit-level Spec *)
Example eia3_vector :
  zuc_eia_generate_mac [0;0;0;0] 1 (rep 16 0) 0 0 0 = [0xc8; 0xa9; 0x59; 0x5e] /\
  eia3_spec [0;0;0;0] 1 (rep 16 0) 0 0 0 = [0xc8; 0xa9; 0x59; 0x5e].
Proof. vm_compute. split; reflexivity. Qed.
(* ZUC-256 32-bit MAC of 400 zero bits under the all-zero key/IV *)
Example zuc256_mac_vector :
  zuc256_mac_finish (zuc256_mac_init (rep 32 0) (rep 23 0) 32) (rep 50 0) 400 = [0x9b; 0x97; 0x2a; 0x74].
Proof. vm_compute. reflexivity. Qed.
