(* Bit-level toolkit for the cipher proofs: testbit characterisations of the
   word/byte operations of Base/Bytes.v, ranges, big-endian repacking. *)
From GmVerif Require Import Base.ListX Base.Bytes Cipher.Modes.
From Coq Require Import ZifyN ZifyNat ZifyBool.
Local Open Scope N_scope.
Ltac Zify.zify_post_hook ::= Z.div_mod_to_equations.

Lemma testbit_small b k m : b < 2^k -> k <= m -> N.testbit b m = false.
Proof.
  intros H1 H2. destruct (N.eq_dec b 0) as [->|Hb]; [apply N.bits_0|].
  apply N.bits_above_log2. apply N.log2_lt_pow2 in H1; lia.
Qed.

Lemma ones_bit k i : N.testbit (N.ones k) i = (i <? k).
Proof.
  destruct (N.ltb_spec i k); [apply N.ones_spec_low | apply N.ones_spec_high]; assumption.
Qed.

Lemma w32_bit x i : N.testbit (w32 x) i = N.testbit x i && (i <? 32).
Proof. unfold w32. change mask32 with (N.ones 32). rewrite N.land_spec, ones_bit. reflexivity. Qed.
Lemma w8_bit x i : N.testbit (w8 x) i = N.testbit x i && (i <? 8).
Proof. unfold w8. change 255 with (N.ones 8). rewrite N.land_spec, ones_bit. reflexivity. Qed.

Lemma shl_bit a k j : N.testbit (N.shiftl a k) j = (k <=? j) && N.testbit a (j - k).
Proof.
  destruct (N.leb_spec k j).
  - rewrite N.shiftl_spec_high' by assumption. reflexivity.
  - rewrite N.shiftl_spec_low by assumption. reflexivity.
Qed.

Lemma w32_mod x : w32 x = x mod 2^32.
Proof. unfold w32. change mask32 with (N.ones 32). apply N.land_ones. Qed.
Lemma w8_mod' x : w8 x = x mod 2^8.
Proof. unfold w8. change 255 with (N.ones 8). apply N.land_ones. Qed.
Lemma w32_lt x : w32 x < 2^32.
Proof. rewrite w32_mod. apply N.mod_lt. discriminate. Qed.
Lemma w8_lt x : w8 x < 256.
Proof. rewrite w8_mod'. apply N.mod_lt. discriminate. Qed.
Lemma w32_id x : x < 2^32 -> w32 x = x.
Proof. intros H. rewrite w32_mod. apply N.mod_small. exact H. Qed.
Lemma w8_id x : x < 256 -> w8 x = x.
Proof. intros H. rewrite w8_mod'. apply N.mod_small. exact H. Qed.

Lemma lxor_lt a b k : a < 2^k -> b < 2^k -> N.lxor a b < 2^k.
Proof.
  intros Ha Hb.
  destruct (N.eq_dec (N.lxor a b) 0) as [->|Hx]; [lia|].
  apply N.log2_lt_pow2; [lia|].
  pose proof (N.log2_lxor a b) as Hl.
  destruct (N.eq_dec a 0) as [->|Ha0].
  - rewrite N.lxor_0_l in *. apply N.log2_lt_pow2; lia.
  - destruct (N.eq_dec b 0) as [->|Hb0].
    + rewrite N.lxor_0_r in *. apply N.log2_lt_pow2; lia.
    + apply N.log2_lt_pow2 in Ha; [|lia]. apply N.log2_lt_pow2 in Hb; [|lia]. lia.
Qed.

Lemma lor_lt a b k : a < 2^k -> b < 2^k -> N.lor a b < 2^k.
Proof.
  intros Ha Hb.
  destruct (N.eq_dec (N.lor a b) 0) as [->|Hx]; [lia|].
  apply N.log2_lt_pow2; [lia|].
  rewrite N.log2_lor.
  destruct (N.eq_dec a 0) as [->|Ha0].
  - change (N.log2 0) with 0. rewrite N.max_0_l.
    destruct (N.eq_dec b 0) as [->|Hb0]; [rewrite N.lor_0_l in Hx; lia|].
    apply N.log2_lt_pow2; lia.
  - destruct (N.eq_dec b 0) as [->|Hb0].
    + change (N.log2 0) with 0. rewrite N.max_0_r. apply N.log2_lt_pow2; lia.
    + apply N.log2_lt_pow2 in Ha; [|lia]. apply N.log2_lt_pow2 in Hb; [|lia]. lia.
Qed.

(* ---------- big-endian 32-bit repacking ---------- *)
Lemma get_be32_be32 x l : get_be32 (be32 x ++ l) = w32 x.
Proof.
  unfold be32. cbn [app get_be32].
  apply N.bits_inj. intros i.
  rewrite !N.lor_spec, !shl_bit, !w8_bit, !N.shiftr_spec', w32_bit.
  destruct (N.leb_spec 24 i); [replace (i - 24 + 24) with i by lia|];
  (destruct (N.leb_spec 16 i); [replace (i - 16 + 16) with i by lia|]);
  (destruct (N.leb_spec 8 i); [replace (i - 8 + 8) with i by lia|]);
  destruct (N.testbit x i); cbn [andb orb]; lia.
Qed.

Lemma get_be32_lt a b c d l : a < 256 -> b < 256 -> c < 256 -> d < 256 ->
  get_be32 (a :: b :: c :: d :: l) < 2^32.
Proof.
  intros Ha Hb Hc Hd. cbn [get_be32].
  rewrite !N.shiftl_mul_pow2.
  assert (forall x y, x < 2^32 -> y < 2^32 -> N.lor x y < 2^32) as L by (intros; apply lor_lt; assumption).
  change (2^24) with 16777216. change (2^16) with 65536. change (2^8) with 256.
  change (2^32) with 4294967296 in *.
  repeat apply L; lia.
Qed.

Lemma be32_get_be32 a b c d l : a < 256 -> b < 256 -> c < 256 -> d < 256 ->
  be32 (get_be32 (a :: b :: c :: d :: l)) = [a; b; c; d].
Proof.
  intros Ha Hb Hc Hd. unfold be32. cbn [get_be32].
  assert (T : forall v j, v < 256 -> 8 <= j -> N.testbit v j = false)
    by (intros v j Hv Hj; apply (testbit_small v 8); [exact Hv | exact Hj]).
  f_equal; [|f_equal; [|f_equal; [|f_equal]]];
  apply N.bits_inj; intros i;
  rewrite w8_bit, ?N.shiftr_spec', !N.lor_spec, !shl_bit;
  (destruct (N.ltb_spec i 8);
   [| rewrite andb_false_r; symmetry; apply T; assumption]);
  rewrite andb_true_r.
  - replace (24 <=? i + 24) with true by lia. replace (i + 24 - 24) with i by lia.
    rewrite (T b), (T c), (T d) by lia. rewrite !andb_false_r, !orb_false_r. reflexivity.
  - replace (24 <=? i + 16) with false by lia. replace (16 <=? i + 16) with true by lia.
    replace (i + 16 - 16) with i by lia.
    rewrite (T c), (T d) by lia. rewrite !andb_false_r, !orb_false_r. reflexivity.
  - replace (24 <=? i + 8) with false by lia. replace (16 <=? i + 8) with false by lia.
    replace (8 <=? i + 8) with true by lia. replace (i + 8 - 8) with i by lia.
    rewrite (T d) by lia. cbn [andb orb]. rewrite ?andb_false_r, ?orb_false_r. reflexivity.
  - replace (24 <=? i) with false by lia. replace (16 <=? i) with false by lia.
    replace (8 <=? i) with false by lia. cbn [andb orb]. reflexivity.
Qed.

(* ---------- bytes_ok ---------- *)
Lemma bytes_ok_app a b : bytes_ok (a ++ b) = bytes_ok a && bytes_ok b.
Proof. apply forallb_app. Qed.
Lemma bytes_ok_cons x l : bytes_ok (x :: l) = (x <? 256) && bytes_ok l.
Proof. reflexivity. Qed.
Lemma bytes_ok_be32 x : bytes_ok (be32 x) = true.
Proof.
  unfold be32. cbn [bytes_ok forallb].
  repeat match goal with |- context [w8 ?v <? 256] => replace (w8 v <? 256) with true by (pose proof (w8_lt v); lia) end.
  reflexivity.
Qed.
Lemma bytes_ok_firstn n l : bytes_ok l = true -> bytes_ok (firstn n l) = true.
Proof.
  unfold bytes_ok. rewrite !forallb_forall. intros H x Hx. apply H.
  rewrite <- (firstn_skipn n l). apply in_or_app. left. exact Hx.
Qed.
Lemma bytes_ok_skipn n l : bytes_ok l = true -> bytes_ok (skipn n l) = true.
Proof.
  unfold bytes_ok. rewrite !forallb_forall. intros H x Hx. apply H.
  rewrite <- (firstn_skipn n l). apply in_or_app. right. exact Hx.
Qed.

(* ---------- xor of byte strings ---------- *)
Lemma xor_bytes_length a b : length (xor_bytes a b) = Nat.min (length a) (length b).
Proof. unfold xor_bytes. rewrite map_length, combine_length. reflexivity. Qed.

Lemma xor_bytes_cons x a y b : xor_bytes (x :: a) (y :: b) = N.lxor x y :: xor_bytes a b.
Proof. reflexivity. Qed.
Lemma xor_bytes_nil_l b : xor_bytes [] b = [].
Proof. reflexivity. Qed.
Lemma xor_bytes_nil_r a : xor_bytes a [] = [].
Proof. destruct a; reflexivity. Qed.

Lemma xor_bytes_ok a b : bytes_ok a = true -> bytes_ok b = true -> bytes_ok (xor_bytes a b) = true.
Proof.
  revert b; induction a as [|x a IH]; intros [|y b] Ha Hb; try reflexivity.
  rewrite xor_bytes_cons, bytes_ok_cons. rewrite bytes_ok_cons in Ha, Hb.
  apply andb_true_iff in Ha, Hb. destruct Ha as [Hx Ha], Hb as [Hy Hb].
  rewrite IH by assumption. rewrite andb_true_r.
  apply N.ltb_lt in Hx, Hy. apply N.ltb_lt. change 256 with (2^8). apply lxor_lt; assumption.
Qed.

(* (a xor b) xor b = a when b is at least as long as a *)
Lemma xor_bytes_cancel_r a b : (length a <= length b)%nat ->
  xor_bytes (xor_bytes a b) b = a.
Proof.
  revert b; induction a as [|x a IH]; intros [|y b] H; cbn [length] in H; try reflexivity; try lia.
  rewrite !xor_bytes_cons. rewrite IH by lia.
  rewrite N.lxor_assoc, N.lxor_nilpotent, N.lxor_0_r. reflexivity.
Qed.

Lemma xor_bytes_comm a b : xor_bytes a b = xor_bytes b a.
Proof.
  revert b; induction a as [|x a IH]; intros [|y b]; try reflexivity.
  rewrite !xor_bytes_cons, IH, N.lxor_comm. reflexivity.
Qed.

Lemma xor_bytes_app a1 a2 b1 b2 : length a1 = length b1 ->
  xor_bytes (a1 ++ a2) (b1 ++ b2) = xor_bytes a1 b1 ++ xor_bytes a2 b2.
Proof.
  revert b1; induction a1 as [|x a IH]; intros [|y b] H; cbn [length] in H; try discriminate.
  - reflexivity.
  - cbn [app]. rewrite !xor_bytes_cons. cbn [app]. rewrite IH by lia. reflexivity.
Qed.

Lemma xor_bytes_firstn n a b : xor_bytes (firstn n a) b = firstn n (xor_bytes a b).
Proof.
  revert a b; induction n as [|n IH]; intros a b; [reflexivity|].
  destruct a as [|x a]; [reflexivity|]. destruct b as [|y b].
  - cbn [firstn]. rewrite !xor_bytes_nil_r. reflexivity.
  - cbn [firstn]. rewrite !xor_bytes_cons. cbn [firstn]. rewrite IH. reflexivity.
Qed.

(* ---------- big-endian integers of byte strings (be_to_N / N_to_be) ---------- *)
Lemma be_to_N_acc_app acc a b : be_to_N_acc acc (a ++ b) = be_to_N_acc (be_to_N_acc acc a) b.
Proof. revert acc; induction a as [|x a IH]; intros acc; cbn [app be_to_N_acc]; [reflexivity | apply IH]. Qed.

Lemma be_to_N_acc_spec l : forall acc, be_to_N_acc acc l = acc * 256 ^ N.of_nat (length l) + be_to_N l.
Proof.
  unfold be_to_N. induction l as [|b r IH]; intros acc; cbn [be_to_N_acc length].
  - cbn. lia.
  - rewrite (IH (acc * 256 + b)), (IH (0 * 256 + b)).
    rewrite Nat2N.inj_succ, N.pow_succ_r'. lia.
Qed.

Lemma be_to_N_app a b : be_to_N (a ++ b) = be_to_N a * 256 ^ N.of_nat (length b) + be_to_N b.
Proof. unfold be_to_N at 1. rewrite be_to_N_acc_app. apply be_to_N_acc_spec. Qed.

Lemma be_to_N_cons x r : be_to_N (x :: r) = x * 256 ^ N.of_nat (length r) + be_to_N r.
Proof. change (x :: r) with ([x] ++ r). rewrite be_to_N_app. cbn. lia. Qed.

Lemma be_to_N_lt l : bytes_ok l = true -> be_to_N l < 256 ^ N.of_nat (length l).
Proof.
  induction l as [|x r IH]; intros H.
  - cbn. lia.
  - rewrite bytes_ok_cons in H. apply andb_true_iff in H. destruct H as [Hx Hr].
    apply N.ltb_lt in Hx. specialize (IH Hr).
    rewrite be_to_N_cons. cbn [length]. rewrite Nat2N.inj_succ, N.pow_succ_r'. nia.
Qed.

Lemma N_to_be_length n : forall x, length (N_to_be n x) = n.
Proof. induction n as [|n IH]; intros x; cbn [N_to_be]; [reflexivity|]. rewrite app_length, IH. cbn. lia. Qed.

Lemma N_to_be_ok n : forall x, bytes_ok (N_to_be n x) = true.
Proof.
  induction n as [|n IH]; intros x; cbn [N_to_be]; [reflexivity|].
  rewrite bytes_ok_app, IH. cbn [bytes_ok forallb andb].
  assert (x mod 256 < 256) by (apply N.mod_lt; discriminate).
  replace (x mod 256 <? 256) with true by lia. reflexivity.
Qed.

Lemma be_to_N_N_to_be n : forall x, be_to_N (N_to_be n x) = x mod 256 ^ N.of_nat n.
Proof.
  induction n as [|n IH]; intros x; cbn [N_to_be].
  - cbn. rewrite N.mod_1_r. reflexivity.
  - rewrite be_to_N_app, IH. cbn [length]. change (be_to_N [x mod 256]) with (x mod 256).
    change (256 ^ N.of_nat 1) with 256. rewrite Nat2N.inj_succ, N.pow_succ_r'.
    rewrite (N.mod_mul_r x 256 (256 ^ N.of_nat n)) by (try apply N.pow_nonzero; discriminate). lia.
Qed.

Lemma N_to_be_be_to_N l : bytes_ok l = true -> N_to_be (length l) (be_to_N l) = l.
Proof.
  induction l as [|b l IH] using rev_ind; intros H; [reflexivity|].
  rewrite bytes_ok_app in H. apply andb_true_iff in H. destruct H as [Hl Hb].
  cbn [bytes_ok forallb] in Hb. rewrite andb_true_r in Hb. apply N.ltb_lt in Hb.
  rewrite app_length. cbn [length]. rewrite Nat.add_1_r. cbn [N_to_be].
  rewrite be_to_N_app. cbn [length]. change (256 ^ N.of_nat 1) with 256. change (be_to_N [b]) with b.
  replace ((be_to_N l * 256 + b) / 256) with (be_to_N l) by (apply N.div_unique with b; lia).
  replace ((be_to_N l * 256 + b) mod 256) with b by (apply N.mod_unique with (be_to_N l); lia).
  rewrite IH by exact Hl. reflexivity.
Qed.

Lemma N_to_be_mod n x : N_to_be n (x mod 256 ^ N.of_nat n) = N_to_be n x.
Proof.
  rewrite <- be_to_N_N_to_be.
  rewrite <- (N_to_be_length n x) at 1. apply N_to_be_be_to_N, N_to_be_ok.
Qed.

Lemma N_to_be_app m n : forall x,
  N_to_be (m + n) x = N_to_be m (x / 256 ^ N.of_nat n) ++ N_to_be n x.
Proof.
  induction n as [|n IH]; intros x.
  - rewrite Nat.add_0_r. cbn [N_to_be]. change (256 ^ N.of_nat 0) with 1. rewrite N.div_1_r, app_nil_r. reflexivity.
  - rewrite Nat.add_succ_r. cbn [N_to_be]. rewrite IH, <- app_assoc.
    rewrite N.div_div by (try apply N.pow_nonzero; discriminate).
    rewrite Nat2N.inj_succ, N.pow_succ_r'. reflexivity.
Qed.

(* byte-wise increment from the last byte (ctr_incr of the small-footprint build) *)
Lemma incr_be_spec l : bytes_ok l = true ->
  let '(r, c) := Modes.incr_be l in
  length r = length l /\ bytes_ok r = true /\
  be_to_N r = (be_to_N l + 1) mod 256 ^ N.of_nat (length l) /\
  (c = true <-> be_to_N l + 1 = 256 ^ N.of_nat (length l)).
Proof.
  induction l as [|b l IH]; intros H.
  - cbn. repeat split; auto.
  - rewrite bytes_ok_cons in H. apply andb_true_iff in H. destruct H as [Hb Hl]. apply N.ltb_lt in Hb.
    specialize (IH Hl). cbn [Modes.incr_be]. destruct (Modes.incr_be l) as [r c].
    destruct IH as (L & O & V & C).
    pose proof (be_to_N_lt l Hl) as Hlt.
    set (P := 256 ^ N.of_nat (length l)) in *.
    assert (HP : 0 < P) by (apply N.neq_0_lt_0, N.pow_nonzero; discriminate).
    destruct c.
    + assert (Hw : be_to_N l + 1 = P) by (apply C; reflexivity).
      assert (Hr0 : be_to_N r = 0) by (rewrite V, Hw; apply N.mod_same; lia).
      cbn [length]. rewrite L. split; [reflexivity|].
      assert ((b + 1) mod 256 < 256) by (apply N.mod_lt; discriminate).
      split; [rewrite bytes_ok_cons, O; replace ((b + 1) mod 256 <? 256) with true by lia; reflexivity|].
      rewrite !be_to_N_cons, L, Hr0. fold P.
      rewrite Nat2N.inj_succ, N.pow_succ_r'. fold P.
      destruct (N.eq_dec b 255) as [->|Hne].
      * change ((255 + 1) mod 256) with 0. split.
        -- replace (255 * P + be_to_N l + 1) with (256 * P) by lia. rewrite N.mod_same by lia. lia.
        -- split; [intros _; lia | intros _; reflexivity].
      * rewrite (N.mod_small (b + 1) 256) by lia. split.
        -- rewrite N.mod_small by nia. lia.
        -- replace (b + 1 =? 0) with false by lia. split; [discriminate | intros; nia].
    + assert (Hnw : be_to_N l + 1 <> P) by (intros He; apply C in He; discriminate).
      cbn [length]. rewrite L. split; [reflexivity|].
      split; [rewrite bytes_ok_cons, O; replace (b <? 256) with true by lia; reflexivity|].
      rewrite !be_to_N_cons, L, V. fold P.
      rewrite Nat2N.inj_succ, N.pow_succ_r'. fold P.
      rewrite (N.mod_small (be_to_N l + 1) P) by lia.
      split; [rewrite N.mod_small by nia; lia | split; [discriminate | intros; nia]].
Qed.
