(* Proofs about the tag-window streaming decryptor (GCM.v, Section TagWindow), for every
   chunking: the held-back window is exactly the last min(taglen, seen) bytes, everything before
   it has been absorbed by the inner engine, and the final verdict is the decision rule
   "recomputed tag = window".  No cryptographic assumption is used in this file. *)
From GmVerif Require Import Base.ListX Base.Bytes Cipher.GF128 Cipher.GCM.
Require Import Lia ZifyN ZifyNat ZifyBool.
Local Open Scope nat_scope.

Lemma bytes_eqb_eq (a b : list N) : bytes_eqb a b = true <-> a = b.
Proof.
  unfold bytes_eqb. split.
  - intros H. apply andb_prop in H. destruct H as [Hl Hc].
    apply Nat.eqb_eq in Hl. revert b Hl Hc.
    induction a as [|x a IH]; intros [|y b] Hl Hc; cbn in *; try discriminate; [reflexivity|].
    apply andb_prop in Hc. destruct Hc as [Hxy Hc]. apply N.eqb_eq in Hxy. subst y.
    f_equal. apply IH; [lia|exact Hc].
  - intros ->. rewrite Nat.eqb_refl. cbn.
    induction b as [|y b IH]; cbn; [reflexivity|]. rewrite N.eqb_refl. exact IH.
Qed.

Lemma bytes_eqb_neq (a b : list N) : bytes_eqb a b = false <-> a <> b.
Proof.
  split.
  - intros H E. apply bytes_eqb_eq in E. congruence.
  - intros H. destruct (bytes_eqb a b) eqn:E; [|reflexivity]. apply bytes_eqb_eq in E. contradiction.
Qed.

Section WindowGuard.
  Variable St : Type.
  Variable absorb : St -> list N -> St * list N.
  Variable guard : N -> nat -> bool.
  Variable taglen : nat.
  Notation w_update := (w_update St absorb guard taglen).
  Notation w_run := (w_run St absorb guard taglen).

  (* ---- the run can only stop on the admission guard ---- *)
  Lemma update_ok st cnt win d :
    length win <= taglen -> guard cnt (length d) = true ->
    exists st' cnt' win' o, w_update (st, cnt, win) d = Ok ((st', cnt', win'), o) /\
      (cnt' <= cnt + N.of_nat (length d))%N /\ length win' <= taglen.
  Proof.
    intros Hw Hg. unfold GCM.w_update. rewrite Hg. cbn [negb].
    replace (taglen <? length win) with false by (symmetry; apply Nat.ltb_ge; exact Hw).
    destruct ((length win <? taglen) && (length d <=? taglen - length win)) eqn:Hfill.
    - apply andb_prop in Hfill. destruct Hfill as [H1 H2]. apply Nat.leb_le in H2.
      do 4 eexists. split; [reflexivity|]. split; [lia|]. rewrite app_length. lia.
    - set (need := taglen - length win) in *.
      assert (Hneed : need <= length d).
      { apply andb_false_iff in Hfill. destruct Hfill as [H|H].
        - apply Nat.ltb_ge in H. unfold need. lia.
        - apply Nat.leb_gt in H. lia. }
      assert (Hw2 : length (win ++ firstn need d) = taglen).
      { rewrite app_length, firstn_length_le by exact Hneed. unfold need. lia. }
      assert (Hd' : length (skipn need d) = length d - need) by apply skipn_length.
      destruct (length (skipn need d) <=? taglen) eqn:Hsl.
      + apply Nat.leb_le in Hsl.
        destruct (absorb st (firstn (length (skipn need d)) (win ++ firstn need d))) as [s' o'].
        do 4 eexists. split; [reflexivity|]. split; [lia|].
        rewrite app_length, skipn_length, Hw2. lia.
      + apply Nat.leb_gt in Hsl.
        destruct (absorb st (win ++ firstn need d)) as [s1 o1].
        destruct (absorb s1 (firstn (length (skipn need d) - taglen) (skipn need d))) as [s2 o2].
        do 4 eexists. split; [reflexivity|]. split; [lia|].
        rewrite skipn_length. lia.
  Qed.

  Variable bound : N.
  Hypothesis guard_ok : forall cnt n, (cnt + N.of_nat n <= bound)%N -> guard cnt n = true.

  Lemma run_ok_gen chunks : forall st cnt win acc,
    length win <= taglen -> (cnt + N.of_nat (length (concat chunks)) <= bound)%N ->
    exists c out, w_run (st, cnt, win) chunks acc = Ok (c, out).
  Proof.
    induction chunks as [|d r IH]; intros st cnt win acc Hw Hb; cbn [GCM.w_run concat] in *.
    - eexists; eexists; reflexivity.
    - rewrite app_length in Hb.
      destruct (update_ok st cnt win d Hw) as (st' & cnt' & win' & o & HU & Hc & Hw').
      { apply guard_ok. lia. }
      rewrite HU. apply IH; [exact Hw'|lia].
  Qed.

  Theorem run_ok st0 chunks : (N.of_nat (length (concat chunks)) <= bound)%N ->
    exists c out, w_run (st0, 0%N, []) chunks [] = Ok (c, out).
  Proof. intros H. apply run_ok_gen; cbn [length]; lia. Qed.

End WindowGuard.

Section WindowProofs.
  Variable St : Type.
  Variable absorb : St -> list N -> St * list N.
  Variable guard : N -> nat -> bool.
  Variable taglen : nat.
  Variable tagof : St -> list N.
  Variable tail : St -> res (list N).
  Variable st0 : St.

  (* the engine is a monoid action on the states reachable from st0 *)
  Hypothesis absorb_nil : absorb st0 [] = (st0, []).
  Hypothesis absorb_app : forall a b,
    absorb st0 (a ++ b) =
    let '(s1, o1) := absorb st0 a in let '(s2, o2) := absorb s1 b in (s2, o1 ++ o2).

  Notation w_update := (w_update St absorb guard taglen).
  Notation w_run := (w_run St absorb guard taglen).
  Notation w_finish := (w_finish St taglen tagof tail).
  Notation w_decrypt := (w_decrypt St absorb guard taglen tagof tail).

  (* after the bytes [seen]: the first |seen| - taglen of them are absorbed, the rest is the window *)
  Definition Inv (c : wctx St) (acc seen : list N) : Prop :=
    let '(st, _, win) := c in
    let k := length seen - taglen in
    (st, acc) = absorb st0 (firstn k seen) /\ win = skipn k seen.

  Lemma Inv_win_len st cnt win acc seen : Inv (st, cnt, win) acc seen ->
    length win = Nat.min (length seen) taglen.
  Proof. intros [_ ->]. rewrite skipn_length. lia. Qed.

  Lemma Inv_init cnt : Inv (st0, cnt, []) [] [].
  Proof. cbn. rewrite absorb_nil. split; reflexivity. Qed.

  Lemma absorb_step st acc x y s' o :
    (st, acc) = absorb st0 x -> absorb st y = (s', o) -> (s', acc ++ o) = absorb st0 (x ++ y).
  Proof. intros H1 H2. rewrite absorb_app, <- H1, H2. reflexivity. Qed.

  Lemma step_inv c acc seen d c' o :
    Inv c acc seen -> w_update c d = Ok (c', o) -> Inv c' (acc ++ o) (seen ++ d).
  Proof.
    destruct c as [[st cnt] win]. intros HI HU.
    pose proof (Inv_win_len _ _ _ _ _ HI) as Hwl.
    destruct HI as [Habs Hwin].
    unfold GCM.w_update in HU.
    destruct (negb (guard cnt (length d))); [discriminate|].
    destruct (taglen <? length win) eqn:Hgt; [discriminate|]. apply Nat.ltb_ge in Hgt.
    destruct ((length win <? taglen) && (length d <=? taglen - length win)) eqn:Hfill.
    - (* fill only *)
      inversion HU; subst c' o; clear HU.
      apply andb_prop in Hfill. destruct Hfill as [H1 H2].
      apply Nat.ltb_lt in H1. apply Nat.leb_le in H2.
      assert (Hs : length seen < taglen) by lia.
      unfold Inv. rewrite app_length.
      replace (length seen + length d - taglen) with 0 by lia.
      replace (length seen - taglen) with 0 in * by lia.
      cbn [firstn skipn] in *. rewrite app_nil_r. subst win. split; [exact Habs|reflexivity].
    - (* window full after taking [need] bytes *)
      set (need := taglen - length win) in *.
      set (k := length seen - taglen) in *.
      set (win2 := win ++ firstn need d) in *.
      set (d' := skipn need d) in *.
      assert (Hneed : need <= length d).
      { apply andb_false_iff in Hfill. destruct Hfill as [H|H].
        - apply Nat.ltb_ge in H. unfold need. lia.
        - apply Nat.leb_gt in H. lia. }
      assert (Hw2 : length win2 = taglen).
      { unfold win2. rewrite app_length, firstn_length_le by exact Hneed. unfold need. lia. }
      assert (Hseen : seen = firstn k seen ++ win) by (rewrite Hwin; symmetry; apply firstn_skipn).
      assert (Hk : length (firstn k seen) = k) by (apply firstn_length_le; unfold k; lia).
      assert (Hseen' : seen ++ d = firstn k seen ++ (win2 ++ d')).
      { unfold win2, d'. rewrite <- app_assoc, firstn_skipn. rewrite app_assoc, <- Hseen. reflexivity. }
      assert (Hd' : length d' = length d - need) by (unfold d'; apply skipn_length).
      assert (Hlen' : length (seen ++ d) - taglen = k + length d').
      { rewrite Hseen'. rewrite !app_length, Hk, Hw2. lia. }
      destruct (length d' <=? taglen) eqn:Hsl.
      + (* slide *)
        apply Nat.leb_le in Hsl.
        destruct (absorb st (firstn (length d') win2)) as [s' o'] eqn:Ea.
        inversion HU; subst c' o; clear HU.
        unfold Inv. rewrite Hlen'. rewrite Hseen' at 1 2.
        rewrite firstn_app, Hk. replace (k + length d' - k) with (length d') by lia.
        rewrite (firstn_all2 (firstn k seen)) by lia.
        rewrite skipn_app, Hk. replace (k + length d' - k) with (length d') by lia.
        rewrite (skipn_all2 (firstn k seen)) by lia. cbn [app].
        rewrite firstn_app, skipn_app.
        replace (length d' - length win2) with 0 by lia. cbn [firstn skipn]. rewrite app_nil_r.
        split; [|reflexivity].
        eapply absorb_step; eassumption.
      + (* bulk *)
        apply Nat.leb_gt in Hsl.
        destruct (absorb st win2) as [s1 o1] eqn:E1.
        destruct (absorb s1 (firstn (length d' - taglen) d')) as [s2 o2] eqn:E2.
        inversion HU; subst c' o; clear HU.
        unfold Inv. rewrite Hlen'. rewrite Hseen' at 1 2.
        rewrite firstn_app, Hk. replace (k + length d' - k) with (length d') by lia.
        rewrite (firstn_all2 (firstn k seen)) by lia.
        rewrite skipn_app, Hk. replace (k + length d' - k) with (length d') by lia.
        rewrite (skipn_all2 (firstn k seen)) by lia. cbn [app].
        rewrite firstn_app, skipn_app, Hw2.
        rewrite (firstn_all2 win2) by lia. rewrite (skipn_all2 win2) by lia. cbn [app].
        split; [|reflexivity].
        pose proof (absorb_step _ _ _ _ _ _ Habs E1) as H1.
        pose proof (absorb_step _ _ _ _ _ _ H1 E2) as H2.
        rewrite <- !app_assoc in H2. exact H2.
  Qed.

  Lemma run_inv chunks : forall c acc seen c' out,
    Inv c acc seen -> w_run c chunks acc = Ok (c', out) -> Inv c' out (seen ++ concat chunks).
  Proof.
    induction chunks as [|d r IH]; intros c acc seen c' out HI HR; cbn [GCM.w_run concat] in *.
    - inversion HR; subst. rewrite app_nil_r. exact HI.
    - destruct (w_update c d) as [[c1 o]| |] eqn:EU; try discriminate.
      rewrite app_assoc. eapply IH; [|exact HR]. eapply step_inv; eassumption.
  Qed.

  (* ---- stream_tag_window ---- *)
  Theorem stream_tag_window chunks st cnt win out :
    w_run (st0, 0%N, []) chunks [] = Ok ((st, cnt, win), out) ->
    let all := concat chunks in
    let k := length all - taglen in
    (st, out) = absorb st0 (firstn k all) /\ win = skipn k all /\
    length win = Nat.min (length all) taglen.
  Proof.
    intros HR. pose proof (run_inv _ _ _ _ _ _ (Inv_init 0%N) HR) as HI. cbn [app] in HI.
    split; [apply HI|]. split; [apply HI|]. eapply Inv_win_len; exact HI.
  Qed.

  (* ---- the decision rule, for every chunking ---- *)
  Theorem accept_iff_tag_stream chunks p :
    w_decrypt st0 chunks = Ok p <->
    (exists c out, w_run (st0, 0%N, []) chunks [] = Ok (c, out)) /\
    let all := concat chunks in
    taglen <= length all /\
    let ct := firstn (length all - taglen) all in
    let tag := skipn (length all - taglen) all in
    let '(st, out) := absorb st0 ct in
    exists t, tail st = Ok t /\ tagof st = tag /\ p = out ++ t.
  Proof.
    unfold GCM.w_decrypt. split.
    - destruct (w_run (st0, 0%N, []) chunks []) as [[[[st cnt] win] out]| |] eqn:ER; try discriminate.
      pose proof (stream_tag_window _ _ _ _ _ ER) as [Habs [Hwin Hlen]]. cbn zeta in *.
      unfold GCM.w_finish.
      destruct (negb (length win =? taglen)) eqn:Hl; [discriminate|].
      apply negb_false_iff, Nat.eqb_eq in Hl.
      destruct (tail st) as [t| |] eqn:Et; try discriminate.
      destruct (bytes_eqb (tagof st) win) eqn:Eb; [|discriminate].
      intros H; inversion H; subst p; clear H.
      apply bytes_eqb_eq in Eb.
      split; [eexists; eexists; reflexivity|].
      split; [lia|]. rewrite <- Habs. exists t. rewrite <- Hwin. auto.
    - intros [[c [out ER]] [Hlen H]]. cbn zeta in H. rewrite ER.
      destruct c as [[st cnt] win].
      pose proof (stream_tag_window _ _ _ _ _ ER) as [Habs [Hwin Hwl]]. cbn zeta in *.
      rewrite <- Habs in H. destruct H as [t [Et [Etag ->]]].
      unfold GCM.w_finish.
      replace (length win =? taglen) with true by (symmetry; apply Nat.eqb_eq; lia).
      cbn [negb]. rewrite Et.
      replace (bytes_eqb (tagof st) win) with true; [reflexivity|].
      symmetry. apply bytes_eqb_eq. congruence.
  Qed.

  (* ---- purely structural: fewer than taglen bytes seen => failure ---- *)
  Theorem truncated_below_taglen_rejected chunks :
    length (concat chunks) < taglen -> w_decrypt st0 chunks = Err.
  Proof.
    intros Hlt. destruct (w_decrypt st0 chunks) as [p| |] eqn:E; try reflexivity.
    - apply accept_iff_tag_stream in E. destruct E as [_ [H _]]. lia.
    - (* Fault is never produced by the window *)
      unfold GCM.w_decrypt in E.
      destruct (w_run (st0, 0%N, []) chunks []) as [[c o]| |]; try discriminate.
      destruct (w_finish c); discriminate.
  Qed.

  Lemma w_decrypt_no_fault chunks : w_decrypt st0 chunks <> Fault.
  Proof.
    unfold GCM.w_decrypt.
    destruct (w_run (st0, 0%N, []) chunks []) as [[c o]| |]; try discriminate.
    destruct (w_finish c); discriminate.
  Qed.

  (* ---- two streams with the same ciphertext part and different tags are not both accepted;
         in particular every bit flip inside the tag of an accepted stream is rejected ---- *)
  Theorem tag_change_rejected chunks chunks' p ct tag tag' :
    concat chunks = ct ++ tag -> concat chunks' = ct ++ tag' ->
    length tag = taglen -> length tag' = taglen -> tag <> tag' ->
    w_decrypt st0 chunks = Ok p -> w_decrypt st0 chunks' = Err.
  Proof.
    intros Hc Hc' Hl Hl' Hne Hok.
    destruct (w_decrypt st0 chunks') as [p'| |] eqn:E'; [|reflexivity|exfalso; eapply w_decrypt_no_fault; eassumption].
    exfalso.
    apply accept_iff_tag_stream in Hok. apply accept_iff_tag_stream in E'.
    destruct Hok as [_ [_ H]]. destruct E' as [_ [_ H']]. cbn zeta in *.
    rewrite Hc in H. rewrite Hc' in H'.
    rewrite !app_length in *. rewrite Hl in H. rewrite Hl' in H'.
    replace (length ct + taglen - taglen) with (length ct) in * by lia.
    rewrite firstn_app, skipn_app, Nat.sub_diag, firstn_all, skipn_all in H, H'.
    cbn [firstn skipn app] in *. rewrite app_nil_r in *.
    destruct (absorb st0 ct) as [st out].
    destruct H as [t [_ [Ht _]]]. destruct H' as [t' [_ [Ht' _]]]. congruence.
  Qed.
End WindowProofs.
