(* CCM over an abstract block function E: src/sm4_ccm.c (sm4_ccm_encrypt / sm4_ccm_decrypt,
   with src/sm4_cbc_mac.c as the MAC engine).

   Impl model : [ccm_encrypt], [ccm_decrypt] -- the code after commits 27e8567 (AAD padding
                `if ((alen + aadlen) % 16)`) and d8f414a (`(size_t)1 << (inlen_size*8)`).
                History: before them the encoded AAD was followed by [ccm_aad_pad_old] zero bytes (a
                whole extra block on a block boundary) and the decrypt length guard shifted an int
                ([ccm_dec_limit_old_x86]); see the Examples at the end of CCMProofs.v.
   Spec       : [ccm_spec_encrypt] RFC 3610 / SP 800-38C (B0, a-encoding, padding, A_i, S0). *)
From GmVerif Require Import Base.ListX Base.Bytes Cipher.GF128 Cipher.GCM.
Local Open Scope N_scope.

Section CCM.
  Variable E : list N -> list N.

  (* sm4_cbc_mac over the concatenation of all update calls: xor into the chaining block,
     encrypt when 16 bytes have been absorbed; finish encrypts a started block *)
  Fixpoint cbcmac (fuel : nat) (x d : list N) : list N :=
    match fuel with
    | O => x
    | S f => match d with
             | [] => x
             | _ => cbcmac f (E (xor_bytes x (pad16 (firstn 16 d)))) (skipn 16 d)
             end
    end.
  Definition cbc_mac (d : list N) : list N := cbcmac (length d) (zeros 16) d.

  Definition length_to_bytes (len : N) (nbytes : nat) : list N := N_to_be nbytes len.

  Definition ccm_b0 (iv : list N) (aadlen inlen : N) (taglen : nat) : list N :=
    let L := (15 - length iv)%nat in
    let flags := N.lor (N.lor (N.shiftl (if 0 <? aadlen then 1 else 0) 6)
                              (N.shiftl (N.land ((N.of_nat taglen - 2) / 2) 7) 3))
                       (N.land (N.of_nat L - 1) 7) in
    [flags] ++ iv ++ length_to_bytes inlen L.

  Definition ccm_aad_hdr (aadlen : N) : list N :=
    if aadlen <? 2^16 - 2^8 then length_to_bytes aadlen 2
    else if aadlen <? 2^32 then [0xff; 0xfe] ++ length_to_bytes aadlen 4
    else [0xff; 0xff] ++ length_to_bytes aadlen 8.

  (* number of zero bytes after the encoded AAD: if ((alen + aadlen) % 16) pad to the boundary *)
  Definition ccm_aad_pad (n : nat) : nat := ((16 - n mod 16) mod 16)%nat.

  Definition ccm_mac_input (iv aad p : list N) (taglen : nat) : list N :=
    let aadlen := N.of_nat (length aad) in
    ccm_b0 iv aadlen (N.of_nat (length p)) taglen
    ++ (match aad with
        | [] => []
        | _ => let a := ccm_aad_hdr aadlen ++ aad in a ++ zeros (ccm_aad_pad (length a))
        end)
    ++ p ++ zeros ((16 - length p mod 16) mod 16)%nat.

  Definition ccm_a0 (iv : list N) : list N :=
    [N.land (N.of_nat (15 - length iv) - 1) 7] ++ iv ++ zeros (15 - length iv).
  (* ctr[15] = 1 *)
  Definition ccm_a1 (iv : list N) : list N := firstn 15 (ccm_a0 iv) ++ [1].
  Definition ccm_ctr (iv d : list N) : list N :=
    ctr_crypt E (ctr_n_incr (15 - length iv)) (length d) (ccm_a1 iv) d.

  Definition ccm_args_ok (ivlen taglen : nat) : bool :=
    (7 <=? ivlen)%nat && (ivlen <=? 13)%nat &&
    (4 <=? taglen)%nat && (taglen <=? 16)%nat && Nat.even taglen.
  (* both directions: inlen_size < 8 && inlen >= (size_t)1 << (inlen_size*8) *)
  Definition ccm_len_ok (ivlen : nat) (inlen : N) : bool :=
    let L := (15 - ivlen)%nat in
    negb ((L <? 8)%nat && (2 ^ (8 * N.of_nat L) <=? inlen)).

  Definition ccm_tag16 (iv aad p : list N) (taglen : nat) : list N :=
    xor_bytes (cbc_mac (ccm_mac_input iv aad p taglen)) (E (ccm_a0 iv)).

  Definition ccm_encrypt (iv aad p : list N) (taglen : nat) : res (list N * list N) :=
    if negb (ccm_args_ok (length iv) taglen && ccm_len_ok (length iv) (N.of_nat (length p)))
    then Err
    else Ok (ccm_ctr iv p, firstn taglen (ccm_tag16 iv aad p taglen)).

  (* the plaintext is written to `out` before the tag is compared; the return value decides *)
  Definition ccm_decrypt (iv aad c tag : list N) : res (list N) :=
    let taglen := length tag in
    if negb (ccm_args_ok (length iv) taglen && ccm_len_ok (length iv) (N.of_nat (length c))) then Err
    else
      let p := ccm_ctr iv c in
      if bytes_eqb (firstn taglen (ccm_tag16 iv aad p taglen)) tag then Ok p else Err.

  (* ---------------- Spec: RFC 3610 section 2 ---------------- *)
  Definition spec_flags (adata : bool) (M L : nat) : N :=
    64 * (if adata then 1 else 0) + 8 * ((N.of_nat M - 2) / 2) + (N.of_nat L - 1).
  Definition spec_b0 (nonce : list N) (adata : bool) (M : nat) (mlen : N) : list N :=
    let L := (15 - length nonce)%nat in
    [spec_flags adata M L] ++ nonce ++ N_to_be L mlen.
  Definition spec_enc_a (alen : N) : list N :=
    if alen <? 2^16 - 2^8 then N_to_be 2 alen
    else if alen <? 2^32 then [0xff; 0xfe] ++ N_to_be 4 alen
    else [0xff; 0xff] ++ N_to_be 8 alen.
  Definition spec_blocks (nonce a m : list N) (M : nat) : list N :=
    spec_b0 nonce (negb (length a =? 0)%nat) M (N.of_nat (length m))
    ++ (if (length a =? 0)%nat then [] else pad_mult16 (spec_enc_a (N.of_nat (length a)) ++ a))
    ++ pad_mult16 m.
  Definition spec_Ai (nonce : list N) (i : N) : list N :=
    let L := (15 - length nonce)%nat in [N.of_nat L - 1] ++ nonce ++ N_to_be L i.
  Fixpoint spec_ctr (fuel : nat) (nonce : list N) (i : N) (d : list N) : list N :=
    match fuel with
    | O => []
    | S f => match d with
             | [] => []
             | _ => xor_bytes (firstn 16 d) (E (spec_Ai nonce i)) ++ spec_ctr f nonce (i + 1) (skipn 16 d)
             end
    end.
  Definition ccm_spec_encrypt (nonce a m : list N) (M : nat) : list N * list N :=
    let T := cbc_mac (spec_blocks nonce a m M) in
    (spec_ctr (length m) nonce 1 m, firstn M (xor_bytes T (E (spec_Ai nonce 0)))).
End CCM.

(* ---- history (the code before 27e8567 / d8f414a), kept for the record ---- *)
Definition ccm_aad_pad_old (n : nat) : nat := (16 - n mod 16)%nat.       (* `alen + aadlen % 16` was always true *)
Definition ccm_dec_limit_old_x86 (ivlen : nat) : N := 2 ^ ((8 * N.of_nat (15 - ivlen)) mod 32).  (* int shift, count mod 32 *)
