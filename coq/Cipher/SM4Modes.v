(* SM4 instances of the generic modes and the block_cipher.c dispatch table. *)
From GmVerif Require Import Base.ListX Base.Bytes Cipher.SM4 Cipher.SM4Tab Cipher.Modes.

(* block_cipher.c: BLOCK_CIPHER object = table of function pointers; a key object carries
   the round keys and the pointer to its cipher. *)
Record BLOCK_CIPHER := mkBC {
  bc_set_encrypt_key : list N -> list N;
  bc_set_decrypt_key : list N -> list N;
  bc_encrypt : list N -> list N -> list N;
  bc_decrypt : list N -> list N -> list N }.
Definition BLOCK_CIPHER_sm4 : BLOCK_CIPHER :=
  mkBC sm4_set_encrypt_key sm4_set_decrypt_key sm4_encrypt_tab sm4_encrypt_tab.
Definition BLOCK_CIPHER_KEY := (list N * BLOCK_CIPHER)%type.
Definition block_cipher_set_encrypt_key (c : BLOCK_CIPHER) (raw : list N) : BLOCK_CIPHER_KEY :=
  (bc_set_encrypt_key c raw, c).
Definition block_cipher_set_decrypt_key (c : BLOCK_CIPHER) (raw : list N) : BLOCK_CIPHER_KEY :=
  (bc_set_decrypt_key c raw, c).
Definition block_cipher_encrypt (k : BLOCK_CIPHER_KEY) (blk : list N) : list N :=
  bc_encrypt (snd k) (fst k) blk.
Definition block_cipher_decrypt (k : BLOCK_CIPHER_KEY) (blk : list N) : list N :=
  bc_decrypt (snd k) (fst k) blk.

(* the block functions the modes are instantiated with *)
Definition implE (key : list N) : list N -> list N :=
  let rk := sm4_set_encrypt_key key in fun blk => sm4_encrypt_tab rk blk.
Definition implD (key : list N) : list N -> list N :=
  let rk := sm4_set_decrypt_key key in fun blk => sm4_encrypt_tab rk blk.
Definition specE (key : list N) : list N -> list N :=
  let rk := sm4_key_schedule key in fun blk => sm4_crypt_block rk blk.
Definition specD (key : list N) : list N -> list N :=
  let rk := rev (sm4_key_schedule key) in fun blk => sm4_crypt_block rk blk.

(* block_cipher.c, aes128 object: set_*_key = aes_set_*_key with length 16 (their int result is
   discarded by the cast to a void function), encrypt = aes_encrypt, and -- as coded --
   decrypt = aes_encrypt as well (under the decryption key schedule). *)
From GmVerif Require Import Cipher.AES.
Definition aes_key_or_zero (k : option (list N * nat)) : list N * nat :=
  match k with Some x => x | None => ([], 0%nat) end.
Definition bc_aes128_set_encrypt_key (raw : list N) : list N * nat := aes_key_or_zero (aes_set_encrypt_key (firstn 16 raw)).
Definition bc_aes128_set_decrypt_key (raw : list N) : list N * nat := aes_key_or_zero (aes_set_decrypt_key (firstn 16 raw)).
Definition bc_aes128_encrypt (k : list N * nat) (blk : list N) : list N := aes_encrypt_rk (fst k) (snd k) blk.
(* (block_cipher_decrypt_func)aes_encrypt *)
Definition bc_aes128_decrypt (k : list N * nat) (blk : list N) : list N := aes_encrypt_rk (fst k) (snd k) blk.
