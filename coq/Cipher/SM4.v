(* SM4 (GB/T 32907-2016): key schedule, 32-round unbalanced Feistel, S-box.
   Spec form (the standard's T = L . tau); the table-driven form of src/sm4.c
   is compared with it by the C04 correspondence. *)
From GmVerif Require Import Base.ListX Base.Bytes.
Local Open Scope N_scope.

Definition sm4_sbox : list N := [214; 144; 233; 254; 204; 225; 61; 183; 22; 182; 20; 194; 40; 251; 44; 5; 43; 103; 154; 118; 42; 190; 4; 195; 170; 68; 19; 38; 73; 134; 6; 153; 156; 66; 80; 244; 145; 239; 152; 122; 51; 84; 11; 67; 237; 207; 172; 98; 228; 179; 28; 169; 201; 8; 232; 149; 128; 223; 148; 250; 117; 143; 63; 166; 71; 7; 167; 252; 243; 115; 23; 186; 131; 89; 60; 25; 230; 133; 79; 168; 104; 107; 129; 178; 113; 100; 218; 139; 248; 235; 15; 75; 112; 86; 157; 53; 30; 36; 14; 94; 99; 88; 209; 162; 37; 34; 124; 59; 1; 33; 120; 135; 212; 0; 70; 87; 159; 211; 39; 82; 76; 54; 2; 231; 160; 196; 200; 158; 234; 191; 138; 210; 64; 199; 56; 181; 163; 247; 242; 206; 249; 97; 21; 161; 224; 174; 93; 164; 155; 52; 26; 85; 173; 147; 50; 48; 245; 140; 177; 227; 29; 246; 226; 46; 130; 102; 202; 96; 192; 41; 35; 171; 13; 83; 78; 111; 213; 219; 55; 69; 222; 253; 142; 47; 3; 255; 106; 114; 109; 108; 91; 81; 141; 27; 175; 146; 187; 221; 188; 127; 17; 217; 92; 65; 31; 16; 90; 216; 10; 193; 49; 136; 165; 205; 123; 189; 45; 116; 208; 18; 184; 229; 180; 176; 137; 105; 151; 74; 12; 150; 119; 126; 101; 185; 241; 9; 197; 110; 198; 132; 24; 240; 125; 236; 58; 220; 77; 32; 121; 238; 95; 62; 215; 203; 57; 72].
Definition sbox (b : N) : N := nth (N.to_nat (w8 b)) sm4_sbox 0.

(* tau: byte-wise S-box on a 32-bit word *)
Definition tau (x : N) : N :=
  N.lor (N.lor (N.shiftl (sbox (N.shiftr x 24)) 24) (N.shiftl (sbox (N.shiftr x 16)) 16))
        (N.lor (N.shiftl (sbox (N.shiftr x 8)) 8) (sbox x)).
Definition Lenc (b : N) : N :=
  N.lxor (N.lxor (N.lxor (N.lxor b (rol32 b 2)) (rol32 b 10)) (rol32 b 18)) (rol32 b 24).
Definition Lkey (b : N) : N := N.lxor (N.lxor b (rol32 b 13)) (rol32 b 23).
Definition Tenc (x : N) : N := Lenc (tau x).
Definition Tkey (x : N) : N := Lkey (tau x).

Definition FK : list N := [0xa3b1bac6; 0x56aa3350; 0x677d9197; 0xb27022dc].
(* CK_i byte j = (4i+j)*7 mod 256 *)
Definition CKi (i : nat) : N :=
  let b j := (N.of_nat (4 * i + j) * 7) mod 256 in
  N.lor (N.lor (N.shiftl (b 0%nat) 24) (N.shiftl (b 1%nat) 16)) (N.lor (N.shiftl (b 2%nat) 8) (b 3%nat)).

(* key schedule: 32 round keys from a 16-byte key *)
Fixpoint ks_rounds (n : nat) (i : nat) (k0 k1 k2 k3 : N) : list N :=
  match n with
  | O => []
  | S m =>
    let rk := N.lxor k0 (Tkey (N.lxor (N.lxor (N.lxor k1 k2) k3) (CKi i))) in
    rk :: ks_rounds m (i + 1) k1 k2 k3 rk
  end.
Definition sm4_key_schedule (key : list N) : list N :=
  match words_be 4 key, FK with
  | [m0; m1; m2; m3], [f0; f1; f2; f3] =>
    ks_rounds 32 0 (N.lxor m0 f0) (N.lxor m1 f1) (N.lxor m2 f2) (N.lxor m3 f3)
  | _, _ => []
  end.

(* 32 rounds over the state (x0,x1,x2,x3) *)
Fixpoint sm4_rounds (rks : list N) (x0 x1 x2 x3 : N) : N * N * N * N :=
  match rks with
  | [] => (x0, x1, x2, x3)
  | rk :: r => sm4_rounds r x1 x2 x3 (N.lxor x0 (Tenc (N.lxor (N.lxor (N.lxor x1 x2) x3) rk)))
  end.
(* one block under round keys rks (encryption: schedule order; decryption: reversed) *)
Definition sm4_crypt_block (rks : list N) (blk : list N) : list N :=
  match words_be 4 blk with
  | [x0; x1; x2; x3] =>
    let '(y0, y1, y2, y3) := sm4_rounds rks x0 x1 x2 x3 in
    be32 y3 ++ be32 y2 ++ be32 y1 ++ be32 y0
  | _ => []
  end.
Definition sm4_encrypt_block (key blk : list N) : list N :=
  sm4_crypt_block (sm4_key_schedule key) blk.
Definition sm4_decrypt_block (key blk : list N) : list N :=
  sm4_crypt_block (rev (sm4_key_schedule key)) blk.

(* GB/T 32907 appendix A.1 *)
Definition sm4_tv_key : list N :=
  [0x01;0x23;0x45;0x67;0x89;0xab;0xcd;0xef;0xfe;0xdc;0xba;0x98;0x76;0x54;0x32;0x10].
Example sm4_vector :
  sm4_encrypt_block sm4_tv_key sm4_tv_key =
  [0x68;0x1e;0xdf;0x34;0xd2;0x06;0x96;0x5e;0x86;0xb3;0xe9;0x4f;0x53;0x6e;0x42;0x46].
Proof. vm_compute. reflexivity. Qed.
Example sm4_vector_dec :
  sm4_decrypt_block sm4_tv_key (sm4_encrypt_block sm4_tv_key sm4_tv_key) = sm4_tv_key.
Proof. vm_compute. reflexivity. Qed.
