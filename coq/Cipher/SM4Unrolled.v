(* sm4_encrypt of the default build, one level below SM4Tab.v: the 32 unrolled lines
     ROUND(i, Xa, Xb, Xc, Xd, Xe)      Xe = Xb ^ Xc ^ Xd ^ rk[i];  Xe = T0[..]^T1[..]^T2[..]^T3[..] ^ Xa
   over the five named registers X0..X4, the names rotating by one from line to line
   (ROUND(0, X0,X1,X2,X3,X4); ROUND(1, X1,X2,X3,X4,X0); ... period 5), and the four stores
   PUTU32(out+12, X2) after line 28, (out+8, X3) after 29, (out+4, X4) after 30, (out, X0) after 31.
   [sm4_encrypt_unrolled] keeps an explicit register file; SM4UnrolledProofs.v proves it equal to
   the shifting-state loop [sm4_encrypt_tab]. *)
From GmVerif Require Import Base.ListX Base.Bytes Cipher.SM4 Gen.Sm4Tables Cipher.SM4Tab.
Local Open Scope N_scope.

(* register file X0..X4 *)
Definition rget (regs : list N) (j : nat) : N := nth j regs 0.
Fixpoint rset (regs : list N) (j : nat) (v : N) : list N :=
  match regs, j with
  | [], _ => []
  | _ :: r, O => v :: r
  | x :: r, S k => x :: rset r k v
  end.
Definition nxt (p : nat) : nat := match p with 4%nat => 0%nat | _ => S p end.

(* macro ROUND with first register name X_p *)
Definition ROUND (rk : N) (p : nat) (regs : list N) : list N :=
  let a := p in let b := nxt a in let c := nxt b in let d := nxt c in let e := nxt d in
  let x4 := N.lxor (N.lxor (N.lxor (rget regs b) (rget regs c)) (rget regs d)) rk in
  rset regs e (N.lxor (Ttab x4) (rget regs a)).

(* lines i = 0 .. n-1, the phase advancing by one per line *)
Fixpoint rounds_unrolled (rks : list N) (p : nat) (regs : list N) : nat * list N :=
  match rks with
  | [] => (p, regs)
  | rk :: r => rounds_unrolled r (nxt p) (ROUND rk p regs)
  end.

Definition sm4_encrypt_unrolled (rks : list N) (blk : list N) : list N :=
  let regs0 := [get_be32 blk; get_be32 (skipn 4 blk); get_be32 (skipn 8 blk); get_be32 (skipn 12 blk); 0] in
  let '(_, regs) := rounds_unrolled rks 0%nat regs0 in
  (* after line 31: out = X0, out+4 = X4, out+8 = X3, out+12 = X2 *)
  be32 (rget regs 0) ++ be32 (rget regs 4) ++ be32 (rget regs 3) ++ be32 (rget regs 2).

(* word-wise form of the chaining xor in the table-driven sm4_cbc_encrypt_blocks / ctr blocks:
   X_i = IV_i ^ GETU32(in + 4 i)  resp.  PUTU32(out + 4 i, D_i ^ X_i) *)
Definition xor_words (a b : list N) : list N := map (fun p => N.lxor (fst p) (snd p)) (combine a b).
