(* GF(2^128): the MSB-first shift-and-reduce loop of src/gf128.c, read on the 128-bit polynomial
   ([gf_mul_horner]), equals SP 800-38D Algorithm 1 ([gf_mul_alg1]: Z = xor of a.x^i mod f over
   the set bits i of the multiplier), and is xor-linear in its first argument.
   Not proved here: the two-limb loop [gf128_mul] = [gf_mul_horner] on [poly] (compared on every
   gf128mul case by the C04b driver), and the ring/field laws of the product. *)
From GmVerif Require Import Base.ListX Base.Bytes Cipher.GF128.
Local Open Scope N_scope.

Lemma land_lxor_l a b m : N.land (N.lxor a b) m = N.lxor (N.land a m) (N.land b m).
Proof.
  apply N.bits_inj; intros n. rewrite !N.land_spec, !N.lxor_spec, !N.land_spec.
  destruct (N.testbit a n), (N.testbit b n), (N.testbit m n); reflexivity.
Qed.

Lemma xtime_lxor r r' : xtime (N.lxor r r') = N.lxor (xtime r) (xtime r').
Proof.
  unfold xtime. rewrite N.shiftl_lxor, land_lxor_l, N.lxor_spec.
  set (s := N.land (N.shiftl r 1) ones128). set (s' := N.land (N.shiftl r' 1) ones128).
  destruct (N.testbit r 127), (N.testbit r' 127); cbn [xorb].
  - rewrite N.lxor_assoc, (N.lxor_comm 135 (N.lxor s' 135)), N.lxor_assoc, N.lxor_nilpotent, N.lxor_0_r. reflexivity.
  - rewrite !N.lxor_assoc. f_equal. apply N.lxor_comm.
  - rewrite N.lxor_assoc. reflexivity.
  - reflexivity.
Qed.
Lemma xtime_0 : xtime 0 = 0.
Proof. reflexivity. Qed.

Fixpoint xt (n : nat) (r : N) : N := match n with O => r | S k => xt k (xtime r) end.
Lemma xt_lxor n : forall r r', xt n (N.lxor r r') = N.lxor (xt n r) (xt n r').
Proof. induction n as [|n IH]; intros r r'; cbn [xt]; [reflexivity|]. rewrite xtime_lxor. apply IH. Qed.
Lemma xt_0 n : xt n 0 = 0.
Proof. induction n as [|n IH]; cbn [xt]; [reflexivity|]. rewrite xtime_0. exact IH. Qed.
Lemma xt_S n r : xt (S n) r = xtime (xt n r).
Proof. revert r; induction n as [|n IH]; intros r; cbn [xt]; [reflexivity|]. rewrite <- IH. reflexivity. Qed.

Definition term (a b : N) (i : nat) : N := if N.testbit b (N.of_nat i) then xt i a else 0.
(* the sum of a.x^i over the set bits i < n of b *)
Fixpoint psum (n : nat) (a b : N) : N :=
  match n with O => 0 | S k => N.lxor (psum k a b) (term a b k) end.

Lemma horner_psum n : forall a b r, horner n a b r = N.lxor (xt n r) (psum n a b).
Proof.
  induction n as [|n IH]; intros a b r; cbn [horner xt psum].
  - rewrite N.lxor_0_r. reflexivity.
  - rewrite IH. unfold term.
    destruct (N.testbit b (N.of_nat n)).
    + rewrite xt_lxor.
      rewrite !N.lxor_assoc. f_equal. apply N.lxor_comm.
    + rewrite N.lxor_0_r. reflexivity.
Qed.

Fixpoint tsum (n i : nat) (v b : N) : N :=
  match n with
  | O => 0
  | S k => N.lxor (if N.testbit b (N.of_nat i) then v else 0) (tsum k (S i) (xtime v) b)
  end.
Lemma alg1_tsum n : forall i v b z, alg1 n i v b z = N.lxor z (tsum n i v b).
Proof.
  induction n as [|n IH]; intros i v b z; cbn [alg1 tsum].
  - rewrite N.lxor_0_r. reflexivity.
  - rewrite IH. destruct (N.testbit b (N.of_nat i)).
    + rewrite N.lxor_assoc. reflexivity.
    + rewrite N.lxor_0_l. reflexivity.
Qed.
Lemma psum_tsum n : forall i a b, psum (i + n) a b = N.lxor (psum i a b) (tsum n i (xt i a) b).
Proof.
  induction n as [|n IH]; intros i a b; cbn [tsum].
  - rewrite Nat.add_0_r, N.lxor_0_r. reflexivity.
  - replace (i + S n)%nat with (S i + n)%nat by lia.
    rewrite IH. cbn [psum]. unfold term. rewrite xt_S. rewrite N.lxor_assoc. reflexivity.
Qed.

(* ---- gf128_mul_spec (on the 128-bit polynomial): the C loop = SP 800-38D Algorithm 1 ---- *)
Theorem gf_mul_horner_eq_alg1 a b : gf_mul_horner a b = gf_mul_alg1 a b.
Proof.
  unfold gf_mul_horner, gf_mul_alg1. rewrite horner_psum, alg1_tsum, xt_0, !N.lxor_0_l.
  change 128%nat with (0 + 128)%nat at 1. rewrite psum_tsum. cbn [psum xt]. rewrite N.lxor_0_l. reflexivity.
Qed.

(* ---- xor-linearity in the first argument (what GHASH uses: (X xor A) . H) ---- *)
Lemma psum_lxor n : forall a a' b, psum n (N.lxor a a') b = N.lxor (psum n a b) (psum n a' b).
Proof.
  induction n as [|n IH]; intros a a' b; cbn [psum]; [reflexivity|].
  rewrite IH. unfold term. destruct (N.testbit b (N.of_nat n)).
  - rewrite xt_lxor. rewrite !N.lxor_assoc. f_equal.
    rewrite <- !N.lxor_assoc. f_equal. apply N.lxor_comm.
  - rewrite !N.lxor_0_r. reflexivity.
Qed.
Theorem gf_mul_horner_lxor_l a a' b :
  gf_mul_horner (N.lxor a a') b = N.lxor (gf_mul_horner a b) (gf_mul_horner a' b).
Proof. unfold gf_mul_horner. rewrite !horner_psum, xt_0, !N.lxor_0_l. apply psum_lxor. Qed.
Lemma psum_0_l n b : psum n 0 b = 0.
Proof.
  induction n as [|n IH]; cbn [psum]; [reflexivity|].
  rewrite IH. unfold term. rewrite xt_0. destruct (N.testbit b (N.of_nat n)); reflexivity.
Qed.
Theorem gf_mul_horner_0_l b : gf_mul_horner 0 b = 0.
Proof. unfold gf_mul_horner. rewrite horner_psum, xt_0, N.lxor_0_l. apply psum_0_l. Qed.
