(* GF(2^128): the MSB-first shift-and-reduce loop of src/gf128.c, read on the 128-bit polynomial
   ([gf_mul_horner]), equals SP 800-38D Algorithm 1 ([gf_mul_alg1]: Z = xor of a.x^i mod f over
   the set bits i of the multiplier), and is xor-linear in its first argument.
   Second half of the file: the two-limb loop [gf128_mul] of src/gf128.c (64-bit words, carry
   between the words) = [gf_mul_horner] on [poly], hence GHASH as coded = GHASH over that product.
   Not proved: the ring/field laws of the product (irreducibility of the modulus). *)
From GmVerif Require Import Base.ListX Base.Bytes Hash.MD Cipher.GF128.
Local Open Scope N_scope.

Lemma land_lxor_l a b m : N.land (N.lxor a b) m = N.lxor (N.land a m) (N.land b m).
Proof.
  apply N.bits_inj; intros n. rewrite !N.land_spec, !N.lxor_spec, !N.land_spec.
  destruct (N.testbit a n), (N.testbit b n), (N.testbit m n); reflexivity.
Qed.

Lemma xtime_lxor r r' : xtime (N.lxor r r') = N.lxor (xtime r) (xtime r').
Proof.
  unfold xtime. rewrite N.shiftl_lxor, land_lxor_l, N.lxor_spec.
  set (s := N.land (N.shiftl r 1) ones128). set (s' := N.land (N.shiftl r' 1) ones128).
  destruct (N.testbit r 127), (N.testbit r' 127); cbn [xorb].
  - rewrite N.lxor_assoc, (N.lxor_comm 135 (N.lxor s' 135)), N.lxor_assoc, N.lxor_nilpotent, N.lxor_0_r. reflexivity.
  - rewrite !N.lxor_assoc. f_equal. apply N.lxor_comm.
  - rewrite N.lxor_assoc. reflexivity.
  - reflexivity.
Qed.
Lemma xtime_0 : xtime 0 = 0.
Proof. reflexivity. Qed.

Fixpoint xt (n : nat) (r : N) : N := match n with O => r | S k => xt k (xtime r) end.
Lemma xt_lxor n : forall r r', xt n (N.lxor r r') = N.lxor (xt n r) (xt n r').
Proof. induction n as [|n IH]; intros r r'; cbn [xt]; [reflexivity|]. rewrite xtime_lxor. apply IH. Qed.
Lemma xt_0 n : xt n 0 = 0.
Proof. induction n as [|n IH]; cbn [xt]; [reflexivity|]. rewrite xtime_0. exact IH. Qed.
Lemma xt_S n r : xt (S n) r = xtime (xt n r).
Proof. revert r; induction n as [|n IH]; intros r; cbn [xt]; [reflexivity|]. rewrite <- IH. reflexivity. Qed.

Definition term (a b : N) (i : nat) : N := if N.testbit b (N.of_nat i) then xt i a else 0.
(* the sum of a.x^i over the set bits i < n of b *)
Fixpoint psum (n : nat) (a b : N) : N :=
  match n with O => 0 | S k => N.lxor (psum k a b) (term a b k) end.

Lemma horner_psum n : forall a b r, horner n a b r = N.lxor (xt n r) (psum n a b).
Proof.
  induction n as [|n IH]; intros a b r; cbn [horner xt psum].
  - rewrite N.lxor_0_r. reflexivity.
  - rewrite IH. unfold term.
    destruct (N.testbit b (N.of_nat n)).
    + rewrite xt_lxor.
      rewrite !N.lxor_assoc. f_equal. apply N.lxor_comm.
    + rewrite N.lxor_0_r. reflexivity.
Qed.

Fixpoint tsum (n i : nat) (v b : N) : N :=
  match n with
  | O => 0
  | S k => N.lxor (if N.testbit b (N.of_nat i) then v else 0) (tsum k (S i) (xtime v) b)
  end.
Lemma alg1_tsum n : forall i v b z, alg1 n i v b z = N.lxor z (tsum n i v b).
Proof.
  induction n as [|n IH]; intros i v b z; cbn [alg1 tsum].
  - rewrite N.lxor_0_r. reflexivity.
  - rewrite IH. destruct (N.testbit b (N.of_nat i)).
    + rewrite N.lxor_assoc. reflexivity.
    + rewrite N.lxor_0_l. reflexivity.
Qed.
Lemma psum_tsum n : forall i a b, psum (i + n) a b = N.lxor (psum i a b) (tsum n i (xt i a) b).
Proof.
  induction n as [|n IH]; intros i a b; cbn [tsum].
  - rewrite Nat.add_0_r, N.lxor_0_r. reflexivity.
  - replace (i + S n)%nat with (S i + n)%nat by lia.
    rewrite IH. cbn [psum]. unfold term. rewrite xt_S. rewrite N.lxor_assoc. reflexivity.
Qed.

(* ---- gf128_mul_spec (on the 128-bit polynomial): the C loop = SP 800-38D Algorithm 1 ---- *)
Theorem gf_mul_horner_eq_alg1 a b : gf_mul_horner a b = gf_mul_alg1 a b.
Proof.
  unfold gf_mul_horner, gf_mul_alg1. rewrite horner_psum, alg1_tsum, xt_0, !N.lxor_0_l.
  change 128%nat with (0 + 128)%nat at 1. rewrite psum_tsum. cbn [psum xt]. rewrite N.lxor_0_l. reflexivity.
Qed.

(* ---- xor-linearity in the first argument (what GHASH uses: (X xor A) . H) ---- *)
Lemma psum_lxor n : forall a a' b, psum n (N.lxor a a') b = N.lxor (psum n a b) (psum n a' b).
Proof.
  induction n as [|n IH]; intros a a' b; cbn [psum]; [reflexivity|].
  rewrite IH. unfold term. destruct (N.testbit b (N.of_nat n)).
  - rewrite xt_lxor. rewrite !N.lxor_assoc. f_equal.
    rewrite <- !N.lxor_assoc. f_equal. apply N.lxor_comm.
  - rewrite !N.lxor_0_r. reflexivity.
Qed.
Theorem gf_mul_horner_lxor_l a a' b :
  gf_mul_horner (N.lxor a a') b = N.lxor (gf_mul_horner a b) (gf_mul_horner a' b).
Proof. unfold gf_mul_horner. rewrite !horner_psum, xt_0, !N.lxor_0_l. apply psum_lxor. Qed.
Lemma psum_0_l n b : psum n 0 b = 0.
Proof.
  induction n as [|n IH]; cbn [psum]; [reflexivity|].
  rewrite IH. unfold term. rewrite xt_0. destruct (N.testbit b (N.of_nat n)); reflexivity.
Qed.
Theorem gf_mul_horner_0_l b : gf_mul_horner 0 b = 0.
Proof. unfold gf_mul_horner. rewrite horner_psum, xt_0, N.lxor_0_l. apply psum_0_l. Qed.

(* ======================================================================================
   The two-limb loop of src/gf128.c = the 128-bit Horner form, on poly (r0, r1) = r0 + 2^64 r1.
   ====================================================================================== *)
Require Import Lia ZifyN ZifyNat ZifyBool.
Definition L64 (x : N) : Prop := x < 2^64.

Lemma high_false x n : L64 x -> 64 <= n -> N.testbit x n = false.
Proof.
  intros Hx Hn. destruct (N.eq_dec x 0) as [->|Hnz]; [apply N.bits_0|].
  apply N.bits_above_log2. apply N.lt_le_trans with 64; [|exact Hn].
  apply N.log2_lt_pow2; [lia|exact Hx].
Qed.
Lemma L64_of_bits x : (forall n, 64 <= n -> N.testbit x n = false) -> L64 x.
Proof.
  intros H. unfold L64. destruct (N.lt_ge_cases x (2^64)) as [|Hge]; [assumption|exfalso].
  assert (Hnz : x <> 0) by (intros ->; cbv in Hge; contradiction Hge; reflexivity).
  pose proof (N.bit_log2 x Hnz) as Hb.
  rewrite H in Hb; [discriminate|]. apply N.log2_le_pow2; [lia|exact Hge].
Qed.
Lemma w64_bit x n : N.testbit (w64 x) n = N.testbit x n && (n <? 64).
Proof.
  unfold w64. change mask64 with (N.ones 64). rewrite N.land_spec.
  destruct (n <? 64) eqn:E.
  - apply N.ltb_lt in E. rewrite N.ones_spec_low by exact E. reflexivity.
  - apply N.ltb_ge in E. rewrite N.ones_spec_high by exact E. reflexivity.
Qed.
Lemma w64_L64 x : L64 (w64 x).
Proof. apply L64_of_bits. intros n Hn. rewrite w64_bit. replace (n <? 64) with false by (symmetry; apply N.ltb_ge; exact Hn). apply andb_false_r. Qed.
Lemma lxor_L64 x y : L64 x -> L64 y -> L64 (N.lxor x y).
Proof. intros Hx Hy. apply L64_of_bits. intros n Hn. rewrite N.lxor_spec, !high_false by assumption. reflexivity. Qed.

Lemma poly_lor r0 r1 : L64 r0 -> poly (r0, r1) = N.lor r0 (N.shiftl r1 64).
Proof.
  intros H0. unfold poly. cbn [fst snd]. rewrite N.mul_comm, <- N.shiftl_mul_pow2.
  rewrite N.add_nocarry_lxor, N.lxor_lor; try reflexivity;
    apply N.bits_inj; intros n; rewrite N.land_spec, N.bits_0;
    destruct (N.lt_ge_cases n 64) as [Hn|Hn];
    [rewrite N.shiftl_spec_low by exact Hn; apply andb_false_r | rewrite (high_false r0) by assumption; reflexivity
    |rewrite N.shiftl_spec_low by exact Hn; apply andb_false_r | rewrite (high_false r0) by assumption; reflexivity].
Qed.
Lemma poly_bit r0 r1 n : L64 r0 ->
  N.testbit (poly (r0, r1)) n = if n <? 64 then N.testbit r0 n else N.testbit r1 (n - 64).
Proof.
  intros H0. rewrite poly_lor by exact H0. rewrite N.lor_spec.
  destruct (n <? 64) eqn:E.
  - apply N.ltb_lt in E. rewrite N.shiftl_spec_low by exact E. apply orb_false_r.
  - apply N.ltb_ge in E. rewrite (high_false r0) by assumption.
    rewrite N.shiftl_spec_high' by exact E. reflexivity.
Qed.
Lemma poly_lxor a0 a1 b0 b1 : L64 a0 -> L64 b0 ->
  poly (N.lxor a0 b0, N.lxor a1 b1) = N.lxor (poly (a0, a1)) (poly (b0, b1)).
Proof.
  intros Ha Hb. apply N.bits_inj; intros n.
  rewrite N.lxor_spec, !poly_bit by (first [assumption | apply lxor_L64; assumption]).
  destruct (n <? 64); apply N.lxor_spec.
Qed.
Lemma ones128_bit n : N.testbit ones128 n = (n <? 128).
Proof.
  unfold ones128. destruct (n <? 128) eqn:E.
  - apply N.ltb_lt in E. apply N.ones_spec_low. exact E.
  - apply N.ltb_ge in E. apply N.ones_spec_high. exact E.
Qed.

(* the shift across the two limbs is the 128-bit shift *)
Lemma shift_limbs r0 r1 : L64 r0 -> L64 r1 ->
  poly (w64 (N.shiftl r0 1), w64 (N.lor (N.shiftl r1 1) (N.shiftr r0 63)))
  = N.land (N.shiftl (poly (r0, r1)) 1) ones128.
Proof.
  intros H0 H1. apply N.bits_inj; intros n.
  rewrite poly_bit by apply w64_L64. rewrite N.land_spec, ones128_bit, !w64_bit.
  destruct (N.eq_dec n 0) as [->|Hn0].
  { cbn [N.ltb N.compare]. rewrite !N.shiftl_spec_low by lia. reflexivity. }
  rewrite (N.shiftl_spec_high' (poly (r0, r1))) by lia. rewrite poly_bit by exact H0.
  destruct (n <? 64) eqn:E64.
  - apply N.ltb_lt in E64. rewrite N.shiftl_spec_high' by lia.
    replace (n - 1 <? 64) with true by (symmetry; apply N.ltb_lt; lia).
    replace (n <? 128) with true by (symmetry; apply N.ltb_lt; lia).
    rewrite !andb_true_r. reflexivity.
  - apply N.ltb_ge in E64. rewrite N.lor_spec, N.shiftr_spec'.
    destruct (n <? 128) eqn:E128.
    + apply N.ltb_lt in E128.
      replace (n - 64 <? 64) with true by (symmetry; apply N.ltb_lt; lia). rewrite !andb_true_r.
      destruct (N.eq_dec n 64) as [->|Hn64].
      * change (64 - 64) with 0. rewrite N.shiftl_spec_low by lia.
        change (0 + 63) with 63. change (64 - 1) with 63. change (63 <? 64) with true. reflexivity.
      * rewrite N.shiftl_spec_high' by lia.
        rewrite (high_false r0 (n - 64 + 63)) by (first [assumption | lia]). rewrite orb_false_r.
        replace (n - 1 <? 64) with false by (symmetry; apply N.ltb_ge; lia).
        f_equal. lia.
    + apply N.ltb_ge in E128.
      replace (n - 64 <? 64) with false by (symmetry; apply N.ltb_ge; lia). rewrite !andb_false_r. reflexivity.
Qed.

Lemma poly_xor_low r0 r1 c : L64 r0 -> L64 c -> poly (N.lxor r0 c, r1) = N.lxor (poly (r0, r1)) c.
Proof.
  intros H0 Hc. replace c with (poly (c, 0)) at 2 by (unfold poly; cbn; lia).
  rewrite <- poly_lxor by assumption. rewrite N.lxor_0_r. reflexivity.
Qed.

(* one msb-first step on the polynomial *)
Definition hstep (A r : N) (c : bool) : N := let r' := xtime r in if c then N.lxor r' A else r'.

Lemma gf_step_poly a0 a1 r0 r1 bw :
  L64 a0 -> L64 a1 -> L64 r0 -> L64 r1 ->
  let '(r0', r1', bw') := gf_step (a0, a1) (r0, r1, bw) in
  L64 r0' /\ L64 r1' /\ bw' = w64 (N.shiftl bw 1) /\
  poly (r0', r1') = hstep (poly (a0, a1)) (poly (r0, r1)) (N.testbit bw 63).
Proof.
  intros Ha0 Ha1 H0 H1. unfold gf_step. cbn [fst snd].
  assert (Htop : N.testbit (poly (r0, r1)) 127 = N.testbit r1 63).
  { rewrite poly_bit by exact H0. reflexivity. }
  assert (H87 : L64 135) by (unfold L64; reflexivity).
  set (r1s := w64 (N.lor (N.shiftl r1 1) (N.shiftr r0 63))).
  set (r0s := w64 (N.shiftl r0 1)).
  assert (Hr0s : L64 r0s) by apply w64_L64.
  assert (Hr1s : L64 r1s) by apply w64_L64.
  assert (Hx : poly ((if N.testbit r1 63 then N.lxor r0s 135 else r0s), r1s) = xtime (poly (r0, r1))).
  { unfold xtime. rewrite Htop, <- shift_limbs by assumption. fold r0s. fold r1s.
    destruct (N.testbit r1 63); [apply poly_xor_low; assumption|reflexivity]. }
  assert (Hr0s' : L64 (if N.testbit r1 63 then N.lxor r0s 135 else r0s))
    by (destruct (N.testbit r1 63); [apply lxor_L64; assumption|assumption]).
  unfold hstep. cbn zeta.
  destruct (N.testbit bw 63).
  - split; [apply lxor_L64; assumption|]. split; [apply lxor_L64; assumption|]. split; [reflexivity|].
    rewrite poly_lxor by assumption. rewrite Hx. reflexivity.
  - split; [assumption|]. split; [assumption|]. split; [reflexivity|]. exact Hx.
Qed.

(* bits 63, 62, ..., 64-k of bw, most significant first *)
Fixpoint top_bits (k : nat) (bw : N) : list bool :=
  match k with O => [] | S j => top_bits j bw ++ [N.testbit bw (63 - N.of_nat j)] end.

Lemma w64_shiftl_bit bw j : (j < 64)%nat ->
  N.testbit (w64 (N.shiftl bw (N.of_nat j))) 63 = N.testbit bw (63 - N.of_nat j).
Proof.
  intros Hj. rewrite w64_bit. change (63 <? 64) with true. rewrite andb_true_r.
  rewrite N.shiftl_spec_high' by lia. reflexivity.
Qed.
Lemma w64_shiftl_step bw j : w64 (N.shiftl (w64 (N.shiftl bw (N.of_nat j))) 1) = w64 (N.shiftl bw (N.of_nat (S j))).
Proof.
  apply N.bits_inj; intros n. rewrite !w64_bit.
  destruct (n <? 64) eqn:E; [|rewrite !andb_false_r; reflexivity]. apply N.ltb_lt in E. rewrite !andb_true_r.
  destruct (N.eq_dec n 0) as [->|Hn].
  - rewrite !N.shiftl_spec_low by lia. reflexivity.
  - rewrite N.shiftl_spec_high' by lia. rewrite w64_bit.
    replace (n - 1 <? 64) with true by (symmetry; apply N.ltb_lt; lia). rewrite andb_true_r.
    destruct (N.lt_ge_cases (n - 1) (N.of_nat j)) as [Hlt|Hge].
    + rewrite !N.shiftl_spec_low by lia. reflexivity.
    + rewrite !N.shiftl_spec_high' by lia. f_equal. lia.
Qed.

Lemma w64_id x : L64 x -> w64 x = x.
Proof.
  intros H. apply N.bits_inj; intros n. rewrite w64_bit.
  destruct (n <? 64) eqn:E; [apply andb_true_r|]. apply N.ltb_ge in E.
  rewrite high_false by assumption. reflexivity.
Qed.

Lemma iter_poly a0 a1 : L64 a0 -> L64 a1 -> forall k r0 r1 bw, (k <= 64)%nat -> L64 r0 -> L64 r1 -> L64 bw ->
  let '(r0', r1', bw') := Nat.iter k (gf_step (a0, a1)) (r0, r1, bw) in
  L64 r0' /\ L64 r1' /\ bw' = w64 (N.shiftl bw (N.of_nat k)) /\
  poly (r0', r1') = fold_left (hstep (poly (a0, a1))) (top_bits k bw) (poly (r0, r1)).
Proof.
  intros Ha0 Ha1. induction k as [|k IH]; intros r0 r1 bw Hk H0 H1 Hbw.
  - cbn [Nat.iter top_bits fold_left N.of_nat]. cbv beta iota. rewrite N.shiftl_0_r, w64_id by exact Hbw.
    repeat split; assumption.
  - change (Nat.iter (S k) (gf_step (a0, a1)) (r0, r1, bw))
      with (gf_step (a0, a1) (Nat.iter k (gf_step (a0, a1)) (r0, r1, bw))).
    specialize (IH r0 r1 bw ltac:(lia) H0 H1 Hbw).
    destruct (Nat.iter k (gf_step (a0, a1)) (r0, r1, bw)) as [[q0 q1] bwk].
    destruct IH as (Hq0 & Hq1 & Hbwk & Hp).
    pose proof (gf_step_poly a0 a1 q0 q1 bwk Ha0 Ha1 Hq0 Hq1) as Hs.
    destruct (gf_step (a0, a1) (q0, q1, bwk)) as [[s0 s1] bws].
    destruct Hs as (Hs0 & Hs1 & Hbws & Hps). cbv beta iota.
    split; [exact Hs0|]. split; [exact Hs1|]. split.
    + rewrite Hbws, Hbwk. apply w64_shiftl_step.
    + rewrite Hps, Hp. cbn [top_bits]. rewrite fold_left_app. cbn [fold_left].
      rewrite Hbwk, w64_shiftl_bit by lia. reflexivity.
Qed.

(* Horner over the bits n-1 .. 0 of B as a fold over an explicit msb-first bit list *)
Fixpoint bits_desc (n : nat) (B : N) : list bool :=
  match n with O => [] | S k => N.testbit B (N.of_nat k) :: bits_desc k B end.
Lemma horner_fold n : forall A B r, horner n A B r = fold_left (hstep A) (bits_desc n B) r.
Proof. induction n as [|n IH]; intros A B r; cbn [horner bits_desc fold_left]; [reflexivity|]. rewrite IH. reflexivity. Qed.

Lemma top_bits_64 bw : top_bits 64 bw = bits_desc 64 bw.
Proof. reflexivity. Qed.

Lemma bits_desc_low b0 b1 : L64 b0 -> forall k, (k <= 64)%nat -> bits_desc k (poly (b0, b1)) = bits_desc k b0.
Proof.
  intros H0. induction k as [|k IH]; intros Hk; cbn [bits_desc]; [reflexivity|].
  rewrite IH by lia. f_equal. rewrite poly_bit by exact H0.
  replace (N.of_nat k <? 64) with true by (symmetry; apply N.ltb_lt; lia). reflexivity.
Qed.
Lemma bits_desc_high b0 b1 : L64 b0 -> forall k,
  bits_desc (k + 64) (poly (b0, b1)) = bits_desc k b1 ++ bits_desc 64 (poly (b0, b1)).
Proof.
  intros H0. induction k as [|k IH]; [reflexivity|].
  cbn [Nat.add bits_desc app]. rewrite IH. f_equal. rewrite poly_bit by exact H0.
  replace (N.of_nat (k + 64) <? 64) with false by (symmetry; apply N.ltb_ge; lia).
  f_equal. lia.
Qed.

(* ---- gf128_mul_limbs: the C function on limb pairs = the Horner product of the polynomials ---- *)
Theorem gf128_mul_eq_horner a b :
  L64 (fst a) -> L64 (snd a) -> L64 (fst b) -> L64 (snd b) ->
  poly (gf128_mul a b) = gf_mul_horner (poly a) (poly b) /\
  L64 (fst (gf128_mul a b)) /\ L64 (snd (gf128_mul a b)).
Proof.
  destruct a as [a0 a1], b as [b0 b1]. cbn [fst snd]. intros Ha0 Ha1 Hb0 Hb1.
  assert (Hz : L64 0) by (unfold L64; reflexivity).
  unfold gf128_mul. cbn [fst snd].
  pose proof (iter_poly a0 a1 Ha0 Ha1 64 0 0 b1 ltac:(lia) Hz Hz Hb1) as H1.
  destruct (Nat.iter 64 (gf_step (a0, a1)) (0, 0, b1)) as [[q0 q1] bq].
  destruct H1 as (Hq0 & Hq1 & _ & Hp1).
  pose proof (iter_poly a0 a1 Ha0 Ha1 64 q0 q1 b0 ltac:(lia) Hq0 Hq1 Hb0) as H2.
  destruct (Nat.iter 64 (gf_step (a0, a1)) (q0, q1, b0)) as [[s0 s1] bs].
  destruct H2 as (Hs0 & Hs1 & _ & Hp2).
  cbn [fst snd]. split; [|split; assumption].
  rewrite Hp2, Hp1, !top_bits_64.
  unfold gf_mul_horner. rewrite horner_fold.
  change 128%nat with (64 + 64)%nat. rewrite bits_desc_high by exact Hb0.
  rewrite bits_desc_low by (first [exact Hb0 | lia]).
  rewrite fold_left_app. reflexivity.
Qed.

(* ---- GHASH as coded (limb pairs) = GHASH over the polynomial product ---- *)
Definition limbs_ok (x : gf) : Prop := L64 (fst x) /\ L64 (snd x).

Lemma lor_L64 x y : L64 x -> L64 y -> L64 (N.lor x y).
Proof. intros Hx Hy. apply L64_of_bits. intros n Hn. rewrite N.lor_spec, !high_false by assumption. reflexivity. Qed.
Lemma land1_L64 x : L64 (N.land x 1).
Proof.
  apply L64_of_bits. intros n Hn. rewrite N.land_spec.
  replace (N.testbit 1 n) with false; [apply andb_false_r|].
  symmetry. change 1 with (N.ones 1). apply N.ones_spec_high. lia.
Qed.
Lemma rev_loop_L64 : forall n r a, L64 r -> L64 (fst (rev_loop n r a)).
Proof. induction n as [|n IH]; intros r a Hr; cbn [rev_loop]; [exact Hr|]. apply IH, w64_L64. Qed.
Lemma reverse_bits_L64 a : L64 (reverse_bits a).
Proof.
  unfold reverse_bits. pose proof (rev_loop_L64 63 0 a ltac:(unfold L64; reflexivity)) as H.
  destruct (rev_loop 63 0 a) as [r a']. cbn [fst] in H. apply lor_L64; [exact H|apply land1_L64].
Qed.
Lemma gf_from_bytes_ok p : limbs_ok (gf_from_bytes p).
Proof. split; apply reverse_bits_L64. Qed.

Theorem ghash_step_poly H X blk : limbs_ok H -> limbs_ok X ->
  poly (ghash_step H X blk) = gf_mul_horner (N.lxor (poly X) (poly (gf_from_bytes blk))) (poly H)
  /\ limbs_ok (ghash_step H X blk).
Proof.
  intros [Hh0 Hh1] [Hx0 Hx1]. destruct (gf_from_bytes_ok blk) as [Hb0 Hb1].
  unfold ghash_step, gf_add.
  destruct (gf128_mul_eq_horner (N.lxor (fst X) (fst (gf_from_bytes blk)), N.lxor (snd X) (snd (gf_from_bytes blk))) H)
    as (Hp & Hl0 & Hl1); cbn [fst snd]; try (apply lxor_L64; assumption); try assumption.
  split; [|split; assumption].
  rewrite Hp. f_equal. destruct X as [x0 x1]. destruct (gf_from_bytes blk) as [c0 c1]. cbn [fst snd] in *.
  apply poly_lxor; assumption.
Qed.

(* the chaining value of GHASH over whole blocks, computed on 128-bit polynomials *)
Fixpoint ghash_poly (k : nat) (Hp X : N) (d : list N) : N :=
  match k with
  | O => X
  | S j => ghash_poly j Hp (gf_mul_horner (N.lxor X (poly (gf_from_bytes (firstn 16 d)))) Hp) (skipn 16 d)
  end.
Theorem ghash_foldn_poly H : limbs_ok H -> forall k X d, limbs_ok X ->
  poly (MD.foldn gf (ghash_step H) 16 k X d) = ghash_poly k (poly H) (poly X) d
  /\ limbs_ok (MD.foldn gf (ghash_step H) 16 k X d).
Proof.
  intros HH. induction k as [|k IH]; intros X d HX; cbn [MD.foldn ghash_poly]; [split; [reflexivity|exact HX]|].
  destruct (ghash_step_poly H X (firstn 16 d) HH HX) as [Hp Hok].
  rewrite <- Hp. apply IH. exact Hok.
Qed.

(* ---- gf128_mul_by_2 = multiplication by x; gf128_set_one is the unit of the product ---- *)
Theorem gf128_mul_by_2_poly a : L64 (fst a) -> L64 (snd a) ->
  poly (gf128_mul_by_2 a) = xtime (poly a) /\ L64 (fst (gf128_mul_by_2 a)) /\ L64 (snd (gf128_mul_by_2 a)).
Proof.
  destruct a as [a0 a1]. cbn [fst snd]. intros H0 H1. unfold gf128_mul_by_2.
  assert (H87 : L64 135) by (unfold L64; reflexivity).
  assert (Htop : N.testbit (poly (a0, a1)) 127 = N.testbit a1 63) by (rewrite poly_bit by exact H0; reflexivity).
  unfold xtime. rewrite Htop, <- shift_limbs by assumption.
  destruct (N.testbit a1 63); cbn [fst snd].
  - split; [apply poly_xor_low; [apply w64_L64|exact H87]|]. split; [apply lxor_L64; [apply w64_L64|exact H87]|apply w64_L64].
  - split; [reflexivity|]. split; apply w64_L64.
Qed.

Lemma psum_one n a : psum n a 1 = match n with O => 0 | S _ => a end.
Proof.
  induction n as [|n IH]; [reflexivity|]. cbn [psum]. rewrite IH. unfold term.
  destruct n as [|n].
  - cbn. reflexivity.
  - replace (N.testbit 1 (N.of_nat (S n))) with false.
    + apply N.lxor_0_r.
    + symmetry. change 1 with (N.ones 1). apply N.ones_spec_high. lia.
Qed.
Theorem gf_mul_horner_one a : gf_mul_horner a (poly gf_one) = a.
Proof. unfold gf_mul_horner. rewrite horner_psum, xt_0, N.lxor_0_l. change (poly gf_one) with 1. apply psum_one. Qed.
