(* ChaCha20 (src/chacha20.c): the keystream loop of chacha20_generate_keystream is the
   concatenation of RFC 8439 section 2.3 blocks at counters c, c+1, ... (32-bit wrap), is
   invariant under splitting the request into several calls, writes exactly 64*counts bytes,
   and leaves the context as chacha20_init would build it for counter c+counts.            *)
From GmVerif Require Import Base.ListX Base.Bytes Cipher.ChaCha.
Local Open Scope N_scope.

Lemma w32_mod x : w32 x = x mod 2 ^ 32.
Proof. unfold w32, mask32. change 0xFFFFFFFF with (N.ones 32). apply N.land_ones. Qed.

Lemma add32_w32_l a b : add32 (w32 a) b = w32 (a + b).
Proof. unfold add32. rewrite !w32_mod. apply N.add_mod_idemp_l. discriminate. Qed.

Lemma set4_length s i j k l a b c d :
  length s = 16%nat -> length (set4 s i j k l a b c d) = 16%nat.
Proof. intros H. unfold set4. rewrite map_length, combine_length, seq_length, H. reflexivity. Qed.

Lemma QR_length s i j k l : length s = 16%nat -> length (QR s i j k l) = 16%nat.
Proof. intros H. unfold QR. apply set4_length, H. Qed.

Lemma DR_length s : length s = 16%nat -> length (DR s) = 16%nat.
Proof. intros H. unfold DR. repeat apply QR_length. exact H. Qed.

Lemma iter_DR_length n s : length s = 16%nat -> length (Nat.iter n DR s) = 16%nat.
Proof. intros H. induction n as [|n IH]; cbn [Nat.iter]; [exact H | apply DR_length, IH]. Qed.

Lemma bump_length s : length s = 16%nat -> length (bump s) = 16%nat.
Proof. intros H. unfold bump. rewrite map_length, combine_length, seq_length, H. reflexivity. Qed.

Lemma flat_map_le32_length l : length (flat_map le32 l) = (4 * length l)%nat.
Proof. induction l as [|x l IH]; [reflexivity|]. cbn [flat_map]. rewrite app_length, IH. cbn [le32 length]. lia. Qed.

Lemma chacha20_block_length s : length s = 16%nat -> length (chacha20_block s) = 64%nat.
Proof.
  intros H. unfold chacha20_block.
  rewrite flat_map_le32_length, map_length, combine_length, iter_DR_length, H by exact H. reflexivity.
Qed.

Lemma chacha20_init_length key nonce c : length (chacha20_init key nonce c) = 16%nat.
Proof. reflexivity. Qed.

(* state->d[12]++ on a context built by chacha20_init = the context for the next counter *)
Lemma bump_init key nonce c : bump (chacha20_init key nonce c) = chacha20_init key nonce (c + 1).
Proof.
  unfold bump, chacha20_init. cbn [words_le app seq combine map Nat.eqb].
  rewrite add32_w32_l. reflexivity.
Qed.

(* only word 12 changes, and it is incremented modulo 2^32 *)
Lemma bump_nth s i : length s = 16%nat -> (i < 16)%nat ->
  nth i (bump s) 0 = if (i =? 12)%nat then add32 (nth i s 0) 1 else nth i s 0.
Proof.
  intros H Hi.
  destruct s as [|x0 [|x1 [|x2 [|x3 [|x4 [|x5 [|x6 [|x7 [|x8 [|x9 [|x10 [|x11 [|x12 [|x13 [|x14 [|x15 [|x16 s]]]]]]]]]]]]]]]]];
    try discriminate H.
  unfold bump. cbn [seq combine map Nat.eqb].
  do 16 (destruct i as [|i]; [reflexivity|]). lia.
Qed.

Lemma iter_shift {A} (f : A -> A) n x : Nat.iter n f (f x) = Nat.iter (S n) f x.
Proof. induction n as [|n IHn]; [reflexivity|]. change (f (Nat.iter n f (f x)) = f (Nat.iter (S n) f x)). rewrite IHn. reflexivity. Qed.

Lemma keystream_fst n st : fst (chacha20_keystream n st) = Nat.iter n bump st.
Proof.
  revert st. induction n as [|n IH]; intros st; [reflexivity|].
  cbn [chacha20_keystream]. specialize (IH (bump st)).
  destruct (chacha20_keystream n (bump st)) as [st' r]. cbn [fst] in *. rewrite IH.
  apply iter_shift.
Qed.

(* chunking: one call for n+m blocks = a call for n blocks followed by a call for m blocks *)
Lemma keystream_app n m st :
  chacha20_keystream (n + m) st =
  let '(st1, r1) := chacha20_keystream n st in
  let '(st2, r2) := chacha20_keystream m st1 in (st2, r1 ++ r2).
Proof.
  revert st. induction n as [|n IH]; intros st.
  - cbn [Nat.add chacha20_keystream]. destruct (chacha20_keystream m st); reflexivity.
  - cbn [Nat.add chacha20_keystream]. rewrite IH.
    destruct (chacha20_keystream n (bump st)) as [st1 r1].
    destruct (chacha20_keystream m st1) as [st2 r2]. rewrite app_assoc. reflexivity.
Qed.

Lemma keystream_length n st : length st = 16%nat ->
  length (snd (chacha20_keystream n st)) = (64 * n)%nat /\ length (fst (chacha20_keystream n st)) = 16%nat.
Proof.
  revert st. induction n as [|n IH]; intros st H; [cbn [chacha20_keystream fst snd length]; lia|].
  cbn [chacha20_keystream]. specialize (IH (bump st) (bump_length _ H)).
  destruct (chacha20_keystream n (bump st)) as [st' r]. cbn [fst snd] in *.
  rewrite app_length, chacha20_block_length by exact H. lia.
Qed.

(* the loop = RFC 8439 section 2.4's keystream: block (key, c + i, nonce) for i = 0 .. counts-1,
   the counter taken modulo 2^32 as the uint32_t field does; final context = init at c+counts *)
Lemma flat_map_seq_shift {B} (f : nat -> list B) n a :
  flat_map f (seq (S a) n) = flat_map (fun i => f (S i)) (seq a n).
Proof. revert a. induction n as [|n IHn]; intros a; [reflexivity|]. cbn [seq flat_map]. rewrite IHn. reflexivity. Qed.

Local Opaque chacha20_block chacha20_init.
Lemma keystream_blocks key nonce n c :
  chacha20_keystream n (chacha20_init key nonce c) =
  (chacha20_init key nonce (c + N.of_nat n),
   flat_map (fun i => chacha20_block (chacha20_init key nonce (c + N.of_nat i))) (seq 0 n)).
Proof.
  revert c. induction n as [|n IH]; intros c.
  - cbn [chacha20_keystream seq flat_map]. rewrite N.add_0_r. reflexivity.
  - cbn [chacha20_keystream]. rewrite bump_init, IH. cbn [seq flat_map].
    rewrite N.add_0_r.
    replace (c + 1 + N.of_nat n) with (c + N.of_nat (S n)) by lia.
    apply f_equal. apply f_equal.
    rewrite flat_map_seq_shift.
    apply flat_map_ext. intros i.
    replace (c + 1 + N.of_nat i) with (c + N.of_nat (S i)) by lia. reflexivity.
Qed.
Local Transparent chacha20_block chacha20_init.

(* the counter field only ever holds c mod 2^32: two starting counters congruent mod 2^32 give
   the same context, hence the same keystream (the wrap the C code performs) *)
Lemma init_counter_mod key nonce c : chacha20_init key nonce (c mod 2 ^ 32) = chacha20_init key nonce c.
Proof.
  unfold chacha20_init. do 3 f_equal. rewrite !w32_mod. rewrite N.mod_mod by discriminate. reflexivity.
Qed.
