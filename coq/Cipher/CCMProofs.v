(* CCM (src/sm4_ccm.c after commits 27e8567, d8f414a): one-shot decision rule, tag-change rejection,
   decrypt inverts encrypt, and equality with RFC 3610 (B0 / AAD encoding / padding / counter blocks).
   Read extents of sm4_gcm_decrypt_update (after a37c004) and zuc_encrypt (after fef12f3) stay inside
   the input for every tag length / input length.  The Examples at the end record, on concrete
   inputs, what the formulas of the code BEFORE those commits computed. *)
From GmVerif Require Import Base.ListX Base.Bytes Cipher.SM4 Cipher.GF128 Cipher.GCM Cipher.CCM
  Cipher.ZUC Cipher.Aead Cipher.AeadProofs Cipher.GCMProofs Cipher.AESProofs.
Require Import Lia ZifyN ZifyNat ZifyBool.
Ltac Zify.zify_post_hook ::= Z.div_mod_to_equations.
Local Open Scope nat_scope.

Section CcmRule.
  Variable E : list N -> list N.
  Variables (iv aad : list N).

  (* accept <=> argument checks pass and the recomputed MAC over the decrypted text, truncated to
     |tag| bytes, equals the presented tag *)
  Theorem ccm_accept_iff c tag p :
    ccm_decrypt E iv aad c tag = Ok p <->
    ccm_args_ok (length iv) (length tag) = true /\
    ccm_len_ok (length iv) (N.of_nat (length c)) = true /\
    p = ccm_ctr E iv c /\
    firstn (length tag) (ccm_tag16 E iv aad (ccm_ctr E iv c) (length tag)) = tag.
  Proof.
    unfold ccm_decrypt.
    destruct (ccm_args_ok (length iv) (length tag)); cbn [negb andb];
      [|split; [discriminate|intros [H _]; discriminate]].
    destruct (ccm_len_ok (length iv) (N.of_nat (length c))); cbn [negb];
      [|split; [discriminate|intros (_ & H & _); discriminate]].
    destruct (bytes_eqb _ tag) eqn:Eb.
    - apply bytes_eqb_eq in Eb. split.
      + intros H; inversion H; subst. repeat split; auto.
      + intros (_ & _ & -> & _). reflexivity.
    - apply bytes_eqb_neq in Eb. split; [discriminate|]. intros (_ & _ & _ & H). contradiction.
  Qed.

  Theorem ccm_tag_change_rejected c tag tag' p :
    length tag = length tag' -> tag <> tag' ->
    ccm_decrypt E iv aad c tag = Ok p -> ccm_decrypt E iv aad c tag' = Err.
  Proof.
    intros Hl Hne H1. apply ccm_accept_iff in H1. destruct H1 as (_ & _ & _ & T1).
    destruct (ccm_decrypt E iv aad c tag') as [p'| |] eqn:E2; [|reflexivity|].
    - apply ccm_accept_iff in E2. destruct E2 as (_ & _ & _ & T2). rewrite <- Hl in T2. congruence.
    - unfold ccm_decrypt in E2. destruct (negb _); [discriminate|]. destruct (bytes_eqb _ _); discriminate.
  Qed.

  (* ---- decrypt inverts encrypt (needs only that E returns 16-byte blocks) ---- *)
  Hypothesis E_len : forall x, length (E x) = 16.

  Lemma cbcmac_length : forall fuel x d, length x = 16 -> length (cbcmac E fuel x d) = 16.
  Proof.
    induction fuel as [|f IH]; intros x d Hx; cbn [cbcmac]; [exact Hx|].
    destruct d; [exact Hx|]. apply IH. apply E_len.
  Qed.
  Lemma ccm_tag16_length a p t : length (ccm_tag16 E iv a p t) = 16.
  Proof.
    unfold ccm_tag16, cbc_mac. rewrite xor_bytes_length, E_len, cbcmac_length; [reflexivity|apply zeros_length].
  Qed.

  Theorem ccm_dec_accepts_enc p taglen c tag :
    ccm_encrypt E iv aad p taglen = Ok (c, tag) -> ccm_decrypt E iv aad c tag = Ok p.
  Proof.
    unfold ccm_encrypt. intros H.
    destruct (ccm_args_ok (length iv) taglen && ccm_len_ok (length iv) (N.of_nat (length p))) eqn:Hg;
      [|discriminate].
    cbn [negb] in H. inversion H; subst c tag; clear H.
    apply andb_prop in Hg. destruct Hg as [Ha Hlen].
    assert (Ht16 : taglen <= 16).
    { unfold ccm_args_ok in Ha. repeat (apply andb_prop in Ha; destruct Ha as [Ha ?]).
      match goal with H : (taglen <=? 16) = true |- _ => apply Nat.leb_le in H; exact H end. }
    set (c := ccm_ctr E iv p).
    assert (Hcl : length c = length p).
    { unfold c, ccm_ctr. apply (ctr_crypt_length E E_len [] 0). lia. }
    assert (Hinv : ccm_ctr E iv c = p).
    { unfold c, ccm_ctr. rewrite (ctr_crypt_length E E_len [] 0) by lia.
      apply (ctr_crypt_invol E E_len [] 0). lia. }
    apply ccm_accept_iff.
    assert (Htl : length (firstn taglen (ccm_tag16 E iv aad p taglen)) = taglen)
      by (rewrite firstn_length, ccm_tag16_length; lia).
    rewrite Htl, Hcl, Hinv. repeat split; auto.
  Qed.
End CcmRule.

(* ===================== CCM = RFC 3610 ===================== *)
(* counter blocks: the byte-wise carry loop over the last L bytes is +1 on the big-endian counter *)
Lemma rev_N_to_be k x : rev (N_to_be (S k) x) = (x mod 256)%N :: rev (N_to_be k (x / 256)%N).
Proof. cbn [N_to_be]. rewrite rev_app_distr. reflexivity. Qed.

Lemma incr_rev_be : forall k x, incr_rev k (rev (N_to_be k x)) = rev (N_to_be k (x + 1)%N).
Proof.
  induction k as [|k IH]; intros x; [reflexivity|].
  rewrite !rev_N_to_be. cbn [incr_rev].
  replace ((x mod 256 + 1) mod 256)%N with ((x + 1) mod 256)%N by lia.
  destruct (((x + 1) mod 256) =? 0)%N eqn:Ez.
  - apply N.eqb_eq in Ez. f_equal. rewrite IH. f_equal. f_equal. lia.
  - apply N.eqb_neq in Ez. f_equal. f_equal. f_equal. lia.
Qed.

Lemma incr_rev_app : forall k a b, length a = k -> incr_rev k (a ++ b) = incr_rev k a ++ b.
Proof.
  induction k as [|k IH]; intros a b Ha.
  - destruct a; [|discriminate]. destruct b; reflexivity.
  - destruct a as [|x a]; [discriminate|]. cbn [app incr_rev].
    destruct ((x + 1) mod 256 =? 0)%N; [|reflexivity].
    cbn [app]. f_equal. apply IH. cbn in Ha. lia.
Qed.

Lemma N_to_be_length k x : length (N_to_be k x) = k.
Proof. revert x; induction k as [|k IH]; intros x; cbn [N_to_be]; [reflexivity|]. rewrite app_length, IH. cbn. lia. Qed.

Lemma ctr_n_incr_be L pre i :
  ctr_n_incr L (pre ++ N_to_be L i) = pre ++ N_to_be L (i + 1)%N.
Proof.
  unfold ctr_n_incr. rewrite rev_app_distr.
  rewrite incr_rev_app by (rewrite rev_length; apply N_to_be_length).
  rewrite incr_rev_be, rev_app_distr, !rev_involutive. reflexivity.
Qed.

Lemma zeros_snoc k : zeros k ++ [0%N] = zeros (S k).
Proof. induction k as [|k IH]; [reflexivity|]. cbn [zeros app]. rewrite IH. reflexivity. Qed.
Lemma N_to_be_0 k : N_to_be k 0 = zeros k.
Proof.
  induction k as [|k IH]; [reflexivity|]. cbn [N_to_be]. change (0 / 256)%N with 0%N. rewrite IH.
  change (0 mod 256)%N with 0%N. apply zeros_snoc.
Qed.
Lemma N_to_be_1 k : N_to_be (S k) 1 = zeros k ++ [1%N].
Proof. cbn [N_to_be]. change (1 / 256)%N with 0%N. rewrite N_to_be_0. reflexivity. Qed.

Lemma firstn_zeros k m : k <= m -> firstn k (zeros m) = zeros k.
Proof.
  revert m; induction k as [|k IH]; intros m H; [reflexivity|].
  destruct m; [lia|]. cbn [zeros firstn]. f_equal. apply IH. lia.
Qed.

(* the flags octet: the C bit operations = the RFC's 64*Adata + 8*((M-2)/2) + (L-1) *)
Lemma ccm_flags_ok n M (adata : bool) : ccm_args_ok n M = true ->
  N.lor (N.lor (N.shiftl (if adata then 1 else 0) 6) (N.shiftl (N.land ((N.of_nat M - 2) / 2) 7) 3))
        (N.land (N.of_nat (15 - n) - 1) 7)
  = spec_flags adata M (15 - n) /\ N.land (N.of_nat (15 - n) - 1) 7 = (N.of_nat (15 - n) - 1)%N.
Proof.
  unfold ccm_args_ok. intros H.
  repeat (apply andb_prop in H; destruct H as [H ?]).
  repeat match goal with Hx : (_ <=? _) = true |- _ => apply Nat.leb_le in Hx end.
  assert (Hn : n = 7 \/ n = 8 \/ n = 9 \/ n = 10 \/ n = 11 \/ n = 12 \/ n = 13) by lia.
  match goal with He : Nat.even M = true |- _ => rename He into Hev end.
  assert (HM : M = 4 \/ M = 5 \/ M = 6 \/ M = 7 \/ M = 8 \/ M = 9 \/ M = 10 \/ M = 11 \/ M = 12 \/
               M = 13 \/ M = 14 \/ M = 15 \/ M = 16) by lia.
  destruct HM as [->|[->|[->|[->|[->|[->|[->|[->|[->|[->|[->|[->| ->]]]]]]]]]]]]; try discriminate Hev.
  all: destruct adata; destruct Hn as [->|[->|[->|[->|[->|[->| ->]]]]]]; split; reflexivity.
Qed.

Section CcmRfc.
  Variable E : list N -> list N.

  Lemma ccm_ctr_steps nonce : forall fuel i d,
    ctr_crypt E (ctr_n_incr (15 - length nonce)) fuel (spec_Ai nonce i) d = spec_ctr E fuel nonce i d.
  Proof.
    induction fuel as [|f IH]; intros i d; [reflexivity|].
    cbn [ctr_crypt spec_ctr]. destruct d; [reflexivity|]. f_equal.
    rewrite <- IH. f_equal. unfold spec_Ai. rewrite app_assoc, ctr_n_incr_be, <- app_assoc. reflexivity.
  Qed.

  Lemma ccm_a0_spec iv M : ccm_args_ok (length iv) M = true -> ccm_a0 iv = spec_Ai iv 0.
  Proof.
    intros H. unfold ccm_a0, spec_Ai. rewrite N_to_be_0.
    destruct (ccm_flags_ok _ _ false H) as [_ ->]. reflexivity.
  Qed.

  Lemma ccm_a1_spec iv M : ccm_args_ok (length iv) M = true -> ccm_a1 iv = spec_Ai iv 1.
  Proof.
    intros H. unfold ccm_a1. rewrite (ccm_a0_spec iv M H). unfold spec_Ai.
    assert (Hn : 7 <= length iv <= 13).
    { unfold ccm_args_ok in H. repeat (apply andb_prop in H; destruct H as [H ?]).
      repeat match goal with Hx : (_ <=? _) = true |- _ => apply Nat.leb_le in Hx end. lia. }
    set (L := 15 - length iv) in *.
    destruct L as [|L'] eqn:EL; [lia|].
    rewrite N_to_be_0, N_to_be_1.
    rewrite firstn_app. cbn [length]. rewrite (firstn_all2 [_]) by (cbn; lia).
    rewrite firstn_app, (firstn_all2 iv) by lia.
    replace (15 - 1 - length iv) with L' by lia.
    rewrite firstn_zeros by lia. rewrite <- !app_assoc. reflexivity.
  Qed.

  Lemma ccm_mac_input_spec iv aad p M : ccm_args_ok (length iv) M = true ->
    ccm_mac_input iv aad p M = spec_blocks iv aad p M.
  Proof.
    intros H. unfold ccm_mac_input, spec_blocks, ccm_b0, spec_b0, length_to_bytes.
    destruct aad as [|a0 aad].
    - cbn [length Nat.eqb negb]. change (0 <? N.of_nat 0)%N with false.
      destruct (ccm_flags_ok _ _ false H) as [-> _]. reflexivity.
    - cbn [length Nat.eqb negb].
      replace (0 <? N.of_nat (S (length aad)))%N with true by (symmetry; apply N.ltb_lt; lia).
      destruct (ccm_flags_ok _ _ true H) as [-> _]. reflexivity.
  Qed.

  (* ---- ccm_eq_rfc3610: whenever the code accepts the arguments, its output is the RFC's ---- *)
  Theorem ccm_eq_rfc3610 iv aad p M r :
    ccm_encrypt E iv aad p M = Ok r -> r = ccm_spec_encrypt E iv aad p M.
  Proof.
    unfold ccm_encrypt. intros H.
    destruct (ccm_args_ok (length iv) M && ccm_len_ok (length iv) (N.of_nat (length p))) eqn:Hg; [|discriminate].
    cbn [negb] in H. inversion H; subst r; clear H.
    apply andb_prop in Hg. destruct Hg as [Ha _].
    unfold ccm_spec_encrypt, ccm_ctr, ccm_tag16.
    rewrite (ccm_a1_spec iv M Ha), ccm_ctr_steps, (ccm_mac_input_spec iv aad p M Ha), (ccm_a0_spec iv M Ha).
    reflexivity.
  Qed.
End CcmRfc.

(* ===================== read extents ===================== *)
(* sm4_gcm_decrypt_update never reads past its input, for every tag length, window and input *)
Theorem gcm_dec_update_reads_in_bounds (c : gcm_ctx) (d : list N) : gcm_dec_update_overread c d = 0.
Proof.
  unfold gcm_dec_update_overread, w_update_overread.
  destruct (_ && _); [reflexivity|]. destruct (_ <=? _); [reflexivity|]. apply Nat.sub_diag.
Qed.

(* zuc_encrypt reads exactly its input, for every length *)
Lemma zuc_reads_le : forall fuel rem, zuc_reads (fun r => r) fuel rem <= rem.
Proof.
  induction fuel as [|f IH]; intros rem; cbn [zuc_reads]; [lia|].
  destruct (rem =? 0); [lia|]. destruct (4 <=? rem) eqn:E4; [|lia].
  apply Nat.leb_le in E4. specialize (IH (rem - 4)). lia.
Qed.
Theorem zuc_encrypt_reads_in_bounds inlen : zuc_encrypt_overread inlen = 0.
Proof. unfold zuc_encrypt_overread, zuc_encrypt_read_extent. pose proof (zuc_reads_le inlen inlen). lia. Qed.

(* ===================== history: the formulas of the code before the repairs ===================== *)
(* before 27e8567: a 14-byte AAD (encoded: 2 + 14 bytes) was followed by 16 zero bytes instead of none *)
Example ccm_aad_pad_before_27e8567 : ccm_aad_pad_old 16 = 16 /\ ccm_aad_pad 16 = 0.
Proof. split; reflexivity. Qed.
(* before d8f414a: with an 11-byte nonce the x86 build compared inlen against 1 << (32 mod 32) = 1,
   i.e. refused every non-empty message; the guard now is 2^32 *)
Example ccm_dec_limit_before_d8f414a :
  ccm_dec_limit_old_x86 11 = 1%N /\ ccm_len_ok 11 1 = true /\ ccm_len_ok 11 (2^32) = false.
Proof. repeat split; reflexivity. Qed.
(* before a37c004: the bulk branch copied 16 bytes where taglen = 12 remain: 4 bytes past the input *)
Example gcm_overread_before_a37c004 : w_update_overread 12 16 [] (zeros 30) = 4.
Proof. reflexivity. Qed.
(* before fef12f3: a 5-byte input was read up to byte 8 *)
Example zuc_read_extent_before_fef12f3 : zuc_encrypt_read_extent_old 5 = 8 /\ zuc_encrypt_read_extent 5 = 5.
Proof. split; reflexivity. Qed.

(* ===================== CBC-MAC: a change confined to one block always changes the MAC ===================== *)
Lemma bytes_ok_app a b : bytes_ok (a ++ b) = bytes_ok a && bytes_ok b.
Proof. apply forallb_app. Qed.
Lemma bytes_ok_zeros n : bytes_ok (zeros n) = true.
Proof. induction n; [reflexivity|exact IHn]. Qed.
Lemma bytes_ok_firstn n l : bytes_ok l = true -> bytes_ok (firstn n l) = true.
Proof. revert l; induction n as [|n IH]; intros [|x l] H; try reflexivity. cbn in *. apply andb_prop in H. destruct H as [H1 H2]. rewrite H1. apply IH, H2. Qed.
Lemma bytes_ok_skipn n l : bytes_ok l = true -> bytes_ok (skipn n l) = true.
Proof. revert l; induction n as [|n IH]; intros [|x l] H; try reflexivity; try exact H. cbn in *. apply andb_prop in H. apply IH, H. Qed.
Lemma bytes_ok_xor : forall a b, bytes_ok a = true -> bytes_ok b = true -> bytes_ok (xor_bytes a b) = true.
Proof.
  induction a as [|x a IH]; intros [|y b] Ha Hb; try reflexivity. cbn in *.
  apply andb_prop in Ha. apply andb_prop in Hb. destruct Ha as [Hx Ha], Hb as [Hy Hb].
  apply N.ltb_lt in Hx. apply N.ltb_lt in Hy.
  rewrite (proj2 (N.ltb_lt _ _) (AESProofs.lxor_byte x y Hx Hy)). apply IH; assumption.
Qed.

Section CbcMacInj.
  Variable E : list N -> list N.
  Hypothesis E_len : forall x, length (E x) = 16.
  Hypothesis E_ok : forall x, bytes_ok (E x) = true.
  (* E_K is injective on well-formed blocks (it is a permutation of them) *)
  Hypothesis E_inj : forall x x', blk_ok x -> blk_ok x' -> E x = E x' -> x = x'.

  Lemma pad16_length l : length l <= 16 -> length (pad16 l) = 16.
  Proof. intros H. unfold pad16. rewrite app_length, zeros_length. lia. Qed.
  Lemma pad16_full l : length l = 16 -> pad16 l = l.
  Proof. intros H. unfold pad16. rewrite H. cbn [Nat.sub zeros]. apply app_nil_r. Qed.
  Lemma pad16_ok l : bytes_ok l = true -> bytes_ok (pad16 l) = true.
  Proof. intros H. unfold pad16. rewrite bytes_ok_app, H, bytes_ok_zeros. reflexivity. Qed.
  Lemma E_blk x : blk_ok (E x).
  Proof. split; [apply E_len|apply E_ok]. Qed.
  Lemma xor_blk x blk : blk_ok x -> length blk = 16 -> bytes_ok blk = true -> blk_ok (xor_bytes x blk).
  Proof. intros [Hl Ho] Hb Hbo. split; [rewrite xor_bytes_length; lia|apply bytes_ok_xor; assumption]. Qed.

  Lemma cbcmac_fuel : forall f1 f2 x d, length d <= 16 * f1 -> length d <= 16 * f2 ->
    cbcmac E f1 x d = cbcmac E f2 x d.
  Proof.
    induction f1 as [|f1 IH]; intros f2 x d H1 H2.
    - destruct d; [|cbn in H1; lia]. destruct f2; reflexivity.
    - destruct d as [|b d]; [destruct f2; reflexivity|].
      destruct f2 as [|f2]; [cbn in H2; lia|]. cbn [cbcmac]. apply IH; rewrite skipn_length; lia.
  Qed.
  Lemma cbcmac_split : forall k f x pre rest, length pre = 16 * k ->
    cbcmac E (k + f) x (pre ++ rest) = cbcmac E f (cbcmac E k x pre) rest.
  Proof.
    induction k as [|k IH]; intros f x pre rest Hp.
    - destruct pre; [reflexivity|cbn in Hp; lia].
    - destruct pre as [|b pre]; [cbn in Hp; lia|].
      set (p0 := b :: pre) in *. cbn [Nat.add cbcmac].
      assert (Hnn : p0 ++ rest <> []) by (unfold p0; discriminate).
      destruct (p0 ++ rest) eqn:Eab; [contradiction|]. rewrite <- Eab. clear Eab Hnn.
      unfold p0 at 3. fold p0.
      rewrite firstn_app, skipn_app. replace (16 - length p0) with 0 by lia.
      rewrite firstn_O, skipn_O, app_nil_r.
      apply IH. rewrite skipn_length. lia.
  Qed.
  Lemma cbcmac_blk : forall f x d, blk_ok x -> blk_ok (cbcmac E f x d).
  Proof.
    induction f as [|f IH]; intros x d Hx; cbn [cbcmac]; [exact Hx|].
    destruct d; [exact Hx|]. apply IH, E_blk.
  Qed.

  (* different chaining values stay different under the same remaining data *)
  Lemma cbcmac_diff : forall f x x' d, blk_ok x -> blk_ok x' -> bytes_ok d = true -> x <> x' ->
    cbcmac E f x d <> cbcmac E f x' d.
  Proof.
    induction f as [|f IH]; intros x x' d Hx Hx' Hd Hne; cbn [cbcmac]; [exact Hne|].
    destruct d as [|b d]; [exact Hne|].
    set (blk := pad16 (firstn 16 (b :: d))).
    assert (Hbl : length blk = 16) by (apply pad16_length; rewrite firstn_length; lia).
    assert (Hbo : bytes_ok blk = true) by (apply pad16_ok, bytes_ok_firstn, Hd).
    apply IH; try apply E_blk; [apply bytes_ok_skipn, Hd|].
    intros HE. apply E_inj in HE; try (apply xor_blk; assumption). apply Hne.
    apply (xor_bytes_cancel_r x x' blk); try exact HE; destruct Hx, Hx'; lia.
  Qed.

  Theorem cbc_mac_one_block_change pre b b' post :
    length pre mod 16 = 0 -> length b = 16 -> length b' = 16 -> b <> b' ->
    bytes_ok pre = true -> bytes_ok b = true -> bytes_ok b' = true -> bytes_ok post = true ->
    cbc_mac E (pre ++ b ++ post) <> cbc_mac E (pre ++ b' ++ post).
  Proof.
    intros Hpre Hb Hb' Hne Hop Hob Hob' Hopost. unfold cbc_mac.
    set (k := length pre / 16).
    assert (Hk : length pre = 16 * k) by (pose proof (Nat.div_mod (length pre) 16 ltac:(lia)); subst k; lia).
    set (f := 1 + length post).
    rewrite (cbcmac_fuel _ (k + f) _ (pre ++ b ++ post)) by (rewrite !app_length; unfold f; lia).
    rewrite (cbcmac_fuel _ (k + f) _ (pre ++ b' ++ post)) by (rewrite !app_length; unfold f; lia).
    rewrite !cbcmac_split by exact Hk.
    set (X := cbcmac E k (zeros 16) pre).
    assert (HX : blk_ok X) by (apply cbcmac_blk; split; [apply zeros_length|apply bytes_ok_zeros]).
    unfold f. cbn [Nat.add cbcmac].
    destruct b as [|b0 bt]; [discriminate|]. destruct b' as [|b0' bt']; [discriminate|].
    cbn [app]. set (B := b0 :: bt) in *. set (B' := b0' :: bt') in *.
    change (b0 :: bt ++ post) with (B ++ post). change (b0' :: bt' ++ post) with (B' ++ post).
    rewrite !firstn_app, !skipn_app, Hb, Hb', Nat.sub_diag, !firstn_O, !skipn_O, !app_nil_r.
    rewrite !firstn_all2, !skipn_all2 by lia. cbn [app].
    rewrite !pad16_full by assumption.
    apply cbcmac_diff; try apply E_blk; [exact Hopost|].
    intros HE. apply E_inj in HE; try (apply xor_blk; assumption). apply Hne.
    apply (xor_bytes_cancel_l X B B'); try exact HE; destruct HX; lia.
  Qed.

  (* CCM, 16-byte tag, same key and nonce: if the formatted MAC inputs of the genuine message and of a
     modified (AAD', C') differ in exactly one aligned block -- which is what a bit flip in the AAD or
     in the ciphertext produces -- the modified message is rejected. *)
  Theorem ccm_one_block_change_rejected iv aad c aad' c' tag p pre b b' post :
    length tag = 16 ->
    ccm_decrypt E iv aad c tag = Ok p ->
    ccm_mac_input iv aad (ccm_ctr E iv c) 16 = pre ++ b ++ post ->
    ccm_mac_input iv aad' (ccm_ctr E iv c') 16 = pre ++ b' ++ post ->
    length pre mod 16 = 0 -> length b = 16 -> length b' = 16 -> b <> b' ->
    bytes_ok pre = true -> bytes_ok b = true -> bytes_ok b' = true -> bytes_ok post = true ->
    forall p', ccm_decrypt E iv aad' c' tag <> Ok p'.
  Proof.
    intros Ht Hok Hm Hm' Hpre Hb Hb' Hne Hop Hob Hob' Hopost p' Hok'.
    apply ccm_accept_iff in Hok. apply ccm_accept_iff in Hok'.
    destruct Hok as (_ & _ & _ & T1). destruct Hok' as (_ & _ & _ & T2).
    rewrite Ht in T1, T2.
    rewrite firstn_all2 in T1, T2 by (rewrite (ccm_tag16_length E iv E_len); lia).
    unfold ccm_tag16 in T1, T2. rewrite Hm in T1. rewrite Hm' in T2. rewrite <- T2 in T1.
    assert (Hz : blk_ok (zeros 16)) by (split; [apply zeros_length|apply bytes_ok_zeros]).
    apply xor_bytes_cancel_r in T1.
    - exact (cbc_mac_one_block_change pre b b' post Hpre Hb Hb' Hne Hop Hob Hob' Hopost T1).
    - unfold cbc_mac. rewrite E_len. apply cbcmac_blk, Hz.
    - unfold cbc_mac. rewrite E_len. apply cbcmac_blk, Hz.
  Qed.
End CbcMacInj.

(* ---- instance: the ciphertext changed inside one aligned 16-byte block (any bit flips there) ---- *)
Lemma bytes_ok_N_to_be k x : bytes_ok (N_to_be k x) = true.
Proof.
  revert x; induction k as [|k IH]; intros x; [reflexivity|]. cbn [N_to_be].
  rewrite bytes_ok_app, IH. cbn. replace (x mod 256 <? 256)%N with true; [reflexivity|].
  symmetry. apply N.ltb_lt. apply N.mod_lt. discriminate.
Qed.

Section CcmCtBlock.
  Variable E : list N -> list N.
  Hypothesis E_len : forall x, length (E x) = 16.
  Hypothesis E_ok : forall x, bytes_ok (E x) = true.
  Hypothesis E_inj : forall x x', blk_ok x -> blk_ok x' -> E x = E x' -> x = x'.

  Lemma ctr_crypt_ok incr : forall f ctr d, bytes_ok d = true -> bytes_ok (ctr_crypt E incr f ctr d) = true.
  Proof.
    induction f as [|f IH]; intros ctr d Hd; [reflexivity|]. cbn [ctr_crypt].
    destruct d as [|b d]; [reflexivity|].
    rewrite bytes_ok_app, bytes_ok_xor, IH; try reflexivity;
      first [apply bytes_ok_skipn, Hd | apply bytes_ok_firstn, Hd | apply E_ok].
  Qed.

  Lemma ccm_ctr_block iv cpre (cb : list N) cpost : length cpre mod 16 = 0 -> length cb = 16 ->
    bytes_ok cpre = true -> bytes_ok cpost = true ->
    exists P1 K P3, length P1 = length cpre /\ length K = 16 /\
      bytes_ok P1 = true /\ bytes_ok K = true /\ bytes_ok P3 = true /\
      forall cb0 : list N, length cb0 = 16 ->
        ccm_ctr E iv (cpre ++ cb0 ++ cpost) = P1 ++ xor_bytes cb0 K ++ P3.
  Proof.
    intros Hpre Hcb Hop Hopost.
    set (k := length cpre / 16).
    assert (Hk : length cpre = 16 * k) by (pose proof (Nat.div_mod (length cpre) 16 ltac:(lia)); subst k; lia).
    set (incr := ctr_n_incr (15 - length iv)).
    exists (ctr_crypt E incr k (ccm_a1 iv) cpre), (E (incr_k incr k (ccm_a1 iv))),
           (ctr_crypt E incr (length cpost) (incr (incr_k incr k (ccm_a1 iv))) cpost).
    split; [apply (ctr_crypt_length E E_len [] 0); lia|]. split; [apply E_len|].
    split; [apply ctr_crypt_ok, Hop|]. split; [apply E_ok|]. split; [apply ctr_crypt_ok, Hopost|].
    intros cb0 Hcb0. unfold ccm_ctr. fold incr.
    rewrite (ctr_fuel E incr _ (k + (1 + length cpost))) by (rewrite !app_length; lia).
    rewrite ctr_split by exact Hk. f_equal.
    cbn [Nat.add ctr_crypt].
    destruct cb0 as [|x0 xt]; [discriminate|]. cbn [app]. set (B := x0 :: xt) in *.
    change (x0 :: xt ++ cpost) with (B ++ cpost).
    rewrite firstn_app, skipn_app, Hcb0, Nat.sub_diag, firstn_O, skipn_O, app_nil_r.
    rewrite firstn_all2, skipn_all2 by lia. reflexivity.
  Qed.

  Lemma ccm_b0_length iv al pl t : length iv <= 15 -> length (ccm_b0 iv al pl t) = 16.
  Proof. intros H. unfold ccm_b0, length_to_bytes. rewrite !app_length, N_to_be_length. cbn [length]. lia. Qed.
  Lemma ccm_b0_ok iv al pl t : ccm_args_ok (length iv) t = true -> bytes_ok iv = true ->
    bytes_ok (ccm_b0 iv al pl t) = true.
  Proof.
    intros Ha Hiv. unfold ccm_b0, length_to_bytes.
    rewrite !bytes_ok_app, Hiv, bytes_ok_N_to_be, !andb_true_r.
    destruct (ccm_flags_ok _ _ (0 <? al)%N Ha) as [Hf _].
    replace (if (0 <? al)%N then 1%N else 0%N) with (if (0 <? al)%N then 1%N else 0%N) in Hf by reflexivity.
    rewrite Hf. unfold spec_flags. cbn [bytes_ok forallb]. rewrite andb_true_r. apply N.ltb_lt.
    unfold ccm_args_ok in Ha. repeat (apply andb_prop in Ha; destruct Ha as [Ha ?]).
    repeat match goal with Hx : (_ <=? _) = true |- _ => apply Nat.leb_le in Hx end.
    destruct (0 <? al)%N; lia.
  Qed.
  Lemma ccm_aad_hdr_ok al : bytes_ok (ccm_aad_hdr al) = true.
  Proof.
    unfold ccm_aad_hdr, length_to_bytes.
    destruct (al <? 2 ^ 16 - 2 ^ 8)%N; [apply bytes_ok_N_to_be|].
    destruct (al <? 2 ^ 32)%N; rewrite bytes_ok_app, bytes_ok_N_to_be; reflexivity.
  Qed.

  Theorem ccm_ct_block_change_rejected iv aad cpre cb cb' cpost tag p :
    length tag = 16 -> length cpre mod 16 = 0 -> length cb = 16 -> length cb' = 16 -> cb <> cb' ->
    bytes_ok iv = true -> bytes_ok aad = true ->
    bytes_ok cpre = true -> bytes_ok cb = true -> bytes_ok cb' = true -> bytes_ok cpost = true ->
    ccm_decrypt E iv aad (cpre ++ cb ++ cpost) tag = Ok p ->
    forall p', ccm_decrypt E iv aad (cpre ++ cb' ++ cpost) tag <> Ok p'.
  Proof.
    intros Ht Hpre Hcb Hcb' Hne Hoiv Hoaad Hop Hob Hob' Hopost Hok.
    destruct (ccm_ctr_block iv cpre cb cpost Hpre Hcb Hop Hopost) as (P1 & K & P3 & HP1 & HK & HoP1 & HoK & HoP3 & Hctr).
    assert (Hargs : ccm_args_ok (length iv) 16 = true).
    { apply ccm_accept_iff in Hok. destruct Hok as (Ha & _). rewrite Ht in Ha. exact Ha. }
    assert (Hiv : length iv <= 15).
    { unfold ccm_args_ok in Hargs. repeat (apply andb_prop in Hargs; destruct Hargs as [Hargs ?]).
      repeat match goal with Hx : (_ <=? _) = true |- _ => apply Nat.leb_le in Hx end. lia. }
    set (hdr := fun (plen : nat) => ccm_b0 iv (N.of_nat (length aad)) (N.of_nat plen) 16 ++
                 match aad with
                 | [] => []
                 | _ :: _ => (ccm_aad_hdr (N.of_nat (length aad)) ++ aad) ++
                             zeros (ccm_aad_pad (length (ccm_aad_hdr (N.of_nat (length aad)) ++ aad)))
                 end).
    assert (Hlenp : forall cb0 : list N, length cb0 = 16 -> length (P1 ++ xor_bytes cb0 K ++ P3) = length cpre + 16 + length P3).
    { intros cb0 H0. rewrite !app_length, xor_bytes_length, H0, HK, HP1. lia. }
    set (plen := length cpre + 16 + length P3).
    assert (Hhdr : length (hdr plen) mod 16 = 0).
    { unfold hdr. rewrite app_length, ccm_b0_length by exact Hiv.
      destruct aad as [|a0 aad']; [reflexivity|].
      rewrite app_length, zeros_length. unfold ccm_aad_pad.
      set (n := length (ccm_aad_hdr (N.of_nat (length (a0 :: aad'))) ++ a0 :: aad')). lia. }
    assert (Hohdr : bytes_ok (hdr plen) = true).
    { unfold hdr. rewrite bytes_ok_app, ccm_b0_ok by assumption.
      destruct aad as [|a0 aad']; [reflexivity|].
      rewrite !bytes_ok_app, ccm_aad_hdr_ok, Hoaad, bytes_ok_zeros. reflexivity. }
    apply (ccm_one_block_change_rejected E E_len E_ok E_inj iv aad (cpre ++ cb ++ cpost) aad (cpre ++ cb' ++ cpost) tag p
             (hdr plen ++ P1) (xor_bytes cb K) (xor_bytes cb' K)
             (P3 ++ zeros ((16 - plen mod 16) mod 16))); try assumption.
    - rewrite (Hctr cb Hcb). unfold ccm_mac_input. rewrite (Hlenp cb Hcb). fold plen.
      unfold hdr. rewrite <- !app_assoc. reflexivity.
    - rewrite (Hctr cb' Hcb'). unfold ccm_mac_input. rewrite (Hlenp cb' Hcb'). fold plen.
      unfold hdr. rewrite <- !app_assoc. reflexivity.
    - rewrite app_length, HP1. lia.
    - rewrite xor_bytes_length, Hcb, HK. reflexivity.
    - rewrite xor_bytes_length, Hcb', HK. reflexivity.
    - intros HE. apply Hne. rewrite (xor_bytes_comm cb K), (xor_bytes_comm cb' K) in HE.
      apply (xor_bytes_cancel_l K cb cb'); try exact HE; lia.
    - rewrite bytes_ok_app, Hohdr, HoP1. reflexivity.
    - apply bytes_ok_xor; assumption.
    - apply bytes_ok_xor; assumption.
    - rewrite bytes_ok_app, HoP3, bytes_ok_zeros. reflexivity.
  Qed.
End CcmCtBlock.

(* ---- SM4-CCM: unconditional (E_K injective on blocks by the SM4 inversion theorem) ---- *)
From GmVerif Require Import Cipher.SM4Proofs.
(* never unfold the block cipher during conversion: [sm4E key] must be unfolded to it first *)
Local Strategy 1000 [sm4_encrypt_block sm4_decrypt_block sm4_crypt_block].
Lemma sm4E_inj key x x' : length key = 16 -> blk_ok x -> blk_ok x' -> sm4E key x = sm4E key x' -> x = x'.
Proof.
  intros Hk [Hl Ho] [Hl' Ho'] HE. unfold sm4E in HE.
  pose proof (sm4_dec_enc key x Hk Hl Ho) as H1. pose proof (sm4_dec_enc key x' Hk Hl' Ho') as H2.
  rewrite HE in H1. congruence.
Qed.
Theorem sm4_ccm_ct_block_change_rejected key iv aad cpre cb cb' cpost tag p :
  length key = 16 ->
  length tag = 16 -> length cpre mod 16 = 0 -> length cb = 16 -> length cb' = 16 -> cb <> cb' ->
  bytes_ok iv = true -> bytes_ok aad = true ->
  bytes_ok cpre = true -> bytes_ok cb = true -> bytes_ok cb' = true -> bytes_ok cpost = true ->
  sm4_ccm_decrypt key iv aad (cpre ++ cb ++ cpost) tag = Ok p ->
  forall p', sm4_ccm_decrypt key iv aad (cpre ++ cb' ++ cpost) tag <> Ok p'.
Proof.
  intros Hk Ht Hpre Hcb Hcb' Hne Hoiv Hoaad Hop Hob Hob' Hopost Hok.
  assert (HL : forall x, length (sm4E key x) = 16) by (intros x; apply sm4_encrypt_block_length).
  assert (HO : forall x, bytes_ok (sm4E key x) = true) by (intros x; apply sm4_encrypt_block_ok).
  assert (HI : forall x x', blk_ok x -> blk_ok x' -> sm4E key x = sm4E key x' -> x = x')
    by (intros x x'; apply sm4E_inj, Hk).
  exact (ccm_ct_block_change_rejected (sm4E key) HL HO HI iv aad cpre cb cb' cpost tag p
           Ht Hpre Hcb Hcb' Hne Hoiv Hoaad Hop Hob Hob' Hopost Hok).
Qed.

(* ---- SM4-GCM, 12-byte IVs, 16-byte tag: every nonce change is rejected (no premise left) ---- *)
Theorem sm4_gcm_nonce_change_rejected key iv iv' aad c tag p :
  length key = 16 -> length tag = 16 -> length iv = 12 -> length iv' = 12 -> iv <> iv' ->
  bytes_ok iv = true -> bytes_ok iv' = true ->
  sm4_gcm_decrypt key iv aad c tag = Ok p ->
  forall p', sm4_gcm_decrypt key iv' aad c tag <> Ok p'.
Proof.
  intros Hk Ht Hi Hi' Hne Ho Ho' Hok.
  assert (HL : forall x, length (sm4E key x) = 16) by (intros x; apply sm4_encrypt_block_length).
  assert (HI : forall x x', blk_ok x -> blk_ok x' -> sm4E key x = sm4E key x' -> x = x')
    by (intros x x'; apply sm4E_inj, Hk).
  exact (gcm_nonce_change_rejected_partial (sm4E key) HL true iv iv' aad c tag p HI Ht Hi Hi' Hne Ho Ho' Hok).
Qed.
