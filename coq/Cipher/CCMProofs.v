(* CCM (src/sm4_ccm.c after commits 27e8567, d8f414a): one-shot decision rule, tag-change rejection,
   decrypt inverts encrypt, and equality with RFC 3610 (B0 / AAD encoding / padding / counter blocks).
   Read extents of sm4_gcm_decrypt_update (after a37c004) and zuc_encrypt (after fef12f3) stay inside
   the input for every tag length / input length.  The Examples at the end record, on concrete
   inputs, what the formulas of the code BEFORE those commits computed. *)
From GmVerif Require Import Base.ListX Base.Bytes Cipher.SM4 Cipher.GF128 Cipher.GCM Cipher.CCM
  Cipher.ZUC Cipher.Aead Cipher.AeadProofs Cipher.GCMProofs.
Require Import Lia ZifyN ZifyNat ZifyBool.
Ltac Zify.zify_post_hook ::= Z.div_mod_to_equations.
Local Open Scope nat_scope.

Section CcmRule.
  Variable E : list N -> list N.
  Variables (iv aad : list N).

  (* accept <=> argument checks pass and the recomputed MAC over the decrypted text, truncated to
     |tag| bytes, equals the presented tag *)
  Theorem ccm_accept_iff c tag p :
    ccm_decrypt E iv aad c tag = Ok p <->
    ccm_args_ok (length iv) (length tag) = true /\
    ccm_len_ok (length iv) (N.of_nat (length c)) = true /\
    p = ccm_ctr E iv c /\
    firstn (length tag) (ccm_tag16 E iv aad (ccm_ctr E iv c) (length tag)) = tag.
  Proof.
    unfold ccm_decrypt.
    destruct (ccm_args_ok (length iv) (length tag)); cbn [negb andb];
      [|split; [discriminate|intros [H _]; discriminate]].
    destruct (ccm_len_ok (length iv) (N.of_nat (length c))); cbn [negb];
      [|split; [discriminate|intros (_ & H & _); discriminate]].
    destruct (bytes_eqb _ tag) eqn:Eb.
    - apply bytes_eqb_eq in Eb. split.
      + intros H; inversion H; subst. repeat split; auto.
      + intros (_ & _ & -> & _). reflexivity.
    - apply bytes_eqb_neq in Eb. split; [discriminate|]. intros (_ & _ & _ & H). contradiction.
  Qed.

  Theorem ccm_tag_change_rejected c tag tag' p :
    length tag = length tag' -> tag <> tag' ->
    ccm_decrypt E iv aad c tag = Ok p -> ccm_decrypt E iv aad c tag' = Err.
  Proof.
    intros Hl Hne H1. apply ccm_accept_iff in H1. destruct H1 as (_ & _ & _ & T1).
    destruct (ccm_decrypt E iv aad c tag') as [p'| |] eqn:E2; [|reflexivity|].
    - apply ccm_accept_iff in E2. destruct E2 as (_ & _ & _ & T2). rewrite <- Hl in T2. congruence.
    - unfold ccm_decrypt in E2. destruct (negb _); [discriminate|]. destruct (bytes_eqb _ _); discriminate.
  Qed.

  (* ---- decrypt inverts encrypt (needs only that E returns 16-byte blocks) ---- *)
  Hypothesis E_len : forall x, length (E x) = 16.

  Lemma cbcmac_length : forall fuel x d, length x = 16 -> length (cbcmac E fuel x d) = 16.
  Proof.
    induction fuel as [|f IH]; intros x d Hx; cbn [cbcmac]; [exact Hx|].
    destruct d; [exact Hx|]. apply IH. apply E_len.
  Qed.
  Lemma ccm_tag16_length a p t : length (ccm_tag16 E iv a p t) = 16.
  Proof.
    unfold ccm_tag16, cbc_mac. rewrite xor_bytes_length, E_len, cbcmac_length; [reflexivity|apply zeros_length].
  Qed.

  Theorem ccm_dec_accepts_enc p taglen c tag :
    ccm_encrypt E iv aad p taglen = Ok (c, tag) -> ccm_decrypt E iv aad c tag = Ok p.
  Proof.
    unfold ccm_encrypt. intros H.
    destruct (ccm_args_ok (length iv) taglen && ccm_len_ok (length iv) (N.of_nat (length p))) eqn:Hg;
      [|discriminate].
    cbn [negb] in H. inversion H; subst c tag; clear H.
    apply andb_prop in Hg. destruct Hg as [Ha Hlen].
    assert (Ht16 : taglen <= 16).
    { unfold ccm_args_ok in Ha. repeat (apply andb_prop in Ha; destruct Ha as [Ha ?]).
      match goal with H : (taglen <=? 16) = true |- _ => apply Nat.leb_le in H; exact H end. }
    set (c := ccm_ctr E iv p).
    assert (Hcl : length c = length p).
    { unfold c, ccm_ctr. apply (ctr_crypt_length E E_len [] 0). lia. }
    assert (Hinv : ccm_ctr E iv c = p).
    { unfold c, ccm_ctr. rewrite (ctr_crypt_length E E_len [] 0) by lia.
      apply (ctr_crypt_invol E E_len [] 0). lia. }
    apply ccm_accept_iff.
    assert (Htl : length (firstn taglen (ccm_tag16 E iv aad p taglen)) = taglen)
      by (rewrite firstn_length, ccm_tag16_length; lia).
    rewrite Htl, Hcl, Hinv. repeat split; auto.
  Qed.
End CcmRule.

(* ===================== CCM = RFC 3610 ===================== *)
(* counter blocks: the byte-wise carry loop over the last L bytes is +1 on the big-endian counter *)
Lemma rev_N_to_be k x : rev (N_to_be (S k) x) = (x mod 256)%N :: rev (N_to_be k (x / 256)%N).
Proof. cbn [N_to_be]. rewrite rev_app_distr. reflexivity. Qed.

Lemma incr_rev_be : forall k x, incr_rev k (rev (N_to_be k x)) = rev (N_to_be k (x + 1)%N).
Proof.
  induction k as [|k IH]; intros x; [reflexivity|].
  rewrite !rev_N_to_be. cbn [incr_rev].
  replace ((x mod 256 + 1) mod 256)%N with ((x + 1) mod 256)%N by lia.
  destruct (((x + 1) mod 256) =? 0)%N eqn:Ez.
  - apply N.eqb_eq in Ez. f_equal. rewrite IH. f_equal. f_equal. lia.
  - apply N.eqb_neq in Ez. f_equal. f_equal. f_equal. lia.
Qed.

Lemma incr_rev_app : forall k a b, length a = k -> incr_rev k (a ++ b) = incr_rev k a ++ b.
Proof.
  induction k as [|k IH]; intros a b Ha.
  - destruct a; [|discriminate]. destruct b; reflexivity.
  - destruct a as [|x a]; [discriminate|]. cbn [app incr_rev].
    destruct ((x + 1) mod 256 =? 0)%N; [|reflexivity].
    cbn [app]. f_equal. apply IH. cbn in Ha. lia.
Qed.

Lemma N_to_be_length k x : length (N_to_be k x) = k.
Proof. revert x; induction k as [|k IH]; intros x; cbn [N_to_be]; [reflexivity|]. rewrite app_length, IH. cbn. lia. Qed.

Lemma ctr_n_incr_be L pre i :
  ctr_n_incr L (pre ++ N_to_be L i) = pre ++ N_to_be L (i + 1)%N.
Proof.
  unfold ctr_n_incr. rewrite rev_app_distr.
  rewrite incr_rev_app by (rewrite rev_length; apply N_to_be_length).
  rewrite incr_rev_be, rev_app_distr, !rev_involutive. reflexivity.
Qed.

Lemma zeros_snoc k : zeros k ++ [0%N] = zeros (S k).
Proof. induction k as [|k IH]; [reflexivity|]. cbn [zeros app]. rewrite IH. reflexivity. Qed.
Lemma N_to_be_0 k : N_to_be k 0 = zeros k.
Proof.
  induction k as [|k IH]; [reflexivity|]. cbn [N_to_be]. change (0 / 256)%N with 0%N. rewrite IH.
  change (0 mod 256)%N with 0%N. apply zeros_snoc.
Qed.
Lemma N_to_be_1 k : N_to_be (S k) 1 = zeros k ++ [1%N].
Proof. cbn [N_to_be]. change (1 / 256)%N with 0%N. rewrite N_to_be_0. reflexivity. Qed.

Lemma firstn_zeros k m : k <= m -> firstn k (zeros m) = zeros k.
Proof.
  revert m; induction k as [|k IH]; intros m H; [reflexivity|].
  destruct m; [lia|]. cbn [zeros firstn]. f_equal. apply IH. lia.
Qed.

(* the flags octet: the C bit operations = the RFC's 64*Adata + 8*((M-2)/2) + (L-1) *)
Lemma ccm_flags_ok n M (adata : bool) : ccm_args_ok n M = true ->
  N.lor (N.lor (N.shiftl (if adata then 1 else 0) 6) (N.shiftl (N.land ((N.of_nat M - 2) / 2) 7) 3))
        (N.land (N.of_nat (15 - n) - 1) 7)
  = spec_flags adata M (15 - n) /\ N.land (N.of_nat (15 - n) - 1) 7 = (N.of_nat (15 - n) - 1)%N.
Proof.
  unfold ccm_args_ok. intros H.
  repeat (apply andb_prop in H; destruct H as [H ?]).
  repeat match goal with Hx : (_ <=? _) = true |- _ => apply Nat.leb_le in Hx end.
  assert (Hn : n = 7 \/ n = 8 \/ n = 9 \/ n = 10 \/ n = 11 \/ n = 12 \/ n = 13) by lia.
  match goal with He : Nat.even M = true |- _ => rename He into Hev end.
  assert (HM : M = 4 \/ M = 5 \/ M = 6 \/ M = 7 \/ M = 8 \/ M = 9 \/ M = 10 \/ M = 11 \/ M = 12 \/
               M = 13 \/ M = 14 \/ M = 15 \/ M = 16) by lia.
  destruct HM as [->|[->|[->|[->|[->|[->|[->|[->|[->|[->|[->|[->| ->]]]]]]]]]]]]; try discriminate Hev.
  all: destruct adata; destruct Hn as [->|[->|[->|[->|[->|[->| ->]]]]]]; split; reflexivity.
Qed.

Section CcmRfc.
  Variable E : list N -> list N.

  Lemma ccm_ctr_steps nonce : forall fuel i d,
    ctr_crypt E (ctr_n_incr (15 - length nonce)) fuel (spec_Ai nonce i) d = spec_ctr E fuel nonce i d.
  Proof.
    induction fuel as [|f IH]; intros i d; [reflexivity|].
    cbn [ctr_crypt spec_ctr]. destruct d; [reflexivity|]. f_equal.
    rewrite <- IH. f_equal. unfold spec_Ai. rewrite app_assoc, ctr_n_incr_be, <- app_assoc. reflexivity.
  Qed.

  Lemma ccm_a0_spec iv M : ccm_args_ok (length iv) M = true -> ccm_a0 iv = spec_Ai iv 0.
  Proof.
    intros H. unfold ccm_a0, spec_Ai. rewrite N_to_be_0.
    destruct (ccm_flags_ok _ _ false H) as [_ ->]. reflexivity.
  Qed.

  Lemma ccm_a1_spec iv M : ccm_args_ok (length iv) M = true -> ccm_a1 iv = spec_Ai iv 1.
  Proof.
    intros H. unfold ccm_a1. rewrite (ccm_a0_spec iv M H). unfold spec_Ai.
    assert (Hn : 7 <= length iv <= 13).
    { unfold ccm_args_ok in H. repeat (apply andb_prop in H; destruct H as [H ?]).
      repeat match goal with Hx : (_ <=? _) = true |- _ => apply Nat.leb_le in Hx end. lia. }
    set (L := 15 - length iv) in *.
    destruct L as [|L'] eqn:EL; [lia|].
    rewrite N_to_be_0, N_to_be_1.
    rewrite firstn_app. cbn [length]. rewrite (firstn_all2 [_]) by (cbn; lia).
    rewrite firstn_app, (firstn_all2 iv) by lia.
    replace (15 - 1 - length iv) with L' by lia.
    rewrite firstn_zeros by lia. rewrite <- !app_assoc. reflexivity.
  Qed.

  Lemma ccm_mac_input_spec iv aad p M : ccm_args_ok (length iv) M = true ->
    ccm_mac_input iv aad p M = spec_blocks iv aad p M.
  Proof.
    intros H. unfold ccm_mac_input, spec_blocks, ccm_b0, spec_b0, length_to_bytes.
    destruct aad as [|a0 aad].
    - cbn [length Nat.eqb negb]. change (0 <? N.of_nat 0)%N with false.
      destruct (ccm_flags_ok _ _ false H) as [-> _]. reflexivity.
    - cbn [length Nat.eqb negb].
      replace (0 <? N.of_nat (S (length aad)))%N with true by (symmetry; apply N.ltb_lt; lia).
      destruct (ccm_flags_ok _ _ true H) as [-> _]. reflexivity.
  Qed.

  (* ---- ccm_eq_rfc3610: whenever the code accepts the arguments, its output is the RFC's ---- *)
  Theorem ccm_eq_rfc3610 iv aad p M r :
    ccm_encrypt E iv aad p M = Ok r -> r = ccm_spec_encrypt E iv aad p M.
  Proof.
    unfold ccm_encrypt. intros H.
    destruct (ccm_args_ok (length iv) M && ccm_len_ok (length iv) (N.of_nat (length p))) eqn:Hg; [|discriminate].
    cbn [negb] in H. inversion H; subst r; clear H.
    apply andb_prop in Hg. destruct Hg as [Ha _].
    unfold ccm_spec_encrypt, ccm_ctr, ccm_tag16.
    rewrite (ccm_a1_spec iv M Ha), ccm_ctr_steps, (ccm_mac_input_spec iv aad p M Ha), (ccm_a0_spec iv M Ha).
    reflexivity.
  Qed.
End CcmRfc.

(* ===================== read extents ===================== *)
(* sm4_gcm_decrypt_update never reads past its input, for every tag length, window and input *)
Theorem gcm_dec_update_reads_in_bounds (c : gcm_ctx) (d : list N) : gcm_dec_update_overread c d = 0.
Proof.
  unfold gcm_dec_update_overread, w_update_overread.
  destruct (_ && _); [reflexivity|]. destruct (_ <=? _); [reflexivity|]. apply Nat.sub_diag.
Qed.

(* zuc_encrypt reads exactly its input, for every length *)
Lemma zuc_reads_le : forall fuel rem, zuc_reads (fun r => r) fuel rem <= rem.
Proof.
  induction fuel as [|f IH]; intros rem; cbn [zuc_reads]; [lia|].
  destruct (rem =? 0); [lia|]. destruct (4 <=? rem) eqn:E4; [|lia].
  apply Nat.leb_le in E4. specialize (IH (rem - 4)). lia.
Qed.
Theorem zuc_encrypt_reads_in_bounds inlen : zuc_encrypt_overread inlen = 0.
Proof. unfold zuc_encrypt_overread, zuc_encrypt_read_extent. pose proof (zuc_reads_le inlen inlen). lia. Qed.

(* ===================== history: the formulas of the code before the repairs ===================== *)
(* before 27e8567: a 14-byte AAD (encoded: 2 + 14 bytes) was followed by 16 zero bytes instead of none *)
Example ccm_aad_pad_before_27e8567 : ccm_aad_pad_old 16 = 16 /\ ccm_aad_pad 16 = 0.
Proof. split; reflexivity. Qed.
(* before d8f414a: with an 11-byte nonce the x86 build compared inlen against 1 << (32 mod 32) = 1,
   i.e. refused every non-empty message; the guard now is 2^32 *)
Example ccm_dec_limit_before_d8f414a :
  ccm_dec_limit_old_x86 11 = 1%N /\ ccm_len_ok 11 1 = true /\ ccm_len_ok 11 (2^32) = false.
Proof. repeat split; reflexivity. Qed.
(* before a37c004: the bulk branch copied 16 bytes where taglen = 12 remain: 4 bytes past the input *)
Example gcm_overread_before_a37c004 : w_update_overread 12 16 [] (zeros 30) = 4.
Proof. reflexivity. Qed.
(* before fef12f3: a 5-byte input was read up to byte 8 *)
Example zuc_read_extent_before_fef12f3 : zuc_encrypt_read_extent_old 5 = 8 /\ zuc_encrypt_read_extent 5 = 5.
Proof. split; reflexivity. Qed.
