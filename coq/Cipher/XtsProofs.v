(* XTS: (a) the transcribed one-shot functions equal the index-form Spec (T_j = alpha^j E_K2(tweak),
   ciphertext stealing by block indices); (b) the tweak update of gf128.c (64-bit words, bits
   reversed) is multiplication by x on the 128-bit string. *)
From GmVerif Require Import Base.ListX Base.Bytes Cipher.BitsX Cipher.Modes Cipher.ModesProofs.
From Coq Require Import ZifyN ZifyNat ZifyBool.
Local Open Scope nat_scope.
Ltac Zify.zify_post_hook ::= Z.div_mod_to_equations.

Lemma iter_succ_r {A} (f : A -> A) n : forall x, iter (S n) f x = f (iter n f x).
Proof. induction n as [|n IH]; intros x; [reflexivity|]. cbn [iter] in *. rewrite IH. reflexivity. Qed.

Lemma segs_app_exact B k : 0 < B -> forall a b, length a = k * B -> segs B (a ++ b) = segs B a ++ segs B b.
Proof.
  intros HB. induction k as [|k IH]; intros a b Ha.
  - apply length_zero_nil in Ha. subst. reflexivity.
  - cbn [Nat.mul] in Ha.
    assert (Hp : length (firstn B a) = B) by (rewrite firstn_length_le; lia).
    assert (Hr : length (skipn B a) = k * B) by (rewrite skipn_length; lia).
    rewrite <- (firstn_skipn B a). generalize dependent (skipn B a). generalize dependent (firstn B a).
    intros p Hp r Hr. rewrite <- app_assoc.
    rewrite (segs_app_block B p (r ++ b)), (segs_app_block B p r) by assumption. rewrite IH by exact Hr. reflexivity.
Qed.
Lemma segs_length_exact B k : 0 < B -> forall a, length a = k * B -> length (segs B a) = k.
Proof.
  intros HB. induction k as [|k IH]; intros a Ha.
  - apply length_zero_nil in Ha. subst. reflexivity.
  - cbn [Nat.mul] in Ha.
    assert (Hp : length (firstn B a) = B) by (rewrite firstn_length_le; lia).
    assert (Hr : length (skipn B a) = k * B) by (rewrite skipn_length; lia).
    rewrite <- (firstn_skipn B a). generalize dependent (skipn B a). generalize dependent (firstn B a).
    intros p Hp r Hr.
    rewrite segs_app_block by assumption. cbn [length]. rewrite IH by exact Hr. reflexivity.
Qed.
Lemma segs_one B a : 0 < B -> length a = B -> segs B a = [a].
Proof. intros HB Ha. rewrite <- (app_nil_r a) at 1. rewrite segs_app_block by assumption. reflexivity. Qed.

Section XtsSpec.
  Variable E D E2 mul2 : list N -> list N.

  Definition xstep (F : list N -> list N) (T blk : list N) : list N * list N := (mul2 T, xts_block F T blk).
  Lemma xts_loop_bloop F n : forall T inp, xts_loop mul2 F n T inp = bloop _ 16 (xstep F) n T inp.
  Proof.
    induction n as [|n IH]; intros T inp; cbn [xts_loop bloop]; [reflexivity|].
    unfold xstep at 1. rewrite IH. reflexivity.
  Qed.
  Lemma chain_xts F ps : forall T, chain _ (xstep F) T ps = (iter (length ps) mul2 T, xts_full mul2 F T ps).
  Proof.
    induction ps as [|p r IH]; intros T; cbn [chain xts_full length iter]; [reflexivity|].
    unfold xstep at 1. rewrite IH. reflexivity.
  Qed.
  Lemma xts_full_app F a : forall T b,
    xts_full mul2 F T (a ++ b) = xts_full mul2 F T a ++ xts_full mul2 F (iter (length a) mul2 T) b.
  Proof. induction a as [|p a IH]; intros T b; cbn [app xts_full length iter]; [reflexivity|]. rewrite IH. reflexivity. Qed.

  Lemma xts_loop_spec F n T m : n * 16 <= length m ->
    xts_loop mul2 F n T m = (iter n mul2 T, concat (xts_full mul2 F T (segs 16 (firstn (n * 16) m)))).
  Proof.
    intros H. rewrite xts_loop_bloop.
    rewrite <- (firstn_skipn (n * 16) m) at 1.
    assert (Hf : length (firstn (n * 16) m) = n * 16) by (rewrite firstn_length_le; lia).
    rewrite bloop_prefix by lia.
    rewrite (bloop_chain _ (xstep F) 16 lt_0_16 n T _ Hf), chain_xts.
    rewrite (segs_length_exact 16 n lt_0_16 _ Hf). reflexivity.
  Qed.

  (* common bookkeeping for a message of q >= 1 whole blocks plus b bytes *)
  Lemma xts_shape (F : list N -> list N) tweak m : 16 <= length m ->
    let q := length m / 16 in
    let n := q - 1 in
    let rest := skipn (n * 16) m in
    xts_loop mul2 F (q + 1 - 2) (E2 tweak) m =
      (xts_T E2 mul2 tweak n, concat (xts_full mul2 F (xts_T E2 mul2 tweak 0) (segs 16 (firstn (n * 16) m))))
    /\ skipn ((q + 1 - 2) * 16) m = rest /\ length rest = 16 + length m mod 16
    /\ firstn 16 rest = firstn 16 (skipn ((q - 1) * 16) m) /\ skipn 16 rest = skipn (q * 16) m
    /\ mul2 (xts_T E2 mul2 tweak n) = xts_T E2 mul2 tweak q.
  Proof.
    intros Hm q n rest.
    pose proof (Nat.div_mod (length m) 16 ltac:(lia)) as Hd. fold q in Hd.
    pose proof (Nat.mod_upper_bound (length m) 16 ltac:(lia)) as Hr.
    assert (Hq : 1 <= q) by lia.
    replace (q + 1 - 2) with n by (unfold n; lia).
    split; [apply xts_loop_spec; unfold n; lia|].
    split; [reflexivity|]. split; [unfold rest, n; rewrite skipn_length; lia|].
    split; [reflexivity|]. split.
    - unfold rest. rewrite skipn_skipn_nat. f_equal. unfold n. lia.
    - unfold xts_T. rewrite <- iter_succ_r. f_equal. unfold n. lia.
  Qed.

  Theorem xts_encrypt_raw_eq_spec tweak m : 16 <= length m ->
    xts_encrypt_raw E E2 mul2 tweak m = xts_enc_spec E E2 mul2 tweak m.
  Proof.
    intros Hm. unfold xts_encrypt_raw, xts_enc_spec.
    destruct (xts_shape E tweak m Hm) as (Hl & Hrest & Lrest & Hf & Hs & HT). cbv zeta in *.
    pose proof (Nat.div_mod (length m) 16 ltac:(lia)) as Hd.
    pose proof (Nat.mod_upper_bound (length m) 16 ltac:(lia)) as Hr.
    set (q := length m / 16) in *. set (b := length m mod 16) in *.
    rewrite Hl, Hrest, Lrest.
    replace ((16 + b) mod 16 =? 0) with (b =? 0) by (destruct (Nat.eqb_spec b 0); destruct (Nat.eqb_spec ((16 + b) mod 16) 0); lia).
    destruct (b =? 0) eqn:Hb.
    - apply Nat.eqb_eq in Hb. rewrite Hb in Lrest.
      set (head := firstn ((q - 1) * 16) m) in *. set (rest := skipn ((q - 1) * 16) m) in *.
      assert (Hhead : length head = (q - 1) * 16) by (unfold head; rewrite firstn_length_le; lia).
      replace (segs 16 m) with (segs 16 (head ++ rest)) by (unfold head, rest; rewrite firstn_skipn; reflexivity).
      rewrite (segs_app_exact 16 (q - 1) lt_0_16 head rest Hhead), xts_full_app, concat_app.
      rewrite (segs_length_exact 16 (q - 1) lt_0_16 head Hhead).
      rewrite (segs_one 16 rest lt_0_16) by lia. cbn [xts_full concat]. rewrite app_nil_r.
      rewrite (@firstn_all2 _ 16 rest) by lia. unfold xts_T. cbn [iter]. reflexivity.
    - rewrite Hs, HT. rewrite skipn_length.
      replace (length m - q * 16) with b by lia. reflexivity.
  Qed.

  Theorem xts_decrypt_raw_eq_spec tweak c : 16 <= length c ->
    xts_decrypt_raw D E2 mul2 tweak c = xts_dec_spec D E2 mul2 tweak c.
  Proof.
    intros Hm. unfold xts_decrypt_raw, xts_dec_spec.
    destruct (xts_shape D tweak c Hm) as (Hl & Hrest & Lrest & Hf & Hs & HT). cbv zeta in *.
    pose proof (Nat.div_mod (length c) 16 ltac:(lia)) as Hd.
    pose proof (Nat.mod_upper_bound (length c) 16 ltac:(lia)) as Hr.
    set (q := length c / 16) in *. set (b := length c mod 16) in *.
    rewrite Hl, Hrest, Lrest.
    replace ((16 + b) mod 16 =? 0) with (b =? 0) by (destruct (Nat.eqb_spec b 0); destruct (Nat.eqb_spec ((16 + b) mod 16) 0); lia).
    destruct (b =? 0) eqn:Hb.
    - apply Nat.eqb_eq in Hb. rewrite Hb in Lrest.
      set (head := firstn ((q - 1) * 16) c) in *. set (rest := skipn ((q - 1) * 16) c) in *.
      assert (Hhead : length head = (q - 1) * 16) by (unfold head; rewrite firstn_length_le; lia).
      replace (segs 16 c) with (segs 16 (head ++ rest)) by (unfold head, rest; rewrite firstn_skipn; reflexivity).
      rewrite (segs_app_exact 16 (q - 1) lt_0_16 head rest Hhead), xts_full_app, concat_app.
      rewrite (segs_length_exact 16 (q - 1) lt_0_16 head Hhead).
      rewrite (segs_one 16 rest lt_0_16) by lia. cbn [xts_full concat]. rewrite app_nil_r.
      rewrite (@firstn_all2 _ 16 rest) by lia. unfold xts_T. cbn [iter]. reflexivity.
    - rewrite Hs, HT. rewrite skipn_length.
      replace (length c - q * 16) with b by lia. reflexivity.
  Qed.
End XtsSpec.

(* ===================================================================== the tweak update *)
Local Open Scope N_scope.

Lemma bit_of_1 j : N.testbit 1 j = (j =? 0).
Proof. destruct j as [|p]; [reflexivity | destruct p; reflexivity]. Qed.

(* reverse_bits of gf128.c: bit i of the result is bit 63 - i of the argument *)
Lemma rev_loop_bit n : forall r a i,
  N.testbit r 0 = false -> (forall j, 64 <= j -> N.testbit r j = false) ->
  let '(r', a') := rev_bits_loop n r a in
  a' = N.shiftr a (N.of_nat n) /\ N.testbit r' 0 = false /\ (forall j, 64 <= j -> N.testbit r' j = false) /\
  N.testbit r' i = (i <? 64) && (if i <=? N.of_nat n then (1 <=? i) && N.testbit a (N.of_nat n - i)
                                 else N.testbit r (i - N.of_nat n)).
Proof.
  induction n as [|n IH]; intros r a i H0 Hhi; cbn [rev_bits_loop].
  - cbn [N.of_nat]. rewrite N.shiftr_0_r, N.sub_0_r. split; [reflexivity|]. split; [exact H0|]. split; [exact Hhi|].
    destruct (N.ltb_spec i 64); destruct (N.leb_spec i 0); cbn [andb].
    + assert (i = 0) by lia. subst. rewrite H0. reflexivity.
    + reflexivity.
    + lia.
    + apply Hhi. lia.
  - set (r1 := w64 (N.shiftl (N.lor r (N.land a 1)) 1)).
    assert (B1 : forall j, N.testbit r1 j = (j <? 64) && (1 <=? j) && (N.testbit r (j - 1) || (N.testbit a (j - 1) && (j - 1 =? 0)))).
    { intros j. unfold r1, w64. change mask64 with (N.ones 64). rewrite N.land_spec, ones_bit, shl_bit, N.lor_spec, N.land_spec, bit_of_1.
      destruct (j <? 64), (1 <=? j), (N.testbit r (j - 1)), (N.testbit a (j - 1)), (j - 1 =? 0); reflexivity. }
    assert (H0' : N.testbit r1 0 = false) by (rewrite B1; reflexivity).
    assert (Hhi' : forall j, 64 <= j -> N.testbit r1 j = false) by (intros j Hj; rewrite B1; replace (j <? 64) with false by lia; reflexivity).
    specialize (IH r1 (N.shiftr a 1) i H0' Hhi').
    destruct (rev_bits_loop n r1 (N.shiftr a 1)) as [r' a']. destruct IH as (Ha & I0 & Ihi & Ib).
    split; [rewrite Ha, N.shiftr_shiftr, Nat2N.inj_succ; f_equal; lia|]. split; [exact I0|]. split; [exact Ihi|].
    rewrite Ib, Nat2N.inj_succ. set (m := N.of_nat n).
    destruct (N.ltb_spec i 64); cbn [andb]; [|reflexivity].
    destruct (N.leb_spec i m).
    + replace (i <=? N.succ m) with true by lia. rewrite N.shiftr_spec'. f_equal. f_equal. lia.
    + rewrite B1. replace (i - m <? 64) with true by lia. replace (1 <=? i - m) with true by lia. cbn [andb].
      destruct (N.eqb_spec (i - m - 1) 0) as [He|He].
      * replace (i <=? N.succ m) with true by lia. replace (1 <=? i) with true by lia.
        replace (i - m - 1) with 0 by lia. rewrite H0. cbn [orb andb]. rewrite andb_true_r. f_equal. lia.
      * replace (i <=? N.succ m) with false by lia. rewrite andb_false_r, orb_false_r. f_equal. lia.
Qed.

Lemma reverse_bits_bit a i : N.testbit (reverse_bits a) i = (i <? 64) && N.testbit a (63 - i).
Proof.
  unfold reverse_bits.
  pose proof (rev_loop_bit 63 0 a i (N.bits_0 0) (fun j _ => N.bits_0 j)) as H.
  destruct (rev_bits_loop 63 0 a) as [r a']. destruct H as (Ha & H0 & Hhi & Hb).
  rewrite N.lor_spec, N.land_spec, Hb, Ha. change (N.of_nat 63) with 63.
  rewrite bit_of_1, N.shiftr_spec', N.bits_0.
  destruct (N.ltb_spec i 64); cbn [andb].
  - destruct (N.leb_spec i 63); [|lia].
    destruct (N.eq_dec i 0) as [->|Hn].
    + change (1 <=? 0) with false. change (0 =? 0) with true. cbn [andb orb]. rewrite andb_true_r. reflexivity.
    + replace (1 <=? i) with true by lia. replace (i =? 0) with false by lia. rewrite andb_false_r, orb_false_r. reflexivity.
  - replace (i =? 0) with false by lia. rewrite andb_false_r. reflexivity.
Qed.

Lemma lt_pow2_bits x k : (forall j, k <= j -> N.testbit x j = false) -> x < 2^k.
Proof.
  intros H. replace x with (x mod 2^k); [apply N.mod_lt, N.pow_nonzero; discriminate|].
  apply N.bits_inj. intros j. destruct (N.ltb_spec j k).
  - apply N.mod_pow2_bits_low. exact H0.
  - rewrite N.mod_pow2_bits_high by exact H0. symmetry. apply H, H0.
Qed.
Lemma reverse_bits_lt a : reverse_bits a < 2^64.
Proof. apply lt_pow2_bits. intros j Hj. rewrite reverse_bits_bit. replace (j <? 64) with false by lia. reflexivity. Qed.
Lemma reverse_bits_lxor a b : reverse_bits (N.lxor a b) = N.lxor (reverse_bits a) (reverse_bits b).
Proof.
  apply N.bits_inj. intros i. rewrite N.lxor_spec, !reverse_bits_bit, N.lxor_spec.
  destruct (i <? 64); reflexivity.
Qed.

Lemma mod_pow2_bit a k m : N.testbit (a mod 2^k) m = (m <? k) && N.testbit a m.
Proof.
  destruct (N.ltb_spec m k); [apply N.mod_pow2_bits_low | apply N.mod_pow2_bits_high]; assumption.
Qed.

(* bits of a number assembled from a high and a low part *)
Lemma testbit_hilo A Y k j : Y < 2^k ->
  N.testbit (A * 2^k + Y) j = if j <? k then N.testbit Y j else N.testbit A (j - k).
Proof.
  intros HY. assert (Hk : 2^k <> 0) by (apply N.pow_nonzero; discriminate).
  destruct (N.ltb_spec j k).
  - rewrite <- (N.mod_pow2_bits_low (A * 2^k + Y) k j) by assumption.
    f_equal. rewrite N.add_comm, N.mod_add by exact Hk. apply N.mod_small, HY.
  - replace j with ((j - k) + k) at 1 by lia. rewrite <- N.div_pow2_bits.
    f_equal. rewrite N.div_add_l by exact Hk. rewrite N.div_small by exact HY. lia.
Qed.

Lemma lxor_hilo A C Y k : Y < 2^k -> N.lxor (A * 2^k + Y) (C * 2^k) = N.lxor A C * 2^k + Y.
Proof.
  intros HY. apply N.bits_inj. intros j.
  rewrite N.lxor_spec, (testbit_hilo A Y k j HY), (testbit_hilo (N.lxor A C) Y k j HY).
  replace (C * 2^k) with (C * 2^k + 0) by lia.
  rewrite (testbit_hilo C 0 k j) by (apply N.neq_0_lt_0, N.pow_nonzero; discriminate).
  destruct (j <? k); [rewrite N.bits_0, xorb_false_r; reflexivity | rewrite N.lxor_spec; reflexivity].
Qed.

(* the two words after gf128_mul_by_2, read back through reverse_bits *)
Lemma mul2_words hi lo : hi < 2^64 -> lo < 2^64 ->
  let '(r0, r1) := gf128_mul_by_2 (reverse_bits hi) (reverse_bits lo) in
  reverse_bits r0 = N.lxor (hi / 2) (if N.odd lo then 0xE100000000000000 else 0) /\
  reverse_bits r1 = (hi mod 2) * 2^63 + lo / 2.
Proof.
  intros Hhi Hlo. unfold gf128_mul_by_2.
  set (a0 := reverse_bits hi). set (a1 := reverse_bits lo).
  assert (Hodd : N.testbit a1 63 = N.odd lo).
  { unfold a1. rewrite reverse_bits_bit. change (63 <? 64) with true. change (63 - 63) with 0. cbn [andb]. apply N.bit0_odd. }
  assert (R0 : reverse_bits (w64 (N.shiftl a0 1)) = hi / 2).
  { apply N.bits_inj. intros j. rewrite reverse_bits_bit. unfold w64. change mask64 with (N.ones 64).
    rewrite N.land_spec, ones_bit, shl_bit. unfold a0. rewrite reverse_bits_bit.
    change (hi / 2) with (hi / 2^1). rewrite <- N.shiftr_div_pow2, N.shiftr_spec'.
    destruct (N.ltb_spec j 64); cbn [andb].
    - replace (63 - j <? 64) with true by lia. rewrite andb_true_r.
      destruct (N.leb_spec 1 (63 - j)); cbn [andb].
      + replace (63 - j - 1 <? 64) with true by lia. cbn [andb]. f_equal. lia.
      + symmetry. apply (testbit_small hi 64); [exact Hhi | lia].
    - symmetry. apply (testbit_small hi 64); [exact Hhi | lia]. }
  assert (R1 : reverse_bits (w64 (N.lor (N.shiftl a1 1) (N.shiftr a0 63))) = (hi mod 2) * 2^63 + lo / 2).
  { assert (Hl2 : lo / 2 < 2^63) by (change (2^63) with 9223372036854775808; change (2^64) with 18446744073709551616 in Hlo; lia).
    apply N.bits_inj. intros j. rewrite (testbit_hilo (hi mod 2) (lo / 2) 63 j Hl2).
    rewrite reverse_bits_bit. unfold w64. change mask64 with (N.ones 64).
    rewrite N.land_spec, ones_bit, N.lor_spec, shl_bit, N.shiftr_spec'. unfold a0, a1. rewrite !reverse_bits_bit.
    change (lo / 2) with (lo / 2^1). rewrite <- N.shiftr_div_pow2, N.shiftr_spec'.
    change (hi mod 2) with (hi mod 2^1). rewrite mod_pow2_bit.
    destruct (N.ltb_spec j 63).
    - replace (j <? 64) with true by lia. replace (63 - j <? 64) with true by lia.
      replace (1 <=? 63 - j) with true by lia. replace (63 - j - 1 <? 64) with true by lia.
      replace (63 - j + 63 <? 64) with false by lia. cbn [andb orb]. rewrite ?orb_false_r, ?andb_true_r. f_equal. lia.
    - destruct (N.eq_dec j 63) as [->|Hn].
      + change (63 <? 64) with true. change (63 - 63) with 0.
        change (1 <=? 0) with false. change (0 + 63 <? 64) with true. change (63 - (0 + 63)) with 0.
        change (0 <? 64) with true. change (0 <? 1) with true. cbn [andb orb]. rewrite ?andb_true_r. reflexivity.
      + replace (j <? 64) with false by lia. replace (j - 63 <? 1) with false by lia. cbn [andb]. reflexivity. }
  rewrite Hodd. destruct (N.odd lo).
  - split; [|exact R1]. rewrite reverse_bits_lxor, R0. f_equal.
  - rewrite N.lxor_0_r. split; [exact R0 | exact R1].
Qed.

Lemma N_to_be_8_8 X Y : X < 2^64 -> Y < 2^64 -> N_to_be 8 X ++ N_to_be 8 Y = N_to_be 16 (X * 2^64 + Y).
Proof.
  intros HX HY. change 16%nat with (8 + 8)%nat. rewrite (N_to_be_app 8 8).
  change (256 ^ N.of_nat 8) with (2^64).
  rewrite <- (N_to_be_mod 8 (X * 2^64 + Y)). change (256 ^ N.of_nat 8) with (2^64).
  change (2^64) with 18446744073709551616 in *.
  f_equal; f_equal; [apply N.div_unique with Y; lia | apply N.mod_unique with X; lia].
Qed.

(* gf128_from_bytes; gf128_mul_by_2; gf128_to_bytes  =  the 128-bit string shifted right by one
   bit, 0xE1 || 0^120 xored in when a one is shifted out: multiplication by x modulo
   x^128 + x^7 + x^2 + x + 1 in the bit order of GB/T 17964 XTS *)
Theorem xts_mul2_eq_spec T : length T = 16%nat -> bytes_ok T = true -> xts_mul2 T = xts_mul2_spec T.
Proof.
  intros L O. unfold xts_mul2, xts_mul2_spec, getu64, putu64.
  assert (L1 : length (firstn 8 T) = 8%nat) by (rewrite firstn_length_le; lia).
  assert (L2 : length (skipn 8 T) = 8%nat) by (rewrite skipn_length; lia).
  rewrite (firstn_all2 (skipn 8 T)) by lia.
  set (hi := be_to_N (firstn 8 T)). set (lo := be_to_N (skipn 8 T)).
  assert (Hhi : hi < 2^64) by (pose proof (be_to_N_lt _ (bytes_ok_firstn 8 T O)) as H; rewrite L1 in H; exact H).
  assert (Hlo : lo < 2^64) by (pose proof (be_to_N_lt _ (bytes_ok_skipn 8 T O)) as H; rewrite L2 in H; exact H).
  assert (Hv : be_to_N T = hi * 2^64 + lo).
  { rewrite <- (firstn_skipn 8 T) at 1. rewrite be_to_N_app, L2. reflexivity. }
  rewrite Hv.
  pose proof (mul2_words hi lo Hhi Hlo) as Hw.
  destruct (gf128_mul_by_2 (reverse_bits hi) (reverse_bits lo)) as [r0 r1]. destruct Hw as [W0 W1].
  rewrite N_to_be_8_8 by apply reverse_bits_lt. f_equal.
  rewrite W0, W1.
  assert (Hodd : N.odd (hi * 2^64 + lo) = N.odd lo).
  { rewrite N.add_comm. change (2^64) with (2 * 2^63). rewrite N.mul_assoc, (N.mul_comm (hi * 2)), N.mul_assoc.
    rewrite (N.mul_comm (2^63 * hi) 2). apply N.odd_add_mul_2. }
  rewrite Hodd.
  assert (Hdiv : (hi * 2^64 + lo) / 2 = (hi / 2) * 2^64 + (hi mod 2 * 2^63 + lo / 2)).
  { change (2^64) with 18446744073709551616. change (2^63) with 9223372036854775808. lia. }
  assert (HY : hi mod 2 * 2^63 + lo / 2 < 2^64).
  { change (2^64) with 18446744073709551616 in *. change (2^63) with 9223372036854775808. lia. }
  rewrite Hdiv. destruct (N.odd lo).
  - change 0xE1000000000000000000000000000000 with (0xE100000000000000 * 2^64).
    rewrite lxor_hilo by exact HY. reflexivity.
  - rewrite !N.lxor_0_r. reflexivity.
Qed.

(* the Spec does not depend on which of two tweak updates is used if they agree on 16-byte strings *)
Local Open Scope nat_scope.
Section XtsMulExt.
  Variable F E2 m1 m2 : list N -> list N.
  Definition t16 (T : list N) : Prop := length T = 16 /\ bytes_ok T = true.
  Hypothesis agree : forall T, t16 T -> m1 T = m2 T.
  Hypothesis pres : forall T, t16 (m1 T).

  Lemma iter_mul_ext n : forall T, t16 T -> iter n m1 T = iter n m2 T /\ t16 (iter n m1 T).
  Proof.
    induction n as [|n IH]; intros T HT; cbn [iter]; [auto|].
    rewrite <- (agree T HT). apply IH, pres.
  Qed.
  Lemma xts_full_ext ps : forall T, t16 T -> xts_full m1 F T ps = xts_full m2 F T ps.
  Proof.
    induction ps as [|p r IH]; intros T HT; cbn [xts_full]; [reflexivity|].
    rewrite <- (agree T HT), IH by apply pres. reflexivity.
  Qed.
  Lemma xts_T_ext tweak j : t16 (E2 tweak) -> xts_T E2 m1 tweak j = xts_T E2 m2 tweak j.
  Proof. intros H. unfold xts_T. apply iter_mul_ext, H. Qed.
End XtsMulExt.

Lemma xts_enc_spec_ext E E2 m1 m2 tweak m :
  (forall T, t16 T -> m1 T = m2 T) -> (forall T, t16 (m1 T)) -> t16 (E2 tweak) ->
  xts_enc_spec E E2 m1 tweak m = xts_enc_spec E E2 m2 tweak m.
Proof.
  intros Ha Hp Ht. unfold xts_enc_spec.
  rewrite !(xts_T_ext E2 m1 m2 Ha Hp tweak) by exact Ht.
  assert (H0 : t16 (xts_T E2 m2 tweak 0)) by exact Ht.
  rewrite !(xts_full_ext E m1 m2 Ha Hp) by exact H0. reflexivity.
Qed.
Lemma xts_dec_spec_ext D E2 m1 m2 tweak c :
  (forall T, t16 T -> m1 T = m2 T) -> (forall T, t16 (m1 T)) -> t16 (E2 tweak) ->
  xts_dec_spec D E2 m1 tweak c = xts_dec_spec D E2 m2 tweak c.
Proof.
  intros Ha Hp Ht. unfold xts_dec_spec.
  rewrite !(xts_T_ext E2 m1 m2 Ha Hp tweak) by exact Ht.
  assert (H0 : t16 (xts_T E2 m2 tweak 0)) by exact Ht.
  rewrite !(xts_full_ext D m1 m2 Ha Hp) by exact H0. reflexivity.
Qed.

(* tweak_incr = + 1 on the little-endian 128-bit data-unit number, wrapping *)
Local Open Scope N_scope.
Lemma le_to_N_lt l : bytes_ok l = true -> le_to_N l < 256 ^ N.of_nat (length l).
Proof.
  induction l as [|b r IH]; intros H; [cbn; lia|].
  rewrite bytes_ok_cons in H. apply andb_true_iff in H. destruct H as [Hb Hr]. apply N.ltb_lt in Hb.
  specialize (IH Hr). cbn [le_to_N length]. rewrite Nat2N.inj_succ, N.pow_succ_r'. nia.
Qed.
Theorem tweak_incr_spec l : bytes_ok l = true ->
  le_to_N (tweak_incr l) = (le_to_N l + 1) mod 256 ^ N.of_nat (length l) /\
  length (tweak_incr l) = length l /\ bytes_ok (tweak_incr l) = true.
Proof.
  induction l as [|b r IH]; intros H; [cbn; auto|].
  rewrite bytes_ok_cons in H. apply andb_true_iff in H. destruct H as [Hb Hr]. apply N.ltb_lt in Hb.
  specialize (IH Hr). destruct IH as (IV & IL & IO).
  pose proof (le_to_N_lt r Hr) as Hlt.
  cbn [tweak_incr length]. rewrite Nat2N.inj_succ, N.pow_succ_r'.
  set (P := 256 ^ N.of_nat (length r)) in *.
  assert (HP : 0 < P) by (apply N.neq_0_lt_0, N.pow_nonzero; discriminate).
  destruct (N.eqb_spec ((b + 1) mod 256) 0) as [Hz|Hz].
  - assert (b = 255) by lia. subst b. cbn [le_to_N length]. rewrite IV, IL.
    change ((255 + 1) mod 256) with 0. split; [|split; [reflexivity|]].
    + replace (255 + 256 * le_to_N r + 1) with (256 * (le_to_N r + 1)) by lia.
      rewrite N.mul_mod_distr_l by lia. lia.
    + rewrite bytes_ok_cons, IO. reflexivity.
  - rewrite (N.mod_small (b + 1) 256) by lia. cbn [le_to_N length]. split; [|split; [reflexivity|]].
    + rewrite N.mod_small by nia. lia.
    + rewrite bytes_ok_cons, Hr. replace (b + 1 <? 256) with true by lia. reflexivity.
Qed.
