From GmVerif Require Import Base.ListX Base.Bytes Cipher.BitsX Cipher.SM4 Gen.Sm4Tables Cipher.SM4Tab
  Cipher.SM4Proofs Cipher.SM4Unrolled.
From Coq Require Import ZifyN ZifyNat ZifyBool.
Local Open Scope N_scope.
Ltac Zify.zify_post_hook ::= Z.div_mod_to_equations.

(* the live registers of line i are the shifting state of the loop form *)
Definition live (p : nat) (regs : list N) (x0 x1 x2 x3 : N) : Prop :=
  (p < 5)%nat /\ length regs = 5%nat /\
  rget regs p = x0 /\ rget regs (nxt p) = x1 /\ rget regs (nxt (nxt p)) = x2 /\ rget regs (nxt (nxt (nxt p))) = x3.

Lemma ROUND_live rk p regs x0 x1 x2 x3 : live p regs x0 x1 x2 x3 ->
  live (nxt p) (ROUND rk p regs) x1 x2 x3 (N.lxor (Ttab (N.lxor (N.lxor (N.lxor x1 x2) x3) rk)) x0).
Proof.
  intros (Hp & Hl & H0 & H1 & H2 & H3).
  destruct regs as [|r0 [|r1 [|r2 [|r3 [|r4 [|]]]]]]; try discriminate Hl.
  do 5 (destruct p as [|p]; [cbn in *; subst; repeat split; try reflexivity; lia|]). lia.
Qed.

Lemma rounds_unrolled_live rks : forall p regs x0 x1 x2 x3, live p regs x0 x1 x2 x3 ->
  let '(p', regs') := rounds_unrolled rks p regs in
  let '(y0, y1, y2, y3) := sm4_rounds_tab rks x0 x1 x2 x3 in
  live p' regs' y0 y1 y2 y3 /\ p' = Nat.modulo (p + length rks) 5.
Proof.
  induction rks as [|rk r IH]; intros p regs x0 x1 x2 x3 H; cbn [rounds_unrolled sm4_rounds_tab length].
  - split; [exact H|]. destruct H as (Hp & _). rewrite Nat.add_0_r. symmetry. apply Nat.mod_small. exact Hp.
  - specialize (IH _ _ _ _ _ _ (ROUND_live rk p regs x0 x1 x2 x3 H)).
    destruct (rounds_unrolled r (nxt p) (ROUND rk p regs)) as [p' regs'].
    destruct (sm4_rounds_tab r x1 x2 x3 _) as [[[y0 y1] y2] y3].
    destruct IH as [IH1 IH2]. split; [exact IH1|]. rewrite IH2.
    destruct H as (Hp & _). do 5 (destruct p as [|p]; [cbn [nxt]; lia|]). lia.
Qed.

(* the unrolled register-file form = the loop form, for a 32-entry round-key array *)
Theorem sm4_encrypt_unrolled_eq rks blk : length rks = 32%nat ->
  sm4_encrypt_unrolled rks blk = sm4_encrypt_tab rks blk.
Proof.
  intros Hl. unfold sm4_encrypt_unrolled, sm4_encrypt_tab.
  set (x0 := get_be32 blk). set (x1 := get_be32 (skipn 4 blk)).
  set (x2 := get_be32 (skipn 8 blk)). set (x3 := get_be32 (skipn 12 blk)).
  assert (H0 : live 0 [x0; x1; x2; x3; 0] x0 x1 x2 x3) by (repeat split; cbn; lia).
  pose proof (rounds_unrolled_live rks 0%nat _ x0 x1 x2 x3 H0) as H.
  destruct (rounds_unrolled rks 0 [x0; x1; x2; x3; 0]) as [p' regs'].
  destruct (sm4_rounds_tab rks x0 x1 x2 x3) as [[[y0 y1] y2] y3].
  destruct H as [(Hp & Hlen & G0 & G1 & G2 & G3) Hp']. rewrite Hl in Hp'. cbn in Hp'. subst p'.
  cbn [nxt] in *. rewrite G0, G1, G2, G3. reflexivity.
Qed.

Lemma ks_rounds_length n : forall i k0 k1 k2 k3, length (ks_rounds n i k0 k1 k2 k3) = n.
Proof. induction n as [|n IH]; intros; cbn [ks_rounds length]; [reflexivity|]. rewrite IH. reflexivity. Qed.

(* all the way down: unrolled register form with the source tables = the standard *)
Theorem sm4_unrolled_eq_spec key blk :
  sm4_encrypt_unrolled (sm4_set_encrypt_key key) blk = sm4_encrypt_block key blk /\
  sm4_encrypt_unrolled (sm4_set_decrypt_key key) blk = sm4_decrypt_block key blk.
Proof.
  assert (L : length (sm4_set_encrypt_key key) = 32%nat).
  { rewrite sm4_set_encrypt_key_eq. unfold sm4_key_schedule. cbn [words_be FK]. apply ks_rounds_length. }
  split.
  - rewrite sm4_encrypt_unrolled_eq by exact L. rewrite <- sm4_enc_impl_eq. unfold sm4_enc_impl. reflexivity.
  - rewrite sm4_encrypt_unrolled_eq by (unfold sm4_set_decrypt_key; rewrite rev_length; exact L).
    rewrite <- sm4_dec_impl_eq. unfold sm4_dec_impl. reflexivity.
Qed.

(* ---- word-wise xor (table-driven *_blocks) = byte-wise xor (block-level models) ---- *)
From Coq Require Import Btauto.
Lemma w8_lxor a b : w8 (N.lxor a b) = N.lxor (w8 a) (w8 b).
Proof. apply N.bits_inj. intros i. rewrite N.lxor_spec, !w8_bit, N.lxor_spec. destruct (i <? 8); btauto. Qed.

Lemma be32_lxor x y : be32 (N.lxor x y) = xor_bytes (be32 x) (be32 y).
Proof. unfold be32. rewrite !N.shiftr_lxor, !w8_lxor. reflexivity. Qed.

Lemma get_be32_xor a0 a1 a2 a3 b0 b1 b2 b3 :
  a0 < 256 -> a1 < 256 -> a2 < 256 -> a3 < 256 -> b0 < 256 -> b1 < 256 -> b2 < 256 -> b3 < 256 ->
  get_be32 (xor_bytes [a0; a1; a2; a3] [b0; b1; b2; b3]) = N.lxor (get_be32 [a0; a1; a2; a3]) (get_be32 [b0; b1; b2; b3]).
Proof.
  intros. cbn [xor_bytes combine map fst snd get_be32].
  assert (L : forall u v, u < 256 -> v < 256 -> N.lxor u v < 256)
    by (intros u v Hu Hv; change 256 with (2^8); apply lxor_lt; assumption).
  rewrite !pack4 by (try assumption; apply L; assumption).
  rewrite !N.shiftl_lxor. apply N.bits_inj. intros i. rewrite !N.lxor_spec. btauto.
Qed.

(* one iteration of the table-driven sm4_cbc_encrypt_blocks on words:
     X_i = IV_i ^ GETU32(in + 4i);  32 x ROUND;  PUTU32(out ...);  IV := the four output words
   equals the block-level step  c = E (blk xor iv),  iv := c  *)
Definition words4 (l : list N) : list N := words_be 4 l.
Definition cbc_enc_words (rks : list N) (ivw : list N) (blk : list N) : list N * list N :=
  match xor_words ivw (words4 blk) with
  | [x0; x1; x2; x3] =>
    let '(y0, y1, y2, y3) := sm4_rounds_tab rks x0 x1 x2 x3 in
    ([y3; y2; y1; y0], be32 y3 ++ be32 y2 ++ be32 y1 ++ be32 y0)
  | _ => (ivw, [])
  end.

Lemma xor_words4 iv blk : length iv = 16%nat -> bytes_ok iv = true -> length blk = 16%nat -> bytes_ok blk = true ->
  xor_words (words4 iv) (words4 blk) = words4 (xor_bytes blk iv).
Proof.
  intros Li Oi Lb Ob.
  do 16 (destruct iv as [|? iv]; [discriminate Li|]). destruct iv; [|discriminate Li].
  do 16 (destruct blk as [|? blk]; [discriminate Lb|]). destruct blk; [|discriminate Lb].
  cbn [bytes_ok forallb] in Oi, Ob. rewrite !andb_true_iff, !N.ltb_lt in Oi, Ob.
  destruct Oi as (?&?&?&?&?&?&?&?&?&?&?&?&?&?&?&?&_).
  destruct Ob as (?&?&?&?&?&?&?&?&?&?&?&?&?&?&?&?&_).
  unfold words4. cbn [xor_bytes combine map fst snd]. rewrite !words_be4_16.
  cbn [xor_words combine map fst snd].
  f_equal; [|f_equal; [|f_equal; [|f_equal]]];
    rewrite N.lxor_comm; symmetry; apply get_be32_xor; assumption.
Qed.

Theorem cbc_enc_words_eq rks iv blk : length iv = 16%nat -> bytes_ok iv = true ->
  length blk = 16%nat -> bytes_ok blk = true ->
  let c := sm4_encrypt_tab rks (xor_bytes blk iv) in
  cbc_enc_words rks (words4 iv) blk = (words4 c, c).
Proof.
  intros Li Oi Lb Ob. cbv zeta. unfold cbc_enc_words. rewrite xor_words4 by assumption.
  unfold sm4_encrypt_tab, words4. rewrite (words_be4_skipn (xor_bytes blk iv)).
  set (x0 := get_be32 (xor_bytes blk iv)). set (x1 := get_be32 (skipn 4 (xor_bytes blk iv))).
  set (x2 := get_be32 (skipn 8 (xor_bytes blk iv))). set (x3 := get_be32 (skipn 12 (xor_bytes blk iv))).
  assert (Hx : x0 < 2^32 /\ x1 < 2^32 /\ x2 < 2^32 /\ x3 < 2^32).
  { assert (Ok : bytes_ok (xor_bytes blk iv) = true) by (apply xor_bytes_ok; assumption).
    assert (Lk : length (xor_bytes blk iv) = 16%nat) by (rewrite xor_bytes_length, Li, Lb; reflexivity).
    unfold x0, x1, x2, x3. generalize dependent (xor_bytes blk iv). intros l _ _ _ _ Ok Lk.
    do 16 (destruct l as [|? l]; [discriminate Lk|]). destruct l; [|discriminate Lk].
    cbn [bytes_ok forallb] in Ok. rewrite !andb_true_iff, !N.ltb_lt in Ok.
    destruct Ok as (?&?&?&?&?&?&?&?&?&?&?&?&?&?&?&?&_).
    cbn [skipn]. repeat split; apply get_be32_lt; assumption. }
  destruct Hx as (H0 & H1 & H2 & H3).
  pose proof (sm4_rounds_lt rks x0 x1 x2 x3 H0 H1 H2 H3) as Hlt. rewrite <- sm4_rounds_tab_eq in Hlt.
  destruct (sm4_rounds_tab rks x0 x1 x2 x3) as [[[y0 y1] y2] y3]. destruct Hlt as (Y0 & Y1 & Y2 & Y3).
  rewrite words_be4_be32, !w32_id by assumption. reflexivity.
Qed.
