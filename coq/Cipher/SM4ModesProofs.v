(* The generic mode theorems of ModesProofs.v instantiated with what the library runs:
   E = sm4_encrypt under sm4_set_encrypt_key (table-driven form), D = the same function under
   sm4_set_decrypt_key. *)
From GmVerif Require Import Base.ListX Base.Bytes Cipher.BitsX Cipher.SM4 Gen.Sm4Tables Cipher.SM4Tab
  Cipher.SM4Proofs Cipher.Modes Cipher.SM4Modes Cipher.ModesProofs Cipher.XtsProofs.
From Coq Require Import FunctionalExtensionality.
Local Open Scope nat_scope.

Lemma implE_eq key blk : implE key blk = sm4_encrypt_block key blk.
Proof. unfold implE. cbv zeta beta. rewrite <- sm4_enc_impl_eq. unfold sm4_enc_impl. reflexivity. Qed.
Lemma implD_eq key blk : implD key blk = sm4_decrypt_block key blk.
Proof. unfold implD. cbv zeta beta. rewrite <- sm4_dec_impl_eq. unfold sm4_dec_impl. reflexivity. Qed.
Lemma specE_eq key blk : specE key blk = sm4_encrypt_block key blk.
Proof. unfold specE, sm4_encrypt_block. reflexivity. Qed.
Lemma specD_eq key blk : specD key blk = sm4_decrypt_block key blk.
Proof. unfold specD, sm4_decrypt_block. reflexivity. Qed.

Lemma implE_len key b : length (implE key b) = 16.
Proof. rewrite implE_eq. apply sm4_encrypt_block_length. Qed.
Lemma implD_len key b : length (implD key b) = 16.
Proof. rewrite implD_eq. apply sm4_decrypt_block_length. Qed.
Lemma implE_ok key b : bytes_ok (implE key b) = true.
Proof. rewrite implE_eq. apply sm4_encrypt_block_ok. Qed.
Lemma implDE key b : length b = 16 -> bytes_ok b = true -> implD key (implE key b) = b.
Proof.
  intros L O. rewrite implE_eq, implD_eq. unfold sm4_decrypt_block, sm4_encrypt_block.
  apply sm4_crypt_block_rev; assumption.
Qed.

(* the block functions of the Impl and of the Spec side are the same functions *)
Theorem implE_eq_specE key : implE key = specE key.
Proof. apply functional_extensionality. intros blk. exact (eq_trans (implE_eq key blk) (eq_sym (specE_eq key blk))). Qed.
Theorem implD_eq_specD key : implD key = specD key.
Proof. apply functional_extensionality. intros blk. exact (eq_trans (implD_eq key blk) (eq_sym (specD_eq key blk))). Qed.

(* block_cipher.c dispatch = direct calls *)
Theorem block_cipher_sm4_eq key blk :
  block_cipher_encrypt (block_cipher_set_encrypt_key BLOCK_CIPHER_sm4 key) blk = sm4_encrypt_block key blk /\
  block_cipher_decrypt (block_cipher_set_decrypt_key BLOCK_CIPHER_sm4 key) blk = sm4_decrypt_block key blk.
Proof.
  unfold block_cipher_encrypt, block_cipher_decrypt, block_cipher_set_encrypt_key,
    block_cipher_set_decrypt_key, BLOCK_CIPHER_sm4.
  cbn [fst snd bc_encrypt bc_decrypt bc_set_encrypt_key bc_set_decrypt_key].
  split; [rewrite <- sm4_enc_impl_eq; unfold sm4_enc_impl | rewrite <- sm4_dec_impl_eq; unfold sm4_dec_impl]; reflexivity.
Qed.

Section SM4Inst.
  Variable key : list N.
  Let E := implE key.
  Let D := implD key.
  Ltac sm4fin := intros; lazymatch goal with
    | |- length (E _) = 16 => apply (implE_len key)
    | |- length (D _) = 16 => apply (implD_len key)
    | |- bytes_ok (E _) = true => apply (implE_ok key)
    | |- D (E _) = _ => apply (implDE key); assumption
    | _ => assumption
    end.

  (* ---- ECB ---- *)
  Theorem sm4_ecb_encrypt_stream_eq chunks :
    ecb_stream E chunks =
    let m := concat chunks in if length m mod 16 =? 0 then Some (ecb_blocks E (length m / 16) m) else None.
  Proof. eapply (ecb_stream_eq E D); sm4fin. Qed.
  Theorem sm4_ecb_decrypt_stream_eq chunks :
    ecb_stream D chunks =
    let m := concat chunks in if length m mod 16 =? 0 then Some (ecb_blocks D (length m / 16) m) else None.
  Proof. eapply (ecb_stream_eq E D); sm4fin. Qed.
  Theorem sm4_ecb_written (F : list N -> list N) chunks d : F = E \/ F = D ->
    match buf_run 16 false (ecb_crypt F) ecb_init chunks with
    | None => False
    | Some (c, _) => match ecb_update F c d with None => False | Some (_, o) => length o <= query16 (length d) end
    end.
  Proof. intros [-> | ->]; eapply ecb_written; sm4fin. Qed.
  Theorem sm4_ecb_eq_spec k m : length m = k * 16 ->
    ecb_blocks E k m = ecb_spec E m /\ ecb_blocks D k m = ecb_spec D m.
  Proof. intros H. split; apply ecb_impl_eq_spec; exact H. Qed.
  Theorem sm4_ecb_dec_enc k m : length m = k * 16 -> bytes_ok m = true -> ecb_blocks D k (ecb_blocks E k m) = m.
  Proof. eapply (ecb_dec_enc E D); sm4fin. Qed.

  (* ---- CBC + PKCS#7 ---- *)
  Theorem sm4_cbc_encrypt_stream_eq iv chunks :
    cbc_encrypt_stream E iv chunks = Some (cbc_padding_encrypt E iv (concat chunks)).
  Proof. eapply (cbc_encrypt_stream_eq E D); sm4fin. Qed.
  Theorem sm4_cbc_decrypt_stream_eq iv chunks : length iv = 16 ->
    cbc_decrypt_stream D iv chunks = sm4_cbc_padding_decrypt D iv (concat chunks).
  Proof. eapply (cbc_decrypt_stream_eq E D); sm4fin. Qed.
  Theorem sm4_cbc_encrypt_written iv chunks d :
    match buf_run 16 false (cbc_enc_crypt E) (cbc_init iv) chunks with
    | None => False
    | Some (c, _) => match cbc_encrypt_update E c d with None => False | Some (_, o) => length o <= query16 (length d) end
    end.
  Proof. eapply cbc_encrypt_written; sm4fin. Qed.
  Theorem sm4_cbc_decrypt_written iv chunks d : length iv = 16 ->
    match buf_run 16 true (cbc_dec_crypt D) (cbc_init iv) chunks with
    | None => False
    | Some (c, _) => match cbc_decrypt_update D c d with None => False | Some (_, o) => length o <= query16 (length d) end
    end.
  Proof. eapply (cbc_decrypt_written E D); sm4fin. Qed.
  Theorem sm4_cbc_padding_encrypt_eq_spec iv m : cbc_padding_encrypt E iv m = cbc_pad_enc_spec E iv m.
  Proof. eapply (cbc_padding_encrypt_eq_spec E D); sm4fin. Qed.
  Theorem sm4i_cbc_padding_decrypt_eq_spec iv c : length iv = 16 ->
    sm4_cbc_padding_decrypt D iv c = cbc_pad_dec_spec_strict D iv c.
  Proof. eapply (sm4_cbc_padding_decrypt_eq_spec E D); sm4fin. Qed.
  Theorem sm4i_cbc_dec_enc iv m : length iv = 16 -> bytes_ok iv = true -> bytes_ok m = true ->
    sm4_cbc_padding_decrypt D iv (cbc_padding_encrypt E iv m) = Some m.
  Proof. eapply (sm4_cbc_dec_enc E D); sm4fin. Qed.

  (* ---- CTR / CTR32 ---- *)
  Theorem sm4_ctr_stream_eq ctr chunks : ok16 ctr ->
    ctr_stream (ctr_encrypt_blocks E) ctr chunks = Some (snd (ctr_encrypt (ctr_encrypt_blocks E) ctr (concat chunks))) /\
    ctr_stream (ctr32_encrypt_blocks E) ctr chunks = Some (snd (ctr_encrypt (ctr32_encrypt_blocks E) ctr (concat chunks))) /\
    ctr_stream (ctr_blocks_sf E ctr_incr) ctr chunks = Some (snd (ctr_encrypt (ctr_blocks_sf E ctr_incr) ctr (concat chunks))) /\
    ctr_stream (ctr_blocks_sf E ctr32_incr) ctr chunks = Some (snd (ctr_encrypt (ctr_blocks_sf E ctr32_incr) ctr (concat chunks))).
  Proof.
    intros H. repeat split.
    - eapply (ctr128_stream_eq E D); sm4fin.
    - eapply (ctr32_stream_eq E D); sm4fin.
    - eapply (ctr128_sf_stream_eq E D); sm4fin.
    - eapply (ctr32_sf_stream_eq E D); sm4fin.
  Qed.
  Theorem sm4_ctr_written ctr chunks d : ok16 ctr ->
    match buf_run 16 false (ctr_crypt (ctr_encrypt_blocks E)) (ctr_init ctr) chunks with
    | None => False
    | Some (c, _) => match ctr_update (ctr_encrypt_blocks E) c d with None => False | Some (_, o) => length o <= query16 (length d) end
    end /\
    match buf_run 16 false (ctr_crypt (ctr32_encrypt_blocks E)) (ctr_init ctr) chunks with
    | None => False
    | Some (c, _) => match ctr_update (ctr32_encrypt_blocks E) c d with None => False | Some (_, o) => length o <= query16 (length d) end
    end.
  Proof. intros H. split; [eapply (ctr128_written E D) | eapply (ctr32_written E D)]; sm4fin. Qed.

  (* table-driven (64-bit halves / 32-bit word) and byte-wise increments compute the standard's
     counter blocks ctr + i mod 2^128 resp. inc32 *)
  Theorem sm4_ctr_eq_spec ctr m : ok16 ctr ->
    ctr_encrypt (ctr_encrypt_blocks E) ctr m = ctr_spec E ctr m /\
    ctr_encrypt (ctr_blocks_sf E ctr_incr) ctr m = ctr_spec E ctr m /\
    ctr_encrypt (ctr32_encrypt_blocks E) ctr m = ctr32_spec E ctr m /\
    ctr_encrypt (ctr_blocks_sf E ctr32_incr) ctr m = ctr32_spec E ctr m.
  Proof.
    intros H. repeat split.
    - eapply (ctr_encrypt_eq_gen_spec E D) with (incr := incr128); try sm4fin.
      + intros; eapply (ctr_encrypt_blocks_bloop E D); sm4fin.
      + intros; eapply incr128_ok.
      + intros i. eapply (ctr_block_iter E D); sm4fin.
    - eapply (ctr_encrypt_eq_gen_spec E D) with (incr := ctr_incr); try sm4fin.
      + intros; apply ctr_blocks_sf_bloop.
      + intros; eapply ctr_incr_ok; sm4fin.
      + intros i. erewrite (ctr_block_iter E D); try sm4fin.
        revert ctr H. induction i as [|i IH]; intros c Hc; [reflexivity|]. cbn [iter].
        erewrite <- ctr_incr_eq; try sm4fin. apply IH. eapply ctr_incr_ok; sm4fin.
    - eapply (ctr_encrypt_eq_gen_spec E D) with (incr := incr32); try sm4fin.
      + intros; eapply (ctr32_encrypt_blocks_bloop E D); sm4fin.
      + intros; eapply (incr32_ok E D); sm4fin.
      + intros i. eapply (ctr32_block_iter E D); sm4fin.
    - eapply (ctr_encrypt_eq_gen_spec E D) with (incr := ctr32_incr); try sm4fin.
      + intros; apply ctr_blocks_sf_bloop.
      + intros; eapply (ctr32_incr_ok E D); sm4fin.
      + intros i. erewrite (ctr32_block_iter E D); try sm4fin.
        revert ctr H. induction i as [|i IH]; intros c Hc; [reflexivity|]. cbn [iter].
        erewrite <- ctr32_incr_eq; try sm4fin. apply IH. eapply (ctr32_incr_ok E D); sm4fin.
  Qed.
  Theorem sm4_ctr_dec_enc ctr m : ok16 ctr ->
    snd (ctr_encrypt (ctr_encrypt_blocks E) ctr (snd (ctr_encrypt (ctr_encrypt_blocks E) ctr m))) = m /\
    snd (ctr_encrypt (ctr32_encrypt_blocks E) ctr (snd (ctr_encrypt (ctr32_encrypt_blocks E) ctr m))) = m.
  Proof.
    intros H. split.
    - eapply (ctr_dec_enc E D) with (incr := incr128); try sm4fin.
      + intros; eapply (ctr_encrypt_blocks_bloop E D); sm4fin.
      + intros; eapply incr128_ok.
    - eapply (ctr_dec_enc E D) with (incr := incr32); try sm4fin.
      + intros; eapply (ctr32_encrypt_blocks_bloop E D); sm4fin.
      + intros; eapply (incr32_ok E D); sm4fin.
  Qed.

  (* ---- OFB ---- *)
  Theorem sm4_ofb_stream_eq iv chunks : ofb_stream E iv chunks = Some (snd (ofb_encrypt E iv (concat chunks))).
  Proof. eapply (ofb_stream_eq E D); sm4fin. Qed.
  Theorem sm4_ofb_written iv chunks d :
    match buf_run 16 false (ofb_encrypt E) (ofb_init iv) chunks with
    | None => False
    | Some (c, _) => match ofb_update E c d with None => False | Some (_, o) => length o <= query16 (length d) end
    end.
  Proof. eapply (ofb_written E D); sm4fin. Qed.
  Theorem sm4_ofb_eq_spec iv m : snd (ofb_encrypt E iv m) = ofb_spec E iv m.
  Proof. eapply ofb_encrypt_eq_spec; sm4fin. Qed.
  Theorem sm4_ofb_dec_enc iv m : snd (ofb_encrypt E iv (snd (ofb_encrypt E iv m))) = m.
  Proof. eapply ofb_dec_enc; sm4fin. Qed.

  (* ---- CFB-s, every segment size ---- *)
  Theorem sm4_cfb_stream_eq s iv chunks : 1 <= s <= 16 ->
    cfb_encrypt_stream E s iv chunks = Some (snd (cfb_encrypt E s iv (concat chunks))) /\
    cfb_decrypt_stream E s iv chunks = Some (snd (cfb_decrypt E s iv (concat chunks))).
  Proof. intros H. split; [eapply (cfb_encrypt_stream_eq E D) | eapply (cfb_decrypt_stream_eq E D)]; sm4fin. Qed.
  Theorem sm4_cfb_init_rejects s iv chunks : ~ (1 <= s <= 16) ->
    cfb_encrypt_stream E s iv chunks = None /\ cfb_decrypt_stream E s iv chunks = None.
  Proof. intros H. unfold cfb_encrypt_stream, cfb_decrypt_stream. rewrite (cfb_init_bad E D) by (try exact H; sm4fin). auto. Qed.
  Theorem sm4_cfb_written s iv chunks d : 1 <= s <= 16 ->
    match buf_run s false (cfb_encrypt E s) (mkb iv []) chunks with
    | None => False
    | Some (c, _) => match cfb_encrypt_update E s c d with None => False | Some (_, o) => length o <= cfb_query (length d) end
    end /\
    match buf_run s false (cfb_decrypt E s) (mkb iv []) chunks with
    | None => False
    | Some (c, _) => match cfb_decrypt_update E s c d with None => False | Some (_, o) => length o <= cfb_query (length d) end
    end.
  Proof. intros H. split; [eapply (cfb_encrypt_written E D) | eapply (cfb_decrypt_written E D)]; sm4fin. Qed.
  Theorem sm4_cfb_eq_spec s iv m : 1 <= s <= 16 -> length iv = 16 ->
    snd (cfb_encrypt E s iv m) = cfb_enc_spec E s iv m /\ snd (cfb_decrypt E s iv m) = cfb_dec_spec E s iv m.
  Proof. intros H L. split; [eapply cfb_encrypt_eq_spec | eapply cfb_decrypt_eq_spec]; sm4fin. Qed.
  Theorem sm4_cfb_dec_enc s iv m : 1 <= s <= 16 -> snd (cfb_decrypt E s iv (snd (cfb_encrypt E s iv m))) = m.
  Proof. eapply cfb_dec_enc; sm4fin. Qed.
End SM4Inst.

(* ---- XTS ---- *)
Lemma xts_mul2_len T : length (xts_mul2 T) = 16.
Proof.
  unfold xts_mul2. destruct (gf128_mul_by_2 _ _) as [r0 r1].
  unfold putu64. rewrite app_length, !N_to_be_length. reflexivity.
Qed.
Lemma xts_mul2_ok T : bytes_ok (xts_mul2 T) = true.
Proof.
  unfold xts_mul2. destruct (gf128_mul_by_2 _ _) as [r0 r1].
  unfold putu64. rewrite bytes_ok_app, !N_to_be_ok. reflexivity.
Qed.

Section SM4Xts.
  Variable key1 key2 : list N.
  Let E := implE key1.
  Let D := implD key1.
  Let E2 := implE key2.
  Ltac xtsfin := intros; lazymatch goal with
    | |- length (E _) = 16 => apply (implE_len key1)
    | |- length (D _) = 16 => apply (implD_len key1)
    | |- bytes_ok (E _) = true => apply (implE_ok key1)
    | |- D (E _) = _ => apply (implDE key1); assumption
    | |- length (E2 _) = 16 => apply (implE_len key2)
    | |- bytes_ok (E2 _) = true => apply (implE_ok key2)
    | |- length (xts_mul2 _) = 16 => apply xts_mul2_len
    | |- bytes_ok (xts_mul2 _) = true => apply xts_mul2_ok
    | _ => assumption
    end.

  Theorem sm4_xts_dec_enc tweak m : 16 <= length m -> bytes_ok m = true ->
    xts_encrypt E E2 xts_mul2 tweak m = Some (xts_encrypt_raw E E2 xts_mul2 tweak m) /\
    xts_decrypt D E2 xts_mul2 tweak (xts_encrypt_raw E E2 xts_mul2 tweak m) = Some m.
  Proof.
    intros Hm Om. split.
    - unfold xts_encrypt. replace (length m <? 16) with false by (symmetry; apply Nat.ltb_ge; exact Hm). reflexivity.
    - apply xts_dec_enc; try assumption; xtsfin.
  Qed.
  Theorem sm4_xts_short_rejected tweak m : length m < 16 ->
    xts_encrypt E E2 xts_mul2 tweak m = None /\ xts_decrypt D E2 xts_mul2 tweak m = None.
  Proof.
    intros H. unfold xts_encrypt, xts_decrypt.
    replace (length m <? 16) with true by (symmetry; apply Nat.ltb_lt; exact H). auto.
  Qed.

  Theorem sm4_xts_stream_eq dus tw chunks : 16 <= dus ->
    xts_stream (xts_encrypt_raw E E2 xts_mul2) dus tw chunks =
      (let m := concat chunks in
       if length m mod dus =? 0 then Some (snd (xts_units (xts_encrypt_raw E E2 xts_mul2) dus (length m / dus) tw m)) else None) /\
    xts_stream (xts_decrypt_raw D E2 xts_mul2) dus tw chunks =
      (let m := concat chunks in
       if length m mod dus =? 0 then Some (snd (xts_units (xts_decrypt_raw D E2 xts_mul2) dus (length m / dus) tw m)) else None).
  Proof.
    intros Hd. split; apply (xts_stream_eq E D E2 xts_mul2); try exact Hd; try xtsfin; intros t u Hu.
    - rewrite <- Hu. eapply (xts_raw_length E D E2 xts_mul2) with (F := E); try xtsfin; [lia | left; reflexivity].
    - rewrite <- Hu. eapply (xts_raw_length E D E2 xts_mul2) with (F := D); try xtsfin; [lia | right; reflexivity].
  Qed.
  Theorem sm4_xts_stream_bad_unit (f : list N -> list N -> list N) dus tw chunks : dus < 16 -> xts_stream f dus tw chunks = None.
  Proof. apply (xts_stream_bad_unit E D E2 xts_mul2); xtsfin. Qed.
  Theorem sm4_xts_units_eq_spec (f : list N -> list N -> list N) dus tw k m : 0 < dus -> length m = k * dus ->
    snd (xts_units f dus k tw m) = concat (xts_units_spec f tw (segs dus m)).
  Proof. apply xts_units_eq_spec. Qed.
End SM4Xts.

(* ---- CBC-MAC, in-place ---- *)
Section SM4Misc.
  Variable key : list N.
  Let E := implE key.

  Theorem sm4_cbc_mac_stream_eq_spec chunks :
    cbc_mac_finish E (fold_left (cbc_mac_update E) chunks cbc_mac_init) = cbc_mac_spec E (concat chunks).
  Proof. apply cbc_mac_stream_eq_spec. apply (implE_len key). Qed.

  (* out == in for the encrypt-direction block loops: same bytes as with disjoint buffers *)
  Theorem sm4_inplace_eq n iv buf : n * 16 <= length buf ->
    inplace_loop _ (cbc_enc_step E) n 0 iv buf =
      (fst (cbc_enc_loop E n iv buf), snd (cbc_enc_loop E n iv buf) ++ skipn (n * 16) buf) /\
    inplace_loop _ (ecb_step E) n 0 tt buf = (tt, ecb_blocks E n buf ++ skipn (n * 16) buf) /\
    inplace_loop _ (cstep E ctr_incr) n 0 iv buf =
      (fst (ctr_blocks_sf E ctr_incr n iv buf), snd (ctr_blocks_sf E ctr_incr n iv buf) ++ skipn (n * 16) buf).
  Proof.
    intros H. split; [|split].
    - rewrite inplace_eq_pure; [| intros st blk _; unfold cbc_enc_step; cbn [snd]; apply (implE_len key) | exact H].
      rewrite pure_loop_bloop, <- cbc_enc_loop_bloop. destruct (cbc_enc_loop E n iv buf). reflexivity.
    - rewrite inplace_eq_pure; [| intros st blk _; unfold ecb_step; cbn [snd]; apply (implE_len key) | exact H].
      rewrite pure_loop_bloop, <- ecb_blocks_bloop. reflexivity.
    - rewrite inplace_eq_pure; [| | exact H].
      + rewrite pure_loop_bloop, <- ctr_blocks_sf_bloop. destruct (ctr_blocks_sf E ctr_incr n iv buf). reflexivity.
      + intros st blk Hb. unfold cstep. cbn [snd]. rewrite xor_bytes_length, Hb. unfold E. rewrite (implE_len key). reflexivity.
  Qed.
End SM4Misc.

(* ---- XTS: what the library computes = the index-form Spec with multiplication by x ---- *)
Theorem sm4_xts_eq_spec key1 key2 tweak m : 16 <= length m ->
  xts_encrypt_raw (implE key1) (implE key2) xts_mul2 tweak m =
    xts_enc_spec (implE key1) (implE key2) xts_mul2_spec tweak m /\
  xts_decrypt_raw (implD key1) (implE key2) xts_mul2 tweak m =
    xts_dec_spec (implD key1) (implE key2) xts_mul2_spec tweak m.
Proof.
  intros Hm.
  assert (Ha : forall T, t16 T -> xts_mul2 T = xts_mul2_spec T) by (intros T [L O]; apply xts_mul2_eq_spec; assumption).
  assert (Hp : forall T, t16 (xts_mul2 T)) by (intros T; split; [apply xts_mul2_len | apply xts_mul2_ok]).
  assert (Ht : t16 (implE key2 tweak)) by (split; [apply implE_len | apply implE_ok]).
  split.
  - rewrite (xts_encrypt_raw_eq_spec (implE key1) (implD key1) (implE key2) xts_mul2 tweak m Hm). apply xts_enc_spec_ext; assumption.
  - rewrite (xts_decrypt_raw_eq_spec (implE key1) (implD key1) (implE key2) xts_mul2 tweak m Hm). apply xts_dec_spec_ext; assumption.
Qed.

(* the characterisation of strict PKCS#7 removal does not depend on any block function *)
Theorem pkcs7_unpad_strict_char P m :
  pkcs7_unpad_strict P = Some m <-> exists p, 1 <= p <= 16 /\ P = m ++ repeat (N.of_nat p) p.
Proof. exact (pkcs7_unpad_strict_iff (implE []) (implD []) (implE_len []) (implD_len []) (implE_ok []) (implDE []) P m). Qed.

(* ---- block_cipher.c, aes128 object (compiled only with -DENABLE_AES, which no build defines) ---- *)
From GmVerif Require Import Cipher.AES.
Theorem bc_aes128_encrypt_eq key blk : length key = 16 ->
  bc_aes128_encrypt (bc_aes128_set_encrypt_key key) blk = aes_encrypt_block key blk.
Proof.
  intros Hk. unfold bc_aes128_encrypt, bc_aes128_set_encrypt_key, aes_encrypt_block.
  rewrite firstn_all2 by (rewrite Hk; apply le_n).
  destruct (aes_set_encrypt_key key) as [[w r]|] eqn:He; [reflexivity|].
  unfold aes_set_encrypt_key, aes_rounds in He. rewrite Hk in He. discriminate.
Qed.
(* as coded, decrypt is aes_encrypt under the decryption key schedule: not the inverse (FIPS-197 C.1) *)
Example bc_aes128_decrypt_refuted :
  let k := map N.of_nat (seq 0 16) in
  let ct := [0x69;0xc4;0xe0;0xd8;0x6a;0x7b;0x04;0x30;0xd8;0xcd;0xb7;0x80;0x70;0xb4;0xc5;0x5a]%N in
  aes_decrypt_block k ct = [0x00;0x11;0x22;0x33;0x44;0x55;0x66;0x77;0x88;0x99;0xaa;0xbb;0xcc;0xdd;0xee;0xff]%N /\
  bc_aes128_decrypt (bc_aes128_set_decrypt_key k) ct <> aes_decrypt_block k ct.
Proof. vm_compute. split; [reflexivity | discriminate]. Qed.
