(* aes_dec_enc: for every 16/24/32-byte key and every block of 16 bytes,
   aes_decrypt_block key (aes_encrypt_block key blk) = blk   (src/aes.c: aes_set_encrypt_key,
   aes_set_decrypt_key, aes_encrypt, aes_decrypt).
   Ingredients: S_inv . S = id (sweep over 256 bytes); inv_shift_rows . shift_rows = id (positions);
   inv_mix_columns . mix_columns = id from the xor-additivity of the x2/x3/x9/xb/xd/xe helpers
   (sweeps over byte pairs) and the identity on the four coordinate axes (sweeps over bytes);
   add_round_key is an involution; the decryption key is the same schedule, groups reversed. *)
From GmVerif Require Import Base.ListX Base.Bytes Cipher.AES.
Require Import Lia ZifyN ZifyNat ZifyBool Btauto.
Local Open Scope N_scope.

(* ---------- lifting finite sweeps ---------- *)
Lemma in_bytes256 b : b < 256 -> In b bytes256.
Proof.
  intros H. unfold bytes256. rewrite <- (N2Nat.id b). apply in_map. apply in_seq. lia.
Qed.
Lemma sweep1 (P : N -> bool) : forallb P bytes256 = true -> forall b, b < 256 -> P b = true.
Proof. intros H b Hb. rewrite forallb_forall in H. apply H, in_bytes256, Hb. Qed.
Lemma sweep2 (P : N -> N -> bool) :
  forallb (fun a => forallb (P a) bytes256) bytes256 = true ->
  forall a b, a < 256 -> b < 256 -> P a b = true.
Proof. intros H a b Ha Hb. apply (sweep1 _ (sweep1 _ H a Ha) b Hb). Qed.

Definition byte_ok (b : N) : Prop := b < 256.

Lemma lxor_byte a b : a < 256 -> b < 256 -> N.lxor a b < 256.
Proof.
  intros Ha Hb.
  assert (H : forallb (fun a => forallb (fun b => N.ltb (N.lxor a b) 256) bytes256) bytes256 = true)
    by (vm_compute; reflexivity).
  apply N.ltb_lt. exact (sweep2 _ H a b Ha Hb).
Qed.
Lemma w8_byte x : w8 x < 256.
Proof. unfold w8. change 255 with (N.ones 8). rewrite N.land_ones. apply N.mod_lt. discriminate. Qed.

Lemma S_box_byte b : S_box b < 256.
Proof.
  assert (H : forallb (fun b => N.ltb (S_box b) 256) bytes256 = true) by (vm_compute; reflexivity).
  unfold S_box. pose proof (sweep1 _ H (w8 b) (w8_byte b)) as Hs. apply N.ltb_lt in Hs.
  unfold S_box in Hs. replace (w8 (w8 b)) with (w8 b) in Hs; [exact Hs|].
  unfold w8. rewrite <- N.land_assoc. reflexivity.
Qed.
Lemma S_inv_box_byte b : S_inv_box b < 256.
Proof.
  assert (H : forallb (fun b => N.ltb (S_inv_box b) 256) bytes256 = true) by (vm_compute; reflexivity).
  unfold S_inv_box. pose proof (sweep1 _ H (w8 b) (w8_byte b)) as Hs. apply N.ltb_lt in Hs.
  unfold S_inv_box in Hs. replace (w8 (w8 b)) with (w8 b) in Hs; [exact Hs|].
  unfold w8. rewrite <- N.land_assoc. reflexivity.
Qed.
Lemma S_inv_S b : b < 256 -> S_inv_box (S_box b) = b.
Proof. intros Hb. apply N.eqb_eq. exact (sweep1 _ aes_S_inv_S b Hb). Qed.

(* ---------- the GF(2^8) helpers: range and xor-additivity ---------- *)
Ltac helper_byte f :=
  let H := fresh in
  assert (H : forallb (fun a => N.ltb (f a) 256) bytes256 = true) by (vm_compute; reflexivity);
  intros a Ha; apply N.ltb_lt; exact (sweep1 _ H a Ha).
Lemma x2_byte : forall a, a < 256 -> x2 a < 256. Proof. helper_byte x2. Qed.
Lemma x3_byte : forall a, a < 256 -> x3 a < 256. Proof. helper_byte x3. Qed.
Lemma x9_byte : forall a, a < 256 -> x9 a < 256. Proof. helper_byte x9. Qed.
Lemma xb_byte : forall a, a < 256 -> xb a < 256. Proof. helper_byte xb. Qed.
Lemma xd_byte : forall a, a < 256 -> xd a < 256. Proof. helper_byte xd. Qed.
Lemma xe_byte : forall a, a < 256 -> xe a < 256. Proof. helper_byte xe. Qed.

Ltac helper_add f :=
  let H := fresh in
  assert (H : forallb (fun a => forallb (fun b => N.eqb (f (N.lxor a b)) (N.lxor (f a) (f b))) bytes256) bytes256 = true)
    by (vm_compute; reflexivity);
  intros a b Ha Hb; apply N.eqb_eq; exact (sweep2 _ H a b Ha Hb).
Lemma x2_add : forall a b, a < 256 -> b < 256 -> x2 (N.lxor a b) = N.lxor (x2 a) (x2 b). Proof. helper_add x2. Qed.
Lemma x3_add : forall a b, a < 256 -> b < 256 -> x3 (N.lxor a b) = N.lxor (x3 a) (x3 b). Proof. helper_add x3. Qed.
Lemma x9_add : forall a b, a < 256 -> b < 256 -> x9 (N.lxor a b) = N.lxor (x9 a) (x9 b). Proof. helper_add x9. Qed.
Lemma xb_add : forall a b, a < 256 -> b < 256 -> xb (N.lxor a b) = N.lxor (xb a) (xb b). Proof. helper_add xb. Qed.
Lemma xd_add : forall a b, a < 256 -> b < 256 -> xd (N.lxor a b) = N.lxor (xd a) (xd b). Proof. helper_add xd. Qed.
Lemma xe_add : forall a b, a < 256 -> b < 256 -> xe (N.lxor a b) = N.lxor (xe a) (xe b). Proof. helper_add xe. Qed.

(* rearranging xor trees *)
Ltac xor_ac := apply N.bits_inj; intros ?n; rewrite ?N.lxor_spec; btauto.

From GmVerif Require Import Cipher.GF128 Cipher.GCM Cipher.AeadProofs Cipher.GCMProofs.
Local Open Scope nat_scope.

Definition wf (s : list N) : Prop := length s = 16 /\ Forall byte_ok s.
Definition col_ok (u : list N) : Prop := length u = 4 /\ Forall byte_ok u.

Ltac four u H := do 5 (destruct u as [|? u]; try discriminate H).
Ltac byte_tac := repeat first [assumption | apply lxor_byte | apply x2_byte | apply x3_byte | apply x9_byte
                               | apply xb_byte | apply xd_byte | apply xe_byte].
Ltac inv_forall := repeat match goal with H : Forall _ (_ :: _) |- _ => inversion H; clear H; subst end.

(* ---------- columns ---------- *)
Lemma mix_col_ok u : col_ok u -> col_ok (mix_col u).
Proof.
  intros [Hl Hb]. four u Hl. inv_forall. unfold byte_ok in *. split; [reflexivity|].
  cbn [mix_col]. repeat constructor; unfold byte_ok; byte_tac.
Qed.
Lemma inv_mix_col_ok u : col_ok u -> col_ok (inv_mix_col u).
Proof.
  intros [Hl Hb]. four u Hl. inv_forall. unfold byte_ok in *. split; [reflexivity|].
  cbn [inv_mix_col]. repeat constructor; unfold byte_ok; byte_tac.
Qed.
Lemma xor_col_ok u v : col_ok u -> col_ok v -> col_ok (xor_bytes u v).
Proof.
  intros [Hl Hb] [Hl' Hb']. four u Hl. four v Hl'. inv_forall. unfold byte_ok in *. split; [reflexivity|].
  cbn. repeat constructor; unfold byte_ok; byte_tac.
Qed.

Lemma mix_col_add u v : col_ok u -> col_ok v ->
  mix_col (xor_bytes u v) = xor_bytes (mix_col u) (mix_col v).
Proof.
  intros [Hl Hb] [Hl' Hb']. four u Hl. four v Hl'. inv_forall. unfold byte_ok in *.
  cbn [xor_bytes combine map fst snd mix_col].
  rewrite !x2_add, !x3_add by assumption.
  f_equal; [|f_equal; [|f_equal; [|f_equal]]]; xor_ac.
Qed.
Lemma inv_mix_col_add u v : col_ok u -> col_ok v ->
  inv_mix_col (xor_bytes u v) = xor_bytes (inv_mix_col u) (inv_mix_col v).
Proof.
  intros [Hl Hb] [Hl' Hb']. four u Hl. four v Hl'. inv_forall. unfold byte_ok in *.
  cbn [xor_bytes combine map fst snd inv_mix_col].
  rewrite !xe_add, !xb_add, !xd_add, !x9_add by assumption.
  f_equal; [|f_equal; [|f_equal; [|f_equal]]]; xor_ac.
Qed.
Lemma mix_inv_add u v : col_ok u -> col_ok v ->
  inv_mix_col (mix_col (xor_bytes u v)) = xor_bytes (inv_mix_col (mix_col u)) (inv_mix_col (mix_col v)).
Proof.
  intros Hu Hv. rewrite mix_col_add by assumption.
  apply inv_mix_col_add; apply mix_col_ok; assumption.
Qed.

(* identity on the four axes: sweeps over the 256 bytes *)
Lemma axis_sweep (f : N -> list N) :
  forallb (fun a => bytes_eqb (inv_mix_col (mix_col (f a))) (f a)) bytes256 = true ->
  forall a : N, (a < 256)%N -> inv_mix_col (mix_col (f a)) = f a.
Proof. intros H a Ha. apply bytes_eqb_eq. exact (sweep1 _ H a Ha). Qed.
Lemma axis0 a : (a < 256)%N -> inv_mix_col (mix_col [a; 0; 0; 0]%N) = [a; 0; 0; 0]%N.
Proof. apply (axis_sweep (fun a => [a; 0; 0; 0]%N)). vm_compute. reflexivity. Qed.
Lemma axis1 a : (a < 256)%N -> inv_mix_col (mix_col [0; a; 0; 0]%N) = [0; a; 0; 0]%N.
Proof. apply (axis_sweep (fun a => [0; a; 0; 0]%N)). vm_compute. reflexivity. Qed.
Lemma axis2 a : (a < 256)%N -> inv_mix_col (mix_col [0; 0; a; 0]%N) = [0; 0; a; 0]%N.
Proof. apply (axis_sweep (fun a => [0; 0; a; 0]%N)). vm_compute. reflexivity. Qed.
Lemma axis3 a : (a < 256)%N -> inv_mix_col (mix_col [0; 0; 0; a]%N) = [0; 0; 0; a]%N.
Proof. apply (axis_sweep (fun a => [0; 0; 0; a]%N)). vm_compute. reflexivity. Qed.

Lemma byte0 : byte_ok 0%N. Proof. unfold byte_ok. lia. Qed.
Ltac col_ok_tac := split; [reflexivity | repeat constructor; first [assumption | exact byte0]].

(* ---- InvMixColumns . MixColumns = id on a column of bytes ---- *)
Lemma inv_mix_col_mix_col u : col_ok u -> inv_mix_col (mix_col u) = u.
Proof.
  intros [Hl Hb]. four u Hl. inv_forall.
  rename n into a, n0 into b, n1 into c, n2 into d.
  assert (E1 : [a; b; c; d] = xor_bytes [a; 0; 0; 0]%N (xor_bytes [0; b; 0; 0]%N (xor_bytes [0; 0; c; 0]%N [0; 0; 0; d]%N))).
  { cbn. rewrite ?N.lxor_0_r, ?N.lxor_0_l. reflexivity. }
  rewrite E1 at 1.
  assert (Ha : col_ok [a; 0; 0; 0]%N) by col_ok_tac.
  assert (Hb' : col_ok [0; b; 0; 0]%N) by col_ok_tac.
  assert (Hc : col_ok [0; 0; c; 0]%N) by col_ok_tac.
  assert (Hd : col_ok [0; 0; 0; d]%N) by col_ok_tac.
  rewrite mix_inv_add; [|assumption|repeat apply xor_col_ok; assumption].
  rewrite mix_inv_add; [|assumption|repeat apply xor_col_ok; assumption].
  rewrite mix_inv_add by assumption.
  rewrite axis0, axis1, axis2, axis3 by assumption.
  symmetry. exact E1.
Qed.

(* ---------- the state ---------- *)
Ltac sixteen s H := do 17 (destruct s as [|? s]; try discriminate H).

Lemma sub_bytes_wf s : length s = 16 -> wf (sub_bytes s).
Proof.
  intros Hl. split; [unfold sub_bytes; rewrite map_length; exact Hl|].
  unfold sub_bytes. apply Forall_forall. intros x Hx. apply in_map_iff in Hx.
  destruct Hx as [b [<- _]]. apply S_box_byte.
Qed.
Lemma inv_sub_sub s : wf s -> inv_sub_bytes (sub_bytes s) = s.
Proof.
  intros [_ Hb]. unfold inv_sub_bytes, sub_bytes. rewrite map_map.
  rewrite <- (map_id s) at 2. apply map_ext_in. intros b Hb'.
  apply S_inv_S. rewrite Forall_forall in Hb. apply Hb, Hb'.
Qed.
Lemma shift_rows_wf s : wf s -> wf (shift_rows s).
Proof.
  intros [Hl Hb]. sixteen s Hl. inv_forall. split; [reflexivity|].
  cbn. repeat constructor; assumption.
Qed.
Lemma mix_columns_wf s : wf s -> wf (mix_columns s).
Proof.
  intros [Hl Hb]. sixteen s Hl. inv_forall. unfold byte_ok in *. split; [reflexivity|].
  cbn. repeat constructor; unfold byte_ok; byte_tac.
Qed.
Lemma inv_mix_mix s : wf s -> inv_mix_columns (mix_columns s) = s.
Proof.
  intros [Hl Hb]. sixteen s Hl. inv_forall.
  unfold mix_columns, inv_mix_columns, on_cols.
  cbn [firstn skipn].
  repeat match goal with |- context [mix_col [?a; ?b; ?c; ?d]] =>
    let u := fresh "u" in let Hu := fresh "Hu" in let Eu := fresh "Eu" in
    assert (Hu : col_ok [a; b; c; d]) by (split; [reflexivity|repeat constructor; assumption]);
    pose proof (inv_mix_col_mix_col _ Hu) as Eu;
    pose proof (mix_col_ok _ Hu) as [?Hl4 _];
    remember (mix_col [a; b; c; d]) as u eqn:?Hdef
  end.
  repeat match goal with H : length ?u = 4 |- _ => four u H end.
  cbn [app firstn skipn].
  repeat match goal with E : inv_mix_col _ = _ |- _ => rewrite E; clear E end.
  reflexivity.
Qed.

Lemma rk_bytes_length k : length k = 4 -> length (rk_bytes k) = 16.
Proof. intros H. four k H. reflexivity. Qed.
Lemma rk_bytes_ok k : Forall byte_ok (rk_bytes k).
Proof.
  unfold rk_bytes. apply Forall_forall. intros x Hx. apply in_flat_map in Hx.
  destruct Hx as [w [_ Hx]]. unfold be32 in Hx. cbn in Hx.
  destruct Hx as [<-|[<-|[<-|[<-|[]]]]]; apply w8_byte.
Qed.
Lemma xor_bytes_ok : forall a b, Forall byte_ok a -> Forall byte_ok b -> Forall byte_ok (xor_bytes a b).
Proof.
  induction a as [|x a IH]; intros [|y b] Ha Hb; cbn; try constructor.
  - inversion Ha; inversion Hb; subst. apply lxor_byte; assumption.
  - inversion Ha; inversion Hb; subst. apply IH; assumption.
Qed.
Lemma ark_wf s k : wf s -> length k = 4 -> wf (add_round_key s k).
Proof.
  intros [Hl Hb] Hk. unfold add_round_key. split.
  - rewrite xor_bytes_length, rk_bytes_length, Hl by exact Hk. reflexivity.
  - apply xor_bytes_ok; [exact Hb|apply rk_bytes_ok].
Qed.
Lemma ark_invol s k : length s = 16 -> length k = 4 -> add_round_key (add_round_key s k) k = s.
Proof.
  intros Hl Hk. unfold add_round_key. apply xor_bytes_invol. rewrite rk_bytes_length by exact Hk. lia.
Qed.

(* ---------- rounds and their inverses ---------- *)
Definition rnd (s k : list N) : list N := add_round_key (mix_columns (shift_rows (sub_bytes s))) k.
Definition rnd_inv (u k : list N) : list N :=
  inv_sub_bytes (inv_shift_rows (inv_mix_columns (add_round_key u k))).
Definition fin (s k : list N) : list N := add_round_key (shift_rows (sub_bytes s)) k.

Lemma rnd_wf s k : wf s -> length k = 4 -> wf (rnd s k).
Proof.
  intros Hs Hk. unfold rnd. apply ark_wf; [|exact Hk].
  apply mix_columns_wf, shift_rows_wf, sub_bytes_wf, Hs.
Qed.
Lemma rnd_inv_rnd s k : wf s -> length k = 4 -> rnd_inv (rnd s k) k = s.
Proof.
  intros Hs Hk. unfold rnd_inv, rnd.
  assert (H1 : wf (sub_bytes s)) by (apply sub_bytes_wf, Hs).
  assert (H2 : wf (shift_rows (sub_bytes s))) by (apply shift_rows_wf, H1).
  assert (H3 : wf (mix_columns (shift_rows (sub_bytes s)))) by (apply mix_columns_wf, H2).
  rewrite ark_invol by (first [apply H3 | exact Hk]).
  rewrite inv_mix_mix by exact H2.
  rewrite aes_shift_rows_inv by apply H1.
  apply inv_sub_sub, Hs.
Qed.
Lemma fin_inv s k : wf s -> length k = 4 ->
  inv_sub_bytes (inv_shift_rows (add_round_key (fin s k) k)) = s.
Proof.
  intros Hs Hk. unfold fin.
  assert (H1 : wf (sub_bytes s)) by (apply sub_bytes_wf, Hs).
  assert (H2 : wf (shift_rows (sub_bytes s))) by (apply shift_rows_wf, H1).
  rewrite ark_invol by (first [apply H2 | exact Hk]).
  rewrite aes_shift_rows_inv by apply H1.
  apply inv_sub_sub, Hs.
Qed.

(* ---------- the word list as a list of round keys ---------- *)
Definition keys_ok (ks : list (list N)) : Prop := Forall (fun k => length k = 4) ks.

Lemma groups4_concat ks : keys_ok ks -> groups4 (length ks) (concat ks) = ks.
Proof.
  induction ks as [|k ks IH]; intros H; [reflexivity|]. inversion H; subst.
  cbn [length groups4 concat].
  rewrite firstn_app, skipn_app. replace (4 - length k) with 0 by lia.
  rewrite firstn_O, skipn_O, app_nil_r, firstn_all2, skipn_all2 by lia. cbn [app].
  f_equal. apply IH. assumption.
Qed.
Lemma groups4_keys_ok : forall n w, 4 * n <= length w -> keys_ok (groups4 n w) /\ length (groups4 n w) = n.
Proof.
  induction n as [|n IH]; intros w Hw; cbn [groups4]; [split; [constructor|reflexivity]|].
  destruct (IH (skipn 4 w)) as [H1 H2]; [rewrite skipn_length; lia|].
  split; [constructor; [rewrite firstn_length; lia|exact H1]|cbn [length]; lia].
Qed.
Lemma concat_groups4 : forall n w, length w = 4 * n -> concat (groups4 n w) = w.
Proof.
  induction n as [|n IH]; intros w Hw; cbn [groups4 concat].
  - destruct w; [reflexivity|discriminate].
  - rewrite IH by (rewrite skipn_length; lia). apply firstn_skipn.
Qed.

(* enc_rounds / dec_rounds as folds over the round keys *)
Lemma enc_rounds_fold : forall ks st rest, keys_ok ks ->
  enc_rounds (length ks) st (concat ks ++ rest) = (fold_left rnd ks st, rest).
Proof.
  induction ks as [|k ks IH]; intros st rest H; [reflexivity|]. inversion H; subst.
  cbn [length enc_rounds concat fold_left]. rewrite <- app_assoc.
  rewrite firstn_app, skipn_app. replace (4 - length k) with 0 by lia.
  rewrite firstn_O, skipn_O, app_nil_r, firstn_all2, skipn_all2 by lia. cbn [app].
  apply IH. assumption.
Qed.
Definition dstep (s k : list N) : list N :=
  inv_mix_columns (add_round_key (inv_sub_bytes (inv_shift_rows s)) k).
Lemma dec_rounds_fold : forall ks st rest, keys_ok ks ->
  dec_rounds (length ks) st (concat ks ++ rest) = (fold_left dstep ks st, rest).
Proof.
  induction ks as [|k ks IH]; intros st rest H; [reflexivity|]. inversion H; subst.
  cbn [length dec_rounds concat fold_left]. rewrite <- app_assoc.
  rewrite firstn_app, skipn_app. replace (4 - length k) with 0 by lia.
  rewrite firstn_O, skipn_O, app_nil_r, firstn_all2, skipn_all2 by lia. cbn [app].
  apply IH. assumption.
Qed.
(* dstep seen through inv_sub_bytes . inv_shift_rows is the inverse round *)
Lemma dstep_fold : forall ks s,
  inv_sub_bytes (inv_shift_rows (fold_left dstep ks s)) =
  fold_left rnd_inv ks (inv_sub_bytes (inv_shift_rows s)).
Proof. induction ks as [|k ks IH]; intros s; [reflexivity|]. cbn [fold_left]. rewrite IH. reflexivity. Qed.

Lemma fold_rnd_wf : forall ks s, wf s -> keys_ok ks -> wf (fold_left rnd ks s).
Proof.
  induction ks as [|k ks IH]; intros s Hs Hk; [exact Hs|]. inversion Hk; subst.
  cbn [fold_left]. apply IH; [apply rnd_wf|]; assumption.
Qed.
Lemma fold_inv : forall ks s, wf s -> keys_ok ks ->
  fold_left rnd_inv (rev ks) (fold_left rnd ks s) = s.
Proof.
  induction ks as [|k ks IH]; intros s Hs Hk; [reflexivity|]. inversion Hk; subst.
  cbn [fold_left rev]. rewrite fold_left_app. cbn [fold_left].
  rewrite IH by (first [apply rnd_wf; assumption | assumption]).
  apply rnd_inv_rnd; assumption.
Qed.

(* ---- the cipher over an explicit list of round keys k0 :: mid ++ [kl] ---- *)
Theorem aes_rk_dec_enc k0 mid kl blk :
  wf blk -> length k0 = 4 -> keys_ok mid -> length kl = 4 ->
  let w := k0 ++ concat mid ++ kl in
  let w' := kl ++ concat (rev mid) ++ k0 in
  let r := S (length mid) in
  aes_decrypt_rk w' r (aes_encrypt_rk w r blk) = blk.
Proof.
  intros Hb H0 Hm Hl w w' r. unfold aes_encrypt_rk, aes_decrypt_rk, w, w', r.
  replace (S (length mid) - 1) with (length mid) by lia.
  rewrite !firstn_app, !skipn_app. replace (4 - length k0) with 0 by lia. replace (4 - length kl) with 0 by lia.
  rewrite !firstn_O, !skipn_O, !app_nil_r, !firstn_all2, !skipn_all2 by lia. cbn [app].
  rewrite enc_rounds_fold by exact Hm.
  rewrite firstn_all2 by lia.
  assert (Hrm : keys_ok (rev mid)) by (apply Forall_rev; exact Hm).
  rewrite <- (rev_length mid).
  rewrite dec_rounds_fold by exact Hrm.
  rewrite firstn_all2 by lia.
  set (s0 := add_round_key blk k0).
  assert (Hs0 : wf s0) by (apply ark_wf; assumption).
  set (m := fold_left rnd mid s0).
  assert (Hmw : wf m) by (apply fold_rnd_wf; assumption).
  rewrite dstep_fold.
  change (add_round_key (shift_rows (sub_bytes m)) kl) with (fin m kl).
  rewrite fin_inv by assumption.
  unfold m. rewrite fold_inv by assumption.
  unfold s0. apply ark_invol; [apply Hb|exact H0].
Qed.

(* ---------- the key schedule delivers 4*(rounds+1) words ---------- *)
Lemma expand_length : forall fuel Nk i wrev, length (expand fuel Nk i wrev) = fuel + length wrev.
Proof.
  induction fuel as [|f IH]; intros Nk i wrev; cbn [expand]; [apply rev_length|].
  rewrite IH. cbn [length]. lia.
Qed.
Lemma words_be_length : forall n l, length (words_be n l) = n.
Proof. induction n as [|n IH]; intros l; cbn [words_be length]; [reflexivity|]. rewrite IH. reflexivity. Qed.

Lemma aes_rounds_cases n r : aes_rounds n = Some r ->
  (n = 16 /\ r = 10) \/ (n = 24 /\ r = 12) \/ (n = 32 /\ r = 14).
Proof.
  unfold aes_rounds. intros H.
  do 33 (destruct n as [|n]; [try discriminate H; injection H as <-; lia|]). discriminate H.
Qed.
Lemma aes_set_encrypt_key_length key w r :
  aes_set_encrypt_key key = Some (w, r) -> length w = 4 * (r + 1) /\ 2 <= r.
Proof.
  unfold aes_set_encrypt_key. destruct (aes_rounds (length key)) as [r0|] eqn:Er; [|discriminate].
  intros H. injection H as Hw Hr. subst r0. rewrite <- Hw.
  rewrite expand_length, rev_length, words_be_length.
  apply aes_rounds_cases in Er. destruct Er as [[-> ->]|[[-> ->]|[-> ->]]]; split; reflexivity || lia.
Qed.

(* ---- aes_dec_enc ---- *)
Theorem aes_dec_enc key blk :
  length key = 16 \/ length key = 24 \/ length key = 32 ->
  length blk = 16 -> Forall (fun b => (b < 256)%N) blk ->
  aes_decrypt_block key (aes_encrypt_block key blk) = blk.
Proof.
  intros Hk Hl Hb.
  assert (Hsome : exists w r, aes_set_encrypt_key key = Some (w, r)).
  { unfold aes_set_encrypt_key.
    destruct Hk as [->|[->| ->]];
      [change (aes_rounds 16) with (Some 10)|change (aes_rounds 24) with (Some 12)|change (aes_rounds 32) with (Some 14)];
      eexists; eexists; reflexivity. }
  destruct Hsome as (w & r & Hw).
  destruct (aes_set_encrypt_key_length _ _ _ Hw) as [Hlen Hr].
  unfold aes_decrypt_block, aes_encrypt_block, aes_set_decrypt_key. rewrite Hw.
  destruct (groups4_keys_ok (r + 1) w ltac:(lia)) as [Hok Hn].
  pose proof (concat_groups4 (r + 1) w Hlen) as Hcat.
  set (ks := groups4 (r + 1) w) in *.
  destruct ks as [|k0 ks'] eqn:Eks; [cbn in Hn; lia|].
  destruct (exists_last (l := ks')) as (mid & kl & ->); [intros ->; cbn in Hn; lia|].
  pose proof (Forall_inv Hok) as H0. pose proof (Forall_inv_tail Hok) as Hrest. cbn beta in H0.
  apply Forall_app in Hrest. destruct Hrest as [Hmid Hkl]. pose proof (Forall_inv Hkl) as Hkl4. cbn beta in Hkl4.
  assert (Hr' : r = S (length mid)).
  { cbn [length] in Hn. rewrite app_length in Hn. cbn [length] in Hn. lia. }
  assert (Ew : w = k0 ++ concat mid ++ kl).
  { rewrite <- Hcat. cbn [concat]. rewrite concat_app. cbn [concat]. rewrite app_nil_r. reflexivity. }
  assert (Ew' : concat (rev (k0 :: mid ++ [kl])) = kl ++ concat (rev mid) ++ k0).
  { cbn [rev]. rewrite rev_app_distr. cbn [rev app concat].
    rewrite concat_app. cbn [concat]. rewrite app_nil_r. reflexivity. }
  rewrite Ew', Ew, Hr'.
  apply aes_rk_dec_enc; try assumption. split; assumption.
Qed.

(* ===================== the block function as used by the modes: length, range, injectivity ===================== *)
Lemma aes_key_decomp key : length key = 16 \/ length key = 24 \/ length key = 32 ->
  exists k0 mid kl, aes_set_encrypt_key key = Some (k0 ++ concat mid ++ kl, S (length mid)) /\
    length k0 = 4 /\ keys_ok mid /\ length kl = 4.
Proof.
  intros Hk.
  assert (Hsome : exists w r, aes_set_encrypt_key key = Some (w, r)).
  { unfold aes_set_encrypt_key.
    destruct Hk as [->|[->| ->]];
      [change (aes_rounds 16) with (Some 10)|change (aes_rounds 24) with (Some 12)|change (aes_rounds 32) with (Some 14)];
      eexists; eexists; reflexivity. }
  destruct Hsome as (w & r & Hw).
  destruct (aes_set_encrypt_key_length _ _ _ Hw) as [Hlen Hr].
  destruct (groups4_keys_ok (r + 1) w ltac:(lia)) as [Hok Hn].
  pose proof (concat_groups4 (r + 1) w Hlen) as Hcat.
  set (ks := groups4 (r + 1) w) in *.
  destruct ks as [|k0 ks'] eqn:Eks; [cbn in Hn; lia|].
  destruct (exists_last (l := ks')) as (mid & kl & ->); [intros ->; cbn in Hn; lia|].
  pose proof (Forall_inv Hok) as H0. pose proof (Forall_inv_tail Hok) as Hrest. cbn beta in H0.
  apply Forall_app in Hrest. destruct Hrest as [Hmid Hkl]. pose proof (Forall_inv Hkl) as Hkl4. cbn beta in Hkl4.
  assert (Hr' : r = S (length mid)).
  { cbn [length] in Hn. rewrite app_length in Hn. cbn [length] in Hn. lia. }
  exists k0, mid, kl. split; [|auto].
  rewrite Hw. f_equal. f_equal; [|exact Hr'].
  rewrite <- Hcat. cbn [concat]. rewrite concat_app. cbn [concat]. rewrite app_nil_r. reflexivity.
Qed.

Lemma aes_encrypt_rk_form k0 mid kl blk : length k0 = 4 -> keys_ok mid -> length kl = 4 ->
  aes_encrypt_rk (k0 ++ concat mid ++ kl) (S (length mid)) blk
  = fin (fold_left rnd mid (add_round_key blk k0)) kl.
Proof.
  intros H0 Hm Hl. unfold aes_encrypt_rk.
  replace (S (length mid) - 1) with (length mid) by lia.
  rewrite !firstn_app, !skipn_app. replace (4 - length k0) with 0 by lia.
  rewrite !firstn_O, !skipn_O, !app_nil_r, !firstn_all2, !skipn_all2 by lia. cbn [app].
  rewrite enc_rounds_fold by exact Hm. rewrite firstn_all2 by lia. reflexivity.
Qed.

Lemma fin_wf s k : wf s -> length k = 4 -> wf (fin s k).
Proof. intros Hs Hk. unfold fin. apply ark_wf; [|exact Hk]. apply shift_rows_wf, sub_bytes_wf, Hs. Qed.

Theorem aes_encrypt_block_wf key blk :
  length key = 16 \/ length key = 24 \/ length key = 32 -> wf blk -> wf (aes_encrypt_block key blk).
Proof.
  intros Hk Hb. destruct (aes_key_decomp key Hk) as (k0 & mid & kl & Hw & H0 & Hm & Hl).
  unfold aes_encrypt_block. rewrite Hw, aes_encrypt_rk_form by assumption.
  apply fin_wf; [|exact Hl]. apply fold_rnd_wf; [|exact Hm]. apply ark_wf; assumption.
Qed.

(* normalising wrapper: any list is read as a block of 16 bytes (identity on well-formed blocks) *)

Lemma Forall_firstn {A} (P : A -> Prop) n : forall l, Forall P l -> Forall P (firstn n l).
Proof. induction n as [|n IH]; intros [|x l] H; cbn; try constructor; inversion H; subst; auto. Qed.
Lemma Forall_zeros n : Forall byte_ok (zeros n).
Proof. induction n; cbn; constructor; [exact byte0|assumption]. Qed.
Lemma norm16_wf x : wf (norm16 x).
Proof.
  unfold norm16. split.
  - rewrite firstn_length, app_length, zeros_length. lia.
  - apply Forall_firstn, Forall_app. split; [|apply Forall_zeros].
    apply Forall_forall. intros b Hb. apply in_map_iff in Hb. destruct Hb as [c [<- _]]. apply w8_byte.
Qed.
Lemma wf_blk_ok x : wf x <-> blk_ok x.
Proof.
  unfold wf, blk_ok, bytes_ok. split; intros [Hl H]; split; try exact Hl.
  - apply forallb_forall. intros b Hb. rewrite Forall_forall in H. apply N.ltb_lt, H, Hb.
  - apply Forall_forall. intros b Hb. rewrite forallb_forall in H. apply N.ltb_lt, H, Hb.
Qed.
Lemma w8_id b : (b < 256)%N -> w8 b = b.
Proof. intros H. unfold w8. change 255%N with (N.ones 8). rewrite N.land_ones. apply N.mod_small. exact H. Qed.
Lemma norm16_id x : wf x -> norm16 x = x.
Proof.
  intros [Hl Hb]. unfold norm16.
  assert (Hm : map w8 x = x).
  { rewrite <- (map_id x) at 2. apply map_ext_in. intros b Hin. apply w8_id. rewrite Forall_forall in Hb. apply Hb, Hin. }
  rewrite Hm, firstn_app, Hl, Nat.sub_diag, firstn_O, app_nil_r. apply firstn_all2. lia.
Qed.

Section AesE.
  Variable key : list N.
  Hypothesis Hk : length key = 16 \/ length key = 24 \/ length key = 32.
  Lemma aesE_len x : length (aes_encrypt_block16 key x) = 16.
  Proof. apply (aes_encrypt_block_wf key _ Hk (norm16_wf x)). Qed.
  Lemma aesE_ok x : bytes_ok (aes_encrypt_block16 key x) = true.
  Proof. apply (proj1 (wf_blk_ok _) (aes_encrypt_block_wf key _ Hk (norm16_wf x))). Qed.
  Lemma aesE_inj x x' : blk_ok x -> blk_ok x' -> aes_encrypt_block16 key x = aes_encrypt_block16 key x' -> x = x'.
  Proof.
    intros Hx Hx' HE. apply wf_blk_ok in Hx. apply wf_blk_ok in Hx'.
    unfold aes_encrypt_block16 in HE. rewrite !norm16_id in HE by assumption.
    destruct Hx as [Hl Hb], Hx' as [Hl' Hb'].
    rewrite <- (aes_dec_enc key x Hk Hl Hb), <- (aes_dec_enc key x' Hk Hl' Hb'), HE. reflexivity.
  Qed.
End AesE.
