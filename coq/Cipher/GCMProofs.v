(* GHASH streaming = one-shot = SP 800-38D; CTR streaming laws; the GCM instance of the tag-window
   theorems of AeadProofs.v; one-shot decision rule and round trip. *)
From GmVerif Require Import Base.ListX Base.Bytes Hash.MD Cipher.GF128 Cipher.GCM Cipher.AeadProofs.
Require Import Lia ZifyN ZifyNat ZifyBool.
Ltac Zify.zify_post_hook ::= Z.div_mod_to_equations.
Local Open Scope nat_scope.

(* ===================== GHASH ===================== *)
Section Ghash.
  Variable H : gf.
  Notation step := (ghash_step H).
  Notation foldn := (MD.foldn gf step 16).

  (* what the `while (len)` loop of ghash() computes: whole blocks, then the zero-padded rest *)
  Definition absorb_spec (X : gf) (d : list N) : gf :=
    let k := length d / 16 in
    let X' := foldn k X d in
    match skipn (k * 16) d with [] => X' | r => step X' (pad16 r) end.

  Lemma ghash_absorb_spec : forall k fuel X d,
    length d / 16 = k -> k + 1 <= fuel \/ d = [] ->
    ghash_absorb fuel H X d = absorb_spec X d.
  Proof.
    induction k as [|k IH]; intros fuel X d Hk Hf; unfold absorb_spec; rewrite Hk.
    - cbn [MD.foldn Nat.mul skipn].
      destruct d as [|b d]; [destruct fuel; reflexivity|].
      destruct Hf as [Hf|Hf]; [|discriminate].
      destruct fuel as [|f]; [lia|]. cbn [ghash_absorb].
      assert (Hlt : length (b :: d) < 16).
      { apply Nat.div_small_iff in Hk; lia. }
      replace (16 <=? length (b :: d)) with false by (symmetry; apply Nat.leb_gt; exact Hlt).
      reflexivity.
    - assert (Hge : 16 <= length d).
      { destruct (Nat.lt_ge_cases (length d) 16) as [Hlt|]; [|assumption].
        rewrite Nat.div_small in Hk by assumption. discriminate. }
      destruct d as [|b d]; [cbn in Hge; lia|].
      destruct Hf as [Hf|Hf]; [|discriminate].
      destruct fuel as [|f]; [lia|]. cbn [ghash_absorb].
      replace (16 <=? length (b :: d)) with true by (symmetry; apply Nat.leb_le; exact Hge).
      set (d0 := b :: d) in *.
      assert (Hk' : length (skipn 16 d0) / 16 = k).
      { rewrite skipn_length.
        replace (length d0) with (1 * 16 + (length d0 - 16)) in Hk by lia.
        rewrite Nat.div_add_l in Hk by lia. lia. }
      rewrite (IH f _ _ Hk') by (left; lia).
      unfold absorb_spec. rewrite Hk'.
      cbn [MD.foldn]. rewrite skipn_skipn_nat.
      replace (16 + k * 16) with (S k * 16) by lia. reflexivity.
  Qed.

  Lemma ghash_absorb_len X d : ghash_absorb (length d) H X d = absorb_spec X d.
  Proof.
    apply ghash_absorb_spec with (k := length d / 16); [reflexivity|].
    destruct d as [|b d]; [right; reflexivity|left].
    pose proof (Nat.div_le_upper_bound (length (b :: d)) 16 (length (b :: d)) ltac:(lia)).
    cbn [length] in *.
    assert (S (length d) / 16 < S (length d)) by (apply Nat.div_lt; lia). lia.
  Qed.
End Ghash.

(* the block buffer of the context after absorbing [m] from chaining value X0 *)
Definition gh_md_of (H X0 : gf) (m : list N) : MD.ctx gf :=
  MD.ctx_of gf (ghash_step H) X0 16 0 m.

Lemma gh_md_init H X0 : MD.mk gf X0 0 [] = gh_md_of H X0 [].
Proof. unfold gh_md_of, MD.ctx_of. cbn. reflexivity. Qed.

Lemma gh_md_update H X0 m d :
  gh_update_md H (gh_md_of H X0 m) d = gh_md_of H X0 (m ++ d).
Proof. unfold gh_update_md, gh_md_of. apply (MD.update_ctx_of gf (ghash_step H) X0 16 0 0%N); lia. Qed.

Definition gh_ctx_of (h aad m : list N) : ghash_ctx :=
  let H := gf_from_bytes h in
  mkGh H (gh_md_of H (ghash_absorb (length aad) H gf_zero aad) m)
       (N.of_nat (length aad)) (N.of_nat (length m) mod 2^64)%N.

Lemma ghash_init_ctx_of h aad : ghash_init h aad = gh_ctx_of h aad [].
Proof. unfold ghash_init, gh_ctx_of. cbn zeta. rewrite <- gh_md_init. reflexivity. Qed.

Lemma ghash_update_ctx_of h aad m d :
  ghash_update (gh_ctx_of h aad m) d = gh_ctx_of h aad (m ++ d).
Proof.
  unfold ghash_update, gh_ctx_of. cbn [gh_H gh_md gh_aadlen gh_clen].
  rewrite gh_md_update. f_equal.
  rewrite app_length, Nat2N.inj_add.
  rewrite N.add_mod_idemp_l by (cbv; discriminate). reflexivity.
Qed.

Lemma ghash_updates_ctx_of h aad chunks m :
  fold_left ghash_update chunks (gh_ctx_of h aad m) = gh_ctx_of h aad (m ++ concat chunks).
Proof.
  revert m; induction chunks as [|c cs IH]; intros m; cbn [fold_left concat].
  - rewrite app_nil_r; reflexivity.
  - rewrite ghash_update_ctx_of, IH, app_assoc. reflexivity.
Qed.

Lemma N_len_mod (n : nat) : ((N.of_nat n mod 2^64) * 8 mod 2^64 = (N.of_nat n * 8) mod 2^64)%N.
Proof. rewrite N.mul_mod_idemp_l by (cbv; discriminate). reflexivity. Qed.

Lemma ghash_finish_ctx_of h aad m : ghash_finish (gh_ctx_of h aad m) = ghash h aad m.
Proof.
  unfold ghash_finish, gh_ctx_of, ghash. cbn [gh_H gh_md gh_aadlen gh_clen].
  set (H := gf_from_bytes h). set (X0 := ghash_absorb (length aad) H gf_zero aad).
  rewrite (ghash_absorb_len H X0 m).
  unfold gh_md_of, MD.ctx_of, absorb_spec. cbn [MD.st MD.buf].
  unfold len_block. rewrite N_len_mod.
  destruct (skipn (length m / 16 * 16) m); reflexivity.
Qed.

(* ---- ghash_stream: incremental = one-shot for every chunking ---- *)
Theorem ghash_stream h aad chunks :
  ghash_finish (fold_left ghash_update chunks (ghash_init h aad)) = ghash h aad (concat chunks).
Proof. rewrite ghash_init_ctx_of, ghash_updates_ctx_of. cbn [app]. apply ghash_finish_ctx_of. Qed.

(* ===================== CTR ===================== *)
Section Ctr.
  Variable E : list N -> list N.
  Variable incr : list N -> list N.
  Notation ctrc := (ctr_crypt E incr).
  Notation ik := (incr_k incr).

  Lemma incr_k_add a b c : ik b (ik a c) = ik (a + b) c.
  Proof. revert c; induction a as [|a IH]; intros c; cbn [incr_k Nat.add]; [reflexivity|apply IH]. Qed.

  Lemma ctr_fuel : forall f1 f2 ctr d, length d <= 16 * f1 -> length d <= 16 * f2 ->
    ctrc f1 ctr d = ctrc f2 ctr d.
  Proof.
    induction f1 as [|f1 IH]; intros f2 ctr d H1 H2.
    - destruct d; [|cbn in H1; lia]. destruct f2; reflexivity.
    - destruct d as [|b d]; [destruct f2; reflexivity|].
      destruct f2 as [|f2]; [cbn in H2; lia|].
      cbn [ctr_crypt]. f_equal. apply IH; rewrite skipn_length; lia.
  Qed.

  Lemma ctr_split : forall k fuel ctr a b, length a = 16 * k ->
    ctrc (k + fuel) ctr (a ++ b) = ctrc k ctr a ++ ctrc fuel (ik k ctr) b.
  Proof.
    induction k as [|k IH]; intros fuel ctr a b Ha.
    - destruct a; [|cbn in Ha; lia]. reflexivity.
    - destruct a as [|x a]; [cbn in Ha; lia|].
      cbn [Nat.add ctr_crypt incr_k]. change ((x :: a) ++ b) with (x :: a ++ b).
      set (a0 := x :: a) in *. change (x :: a ++ b) with (a0 ++ b).
      assert (Hnn : a0 ++ b <> []) by (unfold a0; discriminate).
      destruct (a0 ++ b) eqn:Eab; [contradiction|]. rewrite <- Eab. clear Eab Hnn.
      rewrite firstn_app, skipn_app.
      replace (16 - length a0) with 0 by lia.
      change (firstn 0 b) with (@nil N). change (skipn 0 b) with b. rewrite app_nil_r.
      rewrite <- app_assoc. f_equal. apply IH. rewrite skipn_length. lia.
  Qed.

  (* state and output after absorbing x from (c0, []) *)
  Definition ctr_state (c0 x : list N) : ctr_ctx :=
    mkCtr (ik (length x / 16) c0) (skipn (length x / 16 * 16) x).
  Definition ctr_out (c0 x : list N) : list N :=
    ctrc (length x / 16) c0 (firstn (length x / 16 * 16) x).
  Definition ctr_update (c : ctr_ctx) (d : list N) : ctr_ctx * list N :=
    let all := cc_buf c ++ d in
    let k := length all / 16 in
    (mkCtr (ik k (cc_ctr c)) (skipn (k * 16) all), ctrc k (cc_ctr c) (firstn (k * 16) all)).

  Lemma ctr_update_state c0 a b :
    ctr_update (ctr_state c0 a) b = (ctr_state c0 (a ++ b), skipn (length (ctr_out c0 a)) (ctr_out c0 (a ++ b)))
    /\ ctr_out c0 (a ++ b) = ctr_out c0 a ++ snd (ctr_update (ctr_state c0 a) b).
  Proof.
    set (ka := length a / 16).
    set (ra := skipn (ka * 16) a).
    assert (Hdm : length a = ka * 16 + length a mod 16)
      by (pose proof (Nat.div_mod (length a) 16 ltac:(lia)); subst ka; lia).
    assert (Hr : length a mod 16 < 16) by (apply Nat.mod_upper_bound; lia).
    assert (Hra : length ra = length a mod 16) by (unfold ra; rewrite skipn_length; lia).
    set (k := length (ra ++ b) / 16).
    assert (Hkk : length (a ++ b) / 16 = ka + k).
    { unfold k. rewrite !app_length, Hra. rewrite Hdm at 1.
      rewrite <- Nat.add_assoc, Nat.div_add_l by lia. reflexivity. }
    assert (Hab : a ++ b = firstn (ka * 16) a ++ (ra ++ b)).
    { unfold ra. rewrite app_assoc, firstn_skipn. reflexivity. }
    assert (Hfa : length (firstn (ka * 16) a) = ka * 16) by (apply firstn_length_le; lia).
    assert (Hout : ctr_out c0 (a ++ b) = ctr_out c0 a ++ ctrc k (ik ka c0) (firstn (k * 16) (ra ++ b))).
    { unfold ctr_out. rewrite Hkk. fold ka.
      rewrite Hab. rewrite firstn_app, Hfa.
      rewrite (firstn_all2 (firstn (ka * 16) a)) by lia.
      replace ((ka + k) * 16 - ka * 16) with (k * 16) by lia.
      apply ctr_split. lia. }
    assert (Hupd : ctr_update (ctr_state c0 a) b =
                   (ctr_state c0 (a ++ b), ctrc k (ik ka c0) (firstn (k * 16) (ra ++ b)))).
    { unfold ctr_update, ctr_state. cbn [cc_ctr cc_buf]. fold ka. fold ra. fold k.
      rewrite Hkk, incr_k_add. f_equal. f_equal.
      rewrite Hab. rewrite (skipn_app ((ka + k) * 16)), Hfa.
      rewrite (skipn_all2 (firstn (ka * 16) a)) by lia.
      replace ((ka + k) * 16 - ka * 16) with (k * 16) by lia. reflexivity. }
    split.
    - rewrite Hupd. f_equal. rewrite Hout, skipn_app, Nat.sub_diag, skipn_all. reflexivity.
    - rewrite Hupd. cbn [snd]. exact Hout.
  Qed.

  Lemma ctr_state_nil c0 : ctr_state c0 [] = mkCtr c0 [].
  Proof. reflexivity. Qed.

  (* flushing the pending bytes completes the one-shot keystream xor *)
  Lemma ctr_finish_total c0 x :
    ctr_out c0 x ++ xor_bytes (cc_buf (ctr_state c0 x)) (E (cc_ctr (ctr_state c0 x)))
    = ctrc (length x) c0 x.
  Proof.
    set (k := length x / 16). set (r := skipn (k * 16) x).
    assert (Hdm : length x = k * 16 + length x mod 16)
      by (pose proof (Nat.div_mod (length x) 16 ltac:(lia)); subst k; lia).
    assert (Hr : length x mod 16 < 16) by (apply Nat.mod_upper_bound; lia).
    assert (Hrl : length r = length x mod 16) by (unfold r; rewrite skipn_length; lia).
    unfold ctr_out, ctr_state. cbn [cc_buf cc_ctr]. fold k. fold r.
    rewrite (ctr_fuel (length x) (k + 1) c0 x) by lia.
    assert (Hx : ctrc (k + 1) c0 x = ctrc (k + 1) c0 (firstn (k * 16) x ++ r))
      by (unfold r; rewrite firstn_skipn; reflexivity).
    rewrite Hx.
    rewrite ctr_split by (rewrite firstn_length_le; lia).
    f_equal. cbn [ctr_crypt].
    destruct r as [|b r0] eqn:Er; [reflexivity|].
    rewrite firstn_all2 by (rewrite Hrl; lia). rewrite app_nil_r. reflexivity.
  Qed.
End Ctr.

(* ===================== xor_bytes facts ===================== *)
Lemma xor_bytes_comm a b : xor_bytes a b = xor_bytes b a.
Proof.
  unfold xor_bytes. revert b; induction a as [|x a IH]; intros [|y b]; cbn; try reflexivity.
  rewrite N.lxor_comm. f_equal. apply IH.
Qed.
Lemma xor_bytes_length a b : length (xor_bytes a b) = Nat.min (length a) (length b).
Proof. unfold xor_bytes. rewrite map_length, combine_length. reflexivity. Qed.
Lemma xor_bytes_invol a b : length a <= length b -> xor_bytes (xor_bytes a b) b = a.
Proof.
  unfold xor_bytes. revert b; induction a as [|x a IH]; intros [|y b] Hl; cbn in *; try reflexivity; try lia.
  rewrite N.lxor_assoc, N.lxor_nilpotent, N.lxor_0_r. f_equal. apply IH. lia.
Qed.
Lemma gf_to_bytes_length a : length (gf_to_bytes a) = 16.
Proof. reflexivity. Qed.
Lemma ghash_length h aad c : length (ghash h aad c) = 16.
Proof. reflexivity. Qed.

(* ===================== the GCM instance ===================== *)
Section GcmInst.
  Variable E : list N -> list N.
  Hypothesis E_len : forall x, length (E x) = 16.
  Variables (iv aad : list N) (taglen : nat).

  Notation y := (gcm_j0 E iv).
  Notation c0 := (ctr32_incr y).
  Notation h := (gcm_H E).

  Definition gcm_st_of (x : list N) : gcm_st :=
    mkGcm (ctr_state ctr32_incr c0 x) (gh_ctx_of h aad x) (E y) taglen.
  Definition gcm_st0 : gcm_st := mkGcm (mkCtr c0 []) (ghash_init h aad) (E y) taglen.

  Lemma gcm_st0_of : gcm_st0 = gcm_st_of [].
  Proof. unfold gcm_st0, gcm_st_of. rewrite ghash_init_ctx_of. reflexivity. Qed.

  Lemma gcm_absorb_of a b :
    gcm_absorb E (gcm_st_of a) b =
    (gcm_st_of (a ++ b), snd (ctr_update E ctr32_incr (ctr_state ctr32_incr c0 a) b)).
  Proof.
    unfold gcm_absorb, gcm_st_of. cbn [g_enc g_mac g_Y g_taglen].
    change (ctr32_update E) with (ctr_update E ctr32_incr).
    destruct (ctr_update_state E ctr32_incr c0 a b) as [H1 _].
    rewrite H1. cbn [snd]. rewrite ghash_update_ctx_of. reflexivity.
  Qed.

  Lemma gcm_absorb_from0 x : gcm_absorb E gcm_st0 x = (gcm_st_of x, ctr_out E ctr32_incr c0 x).
  Proof.
    rewrite gcm_st0_of, gcm_absorb_of. reflexivity.
  Qed.

  Lemma gcm_absorb_nil : gcm_absorb E gcm_st0 [] = (gcm_st0, []).
  Proof. rewrite gcm_absorb_from0, <- gcm_st0_of. reflexivity. Qed.

  Lemma gcm_absorb_app a b :
    gcm_absorb E gcm_st0 (a ++ b) =
    let '(s1, o1) := gcm_absorb E gcm_st0 a in let '(s2, o2) := gcm_absorb E s1 b in (s2, o1 ++ o2).
  Proof.
    rewrite !gcm_absorb_from0, gcm_absorb_of. f_equal.
    destruct (ctr_update_state E ctr32_incr c0 a b) as [_ H2]. exact H2.
  Qed.

  (* tag and plaintext computed by the streaming engine after the ciphertext ct
     = the one-shot tag and the one-shot CTR decryption *)
  Lemma gcm_tagof_of ct :
    gcm_tagof (gcm_st_of ct) = firstn taglen (gcm_tag16 E iv aad ct).
  Proof.
    unfold gcm_tagof, gcm_st_of, gcm_tag16. cbn [g_mac g_Y g_taglen].
    rewrite ghash_finish_ctx_of, xor_bytes_comm. reflexivity.
  Qed.
  Lemma gcm_plain_of ct :
    ctr_out E ctr32_incr c0 ct ++ ctr32_finish E (g_enc (gcm_st_of ct)) = ctr32_crypt E c0 ct.
  Proof. unfold ctr32_finish, ctr32_crypt, gcm_st_of. cbn [g_enc]. apply ctr_finish_total. Qed.

  Hypothesis args_ok : gcm_iv_ok (length iv) && gcm_tag_ok taglen = true.

  Lemma gcm_init_ok : gcm_init E 16 iv aad taglen = Ok (gcm_st0, 0%N, []).
  Proof. unfold gcm_init. rewrite Nat.eqb_refl. cbn [andb]. rewrite args_ok. reflexivity. Qed.

  Lemma gcm_guard_ok cnt n : (cnt + N.of_nat n <= int_max)%N -> gcm_guard cnt n = true.
  Proof.
    intros Hb. unfold gcm_guard. apply andb_true_intro. split; apply N.leb_le.
    - lia.
    - unfold gcm_max_pt. unfold int_max in Hb.
      change (2 ^ 31 - 1)%N with 2147483647%N in Hb. change ((2 ^ 32 - 2) * 16)%N with 68719476704%N. lia.
  Qed.

  (* ---- accept_iff_tag for the streaming SM4-GCM decryptor, every chunking ---- *)
  Theorem gcm_stream_accept_iff chunks p :
    (N.of_nat (length (concat chunks)) <= int_max)%N ->
    (gcm_decrypt_stream E 16 iv aad taglen chunks = Ok p <->
     let all := concat chunks in
     taglen <= length all /\
     let ct := firstn (length all - taglen) all in
     let tag := skipn (length all - taglen) all in
     firstn taglen (gcm_tag16 E iv aad ct) = tag /\ p = ctr32_crypt E c0 ct).
  Proof.
    intros Hlen. unfold gcm_decrypt_stream. rewrite gcm_init_ok.
    rewrite (accept_iff_tag_stream gcm_st (gcm_absorb E) gcm_guard taglen gcm_tagof (gcm_tail E)
               gcm_st0 gcm_absorb_nil gcm_absorb_app).
    cbn zeta. rewrite gcm_absorb_from0.
    split.
    - intros [_ [Hl [t [Ht [Htag ->]]]]]. split; [exact Hl|].
      unfold gcm_tail in Ht. inversion Ht; subst t.
      rewrite gcm_tagof_of in Htag. split; [exact Htag|]. apply gcm_plain_of.
    - intros [Hl [Htag ->]]. split.
      + apply (run_ok gcm_st (gcm_absorb E) gcm_guard taglen int_max gcm_guard_ok gcm_st0). exact Hlen.
      + split; [exact Hl|]. eexists. split; [reflexivity|]. split.
        * rewrite gcm_tagof_of. exact Htag.
        * symmetry. apply gcm_plain_of.
  Qed.

  (* ---- one-shot decision rule ---- *)
  Theorem gcm_oneshot_accept_iff chk c tag p :
    (chk = true -> (N.of_nat (length c) <= gcm_max_pt)%N /\ length tag = taglen) ->
    (gcm_decrypt E chk iv aad c tag = Ok p <->
     firstn (length tag) (gcm_tag16 E iv aad c) = tag /\ p = ctr32_crypt E c0 c).
  Proof.
    intros Hchk. unfold gcm_decrypt.
    assert (Hg : chk && negb (gcm_iv_ok (length iv) && gcm_tag_ok (length tag) &&
                              (N.of_nat (length c) <=? gcm_max_pt)%N) = false).
    { destruct chk; [|reflexivity]. destruct (Hchk eq_refl) as [H1 H2]. rewrite H2, args_ok.
      apply N.leb_le in H1. rewrite H1. reflexivity. }
    rewrite Hg.
    destruct (bytes_eqb (firstn (length tag) (gcm_tag16 E iv aad c)) tag) eqn:Eb.
    - apply bytes_eqb_eq in Eb. split.
      + intros H; inversion H; subst. split; [exact Eb|reflexivity].
      + intros [_ ->]. reflexivity.
    - apply bytes_eqb_neq in Eb. split; [discriminate|]. intros [H _]. contradiction.
  Qed.

  (* ---- streaming verdict and plaintext = one-shot verdict and plaintext ---- *)
  Theorem gcm_stream_eq_oneshot chunks :
    (N.of_nat (length (concat chunks)) <= int_max)%N ->
    taglen <= length (concat chunks) ->
    let all := concat chunks in
    gcm_decrypt_stream E 16 iv aad taglen chunks =
    gcm_decrypt E true iv aad (firstn (length all - taglen) all) (skipn (length all - taglen) all).
  Proof.
    intros Hlen Hl all. subst all.
    set (ct := firstn (length (concat chunks) - taglen) (concat chunks)).
    set (tag := skipn (length (concat chunks) - taglen) (concat chunks)).
    assert (Htl : length tag = taglen) by (unfold tag; rewrite skipn_length; lia).
    assert (Hcl : (N.of_nat (length ct) <= gcm_max_pt)%N).
    { unfold ct. rewrite firstn_length. unfold int_max in Hlen.
      change (2 ^ 31 - 1)%N with 2147483647%N in Hlen. change gcm_max_pt with 68719476704%N. lia. }
    destruct (gcm_decrypt E true iv aad ct tag) as [p| |] eqn:E1.
    - apply gcm_oneshot_accept_iff in E1; [|intros _; split; assumption].
      apply gcm_stream_accept_iff; [exact Hlen|]. cbn zeta. fold ct. fold tag.
      rewrite Htl in E1. split; [exact Hl|exact E1].
    - destruct (gcm_decrypt_stream E 16 iv aad taglen chunks) as [p| |] eqn:E2; [|reflexivity|].
      + apply gcm_stream_accept_iff in E2; [|exact Hlen]. cbn zeta in E2. fold ct in E2. fold tag in E2.
        destruct E2 as [_ E2]. rewrite <- Htl in E2 at 1.
        apply (gcm_oneshot_accept_iff true ct tag p) in E2; [congruence|intros _; split; assumption].
      + exfalso. unfold gcm_decrypt_stream in E2. rewrite gcm_init_ok in E2.
        eapply w_decrypt_no_fault; exact E2.
    - exfalso. unfold gcm_decrypt in E1.
      destruct (true && _); [discriminate|]. destruct (bytes_eqb _ _); discriminate.
  Qed.

  (* ---- dec_accepts_enc, one-shot ---- *)
  Lemma ctr_crypt_length incr : forall fuel ctr d, length d <= 16 * fuel ->
    length (ctr_crypt E incr fuel ctr d) = length d.
  Proof.
    induction fuel as [|f IH]; intros ctr d Hl.
    - destruct d; [reflexivity|cbn in Hl; lia].
    - destruct d as [|b d]; [reflexivity|]. cbn [ctr_crypt].
      rewrite app_length, xor_bytes_length, E_len, IH by (rewrite skipn_length; lia).
      rewrite firstn_length, skipn_length. lia.
  Qed.
  Lemma ctr_crypt_invol incr : forall fuel ctr d, length d <= 16 * fuel ->
    ctr_crypt E incr fuel ctr (ctr_crypt E incr fuel ctr d) = d.
  Proof.
    induction fuel as [|f IH]; intros ctr d Hl.
    - destruct d; [reflexivity|cbn in Hl; lia].
    - destruct d as [|b d]; [reflexivity|].
      cbn [ctr_crypt]. set (d0 := b :: d) in *.
      assert (Hx : length (xor_bytes (firstn 16 d0) (E ctr)) = Nat.min 16 (length d0)).
      { rewrite xor_bytes_length, E_len, firstn_length. lia. }
      destruct (xor_bytes (firstn 16 d0) (E ctr) ++ ctr_crypt E incr f (incr ctr) (skipn 16 d0)) eqn:Eo.
      { apply (f_equal (@length N)) in Eo. rewrite app_length, Hx in Eo. unfold d0 in Eo. cbn in Eo. lia. }
      rewrite <- Eo. clear Eo.
      assert (Hrest : length (skipn 16 d0) <= 16 * f) by (rewrite skipn_length; lia).
      destruct (Nat.le_gt_cases 16 (length d0)) as [Hge|Hlt].
      + rewrite firstn_app, skipn_app, Hx. rewrite Nat.min_l by lia.
        rewrite Nat.sub_diag. rewrite firstn_O, skipn_O. rewrite app_nil_r.
        rewrite (firstn_all2 (xor_bytes _ _)) by lia.
        rewrite (skipn_all2 (xor_bytes _ _)) by lia. cbn [app].
        rewrite xor_bytes_invol by (rewrite E_len, firstn_length; lia).
        rewrite IH by exact Hrest. apply firstn_skipn.
      + assert (Hnil : forall g c, ctr_crypt E incr g c [] = []) by (intros [|g] c; reflexivity).
        rewrite (skipn_all2 d0) by lia. rewrite Hnil, app_nil_r.
        rewrite (firstn_all2 d0) by lia.
        rewrite firstn_all2 by (rewrite xor_bytes_length, E_len; lia).
        rewrite skipn_all2 by (rewrite xor_bytes_length, E_len; lia).
        rewrite Hnil, app_nil_r.
        rewrite xor_bytes_invol by (rewrite E_len; lia). reflexivity.
  Qed.

  Theorem gcm_dec_accepts_enc chk p c t :
    gcm_encrypt E chk iv aad p taglen = Ok (c, t) -> gcm_decrypt E chk iv aad c t = Ok p.
  Proof.
    unfold gcm_encrypt. intros H.
    destruct (chk && negb (gcm_iv_ok (length iv) && gcm_tag_ok taglen &&
                           (N.of_nat (length p) <=? gcm_max_pt)%N)) eqn:Hg; [discriminate|].
    destruct (16 <? taglen) eqn:H16; [discriminate|]. apply Nat.ltb_ge in H16.
    inversion H; subst c t; clear H.
    set (c := ctr32_crypt E c0 p).
    assert (Hcl : length c = length p) by (unfold c, ctr32_crypt; apply ctr_crypt_length; lia).
    assert (Htl : length (firstn taglen (gcm_tag16 E iv aad c)) = taglen).
    { rewrite firstn_length. unfold gcm_tag16. rewrite xor_bytes_length, E_len, ghash_length. lia. }
    unfold gcm_decrypt. rewrite Htl, Hcl, Hg.
    replace (bytes_eqb (firstn taglen (gcm_tag16 E iv aad c)) (firstn taglen (gcm_tag16 E iv aad c))) with true
      by (symmetry; apply bytes_eqb_eq; reflexivity).
    f_equal. unfold c, ctr32_crypt.
    rewrite ctr_crypt_length by lia. apply ctr_crypt_invol. lia.
  Qed.
  (* ---- streaming: fewer than taglen bytes in total => failure (no assumption) ---- *)
  Theorem gcm_stream_short_rejected chunks :
    length (concat chunks) < taglen -> gcm_decrypt_stream E 16 iv aad taglen chunks = Err.
  Proof.
    intros Hlt. unfold gcm_decrypt_stream. rewrite gcm_init_ok.
    apply (truncated_below_taglen_rejected _ _ _ _ _ _ gcm_st0 gcm_absorb_nil gcm_absorb_app). exact Hlt.
  Qed.

  (* ---- streaming: same ciphertext, different tag (e.g. any tag bit flipped) => not both accepted ---- *)
  Theorem gcm_stream_tag_change_rejected chunks chunks' p ct tag tag' :
    concat chunks = ct ++ tag -> concat chunks' = ct ++ tag' ->
    length tag = taglen -> length tag' = taglen -> tag <> tag' ->
    gcm_decrypt_stream E 16 iv aad taglen chunks = Ok p ->
    gcm_decrypt_stream E 16 iv aad taglen chunks' = Err.
  Proof.
    unfold gcm_decrypt_stream. rewrite gcm_init_ok.
    apply (tag_change_rejected _ _ _ _ _ _ gcm_st0 gcm_absorb_nil gcm_absorb_app).
  Qed.

  (* ---- one-shot: a different tag of the same length is rejected ---- *)
  Theorem gcm_oneshot_tag_change_rejected chk c tag tag' p :
    length tag = length tag' -> tag <> tag' ->
    gcm_decrypt E chk iv aad c tag = Ok p -> gcm_decrypt E chk iv aad c tag' = Err.
  Proof.
    intros Hl Hne. unfold gcm_decrypt. rewrite <- Hl.
    destruct (chk && _); [discriminate|].
    destruct (bytes_eqb (firstn (length tag) (gcm_tag16 E iv aad c)) tag) eqn:E1; [|discriminate].
    intros _. apply bytes_eqb_eq in E1.
    replace (bytes_eqb (firstn (length tag) (gcm_tag16 E iv aad c)) tag') with false; [reflexivity|].
    symmetry. apply bytes_eqb_neq. congruence.
  Qed.
End GcmInst.

(* ===================== what a forged acceptance amounts to (full-length tags) ===================== *)
Lemma xor_bytes_cancel_l m a b :
  length a <= length m -> length b <= length m -> xor_bytes m a = xor_bytes m b -> a = b.
Proof.
  intros Ha Hb H.
  rewrite <- (xor_bytes_invol a m Ha), <- (xor_bytes_invol b m Hb).
  rewrite (xor_bytes_comm a m), (xor_bytes_comm b m), H. reflexivity.
Qed.
Lemma xor_bytes_cancel_r m m' a :
  length m = length a -> length m' = length a -> xor_bytes m a = xor_bytes m' a -> m = m'.
Proof.
  intros Hm Hm' H. rewrite (xor_bytes_comm m a), (xor_bytes_comm m' a) in H.
  apply xor_bytes_cancel_l in H; [exact H|lia|lia].
Qed.

(* well-formed blocks: 16 bytes, each < 256 *)
Definition blk_ok (x : list N) : Prop := length x = 16 /\ bytes_ok x = true.

Section GcmForgery.
  Variable E : list N -> list N.
  Hypothesis E_len : forall x, length (E x) = 16.

  Lemma gcm_decrypt_ok_tag chk iv aad c tag p :
    gcm_decrypt E chk iv aad c tag = Ok p -> firstn (length tag) (gcm_tag16 E iv aad c) = tag.
  Proof.
    unfold gcm_decrypt. destruct (chk && _); [discriminate|].
    destruct (bytes_eqb _ tag) eqn:Eb; [|discriminate]. intros _. apply bytes_eqb_eq. exact Eb.
  Qed.
  Lemma tag16_length iv aad c : length (gcm_tag16 E iv aad c) = 16.
  Proof. unfold gcm_tag16. rewrite xor_bytes_length, E_len, ghash_length. reflexivity. Qed.

  (* same key and nonce, 16-byte tag: a second (AAD', C') is accepted under the tag of (AAD, C)
     exactly when GHASH_H collides on the two inputs -- no other way, and no assumption *)
  Theorem gcm_accept_other_iff_ghash_collision chk iv aad c aad' c' tag p p' :
    length tag = 16 ->
    gcm_decrypt E chk iv aad c tag = Ok p ->
    gcm_decrypt E chk iv aad' c' tag = Ok p' ->
    ghash (gcm_H E) aad' c' = ghash (gcm_H E) aad c.
  Proof.
    intros Hl H1 H2. apply gcm_decrypt_ok_tag in H1. apply gcm_decrypt_ok_tag in H2.
    rewrite Hl in *. rewrite firstn_all2 in H1, H2 by (rewrite tag16_length; lia).
    unfold gcm_tag16 in *. rewrite <- H2 in H1.
    apply xor_bytes_cancel_l in H1; [congruence| |]; rewrite E_len, ghash_length; lia.
  Qed.

  (* ct / AAD changes: rejected whenever GHASH_H does not collide on the two inputs
     (premise [ghash_no_collision]; it fails e.g. for H = 0) *)
  Theorem gcm_ct_aad_change_rejected_partial chk iv aad c aad' c' tag p :
    length tag = 16 ->
    ghash (gcm_H E) aad' c' <> ghash (gcm_H E) aad c ->      (* ghash_no_collision *)
    gcm_decrypt E chk iv aad c tag = Ok p ->
    forall p', gcm_decrypt E chk iv aad' c' tag <> Ok p'.
  Proof.
    intros Hl Hne H1 p' H2. apply Hne.
    eapply gcm_accept_other_iff_ghash_collision; eassumption.
  Qed.

  (* nonce changes, 12-byte IVs, 16-byte tag: rejected when E_K is injective on well-formed blocks
     (premise [E_inj]; a theorem for SM4 and AES via their inverse ciphers) *)
  Theorem gcm_nonce_change_rejected_partial chk iv iv' aad c tag p :
    (forall x x', blk_ok x -> blk_ok x' -> E x = E x' -> x = x') ->     (* E_inj *)
    length tag = 16 -> length iv = 12 -> length iv' = 12 -> iv <> iv' ->
    bytes_ok iv = true -> bytes_ok iv' = true ->
    gcm_decrypt E chk iv aad c tag = Ok p ->
    forall p', gcm_decrypt E chk iv' aad c tag <> Ok p'.
  Proof.
    intros Einj Hl Hi Hi' Hne Ho Ho' H1 p' H2. apply Hne.
    apply gcm_decrypt_ok_tag in H1. apply gcm_decrypt_ok_tag in H2.
    rewrite Hl in *. rewrite firstn_all2 in H1, H2 by (rewrite tag16_length; lia).
    unfold gcm_tag16 in *. rewrite <- H2 in H1.
    apply xor_bytes_cancel_r in H1; [| rewrite E_len, ghash_length; reflexivity ..].
    unfold gcm_j0 in H1. rewrite Hi, Hi' in H1. cbn [Nat.eqb] in H1.
    apply Einj in H1.
    - apply app_inv_tail in H1. exact H1.
    - split; [rewrite app_length, Hi; reflexivity|]. unfold bytes_ok in *. rewrite forallb_app, Ho. reflexivity.
    - split; [rewrite app_length, Hi'; reflexivity|]. unfold bytes_ok in *. rewrite forallb_app, Ho'. reflexivity.
  Qed.
End GcmForgery.

(* ===================== encrypt side: streaming = one-shot for every chunking ===================== *)
Lemma gcm_guard_true cnt n : (cnt + N.of_nat n <= int_max)%N -> gcm_guard cnt n = true.
Proof.
  intros Hb. unfold gcm_guard. apply andb_true_intro. split; apply N.leb_le.
  - lia.
  - unfold gcm_max_pt. unfold int_max in Hb.
    change (2 ^ 31 - 1)%N with 2147483647%N in Hb. change ((2 ^ 32 - 2) * 16)%N with 68719476704%N. lia.
Qed.

Section GcmEncStream.
  Variable E : list N -> list N.
  Variables (iv aad : list N) (taglen : nat).
  Hypothesis args_ok : gcm_iv_ok (length iv) && gcm_tag_ok taglen = true.

  Notation y := (gcm_j0 E iv).
  Notation c0 := (ctr32_incr y).
  Notation h := (gcm_H E).

  (* state after the plaintext bytes x: counter context after x, GHASH context after the
     ciphertext produced so far *)
  Definition gcm_enc_st_of (x : list N) : gcm_st :=
    mkGcm (ctr_state ctr32_incr c0 x) (gh_ctx_of h aad (ctr_out E ctr32_incr c0 x)) (E y) taglen.

  Lemma gcm_enc_update_of x d win :
    (N.of_nat (length x) + N.of_nat (length d) <= int_max)%N ->
    exists o, gcm_enc_update E (gcm_enc_st_of x, N.of_nat (length x), win) d
              = Ok ((gcm_enc_st_of (x ++ d), N.of_nat (length (x ++ d)), win), o) /\
              ctr_out E ctr32_incr c0 (x ++ d) = ctr_out E ctr32_incr c0 x ++ o.
  Proof.
    intros Hb. unfold gcm_enc_update.
    rewrite (gcm_guard_true (N.of_nat (length x)) (length d) Hb). cbn [negb].
    unfold gcm_enc_st_of. cbn [g_enc g_mac g_Y g_taglen].
    change (ctr32_update E) with (ctr_update E ctr32_incr).
    destruct (ctr_update_state E ctr32_incr c0 x d) as [H1 H2].
    rewrite H1 in *. cbn [snd] in H2.
    eexists. split; [|exact H2].
    rewrite ghash_update_ctx_of, <- H2.
    rewrite app_length, Nat2N.inj_add. reflexivity.
  Qed.

  Lemma gcm_enc_run_of chunks : forall x win,
    (N.of_nat (length x) + N.of_nat (length (concat chunks)) <= int_max)%N ->
    gcm_enc_run E (gcm_enc_st_of x, N.of_nat (length x), win) chunks (ctr_out E ctr32_incr c0 x)
    = Ok ((gcm_enc_st_of (x ++ concat chunks), N.of_nat (length (x ++ concat chunks)), win),
          ctr_out E ctr32_incr c0 (x ++ concat chunks)).
  Proof.
    induction chunks as [|d r IH]; intros x win Hb; cbn [gcm_enc_run concat] in *.
    - rewrite app_nil_r. reflexivity.
    - rewrite app_length, Nat2N.inj_add in Hb.
      destruct (gcm_enc_update_of x d win ltac:(lia)) as (o & HU & Ho).
      rewrite HU, <- Ho, app_assoc. apply IH. rewrite app_length, Nat2N.inj_add. lia.
  Qed.

  Theorem gcm_encrypt_stream_eq_oneshot chunks :
    (N.of_nat (length (concat chunks)) <= int_max)%N ->
    gcm_encrypt_stream E 16 iv aad taglen chunks =
    match gcm_encrypt E true iv aad (concat chunks) taglen with
    | Ok (c, t) => Ok (c ++ t)
    | _ => Err
    end.
  Proof.
    intros Hb. unfold gcm_encrypt_stream. rewrite (gcm_init_ok E iv aad taglen args_ok).
    assert (H0 : gcm_st0 E iv aad taglen = gcm_enc_st_of [])
      by (unfold gcm_st0, gcm_enc_st_of; rewrite ghash_init_ctx_of; reflexivity).
    rewrite H0.
    pose proof (gcm_enc_run_of chunks [] [] ltac:(cbn [length]; lia)) as HR.
    cbn [app length N.of_nat] in HR. change (ctr_out E ctr32_incr c0 []) with (@nil N) in HR.
    rewrite HR.
    set (p := concat chunks) in *.
    unfold gcm_encrypt. rewrite args_ok. cbn [andb].
    assert (Hmax : (N.of_nat (length p) <=? gcm_max_pt)%N = true).
    { apply N.leb_le. unfold int_max in Hb. change (2 ^ 31 - 1)%N with 2147483647%N in Hb.
      change gcm_max_pt with 68719476704%N. lia. }
    rewrite Hmax. cbn [negb].
    assert (Ht : (16 <? taglen) = false).
    { apply andb_prop in args_ok. destruct args_ok as [_ Ht]. unfold gcm_tag_ok in Ht.
      apply andb_prop in Ht. destruct Ht as [_ Ht]. apply Nat.leb_le in Ht. apply Nat.ltb_ge. exact Ht. }
    rewrite Ht. f_equal.
    unfold gcm_enc_finish, gcm_enc_st_of. cbn [fst g_enc g_mac g_Y g_taglen].
    rewrite ghash_update_ctx_of, ghash_finish_ctx_of.
    pose proof (ctr_finish_total E ctr32_incr c0 p) as HF.
    unfold ctr32_finish. rewrite app_assoc, HF.
    unfold ctr32_crypt, gcm_tag16. rewrite (xor_bytes_comm (E y)). reflexivity.
  Qed.
End GcmEncStream.

(* streaming encryption under one chunking, streaming decryption under any other: round trip *)
Theorem gcm_stream_dec_accepts_enc E iv aad taglen chunks1 chunks2 s :
  (forall x, length (E x) = 16) ->
  gcm_iv_ok (length iv) && gcm_tag_ok taglen = true ->
  (N.of_nat (length (concat chunks1)) + 16 <= int_max)%N ->
  gcm_encrypt_stream E 16 iv aad taglen chunks1 = Ok s ->
  concat chunks2 = s ->
  gcm_decrypt_stream E 16 iv aad taglen chunks2 = Ok (concat chunks1).
Proof.
  intros E_len Hargs Hb Henc Hs.
  rewrite (gcm_encrypt_stream_eq_oneshot E iv aad taglen Hargs) in Henc by lia.
  destruct (gcm_encrypt E true iv aad (concat chunks1) taglen) as [[c t]| |] eqn:E1; try discriminate.
  injection Henc as Hs'. rewrite <- Hs' in Hs. clear Hs' s.
  pose proof (gcm_dec_accepts_enc E E_len iv aad taglen true _ _ _ E1) as Hdec.
  assert (Ht16 : taglen <= 16).
  { apply andb_prop in Hargs. destruct Hargs as [_ Ht]. unfold gcm_tag_ok in Ht.
    apply andb_prop in Ht. destruct Ht as [_ Ht]. apply Nat.leb_le in Ht. exact Ht. }
  assert (Hlens : length t = taglen /\ length c = length (concat chunks1)).
  { unfold gcm_encrypt in E1. destruct (true && _); [discriminate|]. destruct (16 <? taglen); [discriminate|].
    inversion E1; subst. split.
    - rewrite firstn_length, (tag16_length E E_len). lia.
    - unfold ctr32_crypt. apply (ctr_crypt_length E E_len [] 0). lia. }
  destruct Hlens as [Htl Hcl].
  rewrite (gcm_stream_eq_oneshot E E_len iv aad taglen Hargs chunks2).
  - rewrite Hs, app_length, Htl. replace (length c + taglen - taglen) with (length c) by lia.
    rewrite firstn_app, skipn_app, Nat.sub_diag, firstn_all, skipn_all, firstn_O, skipn_O, app_nil_r.
    exact Hdec.
  - rewrite Hs, app_length, Htl, Hcl. unfold int_max in *. lia.
  - rewrite Hs, app_length, Htl. lia.
Qed.

(* ===================== ghash() as coded = the SP 800-38D definition ===================== *)
Section GhashSpec.
  Variable H : gf.
  Notation step := (ghash_step H).
  Notation foldn := (MD.foldn gf step 16).

  Lemma pad_mult16_length d : length (pad_mult16 d) mod 16 = 0 /\ length (pad_mult16 d) / 16 = (length d + 15) / 16.
  Proof. unfold pad_mult16. rewrite app_length, zeros_length. lia. Qed.

  (* the `while (len)` loop = folding the zero-padded data block by block *)
  Lemma absorb_spec_foldn X d :
    absorb_spec H X d = foldn (length (pad_mult16 d) / 16) X (pad_mult16 d).
  Proof.
    unfold absorb_spec. set (k := length d / 16). remember (skipn (k * 16) d) as r eqn:Edef.
    assert (Hdm : length d = k * 16 + length d mod 16)
      by (pose proof (Nat.div_mod (length d) 16 ltac:(lia)); subst k; lia).
    assert (Hrm : length d mod 16 < 16) by (apply Nat.mod_upper_bound; lia).
    assert (Hr : length r = length d mod 16) by (subst r; rewrite skipn_length; lia).
    assert (Hpre : length (firstn (k * 16) d) = k * 16) by (apply firstn_length_le; lia).
    destruct r as [|b r0].
    - (* no partial block *)
      cbn [length] in Hr. unfold pad_mult16. rewrite <- Hr.
      change ((16 - 0) mod 16) with 0. cbn [zeros]. rewrite app_nil_r. reflexivity.
    - set (r := b :: r0) in *.
      assert (Hnz : length d mod 16 <> 0) by (rewrite <- Hr; unfold r; cbn [length]; lia).
      unfold pad_mult16.
      replace ((16 - length d mod 16) mod 16) with (16 - length r) by lia.
      assert (Hd : d ++ zeros (16 - length r) = firstn (k * 16) d ++ pad16 r).
      { unfold pad16. rewrite Edef, app_assoc, firstn_skipn. reflexivity. }
      rewrite Hd. rewrite app_length, Hpre.
      assert (Hp16 : length (pad16 r) = 16) by (unfold pad16; rewrite app_length, zeros_length; lia).
      rewrite Hp16. replace ((k * 16 + 16) / 16) with (k + 1) by lia.
      rewrite (MD.foldn_snoc gf step 16 0) by (first [exact Hpre | exact Hp16 | lia]).
      f_equal. rewrite <- (firstn_skipn (k * 16) d) at 1. rewrite <- Edef.
      apply (MD.foldn_app_l gf step 16 0); lia.
  Qed.
End GhashSpec.

Lemma foldn_app_blocks H ka kc X A C : length A = ka * 16 ->
  MD.foldn gf (ghash_step H) 16 (ka + kc) X (A ++ C) =
  MD.foldn gf (ghash_step H) 16 kc (MD.foldn gf (ghash_step H) 16 ka X A) C.
Proof.
  intros HA. rewrite MD.foldn_add. rewrite (MD.foldn_app_l gf (ghash_step H) 16 0) by lia.
  rewrite skipn_app, <- HA, skipn_all, Nat.sub_diag, skipn_O. reflexivity.
Qed.

Lemma ghash_step_unfold H X blk : ghash_step H X blk = gf128_mul (gf_add X (gf_from_bytes blk)) H.
Proof. unfold ghash_step. reflexivity. Qed.

(* ---- ghash() as coded = GHASH_H(A || 0* || C || 0* || [len(A)]_64 || [len(C)]_64) of SP 800-38D ---- *)
Theorem ghash_eq_spec h aad c : ghash h aad c = ghash_spec h aad c.
Proof.
  unfold ghash, ghash_spec. set (H := gf_from_bytes h).
  rewrite !ghash_absorb_len, !absorb_spec_foldn.
  set (A := pad_mult16 aad). set (C := pad_mult16 c).
  set (L := len_block (N.of_nat (length aad)) (N.of_nat (length c))).
  destruct (pad_mult16_length aad) as [HAm _]. destruct (pad_mult16_length c) as [HCm _]. fold A in HAm. fold C in HCm.
  set (ka := length A / 16). set (kc := length C / 16).
  assert (HA : length A = ka * 16) by (pose proof (Nat.div_mod (length A) 16 ltac:(lia)); subst ka; lia).
  assert (HC : length C = kc * 16) by (pose proof (Nat.div_mod (length C) 16 ltac:(lia)); subst kc; lia).
  assert (HL : length L = 16) by reflexivity.
  rewrite !app_length, HL.
  replace ((length A + (length C + 16)) / 16) with ((ka + kc) + 1) by lia.
  rewrite app_assoc.
  rewrite (MD.foldn_snoc gf (ghash_step H) 16 0) by (first [rewrite app_length; lia | exact HL | lia]).
  rewrite foldn_app_blocks by exact HA. rewrite ghash_step_unfold. reflexivity.
Qed.
