(* GCM over an abstract 128-bit block function E (= sm4_encrypt / aes_encrypt under a
   fixed key): src/sm4_gcm.c, src/aes_modes.c (the aes_gcm functions), src/sm4_ctr.c (ctr32).

   Impl model : [gcm_encrypt], [gcm_decrypt] (one-shot), the SM4_GCM_CTX streaming
                family [gcm_init], [gcm_enc_update/finish], [gcm_dec_update/finish]
                with the held-back tag window (mac, maclen), and the read extent of
                the final memcpy of sm4_gcm_decrypt_update ([gcm_dec_update_overread]; 0 since a37c004).
   Spec       : [gcm_spec_encrypt] SP 800-38D (J0, GCTR, GHASH, MSB_t).            *)
From GmVerif Require Import Base.ListX Base.Bytes Hash.MD Cipher.GF128.
Local Open Scope N_scope.

(* counter increment on the last n bytes (ctr32_incr: n = 4; CCM ctr_n_incr: n = 15 - ivlen).
   [l] is the counter block reversed, as the C loop runs from a[15] downwards. *)
Fixpoint incr_rev (n : nat) (l : list N) : list N :=
  match n, l with
  | S k, b :: r => let b' := (b + 1) mod 256 in
                   if b' =? 0 then b' :: incr_rev k r else b' :: r
  | _, _ => l
  end.
Definition ctr_n_incr (n : nat) (c : list N) : list N := rev (incr_rev n (rev c)).
Definition ctr32_incr : list N -> list N := ctr_n_incr 4.

(* Ok v | Err (the -1 / 0 return) | Fault (the C code has undefined behaviour here) *)
Inductive res (A : Type) : Type := Ok (a : A) | Err | Fault.
Arguments Ok {A} a.
Arguments Err {A}.
Arguments Fault {A}.

Definition bytes_eqb (a b : list N) : bool :=
  (length a =? length b)%nat && forallb (fun p => N.eqb (fst p) (snd p)) (combine a b).

(* ---------------------------------------------------------------------------------------
   The "hold back the last taglen bytes" decryptor shared, line for line, by
   sm4_gcm_decrypt_update, sm4_cbc_sm3_hmac_decrypt_update and sm4_ctr_sm3_hmac_decrypt_update:
   a window (mac, maclen) in front of an inner engine that absorbs ciphertext bytes
   (MAC update + cipher update) and returns the plaintext produced.
     guard : admission test on (encedlen, input length) (INT_MAX / 64 GiB tests of GCM; none
             for the HMAC modes); the counter is advanced exactly as the C code does, i.e. by
             inlen in the sliding branch and by inlen - taglen in the bulk branch            *)
Section TagWindow.
  Variable St : Type.
  Variable absorb : St -> list N -> St * list N.
  Variable guard : N -> nat -> bool.      (* counter (encedlen), input length *)
  Variable taglen : nat.
  (* expected tag recomputed from the state, and the final output of the inner cipher *)
  Variable tagof : St -> list N.
  Variable tail : St -> res (list N).

  Definition wctx : Type := (St * N * list N)%type.    (* engine, encedlen, mac[0..maclen) *)

  Definition w_update (c : wctx) (d : list N) : res (wctx * list N) :=
    let '(st, cnt, win) := c in
    if negb (guard cnt (length d)) then Err
    else if (taglen <? length win)%nat then Err
    else
      let need := (taglen - length win)%nat in
      if ((length win <? taglen) && (length d <=? need))%nat then
        Ok ((st, cnt, win ++ d), [])                (* only fills the window *)
      else
        let win := win ++ firstn need d in          (* now maclen = taglen *)
        let d' := skipn need d in
        let inlen := length d' in
        if (inlen <=? taglen)%nat then
          (* the first inlen window bytes become ciphertext; the window slides *)
          let '(st', o) := absorb st (firstn inlen win) in
          Ok ((st', cnt + N.of_nat inlen, skipn inlen win ++ d'), o)
        else
          (* the whole window, then all but the last taglen input bytes, are ciphertext *)
          let '(st1, o1) := absorb st win in
          let body := firstn (inlen - taglen) d' in
          let '(st2, o2) := absorb st1 body in
          Ok ((st2, cnt + N.of_nat (inlen - taglen), skipn (inlen - taglen) d'), o1 ++ o2).

  (* bytes read beyond the end of the input by the last branch when it copies [n] bytes from
     in + inlen, where taglen bytes remain: memcpy(ctx->mac, in + inlen, n).  sm4_gcm.c copies
     n = ctx->taglen (before commit a37c004: GHASH_SIZE); the HMAC modes copy SM3_HMAC_SIZE = taglen *)
  Definition w_update_overread (n : nat) (win d : list N) : nat :=
    let need := (taglen - length win)%nat in
    if ((length win <? taglen) && (length d <=? need))%nat then 0%nat
    else if (length (skipn need d) <=? taglen)%nat then 0%nat
    else (n - taglen)%nat.

  Fixpoint w_run (c : wctx) (chunks : list (list N)) (acc : list N) : res (wctx * list N) :=
    match chunks with
    | [] => Ok (c, acc)
    | d :: r => match w_update c d with
                | Ok (c', o) => w_run c' r (acc ++ o)
                | _ => Err
                end
    end.

  (* *_decrypt_finish: maclen must equal taglen; recompute the tag; flush the cipher; compare *)
  Definition w_finish (c : wctx) : res (list N) :=
    let '(st, _, win) := c in
    if negb (length win =? taglen)%nat then Err
    else match tail st with
         | Ok out => if bytes_eqb (tagof st) win then Ok out else Err
         | _ => Err
         end.

  Definition w_decrypt (st0 : St) (chunks : list (list N)) : res (list N) :=
    match w_run (st0, 0, []) chunks [] with
    | Ok (c, o) => match w_finish c with Ok t => Ok (o ++ t) | _ => Err end
    | _ => Err
    end.
End TagWindow.

Section GCM.
  Variable E : list N -> list N.

  (* CTR keystream xor: one E call per started block, the counter advanced by [incr] *)
  Fixpoint ctr_crypt (incr : list N -> list N) (fuel : nat) (ctr d : list N) : list N :=
    match fuel with
    | O => []
    | S f => match d with
             | [] => []
             | _ => xor_bytes (firstn 16 d) (E ctr) ++ ctr_crypt incr f (incr ctr) (skipn 16 d)
             end
    end.
  Definition ctr32_crypt (ctr d : list N) : list N := ctr_crypt ctr32_incr (length d) ctr d.
  Fixpoint incr_k (incr : list N -> list N) (k : nat) (c : list N) : list N :=
    match k with O => c | S j => incr_k incr j (incr c) end.

  Definition gcm_H : list N := E (zeros 16).
  (* Y0 / J0 *)
  Definition gcm_j0 (iv : list N) : list N :=
    if (length iv =? 12)%nat then iv ++ [0; 0; 0; 1] else ghash gcm_H [] iv.

  Definition gcm_iv_ok (ivlen : nat) : bool := (1 <=? ivlen)%nat && (ivlen <=? 64)%nat.
  Definition gcm_tag_ok (taglen : nat) : bool := (12 <=? taglen)%nat && (taglen <=? 16)%nat.
  (* SM4_GCM_MAX_PLAINTEXT_SIZE = (2^32 - 2) * 16 *)
  Definition gcm_max_pt : N := (2^32 - 2) * 16.

  (* the full (untruncated) tag for ciphertext c *)
  Definition gcm_tag16 (iv aad c : list N) : list N :=
    xor_bytes (E (gcm_j0 iv)) (ghash gcm_H aad c).

  (* ---- one-shot; [chk] = the argument checks of the sm4_gcm_* variant ---- *)
  Definition gcm_encrypt (chk : bool) (iv aad p : list N) (taglen : nat) : res (list N * list N) :=
    if chk && negb (gcm_iv_ok (length iv) && gcm_tag_ok taglen && (N.of_nat (length p) <=? gcm_max_pt))
    then Err
    else if (16 <? taglen)%nat then Err       (* aes_gcm_encrypt: taglen > 16 refused *)
    else
      let y := gcm_j0 iv in
      let c := ctr32_crypt (ctr32_incr y) p in
      Ok (c, firstn taglen (gcm_tag16 iv aad c)).

  Definition gcm_decrypt (chk : bool) (iv aad c tag : list N) : res (list N) :=
    let taglen := length tag in
    if chk && negb (gcm_iv_ok (length iv) && gcm_tag_ok taglen && (N.of_nat (length c) <=? gcm_max_pt))
    then Err
    else
      if bytes_eqb (firstn taglen (gcm_tag16 iv aad c)) tag
      then Ok (ctr32_crypt (ctr32_incr (gcm_j0 iv)) c)
      else Err.

  (* ---- SM4_CTR_CTX (ctr32 flavour): counter + pending partial block ---- *)
  Record ctr_ctx := mkCtr { cc_ctr : list N; cc_buf : list N }.
  (* sm4_ctr32_encrypt_update: whole blocks of (pending ++ input) are output *)
  Definition ctr32_update (c : ctr_ctx) (d : list N) : ctr_ctx * list N :=
    let all := cc_buf c ++ d in
    let k := (length all / 16)%nat in
    (mkCtr (incr_k ctr32_incr k (cc_ctr c)) (skipn (k * 16) all),
     ctr_crypt ctr32_incr k (cc_ctr c) (firstn (k * 16) all)).
  Definition ctr32_finish (c : ctr_ctx) : list N :=
    xor_bytes (cc_buf c) (E (cc_ctr c)).

  (* ---- SM4_GCM_CTX: engine part; encedlen and (mac, maclen) are the window context ---- *)
  Record gcm_st := mkGcm {
    g_enc : ctr_ctx; g_mac : ghash_ctx; g_Y : list N;   (* E(K, Y0) *)
    g_taglen : nat }.
  Definition gcm_ctx : Type := wctx gcm_st.

  Definition gcm_init (keylen : nat) (iv aad : list N) (taglen : nat) : res gcm_ctx :=
    if negb ((keylen =? 16)%nat && gcm_iv_ok (length iv) && gcm_tag_ok taglen) then Err
    else
      let y := gcm_j0 iv in
      Ok (mkGcm (mkCtr (ctr32_incr y) []) (ghash_init gcm_H aad) (E y) taglen, 0, []).

  Definition int_max : N := 2^31 - 1.
  Definition gcm_guard (enced : N) (inlen : nat) : bool :=
    (N.of_nat inlen <=? int_max) && (N.of_nat inlen <=? gcm_max_pt - enced).

  Definition gcm_enc_update (c : gcm_ctx) (d : list N) : res (gcm_ctx * list N) :=
    let '(st, enced, win) := c in
    if negb (gcm_guard enced (length d)) then Err
    else
      let '(e, out) := ctr32_update (g_enc st) d in
      Ok ((mkGcm e (ghash_update (g_mac st) out) (g_Y st) (g_taglen st),
           enced + N.of_nat (length d), win), out).
  Definition gcm_enc_finish (c : gcm_ctx) : list N :=
    let st := fst (fst c) in
    let out := ctr32_finish (g_enc st) in
    let mac := ghash_finish (ghash_update (g_mac st) out) in
    out ++ firstn (g_taglen st) (xor_bytes mac (g_Y st)).

  (* decrypt direction: ghash_update over the ciphertext, then sm4_ctr32_encrypt_update *)
  Definition gcm_absorb (st : gcm_st) (ct : list N) : gcm_st * list N :=
    let '(e, out) := ctr32_update (g_enc st) ct in
    (mkGcm e (ghash_update (g_mac st) ct) (g_Y st) (g_taglen st), out).
  Definition gcm_tagof (st : gcm_st) : list N :=
    firstn (g_taglen st) (xor_bytes (ghash_finish (g_mac st)) (g_Y st)).
  Definition gcm_tail (st : gcm_st) : res (list N) := Ok (ctr32_finish (g_enc st)).
  Definition gcm_taglen_of (c : gcm_ctx) : nat := g_taglen (fst (fst c)).

  Definition gcm_dec_update (c : gcm_ctx) (d : list N) : res (gcm_ctx * list N) :=
    w_update gcm_st gcm_absorb gcm_guard (gcm_taglen_of c) c d.
  (* memcpy(ctx->mac, in + inlen, ctx->taglen) *)
  Definition gcm_dec_update_overread (c : gcm_ctx) (d : list N) : nat :=
    w_update_overread (gcm_taglen_of c) (gcm_taglen_of c) (snd c) d.
  Definition gcm_dec_finish (c : gcm_ctx) : res (list N) :=
    w_finish gcm_st (gcm_taglen_of c) gcm_tagof gcm_tail c.
  Definition gcm_decrypt_stream (keylen : nat) (iv aad : list N) (taglen : nat)
             (chunks : list (list N)) : res (list N) :=
    match gcm_init keylen iv aad taglen with
    | Ok (st0, _, _) => w_decrypt gcm_st gcm_absorb gcm_guard taglen gcm_tagof gcm_tail st0 chunks
    | _ => Err
    end.
  Fixpoint gcm_enc_run (c : gcm_ctx) (chunks : list (list N)) (acc : list N) : res (gcm_ctx * list N) :=
    match chunks with
    | [] => Ok (c, acc)
    | d :: r => match gcm_enc_update c d with
                | Ok (c', o) => gcm_enc_run c' r (acc ++ o)
                | _ => Err
                end
    end.
  Definition gcm_encrypt_stream (keylen : nat) (iv aad : list N) (taglen : nat)
             (chunks : list (list N)) : res (list N) :=
    match gcm_init keylen iv aad taglen with
    | Ok c => match gcm_enc_run c chunks [] with
              | Ok (c', o) => Ok (o ++ gcm_enc_finish c')
              | _ => Err
              end
    | _ => Err
    end.

  (* ---- Spec: SP 800-38D section 7 ---- *)
  Definition inc32 (blk : list N) : list N :=
    firstn 12 blk ++ be32 ((get_be32 (skipn 12 blk) + 1) mod 2^32).
  Fixpoint gctr (fuel : nat) (cb x : list N) : list N :=
    match fuel with
    | O => []
    | S f => match x with
             | [] => []
             | _ => xor_bytes (firstn 16 x) (E cb) ++ gctr f (inc32 cb) (skipn 16 x)
             end
    end.
  Definition j0_spec (iv : list N) : list N :=
    if (length iv =? 12)%nat then iv ++ [0; 0; 0; 1]
    else ghash_spec gcm_H [] iv.   (* IV || 0^(s+64) || [len(IV)]_64 = GHASH's own length block with A empty *)
  Definition gcm_spec_encrypt (iv aad p : list N) (t : nat) : list N * list N :=
    let j0 := j0_spec iv in
    let c := gctr (length p) (inc32 j0) p in
    let s := ghash_spec gcm_H aad c in
    (c, firstn t (gctr 16 j0 s)).
End GCM.
