(* ChaCha20 block function: src/chacha20.c (chacha20_init, chacha20_generate_keystream).
   The C code is RFC 8439 section 2.3 itself (quarter round, 10 double rounds, feed-forward,
   little-endian serialisation, 32-bit block counter that wraps).  Model = that definition;
   pinned by the RFC's vector; compared with the C code by the C04b correspondence.        *)
From GmVerif Require Import Base.ListX Base.Bytes.
Local Open Scope N_scope.

Definition set4 (s : list N) (i j k l : nat) (a b c d : N) : list N :=
  map (fun p => let '(n, x) := p in
         if (n =? i)%nat then a else if (n =? j)%nat then b
         else if (n =? k)%nat then c else if (n =? l)%nat then d else x)
      (combine (seq 0 16) s).
Definition QR (s : list N) (i j k l : nat) : list N :=
  let a := nth i s 0 in let b := nth j s 0 in let c := nth k s 0 in let d := nth l s 0 in
  let a := add32 a b in let d := rol32 (N.lxor d a) 16 in
  let c := add32 c d in let b := rol32 (N.lxor b c) 12 in
  let a := add32 a b in let d := rol32 (N.lxor d a) 8 in
  let c := add32 c d in let b := rol32 (N.lxor b c) 7 in
  set4 s i j k l a b c d.
Definition DR (s : list N) : list N :=
  let s := QR s 0 4 8 12 in let s := QR s 1 5 9 13 in
  let s := QR s 2 6 10 14 in let s := QR s 3 7 11 15 in
  let s := QR s 0 5 10 15 in let s := QR s 1 6 11 12 in
  let s := QR s 2 7 8 13 in QR s 3 4 9 14.

Definition chacha20_init (key nonce : list N) (counter : N) : list N :=
  [0x61707865; 0x3320646e; 0x79622d32; 0x6b206574] ++ words_le 8 key ++ [w32 counter] ++ words_le 3 nonce.
Definition chacha20_block (st : list N) : list N :=
  let w := Nat.iter 10 DR st in
  flat_map le32 (map (fun p => add32 (fst p) (snd p)) (combine w st)).
Definition bump (st : list N) : list N :=
  map (fun p => let '(n, x) := p in if (n =? 12)%nat then add32 x 1 else x) (combine (seq 0 16) st).
(* chacha20_generate_keystream: [counts] 64-byte blocks *)
Fixpoint chacha20_keystream (counts : nat) (st : list N) : list N * list N :=
  match counts with
  | O => (st, [])
  | S k => let b := chacha20_block st in
           let '(st', r) := chacha20_keystream k (bump st) in (st', b ++ r)
  end.

(* RFC 8439 section 2.3.2 *)
Example chacha20_vector :
  firstn 16 (snd (chacha20_keystream 1
     (chacha20_init (map N.of_nat (seq 0 32)) [0;0;0;9;0;0;0;0x4a;0;0;0;0] 1))) =
  [0x10;0xf1;0xe7;0xe4;0xd1;0x3b;0x59;0x15;0x50;0x0f;0xdd;0x1f;0xa3;0x20;0x71;0xc4].
Proof. vm_compute. reflexivity. Qed.
Example chacha20_vector_tail :
  skipn 48 (snd (chacha20_keystream 1
     (chacha20_init (map N.of_nat (seq 0 32)) [0;0;0;9;0;0;0;0x4a;0;0;0;0] 1))) =
  [0xb5;0x12;0x9c;0xd1;0xde;0x16;0x4e;0xb9;0xcb;0xd0;0x83;0xe8;0xa2;0x50;0x3c;0x4e].
Proof. vm_compute. reflexivity. Qed.
