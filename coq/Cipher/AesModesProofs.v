(* src/aes_modes.c: aes_cbc_encrypt/decrypt, aes_cbc_padding_*, aes_ctr_encrypt are the same
   functions of (block function, iv/ctr, message) as the SM4-shaped models of Modes.v, hence
   equal the same Specs and invert.  Generic over the block functions; the inversion law
   D (E b) = b is a hypothesis here (aes_dec_enc of AESProofs.v is what discharges it). *)
From GmVerif Require Import Base.ListX Base.Bytes Cipher.BitsX Cipher.Modes Cipher.ModesProofs.
From Coq Require Import ZifyN ZifyNat ZifyBool.
Local Open Scope nat_scope.
Ltac Zify.zify_post_hook ::= Z.div_mod_to_equations.

Section AesModeProofs.
  Variable E D : list N -> list N.
  Hypothesis E_len : forall b, length (E b) = 16.
  Hypothesis D_len : forall b, length (D b) = 16.
  Hypothesis E_ok : forall b, bytes_ok (E b) = true.
  Hypothesis DE : forall b, length b = 16 -> bytes_ok b = true -> D (E b) = b.

  Lemma aes_cbc_encrypt_eq n : forall iv inp, aes_cbc_encrypt E n iv inp = snd (cbc_enc_loop E n iv inp).
  Proof.
    induction n as [|n IH]; intros iv inp; cbn [aes_cbc_encrypt cbc_enc_loop]; [reflexivity|].
    rewrite IH. destruct (cbc_enc_loop E n _ _). reflexivity.
  Qed.
  Lemma aes_cbc_decrypt_eq n : forall iv inp, aes_cbc_decrypt D n iv inp = snd (cbc_decrypt_blocks D n iv inp).
  Proof.
    induction n as [|n IH]; intros iv inp; cbn [aes_cbc_decrypt cbc_decrypt_blocks]; [reflexivity|].
    rewrite IH. destruct (cbc_decrypt_blocks D n _ _). reflexivity.
  Qed.

  Lemma cbc_enc_loop_len n : forall iv inp, length (snd (cbc_enc_loop E n iv inp)) = n * 16.
  Proof.
    induction n as [|n IH]; intros iv inp; cbn [cbc_enc_loop]; [reflexivity|].
    specialize (IH (E (xor_bytes (firstn 16 inp) iv)) (skipn 16 inp)).
    destruct (cbc_enc_loop E n _ _). cbn [snd] in *. rewrite app_length, E_len, IH. lia.
  Qed.

  (* the chaining value handed on is the last ciphertext block: what iv = out - 16 reads *)
  Lemma cbc_enc_loop_last n : forall iv inp,
    let '(iv', o) := cbc_enc_loop E (S n) iv inp in iv' = skipn (length o - 16) o.
  Proof.
    induction n as [|n IH]; intros iv inp.
    - cbn [cbc_enc_loop]. rewrite app_nil_r, E_len. reflexivity.
    - remember (S n) as k. cbn [cbc_enc_loop].
      set (c := E (xor_bytes (firstn 16 inp) iv)). subst k.
      specialize (IH c (skipn 16 inp)). pose proof (cbc_enc_loop_len (S n) c (skipn 16 inp)) as Hl.
      destruct (cbc_enc_loop E (S n) c (skipn 16 inp)) as [iv' o]. cbn [snd] in Hl.
      assert (Lc : length c = 16) by (unfold c; apply E_len).
      rewrite IH, app_length, Lc. replace (16 + length o - 16) with (length o) by lia.
      rewrite skipn_app, Lc. rewrite (@skipn_all2 _ (length o) c) by lia. reflexivity.
  Qed.

  (* ... and for decryption the last ciphertext block consumed: what iv = in + inlen - 32 reads *)
  Lemma cbc_dec_blocks_last n : forall iv inp, (S n) * 16 <= length inp ->
    fst (cbc_decrypt_blocks D (S n) iv inp) = firstn 16 (skipn (n * 16) inp).
  Proof.
    induction n as [|n IH]; intros iv inp H.
    - cbn [cbc_decrypt_blocks]. reflexivity.
    - remember (S n) as k. cbn [cbc_decrypt_blocks]. subst k.
      specialize (IH (firstn 16 inp) (skipn 16 inp) ltac:(rewrite skipn_length; lia)).
      destruct (cbc_decrypt_blocks D (S n) (firstn 16 inp) (skipn 16 inp)) as [iv' o]. cbn [fst] in *.
      rewrite IH, skipn_skipn_nat. reflexivity.
  Qed.

  Theorem aes_cbc_padding_encrypt_eq iv m :
    aes_cbc_padding_encrypt E iv m = cbc_padding_encrypt E iv m.
  Proof.
    unfold aes_cbc_padding_encrypt, cbc_padding_encrypt, cbc_encrypt_blocks.
    set (block := skipn (length m - length m mod 16) m ++ _).
    destruct (length m / 16) as [|k] eqn:Hk; cbn [Nat.eqb negb].
    - rewrite aes_cbc_encrypt_eq. destruct (cbc_enc_loop E 1 iv block). reflexivity.
    - rewrite !aes_cbc_encrypt_eq.
      pose proof (cbc_enc_loop_last k iv m) as Hl.
      destruct (cbc_enc_loop E (S k) iv m) as [iv1 o1]. cbn [snd]. rewrite <- Hl.
      destruct (cbc_enc_loop E 1 iv1 block). reflexivity.
  Qed.

  Theorem aes_cbc_padding_decrypt_eq iv c :
    aes_cbc_padding_decrypt D iv c = cbc_padding_decrypt D iv c.
  Proof.
    unfold aes_cbc_padding_decrypt, cbc_padding_decrypt.
    destruct (length c =? 0) eqn:H0; [reflexivity|].
    destruct (length c mod 16 =? 0) eqn:Hm; cbn [negb orb]; [|reflexivity].
    destruct (length c <? 16) eqn:Hs; [reflexivity|].
    apply Nat.eqb_eq in Hm. apply Nat.ltb_ge in Hs.
    pose proof (Nat.div_mod (length c) 16 ltac:(lia)) as Hd. rewrite Hm in Hd.
    set (q := length c / 16) in *.
    destruct (16 <? length c) eqn:Hl.
    - apply Nat.ltb_lt in Hl. assert (Hq : q - 1 = S (q - 2)) by lia.
      rewrite Hq. rewrite (aes_cbc_decrypt_eq (S (q - 2)) iv c).
      pose proof (cbc_dec_blocks_last (q - 2) iv c ltac:(lia)) as Hlast.
      destruct (cbc_decrypt_blocks D (S (q - 2)) iv c) as [iv1 o1]. cbn [fst snd] in *.
      replace (length c - 32) with ((q - 2) * 16) by lia. rewrite <- Hlast.
      rewrite aes_cbc_decrypt_eq. destruct (cbc_decrypt_blocks D 1 iv1 _) as [x block]. reflexivity.
    - rewrite aes_cbc_decrypt_eq. destruct (cbc_decrypt_blocks D 1 iv _) as [x block]. reflexivity.
  Qed.

  Theorem aes_cbc_eq_spec iv m : length iv = 16 ->
    aes_cbc_padding_encrypt E iv m = cbc_pad_enc_spec E iv m /\
    aes_cbc_padding_decrypt D iv m = cbc_pad_dec_spec D iv m.
  Proof.
    intros H. rewrite aes_cbc_padding_encrypt_eq, aes_cbc_padding_decrypt_eq. split.
    - apply (cbc_padding_encrypt_eq_spec E D); assumption.
    - apply (cbc_padding_decrypt_eq_spec E D); assumption.
  Qed.
  Theorem aes_cbc_dec_enc iv m : length iv = 16 -> bytes_ok iv = true -> bytes_ok m = true ->
    aes_cbc_padding_decrypt D iv (aes_cbc_padding_encrypt E iv m) = Some m.
  Proof.
    intros. rewrite aes_cbc_padding_encrypt_eq, aes_cbc_padding_decrypt_eq.
    apply (cbc_dec_enc E D); assumption.
  Qed.
  (* the raw block functions *)
  Theorem aes_cbc_blocks_eq_spec k iv m : length m = k * 16 ->
    aes_cbc_encrypt E k iv m = cbc_enc_spec E iv m /\ aes_cbc_decrypt D k iv m = cbc_dec_spec D iv m.
  Proof.
    intros H. rewrite aes_cbc_encrypt_eq, aes_cbc_decrypt_eq. split.
    - apply cbc_enc_loop_spec; assumption.
    - apply cbc_dec_blocks_spec; assumption.
  Qed.
  (* out == in for aes_cbc_encrypt *)
  Theorem aes_cbc_encrypt_inplace n iv buf : n * 16 <= length buf ->
    snd (inplace_loop _ (cbc_enc_step E) n 0 iv buf) = aes_cbc_encrypt E n iv buf ++ skipn (n * 16) buf.
  Proof.
    intros H. rewrite inplace_eq_pure; [| intros st blk _; unfold cbc_enc_step; cbn [snd]; apply E_len | exact H].
    rewrite pure_loop_bloop, <- cbc_enc_loop_bloop, aes_cbc_encrypt_eq.
    destruct (cbc_enc_loop E n iv buf). reflexivity.
  Qed.

  (* ---- aes_ctr_encrypt ---- *)
  Lemma aes_ctr_loop_ks f : forall ctr m, length m <= f ->
    aes_ctr_loop E f ctr m =
    (iter ((length m + 15) / 16) ctr_incr ctr, xor_bytes m (ks E ctr_incr ((length m + 15) / 16) ctr)).
  Proof.
    induction f as [|f IH]; intros ctr m Hf.
    - assert (m = []) by (apply length_zero_nil; lia). subst. reflexivity.
    - destruct m as [|x m]; [reflexivity|].
      set (l := x :: m) in *. assert (Hl : 1 <= length l) by (unfold l; cbn [length]; lia).
      change (aes_ctr_loop E (S f) ctr l) with
        (let len := Nat.min (length l) 16 in
         let o := xor_bytes (firstn len l) (E ctr) in
         let '(c2, os) := aes_ctr_loop E f (ctr_incr ctr) (skipn len l) in (c2, o ++ os)).
      cbv zeta.
      rewrite IH by (rewrite skipn_length; lia). rewrite skipn_length.
      destruct (Nat.le_ge_cases (length l) 16) as [Hle|Hge].
      + rewrite Nat.min_l by lia. rewrite Nat.sub_diag.
        replace ((0 + 15) / 16) with 0 by reflexivity.
        replace ((length l + 15) / 16) with 1 by lia. cbn [ks iter].
        rewrite firstn_all, skipn_all. rewrite xor_bytes_nil_l, !app_nil_r. reflexivity.
      + rewrite Nat.min_r by lia.
        replace ((length l + 15) / 16) with (S ((length l - 16 + 15) / 16)) by lia. cbn [ks iter].
        set (K := ks E ctr_incr ((length l - 16 + 15) / 16) (ctr_incr ctr)).
        replace (xor_bytes l (E ctr ++ K)) with (xor_bytes (firstn 16 l ++ skipn 16 l) (E ctr ++ K))
          by (rewrite firstn_skipn; reflexivity).
        rewrite xor_bytes_app by (rewrite firstn_length_le, E_len; lia). reflexivity.
  Qed.

  Lemma ctr_block_iter_incr i : forall c, ok16 c -> ctr_block c i = iter i ctr_incr c.
  Proof.
    intros c Hc. rewrite (ctr_block_iter E D) by assumption.
    revert c Hc. induction i as [|i IH]; intros c Hc; [reflexivity|]. cbn [iter].
    rewrite <- ctr_incr_eq by exact Hc. apply IH, ctr_incr_ok, Hc.
  Qed.

  Theorem aes_ctr_eq_sm4_shape ctr m : ok16 ctr ->
    aes_ctr_encrypt E ctr m = ctr_encrypt (ctr_blocks_sf E ctr_incr) ctr m.
  Proof.
    intros Hc. unfold aes_ctr_encrypt. rewrite aes_ctr_loop_ks by lia.
    symmetry. apply (ctr_encrypt_ks E D); try assumption.
    - intros; apply ctr_blocks_sf_bloop.
    - apply ctr_incr_ok.
  Qed.
  Theorem aes_ctr_eq_spec ctr m : ok16 ctr -> aes_ctr_encrypt E ctr m = ctr_spec E ctr m.
  Proof.
    intros Hc. rewrite aes_ctr_eq_sm4_shape by exact Hc.
    apply (ctr_encrypt_eq_gen_spec E D) with (incr := ctr_incr); try assumption.
    - intros; apply ctr_blocks_sf_bloop.
    - apply ctr_incr_ok.
    - intros i. apply ctr_block_iter_incr, Hc.
  Qed.
  Theorem aes_ctr_dec_enc ctr m : ok16 ctr ->
    snd (aes_ctr_encrypt E ctr (snd (aes_ctr_encrypt E ctr m))) = m.
  Proof.
    intros Hc. rewrite !aes_ctr_eq_sm4_shape by exact Hc.
    apply (ctr_dec_enc E D) with (incr := ctr_incr); try assumption.
    - intros; apply ctr_blocks_sf_bloop.
    - apply ctr_incr_ok.
  Qed.
End AesModeProofs.
