(* List lemmas missing from the 8.16 standard library. *)
From Coq Require Import List Arith Lia.
Import ListNotations.

Lemma skipn_skipn_nat {A} (a b : nat) (l : list A) :
  skipn a (skipn b l) = skipn (b + a) l.
Proof.
  revert l; induction b as [|b IH]; intros l; cbn [Nat.add].
  - reflexivity.
  - destruct l as [|x l]; cbn [skipn].
    + destruct a; reflexivity.
    + apply IH.
Qed.

Lemma skipn_all3 {A} (n : nat) (l : list A) : length l <= n -> skipn n l = [].
Proof. apply skipn_all2. Qed.

Lemma firstn_firstn_min {A} (a b : nat) (l : list A) :
  firstn a (firstn b l) = firstn (Nat.min a b) l.
Proof. apply firstn_firstn. Qed.

Lemma concat_length_sum {A} (ls : list (list A)) :
  length (concat ls) = fold_right (fun l n => length l + n) 0 ls.
Proof. induction ls as [|l ls IH]; cbn; [reflexivity|]. rewrite app_length, IH. reflexivity. Qed.
