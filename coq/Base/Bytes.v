(* Base conventions: bytes and machine words are [N]; wrap-around is written
   explicitly with [mod 2^k] / [land] exactly where the C code wraps. *)
From Coq Require Export List NArith ZArith Lia Bool Arith.
Export ListNotations.
Local Open Scope N_scope.

Definition byte := N.
Definition bytes_ok (l : list N) : bool := forallb (fun b => N.ltb b 256) l.

Definition mask32 : N := 0xFFFFFFFF.
Definition mask64 : N := 0xFFFFFFFFFFFFFFFF.
Definition w8  (x : N) : N := N.land x 255.
Definition w32 (x : N) : N := N.land x mask32.
Definition w64 (x : N) : N := N.land x mask64.
Definition add32 (a b : N) : N := w32 (a + b).
Definition rol32 (x : N) (n : N) : N :=
  w32 (N.lor (N.shiftl x n) (N.shiftr (w32 x) (32 - n))).
Definition not32 (x : N) : N := N.lxor (w32 x) mask32.

(* big-endian encodings *)
Definition be32 (x : N) : list N :=
  [w8 (N.shiftr x 24); w8 (N.shiftr x 16); w8 (N.shiftr x 8); w8 x].
Definition be64 (x : N) : list N := be32 (N.shiftr x 32) ++ be32 x.
Definition le32 (x : N) : list N :=
  [w8 x; w8 (N.shiftr x 8); w8 (N.shiftr x 16); w8 (N.shiftr x 24)].

Definition get_be32 (l : list N) : N :=
  match l with
  | a :: b :: c :: d :: _ =>
      N.lor (N.lor (N.shiftl a 24) (N.shiftl b 16)) (N.lor (N.shiftl c 8) d)
  | _ => 0
  end.
Definition get_le32 (l : list N) : N :=
  match l with
  | a :: b :: c :: d :: _ =>
      N.lor (N.lor (N.shiftl d 24) (N.shiftl c 16)) (N.lor (N.shiftl b 8) a)
  | _ => 0
  end.

(* split a byte list into big-endian 32-bit words (length assumed multiple of 4) *)
Fixpoint words_be (n : nat) (l : list N) : list N :=
  match n with
  | O => []
  | S k => get_be32 l :: words_be k (skipn 4 l)
  end.
Fixpoint words_le (n : nat) (l : list N) : list N :=
  match n with
  | O => []
  | S k => get_le32 l :: words_le k (skipn 4 l)
  end.

Definition xor_bytes (a b : list N) : list N := map (fun p => N.lxor (fst p) (snd p)) (combine a b).

Fixpoint zeros (n : nat) : list N := match n with O => [] | S k => 0 :: zeros k end.

Lemma zeros_length n : length (zeros n) = n.
Proof. induction n; simpl; congruence. Qed.

Lemma be32_length x : length (be32 x) = 4%nat.
Proof. reflexivity. Qed.
Lemma be64_length x : length (be64 x) = 8%nat.
Proof. reflexivity. Qed.

(* big-endian natural number of a byte string, and back *)
Fixpoint be_to_N_acc (acc : N) (l : list N) : N :=
  match l with [] => acc | b :: r => be_to_N_acc (acc * 256 + b) r end.
Definition be_to_N (l : list N) : N := be_to_N_acc 0 l.
Fixpoint N_to_be (len : nat) (x : N) : list N :=
  match len with
  | O => []
  | S k => N_to_be k (x / 256) ++ [x mod 256]
  end.
