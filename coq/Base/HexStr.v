(* Hex strings <-> Z / byte lists inside Coq, so that models evaluated with
   vm_compute (core.coq_eval) can read their arguments and print canonical lines. *)
From Coq Require Import ZArith NArith List String Ascii Bool.
Import ListNotations.
Local Open Scope Z_scope.
Local Open Scope bool_scope.

Definition hexdigit (d : Z) : ascii :=
  match d with
  | 0 => "0" | 1 => "1" | 2 => "2" | 3 => "3" | 4 => "4" | 5 => "5" | 6 => "6" | 7 => "7"
  | 8 => "8" | 9 => "9" | 10 => "a" | 11 => "b" | 12 => "c" | 13 => "d" | 14 => "e" | _ => "f"
  end%char.
Definition hexval (c : ascii) : Z :=
  let n := Z.of_N (N_of_ascii c) in
  if (48 <=? n) && (n <=? 57) then n - 48
  else if (97 <=? n) && (n <=? 102) then n - 87
  else if (65 <=? n) && (n <=? 70) then n - 55 else 0.

Fixpoint hex_to_Z_acc (s : string) (acc : Z) : Z :=
  match s with
  | EmptyString => acc
  | String c r => hex_to_Z_acc r (acc * 16 + hexval c)
  end.
Definition hex_to_Z (s : string) : Z := hex_to_Z_acc s 0.

(* fixed width (number of hex digits), most significant first *)
Fixpoint Z_to_hex_w (w : nat) (x : Z) (acc : string) : string :=
  match w with
  | O => acc
  | S k => Z_to_hex_w k (x / 16) (String (hexdigit (x mod 16)) acc)
  end.
Definition Z_to_hex (w : nat) (x : Z) : string := Z_to_hex_w w x EmptyString.
Definition Z_to_hex64 (x : Z) : string := Z_to_hex 64 x.

Fixpoint hex_to_bytes (s : string) : list N :=
  match s with
  | String a (String b r) => Z.to_N (hexval a * 16 + hexval b) :: hex_to_bytes r
  | _ => []
  end.
Fixpoint bytes_to_hex (l : list N) : string :=
  match l with
  | [] => EmptyString
  | b :: r => String (hexdigit (Z.of_N b / 16)) (String (hexdigit (Z.of_N b mod 16)) (bytes_to_hex r))
  end.
