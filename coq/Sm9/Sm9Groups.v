(* Jacobian point arithmetic of src/sm9_z256.c on G1 = E(Fp): y^2 = x^3 + 5 and on the twist
   G2 = E'(Fp2): y^2 = x^3 + 5u, statement by statement (Impl), over the field models of Tower.v
   (Montgomery factor removed).  A point is (X, Y, Z); infinity is Z = 0 (bitwise test).
   Booth recoding and the window multiplication sm9_z256_point_mul, and the bitwise
   sm9_z256_twist_point_mul, are included; sm9_z256_point_mul_generator (precomputed table) is not. *)
From Coq Require Import ZArith List Bool.
From GmVerif Require Import Sm9.Tower.
Import ListNotations.
Open Scope Z_scope.

Definition J1 := (Z * Z * Z)%type.
Definition J1inf : J1 := (1, 1, 0).                                   (* sm9_z256_point_set_infinity *)
Definition J1is_inf (P : J1) : bool := let '(_, _, z) := P in fis_zero z.
(* sm9_z256_point_dbl *)
Definition J1dbl (P : J1) : J1 :=
  let '(X1, Y1, Z1) := P in
  if fis_zero Z1 then P else
  let T2 := fsqr X1 in
  let T2 := ftri T2 in
  let Y3 := fdbl Y1 in
  let Z3 := fmul Y3 Z1 in
  let Y3 := fsqr Y3 in
  let T3 := fmul Y3 X1 in
  let Y3 := fsqr Y3 in
  let Y3 := fhaf Y3 in
  let X3 := fsqr T2 in
  let T1 := fdbl T3 in
  let X3 := fsub X3 T1 in
  let T1 := fsub T3 X3 in
  let T1 := fmul T1 T2 in
  let Y3 := fsub T1 Y3 in
  (X3, Y3, Z3).
(* sm9_z256_point_add *)
Definition J1add (P Q : J1) : J1 :=
  let '(X1, Y1, Z1) := P in let '(X2, Y2, Z2) := Q in
  if fis_zero Z2 then P else if fis_zero Z1 then Q else
  let T1 := fsqr Z1 in
  let T2 := fsqr Z2 in
  let U1 := fmul X1 T2 in
  let U2 := fmul X2 T1 in
  let Z3 := fadd Z1 Z2 in
  let Z3 := fsqr Z3 in
  let Z3 := fsub Z3 T1 in
  let Z3 := fsub Z3 T2 in
  let T1 := fmul T1 Z1 in
  let T2 := fmul T2 Z2 in
  let S1 := fmul Y1 T2 in
  let S2 := fmul Y2 T1 in
  let H := fsub U2 U1 in
  let U2 := fsub S2 S1 in
  if fis_zero H then (if fis_zero U2 then J1dbl Q else J1inf) else
  let Z3 := fmul Z3 H in
  let I := fdbl H in
  let I := fsqr I in
  let H := fmul H I in
  let I := fmul U1 I in
  let U2 := fdbl U2 in
  let X3 := fsqr U2 in
  let X3 := fsub H X3 in
  let Y3 := ftri I in
  let X3 := fadd Y3 X3 in
  let Y3 := fmul U2 X3 in
  let S1 := fmul S1 H in
  let S1 := fdbl S1 in
  let Y3 := fsub Y3 S1 in
  let X3 := fsub I X3 in
  (X3, Y3, Z3).
Definition J1neg (P : J1) : J1 := let '(X, Y, Z) := P in (X, fneg Y, Z).
Definition J1sub (P Q : J1) : J1 := J1add P (J1neg Q).
(* sm9_z256_point_add_affine (since 240813d: equal x falls back to the full addition) *)
Definition J1add_affine (P : J1) (Q : Z * Z) : J1 :=
  let '(X1, Y1, Z1) := P in let '(X2, Y2) := Q in
  let T1 := fsqr Z1 in
  let H := fmul X2 T1 in
  let H := fsub H X1 in
  if fis_zero H then J1add P (X2, Y2, 1) else
  let Z3 := fadd Z1 H in
  let Z3 := fsqr Z3 in
  let Z3 := fsub Z3 T1 in
  let T1 := fmul T1 Z1 in
  let S2 := fmul Y2 T1 in
  let T1 := fsqr H in
  let Z3 := fsub Z3 T1 in
  let I := fdbl T1 in
  let I := fdbl I in
  let H := fmul H I in
  let I := fmul X1 I in
  let S2 := fsub S2 Y1 in
  let S2 := fdbl S2 in
  let X3 := fsqr S2 in
  let X3 := fsub H X3 in
  let Y3 := ftri I in
  let X3 := fadd Y3 X3 in
  let Y3 := fmul S2 X3 in
  let H := fmul H Y1 in
  let H := fdbl H in
  let Y3 := fsub Y3 H in
  let X3 := fsub I X3 in
  (X3, Y3, Z3).
(* sm9_z256_point_is_on_curve (the Z = 1 test is bitwise on the Montgomery one, i.e. value 1 here) *)
Definition J1on_curve (P : J1) : bool :=
  let '(X, Y, Z) := P in
  if Z =? 1 then fsqr Y =? fadd (fmul (fsqr X) X) 5
  else
    let t0 := fmul (fsqr X) X in
    let t1 := fsqr Z in
    let t2 := fsqr t1 in
    let t1 := fmul t1 t2 in
    let t1 := fmul t1 5 in
    fsqr Y =? fadd t0 t1.
(* sm9_z256_point_equ *)
Definition J1equ (P Q : J1) : bool :=
  let '(X1, Y1, Z1) := P in let '(X2, Y2, Z2) := Q in
  let t1 := fsqr Z1 in let t2 := fsqr Z2 in
  if negb (fmul X1 t2 =? fmul X2 t1) then false
  else fmul Y1 (fmul t2 Z2) =? fmul Y2 (fmul t1 Z1).

(* sm9_z256_get_booth on the 256-bit integer (limb plumbing abstracted): signed window digit *)
Definition booth (k w i : Z) : Z :=
  let m := 2 ^ w in
  if i =? 0 then (2 * k) mod m - k mod m
  else (k / 2 ^ (i * w - 1)) mod m - (k / 2 ^ (i * w)) mod m.
(* sm9_z256_point_mul: window 5, table T[i] = (i+1)P built in the order of the C code *)
Definition J1table (P : J1) : list J1 :=
  let t1 := P in let t2 := J1dbl t1 in let t4 := J1dbl t2 in let t8 := J1dbl t4 in let t16 := J1dbl t8 in
  let t3 := J1add t2 P in let t6 := J1dbl t3 in let t12 := J1dbl t6 in
  let t5 := J1add t3 t2 in let t10 := J1dbl t5 in
  let t7 := J1add t4 t3 in let t14 := J1dbl t7 in
  let t9 := J1add t4 t5 in let t11 := J1add t6 t5 in let t13 := J1add t7 t6 in let t15 := J1add t8 t7 in
  [t1; t2; t3; t4; t5; t6; t7; t8; t9; t10; t11; t12; t13; t14; t15; t16].
Definition J1mul (k : Z) (P : J1) : J1 :=
  let T := J1table P in
  let step (st : option J1) (i : nat) : option J1 :=
    let b := booth k 5 (Z.of_nat i) in
    match st with
    | None => if b =? 0 then None else Some (nth (Z.to_nat (b - 1)) T (0, 0, 0))
    | Some R =>
        let R := J1dbl (J1dbl (J1dbl (J1dbl (J1dbl R)))) in
        Some (if 0 <? b then J1add R (nth (Z.to_nat (b - 1)) T (0, 0, 0))
              else if b <? 0 then J1sub R (nth (Z.to_nat (- b - 1)) T (0, 0, 0)) else R)
    end in
  match fold_left step (rev (seq 0 52)) None with None => (0, 0, 0) | Some R => R end.

(* ------------------------------------------------------------------ twist *)
Definition J2 := (T2 * T2 * T2)%type.
Definition J2inf : J2 := (I2one, I2one, I2zero).
Definition J2is_inf (P : J2) : bool := let '(_, _, z) := P in I2is_zero z.
(* sm9_z256_twist_point_dbl *)
Definition J2dbl (P : J2) : J2 :=
  let '(X1, Y1, Z1) := P in
  if I2is_zero Z1 then P else
  let T2_ := I2sqr X1 in
  let T2_ := I2tri T2_ in
  let Y3 := I2dbl Y1 in
  let Z3 := I2mul Y3 Z1 in
  let Y3 := I2sqr Y3 in
  let T3 := I2mul Y3 X1 in
  let Y3 := I2sqr Y3 in
  let Y3 := I2haf Y3 in
  let X3 := I2sqr T2_ in
  let T1 := I2dbl T3 in
  let X3 := I2sub X3 T1 in
  let T1 := I2sub T3 X3 in
  let T1 := I2mul T1 T2_ in
  let Y3 := I2sub T1 Y3 in
  (X3, Y3, Z3).
(* sm9_z256_twist_point_add: Q is read as affine (its Z is ignored) *)
Definition J2add (P Q : J2) : J2 :=
  let '(X1, Y1, Z1) := P in let '(x2, y2, Z2) := Q in
  if I2is_zero Z2 then P else if I2is_zero Z1 then Q else
  let T1 := I2sqr Z1 in
  let T2_ := I2mul T1 Z1 in
  let T1 := I2mul T1 x2 in
  let T2_ := I2mul T2_ y2 in
  let T1 := I2sub T1 X1 in
  let T2_ := I2sub T2_ Y1 in
  if I2is_zero T1 then (if I2is_zero T2_ then J2dbl Q else J2inf) else
  let Z3 := I2mul Z1 T1 in
  let T3 := I2sqr T1 in
  let T4 := I2mul T3 T1 in
  let T3 := I2mul T3 X1 in
  let T1 := I2dbl T3 in
  let X3 := I2sqr T2_ in
  let X3 := I2sub X3 T1 in
  let X3 := I2sub X3 T4 in
  let T3 := I2sub T3 X3 in
  let T3 := I2mul T3 T2_ in
  let T4 := I2mul T4 Y1 in
  let Y3 := I2sub T3 T4 in
  (X3, Y3, Z3).
(* sm9_z256_twist_point_add_full *)
Definition J2add_full (P Q : J2) : J2 :=
  let '(X1, Y1, Z1) := P in let '(X2, Y2, Z2) := Q in
  if I2is_zero Z2 then P else if I2is_zero Z1 then Q else
  let T1 := I2sqr Z1 in
  let T2_ := I2sqr Z2 in
  let T3 := I2mul X2 T1 in
  let T4 := I2mul X1 T2_ in
  let T5 := I2add T3 T4 in
  let T3 := I2sub T3 T4 in
  let T1 := I2mul T1 Z1 in
  let T1 := I2mul T1 Y2 in
  let T2_ := I2mul T2_ Z2 in
  let T2_ := I2mul T2_ Y1 in
  let T6 := I2add T1 T2_ in
  let T1 := I2sub T1 T2_ in
  if I2is_zero T1 && I2is_zero T3 then J2dbl P
  else if I2is_zero T1 && I2is_zero T6 then J2inf else
  let T6 := I2sqr T1 in
  let T7 := I2mul T3 Z1 in
  let T7 := I2mul T7 Z2 in
  let T8 := I2sqr T3 in
  let T5 := I2mul T5 T8 in
  let T3 := I2mul T3 T8 in
  let T4 := I2mul T4 T8 in
  let T6 := I2sub T6 T5 in
  let T4 := I2sub T4 T6 in
  let T1 := I2mul T1 T4 in
  let T2_ := I2mul T2_ T3 in
  let T1 := I2sub T1 T2_ in
  (T6, T1, T7).
Definition J2neg (P : J2) : J2 := let '(X, Y, Z) := P in (X, I2neg Y, Z).
Definition J2sub (P Q : J2) : J2 := J2add_full P (J2neg Q).
(* sm9_z256_twist_point_mul: 256 doublings, MSB first *)
Definition J2mul (k : Z) (P : J2) : J2 :=
  fold_left (fun Q i => let Q := J2dbl Q in if Z.testbit k (Z.of_nat i) then J2add_full Q P else Q)
            (rev (seq 0 256)) J2inf.
(* sm9_z256_twist_point_is_on_curve, b' = 5u *)
Definition J2on_curve (P : J2) : bool :=
  let '(X, Y, Z) := P in
  let B := (0, 5) in
  if I2is_one Z then I2equ (I2sqr Y) (I2add (I2mul (I2sqr X) X) B)
  else
    let t0 := I2mul (I2sqr X) X in
    let t1 := I2sqr Z in
    let t2 := I2sqr t1 in
    let t1 := I2mul t1 t2 in
    let t1 := I2mul t1 B in
    I2equ (I2sqr Y) (I2add t0 t1).
