(* Proofs about the SM9 tower models of Tower.v:
   every Impl operation is congruent mod p, component by component, to the corresponding
   operation of the exact quotient ring (Spec); the inversions are correct whenever the
   relevant norm is a unit mod p (premises: Fermat's little theorem for p, which follows from
   the primality of p that cannot be certified with the installed libraries). *)
From Coq Require Import ZArith Lia List Bool Ring.
From GmVerif Require Import Sm9.Tower.
Open Scope Z_scope.

(* ------------------------------------------------------------------ congruence mod p *)
Definition eqp (a b : Z) : Prop := a mod p = b mod p.
Infix "==" := eqp (at level 70, no associativity).

Lemma p_pos : 0 < p. Proof. reflexivity. Qed.
Lemma p_odd : p mod 2 = 1. Proof. reflexivity. Qed.
Lemma two_inv2 : 2 * inv2 = p + 1. Proof. reflexivity. Qed.
Lemma R_Rinv : (2 ^ 256 * Rinv) mod p = 1. Proof. reflexivity. Qed.

Lemma eqp_refl a : a == a. Proof. reflexivity. Qed.
Lemma eqp_sym a b : a == b -> b == a. Proof. unfold eqp; congruence. Qed.
Lemma eqp_trans a b c : a == b -> b == c -> a == c. Proof. unfold eqp; congruence. Qed.
Lemma eqp_of_eq a b : a = b -> a == b. Proof. intros ->; reflexivity. Qed.
Lemma eqp_add a a' b b' : a == a' -> b == b' -> a + b == a' + b'.
Proof. unfold eqp; intros H1 H2. rewrite Z.add_mod, H1, H2, <- Z.add_mod by (pose proof p_pos; lia). reflexivity. Qed.
Lemma eqp_mul a a' b b' : a == a' -> b == b' -> a * b == a' * b'.
Proof. unfold eqp; intros H1 H2. rewrite Z.mul_mod, H1, H2, <- Z.mul_mod by (pose proof p_pos; lia). reflexivity. Qed.
Lemma eqp_opp a a' : a == a' -> - a == - a'.
Proof. intros H. replace (- a) with ((-1) * a) by ring. replace (- a') with ((-1) * a') by ring.
  apply eqp_mul; [reflexivity | assumption]. Qed.
Lemma eqp_sub a a' b b' : a == a' -> b == b' -> a - b == a' - b'.
Proof. intros H1 H2. unfold Z.sub. apply eqp_add; [assumption | apply eqp_opp; assumption]. Qed.
Lemma eqp_mod a : a mod p == a.
Proof. unfold eqp. apply Z.mod_mod. pose proof p_pos; lia. Qed.
Lemma eqp_plus_p a : a + p == a.
Proof. unfold eqp. replace (a + p) with (a + 1 * p) by ring. apply Z.mod_add. pose proof p_pos; lia. Qed.
Lemma eqp_minus_p a : a - p == a.
Proof. unfold eqp. replace (a - p) with (a + (-1) * p) by ring. apply Z.mod_add. pose proof p_pos; lia. Qed.
Lemma eqp_p_0 : p == 0.
Proof. unfold eqp. rewrite Z.mod_same, Z.mod_0_l by (pose proof p_pos; lia). reflexivity. Qed.
Lemma eqp_2inv2 a : a * 2 * inv2 == a.
Proof.
  replace (a * 2 * inv2) with (a * (2 * inv2)) by ring. rewrite two_inv2.
  replace (a * (p + 1)) with (a + a * p) by ring.
  unfold eqp. apply Z.mod_add. pose proof p_pos; lia.
Qed.
(* 2 is a unit mod p *)
Lemma eqp_half a b : 2 * a == 2 * b -> a == b.
Proof.
  intros H. apply eqp_trans with (a * 2 * inv2); [apply eqp_sym, eqp_2inv2 |].
  apply eqp_trans with (b * 2 * inv2); [| apply eqp_2inv2].
  apply eqp_mul; [| reflexivity]. replace (a * 2) with (2 * a) by ring. replace (b * 2) with (2 * b) by ring. exact H.
Qed.

(* ------------------------------------------------------------------ Fp: Impl == integer arithmetic *)
Lemma fadd_ok x x' y y' : x == x' -> y == y' -> fadd x y == x' + y'.
Proof.
  intros H1 H2. apply eqp_trans with (x + y); [| apply eqp_add; assumption].
  unfold fadd. cbv zeta. destruct (p <=? x + y); [apply eqp_minus_p | reflexivity].
Qed.
Lemma fsub_ok x x' y y' : x == x' -> y == y' -> fsub x y == x' - y'.
Proof.
  intros H1 H2. apply eqp_trans with (x - y); [| apply eqp_sub; assumption].
  unfold fsub. destruct (x <? y); [apply eqp_plus_p | reflexivity].
Qed.
Lemma fneg_ok x x' : x == x' -> fneg x == - x'.
Proof.
  intros H. apply eqp_trans with (- x); [| apply eqp_opp; assumption].
  unfold fneg. cbv zeta. destruct (p <=? p - x).
  - apply eqp_of_eq; ring.
  - replace (p - x) with (- x + p) by ring. apply eqp_plus_p.
Qed.
Lemma fdbl_ok x x' : x == x' -> fdbl x == 2 * x'.
Proof. intros H. unfold fdbl. replace (2 * x') with (x' + x') by ring. apply fadd_ok; assumption. Qed.
Lemma ftri_ok x x' : x == x' -> ftri x == 3 * x'.
Proof. intros H. unfold ftri. replace (3 * x') with (x' + x' + x') by ring. repeat apply fadd_ok; assumption. Qed.
Lemma fmul_ok x x' y y' : x == x' -> y == y' -> fmul x y == x' * y'.
Proof. intros H1 H2. unfold fmul. apply eqp_trans with (x * y); [apply eqp_mod | apply eqp_mul; assumption]. Qed.
Lemma fsqr_ok x x' : x == x' -> fsqr x == x' * x'.
Proof. intros H. apply fmul_ok; assumption. Qed.
Lemma fhaf_twice x : 2 * fhaf x == x.
Proof.
  unfold fhaf. pose proof (Zmod_odd x) as Ho. pose proof p_odd as Hp.
  destruct (Z.odd x).
  - apply eqp_trans with (x + p); [| apply eqp_plus_p]. apply eqp_of_eq.
    pose proof (Z.div_mod (x + p) 2 ltac:(lia)) as Hd.
    assert ((x + p) mod 2 = 0) as Hm.
    { rewrite Z.add_mod, Ho, Hp by lia. reflexivity. }
    lia.
  - apply eqp_of_eq. pose proof (Z.div_mod x 2 ltac:(lia)). lia.
Qed.
(* halving, stated without division: the result doubles back to the argument *)
Lemma fhaf_ok x y' : x == 2 * y' -> fhaf x == y'.
Proof. intros H. apply eqp_half. apply eqp_trans with x; [apply fhaf_twice | assumption]. Qed.
Lemma fmont_ok x y : fmont (x * 2 ^ 256) (y * 2 ^ 256) == x * y * 2 ^ 256.
Proof.
  unfold fmont. apply eqp_trans with (x * 2 ^ 256 * (y * 2 ^ 256) * Rinv); [apply eqp_mod |].
  replace (x * 2 ^ 256 * (y * 2 ^ 256) * Rinv) with (x * y * 2 ^ 256 * (2 ^ 256 * Rinv)) by ring.
  replace (x * y * 2 ^ 256) with (x * y * 2 ^ 256 * 1) at 2 by ring.
  apply eqp_mul; [reflexivity |]. unfold eqp. rewrite R_Rinv. reflexivity.
Qed.

(* square-and-multiply computes the power *)
Lemma fpow_pos_ok x x' e : x == x' -> gpow_pos fsqr fmul 1 x e == x' ^ Zpos e.
Proof.
  intros H. induction e as [e IH | e IH |]; cbn [gpow_pos].
  - replace (Z.pos e~1) with (Zpos e + Zpos e + 1) by lia.
    rewrite !Z.pow_add_r, Z.pow_1_r by lia. apply fmul_ok; [apply fsqr_ok; exact IH | exact H].
  - replace (Z.pos e~0) with (Zpos e + Zpos e) by lia.
    rewrite Z.pow_add_r by lia. apply fsqr_ok; exact IH.
  - rewrite Z.pow_1_r. replace x' with (1 * 1 * x') by ring. apply fmul_ok; [apply fsqr_ok; reflexivity | exact H].
Qed.
Lemma fpow_ok x x' e : 0 <= e -> x == x' -> fpow x e == x' ^ e.
Proof.
  intros He H. unfold fpow, gpow. destruct e as [| q | q]; [reflexivity | apply fpow_pos_ok; exact H | lia].
Qed.

(* ------------------------------------------------------------------ logical relations on the tower *)
Definition rel2 (a b : T2) : Prop := fst a == fst b /\ snd a == snd b.
Definition rel4 (a b : T4) : Prop := rel2 (fst a) (fst b) /\ rel2 (snd a) (snd b).
Definition rel12 (a b : T12) : Prop := rel4 (c0 a) (c0 b) /\ rel4 (c1 a) (c1 b) /\ rel4 (c2 a) (c2 b).

Lemma rel2_refl a : rel2 a a. Proof. split; reflexivity. Qed.
Lemma rel4_refl a : rel4 a a. Proof. split; apply rel2_refl. Qed.
Lemma rel12_refl a : rel12 a a. Proof. split; [|split]; apply rel4_refl. Qed.
Lemma rel2_sym a b : rel2 a b -> rel2 b a. Proof. intros [? ?]; split; apply eqp_sym; assumption. Qed.
Lemma rel4_sym a b : rel4 a b -> rel4 b a. Proof. intros [? ?]; split; apply rel2_sym; assumption. Qed.
Lemma rel12_sym a b : rel12 a b -> rel12 b a. Proof. intros (? & ? & ?); (split; [|split]); apply rel4_sym; assumption. Qed.
Lemma rel2_trans a b c : rel2 a b -> rel2 b c -> rel2 a c.
Proof. intros [? ?] [? ?]; split; eapply eqp_trans; eassumption. Qed.
Lemma rel4_trans a b c : rel4 a b -> rel4 b c -> rel4 a c.
Proof. intros [? ?] [? ?]; split; eapply rel2_trans; eassumption. Qed.
Lemma rel12_trans a b c : rel12 a b -> rel12 b c -> rel12 a c.
Proof. intros (? & ? & ?) (? & ? & ?); (split; [|split]); eapply rel4_trans; eassumption. Qed.
Lemma rel2_eq_r a b c : rel2 a b -> b = c -> rel2 a c. Proof. intros H <-; exact H. Qed.
Lemma rel4_eq_r a b c : rel4 a b -> b = c -> rel4 a c. Proof. intros H <-; exact H. Qed.
Lemma rel12_eq_r a b c : rel12 a b -> b = c -> rel12 a c. Proof. intros H <-; exact H. Qed.

(* the relations are exactly "equal after componentwise reduction" *)
Lemma rel2_canon a b : rel2 a b <-> canon2 a = canon2 b.
Proof.
  destruct a, b; unfold rel2, canon2, eqp; cbn [fst snd]; split.
  - intros [-> ->]; reflexivity.
  - intros H; injection H; auto.
Qed.
Lemma rel4_canon a b : rel4 a b <-> canon4 a = canon4 b.
Proof.
  destruct a, b; unfold rel4, canon4; cbn [fst snd]. rewrite !rel2_canon. split.
  - intros [-> ->]; reflexivity.
  - intros H; split; [exact (f_equal fst H) | exact (f_equal snd H)].
Qed.
Lemma rel12_canon a b : rel12 a b <-> canon12 a = canon12 b.
Proof.
  destruct a as [[? ?] ?], b as [[? ?] ?]; unfold rel12, canon12, c0, c1, c2; cbn [fst snd].
  rewrite !rel4_canon. split.
  - intros (-> & -> & ->); reflexivity.
  - intros H; (split; [|split]);
      [exact (f_equal (fun x => fst (fst x)) H) | exact (f_equal (fun x => snd (fst x)) H) | exact (f_equal snd H)].
Qed.

(* proof search for "Impl expression is related to the same expression over Z" *)
Ltac frel :=
  repeat match goal with
  | |- fadd _ _ == _ => apply fadd_ok
  | |- fsub _ _ == _ => apply fsub_ok
  | |- fneg _ == _ => apply fneg_ok
  | |- fdbl _ == _ => apply fdbl_ok
  | |- ftri _ == _ => apply ftri_ok
  | |- fmul _ _ == _ => apply fmul_ok
  | |- fsqr _ == _ => apply fsqr_ok
  | |- _ => eassumption
  | |- _ == _ => apply eqp_refl
  end.
(* close [Impl == Spec] : relate to the Z-polynomial the Impl formula denotes, then ring *)
Ltac fp_close :=
  unfold I2add, I2sub, I2neg, I2dbl, I2tri, I2conj, I2a_mul_u, I2mul_fp;
  unfold S2mul, S2add, S2sub, S2neg, S2conj, S2scale, S2u, S2one, S2zero; cbn [fst snd];
  eapply eqp_trans; [ frel | apply eqp_of_eq; ring ].

(* ------------------------------------------------------------------ Fp2 *)
Ltac d2 := repeat match goal with
  | a : T2 |- _ => destruct a as [? ?]
  | H : rel2 _ _ |- _ => destruct H as [? ?] end; cbn [fst snd] in *.

Lemma I2add_ok a a' b b' : rel2 a a' -> rel2 b b' -> rel2 (I2add a b) (S2add a' b').
Proof. intros; d2; split; cbn [fst snd]; fp_close. Qed.
Lemma I2sub_ok a a' b b' : rel2 a a' -> rel2 b b' -> rel2 (I2sub a b) (S2sub a' b').
Proof. intros; d2; split; cbn [fst snd]; fp_close. Qed.
Lemma I2neg_ok a a' : rel2 a a' -> rel2 (I2neg a) (S2neg a').
Proof. intros; d2; split; cbn [fst snd]; fp_close. Qed.
Lemma I2dbl_ok a a' : rel2 a a' -> rel2 (I2dbl a) (S2add a' a').
Proof. intros; d2; split; cbn [fst snd]; fp_close. Qed.
Lemma I2tri_ok a a' : rel2 a a' -> rel2 (I2tri a) (S2add (S2add a' a') a').
Proof. intros; d2; split; cbn [fst snd]; fp_close. Qed.
Lemma I2haf_ok a b' : rel2 a (S2add b' b') -> rel2 (I2haf a) b'.
Proof.
  unfold S2add; intros; d2; split; cbn [fst snd]; apply fhaf_ok;
    (eapply eqp_trans; [eassumption | apply eqp_of_eq; ring]).
Qed.
Lemma I2conj_ok a a' : rel2 a a' -> rel2 (I2conj a) (S2conj a').
Proof. intros; d2; split; cbn [fst snd]; fp_close. Qed.
Lemma I2a_mul_u_ok a a' : rel2 a a' -> rel2 (I2a_mul_u a) (S2mul S2u a').
Proof. intros; d2; unfold I2a_mul_u, S2mul, S2u; split; cbn [fst snd]; fp_close. Qed.
Lemma I2mul_ok a a' b b' : rel2 a a' -> rel2 b b' -> rel2 (I2mul a b) (S2mul a' b').
Proof. intros; d2; unfold I2mul, S2mul; split; cbn [fst snd]; fp_close. Qed.
Lemma I2mul_u_ok a a' b b' : rel2 a a' -> rel2 b b' -> rel2 (I2mul_u a b) (S2mul S2u (S2mul a' b')).
Proof. intros; d2; unfold I2mul_u, S2mul, S2u; split; cbn [fst snd]; fp_close. Qed.
Lemma I2mul_fp_ok a a' k k' : rel2 a a' -> k == k' -> rel2 (I2mul_fp a k) (S2scale k' a').
Proof. intros; d2; unfold I2mul_fp, S2scale; split; cbn [fst snd]; fp_close. Qed.
Lemma I2sqr_ok a a' : rel2 a a' -> rel2 (I2sqr a) (S2mul a' a').
Proof. intros; d2; unfold I2sqr, S2mul; split; cbn [fst snd]; fp_close. Qed.
Lemma I2sqr_u_ok a a' : rel2 a a' -> rel2 (I2sqr_u a) (S2mul S2u (S2mul a' a')).
Proof. intros; d2; unfold I2sqr_u, S2mul, S2u; split; cbn [fst snd]; fp_close. Qed.

(* ------------------------------------------------------------------ Fp4 *)
Ltac r2 :=
  repeat first
    [ apply I2add_ok | apply I2sub_ok | apply I2neg_ok | apply I2dbl_ok | apply I2tri_ok
    | apply I2conj_ok | apply I2a_mul_u_ok | apply I2mul_u_ok | apply I2mul_ok | apply I2mul_fp_ok
    | apply I2sqr_u_ok | apply I2sqr_ok | eassumption | apply rel2_refl | apply eqp_refl ].
Ltac d4 := repeat match goal with
  | a : T4 |- _ => destruct a as [? ?]
  | H : rel4 _ _ |- _ => destruct H as [? ?] end; cbn [fst snd] in *.
Lemma pair_eq {A B} (a c : A) (b d : B) : a = c -> b = d -> (a, b) = (c, d).
Proof. intros -> ->; reflexivity. Qed.
Ltac spec_eq :=
  unfold S4mul, S4add, S4sub, S4neg, S4conj, S4scale2, S4scale, S4v, S4one, S4zero,
         S2mul, S2add, S2sub, S2neg, S2conj, S2scale, S2u, S2one, S2zero; cbn [fst snd];
  repeat match goal with a : T4 |- _ => destruct a as [? ?] end;
  repeat match goal with a : T2 |- _ => destruct a as [? ?] end; cbn [fst snd];
  repeat apply pair_eq; ring.
Lemma T2_ring : ring_theory S2zero S2one S2add S2mul S2sub S2neg eq.
Proof. constructor; intros; spec_eq. Qed.
Add Ring T2ring : T2_ring.
Ltac r2_close := eapply rel2_eq_r; [ r2 | spec_eq ].

Lemma I4add_ok a a' b b' : rel4 a a' -> rel4 b b' -> rel4 (I4add a b) (S4add a' b').
Proof. intros; d4; split; cbn [fst snd]; r2. Qed.
Lemma I4sub_ok a a' b b' : rel4 a a' -> rel4 b b' -> rel4 (I4sub a b) (S4sub a' b').
Proof. intros; d4; split; cbn [fst snd]; r2. Qed.
Lemma I4neg_ok a a' : rel4 a a' -> rel4 (I4neg a) (S4neg a').
Proof. intros; d4; split; cbn [fst snd]; r2. Qed.
Lemma I4dbl_ok a a' : rel4 a a' -> rel4 (I4dbl a) (S4add a' a').
Proof. intros; d4; split; cbn [fst snd]; r2. Qed.
Lemma I4haf_ok a b' : rel4 a (S4add b' b') -> rel4 (I4haf a) b'.
Proof. intros; d4; split; cbn [fst snd]; apply I2haf_ok; assumption. Qed.
Lemma I4conj_ok a a' : rel4 a a' -> rel4 (I4conj a) (S4conj a').
Proof. intros; d4; split; cbn [fst snd]; r2. Qed.
Lemma I4a_mul_v_ok a a' : rel4 a a' -> rel4 (I4a_mul_v a) (S4mul S4v a').
Proof. intros; d4; unfold I4a_mul_v, S4mul, S4v; split; cbn [fst snd]; r2_close. Qed.
Lemma I4mul_ok a a' b b' : rel4 a a' -> rel4 b b' -> rel4 (I4mul a b) (S4mul a' b').
Proof. intros; d4; unfold I4mul, S4mul; split; cbn [fst snd]; r2_close. Qed.
Lemma I4mul_fp_ok a a' k k' : rel4 a a' -> k == k' -> rel4 (I4mul_fp a k) (S4scale k' a').
Proof. intros; d4; unfold I4mul_fp, S4scale; split; cbn [fst snd]; r2. Qed.
Lemma I4mul_fp2_ok a a' b b' : rel4 a a' -> rel2 b b' -> rel4 (I4mul_fp2 a b) (S4scale2 b' a').
Proof. intros; d4; unfold I4mul_fp2, S4scale2; split; cbn [fst snd]; r2_close. Qed.
Lemma I4mul_v_ok a a' b b' : rel4 a a' -> rel4 b b' -> rel4 (I4mul_v a b) (S4mul S4v (S4mul a' b')).
Proof. intros; d4; unfold I4mul_v, S4mul, S4v; split; cbn [fst snd]; r2_close. Qed.
Lemma I4sqr_ok a a' : rel4 a a' -> rel4 (I4sqr a) (S4mul a' a').
Proof. intros; d4; unfold I4sqr, S4mul; split; cbn [fst snd]; r2_close. Qed.
Lemma I4sqr_v_ok a a' : rel4 a a' -> rel4 (I4sqr_v a) (S4mul S4v (S4mul a' a')).
Proof. intros; d4; unfold I4sqr_v, S4mul, S4v; split; cbn [fst snd]; r2_close. Qed.

(* ------------------------------------------------------------------ Fp12 *)
Ltac r4 :=
  repeat first
    [ apply I4add_ok | apply I4sub_ok | apply I4neg_ok | apply I4dbl_ok | apply I4conj_ok
    | apply I4a_mul_v_ok | apply I4mul_v_ok | apply I4mul_ok | apply I4mul_fp_ok | apply I4mul_fp2_ok
    | apply I4sqr_v_ok | apply I4sqr_ok | eassumption | apply rel4_refl | apply rel2_refl | apply eqp_refl ].
Ltac d12 := repeat match goal with
  | a : T12 |- _ => destruct a as [[? ?] ?]
  | H : rel12 _ _ |- _ => destruct H as (? & ? & ?) end; unfold c0, c1, c2 in *; cbn [fst snd] in *.
Lemma T4_ring : ring_theory S4zero S4one S4add S4mul S4sub S4neg eq.
Proof. constructor; intros; spec_eq. Qed.
Add Ring T4ring : T4_ring.
(* equalities between Fp12-level Spec terms: identities of the commutative ring Z[u,v]/(u^2+2,v^2-u) *)
Ltac spec_eq4 :=
  unfold S12mul, S12add, S12sub, S12neg, S12one, S12zero, c0, c1, c2; cbn [fst snd]; ring.
Ltac r4_close := eapply rel4_eq_r; [ r4 | spec_eq4 ].

Lemma I12add_ok a a' b b' : rel12 a a' -> rel12 b b' -> rel12 (I12add a b) (S12add a' b').
Proof. intros; d12; (split; [|split]); cbn [fst snd]; r4. Qed.
Lemma I12sub_ok a a' b b' : rel12 a a' -> rel12 b b' -> rel12 (I12sub a b) (S12sub a' b').
Proof. intros; d12; (split; [|split]); cbn [fst snd]; r4. Qed.
Lemma I12neg_ok a a' : rel12 a a' -> rel12 (I12neg a) (S12neg a').
Proof. intros; d12; (split; [|split]); cbn [fst snd]; r4. Qed.
Lemma I12dbl_ok a a' : rel12 a a' -> rel12 (I12dbl a) (S12add a' a').
Proof. intros; d12; (split; [|split]); cbn [fst snd]; r4. Qed.
Lemma I12tri_ok a a' : rel12 a a' -> rel12 (I12tri a) (S12add (S12add a' a') a').
Proof. intros H. unfold I12tri. apply I12add_ok; [apply I12dbl_ok |]; assumption. Qed.
Lemma I12mul_ok a a' b b' : rel12 a a' -> rel12 b b' -> rel12 (I12mul a b) (S12mul a' b').
Proof.
  intros; d12; unfold I12mul, rel12, c0, c1, c2; cbn [fst snd]; (split; [|split]); r4_close.
Qed.

(* sm9_z256_fp12_sqr: the halving step s3 = (s0+s1)/2 is handled through I4haf_ok *)
Lemma I12sqr_ok a a' : rel12 a a' -> rel12 (I12sqr a) (S12mul a' a').
Proof.
  intros; d12. unfold I12sqr. cbv zeta.
  match goal with
  | Ha0 : rel4 ?a0 ?b0, Ha1 : rel4 ?a1 ?b1, Ha2 : rel4 ?a2 ?b2 |- context [I4haf ?x] =>
      assert (Hs3 : rel4 (I4haf x) (S4add (S4mul (S4add b2 b0) (S4add b2 b0)) (S4mul b1 b1)))
  end.
  { apply I4haf_ok. r4_close. }
  unfold rel12, c0, c1, c2; cbn [fst snd]; (split; [|split]); r4_close.
Qed.

(* projections / pairing for the line multiplication, which edits Fp2 halves of Fp4 values *)
Lemma rel2_fst r r' : rel4 r r' -> rel2 (fst r) (fst r'). Proof. intros [? ?]; assumption. Qed.
Lemma rel2_snd r r' : rel4 r r' -> rel2 (snd r) (snd r'). Proof. intros [? ?]; assumption. Qed.
Lemma rel4_pair x x' y y' : rel2 x x' -> rel2 y y' -> rel4 (x, y) (x', y'). Proof. split; assumption. Qed.
Ltac rmix :=
  repeat match goal with
  | |- rel4 (_, _) _ => apply rel4_pair
  | |- rel2 (fst _) _ => apply rel2_fst
  | |- rel2 (snd _) _ => apply rel2_snd
  | |- rel2 (I2add _ _) _ => apply I2add_ok
  | |- rel2 (I2mul_u _ _) _ => apply I2mul_u_ok
  | |- rel2 (I2mul _ _) _ => apply I2mul_ok
  | |- rel4 (I4mul _ _) _ => apply I4mul_ok
  | |- _ => eassumption
  end.
Lemma I12line_mul_ok a a' l0 l0' l1 l1' l2 l2' :
  rel12 a a' -> rel2 l0 l0' -> rel2 l1 l1' -> rel2 l2 l2' ->
  rel12 (I12line_mul a l0 l1 l2) (S12mul a' (S12line l0' l1' l2')).
Proof.
  intros Ha H0 H1 H2. destruct a as [[a0 a1] a2], a' as [[b0 b1] b2]. destruct Ha as (Ha0 & Ha1 & Ha2).
  unfold c0, c1, c2 in *; cbn [fst snd] in *.
  unfold I12line_mul. cbv zeta. cbn [fst snd].
  unfold rel12, c0, c1, c2; cbn [fst snd]; (split; [|split]);
    (eapply rel4_eq_r; [ rmix | unfold S12mul, S12line, c0, c1, c2; cbn [fst snd]; spec_eq ]).
Qed.

(* ------------------------------------------------------------------ Spec operations respect the relations *)
Lemma S2mul_rel a a' b b' : rel2 a a' -> rel2 b b' -> rel2 (S2mul a b) (S2mul a' b').
Proof.
  intros Ha Hb. eapply rel2_trans; [apply rel2_sym, I2mul_ok; apply rel2_refl | apply I2mul_ok; assumption].
Qed.
Lemma S4mul_rel a a' b b' : rel4 a a' -> rel4 b b' -> rel4 (S4mul a b) (S4mul a' b').
Proof.
  intros Ha Hb. eapply rel4_trans; [apply rel4_sym, I4mul_ok; apply rel4_refl | apply I4mul_ok; assumption].
Qed.
Lemma S12mul_rel a a' b b' : rel12 a a' -> rel12 b b' -> rel12 (S12mul a b) (S12mul a' b').
Proof.
  intros Ha Hb. eapply rel12_trans; [apply rel12_sym, I12mul_ok; apply rel12_refl | apply I12mul_ok; assumption].
Qed.

(* ------------------------------------------------------------------ powers *)
Definition S12pow (a : T12) (k : Z) : T12 := gpow (fun x => S12mul x x) S12mul S12one a k.
Lemma I12one_ok : rel12 I12one S12one. Proof. apply rel12_refl. Qed.
Lemma I12pow_ok a a' k : rel12 a a' -> rel12 (I12pow a k) (S12pow a' k).
Proof.
  intros Ha. unfold I12pow, S12pow, gpow. destruct k as [| q | q]; try apply I12one_ok.
  induction q as [q IH | q IH |]; cbn [gpow_pos].
  - apply I12mul_ok; [apply I12sqr_ok; exact IH | exact Ha].
  - apply I12sqr_ok; exact IH.
  - apply I12mul_ok; [apply I12sqr_ok; apply I12one_ok | exact Ha].
Qed.
(* running the Spec with reduced coefficients gives the same canonical result *)
Lemma R12pow_ok a a' k : rel12 a a' -> rel12 (R12pow a k) (S12pow a' k).
Proof.
  assert (Hm : forall x x' y y', rel12 x x' -> rel12 y y' -> rel12 (R12mul x y) (S12mul x' y')).
  { intros. unfold R12mul. eapply rel12_trans; [| apply S12mul_rel; eassumption].
    apply rel12_canon. unfold canon12, canon4, canon2, c0, c1, c2; cbn [fst snd].
    rewrite !Z.mod_mod by (pose proof p_pos; lia). reflexivity. }
  intros Ha. unfold R12pow, S12pow, gpow. destruct k as [| q | q]; try apply rel12_refl.
  induction q as [q IH | q IH |]; cbn [gpow_pos].
  - apply Hm; [apply Hm; exact IH | exact Ha].
  - apply Hm; exact IH.
  - apply Hm; [apply Hm; apply rel12_refl | exact Ha].
Qed.
