(* Fermat's little theorem from [prime q] (Znumtheory), by the permutation argument:
   x -> a*x mod q permutes 1..q-1, so a^(q-1) * (q-1)! = (q-1)! mod q, and (q-1)! is a unit.
   Generic in q; used to reduce the inverse theorems of the SM9 tower to the premise [prime p]. *)
From Coq Require Import ZArith Lia List Znumtheory Permutation.
Import ListNotations.
Open Scope Z_scope.

Section Fermat.
Variable q : Z.
Hypothesis Hq : prime q.

Let q_gt1 : 1 < q. Proof. destruct Hq; assumption. Qed.

Definition prodl (l : list Z) : Z := fold_right Z.mul 1 l.

Lemma prodl_cons x l : prodl (x :: l) = x * prodl l. Proof. reflexivity. Qed.
Lemma prodl_perm l l' : Permutation l l' -> prodl l = prodl l'.
Proof.
  induction 1; rewrite ?prodl_cons.
  - reflexivity.
  - rewrite IHPermutation; reflexivity.
  - ring.
  - congruence.
Qed.

Lemma prodl_map_mod a l : (prodl (map (fun x => (a * x) mod q) l)) mod q = (a ^ Z.of_nat (length l) * prodl l) mod q.
Proof.
  induction l as [| x l IH]; cbn [map length]; rewrite ?prodl_cons.
  - reflexivity.
  - rewrite Nat2Z.inj_succ, Z.pow_succ_r by lia.
    rewrite Z.mul_mod, Z.mod_mod, IH, <- Z.mul_mod by lia. f_equal. ring.
Qed.

Definition rng (n : nat) : list Z := map Z.of_nat (seq 1 n).
Lemma in_rng n x : In x (rng n) <-> 1 <= x <= Z.of_nat n.
Proof.
  unfold rng. rewrite in_map_iff. split.
  - intros (k & <- & Hk). apply in_seq in Hk. lia.
  - intros H. exists (Z.to_nat x). split; [lia | apply in_seq; lia].
Qed.
Lemma nodup_rng n : NoDup (rng n).
Proof. unfold rng. apply FinFun.Injective_map_NoDup; [intros x y; lia | apply seq_NoDup]. Qed.
Lemma length_rng n : length (rng n) = n.
Proof. unfold rng. rewrite map_length, seq_length. reflexivity. Qed.

Lemma not_div_range x : 1 <= x <= q - 1 -> ~ (q | x).
Proof. intros H D. apply Z.divide_pos_le in D; lia. Qed.

Lemma prodl_rel_prime l : (forall x, In x l -> 1 <= x <= q - 1) -> rel_prime (prodl l) q.
Proof.
  induction l as [| x l IH]; intros H; rewrite ?prodl_cons.
  - apply rel_prime_1. 
  - apply rel_prime_sym, rel_prime_mult; apply rel_prime_sym.
    + apply rel_prime_sym, prime_rel_prime; [exact Hq | apply not_div_range, H; left; reflexivity].
    + apply IH. intros y Hy; apply H; right; exact Hy.
Qed.

Theorem fermat_little a : a mod q <> 0 -> (a ^ (q - 1)) mod q = 1.
Proof.
  intros Ha.
  assert (Hna : ~ (q | a)). { intros D. apply Ha. apply Z.mod_divide in D; lia. }
  set (n := Z.to_nat (q - 1)).
  set (l := rng n).
  set (f := fun x => (a * x) mod q).
  assert (Hin : forall x, In x l -> 1 <= x <= q - 1). { intros x Hx. apply in_rng in Hx. lia. }
  assert (Hf_range : forall x, In x l -> In (f x) l).
  { intros x Hx. apply in_rng. pose proof (Hin x Hx) as Hr. unfold f.
    pose proof (Z.mod_pos_bound (a * x) q ltac:(lia)).
    assert ((a * x) mod q <> 0).
    { intros E. apply Z.mod_divide in E; [| lia]. apply prime_mult in E; [| exact Hq].
      destruct E as [E | E]; [exact (Hna E) | exact (not_div_range x Hr E)]. }
    lia. }
  assert (Hf_inj : forall x y, In x l -> In y l -> f x = f y -> x = y).
  { intros x y Hx Hy E. unfold f in E. pose proof (Hin x Hx). pose proof (Hin y Hy).
    assert (D : (q | a * (x - y))).
    { apply Z.mod_divide; [lia |]. replace (a * (x - y)) with (a * x - a * y) by ring.
      rewrite Zminus_mod, E, Z.sub_diag. apply Z.mod_0_l. lia. }
    apply prime_mult in D; [| exact Hq]. destruct D as [D | D]; [contradiction |].
    destruct (Z.eq_dec x y) as [|Hne]; [assumption | exfalso].
    assert (q <= Z.abs (x - y)). { apply Z.divide_pos_le; [lia |]. apply Z.divide_abs_r. exact D. }
    lia. }
  assert (Hnd : NoDup (map f l)).
  { assert (NoDup l) as Hl by apply nodup_rng. clearbody l. clear - Hl Hf_inj.
    induction Hl as [| x l Hx Hl IH]; cbn; constructor.
    - intros Hi. apply in_map_iff in Hi. destruct Hi as (y & Ey & Hy).
      assert (y = x) by (apply Hf_inj; [right; exact Hy | left; reflexivity | exact Ey]). subst. contradiction.
    - apply IH. intros u v Hu Hv; apply Hf_inj; right; assumption. }
  assert (Hperm : Permutation (map f l) l).
  { apply NoDup_Permutation_bis; [exact Hnd | rewrite map_length; lia |].
    intros y Hy. apply in_map_iff in Hy. destruct Hy as (x & <- & Hx). apply Hf_range; exact Hx. }
  pose proof (prodl_map_mod a l) as Hp. fold f in Hp.
  rewrite (prodl_perm _ _ Hperm) in Hp.
  unfold l in Hp at 2. rewrite length_rng in Hp. fold l in Hp.
  assert (En : Z.of_nat n = q - 1) by (unfold n; lia). rewrite En in Hp.
  (* cancel prodl l, which is coprime to q *)
  pose proof (prodl_rel_prime l Hin) as Hrp.
  assert (D : (q | (a ^ (q - 1) - 1) * prodl l)).
  { apply Z.mod_divide; [lia |]. replace ((a ^ (q - 1) - 1) * prodl l) with (a ^ (q - 1) * prodl l - prodl l) by ring.
    rewrite Zminus_mod, <- Hp, Z.sub_diag. apply Z.mod_0_l. lia. }
  rewrite Z.mul_comm in D. apply Gauss in D; [| apply rel_prime_sym; exact Hrp].
  apply Z.mod_divide in D; [| lia].
  rewrite Zminus_mod in D. rewrite (Z.mod_small 1 q) in D by lia.
  pose proof (Z.mod_pos_bound (a ^ (q - 1)) q ltac:(lia)) as Hb.
  set (v := a ^ (q - 1) mod q) in *.
  destruct (Z.eq_dec v 1) as [E | NE]; [exact E | exfalso].
  destruct (Z.eq_dec v 0) as [E0 | NE0].
  - rewrite E0 in D. change (0 - 1) with (-1) in D.
    replace (-1) with (q - 1 + (-1) * q) in D by ring. rewrite Z.mod_add, Z.mod_small in D by lia. lia.
  - rewrite Z.mod_small in D by lia. lia.
Qed.
End Fermat.
