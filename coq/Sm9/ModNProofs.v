(* Proofs about sm9_z256_modn_from_hash (ModN.v). *)
From Coq Require Import ZArith Lia List Znumtheory.
From GmVerif Require Import Base.Bytes Hash.MD Hash.SM3 Hash.C03Lemmas Codec.Der Codec.DerProofs Sm9.Tower Sm9.ModN Sm9.Fermat.
Open Scope Z_scope.

Lemma N_facts : 2 ^ 255 < Nord - 1 /\ Nord < 2 ^ 256. Proof. split; reflexivity. Qed.
Lemma mu_facts : mu_nm1 * (Nord - 1) <= 2 ^ 512 < (mu_nm1 + 1) * (Nord - 1) /\ 0 < mu_nm1.
Proof. repeat split; vm_compute; congruence. Qed.

(* the Spec always lands in [1, N-1] *)
Lemma from_hash_spec_range z : 1 <= from_hash_spec z <= Nord - 1.
Proof.
  unfold from_hash_spec. pose proof N_facts as [H1 H2].
  pose proof (Z.mod_pos_bound z (Nord - 1)). assert (0 < 2 ^ 255) by reflexivity. lia.
Qed.

(* the estimate never exceeds the true quotient and is at most one short *)
Lemma fh_quot_bounds z : 0 <= z < 2 ^ 320 ->
  fh_quot z * (Nord - 1) <= z /\
  z - (fh_quot z + 1) * (Nord - 1) < 2 ^ 192 + 2 ^ 64.
Proof.
  intros Hz. unfold fh_quot.
  pose proof N_facts as [HN1 HN2]. pose proof mu_facts as [[Hm1 Hm2] Hm0].
  set (n1 := Nord - 1) in *. set (mu := mu_nm1) in *.
  set (zh := z / 2 ^ 192).
  assert (E192 : 0 < 2 ^ 192) by reflexivity. assert (E320 : 0 < 2 ^ 320) by reflexivity.
  assert (E255 : 0 < 2 ^ 255) by reflexivity.
  assert (Ep : 2 ^ 512 = 2 ^ 192 * 2 ^ 320) by reflexivity.
  assert (Ep2 : 2 ^ 320 = 2 ^ 192 * 2 ^ 128) by reflexivity.
  assert (Ep3 : 2 ^ 128 * 2 ^ 256 = 2 ^ 64 * 2 ^ 320) by reflexivity.
  assert (E256 : 2 ^ 256 = 2 * 2 ^ 255) by reflexivity.
  pose proof (Z.div_mod z (2 ^ 192) ltac:(lia)) as Hd1. fold zh in Hd1.
  pose proof (Z.mod_pos_bound z (2 ^ 192) E192) as Hb1.
  assert (Hzh0 : 0 <= zh) by (apply Z.div_pos; lia).
  assert (Hzh : zh < 2 ^ 128).
  { apply Z.div_lt_upper_bound; lia. }
  set (q := zh * mu / 2 ^ 320).
  pose proof (Z.div_mod (zh * mu) (2 ^ 320) ltac:(lia)) as Hd2. fold q in Hd2.
  pose proof (Z.mod_pos_bound (zh * mu) (2 ^ 320) E320) as Hb2.
  assert (Hq0 : 0 <= q) by (apply Z.div_pos; nia).
  split.
  - (* q * 2^320 * n1 <= zh * mu * n1 <= zh * 2^512 <= z * 2^320 *)
    assert (q * 2 ^ 320 * n1 <= z * 2 ^ 320).
    { assert (q * 2 ^ 320 <= zh * mu) by lia.
      assert (q * 2 ^ 320 * n1 <= zh * mu * n1) by (apply Z.mul_le_mono_nonneg_r; lia).
      assert (zh * mu * n1 <= zh * 2 ^ 512).
      { replace (zh * mu * n1) with (zh * (mu * n1)) by ring. apply Z.mul_le_mono_nonneg_l; lia. }
      assert (zh * 2 ^ 512 <= z * 2 ^ 320).
      { rewrite Ep. replace (zh * (2 ^ 192 * 2 ^ 320)) with ((2 ^ 192 * zh) * 2 ^ 320) by ring.
        apply Z.mul_le_mono_nonneg_r; lia. }
      lia. }
    nia.
  - (* (q+1) 2^320 > zh mu ;  mu n1 > 2^512 - n1 ;  zh 2^192 > z - 2^192 *)
    assert (H1 : zh * mu < (q + 1) * 2 ^ 320) by lia.
    assert (H2 : zh * mu * n1 < (q + 1) * 2 ^ 320 * n1) by (apply Z.mul_lt_mono_pos_r; lia).
    assert (H3 : zh * (2 ^ 512 - n1) <= zh * mu * n1).
    { replace (zh * mu * n1) with (zh * (mu * n1)) by ring. apply Z.mul_le_mono_nonneg_l; lia. }
    assert (H4 : (z - 2 ^ 192) * 2 ^ 320 < zh * 2 ^ 512).
    { rewrite Ep. replace (zh * (2 ^ 192 * 2 ^ 320)) with ((2 ^ 192 * zh) * 2 ^ 320) by ring.
      apply Z.mul_lt_mono_pos_r; lia. }
    assert (H5 : zh * n1 < 2 ^ 64 * 2 ^ 320).
    { rewrite <- Ep3. apply Z.le_lt_trans with (zh * 2 ^ 256).
      - apply Z.mul_le_mono_nonneg_l; lia.
      - apply Z.mul_lt_mono_pos_r; lia. }
    (* combine: (z - 2^192) 2^320 - 2^64 2^320 < (q+1) 2^320 n1 *)
    assert (H6 : (z - 2 ^ 192 - 2 ^ 64) * 2 ^ 320 < ((q + 1) * n1) * 2 ^ 320) by nia.
    assert (z - 2 ^ 192 - 2 ^ 64 < (q + 1) * n1) by (apply Z.mul_lt_mono_pos_r with (p := 2 ^ 320); lia).
    lia.
Qed.

(* sm9_z256_modn_from_hash (with the correction step of 3d68e44) is the standard's map for EVERY
   320-bit input *)
Lemma from_hash_ok z : 0 <= z < 2 ^ 320 -> from_hash_impl z = from_hash_spec z.
Proof.
  intros Hz. pose proof (fh_quot_bounds z Hz) as [Hlo Hhi].
  unfold from_hash_impl, from_hash_spec. cbv zeta.
  pose proof N_facts as [HN1 HN2]. assert (E255 : 0 < 2 ^ 255) by reflexivity.
  assert (EW : W256 = 2 ^ 256) by reflexivity. assert (E256 : 2 ^ 256 = 2 * 2 ^ 255) by reflexivity.
  assert (E192 : 2 ^ 192 + 2 ^ 64 < 2 ^ 255) by reflexivity.
  assert (Efit : Nord - 1 + (2 ^ 192 + 2 ^ 64) < 2 ^ 256) by reflexivity.
  set (n1 := Nord - 1) in *. set (q := fh_quot z) in *.
  set (d := z - q * n1).
  assert (Hd : 0 <= d < n1 + (2 ^ 192 + 2 ^ 64)).
  { unfold d. replace ((q + 1) * n1) with (q * n1 + n1) in Hhi by ring. generalize dependent (q * n1). intros; lia. }
  assert (Hh : (z mod W256 - (q * n1) mod W256) mod W256 = d).
  { rewrite <- Zminus_mod. fold d. apply Z.mod_small. lia. }
  rewrite Hh.
  assert (Hrem : (if n1 <=? d then d - n1 else d) = z mod n1).
  { destruct (n1 <=? d) eqn:E; [apply Z.leb_le in E | apply Z.leb_gt in E].
    - apply Z.mod_unique with (q + 1); [lia | unfold d; ring].
    - apply Z.mod_unique with q; [lia | unfold d; ring]. }
  rewrite Hrem. pose proof (Z.mod_pos_bound z n1 ltac:(lia)) as Hb.
  unfold modn_add. cbv zeta.
  destruct (W256 <=? z mod n1 + 1) eqn:E1; [apply Z.leb_le in E1; lia |].
  destruct (Nord <=? z mod n1 + 1) eqn:E2; [apply Z.leb_le in E2; lia |]. reflexivity.
Qed.
Lemma from_hash_range z : 0 <= z < 2 ^ 320 -> 1 <= from_hash_impl z <= Nord - 1.
Proof. intros Hz. rewrite (from_hash_ok z Hz). apply from_hash_spec_range. Qed.

(* history: before 3d68e44 there was no correction step: Ha = N-1 was mapped to 0, outside
   [1, N-1], and a residue r < 2^192 to r instead of r+1.  The repaired function is right there. *)
Example from_hash_old_refuted :
  from_hash_impl_old (Nord - 1) = 0 /\ from_hash_spec (Nord - 1) = 1 /\
  from_hash_impl_old (3 * (Nord - 1) + 5) = 5 /\ from_hash_spec (3 * (Nord - 1) + 5) = 6 /\
  from_hash_impl (Nord - 1) = 1 /\ from_hash_impl (3 * (Nord - 1) + 5) = 6.
Proof. split; [| split; [| split; [| split; [| split]]]]; vm_compute; reflexivity. Qed.

(* sm9_z256_modn_add / _sub on reduced operands *)
Lemma modn_add_ok a b : 0 <= a < Nord -> 0 <= b < Nord -> modn_add a b = (a + b) mod Nord.
Proof.
  intros Ha Hb. pose proof N_facts as [H1 H2]. assert (EW : W256 = 2 ^ 256) by reflexivity.
  assert (E : 2 ^ 256 = 2 * 2 ^ 255) by reflexivity. assert (0 < 2 ^ 255) by reflexivity.
  unfold modn_add. cbv zeta.
  destruct (W256 <=? a + b) eqn:E1; [apply Z.leb_le in E1 | apply Z.leb_gt in E1].
  - replace (a + b - W256 + (W256 - Nord)) with (a + b - Nord) by ring.
    rewrite Z.mod_small by lia. apply Z.mod_unique with 1; lia.
  - destruct (Nord <=? a + b) eqn:E2; [apply Z.leb_le in E2 | apply Z.leb_gt in E2].
    + apply Z.mod_unique with 1; lia.
    + symmetry. apply Z.mod_small; lia.
Qed.
Lemma modn_sub_ok a b : 0 <= a < Nord -> 0 <= b < Nord -> modn_sub a b = (a - b) mod Nord.
Proof.
  intros Ha Hb. pose proof N_facts as [H1 H2]. assert (EW : W256 = 2 ^ 256) by reflexivity.
  assert (E : 2 ^ 256 = 2 * 2 ^ 255) by reflexivity. assert (0 < 2 ^ 255) by reflexivity.
  unfold modn_sub.
  destruct (a <? b) eqn:E1; [apply Z.ltb_lt in E1 | apply Z.ltb_ge in E1].
  - replace (a - b + W256 - (W256 - Nord)) with (a - b + Nord) by ring.
    rewrite Z.mod_small by lia. apply Z.mod_unique with (-1); lia.
  - symmetry. apply Z.mod_small; lia.
Qed.

(* ------------------------------------------------------------------ Barrett multiplication mod N *)
Lemma mun_facts : mu_n * Nord <= 2 ^ 512 < (mu_n + 1) * Nord /\ 0 < mu_n /\
                  Nord * Nord * Nord + 2 ^ 192 * 2 ^ 512 <= Nord * 2 ^ 512.
Proof. split; [split | split]; vm_compute; congruence. Qed.

Lemma modn_mul_ok a b : 0 <= a < Nord -> 0 <= b < Nord -> modn_mul a b = (a * b) mod Nord.
Proof.
  intros Ha Hb. unfold modn_mul. cbv zeta.
  pose proof N_facts as [HN1 HN2]. pose proof mun_facts as [[Hm1 Hm2] [Hm0 Hcube]].
  assert (EW : W256 = 2 ^ 256) by reflexivity. assert (E256 : 2 ^ 256 = 2 * 2 ^ 255) by reflexivity.
  assert (E255 : 0 < 2 ^ 255) by reflexivity.
  assert (E192 : 0 < 2 ^ 192) by reflexivity. assert (E320 : 0 < 2 ^ 320) by reflexivity.
  assert (Ep : 2 ^ 512 = 2 ^ 192 * 2 ^ 320) by reflexivity.
  assert (E320b : 2 ^ 320 = 2 ^ 64 * 2 ^ 256) by reflexivity. assert (E64 : 0 < 2 ^ 64) by reflexivity.
  set (n := Nord) in *. set (mu := mu_n) in *. set (z := a * b).
  assert (Hz0 : 0 <= z) by (unfold z; nia).
  assert (Hz : z < n * n) by (unfold z; nia).
  set (zh := z / 2 ^ 192).
  pose proof (Z.div_mod z (2 ^ 192) ltac:(lia)) as Hd1. fold zh in Hd1.
  pose proof (Z.mod_pos_bound z (2 ^ 192) E192) as Hb1.
  assert (Hzh0 : 0 <= zh) by (apply Z.div_pos; lia).
  set (q := zh * mu / 2 ^ 320).
  pose proof (Z.div_mod (zh * mu) (2 ^ 320) ltac:(lia)) as Hd2. fold q in Hd2.
  pose proof (Z.mod_pos_bound (zh * mu) (2 ^ 320) E320) as Hb2.
  assert (Hq0 : 0 <= q) by (apply Z.div_pos; nia).
  (* q n <= z *)
  assert (Hlo : q * n <= z).
  { assert (q * 2 ^ 320 * n <= z * 2 ^ 320).
    { assert (q * 2 ^ 320 <= zh * mu) by lia.
      assert (q * 2 ^ 320 * n <= zh * mu * n) by (apply Z.mul_le_mono_nonneg_r; lia).
      assert (zh * mu * n <= zh * 2 ^ 512).
      { replace (zh * mu * n) with (zh * (mu * n)) by ring. apply Z.mul_le_mono_nonneg_l; lia. }
      assert (zh * 2 ^ 512 <= z * 2 ^ 320).
      { rewrite Ep. replace (zh * (2 ^ 192 * 2 ^ 320)) with ((2 ^ 192 * zh) * 2 ^ 320) by ring.
        apply Z.mul_le_mono_nonneg_r; lia. }
      lia. }
    nia. }
  (* z - (q+1) n < n *)
  assert (Hhi : z - (q + 1) * n < n).
  { assert (H1 : zh * mu < (q + 1) * 2 ^ 320) by lia.
    assert (H2 : zh * mu * n < (q + 1) * 2 ^ 320 * n) by (apply Z.mul_lt_mono_pos_r; lia).
    assert (H3 : zh * (2 ^ 512 - n) <= zh * mu * n).
    { replace (zh * mu * n) with (zh * (mu * n)) by ring. apply Z.mul_le_mono_nonneg_l; lia. }
    assert (H4 : (z - 2 ^ 192) * 2 ^ 320 < zh * 2 ^ 512).
    { rewrite Ep. replace (zh * (2 ^ 192 * 2 ^ 320)) with ((2 ^ 192 * zh) * 2 ^ 320) by ring.
      apply Z.mul_lt_mono_pos_r; lia. }
    (* zh n 2^192 <= z n < n^3 *)
    assert (H5 : zh * n * 2 ^ 192 < n * n * n).
    { assert (zh * 2 ^ 192 <= z) by lia.
      assert (zh * 2 ^ 192 * n <= z * n) by (apply Z.mul_le_mono_nonneg_r; lia).
      assert (z * n < n * n * n) by (apply Z.mul_lt_mono_pos_r; lia). lia. }
    (* (z - 2^192) 2^320 - zh n < (q+1) n 2^320  and  zh n 2^192 + 2^192 2^512 <= n 2^512 *)
    assert (H6 : (z - 2 ^ 192) * 2 ^ 320 - zh * n < (q + 1) * n * 2 ^ 320) by lia.
    assert (H7 : (zh * n + 2 ^ 192 * 2 ^ 320) * 2 ^ 192 < n * 2 ^ 320 * 2 ^ 192).
    { replace (n * 2 ^ 320 * 2 ^ 192) with (n * 2 ^ 512) by (rewrite Ep; ring).
      replace ((zh * n + 2 ^ 192 * 2 ^ 320) * 2 ^ 192) with (zh * n * 2 ^ 192 + 2 ^ 192 * 2 ^ 512) by (rewrite Ep; ring). lia. }
    assert (H8 : zh * n + 2 ^ 192 * 2 ^ 320 < n * 2 ^ 320) by (apply Z.mul_lt_mono_pos_r with (p := 2 ^ 192); lia).
    assert (H9 : (z - (q + 1) * n) * 2 ^ 320 < n * 2 ^ 320) by lia.
    apply Z.mul_lt_mono_pos_r with (p := 2 ^ 320); lia. }
  set (r0 := z - q * n) in *.
  assert (Hr0 : 0 <= r0 < 2 * n) by (unfold r0; lia).
  assert (E257 : 2 * 2 ^ 256 < 2 ^ 320) by reflexivity.
  assert (Hr1 : 0 <= r0 < 2 ^ 320) by lia.
  rewrite (Z.mod_small r0 (2 ^ 320) Hr1).
  destruct (n <=? r0) eqn:E; [apply Z.leb_le in E | apply Z.leb_gt in E].
  - rewrite Zminus_mod_idemp_l. rewrite (Z.mod_small (r0 - n) W256) by lia.
    apply Z.mod_unique with (q + 1); [lia | unfold r0; ring].
  - rewrite (Z.mod_small r0 W256) by lia. apply Z.mod_unique with q; [lia | unfold r0; ring].
Qed.

Lemma modn_mul_range a b : 0 <= a < Nord -> 0 <= b < Nord -> 0 <= modn_mul a b < Nord.
Proof.
  intros Ha Hb. rewrite modn_mul_ok by assumption. apply Z.mod_pos_bound.
  pose proof N_facts as [H1 _]. assert (0 < 2 ^ 255) by reflexivity. lia.
Qed.

Lemma modn_pow_pos_ok a e : 0 <= a < Nord ->
  gpow_pos (fun x => modn_mul x x) modn_mul 1 a e = (a ^ Zpos e) mod Nord.
Proof.
  intros Ha. pose proof N_facts as [H1 _]. assert (E255 : 0 < 2 ^ 255) by reflexivity.
  assert (HN : 0 < Nord) by lia. assert (H1N : 0 <= 1 < Nord) by lia.
  induction e as [e IH | e IH |]; cbn [gpow_pos].
  - assert (R : 0 <= (a ^ Zpos e) mod Nord < Nord) by (apply Z.mod_pos_bound; lia).
    rewrite IH. rewrite (modn_mul_ok _ _ R R).
    rewrite modn_mul_ok by (try assumption; apply Z.mod_pos_bound; lia).
    rewrite <- Z.mul_mod, Z.mul_mod_idemp_l by lia.
    f_equal. replace (Z.pos e~1) with (Zpos e + Zpos e + 1) by lia. rewrite !Z.pow_add_r, Z.pow_1_r by lia. ring.
  - assert (R : 0 <= (a ^ Zpos e) mod Nord < Nord) by (apply Z.mod_pos_bound; lia).
    rewrite IH. rewrite (modn_mul_ok _ _ R R). rewrite <- Z.mul_mod by lia.
    f_equal. replace (Z.pos e~0) with (Zpos e + Zpos e) by lia. rewrite Z.pow_add_r by lia. ring.
  - rewrite (modn_mul_ok 1 1 H1N H1N). change (1 * 1) with 1. rewrite (Z.mod_small 1 Nord) by lia.
    rewrite modn_mul_ok by assumption. rewrite Z.pow_1_r. f_equal; ring.
Qed.
Lemma modn_pow_ok a e : 0 <= a < Nord -> 0 < e -> modn_pow a e = (a ^ e) mod Nord.
Proof. intros Ha He. unfold modn_pow, gpow. destruct e; try lia. apply modn_pow_pos_ok; assumption. Qed.

(* sm9_z256_modn_inv = a^(N-2): an inverse when N is prime (premise) *)
Lemma modn_inv_ok a : prime Nord -> 0 < a < Nord -> 0 <= modn_inv a < Nord /\ (a * modn_inv a) mod Nord = 1.
Proof.
  intros HP Ha. pose proof N_facts as [H1 _]. assert (E255 : 0 < 2 ^ 255) by reflexivity.
  assert (HN2 : 0 < Nord - 2) by lia.
  unfold modn_inv. rewrite modn_pow_ok by lia. split; [apply Z.mod_pos_bound; lia |].
  rewrite Z.mul_mod_idemp_r by lia.
  replace (a * a ^ (Nord - 2)) with (a ^ (Nord - 1)).
  - apply (fermat_little Nord HP). rewrite Z.mod_small by lia. lia.
  - replace (Nord - 1) with (Z.succ (Nord - 2)) by lia. rewrite Z.pow_succ_r by lia. reflexivity.
Qed.

(* the scalar of sm9_*_master_key_extract_key: None exactly when H1 + k = 0 mod N, otherwise the t2
   with t2 (H1 + k) = k mod N that the scheme theorems take as premise *)
Lemma extract_core n t1 ti k s : 1 < n -> t1 = s mod n -> (t1 * ti) mod n = 1 ->
  ((ti * k) mod n * s) mod n = k mod n /\ (s * ti) mod n = 1 mod n.
Proof.
  intros Hn Et Hi. split.
  - rewrite Z.mul_mod_idemp_l by lia. replace (ti * k * s) with (k * (s * ti)) by ring.
    rewrite <- Z.mul_mod_idemp_r by lia. rewrite <- (Z.mul_mod_idemp_l s) by lia. rewrite <- Et, Hi. f_equal; ring.
  - rewrite <- Z.mul_mod_idemp_l by lia. rewrite <- Et, Hi. rewrite Z.mod_small by lia. reflexivity.
Qed.
Lemma extract_t2_ok h1 k : prime Nord -> 0 <= h1 < Nord -> 0 <= k < Nord ->
  match extract_t2 h1 k with
  | None => (h1 + k) mod Nord = 0
  | Some t2 => 0 <= t2 < Nord /\ (t2 * (h1 + k)) mod Nord = k mod Nord /\
               exists t1inv, ((h1 + k) * t1inv) mod Nord = 1 mod Nord /\ t2 = (k * t1inv) mod Nord
  end.
Proof.
  intros HP Hh Hk. pose proof N_facts as [H1 _]. assert (E255 : 0 < 2 ^ 255) by reflexivity.
  assert (HN : 1 < Nord) by lia.
  unfold extract_t2. cbv zeta. rewrite modn_add_ok by assumption.
  pose proof (Z.mod_pos_bound (h1 + k) Nord ltac:(lia)) as Hb.
  destruct (Z.eqb_spec ((h1 + k) mod Nord) 0) as [E | NE]; [exact E |].
  destruct (modn_inv_ok ((h1 + k) mod Nord) HP ltac:(lia)) as [Hi Hinv].
  rewrite modn_mul_ok by assumption.
  destruct (extract_core Nord _ _ k (h1 + k) HN eq_refl Hinv) as [C1 C2].
  split; [apply Z.mod_pos_bound; lia | split; [exact C1 |]].
  exists (modn_inv ((h1 + k) mod Nord)). split; [exact C2 | rewrite Z.mul_comm; reflexivity].
Qed.

(* ------------------------------------------------------------------ H1 / H2 *)
Lemma sm3_bytes m : bytes_okP (sm3 m).
Proof.
  unfold sm3, md_hash, sm3_out. apply Forall_forall. intros x Hx. apply in_flat_map in Hx.
  destruct Hx as (w & _ & Hw). unfold be32 in Hw. cbn [In] in Hw.
  assert (forall y, w8 y < 256)%N as W by (intros y; unfold w8; change 255%N with (N.ones 8); rewrite N.land_ones; apply N.mod_lt; discriminate).
  destruct Hw as [<- | [<- | [<- | [<- | []]]]]; apply W.
Qed.
Lemma in_firstn {A} n (l : list A) x : In x (firstn n l) -> In x l.
Proof. revert l; induction n as [|n IH]; intros [|y l]; cbn; try tauto. intros [->|H]; [left; reflexivity | right; apply IH; exact H]. Qed.
Lemma ha_of_range pfx data : 0 <= ha_of pfx data < 2 ^ 320.
Proof.
  unfold ha_of. cbv zeta. split; [apply N2Z.is_nonneg |].
  set (l := firstn 40 _).
  assert (HB : bytes_okP l).
  { unfold l. apply Forall_forall. intros x Hx. apply in_firstn in Hx. apply in_app_or in Hx.
    destruct Hx as [Hx | Hx]; [exact (proj1 (Forall_forall _ _) (sm3_bytes _) x Hx) | exact (proj1 (Forall_forall _ _) (sm3_bytes _) x Hx)]. }
  assert (HL : length l = 40%nat).
  { unfold l. rewrite firstn_length, app_length, !sm3_len. reflexivity. }
  pose proof (be_to_N_lt l HB) as Hlt. unfold len in Hlt. rewrite HL in Hlt.
  replace (N.of_nat 40) with 40%N in Hlt by reflexivity.
  apply N2Z.inj_lt in Hlt. rewrite N2Z.inj_pow in Hlt.
  assert (E : Z.of_N 256 ^ Z.of_N 40 = 2 ^ 320) by (vm_compute; reflexivity). rewrite E in Hlt. exact Hlt.
Qed.
Lemma sm9_hash1_ok id hid : sm9_hash1_impl id hid = sm9_hash1_spec id hid /\ 1 <= sm9_hash1_impl id hid <= Nord - 1.
Proof.
  unfold sm9_hash1_impl, sm9_hash1_spec. pose proof (ha_of_range 1%N (id ++ hid :: nil)) as H.
  split; [apply from_hash_ok; exact H | apply from_hash_range; exact H].
Qed.
Lemma sm9_hash2_ok m w : sm9_hash2_impl m w = sm9_hash2_spec m w /\ 1 <= sm9_hash2_impl m w <= Nord - 1.
Proof.
  unfold sm9_hash2_impl, sm9_hash2_spec. pose proof (ha_of_range 2%N (m ++ w)) as H.
  split; [apply from_hash_ok; exact H | apply from_hash_range; exact H].
Qed.

(* ------------------------------------------------------------------ sm9_z256_rand_range *)
Lemma rand_range_loop_ok accept tries used draws r k :
  rand_range_loop accept tries used draws = RR_ok r k ->
  accept r = true /\ exists pre post, draws = map Some pre ++ Some r :: post /\ Forall (fun d => accept d = false) pre /\
                                  k = (used + length pre + 1)%nat /\ (length pre < tries)%nat.
Proof.
  revert used draws. induction tries as [|t IH]; intros used draws H; cbn [rand_range_loop] in H; [discriminate |].
  destruct draws as [|[d|] rest]; try discriminate.
  destruct (accept d) eqn:E.
  - injection H as <- <-. split; [exact E |]. exists [], rest. cbn. repeat split; auto; lia.
  - apply IH in H. destruct H as (Ha & pre & post & -> & Hf & -> & Hl). split; [exact Ha |].
    exists (d :: pre), post. cbn [map app length]. repeat split; auto; try lia.
Qed.
(* the value handed to the consumers (r of sign / KEM / exchange, the master keys) is the first draw in
   [1, range-1]; every earlier draw was outside; in particular it is never 0 *)
Lemma rand_range_spec range draws r k : (forall d, In (Some d) draws -> 0 <= d) ->
  rand_range range draws = RR_ok r k ->
  1 <= r <= range - 1 /\
  exists pre post, draws = map Some pre ++ Some r :: post /\ k = (length pre + 1)%nat /\ (k <= 100)%nat /\
                   Forall (fun d => d = 0 \/ range <= d) pre.
Proof.
  intros Hnn H. unfold rand_range in H. apply rand_range_loop_ok in H.
  destruct H as (Ha & pre & post & E & Hf & Hk & Hl).
  apply andb_true_iff in Ha. destruct Ha as [A1 A2]. apply negb_true_iff in A1, A2.
  apply Z.leb_gt in A1. apply Z.eqb_neq in A2.
  assert (0 <= r) by (apply Hnn; rewrite E; apply in_or_app; right; left; reflexivity).
  split; [lia |]. exists pre, post. repeat split; auto; try lia.
  apply Forall_forall. intros d Hd. pose proof (proj1 (Forall_forall _ _) Hf d Hd) as Hd'. cbv beta in Hd'.
  apply andb_false_iff in Hd'. destruct Hd' as [Hd' | Hd']; apply negb_false_iff in Hd'.
  - right. apply Z.leb_le. exact Hd'.
  - left. apply Z.eqb_eq. exact Hd'.
Qed.
Example rand_range_old_zero_refuted :
  rand_range_old Nord [Some 0; Some 5] = RR_ok 0 1 /\ rand_range Nord [Some 0; Some 5] = RR_ok 5 2.
Proof. split; reflexivity. Qed.
