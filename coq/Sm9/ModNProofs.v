(* Proofs about sm9_z256_modn_from_hash (ModN.v). *)
From Coq Require Import ZArith Lia.
From GmVerif Require Import Sm9.Tower Sm9.ModN.
Open Scope Z_scope.

Lemma N_facts : 2 ^ 255 < Nord - 1 /\ Nord < 2 ^ 256. Proof. split; reflexivity. Qed.
Lemma mu_facts : mu_nm1 * (Nord - 1) <= 2 ^ 512 < (mu_nm1 + 1) * (Nord - 1) /\ 0 < mu_nm1.
Proof. repeat split; vm_compute; congruence. Qed.

(* the Spec always lands in [1, N-1] *)
Lemma from_hash_spec_range z : 1 <= from_hash_spec z <= Nord - 1.
Proof.
  unfold from_hash_spec. pose proof N_facts as [H1 H2].
  pose proof (Z.mod_pos_bound z (Nord - 1)). assert (0 < 2 ^ 255) by reflexivity. lia.
Qed.

(* the estimate never exceeds the true quotient and is at most one short *)
Lemma fh_quot_bounds z : 0 <= z < 2 ^ 320 ->
  fh_quot z * (Nord - 1) <= z /\
  z - (fh_quot z + 1) * (Nord - 1) < 2 ^ 192 + 2 ^ 64.
Proof.
  intros Hz. unfold fh_quot.
  pose proof N_facts as [HN1 HN2]. pose proof mu_facts as [[Hm1 Hm2] Hm0].
  set (n1 := Nord - 1) in *. set (mu := mu_nm1) in *.
  set (zh := z / 2 ^ 192).
  assert (E192 : 0 < 2 ^ 192) by reflexivity. assert (E320 : 0 < 2 ^ 320) by reflexivity.
  assert (E255 : 0 < 2 ^ 255) by reflexivity.
  assert (Ep : 2 ^ 512 = 2 ^ 192 * 2 ^ 320) by reflexivity.
  assert (Ep2 : 2 ^ 320 = 2 ^ 192 * 2 ^ 128) by reflexivity.
  assert (Ep3 : 2 ^ 128 * 2 ^ 256 = 2 ^ 64 * 2 ^ 320) by reflexivity.
  assert (E256 : 2 ^ 256 = 2 * 2 ^ 255) by reflexivity.
  pose proof (Z.div_mod z (2 ^ 192) ltac:(lia)) as Hd1. fold zh in Hd1.
  pose proof (Z.mod_pos_bound z (2 ^ 192) E192) as Hb1.
  assert (Hzh0 : 0 <= zh) by (apply Z.div_pos; lia).
  assert (Hzh : zh < 2 ^ 128).
  { apply Z.div_lt_upper_bound; lia. }
  set (q := zh * mu / 2 ^ 320).
  pose proof (Z.div_mod (zh * mu) (2 ^ 320) ltac:(lia)) as Hd2. fold q in Hd2.
  pose proof (Z.mod_pos_bound (zh * mu) (2 ^ 320) E320) as Hb2.
  assert (Hq0 : 0 <= q) by (apply Z.div_pos; nia).
  split.
  - (* q * 2^320 * n1 <= zh * mu * n1 <= zh * 2^512 <= z * 2^320 *)
    assert (q * 2 ^ 320 * n1 <= z * 2 ^ 320).
    { assert (q * 2 ^ 320 <= zh * mu) by lia.
      assert (q * 2 ^ 320 * n1 <= zh * mu * n1) by (apply Z.mul_le_mono_nonneg_r; lia).
      assert (zh * mu * n1 <= zh * 2 ^ 512).
      { replace (zh * mu * n1) with (zh * (mu * n1)) by ring. apply Z.mul_le_mono_nonneg_l; lia. }
      assert (zh * 2 ^ 512 <= z * 2 ^ 320).
      { rewrite Ep. replace (zh * (2 ^ 192 * 2 ^ 320)) with ((2 ^ 192 * zh) * 2 ^ 320) by ring.
        apply Z.mul_le_mono_nonneg_r; lia. }
      lia. }
    nia.
  - (* (q+1) 2^320 > zh mu ;  mu n1 > 2^512 - n1 ;  zh 2^192 > z - 2^192 *)
    assert (H1 : zh * mu < (q + 1) * 2 ^ 320) by lia.
    assert (H2 : zh * mu * n1 < (q + 1) * 2 ^ 320 * n1) by (apply Z.mul_lt_mono_pos_r; lia).
    assert (H3 : zh * (2 ^ 512 - n1) <= zh * mu * n1).
    { replace (zh * mu * n1) with (zh * (mu * n1)) by ring. apply Z.mul_le_mono_nonneg_l; lia. }
    assert (H4 : (z - 2 ^ 192) * 2 ^ 320 < zh * 2 ^ 512).
    { rewrite Ep. replace (zh * (2 ^ 192 * 2 ^ 320)) with ((2 ^ 192 * zh) * 2 ^ 320) by ring.
      apply Z.mul_lt_mono_pos_r; lia. }
    assert (H5 : zh * n1 < 2 ^ 64 * 2 ^ 320).
    { rewrite <- Ep3. apply Z.le_lt_trans with (zh * 2 ^ 256).
      - apply Z.mul_le_mono_nonneg_l; lia.
      - apply Z.mul_lt_mono_pos_r; lia. }
    (* combine: (z - 2^192) 2^320 - 2^64 2^320 < (q+1) 2^320 n1 *)
    assert (H6 : (z - 2 ^ 192 - 2 ^ 64) * 2 ^ 320 < ((q + 1) * n1) * 2 ^ 320) by nia.
    assert (z - 2 ^ 192 - 2 ^ 64 < (q + 1) * n1) by (apply Z.mul_lt_mono_pos_r with (p := 2 ^ 320); lia).
    lia.
Qed.

(* sm9_z256_modn_from_hash (with the correction step of 3d68e44) is the standard's map for EVERY
   320-bit input *)
Lemma from_hash_ok z : 0 <= z < 2 ^ 320 -> from_hash_impl z = from_hash_spec z.
Proof.
  intros Hz. pose proof (fh_quot_bounds z Hz) as [Hlo Hhi].
  unfold from_hash_impl, from_hash_spec. cbv zeta.
  pose proof N_facts as [HN1 HN2]. assert (E255 : 0 < 2 ^ 255) by reflexivity.
  assert (EW : W256 = 2 ^ 256) by reflexivity. assert (E256 : 2 ^ 256 = 2 * 2 ^ 255) by reflexivity.
  assert (E192 : 2 ^ 192 + 2 ^ 64 < 2 ^ 255) by reflexivity.
  assert (Efit : Nord - 1 + (2 ^ 192 + 2 ^ 64) < 2 ^ 256) by reflexivity.
  set (n1 := Nord - 1) in *. set (q := fh_quot z) in *.
  set (d := z - q * n1).
  assert (Hd : 0 <= d < n1 + (2 ^ 192 + 2 ^ 64)).
  { unfold d. replace ((q + 1) * n1) with (q * n1 + n1) in Hhi by ring. generalize dependent (q * n1). intros; lia. }
  assert (Hh : (z mod W256 - (q * n1) mod W256) mod W256 = d).
  { rewrite <- Zminus_mod. fold d. apply Z.mod_small. lia. }
  rewrite Hh.
  assert (Hrem : (if n1 <=? d then d - n1 else d) = z mod n1).
  { destruct (n1 <=? d) eqn:E; [apply Z.leb_le in E | apply Z.leb_gt in E].
    - apply Z.mod_unique with (q + 1); [lia | unfold d; ring].
    - apply Z.mod_unique with q; [lia | unfold d; ring]. }
  rewrite Hrem. pose proof (Z.mod_pos_bound z n1 ltac:(lia)) as Hb.
  unfold modn_add. cbv zeta.
  destruct (W256 <=? z mod n1 + 1) eqn:E1; [apply Z.leb_le in E1; lia |].
  destruct (Nord <=? z mod n1 + 1) eqn:E2; [apply Z.leb_le in E2; lia |]. reflexivity.
Qed.
Lemma from_hash_range z : 0 <= z < 2 ^ 320 -> 1 <= from_hash_impl z <= Nord - 1.
Proof. intros Hz. rewrite (from_hash_ok z Hz). apply from_hash_spec_range. Qed.

(* history: before 3d68e44 there was no correction step: Ha = N-1 was mapped to 0, outside
   [1, N-1], and a residue r < 2^192 to r instead of r+1.  The repaired function is right there. *)
Example from_hash_old_refuted :
  from_hash_impl_old (Nord - 1) = 0 /\ from_hash_spec (Nord - 1) = 1 /\
  from_hash_impl_old (3 * (Nord - 1) + 5) = 5 /\ from_hash_spec (3 * (Nord - 1) + 5) = 6 /\
  from_hash_impl (Nord - 1) = 1 /\ from_hash_impl (3 * (Nord - 1) + 5) = 6.
Proof. split; [| split; [| split; [| split; [| split]]]]; vm_compute; reflexivity. Qed.

(* sm9_z256_modn_add / _sub on reduced operands *)
Lemma modn_add_ok a b : 0 <= a < Nord -> 0 <= b < Nord -> modn_add a b = (a + b) mod Nord.
Proof.
  intros Ha Hb. pose proof N_facts as [H1 H2]. assert (EW : W256 = 2 ^ 256) by reflexivity.
  assert (E : 2 ^ 256 = 2 * 2 ^ 255) by reflexivity. assert (0 < 2 ^ 255) by reflexivity.
  unfold modn_add. cbv zeta.
  destruct (W256 <=? a + b) eqn:E1; [apply Z.leb_le in E1 | apply Z.leb_gt in E1].
  - replace (a + b - W256 + (W256 - Nord)) with (a + b - Nord) by ring.
    rewrite Z.mod_small by lia. apply Z.mod_unique with 1; lia.
  - destruct (Nord <=? a + b) eqn:E2; [apply Z.leb_le in E2 | apply Z.leb_gt in E2].
    + apply Z.mod_unique with 1; lia.
    + symmetry. apply Z.mod_small; lia.
Qed.
Lemma modn_sub_ok a b : 0 <= a < Nord -> 0 <= b < Nord -> modn_sub a b = (a - b) mod Nord.
Proof.
  intros Ha Hb. pose proof N_facts as [H1 H2]. assert (EW : W256 = 2 ^ 256) by reflexivity.
  assert (E : 2 ^ 256 = 2 * 2 ^ 255) by reflexivity. assert (0 < 2 ^ 255) by reflexivity.
  unfold modn_sub.
  destruct (a <? b) eqn:E1; [apply Z.ltb_lt in E1 | apply Z.ltb_ge in E1].
  - replace (a - b + W256 - (W256 - Nord)) with (a - b + Nord) by ring.
    rewrite Z.mod_small by lia. apply Z.mod_unique with (-1); lia.
  - symmetry. apply Z.mod_small; lia.
Qed.
