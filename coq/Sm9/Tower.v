(* SM9 field tower Fp -> Fp2 = Fp[u]/(u^2+2) -> Fp4 = Fp2[v]/(v^2-u) -> Fp12 = Fp4[w]/(w^3-v)
   as coded in src/sm9_z256.c.

   Two layers.
   * Impl (prefix f / I2 / I4 / I12): the formulas of the C functions, statement by statement
     (Karatsuba products, the special squarings, the branchy inversions, square-and-multiply
     powers, the Frobenius maps with their constants).  A field element is the integer held
     by the C code *with the Montgomery factor removed*; the C code keeps x*2^256 mod p, and
     every operation used here commutes with that bijection (see DESIGN 4/C17).  The one
     representation effect that is kept is the non-canonical zero p, which sm9_z256_is_zero
     (a bitwise test, [fis_zero]) does not recognise: the operations are defined on [0,p], they
     map [0,p) into [0,p) (TowerProofs/C17Lemmas), and only sm9_z256_modp_sub(p,0) can
     reproduce p.  Before c2dbe37 sm9_z256_modp_neg(0) returned p ([fneg_old]).
   * Spec (prefix S2 / S4 / S12): the quotient rings over Z with exact integer coefficients:
     schoolbook polynomial product followed by the reduction u^2=-2, v^2=u, w^3=v.
     Reduction modulo p is applied componentwise by [canon*].
   TowerProofs.v proves canon (Impl op) = canon (Spec op) for all integers. *)
From Coq Require Import ZArith List Bool.
Import ListNotations.
Open Scope Z_scope.

Definition p : Z := 0xb640000002a3a6f1d603ab4ff58ec74521f2934b1a7aeedbe56f9b27e351457d.
Definition Nord : Z := 0xb640000002a3a6f1d603ab4ff58ec74449f2934b18ea8beee56ee19cd69ecf25.
(* 2^-256 mod p: the Montgomery factor of sm9_z256_modp_mont_mul *)
Definition Rinv : Z := 0x7d2bc576fdf597d1cda02d92d4d62924e74504e9a96b56cc0a1c7970e5df544d.
Definition inv2 : Z := 0x5b2000000151d378eb01d5a7fac763a290f949a58d3d776df2b7cd93f1a8a2bf.

(* ------------------------------------------------------------------ Fp, Impl *)
(* sm9_z256_modp_add: one conditional subtraction (carry or r >= p) *)
Definition fadd (x y : Z) : Z := let s := x + y in if p <=? s then s - p else s.
(* sm9_z256_modp_sub: add p back on borrow *)
Definition fsub (x y : Z) : Z := if x <? y then x - y + p else x - y.
(* sm9_z256_modp_neg (since c2dbe37): p - a, then one conditional subtraction, so neg 0 = 0 *)
Definition fneg (x : Z) : Z := let r := p - x in if p <=? r then r - p else r.
(* the formula before c2dbe37 (p - a, not reduced: neg 0 = p); kept for the named Examples only *)
Definition fneg_old (x : Z) : Z := p - x.
Definition fdbl (x : Z) : Z := fadd x x.
Definition ftri (x : Z) : Z := fadd (fadd x x) x.
(* sm9_z256_modp_haf: (a + (a odd ? p : 0)) >> 1 on 257 bits *)
Definition fhaf (x : Z) : Z := if Z.odd x then (x + p) / 2 else x / 2.
(* sm9_z256_modp_mont_mul with the Montgomery factor removed; result always canonical *)
Definition fmul (x y : Z) : Z := (x * y) mod p.
Definition fsqr (x : Z) : Z := fmul x x.
(* the literal Montgomery product on raw representatives (Fp-level correspondence only) *)
Definition fmont (x y : Z) : Z := (x * y * Rinv) mod p.
Definition fis_zero (x : Z) : bool := x =? 0.

(* left-to-right square-and-multiply, as in sm9_z256_modp_mont_pow / modn_pow / fp12_pow:
   recursion on [positive] visits the bits from the most significant one down; the leading
   zero bits of the fixed 256-iteration C loop only square the unit. *)
Section Pow.
  Context {A : Type} (sqr : A -> A) (mul : A -> A -> A) (one : A).
  Fixpoint gpow_pos (x : A) (e : positive) : A :=
    match e with
    | xH => mul (sqr one) x
    | xO e' => sqr (gpow_pos x e')
    | xI e' => mul (sqr (gpow_pos x e')) x
    end.
  Definition gpow (x : A) (e : Z) : A :=
    match e with Zpos q => gpow_pos x q | _ => one end.
End Pow.

Definition fpow (x e : Z) : Z := gpow fsqr fmul 1 x e.
(* sm9_z256_modp_mont_inv: a^(p-2) *)
Definition finv (x : Z) : Z := fpow x (p - 2).

(* ------------------------------------------------------------------ Fp2, Impl *)
Definition T2 := (Z * Z)%type.
Definition I2zero : T2 := (0, 0).
Definition I2one : T2 := (1, 0).
Definition I2is_zero (a : T2) : bool := fis_zero (fst a) && fis_zero (snd a).
Definition I2add (a b : T2) : T2 := (fadd (fst a) (fst b), fadd (snd a) (snd b)).
Definition I2dbl (a : T2) : T2 := (fdbl (fst a), fdbl (snd a)).
Definition I2tri (a : T2) : T2 := (ftri (fst a), ftri (snd a)).
Definition I2sub (a b : T2) : T2 := (fsub (fst a) (fst b), fsub (snd a) (snd b)).
Definition I2neg (a : T2) : T2 := (fneg (fst a), fneg (snd a)).
Definition I2haf (a : T2) : T2 := (fhaf (fst a), fhaf (snd a)).
Definition I2conj (a : T2) : T2 := (fst a, fneg (snd a)).
(* sm9_z256_fp2_a_mul_u *)
Definition I2a_mul_u (a : T2) : T2 := let r0 := fneg (fdbl (snd a)) in (r0, fst a).
(* sm9_z256_fp2_mul *)
Definition I2mul (a b : T2) : T2 :=
  let '(a0, a1) := a in let '(b0, b1) := b in
  let t0 := fadd a0 a1 in
  let t1 := fadd b0 b1 in
  let t2 := fmul t0 t1 in
  let t0 := fmul a0 b0 in
  let t1 := fmul a1 b1 in
  let t2 := fsub t2 t0 in
  let t2 := fsub t2 t1 in
  let t1 := fdbl t1 in
  let t0 := fsub t0 t1 in
  (t0, t2).
(* sm9_z256_fp2_mul_u : a*b*u *)
Definition I2mul_u (a b : T2) : T2 :=
  let '(a0, a1) := a in let '(b0, b1) := b in
  let t0 := fadd a0 a1 in
  let t1 := fadd b0 b1 in
  let t2 := fmul t0 t1 in
  let t0 := fmul a0 b0 in
  let t1 := fmul a1 b1 in
  let t2 := fsub t2 t0 in
  let t2 := fsub t2 t1 in
  let t2 := fdbl t2 in
  let t2 := fneg t2 in
  let t1 := fdbl t1 in
  let t0 := fsub t0 t1 in
  (t2, t0).
Definition I2mul_fp (a : T2) (k : Z) : T2 := (fmul (fst a) k, fmul (snd a) k).
(* sm9_z256_fp2_sqr *)
Definition I2sqr (a : T2) : T2 :=
  let '(a0, a1) := a in
  let r1 := fmul a0 a1 in
  let c0 := fadd a0 a1 in
  let c1 := fdbl a1 in
  let c1 := fsub a0 c1 in
  let r0 := fmul c0 c1 in
  let r0 := fadd r0 r1 in
  let r1 := fdbl r1 in
  (r0, r1).
(* sm9_z256_fp2_sqr_u : a^2*u *)
Definition I2sqr_u (a : T2) : T2 :=
  let '(a0, a1) := a in
  let t0 := fmul a0 a1 in
  let t1 := fadd a0 a1 in
  let t2 := fsub a0 a1 in
  let t2 := fsub t2 a1 in
  let t2 := fmul t2 t1 in
  let t2 := fadd t2 t0 in
  let t0 := fdbl t0 in
  let t0 := fdbl t0 in
  let t0 := fneg t0 in
  (t0, t2).
(* sm9_z256_fp2_inv : three branches on the bitwise zero tests *)
Definition I2inv (a : T2) : T2 :=
  let '(a0, a1) := a in
  if fis_zero a0 then (0, fneg (finv (fdbl a1)))
  else if fis_zero a1 then (finv a0, 0)
  else
    let k := fsqr a0 in
    let t := fsqr a1 in
    let t := fdbl t in
    let k := fadd k t in
    let k := finv k in
    (fmul a0 k, fneg (fmul a1 k)).
Definition I2div (a b : T2) : T2 := I2mul a (I2inv b).

(* ------------------------------------------------------------------ Fp4, Impl *)
Definition T4 := (T2 * T2)%type.
Definition I4zero : T4 := (I2zero, I2zero).
Definition I4one : T4 := (I2one, I2zero).
Definition I4is_zero (a : T4) : bool := I2is_zero (fst a) && I2is_zero (snd a).
Definition I4add (a b : T4) : T4 := (I2add (fst a) (fst b), I2add (snd a) (snd b)).
Definition I4dbl (a : T4) : T4 := (I2dbl (fst a), I2dbl (snd a)).
Definition I4sub (a b : T4) : T4 := (I2sub (fst a) (fst b), I2sub (snd a) (snd b)).
Definition I4neg (a : T4) : T4 := (I2neg (fst a), I2neg (snd a)).
Definition I4haf (a : T4) : T4 := (I2haf (fst a), I2haf (snd a)).
Definition I4conj (a : T4) : T4 := (fst a, I2neg (snd a)).
(* sm9_z256_fp4_a_mul_v : (a0 + a1 v) v = a1 u + a0 v *)
Definition I4a_mul_v (a : T4) : T4 := (I2a_mul_u (snd a), fst a).
(* sm9_z256_fp4_mul *)
Definition I4mul (a b : T4) : T4 :=
  let '(a0, a1) := a in let '(b0, b1) := b in
  let r0 := I2add a0 a1 in
  let t := I2add b0 b1 in
  let r1 := I2mul t r0 in
  let r0 := I2mul a0 b0 in
  let t := I2mul a1 b1 in
  let r1 := I2sub r1 r0 in
  let r1 := I2sub r1 t in
  let t := I2a_mul_u t in
  let r0 := I2add r0 t in
  (r0, r1).
Definition I4mul_fp (a : T4) (k : Z) : T4 := (I2mul_fp (fst a) k, I2mul_fp (snd a) k).
Definition I4mul_fp2 (a : T4) (b0 : T2) : T4 := (I2mul (fst a) b0, I2mul (snd a) b0).
(* sm9_z256_fp4_mul_v : a*b*v *)
Definition I4mul_v (a b : T4) : T4 :=
  let '(a0, a1) := a in let '(b0, b1) := b in
  let r0 := I2mul_u a0 b1 in
  let t := I2mul_u a1 b0 in
  let r0 := I2add r0 t in
  let r1 := I2mul a0 b0 in
  let t := I2mul_u a1 b1 in
  let r1 := I2add r1 t in
  (r0, r1).
(* sm9_z256_fp4_sqr *)
Definition I4sqr (a : T4) : T4 :=
  let '(a0, a1) := a in
  let r1 := I2add a0 a1 in
  let r1 := I2sqr r1 in
  let r0 := I2sqr a0 in
  let t := I2sqr a1 in
  let r1 := I2sub r1 r0 in
  let r1 := I2sub r1 t in
  let t := I2a_mul_u t in
  let r0 := I2add r0 t in
  (r0, r1).
(* sm9_z256_fp4_sqr_v : a^2*v *)
Definition I4sqr_v (a : T4) : T4 :=
  let '(a0, a1) := a in
  let t := I2mul_u a0 a1 in
  let r0 := I2dbl t in
  let r1 := I2sqr a0 in
  let t := I2sqr_u a1 in
  let r1 := I2add r1 t in
  (r0, r1).
(* sm9_z256_fp4_inv *)
Definition I4inv (a : T4) : T4 :=
  let '(a0, a1) := a in
  let k := I2sqr_u a1 in
  let r0 := I2sqr a0 in
  let k := I2sub k r0 in
  let k := I2inv k in
  let r0 := I2mul a0 k in
  let r0 := I2neg r0 in
  let r1 := I2mul a1 k in
  (r0, r1).

(* Frobenius constants (Montgomery factor removed; the C table is SM9_MONT_BETA / ALPHA1..5) *)
Definition beta : Z := 0x6c648de5dc0a3f2cf55acc93ee0baf159f9d411806dc5177f5b21fd3da24d011.
Definition alpha1 : Z := 0x3f23ea58e5720bdb843c6cfa9c08674947c5c86e0ddd04eda91d8354377b698b.
Definition alpha2 : Z := 0xf300000002a3a6f2780272354f8b78f4d5fc11967be65334.
Definition alpha3 : Z := 0x6c648de5dc0a3f2cf55acc93ee0baf159f9d411806dc5177f5b21fd3da24d011.
Definition alpha4 : Z := 0xf300000002a3a6f2780272354f8b78f4d5fc11967be65333.
Definition alpha5 : Z := 0x2d40a38cf6983351711e5f99520347cc57d778a9f8ff4c8a4c949c7fa2a96686.
Definition BETA2 : T2 := (beta, 0).

Definition I4frobenius (a : T4) : T4 :=
  (I2conj (fst a), I2mul (I2conj (snd a)) BETA2).
Definition I4frobenius2 (a : T4) : T4 := I4conj a.
Definition I4frobenius3 (a : T4) : T4 :=
  (I2conj (fst a), I2neg (I2mul (I2conj (snd a)) BETA2)).

(* ------------------------------------------------------------------ Fp12, Impl *)
Definition T12 := (T4 * T4 * T4)%type.
Definition I12zero : T12 := (I4zero, I4zero, I4zero).
Definition I12one : T12 := (I4one, I4zero, I4zero).
Definition c0 (a : T12) : T4 := fst (fst a).
Definition c1 (a : T12) : T4 := snd (fst a).
Definition c2 (a : T12) : T4 := snd a.
Definition I12add (a b : T12) : T12 := (I4add (c0 a) (c0 b), I4add (c1 a) (c1 b), I4add (c2 a) (c2 b)).
Definition I12dbl (a : T12) : T12 := (I4dbl (c0 a), I4dbl (c1 a), I4dbl (c2 a)).
Definition I12tri (a : T12) : T12 := I12add (I12dbl a) a.
Definition I12sub (a b : T12) : T12 := (I4sub (c0 a) (c0 b), I4sub (c1 a) (c1 b), I4sub (c2 a) (c2 b)).
Definition I12neg (a : T12) : T12 := (I4neg (c0 a), I4neg (c1 a), I4neg (c2 a)).
(* sm9_z256_fp12_mul *)
Definition I12mul (a b : T12) : T12 :=
  let '(a0, a1, a2) := a in let '(b0, b1, b2) := b in
  let m0 := I4mul a0 b0 in
  let m1 := I4mul a1 b1 in
  let m2 := I4mul a2 b2 in
  let k0 := I4add a1 a2 in
  let k1 := I4add b1 b2 in
  let t := I4mul k0 k1 in
  let t := I4sub t m1 in
  let t := I4sub t m2 in
  let t := I4a_mul_v t in
  let r0 := I4add t m0 in
  let k0 := I4add a0 a2 in
  let k1 := I4add b0 b2 in
  let t := I4mul k0 k1 in
  let t := I4sub t m0 in
  let t := I4sub t m2 in
  let r2 := I4add t m1 in
  let k0 := I4add a0 a1 in
  let k1 := I4add b0 b1 in
  let t := I4mul k0 k1 in
  let t := I4sub t m0 in
  let t := I4sub t m1 in
  let m2 := I4a_mul_v m2 in
  let r1 := I4add t m2 in
  (r0, r1, r2).
(* sm9_z256_fp12_sqr (the compiled #else version) *)
Definition I12sqr (a : T12) : T12 :=
  let '(a0, a1, a2) := a in
  let h0 := I4sqr a0 in
  let h1 := I4sqr a2 in
  let s0 := I4add a2 a0 in
  let t := I4sub s0 a1 in
  let s1 := I4sqr t in
  let t := I4add s0 a1 in
  let s0 := I4sqr t in
  let s2 := I4mul a1 a2 in
  let s2 := I4dbl s2 in
  let s3 := I4add s0 s1 in
  let s3 := I4haf s3 in
  let t := I4sub s3 h1 in
  let h2 := I4sub t h0 in
  let h1 := I4a_mul_v h1 in
  let h1 := I4add h1 s0 in
  let h1 := I4sub h1 s2 in
  let h1 := I4sub h1 s3 in
  let s2 := I4a_mul_v s2 in
  let h0 := I4add h0 s2 in
  (h0, h1, h2).
(* sm9_z256_fp12_inv : two branches on the bitwise zero test of a[2] *)
Definition I12inv (a : T12) : T12 :=
  let '(a0, a1, a2) := a in
  if I4is_zero a2 then
    let k := I4sqr a0 in
    let k := I4mul k a0 in
    let t := I4sqr_v a1 in
    let t := I4mul t a1 in
    let k := I4add k t in
    let k := I4inv k in
    let r2 := I4sqr a1 in
    let r2 := I4mul r2 k in
    let r1 := I4mul a0 a1 in
    let r1 := I4mul r1 k in
    let r1 := I4neg r1 in
    let r0 := I4sqr a0 in
    let r0 := I4mul r0 k in
    (r0, r1, r2)
  else
    let t0 := I4sqr a1 in
    let t1 := I4mul a0 a2 in
    let t0 := I4sub t0 t1 in
    let t1 := I4mul a0 a1 in
    let t2 := I4sqr_v a2 in
    let t1 := I4sub t1 t2 in
    let t2 := I4sqr a0 in
    let t3 := I4mul_v a1 a2 in
    let t2 := I4sub t2 t3 in
    let t3 := I4sqr t1 in
    let r0 := I4mul t0 t2 in
    let t3 := I4sub t3 r0 in
    let t3 := I4inv t3 in
    let t3 := I4mul a2 t3 in
    let r0 := I4mul t2 t3 in
    let r1 := I4mul t1 t3 in
    let r1 := I4neg r1 in
    let r2 := I4mul t0 t3 in
    (r0, r1, r2).
(* sm9_z256_fp12_pow; the C code asserts k < N-1 (modelled by the caller / the harness) *)
Definition I12pow (a : T12) (k : Z) : T12 := gpow I12sqr I12mul I12one a k.

(* sm9_z256_fp12_frobenius, _frobenius2, _frobenius3, _frobenius6 *)
Definition I12frobenius (x : T12) : T12 :=
  let '(xa, xb, xc) := x in
  let ra := (I2conj (fst xa), I2mul_fp (I2conj (snd xa)) alpha3) in
  let rb := (I2mul_fp (I2conj (fst xb)) alpha1, I2mul_fp (I2conj (snd xb)) alpha4) in
  let rc := (I2mul_fp (I2conj (fst xc)) alpha2, I2mul_fp (I2conj (snd xc)) alpha5) in
  (ra, rb, rc).
Definition I12frobenius2 (x : T12) : T12 :=
  let '(xa, xb, xc) := x in
  (I4conj xa, I4mul_fp (I4conj xb) alpha2, I4mul_fp (I4conj xc) alpha4).
Definition I12frobenius3 (x : T12) : T12 :=
  let '(xa, xb, xc) := x in
  let ra := (I2conj (fst xa), I2neg (I2mul (I2conj (snd xa)) BETA2)) in
  let rb := (I2mul (I2conj (fst xb)) BETA2, I2conj (snd xb)) in
  let rc := (I2neg (I2conj (fst xc)), I2mul (I2conj (snd xc)) BETA2) in
  (ra, rb, rc).
Definition I12frobenius6 (x : T12) : T12 :=
  let '(xa, xb, xc) := x in
  (I4conj xa, I4neg (I4conj xb), I4conj xc).
(* sm9_z256_fp12_line_mul : a * (l0 + l1 w^2 + l2 w^3) *)
Definition I12line_mul (a : T12) (l0 l1 l2 : T2) : T12 :=
  let '(a0, a1, a2) := a in
  let lw4 : T4 := (l0, l2) in
  let r0 := I4mul a0 lw4 in
  let r1 := I4mul a1 lw4 in
  let r2 := I4mul a2 lw4 in
  let r2 := (I2add (fst r2) (I2mul (fst a0) l1), snd r2) in
  let r2 := (fst r2, I2add (snd r2) (I2mul (snd a0) l1)) in
  let r0 := (fst r0, I2add (snd r0) (I2mul (fst a1) l1)) in
  let r0 := (I2add (fst r0) (I2mul_u (snd a1) l1), snd r0) in
  let r1 := (fst r1, I2add (snd r1) (I2mul (fst a2) l1)) in
  let r1 := (I2add (fst r1) (I2mul_u (snd a2) l1), snd r1) in
  (r0, r1, r2).

(* ------------------------------------------------------------------ Spec: exact quotient rings over Z *)
(* Z[u]/(u^2+2) *)
Definition S2zero : T2 := (0, 0).
Definition S2one : T2 := (1, 0).
Definition S2u : T2 := (0, 1).
Definition S2add (a b : T2) : T2 := (fst a + fst b, snd a + snd b).
Definition S2sub (a b : T2) : T2 := (fst a - fst b, snd a - snd b).
Definition S2neg (a : T2) : T2 := (- fst a, - snd a).
(* schoolbook (a0 + a1 u)(b0 + b1 u) = a0 b0 + (a0 b1 + a1 b0) u + a1 b1 u^2, then u^2 = -2 *)
Definition S2mul (a b : T2) : T2 :=
  let d0 := fst a * fst b in
  let d1 := fst a * snd b + snd a * fst b in
  let d2 := snd a * snd b in
  (d0 - 2 * d2, d1).
Definition S2scale (k : Z) (a : T2) : T2 := (k * fst a, k * snd a).
Definition S2conj (a : T2) : T2 := (fst a, - snd a).
(* Z[u,v]/(u^2+2, v^2-u) *)
Definition S4zero : T4 := (S2zero, S2zero).
Definition S4one : T4 := (S2one, S2zero).
Definition S4v : T4 := (S2zero, S2one).
Definition S4add (a b : T4) : T4 := (S2add (fst a) (fst b), S2add (snd a) (snd b)).
Definition S4sub (a b : T4) : T4 := (S2sub (fst a) (fst b), S2sub (snd a) (snd b)).
Definition S4neg (a : T4) : T4 := (S2neg (fst a), S2neg (snd a)).
Definition S4mul (a b : T4) : T4 :=
  let d0 := S2mul (fst a) (fst b) in
  let d1 := S2add (S2mul (fst a) (snd b)) (S2mul (snd a) (fst b)) in
  let d2 := S2mul (snd a) (snd b) in
  (S2add d0 (S2mul S2u d2), d1).
Definition S4scale2 (k : T2) (a : T4) : T4 := (S2mul k (fst a), S2mul k (snd a)).
Definition S4scale (k : Z) (a : T4) : T4 := (S2scale k (fst a), S2scale k (snd a)).
Definition S4conj (a : T4) : T4 := (fst a, S2neg (snd a)).
(* Z[u,v,w]/(u^2+2, v^2-u, w^3-v) *)
Definition S12zero : T12 := (S4zero, S4zero, S4zero).
Definition S12one : T12 := (S4one, S4zero, S4zero).
Definition S12add (a b : T12) : T12 := (S4add (c0 a) (c0 b), S4add (c1 a) (c1 b), S4add (c2 a) (c2 b)).
Definition S12sub (a b : T12) : T12 := (S4sub (c0 a) (c0 b), S4sub (c1 a) (c1 b), S4sub (c2 a) (c2 b)).
Definition S12neg (a : T12) : T12 := (S4neg (c0 a), S4neg (c1 a), S4neg (c2 a)).
(* schoolbook product of two quadratics in w (five coefficients), then w^3 = v *)
Definition S12mul (a b : T12) : T12 :=
  let d0 := S4mul (c0 a) (c0 b) in
  let d1 := S4add (S4mul (c0 a) (c1 b)) (S4mul (c1 a) (c0 b)) in
  let d2 := S4add (S4add (S4mul (c0 a) (c2 b)) (S4mul (c1 a) (c1 b))) (S4mul (c2 a) (c0 b)) in
  let d3 := S4add (S4mul (c1 a) (c2 b)) (S4mul (c2 a) (c1 b)) in
  let d4 := S4mul (c2 a) (c2 b) in
  (S4add d0 (S4mul S4v d3), S4add d1 (S4mul S4v d4), d2).
(* the line value l0 + l1 w^2 + l2 w^3 = (l0 + l2 v) + 0 w + l1 w^2 *)
Definition S12line (l0 l1 l2 : T2) : T12 := ((l0, l2), S4zero, (l1, S2zero)).

(* componentwise reduction mod p: what fp*_to_bytes prints *)
Definition canon2 (a : T2) : T2 := (fst a mod p, snd a mod p).
Definition canon4 (a : T4) : T4 := (canon2 (fst a), canon2 (snd a)).
Definition canon12 (a : T12) : T12 := (canon4 (c0 a), canon4 (c1 a), canon4 (c2 a)).

(* reduced Spec operations, for running the Spec (coefficients stay below p) *)
Definition R12mul (a b : T12) : T12 := canon12 (S12mul a b).
Definition R12pow (a : T12) (k : Z) : T12 := gpow (fun x => R12mul x x) R12mul S12one a k.
Definition R4mul (a b : T4) : T4 := canon4 (S4mul a b).
Definition R2mul (a b : T2) : T2 := canon2 (S2mul a b).
Definition R4pow (a : T4) (k : Z) : T4 := gpow (fun x => R4mul x x) R4mul S4one a k.
Definition R2pow (a : T2) (k : Z) : T2 := gpow (fun x => R2mul x x) R2mul S2one a k.

(* ------------------------------------------------------------------ Spec inverses, by norms
   (independent of the branch structure of the C code and of Fermat's theorem: the base-field
   inverse is the Bezout coefficient of the extended Euclidean algorithm).  Used by the
   correspondence driver as the expected value of the inversion operations. *)
Fixpoint egcd (fuel : nat) (r0 r1 s0 s1 : Z) : Z * Z :=
  match fuel with
  | O => (r0, s0)
  | S f => if r1 =? 0 then (r0, s0)
           else let q := r0 / r1 in egcd f r1 (r0 - q * r1) s1 (s0 - q * s1)
  end.
(* s with s * x = gcd(x mod p, p) (mod p); the inverse of x when that gcd is 1; 0 for x = 0 *)
Definition Sfinv (x : Z) : Z :=
  if x mod p =? 0 then 0 else snd (egcd 800 (x mod p) p 1 0) mod p.
Definition S2inv (a : T2) : T2 :=
  let n := (fst a * fst a + 2 * (snd a * snd a)) mod p in
  let i := Sfinv n in
  ((fst a * i) mod p, (- snd a * i) mod p).
Definition S4inv (a : T4) : T4 :=
  let n := canon2 (S2sub (S2mul (fst a) (fst a)) (S2mul S2u (S2mul (snd a) (snd a)))) in
  let i := S2inv n in
  (R2mul (fst a) i, R2mul (S2neg (snd a)) i).
Definition S12inv (a : T12) : T12 :=
  let a0 := c0 a in let a1 := c1 a in let a2 := c2 a in
  let A := canon4 (S4sub (S4mul a0 a0) (S4mul S4v (S4mul a1 a2))) in
  let B := canon4 (S4sub (S4mul S4v (S4mul a2 a2)) (S4mul a0 a1)) in
  let C := canon4 (S4sub (S4mul a1 a1) (S4mul a0 a2)) in
  let F := canon4 (S4add (S4mul a0 A) (S4mul S4v (S4add (R4mul a2 B) (R4mul a1 C)))) in
  let i := S4inv F in
  (R4mul A i, R4mul B i, R4mul C i).

(* ------------------------------------------------------------------ Spec Frobenius maps
   x -> x^(p^j) written on the basis 1, w, .., w^5 of Fp12 over Fp2 (w^6 = u):
   (sum z_i w^i)^(p^j) = sum conj^j(z_i) * s^i * w^i  with  s = w^(p^j - 1) = (-2)^((p^j-1)/12) in Fp,
   and on the basis 1, v of Fp4 over Fp2:  s = v^(p^j - 1) = (-2)^((p^j-1)/4).
   The constants are COMPUTED from p here (the C code and the Impl model use a stored table). *)
Definition frob_const (j d : Z) : Z := fpow (p - 2) ((p ^ j - 1) / d).
Definition S2cj (j : Z) (z : T2) : T2 := if Z.odd j then S2conj z else z.
Definition S4frob (j : Z) (a : T4) : T4 :=
  let s := frob_const j 4 in
  canon4 (S2cj j (fst a), S2scale s (S2cj j (snd a))).
Definition S12frob (j : Z) (x : T12) : T12 :=
  let s := frob_const j 12 in
  let f (i : Z) (z : T2) := S2scale (fpow s i) (S2cj j z) in
  canon12 ((f 0 (fst (c0 x)), f 3 (snd (c0 x))),
           (f 1 (fst (c1 x)), f 4 (snd (c1 x))),
           (f 2 (fst (c2 x)), f 5 (snd (c2 x)))).

(* ------------------------------------------------------------------ predicates (bitwise, as sm9_z256_equ / _is_zero) *)
Definition I2equ (a b : T2) : bool := (fst a =? fst b) && (snd a =? snd b).
Definition I2is_one (a : T2) : bool := (fst a =? 1) && (snd a =? 0).
Definition I4equ (a b : T4) : bool := I2equ (fst a) (fst b) && I2equ (snd a) (snd b).
Definition I12equ (a b : T12) : bool := I4equ (c0 a) (c0 b) && I4equ (c1 a) (c1 b) && I4equ (c2 a) (c2 b).
