(* The Frobenius maps of src/sm9_z256.c (fp4_frobenius/2/3, fp12_frobenius/2/3/6) equal the
   Spec maps S4frob j / S12frob j of Tower.v:
       sum z_i w^i  |->  sum conj^j(z_i) * s^i * w^i,   s = (-2)^((p^j - 1)/12)   (Fp12 over Fp2)
       a0 + a1 v    |->  conj^j(a0) + conj^j(a1) * t v,  t = (-2)^((p^j - 1)/4)    (Fp4 over Fp2)
   whose constants are COMPUTED from p.  The stored table of the C code (alpha1..5, beta) and its
   sign conventions (conjugations / negations instead of multiplications by -1) are checked
   against these powers by vm_compute; the rest is linear algebra mod p.
   Not proved: that these Spec maps are x -> x^(p^j) (needs the binomial theorem mod p); that is
   tested by the correspondence (fp4/fp12 frobpow). *)
From Coq Require Import ZArith Lia List Bool Ring Setoid Morphisms.
From GmVerif Require Import Sm9.Tower Sm9.TowerProofs Sm9.TowerInv.
Open Scope Z_scope.

(* ---- the constants *)
Lemma fc12_1 : frob_const 1 12 = alpha1. Proof. vm_compute. reflexivity. Qed.
Lemma fc12_2 : frob_const 2 12 = alpha2. Proof. vm_compute. reflexivity. Qed.
Lemma fc12_3 : frob_const 3 12 = alpha3. Proof. vm_compute. reflexivity. Qed.
Lemma fc12_6 : frob_const 6 12 = p - 1. Proof. vm_compute. reflexivity. Qed.
Lemma fc4_1 : frob_const 1 4 = beta. Proof. vm_compute. reflexivity. Qed.
Lemma fc4_2 : frob_const 2 4 = p - 1. Proof. vm_compute. reflexivity. Qed.
Lemma fc4_3 : frob_const 3 4 = p - beta. Proof. vm_compute. reflexivity. Qed.

Lemma pw1 : fpow alpha1 0 = 1 /\ fpow alpha1 1 = alpha1 /\ fpow alpha1 2 = alpha2 /\ fpow alpha1 3 = alpha3 /\
            fpow alpha1 4 = alpha4 /\ fpow alpha1 5 = alpha5.
Proof. repeat (split; [vm_compute; reflexivity |]). vm_compute; reflexivity. Qed.
Lemma pw2 : fpow alpha2 0 = 1 /\ fpow alpha2 1 = alpha2 /\ fpow alpha2 2 = alpha4 /\ fpow alpha2 3 = p - 1 /\
            fpow alpha2 4 = p - alpha2 /\ fpow alpha2 5 = p - alpha4.
Proof. repeat (split; [vm_compute; reflexivity |]). vm_compute; reflexivity. Qed.
Lemma pw3 : fpow alpha3 0 = 1 /\ fpow alpha3 1 = beta /\ fpow alpha3 2 = p - 1 /\ fpow alpha3 3 = p - beta /\
            fpow alpha3 4 = 1 /\ fpow alpha3 5 = beta.
Proof. repeat (split; [vm_compute; reflexivity |]). vm_compute; reflexivity. Qed.
Lemma pw6 : fpow (p - 1) 0 = 1 /\ fpow (p - 1) 1 = p - 1 /\ fpow (p - 1) 2 = 1 /\ fpow (p - 1) 3 = p - 1 /\
            fpow (p - 1) 4 = 1 /\ fpow (p - 1) 5 = p - 1.
Proof. repeat (split; [vm_compute; reflexivity |]). vm_compute; reflexivity. Qed.

#[local] Opaque p alpha1 alpha2 alpha3 alpha4 alpha5 beta.

Lemma pm x : p - x == - x.
Proof. replace (p - x) with (- x + p) by ring. apply eqp_plus_p. Qed.

(* close a coefficient goal  Impl == K * z  (or with conjugation) *)
Ltac coef := eapply eqp_trans; [ frel | rewrite ?pm; apply eqp_of_eq; ring ].

Ltac splits := repeat match goal with |- _ /\ _ => split end.
Ltac d12' x := destruct x as [[[[a00 a01] [a02 a03]] [[a10 a11] [a12 a13]]] [[a20 a21] [a22 a23]]].

Theorem fp2_frobenius_ok (a : T2) : canon2 (I2conj a) = canon2 (S2cj 1 a).
Proof. apply rel2_canon. cbn [S2cj Z.odd]. apply I2conj_ok, rel2_refl. Qed.

Theorem fp4_frobenius_ok (a : T4) :
  canon4 (I4frobenius a) = S4frob 1 a /\ canon4 (I4frobenius2 a) = S4frob 2 a /\ canon4 (I4frobenius3 a) = S4frob 3 a.
Proof.
  destruct a as [[a0 a1] [a2 a3]].
  unfold S4frob. rewrite fc4_1, fc4_2, fc4_3. cbv zeta. cbn [S2cj Z.odd Pos.pred_double].
  split; [| split]; apply rel4_canon;
    unfold I4frobenius, I4frobenius2, I4frobenius3, I4conj, I2conj, I2neg, I2mul, BETA2, S2conj, S2scale, rel4, rel2;
    cbn [fst snd]; splits; coef.
Qed.

Theorem fp12_frobenius_ok (x : T12) :
  canon12 (I12frobenius x) = S12frob 1 x /\ canon12 (I12frobenius2 x) = S12frob 2 x /\
  canon12 (I12frobenius3 x) = S12frob 3 x /\ canon12 (I12frobenius6 x) = S12frob 6 x.
Proof.
  d12' x. destruct pw1 as (A0 & A1 & A2 & A3 & A4 & A5). destruct pw2 as (B0 & B1 & B2 & B3 & B4 & B5).
  destruct pw3 as (C0 & C1 & C2 & C3 & C4 & C5). destruct pw6 as (D0 & D1 & D2 & D3 & D4 & D5).
  unfold S12frob. rewrite fc12_1, fc12_2, fc12_3, fc12_6. cbv zeta. unfold c0, c1, c2. cbn [fst snd].
  rewrite A0, A1, A2, A3, A4, A5, B0, B1, B2, B3, B4, B5, C0, C1, C2, C3, C4, C5, D0, D1, D2, D3, D4, D5.
  cbn [S2cj Z.odd Pos.pred_double].
  clear A0 A1 A2 A3 A4 A5 B0 B1 B2 B3 B4 B5 C0 C1 C2 C3 C4 C5 D0 D1 D2 D3 D4 D5.
  split; [| split; [| split]]; apply rel12_canon;
    unfold I12frobenius, I12frobenius2, I12frobenius3, I12frobenius6, I4conj, I4neg, I4mul_fp, I2conj, I2neg, I2mul_fp, I2mul, BETA2,
           S2conj, S2scale, rel12, rel4, rel2, c0, c1, c2;
    cbn [fst snd]; splits; coef.
Qed.
