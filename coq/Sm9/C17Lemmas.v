(* Closed forms of the C17 tower results: "reduce every coefficient mod p, then the Impl
   operation and the quotient-ring operation give the same element", bundled per level. *)
From Coq Require Import ZArith Lia List Bool.
From Coq Require Import Znumtheory.
From GmVerif Require Import Sm9.Tower Sm9.TowerProofs Sm9.TowerInv Sm9.Fermat.
Open Scope Z_scope.

Lemma r2 a : rel2 a a. Proof. apply rel2_refl. Qed.
Lemma r4 a : rel4 a a. Proof. apply rel4_refl. Qed.
Lemma r12 a : rel12 a a. Proof. apply rel12_refl. Qed.

Lemma fp_ops : forall x y : Z,
  fadd x y mod p = (x + y) mod p /\ fsub x y mod p = (x - y) mod p /\ fneg x mod p = (- x) mod p /\
  fdbl x mod p = (2 * x) mod p /\ ftri x mod p = (3 * x) mod p /\ fmul x y mod p = (x * y) mod p /\
  (2 * fhaf x) mod p = x mod p /\
  fmont (x * 2 ^ 256) (y * 2 ^ 256) mod p = (x * y * 2 ^ 256) mod p.
Proof.
  intros. repeat split.
  - apply fadd_ok; apply eqp_refl.
  - apply fsub_ok; apply eqp_refl.
  - apply fneg_ok; apply eqp_refl.
  - apply fdbl_ok; apply eqp_refl.
  - apply ftri_ok; apply eqp_refl.
  - apply fmul_ok; apply eqp_refl.
  - apply fhaf_twice.
  - apply fmont_ok.
Qed.

Lemma fpow_spec : forall x e : Z, 0 <= e -> fpow x e mod p = (x ^ e) mod p.
Proof. intros. apply fpow_ok; [assumption | apply eqp_refl]. Qed.

Lemma fp2_ops : forall (a b : T2) (k : Z),
  canon2 (I2add a b) = canon2 (S2add a b) /\ canon2 (I2sub a b) = canon2 (S2sub a b) /\
  canon2 (I2neg a) = canon2 (S2neg a) /\ canon2 (I2dbl a) = canon2 (S2add a a) /\
  canon2 (I2tri a) = canon2 (S2add (S2add a a) a) /\
  canon2 (S2add (I2haf a) (I2haf a)) = canon2 a /\
  canon2 (I2mul a b) = canon2 (S2mul a b) /\ canon2 (I2mul_u a b) = canon2 (S2mul S2u (S2mul a b)) /\
  canon2 (I2mul_fp a k) = canon2 (S2scale k a) /\
  canon2 (I2sqr a) = canon2 (S2mul a a) /\ canon2 (I2sqr_u a) = canon2 (S2mul S2u (S2mul a a)) /\
  canon2 (I2a_mul_u a) = canon2 (S2mul S2u a) /\ canon2 (I2conj a) = canon2 (S2conj a).
Proof.
  intros. repeat split; apply rel2_canon.
  - apply I2add_ok; apply r2.
  - apply I2sub_ok; apply r2.
  - apply I2neg_ok; apply r2.
  - apply I2dbl_ok; apply r2.
  - apply I2tri_ok; apply r2.
  - destruct a as [a0 a1]. unfold I2haf, S2add, rel2; cbn [fst snd]. split.
    + replace (fhaf a0 + fhaf a0) with (2 * fhaf a0) by ring. apply fhaf_twice.
    + replace (fhaf a1 + fhaf a1) with (2 * fhaf a1) by ring. apply fhaf_twice.
  - apply I2mul_ok; apply r2.
  - apply I2mul_u_ok; apply r2.
  - apply I2mul_fp_ok; [apply r2 | apply eqp_refl].
  - apply I2sqr_ok; apply r2.
  - apply I2sqr_u_ok; apply r2.
  - apply I2a_mul_u_ok; apply r2.
  - apply I2conj_ok; apply r2.
Qed.

Lemma fp4_ops : forall (a b : T4) (k : Z) (c : T2),
  canon4 (I4add a b) = canon4 (S4add a b) /\ canon4 (I4sub a b) = canon4 (S4sub a b) /\
  canon4 (I4neg a) = canon4 (S4neg a) /\ canon4 (I4dbl a) = canon4 (S4add a a) /\
  canon4 (S4add (I4haf a) (I4haf a)) = canon4 a /\
  canon4 (I4mul a b) = canon4 (S4mul a b) /\ canon4 (I4mul_v a b) = canon4 (S4mul S4v (S4mul a b)) /\
  canon4 (I4mul_fp a k) = canon4 (S4scale k a) /\ canon4 (I4mul_fp2 a c) = canon4 (S4scale2 c a) /\
  canon4 (I4sqr a) = canon4 (S4mul a a) /\ canon4 (I4sqr_v a) = canon4 (S4mul S4v (S4mul a a)) /\
  canon4 (I4a_mul_v a) = canon4 (S4mul S4v a) /\ canon4 (I4conj a) = canon4 (S4conj a).
Proof.
  intros. repeat split; apply rel4_canon.
  - apply I4add_ok; apply r4.
  - apply I4sub_ok; apply r4.
  - apply I4neg_ok; apply r4.
  - apply I4dbl_ok; apply r4.
  - destruct a as [[a00 a01] [a10 a11]]. unfold S4add, I4haf, S2add, I2haf, rel4, rel2; cbn [fst snd].
    repeat split;
      match goal with |- eqp (fhaf ?x + fhaf ?x) _ => replace (fhaf x + fhaf x) with (2 * fhaf x) by ring; apply fhaf_twice end.
  - apply I4mul_ok; apply r4.
  - apply I4mul_v_ok; apply r4.
  - apply I4mul_fp_ok; [apply r4 | apply eqp_refl].
  - apply I4mul_fp2_ok; [apply r4 | apply r2].
  - apply I4sqr_ok; apply r4.
  - apply I4sqr_v_ok; apply r4.
  - apply I4a_mul_v_ok; apply r4.
  - apply I4conj_ok; apply r4.
Qed.

Lemma fp12_ops : forall (a b : T12) (k : Z) (l0 l1 l2 : T2),
  canon12 (I12add a b) = canon12 (S12add a b) /\ canon12 (I12sub a b) = canon12 (S12sub a b) /\
  canon12 (I12neg a) = canon12 (S12neg a) /\ canon12 (I12dbl a) = canon12 (S12add a a) /\
  canon12 (I12tri a) = canon12 (S12add (S12add a a) a) /\
  canon12 (I12mul a b) = canon12 (S12mul a b) /\ canon12 (I12sqr a) = canon12 (S12mul a a) /\
  canon12 (I12pow a k) = canon12 (S12pow a k) /\
  canon12 (I12line_mul a l0 l1 l2) = canon12 (S12mul a (S12line l0 l1 l2)).
Proof.
  intros. repeat split; apply rel12_canon.
  - apply I12add_ok; apply r12.
  - apply I12sub_ok; apply r12.
  - apply I12neg_ok; apply r12.
  - apply I12dbl_ok; apply r12.
  - apply I12tri_ok; apply r12.
  - apply I12mul_ok; apply r12.
  - apply I12sqr_ok; apply r12.
  - apply I12pow_ok; apply r12.
  - apply I12line_mul_ok; [apply r12 | apply r2 | apply r2 | apply r2].
Qed.

(* inverses, in product form *)
Lemma tower_inverses : fermat_p ->
  (forall a : T2, norm2 a mod p <> 0 -> canon2 (I2mul a (I2inv a)) = canon2 S2one) /\
  (forall a : T4, norm4 a mod p <> 0 -> canon4 (I4mul a (I4inv a)) = canon4 S4one) /\
  (forall a : T12, norm4 (D12 a) mod p <> 0 -> canon12 (I12mul a (I12inv a)) = canon12 S12one).
Proof.
  intros F. repeat split; intros a Hn.
  - apply rel2_canon. eapply rel2_trans; [apply I2mul_ok; apply r2 |]. apply (I2inv_ok F a a (r2 a) Hn).
  - apply rel4_canon. eapply rel4_trans; [apply I4mul_ok; apply r4 |]. apply (I4inv_ok F a a (r4 a) Hn).
  - apply rel12_canon. eapply rel12_trans; [apply I12mul_ok; apply r12 |]. apply (I12inv_ok F a Hn).
Qed.

Lemma tower_inverses_prime : prime p ->
  (forall a : T2, norm2 a mod p <> 0 -> canon2 (I2mul a (I2inv a)) = canon2 S2one) /\
  (forall a : T4, norm4 a mod p <> 0 -> canon4 (I4mul a (I4inv a)) = canon4 S4one) /\
  (forall a : T12, norm4 (D12 a) mod p <> 0 -> canon12 (I12mul a (I12inv a)) = canon12 S12one).
Proof. intros Hp. apply tower_inverses. exact (fermat_little p Hp). Qed.

(* the stored Frobenius constants are the powers of (-2)^((p-1)/12) they are meant to be *)
Lemma frobenius_constants :
  alpha1 = fpow (p - 2) ((p - 1) / 12) /\ alpha2 = fmul alpha1 alpha1 /\ alpha3 = fmul alpha2 alpha1 /\
  alpha4 = fmul alpha3 alpha1 /\ alpha5 = fmul alpha4 alpha1 /\ fmul alpha5 alpha1 = p - 1 /\ beta = alpha3.
Proof. split; [| split; [| split; [| split; [| split; [| split]]]]]; vm_compute; reflexivity. Qed.

(* the Impl values stay in [0,p] (they fit the 256-bit limbs), and canonical operands [0,p) give
   canonical results: since c2dbe37 no operation turns canonical input into the non-canonical zero p *)
Lemma fp_range : forall x y : Z, 0 <= x <= p -> 0 <= y <= p ->
  0 <= fadd x y <= p /\ 0 <= fsub x y <= p /\ 0 <= fneg x <= p /\ 0 <= fhaf x <= p /\ 0 <= fmul x y < p.
Proof.
  intros x y Hx Hy. pose proof p_pos as Hp. pose proof p_odd as Ho.
  unfold fadd, fsub, fneg, fhaf, fmul. cbv zeta.
  destruct (p <=? x + y) eqn:E1; [apply Z.leb_le in E1 | apply Z.leb_gt in E1];
  (destruct (x <? y) eqn:E2; [apply Z.ltb_lt in E2 | apply Z.ltb_ge in E2]);
  (destruct (p <=? p - x) eqn:E3; [apply Z.leb_le in E3 | apply Z.leb_gt in E3]);
  pose proof (Z.mod_pos_bound (x * y) p Hp);
  (destruct (Z.odd x);
   [ pose proof (Z.div_mod (x + p) 2 ltac:(lia)); pose proof (Z.mod_pos_bound (x + p) 2 ltac:(lia))
   | pose proof (Z.div_mod x 2 ltac:(lia)); pose proof (Z.mod_pos_bound x 2 ltac:(lia)) ]);
  repeat split; lia.
Qed.
Lemma fp_canonical : forall x y : Z, 0 <= x < p -> 0 <= y < p ->
  0 <= fadd x y < p /\ 0 <= fsub x y < p /\ 0 <= fneg x < p /\ 0 <= fhaf x < p /\ 0 <= fmul x y < p.
Proof.
  intros x y Hx Hy. pose proof p_pos as Hp. pose proof p_odd as Ho.
  unfold fadd, fsub, fneg, fhaf, fmul. cbv zeta.
  destruct (p <=? x + y) eqn:E1; [apply Z.leb_le in E1 | apply Z.leb_gt in E1];
  (destruct (x <? y) eqn:E2; [apply Z.ltb_lt in E2 | apply Z.ltb_ge in E2]);
  (destruct (p <=? p - x) eqn:E3; [apply Z.leb_le in E3 | apply Z.leb_gt in E3]);
  pose proof (Z.mod_pos_bound (x * y) p Hp);
  (destruct (Z.odd x);
   [ pose proof (Z.div_mod (x + p) 2 ltac:(lia)); pose proof (Z.mod_pos_bound (x + p) 2 ltac:(lia))
   | pose proof (Z.div_mod x 2 ltac:(lia)); pose proof (Z.mod_pos_bound x 2 ltac:(lia)) ]);
  repeat split; lia.
Qed.

(* inversion after negation (the case that returned 0 before c2dbe37): an element whose a2 is
   the zero of the bitwise test keeps such an a2 under fp12_neg, and its negation is inverted
   correctly under the same norm condition as the element itself *)
Lemma fp12_inv_neg : prime p -> forall a : T12,
  I4is_zero (c2 a) = true -> norm4 (D12 a) mod p <> 0 ->
  I4is_zero (c2 (I12neg a)) = true /\
  canon12 (I12mul (I12neg a) (I12inv (I12neg a))) = canon12 S12one.
Proof.
  intros Hp a Hz Hn. split.
  - destruct a as [[a0 a1] a2]. unfold I12neg, c2 in *; cbn [fst snd] in *. apply I4neg_zero; exact Hz.
  - apply rel12_canon. eapply rel12_trans; [apply I12mul_ok; apply r12 |].
    apply (I12inv_neg_ok (fermat_little p Hp) a Hz Hn).
Qed.

(* the predicates decide equality of ALL coefficients (on canonical operands: equality in the field) *)
Lemma tower_predicates :
  (forall a b : T2, I2equ a b = true <-> a = b) /\ (forall a b : T4, I4equ a b = true <-> a = b) /\
  (forall a b : T12, I12equ a b = true <-> a = b) /\
  (forall a : T2, I2is_zero a = true <-> a = I2zero) /\ (forall a : T2, I2is_one a = true <-> a = I2one) /\
  (forall a : T4, I4is_zero a = true <-> a = I4zero).
Proof.
  assert (E2 : forall a b : T2, I2equ a b = true <-> a = b).
  { intros [a0 a1] [b0 b1]. unfold I2equ; cbn [fst snd]. rewrite andb_true_iff, !Z.eqb_eq. split.
    - intros [-> ->]; reflexivity.
    - intros H; injection H; auto. }
  assert (E4 : forall a b : T4, I4equ a b = true <-> a = b).
  { intros [a0 a1] [b0 b1]. unfold I4equ; cbn [fst snd]. rewrite andb_true_iff, !E2. split.
    - intros [-> ->]; reflexivity.
    - intros H; injection H; auto. }
  split; [exact E2 | split; [exact E4 | split; [| split; [| split]]]].
  - intros [[a0 a1] a2] [[b0 b1] b2]. unfold I12equ, c0, c1, c2; cbn [fst snd]. rewrite !andb_true_iff, !E4. split.
    + intros [[-> ->] ->]; reflexivity.
    + intros H; injection H; auto.
  - intros [a0 a1]. unfold I2is_zero, fis_zero, I2zero; cbn [fst snd]. rewrite andb_true_iff, !Z.eqb_eq. split.
    + intros [-> ->]; reflexivity.
    + intros H; injection H; auto.
  - intros [a0 a1]. unfold I2is_one, I2one; cbn [fst snd]. rewrite andb_true_iff, !Z.eqb_eq. split.
    + intros [-> ->]; reflexivity.
    + intros H; injection H; auto.
  - intros a. split; [apply I4is_zero_true | intros ->; reflexivity].
Qed.

(* sm9_z256_fp2_div: a / b = a * b^-1, i.e. (a / b) * b = a when the norm of b is a unit *)
Lemma fp2_div_ok : prime p -> forall a b : T2, norm2 b mod p <> 0 -> canon2 (I2mul (I2div a b) b) = canon2 a.
Proof.
  intros Hp a b Hn. apply rel2_canon.
  pose proof (I2inv_ok (fermat_little p Hp) b b (r2 b) Hn) as Hi.
  unfold I2div.
  eapply rel2_trans; [apply I2mul_ok; [apply I2mul_ok; apply r2 | apply r2] |].
  (* (a * binv) * b = a * (b * binv) ~ a * 1 *)
  eapply rel2_trans; [apply rel2_eq_r with (b := S2mul (S2mul a (I2inv b)) b) (c := S2mul a (S2mul b (I2inv b))); [apply rel2_refl | ring] |].
  eapply rel2_trans; [apply S2mul_rel; [apply r2 | exact Hi] |].
  apply rel2_eq_r with (b := S2mul a S2one) (c := a); [apply rel2_refl | ring].
Qed.
