(* Inversions of the SM9 tower (sm9_z256_fp2_inv, _fp4_inv, _fp12_inv): x * inv x = 1 mod p
   whenever the norm that the code inverts is a unit mod p.
   Premise [fermat]: a^(p-1) = 1 mod p for a <> 0 mod p (Fermat's little theorem; it follows
   from the primality of p, which is not certified here).  The premise is a Section
   hypothesis and appears explicitly in the closed statements. *)
From Coq Require Import ZArith Lia List Bool Ring Setoid Morphisms.
From GmVerif Require Import Sm9.Tower Sm9.TowerProofs.
Open Scope Z_scope.

#[global] Instance eqp_Equivalence : Equivalence eqp.
Proof. split; [exact eqp_refl | exact eqp_sym | exact eqp_trans]. Qed.
#[global] Instance eqp_add_Proper : Proper (eqp ==> eqp ==> eqp) Z.add.
Proof. intros a a' Ha b b' Hb; apply eqp_add; assumption. Qed.
#[global] Instance eqp_mul_Proper : Proper (eqp ==> eqp ==> eqp) Z.mul.
Proof. intros a a' Ha b b' Hb; apply eqp_mul; assumption. Qed.
#[global] Instance eqp_sub_Proper : Proper (eqp ==> eqp ==> eqp) Z.sub.
Proof. intros a a' Ha b b' Hb; apply eqp_sub; assumption. Qed.
#[global] Instance eqp_opp_Proper : Proper (eqp ==> eqp) Z.opp.
Proof. intros a a' Ha; apply eqp_opp; assumption. Qed.

Definition fermat_p : Prop := forall x : Z, x mod p <> 0 -> (x ^ (p - 1)) mod p = 1.

Definition norm2 (a : T2) : Z := fst a * fst a + 2 * (snd a * snd a).
(* the Fp2 element inverted by fp4_inv: a1^2 u - a0^2 *)
Definition n4 (a : T4) : T2 := S2sub (S2mul S2u (S2mul (snd a) (snd a))) (S2mul (fst a) (fst a)).
Definition norm4 (a : T4) : Z := norm2 (n4 a).
(* the Fp4 element inverted by fp12_inv, per branch *)
Definition D12 (a : T12) : T4 :=
  let '(a0, a1, a2) := a in
  if I4is_zero a2 then
    S4add (S4mul (S4mul a0 a0) a0) (S4mul (S4mul S4v (S4mul a1 a1)) a1)
  else
    let t0 := S4sub (S4mul a1 a1) (S4mul a0 a2) in
    let t1 := S4sub (S4mul a0 a1) (S4mul S4v (S4mul a2 a2)) in
    let t2 := S4sub (S4mul a0 a0) (S4mul S4v (S4mul a1 a2)) in
    S4sub (S4mul t1 t1) (S4mul t0 t2).

Lemma p_minus_2_nonneg : 0 <= p - 2. Proof. vm_compute; discriminate. Qed.
#[local] Opaque p.

Section Inv.
Hypothesis fermat : fermat_p.

Lemma nz_eqp x y : x == y -> x mod p <> 0 -> y mod p <> 0.
Proof. unfold eqp; intros -> H; exact H. Qed.

Lemma finv_ok x x' : x == x' -> x' mod p <> 0 -> x' * finv x == 1.
Proof.
  intros H Hnz. unfold finv.
  pose proof p_minus_2_nonneg as Hp.
  rewrite (fpow_ok x x' (p - 2) Hp H).
  replace (x' * x' ^ (p - 2)) with (x' ^ (p - 1)).
  - unfold eqp. rewrite (fermat x' Hnz). reflexivity.
  - replace (p - 1) with (Z.succ (p - 2)) by lia. rewrite Z.pow_succ_r by exact Hp. reflexivity.
Qed.

(* a product that is nonzero mod p has nonzero factors (no primality needed) *)
Lemma nz_factor_l x y : (x * y) mod p <> 0 -> x mod p <> 0.
Proof.
  intros H Hx. apply H. rewrite Z.mul_mod by (pose proof p_pos; lia). rewrite Hx, Z.mul_0_l.
  apply Z.mod_0_l. pose proof p_pos; lia.
Qed.

Lemma I2inv_ok a a' : rel2 a a' -> norm2 a' mod p <> 0 -> rel2 (S2mul a' (I2inv a)) S2one.
Proof.
  destruct a as [a0 a1], a' as [b0 b1]. intros [H0 H1] Hn. cbn [fst snd] in *.
  unfold norm2 in Hn; cbn [fst snd] in Hn.
  unfold I2inv, fis_zero. destruct (Z.eqb_spec a0 0) as [E0 | N0]; [| destruct (Z.eqb_spec a1 0) as [E1 | N1]].
  - (* a0 = 0 : r = (0, -(2 a1)^-1) *)
    subst a0. assert (Hb0 : b0 == 0) by (symmetry; exact H0).
    assert (Hd : fdbl a1 == 2 * b1) by (apply fdbl_ok; exact H1).
    assert (Hnz : (2 * b1) mod p <> 0).
    { apply (nz_factor_l (2 * b1) b1). apply (nz_eqp (b0 * b0 + 2 * (b1 * b1))); [| exact Hn].
      rewrite Hb0. apply eqp_of_eq; ring. }
    pose proof (finv_ok _ _ Hd Hnz) as Hi.
    unfold S2mul, S2one, rel2; cbn [fst snd]; split.
    + rewrite (fneg_ok _ _ (eqp_refl _)). rewrite <- Hi. apply eqp_of_eq; ring.
    + rewrite Hb0. apply eqp_of_eq; ring.
  - (* a1 = 0 : r = (a0^-1, 0) *)
    subst a1. assert (Hb1 : b1 == 0) by (symmetry; exact H1).
    assert (Hnz : b0 mod p <> 0).
    { apply (nz_factor_l b0 b0). apply (nz_eqp (b0 * b0 + 2 * (b1 * b1))); [| exact Hn].
      rewrite Hb1. apply eqp_of_eq; ring. }
    pose proof (finv_ok _ _ H0 Hnz) as Hi.
    unfold S2mul, S2one, rel2; cbn [fst snd]; split.
    + rewrite Hb1. rewrite <- Hi. apply eqp_of_eq; ring.
    + rewrite Hb1. apply eqp_of_eq; ring.
  - (* general : k = (a0^2 + 2 a1^2)^-1, r = (a0 k, -(a1 k)) *)
    cbv zeta.
    set (nn := fadd (fsqr a0) (fdbl (fsqr a1))).
    assert (Hnn : nn == b0 * b0 + 2 * (b1 * b1)) by (unfold nn; frel).
    pose proof (finv_ok _ _ Hnn Hn) as Hi.
    set (k := finv nn) in *.
    unfold S2mul, S2one, rel2; cbn [fst snd]; split.
    + rewrite (fmul_ok a0 b0 k k H0 (eqp_refl _)).
      rewrite (fneg_ok _ _ (fmul_ok a1 b1 k k H1 (eqp_refl _))).
      rewrite <- Hi. apply eqp_of_eq; ring.
    + rewrite (fmul_ok a0 b0 k k H0 (eqp_refl _)).
      rewrite (fneg_ok _ _ (fmul_ok a1 b1 k k H1 (eqp_refl _))).
      apply eqp_of_eq; ring.
Qed.

Lemma I4inv_ok a a' : rel4 a a' -> norm4 a' mod p <> 0 -> rel4 (S4mul a' (I4inv a)) S4one.
Proof.
  destruct a as [a0 a1], a' as [b0 b1]. intros [H0 H1] Hn. cbn [fst snd] in *.
  unfold norm4, n4 in Hn; cbn [fst snd] in Hn.
  unfold I4inv. cbv zeta.
  set (kk := I2sub (I2sqr_u a1) (I2sqr a0)).
  assert (Hkk : rel2 kk (S2sub (S2mul S2u (S2mul b1 b1)) (S2mul b0 b0))) by (unfold kk; r2).
  pose proof (I2inv_ok _ _ Hkk Hn) as Hi.
  set (k := I2inv kk) in *.
  assert (Hr0 : rel2 (I2neg (I2mul a0 k)) (S2neg (S2mul b0 k))) by r2.
  assert (Hr1 : rel2 (I2mul a1 k) (S2mul b1 k)) by r2.
  assert (Hr : rel4 (I2neg (I2mul a0 k), I2mul a1 k) (S2neg (S2mul b0 k), S2mul b1 k)) by (split; assumption).
  eapply rel4_trans; [apply S4mul_rel; [apply rel4_refl | exact Hr] |].
  unfold S4mul, S4one, rel4; cbn [fst snd]; split.
  - eapply rel2_trans; [| exact Hi]. apply rel2_eq_r with (b := S2add (S2mul b0 (S2neg (S2mul b0 k))) (S2mul S2u (S2mul b1 (S2mul b1 k)))); [apply rel2_refl | ring].
  - apply rel2_eq_r with (b := S2add (S2mul b0 (S2mul b1 k)) (S2mul b1 (S2neg (S2mul b0 k)))); [apply rel2_refl | ring].
Qed.

Lemma I4is_zero_true a : I4is_zero a = true -> a = I4zero.
Proof.
  destruct a as [[x0 x1] [y0 y1]]. unfold I4is_zero, I2is_zero, fis_zero; cbn [fst snd].
  rewrite !andb_true_iff, !Z.eqb_eq. intros [[-> ->] [-> ->]]. reflexivity.
Qed.

Lemma I12inv_ok a : norm4 (D12 a) mod p <> 0 -> rel12 (S12mul a (I12inv a)) S12one.
Proof.
  destruct a as [[a0 a1] a2]. unfold D12, I12inv. destruct (I4is_zero a2) eqn:Ez; cbv zeta; intros Hn.
  - apply I4is_zero_true in Ez. subst a2.
    set (kk := I4add (I4mul (I4sqr a0) a0) (I4mul (I4sqr_v a1) a1)).
    assert (Hkk : rel4 kk (S4add (S4mul (S4mul a0 a0) a0) (S4mul (S4mul S4v (S4mul a1 a1)) a1))) by (unfold kk; r4).
    pose proof (I4inv_ok _ _ Hkk Hn) as Hi.
    set (k := I4inv kk) in *.
    assert (Hr : rel12 (I4mul (I4sqr a0) k, I4neg (I4mul (I4mul a0 a1) k), I4mul (I4sqr a1) k)
                       (S4mul (S4mul a0 a0) k, S4neg (S4mul (S4mul a0 a1) k), S4mul (S4mul a1 a1) k)).
    { unfold rel12, c0, c1, c2; cbn [fst snd]; (split; [|split]); r4. }
    eapply rel12_trans; [apply S12mul_rel; [apply rel12_refl | exact Hr] |].
    unfold S12mul, S12one, rel12, c0, c1, c2, I4zero, I2zero; cbn [fst snd].
    change ((0, 0, (0, 0)) : T4) with S4zero.
    split; [| split].
    + eapply rel4_trans; [| exact Hi]. eapply rel4_eq_r; [apply rel4_refl | ring].
    + eapply rel4_eq_r; [apply rel4_refl | ring].
    + eapply rel4_eq_r; [apply rel4_refl | ring].
  - set (t0 := I4sub (I4sqr a1) (I4mul a0 a2)).
    set (t1 := I4sub (I4mul a0 a1) (I4sqr_v a2)).
    set (t2 := I4sub (I4sqr a0) (I4mul_v a1 a2)).
    set (s0 := S4sub (S4mul a1 a1) (S4mul a0 a2)) in *.
    set (s1 := S4sub (S4mul a0 a1) (S4mul S4v (S4mul a2 a2))) in *.
    set (s2 := S4sub (S4mul a0 a0) (S4mul S4v (S4mul a1 a2))) in *.
    assert (H0 : rel4 t0 s0) by (unfold t0, s0; r4).
    assert (H1 : rel4 t1 s1) by (unfold t1, s1; r4).
    assert (H2 : rel4 t2 s2) by (unfold t2, s2; r4).
    set (kk := I4sub (I4sqr t1) (I4mul t0 t2)).
    assert (Hkk : rel4 kk (S4sub (S4mul s1 s1) (S4mul s0 s2))) by (unfold kk; r4).
    pose proof (I4inv_ok _ _ Hkk Hn) as Hi.
    set (k := I4inv kk) in *.
    assert (Hr : rel12 (I4mul t2 (I4mul a2 k), I4neg (I4mul t1 (I4mul a2 k)), I4mul t0 (I4mul a2 k))
                       (S4mul s2 (S4mul a2 k), S4neg (S4mul s1 (S4mul a2 k)), S4mul s0 (S4mul a2 k))).
    { unfold rel12, c0, c1, c2; cbn [fst snd]; (split; [|split]); r4. }
    eapply rel12_trans; [apply S12mul_rel; [apply rel12_refl | exact Hr] |].
    unfold S12mul, S12one, rel12, c0, c1, c2; cbn [fst snd].
    split; [| split].
    + eapply rel4_trans; [| exact Hi]. eapply rel4_eq_r; [apply rel4_refl | unfold s0, s1, s2; ring].
    + eapply rel4_eq_r; [apply rel4_refl | unfold s0, s1, s2; ring].
    + eapply rel4_eq_r; [apply rel4_refl | unfold s0, s1, s2; ring].
Qed.
End Inv.

(* ------------------------------------------------------------------ inversion after negation
   Since c2dbe37 sm9_z256_modp_neg(0) = 0, so negation (and the conjugations built from it) keeps a
   zero coefficient recognisable by the bitwise test, and fp12_inv(fp12_neg(a)) takes the same
   branch as fp12_inv(a). *)
Lemma fneg_0 : fneg 0 = 0. Proof. reflexivity. Qed.
Lemma I4neg_zero a : I4is_zero a = true -> I4is_zero (I4neg a) = true.
Proof. intros H. apply I4is_zero_true in H. subst a. reflexivity. Qed.
Lemma I4conj_zero a : I4is_zero a = true -> I4is_zero (I4conj a) = true.
Proof. intros H. apply I4is_zero_true in H. subst a. reflexivity. Qed.

Lemma norm4_rel x y : rel4 x y -> norm4 x == norm4 y.
Proof.
  destruct x as [[x0 x1] [x2 x3]], y as [[y0 y1] [y2 y3]]. intros [[H0 H1] [H2 H3]]; cbn [fst snd] in *.
  unfold norm4, n4, norm2, S2sub, S2mul, S2u; cbn [fst snd].
  rewrite H0, H1, H2, H3. reflexivity.
Qed.
Lemma norm4_neg x : norm4 (S4neg x) = norm4 x.
Proof.
  destruct x as [[x0 x1] [x2 x3]]. unfold norm4, n4, norm2, S4neg, S2neg, S2sub, S2mul, S2u; cbn [fst snd]. ring.
Qed.
Lemma S4add_rel a a' b b' : rel4 a a' -> rel4 b b' -> rel4 (S4add a b) (S4add a' b').
Proof.
  intros Ha Hb. eapply rel4_trans; [apply rel4_sym, I4add_ok; apply rel4_refl | apply I4add_ok; assumption].
Qed.

Section InvNeg.
Hypothesis fermat : fermat_p.
Lemma I12inv_neg_ok a : I4is_zero (c2 a) = true -> norm4 (D12 a) mod p <> 0 ->
  rel12 (S12mul (I12neg a) (I12inv (I12neg a))) S12one.
Proof.
  intros Hz Hn. apply (I12inv_ok fermat). destruct a as [[a0 a1] a2]. unfold c2 in Hz; cbn [snd] in Hz.
  unfold I12neg, c0, c1, c2; cbn [fst snd]. unfold D12 in *. rewrite Hz in Hn. rewrite (I4neg_zero a2 Hz).
  set (D := S4add (S4mul (S4mul a0 a0) a0) (S4mul (S4mul S4v (S4mul a1 a1)) a1)) in *.
  assert (Hr : rel4 (S4add (S4mul (S4mul (I4neg a0) (I4neg a0)) (I4neg a0))
                           (S4mul (S4mul S4v (S4mul (I4neg a1) (I4neg a1))) (I4neg a1))) (S4neg D)).
  { assert (H0 : rel4 (I4neg a0) (S4neg a0)) by (apply I4neg_ok, rel4_refl).
    assert (H1 : rel4 (I4neg a1) (S4neg a1)) by (apply I4neg_ok, rel4_refl).
    eapply rel4_eq_r.
    - apply S4add_rel; repeat apply S4mul_rel; try eassumption; apply rel4_refl.
    - unfold D. ring. }
  apply norm4_rel in Hr. rewrite norm4_neg in Hr.
  intros E. apply Hn. unfold eqp in Hr. rewrite <- Hr. exact E.
Qed.
End InvNeg.

(* residual / history.  fp12_inv itself still selects its branch with the bitwise test, so on a
   NON-canonical zero a2 (all coordinates = p) it returns 0.  Before c2dbe37 fp12_neg produced
   exactly such elements ([fneg_old 0 = p]) and inv(-1) was computed as 0; no exported operation
   produces them from canonical input any more, and inv(-1) is now correct. *)
Definition noncanonical_minus_one : T12 :=
  (((fneg_old 1, fneg_old 0), (fneg_old 0, fneg_old 0)),
   ((fneg_old 0, fneg_old 0), (fneg_old 0, fneg_old 0)),
   ((fneg_old 0, fneg_old 0), (fneg_old 0, fneg_old 0))).
Example I12inv_old_neg_refuted :
  fneg_old 0 = p /\ canon12 noncanonical_minus_one = canon12 (S12neg S12one) /\
  canon12 (I12inv noncanonical_minus_one) = canon12 I12zero.
Proof. split; [| split]; vm_compute; reflexivity. Qed.
Example I12inv_neg_one_now :
  I12neg I12one = (((p - 1, 0), (0, 0)), ((0, 0), (0, 0)), ((0, 0), (0, 0))) /\
  canon12 (I12mul (I12neg I12one) (I12inv (I12neg I12one))) = canon12 I12one.
Proof. split; vm_compute; reflexivity. Qed.
