(* SM9 scalar arithmetic mod N and the hash-to-range maps H1 / H2
   (src/sm9_z256.c sm9_z256_modn_add/_sub/_from_hash, src/sm9_key.c sm9_z256_hash1,
   the H2 computation inside sm9_do_sign / sm9_do_verify).
   Impl = the C algorithm on integers (Barrett quotient estimate with the stored constant, one
   wrapping 256-bit subtraction, one conditional subtraction of N-1, then +1 mod N);
   Spec = GM/T 0044: h = (Ha mod (N-1)) + 1. *)
From Coq Require Import ZArith List.
From GmVerif Require Import Base.Bytes Hash.MD Hash.SM3 Sm9.Tower.
Import ListNotations.
Open Scope Z_scope.

Definition W256 : Z := 2 ^ 256.
(* 2^256 + SM9_Z256_N_MINUS_ONE_BARRETT_MU  ( = floor(2^512 / (N-1)) ) *)
Definition mu_nm1 : Z :=
  2 ^ 256 + 0x67980e0beb5759a655f73aebdcd1312c9c95d85ec9c073b074df4fd4dfc97c31.

(* sm9_z256_modn_add *)
Definition modn_add (a b : Z) : Z :=
  let s := a + b in
  if W256 <=? s then (s - W256 + (W256 - Nord)) mod W256
  else if Nord <=? s then s - Nord else s.
(* sm9_z256_modn_sub *)
Definition modn_sub (a b : Z) : Z :=
  if a <? b then (a - b + W256 - (W256 - Nord)) mod W256 else a - b.

(* the Barrett quotient estimate of sm9_z256_modn_from_hash:  ((z >> 192) * mu) >> 320 *)
Definition fh_quot (z : Z) : Z := ((z / 2 ^ 192) * mu_nm1) / 2 ^ 320.
(* sm9_z256_modn_from_hash on the 320-bit big-endian integer z of Ha[0..39] (since 3d68e44:
   one conditional subtraction of N-1 after the estimate) *)
Definition from_hash_impl (z : Z) : Z :=
  let q := fh_quot z in
  let r := (q * (Nord - 1)) mod W256 in          (* low four limbs of the 512-bit product *)
  let h := (z mod W256 - r) mod W256 in          (* sm9_z256_sub, borrow dropped *)
  let h := if Nord - 1 <=? h then h - (Nord - 1) else h in
  modn_add h 1.
(* the function before 3d68e44 (no correction step); kept for the named Examples only *)
Definition from_hash_impl_old (z : Z) : Z :=
  let q := fh_quot z in
  let r := (q * (Nord - 1)) mod W256 in
  let h := (z mod W256 - r) mod W256 in
  modn_add h 1.
Definition from_hash_spec (z : Z) : Z := z mod (Nord - 1) + 1.

(* H1(id || hid) and H2(m || w): Ha = first 40 bytes of SM3(pfx||data||00000001) || SM3(pfx||data||00000002) *)
Definition ha_of (pfx : N) (data : list N) : Z :=
  let h1 := sm3 (pfx :: data ++ [0; 0; 0; 1]%N) in
  let h2 := sm3 (pfx :: data ++ [0; 0; 0; 2]%N) in
  Z.of_N (be_to_N (firstn 40 (h1 ++ h2))).
Definition sm9_hash1_impl (id : list N) (hid : N) : Z := from_hash_impl (ha_of 1%N (id ++ [hid])).
Definition sm9_hash1_spec (id : list N) (hid : N) : Z := from_hash_spec (ha_of 1%N (id ++ [hid])).
Definition sm9_hash2_impl (m w : list N) : Z := from_hash_impl (ha_of 2%N (m ++ w)).
Definition sm9_hash2_spec (m w : list N) : Z := from_hash_spec (ha_of 2%N (m ++ w)).

(* ------------------------------------------------------------------ sm9_z256_modn_mul / _pow / _inv
   Barrett reduction with the stored 257-bit constant SM9_Z256_N_BARRETT_MU = floor(2^512 / N):
   z = a*b; q = ((z >> 192) * mu) >> 320; r = (z - q*N) mod 2^320 (five limbs); one conditional
   subtraction of N (on the low four limbs) when the fifth limb is non-zero or r[0..3] >= N. *)
Definition mu_n : Z := 2 ^ 256 + 0x67980e0beb5759a655f73aebdcd1312c9c95d85ec9c073b074df4fd4dfc97c2f.
Definition modn_mul (a b : Z) : Z :=
  let z := a * b in
  let q := ((z / 2 ^ 192) * mu_n) / 2 ^ 320 in
  let r := (z - q * Nord) mod 2 ^ 320 in
  if Nord <=? r then (r mod W256 - Nord) mod W256 else r mod W256.
(* sm9_z256_modn_pow: left-to-right square-and-multiply starting from 1; _inv: a^(N-2) *)
Definition modn_pow (a e : Z) : Z := gpow (fun x => modn_mul x x) modn_mul 1 a e.
Definition modn_inv (a : Z) : Z := modn_pow a (Nord - 2).
(* key extraction scalar of sm9_*_master_key_extract_key: t1 = H1 + k mod N (0 -> error), t2 = k * t1^-1 *)
Definition extract_t2 (h1 k : Z) : option Z :=
  let t1 := modn_add h1 k in
  if t1 =? 0 then None else Some (modn_mul (modn_inv t1) k).

(* ------------------------------------------------------------------ sm9_z256_rand_range
   (since c0d02d5) draw 32 bytes up to 100 times; a draw is taken when it lies in [1, range-1];
   an entropy failure aborts.  [draws]: the successive 256-bit draws, None = rand_bytes fails. *)
Inductive rr_result : Type :=
  | RR_ok (r : Z) (ndraws : nat)      (* return 1 *)
  | RR_retry (ndraws : nat)           (* return 0 after 100 rejected draws *)
  | RR_fail (ndraws : nat)            (* return -1 *)
  | RR_starved.                       (* the script ran out (not a behaviour of the C code) *)
Fixpoint rand_range_loop (accept : Z -> bool) (tries : nat) (used : nat) (draws : list (option Z)) : rr_result :=
  match tries with
  | O => RR_retry used
  | S t =>
      match draws with
      | [] => RR_starved
      | None :: _ => RR_fail (S used)
      | Some d :: rest => if accept d then RR_ok d (S used) else rand_range_loop accept t (S used) rest
      end
  end.
Definition rand_range (range : Z) (draws : list (option Z)) : rr_result :=
  rand_range_loop (fun d => negb (range <=? d) && negb (d =? 0)) 100 0 draws.
(* the rule before c0d02d5: only d < range was required, so a zero draw was used *)
Definition rand_range_old (range : Z) (draws : list (option Z)) : rr_result :=
  rand_range_loop (fun d => negb (range <=? d)) 100 0 draws.
