(* DER layer of the SM9 wire objects (src/sm9_sign.c sm9_signature_to_der/_from_der +
   the leftover check of sm9_verify_finish; src/sm9_enc.c sm9_ciphertext_to_der/_from_der + the
   leftover check of sm9_decrypt), built on the DER primitive models of Codec/Der.v (mode
   [Fixed] = the repaired primitives of the current tree).

     SM9Signature ::= SEQUENCE { h OCTET STRING (32), Sg BIT STRING (04||x||y) }
     SM9Cipher    ::= SEQUENCE { EnType INTEGER (0), C1 BIT STRING, C3 OCTET STRING (32), CipherText OCTET STRING }

   Theorems: decode(encode v) = v; every accepted input is EXACTLY the encoding of the decoded
   value (canonicity: no trailing bytes inside or outside the SEQUENCE, minimal lengths, no
   padded INTEGER, right tags); hence extensions and truncations of an accepted input are refused. *)
From GmVerif Require Import Base.ListX Base.Bytes Codec.Der Codec.DerProofs.
From Coq Require Import ZifyN ZifyNat ZifyBool.
Ltac Zify.zify_post_hook ::= Z.div_mod_to_equations.
Local Open Scope N_scope.

Definition sm9_N : N := 0xb640000002a3a6f1d603ab4ff58ec74449f2934b18ea8beee56ee19cd69ecf25.

Definition octets_tlv (d : list N) : list N := 4 :: len_enc (len d) ++ d.
Definition bitoct_tlv (d : list N) : list N := 3 :: len_enc (len d + 1) ++ 0 :: d.
Definition seq_tlv (body : list N) : list N := 48 :: len_enc (len body) ++ body.

Section Sm9Der.
(* sm9_z256_point_from_uncompressed_octets accepts these 65 octets (04, x < p, y < p, on curve) *)
Variable point_ok : list N -> bool.

(* ---------------------------------------------------------------- signature *)
Definition sig_to_der (h Sg : list N) : list N := seq_tlv (octets_tlv h ++ bitoct_tlv Sg).

(* sm9_signature_from_der *)
Definition sig_from_der (inp : list N) : res (list N * list N * list N) :=
  match type_from_der 48 inp with
  | Ok (d, rest) =>
      match type_from_der 4 d with
      | Ok (h, d1) =>
          match bit_octets_from_der Fixed 3 d1 with
          | Ok (Sg, d2) =>
              if negb (len h =? 32) || negb (len Sg =? 65) || negb (len d2 =? 0) then Err
              else if sm9_N <=? be_to_N h then Err
              else if negb (point_ok Sg) then Err
              else Ok (h, Sg, rest)
          | Fault => Fault
          | _ => Err
          end
      | Fault => Fault
      | _ => Err
      end
  | Absent => Absent
  | Err => Err
  | Fault => Fault
  end.
(* sm9_verify_finish: the whole buffer must be one signature *)
Definition sig_decode (inp : list N) : res (list N * list N) :=
  match sig_from_der inp with
  | Ok (h, Sg, rest) => if len rest =? 0 then Ok (h, Sg) else Err
  | Fault => Fault
  | _ => Err
  end.

(* ---------------------------------------------------------------- ciphertext *)
Definition ct_to_der (C1 c3 c2 : list N) : list N :=
  seq_tlv ([2; 1; 0] ++ bitoct_tlv C1 ++ octets_tlv c3 ++ octets_tlv c2).

(* sm9_ciphertext_from_der *)
Definition ct_from_der (inp : list N) : res (list N * list N * list N * list N) :=
  match type_from_der 48 inp with
  | Ok (d, rest) =>
      match int_from_der Fixed 2 d with
      | Ok (ty, d1) =>
          match bit_octets_from_der Fixed 3 d1 with
          | Ok (C1, d2) =>
              match type_from_der 4 d2 with
              | Ok (c3, d3) =>
                  match type_from_der 4 d3 with
                  | Ok (c2, d4) =>
                      if negb (len d4 =? 0) then Err
                      else if negb (ty =? 0) then Err
                      else if negb (len C1 =? 65) || negb (len c3 =? 32) then Err
                      else if negb (point_ok C1) then Err
                      else Ok (C1, c3, c2, rest)
                  | Fault => Fault
                  | _ => Err
                  end
              | Fault => Fault
              | _ => Err
              end
          | Fault => Fault
          | _ => Err
          end
      | Fault => Fault
      | _ => Err
      end
  | Absent => Absent
  | Err => Err
  | Fault => Fault
  end.
(* sm9_decrypt: nothing after the SEQUENCE; sm9_do_decrypt: at most 255 ciphertext bytes *)
Definition ct_decode (inp : list N) : res (list N * list N * list N) :=
  match ct_from_der inp with
  | Ok (C1, c3, c2, rest) => if negb (len rest =? 0) || (255 <? len c2) then Err else Ok (C1, c3, c2)
  | Fault => Fault
  | _ => Err
  end.

(* ---------------------------------------------------------------- proofs *)
(* case analysis on a term that occurs in hypotheses *)
Tactic Notation "dest" constr(t) "as" simple_intropattern(p) "withE" ident(E) :=
  let x := fresh "x" in remember t as x eqn:E; symmetry in E; destruct x as p.
Tactic Notation "dest" constr(t) "withE" ident(E) :=
  let x := fresh "x" in remember t as x eqn:E; symmetry in E; destruct x.
Tactic Notation "dest" constr(t) :=
  let x := fresh "x" in let E := fresh "E" in remember t as x eqn:E; symmetry in E; destruct x.
Lemma bytes_app a b : bytes_okP (a ++ b) <-> bytes_okP a /\ bytes_okP b.
Proof. apply Forall_app. Qed.
Lemma bytes_cons x a : bytes_okP (x :: a) <-> x < 256 /\ bytes_okP a.
Proof. apply Forall_cons_iff. Qed.

(* a BIT STRING holding whole octets is canonical: unused-bits octet 0 *)
Lemma bit_octets_canonical inp Sg rest :
  bytes_okP inp -> len inp <= INT_MAX -> bit_octets_from_der Fixed 3 inp = Ok (Sg, rest) ->
  inp = bitoct_tlv Sg ++ rest.
Proof.
  intros HB HM H. unfold bit_octets_from_der in H.
  dest (bit_string_from_der Fixed 3 inp) as [[[b nbits] r]| | |] withE E; try congruence.
  dest (nbits mod 8 =? 0) withE Em; [|congruence]. inversion H; subst b r; clear H.
  apply N.eqb_eq in Em.
  (* expose the TLV *)
  destruct inp as [|t r0]; cbn [bit_string_from_der] in E; [congruence|].
  destruct (N.eqb_spec t 3) as [->|]; cbn [negb] in E; [|congruence].
  dest (len_from_der r0) as [[l r]| | |] withE EL; try congruence.
  cbn [fx_bit_empty Fixed] in E.
  destruct (N.ltb_spec l 1); [congruence|].
  destruct r as [|u r1]; [congruence|].
  destruct (N.ltb_spec 7 u); [congruence|].
  cbn [andb] in E.
  assert (Hu : u = 0 \/ l <> 1).
  { destruct (N.eqb_spec l 1); [|right; assumption]. destruct (N.eqb_spec u 0); [left; assumption|].
    cbn [andb negb] in E. congruence. }
  assert (E' : Ok (takeN (l - 1) r1, (l - 1) * 8 - u, dropN (l - 1) r1) = Ok (Sg, nbits, rest)).
  { destruct ((l =? 1) && negb (u =? 0)); [congruence | exact E]. }
  clear E. injection E' as <- <- <-.
  assert (HT : type_from_der 3 (3 :: r0) = Ok (u :: takeN (l - 1) r1, dropN (l - 1) r1)).
  { cbn [type_from_der]. rewrite N.eqb_refl. cbn [negb]. rewrite EL. unfold takeN, dropN.
    replace (N.to_nat l) with (S (N.to_nat (l - 1))) by lia. reflexivity. }
  pose proof (len_from_der_inv _ _ _ EL) as [Hle _]. rewrite len_cons in Hle.
  pose proof (type_canonical 3 _ _ _ HB HM HT) as HC.
  assert (Hlt : len (takeN (l - 1) r1) = l - 1) by (apply len_takeN; lia).
  assert (u = 0) by (destruct Hu; [assumption | lia]).
  subst u. rewrite HC at 1. unfold bitoct_tlv. rewrite len_cons, Hlt.
  replace (1 + (l - 1)) with (l - 1 + 1) by lia. cbn [app]. rewrite <- app_assoc. reflexivity.
Qed.
Lemma bit_octets_roundtrip Sg rest : len Sg + 1 <= INT_MAX ->
  bit_octets_from_der Fixed 3 (bitoct_tlv Sg ++ rest) = Ok (Sg, rest).
Proof.
  intros HM. unfold bit_octets_from_der.
  assert (E : bit_string_to_der 3 (Some Sg) (len Sg * 8) = Ok (bitoct_tlv Sg)).
  { unfold bit_string_to_der, bitoct_tlv. replace ((len Sg * 8 + 7) / 8) with (len Sg) by lia.
    destruct (N.ltb_spec (len Sg) (len Sg)); [lia|]. rewrite takeN_all. repeat f_equal. lia. }
  rewrite (bit_string_roundtrip 3 Sg (len Sg * 8) _ rest) by (try assumption; lia).
  replace ((len Sg * 8) mod 8) with 0 by lia. reflexivity.
Qed.
Lemma octets_roundtrip d rest : len d <= INT_MAX -> type_from_der 4 (octets_tlv d ++ rest) = Ok (d, rest).
Proof. intros H. unfold octets_tlv. cbn [app]. rewrite <- app_assoc. apply type_roundtrip; assumption. Qed.

(* INTEGER with the value 0 is 02 01 00 *)
Lemma int_zero_canonical inp rest :
  bytes_okP inp -> len inp <= INT_MAX -> int_from_der Fixed 2 inp = Ok (0, rest) -> inp = [2; 1; 0] ++ rest.
Proof.
  intros HB HM H. unfold int_from_der in H.
  dest (integer_from_der 2 inp) as [[p r]| | |] withE E; try congruence.
  destruct (integer_canonical 2 inp p r HB HM E) as (Hn & e & He & ->).
  destruct (N.ltb_spec 4 (len p)); [congruence|].
  assert (Hp : bytes_okP p).
  { apply integer_from_der_suffix in E. 
    clear - HB He Hn. unfold integer_to_der in He.
    dest ((len p =? 0) || (INT_MAX <? len p)); [congruence|]. rewrite (strip0_id p Hn) in He.
    destruct p as [|b t]; [congruence|].
    apply bytes_app in HB. destruct HB as [HB _].
    dest (hibit b); injection He as <-.
    - apply bytes_cons in HB. destruct HB as [_ HB]. apply bytes_app in HB. destruct HB as [_ HB].
      apply bytes_cons in HB. apply HB.
    - apply bytes_cons in HB. destruct HB as [_ HB]. apply bytes_app in HB. apply HB. }
  destruct p as [|b t]; [contradiction|].
  dest ((len (b :: t) =? 4) && (128 <=? b)); cbn [fx_int_shift Fixed] in H; [congruence|].
  injection H as Hv <-.
  assert (b :: t = [0]).
  { rewrite be_to_N_cons in Hv. assert (b = 0) by nia. subst b.
    destruct t as [|c t']; [reflexivity|]. cbn in Hn. contradiction. }
  rewrite H in He. cbn in He. injection He as <-. reflexivity.
Qed.

Lemma sig_from_der_inv inp h Sg rest : bytes_okP inp -> len inp <= INT_MAX ->
  sig_from_der inp = Ok (h, Sg, rest) ->
  inp = sig_to_der h Sg ++ rest /\ len h = 32 /\ len Sg = 65 /\ be_to_N h < sm9_N /\ point_ok Sg = true.
Proof.
  intros HB HM H. unfold sig_from_der in H.
  dest (type_from_der 48 inp) as [[d r]| | |] withE E0; try congruence.
  pose proof (type_canonical 48 _ _ _ HB HM E0) as C0.
  assert (HBd : bytes_okP d /\ len d <= INT_MAX).
  { rewrite C0 in HB, HM. apply bytes_cons in HB. destruct HB as [_ HB]. apply bytes_app in HB. destruct HB as [_ HB].
    apply bytes_app in HB. split; [apply HB|]. rewrite len_cons, !len_app in HM. lia. }
  destruct HBd as [HBd HMd].
  dest (type_from_der 4 d) as [[h' d1]| | |] withE E1; try congruence.
  pose proof (type_canonical 4 _ _ _ HBd HMd E1) as C1.
  assert (HB1 : bytes_okP d1 /\ len d1 <= INT_MAX).
  { rewrite C1 in HBd, HMd. apply bytes_cons in HBd. destruct HBd as [_ HBd]. apply bytes_app in HBd. destruct HBd as [_ HBd].
    apply bytes_app in HBd. split; [apply HBd|]. rewrite len_cons, !len_app in HMd. lia. }
  destruct HB1 as [HB1 HM1].
  dest (bit_octets_from_der Fixed 3 d1) as [[Sg' d2]| | |] withE E2; try congruence.
  pose proof (bit_octets_canonical _ _ _ HB1 HM1 E2) as C2.
  destruct (N.eqb_spec (len h') 32) as [L1|]; cbn [negb orb] in H; [|congruence].
  destruct (N.eqb_spec (len Sg') 65) as [L2|]; cbn [negb orb] in H; [|congruence].
  destruct (N.eqb_spec (len d2) 0) as [L3|]; cbn [negb orb] in H; [|congruence].
  destruct (N.leb_spec sm9_N (be_to_N h')); [congruence|].
  dest (point_ok Sg') withE EP; cbn [negb] in H; [|congruence].
  injection H as <- <- <-. apply len_0 in L3. subst d2. rewrite app_nil_r in C2.
  repeat split; try assumption.
  rewrite C0 at 1. unfold sig_to_der, seq_tlv. rewrite C1, C2. unfold octets_tlv.
  repeat (progress cbn [app] || rewrite <- app_assoc). reflexivity.
Qed.

Theorem sig_canonical inp h Sg : bytes_okP inp -> len inp <= INT_MAX ->
  sig_decode inp = Ok (h, Sg) -> inp = sig_to_der h Sg /\ len inp = 104.
Proof.
  intros HB HM H. unfold sig_decode in H.
  dest (sig_from_der inp) as [[[h' Sg'] r]| | |] withE E; try congruence.
  destruct (N.eqb_spec (len r) 0) as [L|]; [|congruence]. injection H as <- <-.
  apply len_0 in L. subst r.
  destruct (sig_from_der_inv _ _ _ _ HB HM E) as (-> & L1 & L2 & _ & _). rewrite app_nil_r.
  split; [reflexivity|].
  unfold sig_to_der, seq_tlv, octets_tlv, bitoct_tlv. rewrite !len_cons, !len_app, !len_cons, !len_app, !len_cons, L1, L2.
  reflexivity.
Qed.

Theorem sig_roundtrip h Sg : len h = 32 -> len Sg = 65 -> be_to_N h < sm9_N -> point_ok Sg = true ->
  sig_decode (sig_to_der h Sg) = Ok (h, Sg).
Proof.
  intros L1 L2 Hh HP. unfold sig_decode, sig_from_der, sig_to_der, seq_tlv.
  rewrite <- (app_nil_r (octets_tlv h ++ bitoct_tlv Sg)) at 2.
  assert (LB : len (octets_tlv h ++ bitoct_tlv Sg) = 102).
  { unfold octets_tlv, bitoct_tlv. rewrite !len_app, !len_cons, !len_app, !len_cons, L1, L2. reflexivity. }
  rewrite type_roundtrip by (rewrite LB; unfold INT_MAX; lia).
  rewrite octets_roundtrip by (rewrite L1; unfold INT_MAX; lia).
  rewrite <- (app_nil_r (bitoct_tlv Sg)).
  rewrite bit_octets_roundtrip by (rewrite L2; unfold INT_MAX; lia).
  rewrite L1, L2. cbn [N.eqb negb orb len length N.of_nat Pos.eqb].
  destruct (N.leb_spec sm9_N (be_to_N h)); [lia|]. rewrite HP. reflexivity.
Qed.

(* any proper extension or truncation of an accepted buffer is refused *)
Theorem sig_length_strict inp inp' h Sg v : bytes_okP inp -> bytes_okP inp' -> len inp' <= INT_MAX ->
  len inp <= INT_MAX -> sig_decode inp = Ok (h, Sg) -> len inp' <> len inp -> sig_decode inp' <> Ok v.
Proof.
  intros HB HB' HM' HM H Hne H'. destruct v as [h' Sg'].
  destruct (sig_canonical _ _ _ HB HM H) as [_ L]. destruct (sig_canonical _ _ _ HB' HM' H') as [_ L']. lia.
Qed.

Lemma ct_from_der_inv inp C1 c3 c2 rest : bytes_okP inp -> len inp <= INT_MAX ->
  ct_from_der inp = Ok (C1, c3, c2, rest) ->
  inp = ct_to_der C1 c3 c2 ++ rest /\ len C1 = 65 /\ len c3 = 32 /\ point_ok C1 = true.
Proof.
  intros HB HM H. unfold ct_from_der in H.
  dest (type_from_der 48 inp) as [[d r]| | |] withE E0; try congruence.
  pose proof (type_canonical 48 _ _ _ HB HM E0) as C0.
  assert (HBd : bytes_okP d /\ len d <= INT_MAX).
  { rewrite C0 in HB, HM. apply bytes_cons in HB. destruct HB as [_ HB]. apply bytes_app in HB. destruct HB as [_ HB].
    apply bytes_app in HB. split; [apply HB|]. rewrite len_cons, !len_app in HM. lia. }
  destruct HBd as [HBd HMd].
  dest (int_from_der Fixed 2 d) as [[ty d1]| | |] withE E1; try congruence.
  dest (bit_octets_from_der Fixed 3 d1) as [[C1' d2]| | |] withE E2; try congruence.
  dest (type_from_der 4 d2) as [[c3' d3]| | |] withE E3; try congruence.
  dest (type_from_der 4 d3) as [[c2' d4]| | |] withE E4; try congruence.
  destruct (N.eqb_spec (len d4) 0) as [L4|]; cbn [negb] in H; [|congruence].
  destruct (N.eqb_spec ty 0) as [->|]; cbn [negb] in H; [|congruence].
  destruct (N.eqb_spec (len C1') 65) as [L1|]; cbn [negb orb] in H; [|congruence].
  destruct (N.eqb_spec (len c3') 32) as [L3|]; cbn [negb orb] in H; [|congruence].
  dest (point_ok C1') withE EP; cbn [negb] in H; [|congruence].
  injection H as <- <- <- <-. apply len_0 in L4. subst d4.
  pose proof (int_zero_canonical _ _ HBd HMd E1) as C1.
  assert (HB1 : bytes_okP d1 /\ len d1 <= INT_MAX).
  { rewrite C1 in HBd, HMd. apply bytes_app in HBd. split; [apply HBd|]. rewrite len_app in HMd. lia. }
  destruct HB1 as [HB1 HM1].
  pose proof (bit_octets_canonical _ _ _ HB1 HM1 E2) as C2.
  assert (HB2 : bytes_okP d2 /\ len d2 <= INT_MAX).
  { rewrite C2 in HB1, HM1. apply bytes_app in HB1. split; [apply HB1|]. rewrite len_app in HM1. lia. }
  destruct HB2 as [HB2 HM2].
  pose proof (type_canonical 4 _ _ _ HB2 HM2 E3) as C3.
  assert (HB3 : bytes_okP d3 /\ len d3 <= INT_MAX).
  { rewrite C3 in HB2, HM2. apply bytes_cons in HB2. destruct HB2 as [_ HB2]. apply bytes_app in HB2. destruct HB2 as [_ HB2].
    apply bytes_app in HB2. split; [apply HB2|]. rewrite len_cons, !len_app in HM2. lia. }
  destruct HB3 as [HB3 HM3].
  pose proof (type_canonical 4 _ _ _ HB3 HM3 E4) as C4. rewrite app_nil_r in C4.
  repeat split; try assumption.
  rewrite C0 at 1. unfold ct_to_der, seq_tlv. rewrite C1, C2, C3, C4. unfold octets_tlv.
  repeat (progress cbn [app] || rewrite <- app_assoc). reflexivity.
Qed.

Theorem ct_canonical inp C1 c3 c2 : bytes_okP inp -> len inp <= INT_MAX ->
  ct_decode inp = Ok (C1, c3, c2) -> inp = ct_to_der C1 c3 c2 /\ len c2 <= 255.
Proof.
  intros HB HM H. unfold ct_decode in H.
  dest (ct_from_der inp) as [[[[C1' c3'] c2'] r]| | |] withE E; try congruence.
  destruct (N.eqb_spec (len r) 0) as [L|]; cbn [negb orb] in H; [|congruence].
  destruct (N.ltb_spec 255 (len c2')); [congruence|]. injection H as <- <- <-.
  apply len_0 in L. subst r.
  destruct (ct_from_der_inv _ _ _ _ _ HB HM E) as (-> & _). rewrite app_nil_r. split; [reflexivity | assumption].
Qed.

Theorem ct_roundtrip C1 c3 c2 : len C1 = 65 -> len c3 = 32 -> len c2 <= 255 -> point_ok C1 = true ->
  ct_decode (ct_to_der C1 c3 c2) = Ok (C1, c3, c2).
Proof.
  intros L1 L3 L2 HP. unfold ct_decode, ct_from_der, ct_to_der, seq_tlv.
  set (body := [2; 1; 0] ++ bitoct_tlv C1 ++ octets_tlv c3 ++ octets_tlv c2).
  assert (LB : len body <= 400).
  { unfold body, octets_tlv, bitoct_tlv. rewrite !len_app, !len_cons, !len_app, !len_cons, len_nil, L1, L3.
    assert (len (len_enc (len c2)) <= 5).
    { rewrite <- len_sz_eq. unfold len_sz, len_size. destruct (INT_MAX <? len c2); [lia|].
      destruct (len c2 <? 128); [lia|]. unfold len_nbytes. repeat destruct (_ <? _); lia. }
    change (len (len_enc (65 + 1))) with 1. change (len (len_enc 32)) with 1. lia. }
  rewrite <- (app_nil_r body) at 2.
  rewrite type_roundtrip by (unfold INT_MAX; lia).
  unfold body.
  assert (EI : int_from_der Fixed 2 ([2; 1; 0] ++ bitoct_tlv C1 ++ octets_tlv c3 ++ octets_tlv c2)
               = Ok (0, bitoct_tlv C1 ++ octets_tlv c3 ++ octets_tlv c2)).
  { apply (int_roundtrip 2 0%Z [2; 1; 0]); [lia | reflexivity]. }
  rewrite EI. rewrite bit_octets_roundtrip by (rewrite L1; unfold INT_MAX; lia).
  rewrite octets_roundtrip by (rewrite L3; unfold INT_MAX; lia).
  rewrite <- (app_nil_r (octets_tlv c2)). rewrite octets_roundtrip by (unfold INT_MAX; lia).
  rewrite L1, L3, HP. cbn [N.eqb negb orb len length N.of_nat Pos.eqb].
  destruct (N.ltb_spec 255 (len c2)); [lia|]. reflexivity.
Qed.

(* an accepted ciphertext followed by anything, or cut anywhere, is refused *)
Theorem ct_extension_refused inp x C1 c3 c2 v : bytes_okP (inp ++ x) -> len (inp ++ x) <= INT_MAX ->
  ct_decode inp = Ok (C1, c3, c2) -> x <> [] -> ct_decode (inp ++ x) <> Ok v.
Proof.
  intros HB HM H Hx H'. destruct v as [[C1' c3'] c2'].
  assert (HBi : bytes_okP inp) by (apply bytes_app in HB; apply HB).
  assert (HMi : len inp <= INT_MAX) by (rewrite len_app in HM; lia).
  destruct (ct_canonical _ _ _ _ HBi HMi H) as [E _]. destruct (ct_canonical _ _ _ _ HB HM H') as [E' _].
  (* both are SEQUENCE TLVs read from the same first byte: the outer header fixes the length *)
  unfold ct_to_der in E, E'.
  set (b := [2; 1; 0] ++ bitoct_tlv C1 ++ octets_tlv c3 ++ octets_tlv c2) in *.
  set (b' := [2; 1; 0] ++ bitoct_tlv C1' ++ octets_tlv c3' ++ octets_tlv c2') in *.
  assert (Lb : len b <= INT_MAX).
  { rewrite E in HMi. unfold seq_tlv in HMi. rewrite len_cons, len_app in HMi. lia. }
  assert (Lb' : len b' <= INT_MAX).
  { rewrite E' in HM. unfold seq_tlv in HM. rewrite len_cons, len_app in HM. lia. }
  assert (T1 : type_from_der 48 (seq_tlv b ++ x) = Ok (b, x)).
  { unfold seq_tlv. cbn [app]. rewrite <- app_assoc. apply type_roundtrip; assumption. }
  assert (T2 : type_from_der 48 (seq_tlv b' ++ []) = Ok (b', [])).
  { unfold seq_tlv. cbn [app]. rewrite <- app_assoc. apply type_roundtrip; assumption. }
  rewrite <- E in T1. rewrite app_nil_r, <- E' in T2. rewrite T1 in T2. injection T2 as _ Ex. exact (Hx Ex).
Qed.
End Sm9Der.

(* ---------------------------------------------------------------- password-encrypted key containers
   The four loaders sm9_{sign,enc}_{master_,}key_info_decrypt_from_der share one helper
   (sm9_private_key_info_decrypt_from_der) which, after sm9_private_key_info_from_der has refused
   keys longer than SM9_MAX_PRIVATE_KEY_SIZE, copies the decrypted key into the CALLER's local
   buffer - before the caller looks at the algorithm identifiers, so a container of any kind
   reaches the copy.  [info_helper_copy cap len]: Fault = the memcpy overruns a buffer of cap bytes. *)
Definition SM9_MAX_PRIVATE_KEY_SIZE : N := 204.
Definition info_helper_copy (cap prikey_len : N) : res N :=
  if SM9_MAX_PRIVATE_KEY_SIZE <? prikey_len then Err
  else if cap <? prikey_len then Fault
  else Ok prikey_len.
(* capacities of the callers' buffers [uint8_t prikey[..]] in src/sm9_key.c, in the order
   sign master key, sign key, enc master key, enc key.  Source-derived: props/C17/run.py re-reads
   the declarations (macros resolved by the harness) on every run and compares them with this table. *)
Definition info_caller_caps : list N := [204; 512; 512; 512].
Theorem info_copy_within_capacity :
  Forall (fun cap => forall l, info_helper_copy cap l <> Fault) info_caller_caps.
Proof.
  unfold info_caller_caps. repeat constructor; intros l; unfold info_helper_copy, SM9_MAX_PRIVATE_KEY_SIZE;
    destruct (N.ltb_spec 204 l); try congruence; match goal with |- context [?c <? l] => destruct (N.ltb_spec c l) end; try congruence; lia.
Qed.
(* a buffer of SM9_ENC_MASTER_KEY_MAX_SIZE = 105 bytes would be overrun by a 204-byte user key *)
Example info_copy_small_buffer_refuted : info_helper_copy 105 204 = Fault.
Proof. reflexivity. Qed.

(* sm9_z256_point_from_uncompressed_octets on 65 octets: tag 04, x < p, y < p, y^2 = x^3 + 5 *)
Definition sm9_p : N := 0xb640000002a3a6f1d603ab4ff58ec74521f2934b1a7aeedbe56f9b27e351457d.
Definition g1_octets_ok (o : list N) : bool :=
  match o with
  | 4 :: r =>
      let x := be_to_N (firstn 32 r) in
      let y := be_to_N (skipn 32 r) in
      (len r =? 64) && (x <? sm9_p) && (y <? sm9_p) && ((y * y) mod sm9_p =? (x * x * x + 5) mod sm9_p)
  | _ => false
  end.
Definition sm9_sig_from_der := sig_from_der g1_octets_ok.
Definition sm9_sig_decode := sig_decode g1_octets_ok.
Definition sm9_ct_from_der := ct_from_der g1_octets_ok.
Definition sm9_ct_decode := ct_decode g1_octets_ok.
