(* SM9 scheme algebra (GM/T 0044; src/sm9_key.c, sm9_sign.c, sm9_enc.c, sm9_exch.c) over an
   ABSTRACT pairing.  The groups, the pairing, the hash-to-range maps, the KDF and the MAC are
   Section variables; the group laws on the multiples of the generators, bilinearity on those
   multiples and the order-N law are Section hypotheses, i.e. explicit premises of every closed
   theorem (never axioms).  That sm9_z256_pairing IS such a map is NOT proved anywhere in this
   development; it is tested by props/C17. *)
From Coq Require Import ZArith Lia List Bool Setoid Morphisms.
Import ListNotations.
Open Scope Z_scope.

Section Scheme.
Variable Nn : Z.                                   (* the group order N *)
Variables G1 G2 GT : Type.
Variable P1 : G1.
Variable P2 : G2.
Variable add1 : G1 -> G1 -> G1.
Variable smul1 : Z -> G1 -> G1.
Variable add2 : G2 -> G2 -> G2.
Variable smul2 : Z -> G2 -> G2.
Variable mulT : GT -> GT -> GT.
Variable powT : GT -> Z -> GT.
Variable e : G1 -> G2 -> GT.                       (* e(P,Q), P in G1, Q in G2 *)
Variable Msg : Type.
Variable H2 : Msg -> GT -> Z.                      (* H2(M || w) *)

Definition E : GT := e P1 P2.

(* premises: group laws on the multiples of the generators, bilinearity, order N *)
Hypothesis N_pos : 0 < Nn.
Hypothesis smul1_1 : smul1 1 P1 = P1.
Hypothesis smul2_1 : smul2 1 P2 = P2.
Hypothesis smul1_smul1 : forall a b, smul1 a (smul1 b P1) = smul1 (a * b) P1.
Hypothesis smul1_add : forall a b, add1 (smul1 a P1) (smul1 b P1) = smul1 (a + b) P1.
Hypothesis smul2_add : forall a b, add2 (smul2 a P2) (smul2 b P2) = smul2 (a + b) P2.
Hypothesis bilinear : forall a b, e (smul1 a P1) (smul2 b P2) = powT E (a * b).
Hypothesis powT_powT : forall a b, powT (powT E a) b = powT E (a * b).
Hypothesis powT_mul : forall a b, mulT (powT E a) (powT E b) = powT E (a + b).
Hypothesis powT_order : forall a, powT E (a mod Nn) = powT E a.

(* congruence mod N *)
Definition eqN (a b : Z) : Prop := a mod Nn = b mod Nn.
Local Infix "==" := eqN (at level 70, no associativity).
#[local] Instance eqN_Equivalence : Equivalence eqN.
Proof. unfold eqN; split; [intros ?; reflexivity | intros ? ? ?; congruence | intros ? ? ? ? ?; congruence]. Qed.
#[local] Instance eqN_add_Proper : Proper (eqN ==> eqN ==> eqN) Z.add.
Proof. unfold eqN; intros a a' Ha b b' Hb. rewrite Z.add_mod, Ha, Hb, <- Z.add_mod by lia. reflexivity. Qed.
#[local] Instance eqN_mul_Proper : Proper (eqN ==> eqN ==> eqN) Z.mul.
Proof. unfold eqN; intros a a' Ha b b' Hb. rewrite Z.mul_mod, Ha, Hb, <- Z.mul_mod by lia. reflexivity. Qed.
#[local] Instance eqN_sub_Proper : Proper (eqN ==> eqN ==> eqN) Z.sub.
Proof. unfold eqN; intros a a' Ha b b' Hb. rewrite Zminus_mod, Ha, Hb, <- Zminus_mod. reflexivity. Qed.
Lemma eqN_mod a : a mod Nn == a. Proof. unfold eqN. apply Z.mod_mod; lia. Qed.
Lemma eqN_of_eq a b : a = b -> a == b. Proof. intros ->; reflexivity. Qed.
Lemma powT_congr a b : a == b -> powT E a = powT E b.
Proof. unfold eqN; intros H. rewrite <- (powT_order a), <- (powT_order b), H. reflexivity. Qed.

(* ---------------------------------------------------------------- key extraction *)
(* t1 = H1(ID||hid) + k mod N ; t2 = k * t1^-1 mod N.  The inverse is supplied with its defining
   property as a premise of the theorems (the C code computes t1^(N-2) mod N). *)
Definition t2_of (k t1inv : Z) : Z := (k * t1inv) mod Nn.
Definition sign_key (ks t1inv : Z) : G1 := smul1 (t2_of ks t1inv) P1.     (* ds = [t2]P1 *)
Definition enc_key (ke t1inv : Z) : G2 := smul2 (t2_of ke t1inv) P2.      (* de = [t2]P2 *)
Definition Ppubs (ks : Z) : G2 := smul2 ks P2.
Definition Ppube (ke : Z) : G1 := smul1 ke P1.

Lemma t2_key_equation k h1 t1inv : (h1 + k) * t1inv == 1 -> t2_of k t1inv * (h1 + k) == k.
Proof.
  intros Hinv. unfold t2_of. rewrite eqN_mod.
  transitivity (k * ((h1 + k) * t1inv)); [apply eqN_of_eq; ring |]. rewrite Hinv. apply eqN_of_eq; ring.
Qed.

Lemma e_P1_smul2 b : e P1 (smul2 b P2) = powT E b.
Proof. rewrite <- smul1_1 at 1. rewrite bilinear. f_equal; ring. Qed.
Lemma e_smul1_P2 a : e (smul1 a P1) P2 = powT E a.
Proof. rewrite <- smul2_1 at 1. rewrite bilinear. f_equal; ring. Qed.

(* ---------------------------------------------------------------- signature *)
(* sm9_do_sign for a drawn r: g = e(P1,Ppubs), w = g^r, h = H2(M||w), l = (r-h) mod N,
   retry (None) if l = 0, S = [l]ds *)
Definition sign (ds : G1) (pubs : G2) (r : Z) (m : Msg) : option (Z * G1) :=
  let g := e P1 pubs in
  let w := powT g r in
  let h := H2 m w in
  let l := (r - h) mod Nn in
  if l =? 0 then None else Some (h, smul1 l ds).
(* sm9_do_verify: t = g^h, P = [h1]P2 + Ppubs, u = e(S,P), w' = u*t, accept iff H2(M||w') = h *)
Definition verify_w (pubs : G2) (h1 : Z) (sg : Z * G1) : GT :=
  let g := e P1 pubs in
  let t := powT g (fst sg) in
  let P := add2 (smul2 h1 P2) pubs in
  let u := e (snd sg) P in
  mulT u t.
Definition verify (pubs : G2) (h1 : Z) (m : Msg) (sg : Z * G1) : bool :=
  H2 m (verify_w pubs h1 sg) =? fst sg.

(* the verification equation  e([r-h]ds, [h1]P2 + Ppubs) * g^h = g^r *)
Lemma verify_equation ks h1 t1inv r h :
  (h1 + ks) * t1inv == 1 ->
  verify_w (Ppubs ks) h1 (h, smul1 ((r - h) mod Nn) (sign_key ks t1inv)) = powT (e P1 (Ppubs ks)) r.
Proof.
  intros Hinv. unfold verify_w, sign_key, Ppubs; cbn [fst snd].
  rewrite e_P1_smul2, smul1_smul1, smul2_add, bilinear, !powT_powT, powT_mul.
  apply powT_congr. pose proof (t2_key_equation ks h1 t1inv Hinv) as Ht.
  set (t2 := t2_of ks t1inv) in *.
  transitivity ((r - h) mod Nn * (t2 * (h1 + ks)) + ks * h); [apply eqN_of_eq; ring |].
  rewrite Ht, eqN_mod. apply eqN_of_eq; ring.
Qed.

Theorem verify_sign ks h1 t1inv r m sg :
  (h1 + ks) * t1inv == 1 ->
  sign (sign_key ks t1inv) (Ppubs ks) r m = Some sg ->
  verify (Ppubs ks) h1 m sg = true.
Proof.
  intros Hinv. unfold sign. cbv zeta.
  destruct ((r - H2 m (powT (e P1 (Ppubs ks)) r)) mod Nn =? 0); [discriminate |].
  intros [= <-]. unfold verify. rewrite verify_equation by exact Hinv. cbn [fst]. apply Z.eqb_refl.
Qed.

(* decision rule: acceptance means exactly that the recomputed H2 equals the presented h *)
Theorem verify_decision pubs h1 m sg :
  verify pubs h1 m sg = true <-> H2 m (verify_w pubs h1 sg) = fst sg.
Proof. unfold verify. apply Z.eqb_eq. Qed.

(* ---------------------------------------------------------------- KEM / encryption *)
Variable Key : Type.
Variable KDF : G1 -> GT -> Key.                    (* KDF(C || w || ID, klen), ID fixed in context *)
(* sm9_kem_encrypt for a drawn r: Q = [h1]P1 + Ppube, C = [r]Q, w = e(Ppube,P2)^r *)
Definition kem_encrypt (pube : G1) (h1 r : Z) : G1 * Key :=
  let Q := add1 (smul1 h1 P1) pube in
  let C := smul1 r Q in
  let w := powT (e pube P2) r in
  (C, KDF C w).
(* sm9_kem_decrypt: w' = e(C, de) *)
Definition kem_decrypt (de : G2) (C : G1) : Key := KDF C (e C de).

Theorem kem_agree ke h1 t1inv r :
  (h1 + ke) * t1inv == 1 ->
  kem_decrypt (enc_key ke t1inv) (fst (kem_encrypt (Ppube ke) h1 r)) = snd (kem_encrypt (Ppube ke) h1 r).
Proof.
  intros Hinv. unfold kem_decrypt, kem_encrypt, enc_key, Ppube; cbn [fst snd]. f_equal.
  rewrite smul1_add, smul1_smul1, bilinear, e_smul1_P2, powT_powT.
  apply powT_congr. pose proof (t2_key_equation ke h1 t1inv Hinv) as Ht.
  set (t2 := t2_of ke t1inv) in *.
  transitivity (r * (t2 * (h1 + ke))); [apply eqN_of_eq; ring |]. rewrite Ht. apply eqN_of_eq; ring.
Qed.

(* sm9_do_encrypt / sm9_do_decrypt: c2 = m xor K1, c3 = MAC(K2, c2); decrypt recomputes the tag,
   compares, and only then releases m = c2 xor K1 *)
Variable Bytes Tag : Type.
Variable xor : Key -> Bytes -> Bytes.              (* K1 (the first |m| bytes of K) xor data *)
Variable mac : Key -> Bytes -> Tag.                (* HMAC-SM3 under K2 = K[|m| .. |m|+32) *)
Variable tag_eqb : Tag -> Tag -> bool.
Hypothesis xor_involutive : forall k m, xor k (xor k m) = m.
Hypothesis tag_eqb_refl : forall t, tag_eqb t t = true.

Definition encrypt (pube : G1) (h1 r : Z) (m : Bytes) : G1 * Bytes * Tag :=
  let '(C, K) := kem_encrypt pube h1 r in
  let c2 := xor K m in (C, c2, mac K c2).
Definition decrypt (de : G2) (ct : G1 * Bytes * Tag) : option Bytes :=
  let '(C, c2, c3) := ct in
  let K := kem_decrypt de C in
  if tag_eqb c3 (mac K c2) then Some (xor K c2) else None.

Theorem decrypt_encrypt ke h1 t1inv r m :
  (h1 + ke) * t1inv == 1 ->
  decrypt (enc_key ke t1inv) (encrypt (Ppube ke) h1 r m) = Some m.
Proof.
  intros Hinv. pose proof (kem_agree ke h1 t1inv r Hinv) as Hk.
  unfold encrypt, decrypt. destruct (kem_encrypt (Ppube ke) h1 r) as [C K] eqn:Ek.
  cbn [fst snd] in Hk. rewrite Hk, tag_eqb_refl, xor_involutive. reflexivity.
Qed.
(* decision rule: a plaintext is released only when the presented tag equals the recomputed one *)
Theorem decrypt_decision de C c2 c3 m :
  decrypt de (C, c2, c3) = Some m ->
  tag_eqb c3 (mac (kem_decrypt de C) c2) = true /\ m = xor (kem_decrypt de C) c2.
Proof.
  unfold decrypt. destruct (tag_eqb c3 (mac (kem_decrypt de C) c2)); [| discriminate].
  intros [= <-]. split; reflexivity.
Qed.

(* ---------------------------------------------------------------- key exchange *)
Variable SK : Type.
Variable KDFx : G1 -> G1 -> GT -> GT -> GT -> SK.  (* KDF(IDA||IDB||RA||RB||g1||g2||g3), IDs fixed *)
(* sm9_exch_step_1A: RA = [rA]([hB]P1 + Ppube) *)
Definition exch_RA (pube : G1) (hB rA : Z) : G1 := smul1 rA (add1 (smul1 hB P1) pube).
(* sm9_exch_step_1B: RB = [rB]([hA]P1 + Ppube); g1 = e(RA,deB), g2 = e(Ppube,P2)^rB, g3 = g1^rB *)
Definition exch_B (pube : G1) (hA rB : Z) (deB : G2) (RA : G1) : G1 * SK :=
  let RB := smul1 rB (add1 (smul1 hA P1) pube) in
  let g1 := e RA deB in
  let g2 := powT (e pube P2) rB in
  let g3 := powT g1 rB in
  (RB, KDFx RA RB g1 g2 g3).
(* sm9_exch_step_2A: g1 = e(Ppube,P2)^rA, g2 = e(RB,deA), g3 = g2^rA *)
Definition exch_A (pube : G1) (rA : Z) (deA : G2) (RA RB : G1) : SK :=
  let g1 := powT (e pube P2) rA in
  let g2 := e RB deA in
  let g3 := powT g2 rA in
  KDFx RA RB g1 g2 g3.

Theorem exchange_agrees ke hA hB tAinv tBinv rA rB :
  (hA + ke) * tAinv == 1 -> (hB + ke) * tBinv == 1 ->
  let RA := exch_RA (Ppube ke) hB rA in
  let '(RB, skB) := exch_B (Ppube ke) hA rB (enc_key ke tBinv) RA in
  exch_A (Ppube ke) rA (enc_key ke tAinv) RA RB = skB.
Proof.
  intros HA HB. cbv zeta. unfold exch_B, exch_A, exch_RA, enc_key, Ppube.
  pose proof (t2_key_equation ke hA tAinv HA) as HtA. pose proof (t2_key_equation ke hB tBinv HB) as HtB.
  set (tA := t2_of ke tAinv) in *. set (tB := t2_of ke tBinv) in *.
  rewrite !smul1_add, !smul1_smul1, !bilinear, !e_smul1_P2, !powT_powT.
  assert (E1 : powT E (ke * rA) = powT E (rA * (hB + ke) * tB)).
  { apply powT_congr. transitivity (rA * (tB * (hB + ke))); [| apply eqN_of_eq; ring].
    rewrite HtB. apply eqN_of_eq; ring. }
  assert (E2 : powT E (rB * (hA + ke) * tA) = powT E (ke * rB)).
  { apply powT_congr. transitivity (rB * (tA * (hA + ke))); [apply eqN_of_eq; ring |].
    rewrite HtA. apply eqN_of_eq; ring. }
  assert (E3 : powT E (rB * (hA + ke) * tA * rA) = powT E (rA * (hB + ke) * tB * rB)).
  { apply powT_congr.
    transitivity (rB * (tA * (hA + ke)) * rA); [apply eqN_of_eq; ring |].
    transitivity (rA * (tB * (hB + ke)) * rB); [| apply eqN_of_eq; ring].
    rewrite HtA, HtB. apply eqN_of_eq; ring. }
  rewrite E1, E2, E3. reflexivity.
Qed.
End Scheme.

(* ---------------------------------------------------------------- packaged statements
   A pairing setting and the premises under which the scheme theorems hold. *)
Record setting : Type := {
  sN : Z; sG1 : Type; sG2 : Type; sGT : Type; sP1 : sG1; sP2 : sG2;
  sadd1 : sG1 -> sG1 -> sG1; ssmul1 : Z -> sG1 -> sG1;
  sadd2 : sG2 -> sG2 -> sG2; ssmul2 : Z -> sG2 -> sG2;
  smulT : sGT -> sGT -> sGT; spowT : sGT -> Z -> sGT;
  se : sG1 -> sG2 -> sGT }.
Definition sE (S : setting) : sGT S := se S (sP1 S) (sP2 S).
(* group laws on the multiples of the generators, bilinearity there, order dividing N *)
Definition pairing_laws (S : setting) : Prop :=
  0 < sN S /\
  ssmul1 S 1 (sP1 S) = sP1 S /\ ssmul2 S 1 (sP2 S) = sP2 S /\
  (forall a b, ssmul1 S a (ssmul1 S b (sP1 S)) = ssmul1 S (a * b) (sP1 S)) /\
  (forall a b, sadd1 S (ssmul1 S a (sP1 S)) (ssmul1 S b (sP1 S)) = ssmul1 S (a + b) (sP1 S)) /\
  (forall a b, sadd2 S (ssmul2 S a (sP2 S)) (ssmul2 S b (sP2 S)) = ssmul2 S (a + b) (sP2 S)) /\
  (forall a b, se S (ssmul1 S a (sP1 S)) (ssmul2 S b (sP2 S)) = spowT S (sE S) (a * b)) /\
  (forall a b, spowT S (spowT S (sE S) a) b = spowT S (sE S) (a * b)) /\
  (forall a b, smulT S (spowT S (sE S) a) (spowT S (sE S) b) = spowT S (sE S) (a + b)) /\
  (forall a, spowT S (sE S) (a mod sN S) = spowT S (sE S) a).

Definition Ssign_key S ks t1inv := sign_key (sN S) (sG1 S) (sP1 S) (ssmul1 S) ks t1inv.
Definition Senc_key S ke t1inv := enc_key (sN S) (sG2 S) (sP2 S) (ssmul2 S) ke t1inv.
Definition SPpubs S ks := Ppubs (sG2 S) (sP2 S) (ssmul2 S) ks.
Definition SPpube S ke := Ppube (sG1 S) (sP1 S) (ssmul1 S) ke.
Definition Ssign S {Msg} (H2 : Msg -> sGT S -> Z) ds pubs r m :=
  sign (sN S) (sG1 S) (sG2 S) (sGT S) (sP1 S) (ssmul1 S) (spowT S) (se S) Msg H2 ds pubs r m.
Definition Sverify S {Msg} (H2 : Msg -> sGT S -> Z) pubs h1 m sg :=
  verify (sG1 S) (sG2 S) (sGT S) (sP1 S) (sP2 S) (sadd2 S) (ssmul2 S) (smulT S) (spowT S) (se S) Msg H2 pubs h1 m sg.
Definition Sencrypt S {Key Bytes Tag} (KDF : sG1 S -> sGT S -> Key) (xor : Key -> Bytes -> Bytes) (mac : Key -> Bytes -> Tag) pube h1 r m :=
  encrypt (sG1 S) (sG2 S) (sGT S) (sP1 S) (sP2 S) (sadd1 S) (ssmul1 S) (spowT S) (se S) Key KDF Bytes Tag xor mac pube h1 r m.
Definition Sdecrypt S {Key Bytes Tag} (KDF : sG1 S -> sGT S -> Key) (xor : Key -> Bytes -> Bytes) (mac : Key -> Bytes -> Tag) tag_eqb de ct :=
  decrypt (sG1 S) (sG2 S) (sGT S) (se S) Key KDF Bytes Tag xor mac tag_eqb de ct.
Definition Sexch_RA S pube hB rA := exch_RA (sG1 S) (sP1 S) (sadd1 S) (ssmul1 S) pube hB rA.
Definition Sexch_B S {SK} (KDFx : sG1 S -> sG1 S -> sGT S -> sGT S -> sGT S -> SK) pube hA rB deB RA :=
  exch_B (sG1 S) (sG2 S) (sGT S) (sP1 S) (sP2 S) (sadd1 S) (ssmul1 S) (spowT S) (se S) SK KDFx pube hA rB deB RA.
Definition Sexch_A S {SK} (KDFx : sG1 S -> sG1 S -> sGT S -> sGT S -> sGT S -> SK) pube rA deA RA RB :=
  exch_A (sG1 S) (sG2 S) (sGT S) (sP2 S) (spowT S) (se S) SK KDFx pube rA deA RA RB.

Theorem verify_sign_partial (S : setting) : pairing_laws S ->
  forall Msg (H2 : Msg -> sGT S -> Z) ks h1 t1inv r m sg,
  ((h1 + ks) * t1inv) mod sN S = 1 mod sN S ->
  Ssign S H2 (Ssign_key S ks t1inv) (SPpubs S ks) r m = Some sg ->
  Sverify S H2 (SPpubs S ks) h1 m sg = true.
Proof.
  intros (L0 & L1 & L2 & L3 & L4 & L5 & L6 & L7 & L8 & L9) Msg H2 ks h1 t1inv r m sg Hinv Hs.
  exact (verify_sign (sN S) (sG1 S) (sG2 S) (sGT S) (sP1 S) (sP2 S) (ssmul1 S) (sadd2 S) (ssmul2 S) (smulT S) (spowT S) (se S)
           Msg H2 L0 L1 L3 L5 L6 L7 L8 L9 ks h1 t1inv r m sg Hinv Hs).
Qed.

Theorem decrypt_encrypt_partial (S : setting) : pairing_laws S ->
  forall Key Bytes Tag (KDF : sG1 S -> sGT S -> Key) (xor : Key -> Bytes -> Bytes) (mac : Key -> Bytes -> Tag) (tag_eqb : Tag -> Tag -> bool),
  (forall k m, xor k (xor k m) = m) -> (forall t, tag_eqb t t = true) ->
  forall ke h1 t1inv r m,
  ((h1 + ke) * t1inv) mod sN S = 1 mod sN S ->
  Sdecrypt S KDF xor mac tag_eqb (Senc_key S ke t1inv) (Sencrypt S KDF xor mac (SPpube S ke) h1 r m) = Some m.
Proof.
  intros (L0 & L1 & L2 & L3 & L4 & L5 & L6 & L7 & L8 & L9) Key Bytes Tag KDF xor mac tag_eqb Hx Ht ke h1 t1inv r m Hinv.
  exact (decrypt_encrypt (sN S) (sG1 S) (sG2 S) (sGT S) (sP1 S) (sP2 S) (sadd1 S) (ssmul1 S) (ssmul2 S) (spowT S) (se S)
           L0 L2 L3 L4 L6 L7 L9 Key KDF Bytes Tag xor mac tag_eqb Hx Ht ke h1 t1inv r m Hinv).
Qed.

Theorem exchange_agrees_partial (S : setting) : pairing_laws S ->
  forall SK (KDFx : sG1 S -> sG1 S -> sGT S -> sGT S -> sGT S -> SK) ke hA hB tAinv tBinv rA rB,
  ((hA + ke) * tAinv) mod sN S = 1 mod sN S -> ((hB + ke) * tBinv) mod sN S = 1 mod sN S ->
  let RA := Sexch_RA S (SPpube S ke) hB rA in
  let RBsk := Sexch_B S KDFx (SPpube S ke) hA rB (Senc_key S ke tBinv) RA in
  Sexch_A S KDFx (SPpube S ke) rA (Senc_key S ke tAinv) RA (fst RBsk) = snd RBsk.
Proof.
  intros (L0 & L1 & L2 & L3 & L4 & L5 & L6 & L7 & L8 & L9) SK KDFx ke hA hB tAinv tBinv rA rB HA HB.
  pose proof (exchange_agrees (sN S) (sG1 S) (sG2 S) (sGT S) (sP1 S) (sP2 S) (sadd1 S) (ssmul1 S) (ssmul2 S) (spowT S) (se S)
           L0 L2 L3 L4 L6 L7 L9 SK KDFx ke hA hB tAinv tBinv rA rB HA HB) as H.
  cbv zeta in *. unfold Sexch_A, Sexch_B, Sexch_RA, SPpube, Senc_key.
  destruct (exch_B _ _ _ _ _ _ _ _ _ _ _ _ _ _ _ _) as [RB skB]. exact H.
Qed.

(* the premises are satisfiable: integers mod 11 with e(x,y) = x*y (additive notation in GT) *)
Definition toy : setting := {|
  sN := 11; sG1 := Z; sG2 := Z; sGT := Z; sP1 := 1; sP2 := 1;
  sadd1 := fun a b => (a + b) mod 11; ssmul1 := fun k a => (k * a) mod 11;
  sadd2 := fun a b => (a + b) mod 11; ssmul2 := fun k a => (k * a) mod 11;
  smulT := fun a b => (a + b) mod 11; spowT := fun g k => (g * k) mod 11;
  se := fun a b => (a * b) mod 11 |}.
Example pairing_laws_satisfiable : pairing_laws toy.
Proof.
  unfold pairing_laws, sE; cbn [toy sN sG1 sG2 sGT sP1 sP2 sadd1 ssmul1 sadd2 ssmul2 smulT spowT se].
  change ((1 * 1) mod 11) with 1.
  repeat split; try reflexivity; intros.
  - rewrite Z.mul_1_r, Z.mul_mod_idemp_r, Z.mul_1_r by lia. reflexivity.
  - rewrite !Z.mul_1_r, <- Z.add_mod by lia. reflexivity.
  - rewrite !Z.mul_1_r, <- Z.add_mod by lia. reflexivity.
  - rewrite !Z.mul_1_r, Z.mul_1_l, <- Z.mul_mod by lia. reflexivity.
  - rewrite !Z.mul_1_l, Z.mul_mod_idemp_l by lia. reflexivity.
  - rewrite !Z.mul_1_l, <- Z.add_mod by lia. reflexivity.
  - rewrite !Z.mul_1_l, Z.mod_mod by lia. reflexivity.
Qed.
