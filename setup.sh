#!/bin/sh
# Build the whole framework offline from files on disk: Coq development (full .vo
# build, never -vos), extracted OCaml model drivers, instrumented library + harnesses.
cd "$(dirname "$0")"
mkdir -p build ocaml/gen coq/Gen
python3 tools/pregen.py || echo 'pregen failed'
( cd coq && coq_makefile -f _CoqProject -o Makefile >/dev/null && timeout 10800 make -k -j16 ) > build/setup_coq.log 2>&1
echo "coq build exit: $? (log: build/setup_coq.log; -k: files of properties still under construction may fail without affecting the others)"
python3 - <<'PY'
import sys, os, json
sys.path.insert(0, '.')
from vlib import core
claimed = set()
for c in json.load(open('MANIFEST.json'))['checks']:
    claimed.add(c['property_id'])
    pf = os.path.join('props', c['property_id'], 'parts')
    if os.path.exists(pf):
        claimed.update(open(pf).read().split())
lib, log = core.build_lib('asan')
if lib is None:
    print(log[-3000:]); sys.exit(1)
bad = 0
# harnesses are compiled by the checks themselves (each run.py knows its own flags); here only
# the extracted model drivers, which need the Coq build
for d in sorted(os.listdir('props')):
    if os.path.exists(os.path.join('props', d, 'driver.ml')) and os.path.exists(os.path.join('coq', 'Extract', 'Extract%s.v' % d)):
        exe, log = core.build_model(d)
        if exe is None:
            print("%s: model build failed%s" % (d, "" if d in claimed else " (property not claimed yet; ignored)"))
            if d in claimed:
                print(log[-2000:]); bad = 1
print("setup ok" if not bad else "setup FAILED")
sys.exit(bad)
PY
