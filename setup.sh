#!/bin/sh
# Build the whole framework offline from files on disk: Coq development (full .vo
# build, never -vos), extracted OCaml model drivers, instrumented library + harnesses.
set -e
cd "$(dirname "$0")"
mkdir -p build ocaml/gen coq/Gen
( cd coq && coq_makefile -f _CoqProject -o Makefile >/dev/null && timeout 7200 make -j16 )
python3 - <<'PY'
import sys, os
sys.path.insert(0, '.')
from vlib import core
lib, log = core.build_lib('asan')
if lib is None:
    print(log[-3000:]); sys.exit(1)
for d in sorted(os.listdir('props')):
    if os.path.exists(os.path.join('props', d, 'driver.ml')):
        exe, log = core.build_model(d)
        if exe is None:
            print(log[-3000:]); sys.exit(1)
    if os.path.exists(os.path.join('props', d, 'harness.c')):
        exe, log = core.build_harness(d)
        if exe is None:
            print(log[-3000:]); sys.exit(1)
print("setup ok")
PY
