(* Conversions between OCaml ints / hex strings and the extracted inductive
   number types (positive, N, Z, nat).  Included textually after [open Model]. *)
let rec pos_of_int (i : int) : positive =
  if i <= 1 then XH else if i land 1 = 1 then XI (pos_of_int (i lsr 1)) else XO (pos_of_int (i lsr 1))
let n_of_int (i : int) : n = if i <= 0 then N0 else Npos (pos_of_int i)
let rec int_of_pos (p : positive) : int =
  match p with XH -> 1 | XO q -> 2 * int_of_pos q | XI q -> 2 * int_of_pos q + 1
let int_of_n (x : n) : int = match x with N0 -> 0 | Npos p -> int_of_pos p
let rec nat_of_int (i : int) : nat = if i <= 0 then O else S (nat_of_int (i - 1))
let rec int_of_nat (x : nat) : int = match x with O -> 0 | S k -> 1 + int_of_nat k
let z_of_int (i : int) : z = if i = 0 then Z0 else if i > 0 then Zpos (pos_of_int i) else Zneg (pos_of_int (-i))
let int_of_z (x : z) : int = match x with Z0 -> 0 | Zpos p -> int_of_pos p | Zneg p -> - (int_of_pos p)

let hexval c = match c with
  | '0'..'9' -> Char.code c - 48 | 'a'..'f' -> Char.code c - 87 | 'A'..'F' -> Char.code c - 55
  | _ -> failwith "hex"
(* "-" denotes the empty string *)
let bytes_of_hex (s : string) : n list =
  if s = "-" then [] else begin
    let l = String.length s / 2 in
    let rec go i acc = if i < 0 then acc
      else go (i - 1) (n_of_int (hexval s.[2*i] * 16 + hexval s.[2*i+1]) :: acc) in
    go (l - 1) [] end
let hex_of_bytes (l : n list) : string =
  if l = [] then "-" else begin
    let b = Buffer.create 64 in
    List.iter (fun x -> Buffer.add_string b (Printf.sprintf "%02x" (int_of_n x land 255))) l;
    Buffer.contents b end
(* big numbers: hex string (big-endian, any length) <-> N *)
let bign_of_hex (s : string) : n =
  let len = String.length s in
  (* build positive from most significant bit down *)
  let acc = ref N0 in
  for i = 0 to len - 1 do
    let v = hexval s.[i] in
    for b = 3 downto 0 do
      let bit = (v lsr b) land 1 in
      acc := (match !acc with
        | N0 -> if bit = 1 then Npos XH else N0
        | Npos p -> Npos (if bit = 1 then XI p else XO p))
    done
  done; !acc
let hex_of_bign ?(width=0) (x : n) : string =
  (* collect bits LSB first *)
  let bits = ref [] in
  (match x with N0 -> () | Npos p ->
    let rec go p = match p with
      | XH -> bits := 1 :: !bits
      | XO q -> bits := 0 :: !bits; go q
      | XI q -> bits := 1 :: !bits; go q in
    (* go yields MSB-first when consing LSB first then recursing: build LSB-first list instead *)
    let rec lsb p acc = match p with
      | XH -> List.rev (1 :: acc) | XO q -> lsb q (0 :: acc) | XI q -> lsb q (1 :: acc) in
    ignore go; bits := lsb p []);
  let arr = Array.of_list !bits in  (* LSB first *)
  let nb = Array.length arr in
  let nd = max ((nb + 3) / 4) 1 in
  let nd = max nd width in
  let b = Bytes.make nd '0' in
  for d = 0 to nd - 1 do
    let v = ref 0 in
    for k = 0 to 3 do
      let idx = d * 4 + k in
      if idx < nb && arr.(idx) = 1 then v := !v lor (1 lsl k)
    done;
    Bytes.set b (nd - 1 - d) ("0123456789abcdef".[!v])
  done; Bytes.to_string b
let bigz_of_hex (s : string) : z =
  if String.length s > 0 && s.[0] = '-' && String.length s > 1 then
    (match bign_of_hex (String.sub s 1 (String.length s - 1)) with N0 -> Z0 | Npos p -> Zneg p)
  else (match bign_of_hex s with N0 -> Z0 | Npos p -> Zpos p)
let hex_of_bigz ?(width=0) (x : z) : string =
  match x with Z0 -> hex_of_bign ~width N0 | Zpos p -> hex_of_bign ~width (Npos p)
  | Zneg p -> "-" ^ hex_of_bign ~width (Npos p)

let split_on c s = String.split_on_char c s
(* comma-separated chunks of hex; "." denotes the empty list of chunks *)
let chunks_of (s : string) : n list list =
  if s = "." then [] else List.map bytes_of_hex (split_on ',' s)
let words (line : string) : string list =
  List.filter (fun w -> w <> "") (split_on ' ' (String.trim line))

let main_loop (handle : string list -> string) =
  (try while true do
    let line = input_line stdin in
    let ws = words line in
    (match ws with
     | [] -> print_string "\n"
     | _ -> (try print_string (handle ws) with e -> print_string ("MODEL-EXN " ^ Printexc.to_string e));
            print_string "\n")
  done with End_of_file -> ());
  flush stdout
